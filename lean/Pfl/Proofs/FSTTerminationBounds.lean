/-
Termination of `FST.translate`: the finite universes of configurations and the two invariants.

* every configuration met has a suffix of `w` as remaining input, a generated word over the output
  symbols of `delta` and a state among the start states and the targets of `delta`
  (`Base`, `cfgUniverse`, `cfgCount`);
* with a length bound `m`, `|gen| + L * |rem| ≤ m + L * (|w| + 1)` (`Inv1`; `L = maxOut T`);
* without bound, for silent ε-cycles: an ε-path writes at most `|delta| * L` symbols
  (`eps_out_le`, by cutting the cycles out of the path), hence
  `|gen| ≤ (|delta| * L + L) * |w| + |delta| * L` (`Inv2`).
-/
import Pfl.Proofs.FSTTermination
import Mathlib.Data.List.Nodup
import Mathlib.Data.List.Perm.Subperm

namespace Pfl
namespace FST
namespace Term
open Lem
set_option linter.unusedSectionVars false
variable {σ : Type} [DecidableEq σ]

/-! ### sizes -/

/-- the longest output of a transition -/
def maxOut (T : FST σ) : Nat := (T.delta.map fun t => t.2.2.2.length).foldr max 0

theorem le_foldr_max {l : List Nat} {x : Nat} (h : x ∈ l) : x ≤ l.foldr max 0 := by
  induction l with
  | nil => cases h
  | cons y l ih =>
    simp only [List.foldr_cons]
    rcases List.mem_cons.mp h with rfl | h
    · exact Nat.le_max_left _ _
    · exact Nat.le_trans (ih h) (Nat.le_max_right _ _)

theorem le_maxOut {T : FST σ} {q r : σ} {a : Option String} {o : List String}
    (h : (q, a, r, o) ∈ T.delta) : o.length ≤ maxOut T :=
  le_foldr_max (List.mem_map.mpr ⟨_, h, rfl⟩)

/-- the output symbols that occur in `delta` -/
def alph (T : FST σ) : List String := T.delta.flatMap fun t => t.2.2.2

/-- start states and targets of transitions -/
def stateList (T : FST σ) : List σ := T.starts ++ T.delta.map fun t => t.2.2.1

theorem length_flatMap_le {α β : Type} (l : List α) (f : α → List β) (M : Nat)
    (h : ∀ x ∈ l, (f x).length ≤ M) : (l.flatMap f).length ≤ l.length * M := by
  induction l with
  | nil => simp
  | cons x l ih =>
    have h1 := h x List.mem_cons_self
    have h2 := ih (fun y hy => h y (List.mem_cons_of_mem _ hy))
    simp only [List.flatMap_cons, List.length_append, List.length_cons, Nat.succ_mul]
    omega

theorem length_alph_le (T : FST σ) : (alph T).length ≤ T.delta.length * maxOut T :=
  length_flatMap_le _ _ _ (fun ⟨_, _, _, _⟩ ht => le_maxOut ht)

/-- all words over `A` of length at most `n` -/
def wordsLE (A : List String) : Nat → List (List String)
  | 0 => [[]]
  | n + 1 => [] :: (A ×ˢ wordsLE A n).map fun p => p.1 :: p.2

theorem mem_wordsLE (A : List String) :
    ∀ (n : Nat) (g : List String), g.length ≤ n → (∀ x ∈ g, x ∈ A) → g ∈ wordsLE A n
  | 0, g, h, _ => by
    have : g = [] := List.length_eq_zero_iff.mp (by omega)
    subst this
    simp [wordsLE]
  | n + 1, [], _, _ => by simp [wordsLE]
  | n + 1, x :: g, h, hA => by
    have := mem_wordsLE A n g (by simpa using h) (fun y hy => hA y (List.mem_cons_of_mem _ hy))
    simp only [wordsLE, List.mem_cons, List.mem_map]
    right
    exact ⟨(x, g), List.mem_product.mpr ⟨hA x List.mem_cons_self, this⟩, rfl⟩

theorem length_wordsLE_le (A : List String) (n : Nat) :
    (wordsLE A n).length ≤ (A.length + 1) ^ n := by
  induction n with
  | zero => simp [wordsLE]
  | succ n ih =>
    simp only [wordsLE, List.length_cons, List.length_map, List.length_product]
    have h1 : 1 ≤ (A.length + 1) ^ n := Nat.one_le_pow _ _ (by omega)
    have h2 := Nat.mul_le_mul_left A.length ih
    rw [Nat.pow_succ, Nat.mul_succ, Nat.mul_comm ((A.length + 1) ^ n) A.length]
    omega

/-- the universe of configurations with a generated word of length at most `B` -/
def cfgUniverse (T : FST σ) (w : List String) (B : Nat) : List (Cfg σ) :=
  w.tails ×ˢ (wordsLE (alph T) B ×ˢ stateList T)

/-- an upper bound for the number of configurations with a generated word of length at most `B` -/
def cfgCount (T : FST σ) (w : List String) (B : Nat) : Nat :=
  (w.length + 1) * ((T.delta.length * maxOut T + 1) ^ B * (T.starts.length + T.delta.length))

/-- the fuel that is enough when the generated words stay within length `B` -/
def fuelFor (T : FST σ) (w : List String) (B : Nat) : Nat :=
  T.starts.length + T.delta.length * cfgCount T w B

theorem length_cfgUniverse_le (T : FST σ) (w : List String) (B : Nat) :
    (cfgUniverse T w B).length ≤ cfgCount T w B := by
  simp only [cfgUniverse, List.length_product, List.length_tails, stateList, List.length_append,
    List.length_map, cfgCount]
  apply Nat.mul_le_mul_left
  apply Nat.mul_le_mul_right
  refine Nat.le_trans (length_wordsLE_le _ _) (Nat.pow_le_pow_left ?_ _)
  have := length_alph_le T
  omega

/-- the part of the invariant that does not depend on the length bound -/
def Base (T : FST σ) (w : List String) (c : Cfg σ) : Prop :=
  c.1 <:+ w ∧ (∀ x ∈ c.2.1, x ∈ alph T) ∧ c.2.2 ∈ stateList T

theorem mem_cfgUniverse {T : FST σ} {w : List String} {B : Nat} {c : Cfg σ} (h : Base T w c)
    (hB : c.2.1.length ≤ B) : c ∈ cfgUniverse T w B := by
  obtain ⟨rem, gen, q⟩ := c
  exact List.mem_product.mpr ⟨(List.mem_tails _ _).mpr h.1,
    List.mem_product.mpr ⟨mem_wordsLE _ _ _ hB h.2.1, h.2.2⟩⟩

theorem base_start {T : FST σ} {w : List String} {s : σ} (hs : s ∈ T.starts) :
    Base T w (w, [], s) :=
  ⟨List.suffix_refl w, by simp, List.mem_append_left _ hs⟩

theorem base_next {T : FST σ} {w : List String} {ml : Option Nat} {c c' : Cfg σ}
    (h : Base T w c) (hc : c' ∈ next T ml c) : Base T w c' := by
  obtain ⟨h1, h2, h3⟩ := h
  have key : ∀ (a : Option String) (r : σ) (o : List String), (c.2.2, a, r, o) ∈ T.delta →
      (∀ x ∈ c.2.1 ++ o, x ∈ alph T) ∧ r ∈ stateList T := by
    intro a r o ht
    refine ⟨?_, List.mem_append_right _ (List.mem_map.mpr ⟨_, ht, rfl⟩)⟩
    intro x hx
    rcases List.mem_append.mp hx with hx | hx
    · exact h2 x hx
    · exact List.mem_flatMap.mpr ⟨_, ht, hx⟩
  rcases mem_next hc with ⟨a, rest, r, o, hrem, ht, rfl⟩ | ⟨r, o, ht, _, rfl⟩
  · refine ⟨?_, key _ r o ht⟩
    rw [hrem] at h1
    exact (List.suffix_cons a rest).trans h1
  · exact ⟨h1, key _ r o ht⟩

/-! ### ε-paths write little when ε-cycles are silent -/

/-- an ε-path given by the list of (target, output) of its transitions -/
def IsTrace (T : FST σ) : σ → List (σ × List String) → σ → Prop
  | q, [], r => q = r
  | q, p :: ts, r => (q, none, p.1, p.2) ∈ T.delta ∧ IsTrace T p.1 ts r

/-- what a trace writes -/
def outs (ts : List (σ × List String)) : List String := ts.flatMap fun p => p.2

theorem outs_append (a b : List (σ × List String)) : outs (a ++ b) = outs a ++ outs b :=
  List.flatMap_append

theorem trace_path {T : FST σ} : ∀ (ts : List (σ × List String)) (q r : σ),
    IsTrace T q ts r → T.Path q [] (outs ts) r
  | [], q, r, h => by
    have : q = r := h
    subst this
    exact Path.nil q
  | p :: ts, q, r, h => by
    obtain ⟨h1, h2⟩ := h
    exact Path.eps h1 (trace_path ts p.1 r h2)

theorem trace_append {T : FST σ} : ∀ (a b : List (σ × List String)) (q r : σ),
    IsTrace T q (a ++ b) r ↔ ∃ x, IsTrace T q a x ∧ IsTrace T x b r
  | [], b, q, r => by
    constructor
    · intro h; exact ⟨q, rfl, h⟩
    · rintro ⟨x, hx, h⟩
      have : q = x := hx
      subst this
      exact h
  | p :: a, b, q, r => by
    show (_ ∧ IsTrace T p.1 (a ++ b) r) ↔ ∃ x, (_ ∧ IsTrace T p.1 a x) ∧ _
    rw [trace_append a b p.1 r]
    constructor
    · rintro ⟨h1, x, h2, h3⟩; exact ⟨x, ⟨h1, h2⟩, h3⟩
    · rintro ⟨x, ⟨h1, h2⟩, h3⟩; exact ⟨h1, x, h2, h3⟩

theorem trace_edges {T : FST σ} : ∀ (ts : List (σ × List String)) (q r : σ),
    IsTrace T q ts r → ∀ p ∈ ts, p.1 ∈ T.delta.map (fun t => t.2.2.1) ∧ p.2.length ≤ maxOut T
  | [], _, _, _ => by simp
  | p' :: ts, q, r, h => by
    obtain ⟨h1, h2⟩ := h
    intro p hp
    rcases List.mem_cons.mp hp with rfl | hp
    · exact ⟨List.mem_map.mpr ⟨_, h1, rfl⟩, le_maxOut h1⟩
    · exact trace_edges ts _ r h2 p hp

/-- cutting out the (silent) cycles: an ε-path can be replaced by a simple one writing the same -/
theorem eps_simple {T : FST σ} (hS : EpsCyclesSilent T) {q r : σ} {i o : List String}
    (h : T.Path q i o r) : i = [] →
      ∃ ts, IsTrace T q ts r ∧ outs ts = o ∧ (q :: ts.map (·.1)).Nodup := by
  induction h with
  | nil q => intro _; exact ⟨[], rfl, rfl, by simp⟩
  | @read q r s a i o o' he _ _ => intro hi; cases hi
  | @eps q r s i o o' he hp ih =>
    intro hi
    subst hi
    obtain ⟨ts, htr, hout, hnd⟩ := ih rfl
    by_cases hq : q ∈ r :: ts.map (·.1)
    · rcases List.mem_cons.mp hq with rfl | hq
      · -- the first move is a loop at `q`
        have := hS q o (path_eps_one he)
        subst this
        exact ⟨ts, htr, by simpa using hout, hnd⟩
      · -- the path comes back to `q`: drop everything up to the last such visit
        obtain ⟨⟨x, ox⟩, hmem, hx⟩ := List.mem_map.mp hq
        dsimp only at hx
        subst hx
        obtain ⟨ts1, ts2, rfl⟩ := List.append_of_mem hmem
        have htr' : IsTrace T r ((ts1 ++ [(x, ox)]) ++ ts2) s := by simpa using htr
        obtain ⟨y, hy1, hy2⟩ := (trace_append _ _ _ _).mp htr'
        obtain ⟨z, _, hz2⟩ := (trace_append _ _ _ _).mp hy1
        have hyx : x = y := hz2.2
        subst hyx
        have hcyc : T.Path x [] (o ++ outs (ts1 ++ [(x, ox)])) x :=
          Path.eps he (trace_path _ _ _ hy1)
        have hnil := hS _ _ hcyc
        refine ⟨ts2, hy2, ?_, ?_⟩
        · rw [← hout]
          have e : outs (ts1 ++ (x, ox) :: ts2) = outs (ts1 ++ [(x, ox)]) ++ outs ts2 := by
            rw [← outs_append]; simp
          rw [e, ← List.append_assoc, hnil]
          rfl
        · refine List.Nodup.sublist ?_ hnd
          simp only [List.map_append, List.map_cons]
          exact (List.sublist_append_right _ _).cons _
    · exact ⟨(r, o) :: ts, ⟨he, htr⟩, by simp [outs, ← hout], List.nodup_cons.mpr ⟨hq, hnd⟩⟩

theorem outs_length_le (ts : List (σ × List String)) (L : Nat) (h : ∀ p ∈ ts, p.2.length ≤ L) :
    (outs ts).length ≤ ts.length * L :=
  length_flatMap_le _ _ _ h

/-- an ε-path writes at most `|delta| * L` symbols when ε-cycles are silent -/
theorem eps_out_le {T : FST σ} (hS : EpsCyclesSilent T) {q r : σ} {o : List String}
    (h : T.Path q [] o r) : o.length ≤ T.delta.length * maxOut T := by
  obtain ⟨ts, htr, rfl, hnd⟩ := eps_simple hS h rfl
  have hed := trace_edges ts q r htr
  have h1 := outs_length_le ts (maxOut T) (fun p hp => (hed p hp).2)
  have hnd' : (ts.map (·.1)).Nodup := (List.nodup_cons.mp hnd).2
  have hsub : ts.map (·.1) ⊆ T.delta.map (fun t => t.2.2.1) := by
    intro x hx
    obtain ⟨p, hp, rfl⟩ := List.mem_map.mp hx
    exact (hed p hp).1
  have h2 := (hnd'.subperm hsub).length_le
  simp only [List.length_map] at h2
  exact Nat.le_trans h1 (Nat.mul_le_mul_right _ h2)

/-- a sufficient, decidable criterion: a rank that no ε-move increases and every writing ε-move
decreases -/
theorem epsCyclesSilent_of_rank (T : FST σ) (rk : σ → Nat)
    (h : ∀ t ∈ T.delta, t.2.1 = none →
      rk t.2.2.1 ≤ rk t.1 ∧ (t.2.2.2 ≠ [] → rk t.2.2.1 < rk t.1)) : EpsCyclesSilent T := by
  have aux : ∀ {q r : σ} {i o : List String}, T.Path q i o r → i = [] →
      rk r ≤ rk q ∧ (o ≠ [] → rk r < rk q) := by
    intro q r i o hp
    induction hp with
    | nil q => intro _; exact ⟨Nat.le_refl _, fun h => absurd rfl h⟩
    | read he _ _ => intro hi; cases hi
    | @eps q r s i o o' he _ ih =>
      intro hi
      obtain ⟨h1, h2⟩ := ih hi
      obtain ⟨h3, h4⟩ := h _ he rfl
      dsimp only at h3 h4
      refine ⟨Nat.le_trans h1 h3, ?_⟩
      intro hne
      by_cases ho : o = []
      · subst ho
        have := h2 (by simpa using hne)
        omega
      · have := h4 ho
        omega
  intro q o hp
  by_contra hne
  have := (aux hp rfl).2 hne
  omega

/-! ### the invariant under a length bound -/

def Inv1 (T : FST σ) (w : List String) (m : Nat) (c : Cfg σ) : Prop :=
  Base T w c ∧ c.2.1.length + maxOut T * c.1.length ≤ m + maxOut T * (w.length + 1)

theorem inv1_next {T : FST σ} {w : List String} {m : Nat} {c c' : Cfg σ}
    (h : Inv1 T w m c) (hc : c' ∈ next T (some m) c) : Inv1 T w m c' := by
  refine ⟨base_next h.1 hc, ?_⟩
  have hb := h.2
  have hsuf := h.1.1.length_le
  rcases mem_next hc with ⟨a, rest, r, o, hrem, ht, rfl⟩ | ⟨r, o, ht, hm, rfl⟩
  · have ho := le_maxOut ht
    rw [hrem, List.length_cons, Nat.mul_succ] at hb
    simp only [List.length_append]
    omega
  · have ho := le_maxOut ht
    have hlt := hm m rfl
    have := Nat.mul_le_mul_left (maxOut T) hsuf
    rw [Nat.mul_succ]
    simp only [List.length_append]
    omega

/-- (T1) with a length bound the exploration always ends -/
theorem translate_bounded_isSome (T : FST σ) (w : List String) (m fuel : Nat)
    (hf : fuelFor T w (m + maxOut T * (w.length + 1)) ≤ fuel) :
    (T.translate w (some m) fuel).isSome := by
  unfold translate
  apply loop_isSome T (some m) (Inv1 T w m) (cfgUniverse T w (m + maxOut T * (w.length + 1)))
  · intro c hc
    refine mem_cfgUniverse hc.1 ?_
    have := hc.2
    omega
  · intro c c' hc hc'
    exact inv1_next hc hc'
  · intro c hc
    simp only [List.mem_map, List.mem_reverse] at hc
    obtain ⟨s, hs, rfl⟩ := hc
    refine ⟨base_start hs, ?_⟩
    simp only [List.length_nil, Nat.zero_add, Nat.mul_succ]
    omega
  · have h1 := Nat.le_trans (unseen_le (cfgUniverse T w (m + maxOut T * (w.length + 1))) [])
      (length_cfgUniverse_le T w _)
    have h2 := Nat.mul_le_mul_left T.delta.length h1
    simp only [List.length_map, List.length_reverse]
    unfold fuelFor at hf
    omega

/-! ### the invariant without bound, for silent ε-cycles -/

/-- the bound on the length of the generated words -/
def silentBound (T : FST σ) (w : List String) : Nat :=
  (T.delta.length * maxOut T + maxOut T) * w.length + T.delta.length * maxOut T

def Inv2 (T : FST σ) (w : List String) (c : Cfg σ) : Prop :=
  Base T w c ∧ ∃ (g0 : List String) (q0 : σ) (o : List String),
    c.2.1 = g0 ++ o ∧ T.Path q0 [] o c.2.2 ∧
    g0.length + (T.delta.length * maxOut T + maxOut T) * c.1.length ≤
      (T.delta.length * maxOut T + maxOut T) * w.length

theorem inv2_length {T : FST σ} (hS : EpsCyclesSilent T) {w : List String} {c : Cfg σ}
    (h : Inv2 T w c) : c.2.1.length ≤ silentBound T w := by
  obtain ⟨_, g0, q0, o, hg, hp, hb⟩ := h
  have := eps_out_le hS hp
  rw [hg, List.length_append]
  unfold silentBound
  omega

theorem inv2_next {T : FST σ} (hS : EpsCyclesSilent T) {w : List String} {c c' : Cfg σ}
    (h : Inv2 T w c) (hc : c' ∈ next T none c) : Inv2 T w c' := by
  refine ⟨base_next h.1 hc, ?_⟩
  obtain ⟨_, g0, q0, o, hg, hp, hb⟩ := h
  rcases mem_next hc with ⟨a, rest, r, ot, hrem, ht, rfl⟩ | ⟨r, ot, ht, _, rfl⟩
  · have ho := le_maxOut ht
    have hE := eps_out_le hS hp
    refine ⟨c.2.1 ++ ot, r, [], by simp, Path.nil r, ?_⟩
    rw [hrem, List.length_cons, Nat.mul_succ] at hb
    rw [hg]
    simp only [List.length_append]
    omega
  · refine ⟨g0, q0, o ++ ot, ?_, path_snoc_eps hp ht, hb⟩
    dsimp only
    rw [hg, List.append_assoc]

/-- (T2) without bound the exploration ends when ε-cycles are silent -/
theorem translate_isSome (T : FST σ) (hS : EpsCyclesSilent T) (w : List String) (fuel : Nat)
    (hf : fuelFor T w (silentBound T w) ≤ fuel) : (T.translate w none fuel).isSome := by
  unfold translate
  apply loop_isSome T none (Inv2 T w) (cfgUniverse T w (silentBound T w))
  · intro c hc
    exact mem_cfgUniverse hc.1 (inv2_length hS hc)
  · intro c c' hc hc'
    exact inv2_next hS hc hc'
  · intro c hc
    simp only [List.mem_map, List.mem_reverse] at hc
    obtain ⟨s, hs, rfl⟩ := hc
    refine ⟨base_start hs, [], s, [], rfl, Path.nil s, ?_⟩
    simp
  · have h1 := Nat.le_trans (unseen_le (cfgUniverse T w (silentBound T w)) [])
      (length_cfgUniverse_le T w _)
    have h2 := Nat.mul_le_mul_left T.delta.length h1
    simp only [List.length_map, List.length_reverse]
    unfold fuelFor at hf
    omega

end Term
end FST
end Pfl
