/-
The worklist loop of the Earley model is complete: at the end every processed state is done and
the closure properties of the done states cover every ideal item.
-/
import Pfl.Proofs.EarleyCompleteOps
import Pfl.Proofs.EarleyCompleteIdeal
namespace Pfl
namespace Earley
namespace Cmp
open FsDag FsDag.Lem Lem

/-- processed and no longer waiting on the chart -/
def Done (T : Tables) (j : Nat) (s : EState) : Prop :=
  s ∈ procStates T j ∧ s ∉ colGet T.chart j

/-- the invariant of the loop of column `i` -/
structure LI (C : Ctx) (i : Nat) (T : Tables) : Prop where
  past : ∀ j, j < i → colGet T.chart j = []
  fut : ∀ j s, i < j → s ∈ procStates T j → s ∈ colGet T.chart j
  pred : ∀ j s v, Done T j s → incomplete C.G s = true → nextSym C.G s = some (.var v) →
    ∀ k p pr env, C.G.prods[k]? = some p → p.head = v → C.spec[k]? = some pr → C.okEnv k env →
      CovT C T ⟨k, env, j, j, 0⟩
  scan : ∀ j s t, Done T j s → nextSym C.G s = some (.ter t) → C.word[j]? = some t →
    ∀ env, Cov C T.store s.fs s.prod env → CovT C T ⟨s.prod, env, s.b, j + 1, s.dot + 1⟩
  comp : ∀ m e nx c, Done T m nx → Done T e c → c.b = m → incomplete C.G c = false →
    incomplete C.G nx = true → nextSym C.G nx = some (.var (prodOf C.G c.prod).head) →
    ∀ env env', Cov C T.store nx.fs nx.prod env → Cov C T.store c.fs c.prod env' →
      Agree C nx.prod nx.dot env c.prod env' →
      CovT C T ⟨nx.prod, env, nx.b, e, nx.dot + 1⟩
  init : CovT C T ⟨C.spec.length, [], 0, 0, 0⟩

/-- the table after popping the top of column `i` -/
def popT (T : Tables) (i : Nat) : Tables :=
  { T with chart := T.chart.set i (colGet T.chart i).dropLast }

/-- one step of the loop on the popped state -/
def procOne (G : Grammar) (word : List String) (i : Nat) (T0 : Tables) (s : EState) : Tables :=
  if incomplete G s then
    match nextSym G s with
    | some (.var _) => predictor G T0 s
    | some (.ter t) => if word[i]? = some t then scanner G T0 s else T0
    | none => T0
  else completer G T0 s

/-- what one step guarantees about the popped state -/
structure OpPost (C : Ctx) (i : Nat) (s : EState) (T0 T1 : Tables) : Prop where
  tle : TLe i T0 T1
  pred : ∀ v, incomplete C.G s = true → nextSym C.G s = some (.var v) →
    ∀ k p pr env, C.G.prods[k]? = some p → p.head = v → C.spec[k]? = some pr → C.okEnv k env →
      CovT C T1 ⟨k, env, i, i, 0⟩
  scan : ∀ t, nextSym C.G s = some (.ter t) → C.word[i]? = some t →
    ∀ env, Cov C T0.store s.fs s.prod env → CovT C T1 ⟨s.prod, env, s.b, i + 1, s.dot + 1⟩
  asC : incomplete C.G s = false → ∀ nx ∈ procStates T0 s.b, incomplete C.G nx = true →
    nextSym C.G nx = some (.var (prodOf C.G s.prod).head) →
    ∀ env env', Cov C T0.store nx.fs nx.prod env → Cov C T0.store s.fs s.prod env' →
      Agree C nx.prod nx.dot env s.prod env' →
      CovT C T1 ⟨nx.prod, env, nx.b, i, nx.dot + 1⟩
  asNx : ∀ v, incomplete C.G s = true → nextSym C.G s = some (.var v) →
    ∀ c ∈ procStates T0 i, incomplete C.G c = false → c.b = i → (prodOf C.G c.prod).head = v →
    ∀ env env', Cov C T0.store s.fs s.prod env → Cov C T0.store c.fs c.prod env' →
      Agree C s.prod s.dot env c.prod env' →
      CovT C T1 ⟨s.prod, env, s.b, i, s.dot + 1⟩

theorem op_spec {C : Ctx} (hC : CtxOK C) {d : String} (hd : C.P d) {T0 : Tables}
    {rk : Nat → Nat} {i : Nat} {s : EState} (hB : Base C T0 rk [(i, s)])
    (hi : i < C.word.length + 1) :
    ∃ rk1, Base C (procOne C.G C.word i T0 s) rk1 [(i, s)] ∧
      OpPost C i s T0 (procOne C.G C.word i T0 s) := by
  have hmem : (i, s) ∈ [(i, s)] := List.mem_singleton.2 rfl
  have hsOK := hB.inv.extra _ hmem
  have hse : s.e = i := hsOK.e_eq
  unfold procOne
  cases hinc : incomplete C.G s with
  | true =>
    simp only [if_true]
    cases hnext : nextSym C.G s with
    | none =>
      exact ⟨rk, hB, TLe.refl _ _, fun v _ h => by rw [hnext] at h; simp at h, fun t h => by rw [hnext] at h; simp at h,
        fun h => by rw [hinc] at h; simp at h, fun v _ h => by rw [hnext] at h; simp at h⟩
    | some sym =>
      cases sym with
      | var v =>
        simp only
        obtain ⟨rk1, hB1, hle, hp1, hp2⟩ := predictor_spec hC hd hB (s := s)
          (by rw [hse]; exact hmem) (by rw [hse]; exact hi) hinc hnext
        rw [hse] at hle hp1 hp2
        refine ⟨rk1, hB1, hle, ?_, fun t h => by rw [hnext] at h; simp at h, fun h => by rw [hinc] at h; simp at h, ?_⟩
        · intro v' _ hv' k p pr env h1 h2 h3 h4
          rw [hnext] at hv'
          simp only [Option.some.injEq, Sym.var.injEq] at hv'
          subst hv'
          exact hp1 k p pr env h1 h2 h3 h4
        · intro v' _ hv' c hc h1 h2 h3 env env' h4 h5 h6
          rw [hnext] at hv'
          simp only [Option.some.injEq, Sym.var.injEq] at hv'
          subst hv'
          have hce : c.e = i := (hB.inv.proc _ _ hc).e_eq
          have := hp2 c hc h1 h2 h3 env env' h4 h5 h6
          rw [hce] at this; exact this
      | ter t =>
        simp only
        split
        · rename_i hw
          obtain ⟨hB1, hle, hcov⟩ := scanner_spec hC hd hB hsOK (hB.pthx _ hmem) hnext hw
          refine ⟨rk, hB1, hle, fun v _ h => by rw [hnext] at h; simp at h, ?_, fun h => by rw [hinc] at h; simp at h,
            fun v _ h => by rw [hnext] at h; simp at h⟩
          intro t' ht' _ env henv
          exact hcov env henv
        · rename_i hw
          refine ⟨rk, hB, TLe.refl _ _, fun v _ h => by rw [hnext] at h; simp at h, ?_, fun h => by rw [hinc] at h; simp at h,
            fun v _ h => by rw [hnext] at h; simp at h⟩
          intro t' ht' hw'
          rw [hnext] at ht'
          simp only [Option.some.injEq, Sym.ter.injEq] at ht'
          subst ht'
          exact absurd hw' hw
  | false =>
    simp only [Bool.false_eq_true, if_false]
    obtain ⟨rk1, hB1, hle, hp⟩ := completer_spec hC hd hB hmem hi hinc
    rw [hse] at hle hp
    refine ⟨rk1, hB1, hle, fun v h => by rw [hinc] at h; simp at h, ?_, ?_, fun v h => by rw [hinc] at h; simp at h⟩
    · intro t ht
      unfold nextSym at ht
      unfold incomplete at hinc
      simp only [decide_eq_false_iff_not, Nat.not_lt] at hinc
      rw [List.getElem?_eq_none hinc] at ht
      simp at ht
    · intro _ nx hnx h1 h2 env env' h3 h4 h5
      exact hp nx hnx h1 h2 env env' h3 h4 h5

/-- `CovT` only looks at the processed states and the store -/
theorem covT_pop {C : Ctx} {T : Tables} {i : Nat} {it : Item} (h : CovT C T it) :
    CovT C (popT T i) it := h

theorem mem_of_not_mem_dropLast {α : Type} {l : List α} {a s : α} (hl : l.getLast? = some s)
    (ha : a ∈ l) (hn : a ∉ l.dropLast) : a = s := by
  have := List.dropLast_append_getLast? s hl
  rw [← this] at ha
  rcases List.mem_append.1 ha with h | h
  · exact absurd h hn
  · exact List.mem_singleton.1 h

theorem li_step {C : Ctx} {d : String} (hd : C.P d) {T T1 : Tables} {rk rk0 : Nat → Nat}
    {i : Nat} {s : EState} (hB : Base C T rk []) (hB0 : Base C (popT T i) rk0 [(i, s)])
    (hL : LI C i T) (hi : i < C.word.length + 1)
    (hl : (colGet T.chart i).getLast? = some s) (hop : OpPost C i s (popT T i) T1) :
    LI C i T1 := by
  have hilen : i < T.chart.length := by rw [hB.lenc]; exact hi
  have hch0 : ∀ j, j ≠ i → colGet (popT T i).chart j = colGet T.chart j := by
    intro j hj; unfold popT; simp only; rw [colGet_set_ne _ (Ne.symm hj)]
  have hchi : colGet (popT T i).chart i = (colGet T.chart i).dropLast := by
    unfold popT; simp only; rw [colGet_set_self _ hilen]
  have hw := hB.inv.wf
  have hfr : Fr T.store T1.store := hop.tle.fr
  -- transport of coverage from `T` to `T1`
  have up : ∀ it, CovT C T it → CovT C T1 it := fun it h =>
    (covT_pop (i := i) h).mono hB0 hop.tle hd
  have back : ∀ j s' k env, s' ∈ procStates T j → Cov C T1.store s'.fs k env →
      Cov C T.store s'.fs k env := fun j s' k env hs h =>
    h.back hfr hw (hB.inv.proc j s' hs).fs_lt
  -- the done states of `T1`
  have dcases : ∀ j s', Done T1 j s' → s' ∈ procStates T j ∧ (Done T j s' ∨ (j = i ∧ s' = s)) := by
    intro j s' ⟨h1, h2⟩
    have hp : s' ∈ procStates T j := by
      rcases hop.tle.new j s' h1 with h | h
      · exact h
      · exact absurd h h2
    have hn0 : s' ∉ colGet (popT T i).chart j := fun h => h2 (hop.tle.chart j s' h)
    refine ⟨hp, ?_⟩
    by_cases hj : j = i
    · subst hj
      rw [hchi] at hn0
      by_cases hin : s' ∈ colGet T.chart j
      · exact Or.inr ⟨rfl, mem_of_not_mem_dropLast hl hin hn0⟩
      · exact Or.inl ⟨hp, hin⟩
    · rw [hch0 j hj] at hn0
      exact Or.inl ⟨hp, hn0⟩
  refine ⟨?_, ?_, ?_, ?_, ?_, up _ hL.init⟩
  · intro j hj
    rw [hop.tle.low j hj, hch0 j (by omega)]; exact hL.past j hj
  · intro j s' hj h
    rcases hop.tle.new j s' h with h | h
    · have := hL.fut j s' hj h
      rw [← hch0 j (by omega)] at this
      exact hop.tle.chart j s' this
    · exact h
  · intro j s' v hdone hinc hnext k p pr env h1 h2 h3 h4
    rcases (dcases j s' hdone).2 with h | ⟨rfl, rfl⟩
    · exact up _ (hL.pred j s' v h hinc hnext k p pr env h1 h2 h3 h4)
    · exact hop.pred v hinc hnext k p pr env h1 h2 h3 h4
  · intro j s' t hdone hnext hw' env henv
    obtain ⟨hp, hc⟩ := dcases j s' hdone
    have henv0 := back j s' _ env hp henv
    rcases hc with h | ⟨rfl, rfl⟩
    · exact up _ (hL.scan j s' t h hnext hw' env henv0)
    · exact hop.scan t hnext hw' env henv0
  · intro m e nx c hdnx hdc hcb hcomp hinc hnext env env' h1 h2 h3
    obtain ⟨hpnx, hcnx⟩ := dcases m nx hdnx
    obtain ⟨hpc, hcc⟩ := dcases e c hdc
    have h1' := back m nx _ env hpnx h1
    have h2' := back e c _ env' hpc h2
    rcases hcc with hc | ⟨rfl, rfl⟩
    · rcases hcnx with hn | ⟨rfl, rfl⟩
      · exact up _ (hL.comp m e nx c hn hc hcb hcomp hinc hnext env env' h1' h2' h3)
      · -- the popped state waits for `c`, which was completed earlier in this column
        have hcOK := hB.inv.proc e c hpc
        have hem : e = m := by
          have h5 : c.e = e := hcOK.e_eq
          have h6 := hcOK.ble
          by_contra hne
          have hlt : m < e := by omega
          exact hc.2 (hL.fut e c hlt hc.1)
        subst hem
        exact hop.asNx _ hinc hnext c hpc hcomp hcb rfl env env' h1' h2' h3
    · -- the popped state is the completed one
      have : c.b = m := hcb
      exact hop.asC hcomp nx (by rw [this]; exact hpnx) hinc hnext env env' h1' h2' h3

theorem columnLoop_succ (G : Grammar) (word : List String) (i f : Nat) (T : Tables) :
    columnLoop G word i (f + 1) T =
      match (colGet T.chart i).getLast? with
      | none => some T
      | some s => columnLoop G word i f (procOne G word i (popT T i) s) := by
  rw [columnLoop]
  rfl

theorem pop_base {C : Ctx} {T : Tables} {rk : Nat → Nat} {i : Nat} {s : EState}
    (hB : Base C T rk []) (hs : s ∈ colGet T.chart i) : Base C (popT T i) rk [(i, s)] := by
  have hsub : ∀ j s', s' ∈ colGet (popT T i).chart j → s' ∈ colGet T.chart j := by
    intro j s' hm
    unfold popT at hm
    simp only at hm
    rcases mem_colGet_set hm with ⟨rfl, h2⟩ | h2
    · exact List.dropLast_subset _ h2
    · exact h2
  refine ⟨⟨hB.inv.wf, hB.inv.objs, fun j s' hm => hB.inv.chart j s' (hsub j s' hm), hB.inv.proc, ?_⟩,
    hB.sx, hB.nv, hB.objs, hB.opth, fun j s' hm => hB.pthc j s' (hsub j s' hm), hB.pthp, ?_,
    hB.keys, ?_, hB.lenp⟩
  · intro e he
    simp only [List.mem_singleton] at he; subst he; exact hB.inv.chart i s hs
  · intro e he
    simp only [List.mem_singleton] at he; subst he; exact hB.pthc i s hs
  · unfold popT; simp only; rw [List.length_set]; exact hB.lenc

theorem columnLoop_spec {C : Ctx} (hC : CtxOK C) {d : String} (hd : C.P d) (i : Nat)
    (hi : i < C.word.length + 1) : ∀ (f : Nat) (T T' : Tables) (rk : Nat → Nat),
    Base C T rk [] → LI C i T → columnLoop C.G C.word i f T = some T' →
    ∃ rk', Base C T' rk' [] ∧ LI C i T' ∧ colGet T'.chart i = [] := by
  intro f
  induction f with
  | zero => intro T T' rk _ _ h; simp [columnLoop] at h
  | succ f ih =>
    intro T T' rk hB hL hr
    rw [columnLoop_succ] at hr
    cases hl : (colGet T.chart i).getLast? with
    | none =>
      rw [hl] at hr
      simp only [Option.some.injEq] at hr; subst hr
      exact ⟨rk, hB, hL, List.getLast?_eq_none_iff.1 hl⟩
    | some s =>
      rw [hl] at hr
      simp only at hr
      have hsmem : s ∈ colGet T.chart i := List.mem_of_getLast? hl
      have hB0 := pop_base hB hsmem
      obtain ⟨rk1, hB1, hop⟩ := op_spec hC hd hB0 hi
      have hL1 := li_step hd hB hB0 hL hi hl hop
      exact ih _ T' rk1 (hB1.weaken (by simp)) hL1 hr

theorem LI.next {C : Ctx} {i : Nat} {T : Tables} (h : LI C i T) (hc : colGet T.chart i = []) :
    LI C (i + 1) T :=
  ⟨fun j hj => by
      by_cases hji : j = i
      · rw [hji]; exact hc
      · exact h.past j (by omega),
    fun j s hj hs => h.fut j s (by omega) hs, h.pred, h.scan, h.comp, h.init⟩

theorem cols_spec {C : Ctx} (hC : CtxOK C) {d : String} (hd : C.P d) (fuel : Nat) :
    ∀ (k i : Nat) (T T' : Tables) (rk : Nat → Nat), i + k = C.word.length + 1 →
      Base C T rk [] → LI C i T →
      contains.cols C.G C.word fuel (List.range' i k) T = some T' →
      ∃ rk', Base C T' rk' [] ∧ LI C (C.word.length + 1) T' := by
  intro k
  induction k with
  | zero =>
    intro i T T' rk hik hB hL hr
    simp only [List.range'_zero, contains.cols, Option.some.injEq] at hr
    subst hr
    have : i = C.word.length + 1 := by omega
    subst this
    exact ⟨rk, hB, hL⟩
  | succ k ih =>
    intro i T T' rk hik hB hL hr
    rw [List.range'_succ] at hr
    simp only [contains.cols] at hr
    cases hcl : columnLoop C.G C.word i fuel T with
    | none => rw [hcl] at hr; simp at hr
    | some T1 =>
      rw [hcl] at hr
      simp only at hr
      obtain ⟨rk1, hB1, hL1, hc1⟩ := columnLoop_spec hC hd i (by omega) fuel T T1 rk hB hL hcl
      exact ih (i + 1) T1 T' rk1 (by omega) hB1 (hL1.next hc1) hr

/-! ### every ideal item is covered at the end -/

theorem ideal_covered {C : Ctx} (hC : CtxOK C) {T : Tables} {rk : Nat → Nat}
    (hB : Base C T rk []) (hL : LI C (C.word.length + 1) T) :
    ∀ it, Ideal C it → CovT C T it := by
  have hdone : ∀ j s, s ∈ procStates T j → Done T j s := by
    intro j s hs
    refine ⟨hs, ?_⟩
    by_cases hj : j < C.word.length + 1
    · rw [hL.past j hj]; simp
    · rw [colGet_ge (by rw [hB.lenc]; omega)]; simp
  have hnextSym : ∀ (s : EState) (it : Sym × Feat), (prX C s.prod).2[s.dot]? = some it →
      nextSym C.G s = some it.1 ∧ incomplete C.G s = true := by
    intro s it hit
    unfold nextSym incomplete
    rw [body_prX hC, List.getElem?_map, hit, List.length_map]
    refine ⟨rfl, ?_⟩
    have := (List.getElem?_eq_some_iff.1 hit).1
    simpa using this
  intro it hid
  induction hid with
  | init => exact hL.init
  | @predict k env b e dot X f k' pr' env' _ hit hk' hX hok' ih =>
    obtain ⟨s, hs, h1, h2, h3, h4⟩ := ih
    simp only at hs h1 h2 h3 h4
    obtain ⟨hn, hi⟩ := hnextSym s (Sym.var X, f) (by rw [h1, h3]; exact hit)
    obtain ⟨hh, _, hp⟩ := prodOf_spec hC hk'
    exact hL.pred e s X (hdone e s hs) hi hn k' _ pr' env' hp (by rw [hh]; exact hX) hk' hok'
  | @scan k env b e dot t f _ hit hw ih =>
    obtain ⟨s, hs, h1, h2, h3, h4⟩ := ih
    simp only at hs h1 h2 h3 h4
    obtain ⟨hn, _⟩ := hnextSym s (Sym.ter t, f) (by rw [h1, h3]; exact hit)
    have := hL.scan e s t (hdone e s hs) hn hw env (by rw [h1]; exact h4)
    rw [h1, h2, h3] at this; exact this
  | @complete k env b m dot X f k' pr' env' e _ hit hk' hX _ hag ih1 ih2 =>
    obtain ⟨nx, hnx, n1, n2, n3, n4⟩ := ih1
    obtain ⟨c, hc, c1, c2, c3, c4⟩ := ih2
    simp only at hnx n1 n2 n3 n4 hc c1 c2 c3 c4
    obtain ⟨hn, hi⟩ := hnextSym nx (Sym.var X, f) (by rw [n1, n3]; exact hit)
    obtain ⟨hh, hbody, _⟩ := prodOf_spec hC hk'
    have hcomp : incomplete C.G c = false := by
      unfold incomplete
      rw [c1, hbody, List.length_map, c3]; simp
    have hhead : (prodOf C.G c.prod).head = X := by rw [c1, hh]; exact hX
    have hagree : Agree C nx.prod nx.dot env c.prod env' := by
      intro it' hit'
      rw [n1, n3, hit] at hit'
      simp only [Option.some.injEq] at hit'
      subst hit'
      rw [c1, prX_spec hk']; exact hag
    have := hL.comp m e nx c (hdone m nx hnx) (hdone e c hc) c2 hcomp hi
      (by rw [hhead]; exact hn) env env' (by rw [n1]; exact n4) (by rw [c1]; exact c4) hagree
    rw [n1, n2, n3] at this; exact this

end Cmp
end Earley
end Pfl
