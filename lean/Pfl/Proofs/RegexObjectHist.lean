/- Proofs for Pfl/Props/C19_Regex.lean (regex object model), part C. -/
import Pfl.Spec.RegexObject
import Pfl.Proofs.RegexObject
import Pfl.Props.C05_Regex
import Pfl.Props.C01_Accepts
namespace Pfl
namespace RxObj
namespace PH
open Pfl.Rx
open Pfl.RxObj.P

/-- head and sons: all that the tree of an address depends on -/
def hs (o : Obj) : Head × List Nat := (o.head, o.sons)

theorem wf_iff {H : Heap} : WF H = true ↔ ∀ i o, H[i]? = some o → WFObj i o = true := by
  unfold WF
  rw [List.all_eq_true]
  constructor
  · intro h i o hio
    have hi : i < H.length := by
      rcases Nat.lt_or_ge i H.length with h | h
      · exact h
      · rw [List.getElem?_eq_none h] at hio; cases hio
    have := h i (List.mem_range.2 hi)
    simp only [hio] at this; exact this
  · intro h i hi
    have hi := List.mem_range.1 hi
    rw [List.getElem?_eq_getElem hi]
    exact h i _ (List.getElem?_eq_getElem hi)

theorem wfObj_congr {i : Nat} {o o' : Obj} (h : hs o' = hs o) : WFObj i o' = WFObj i o := by
  rcases o with ⟨a, b, c, d⟩; rcases o' with ⟨a', b', c', d'⟩
  simp only [hs, Prod.mk.injEq] at h
  obtain ⟨rfl, rfl⟩ := h
  rfl

theorem treeOf_agree {H H' : Heap} (hwf : WF H = true)
    (hag : ∀ k, k < H.length → (H'[k]?).map hs = (H[k]?).map hs) :
    ∀ n i, i < H.length → treeOf n H' i = treeOf n H i := by
  intro n
  induction n with
  | zero => intro i _; rfl
  | succ n ih =>
    intro i hi
    have h1 := hag i hi
    obtain ⟨o, hHi⟩ : ∃ o, H[i]? = some o := ⟨_, List.getElem?_eq_getElem hi⟩
    rw [hHi] at h1
    obtain ⟨o', ho', hhs⟩ := Option.map_eq_some_iff.1 h1
    have hwfo := wf_iff.1 hwf i _ hHi
    rcases o with ⟨hd, sons, c, acc⟩
    rcases o' with ⟨hd', sons', c', acc'⟩
    simp only [hs, Prod.mk.injEq] at hhs
    obtain ⟨rfl, rfl⟩ := hhs
    unfold treeOf
    simp only [ho', hHi]
    cases hd' <;> rcases sons' with _ | ⟨a, _ | ⟨b, _ | ⟨c, l⟩⟩⟩ <;> simp [WFObj] at hwfo ⊢
    · rw [ih a (by omega), ih b (by omega)]
    · rw [ih a (by omega), ih b (by omega)]
    · rw [ih a (by omega)]

theorem length_setCounter (H : Heap) (j c : Nat) : (setCounter H j c).length = H.length := by
  unfold setCounter; split <;> simp

theorem length_setAcc (H : Heap) (j : Nat) (A : ENFA Nat) : (setAcc H j A).length = H.length := by
  unfold setAcc; split <;> simp

/-- an object of `setCounter H j c` is the old object up to its counter -/
theorem getElem?_setCounter {H : Heap} {j c k : Nat} {o' : Obj}
    (h : (setCounter H j c)[k]? = some o') :
    ∃ o, H[k]? = some o ∧ hs o' = hs o ∧ o'.acc = o.acc := by
  unfold setCounter at h
  split at h
  · exact ⟨o', h, rfl, rfl⟩
  · rename_i o ho
    rw [List.getElem?_set] at h
    split at h
    · subst_vars
      split at h
      · cases h; exact ⟨o, ho, rfl, rfl⟩
      · cases h
    · exact ⟨o', h, rfl, rfl⟩

/-- an object of `setAcc H j A` is the old object up to its cache -/
theorem getElem?_setAcc {H : Heap} {j k : Nat} {A : ENFA Nat} {o' : Obj}
    (h : (setAcc H j A)[k]? = some o') :
    ∃ o, H[k]? = some o ∧ hs o' = hs o ∧ (o'.acc = o.acc ∨ (k = j ∧ o'.acc = some A)) := by
  unfold setAcc at h
  split at h
  · exact ⟨o', h, rfl, Or.inl rfl⟩
  · rename_i o ho
    rw [List.getElem?_set] at h
    split at h
    · subst_vars
      split at h
      · cases h; exact ⟨o, ho, rfl, Or.inr ⟨rfl, rfl⟩⟩
      · cases h
    · exact ⟨o', h, rfl, Or.inl rfl⟩

theorem agree_of_forall {H H' : Heap} (hlen : H'.length = H.length)
    (h : ∀ (k : Nat) o', H'[k]? = some o' → ∃ o, H[k]? = some o ∧ hs o' = hs o) :
    ∀ k : Nat, (H'[k]?).map hs = (H[k]?).map hs := by
  intro k
  rcases hk : H'[k]? with _ | o'
  · have : H.length ≤ k := by
      rw [← hlen]; exact List.getElem?_eq_none_iff.1 hk
    rw [List.getElem?_eq_none this]
  · obtain ⟨o, ho, e⟩ := h k o' hk
    rw [ho]; simp [e]

theorem agree_setCounter (H : Heap) (j c : Nat) :
    ∀ k : Nat, ((setCounter H j c)[k]?).map hs = (H[k]?).map hs :=
  agree_of_forall (length_setCounter H j c) fun _ _ h =>
    let ⟨o, ho, e, _⟩ := getElem?_setCounter h; ⟨o, ho, e⟩

theorem agree_setAcc (H : Heap) (j : Nat) (A : ENFA Nat) :
    ∀ k : Nat, ((setAcc H j A)[k]?).map hs = (H[k]?).map hs :=
  agree_of_forall (length_setAcc H j A) fun _ _ h =>
    let ⟨o, ho, e, _⟩ := getElem?_setAcc h; ⟨o, ho, e⟩

theorem wf_agree {H H' : Heap} (_hlen : H'.length = H.length)
    (hag : ∀ k : Nat, (H'[k]?).map hs = (H[k]?).map hs) (hwf : WF H = true) : WF H' = true := by
  rw [wf_iff] at hwf ⊢
  intro i o' ho'
  have := hag i
  rw [ho'] at this
  obtain ⟨o, ho, e⟩ := Option.map_eq_some_iff.1 this.symm
  rw [wfObj_congr (o := o) e.symm]
  exact hwf i o ho

theorem wf_setCounter {H : Heap} (j c : Nat) (hwf : WF H = true) : WF (setCounter H j c) = true :=
  wf_agree (length_setCounter H j c) (agree_setCounter H j c) hwf

theorem wf_setAcc {H : Heap} (j : Nat) (A : ENFA Nat) (hwf : WF H = true) :
    WF (setAcc H j A) = true :=
  wf_agree (length_setAcc H j A) (agree_setAcc H j A) hwf

theorem treeOf_setCounter {H : Heap} (hwf : WF H = true) (j c n i : Nat) (hi : i < H.length) :
    treeOf n (setCounter H j c) i = treeOf n H i :=
  treeOf_agree hwf (fun k _ => agree_setCounter H j c k) n i hi

theorem treeOf_setAcc {H : Heap} (hwf : WF H = true) (j : Nat) (A : ENFA Nat) (n i : Nat)
    (hi : i < H.length) : treeOf n (setAcc H j A) i = treeOf n H i :=
  treeOf_agree hwf (fun k _ => agree_setAcc H j A k) n i hi

theorem wf_append {H : Heap} {o : Obj} (hwf : WF H = true) (ho : WFObj H.length o = true) :
    WF (H ++ [o]) = true := by
  rw [wf_iff] at hwf ⊢
  intro i o' h
  rcases Nat.lt_or_ge i H.length with hi | hi
  · rw [List.getElem?_append_left hi] at h
    exact hwf i o' h
  · rw [List.getElem?_append_right hi] at h
    have : i - H.length = 0 := by
      rcases Nat.eq_zero_or_pos (i - H.length) with h0 | h0
      · exact h0
      · rw [List.getElem?_eq_none (by simp; omega)] at h; cases h
    rw [this] at h
    simp only [List.getElem?_cons_zero, Option.some.injEq] at h
    subst h
    have : i = H.length := by omega
    subst this; exact ho

theorem treeOf_append {H : Heap} (hwf : WF H = true) (L : List Obj) (n i : Nat) (hi : i < H.length) :
    treeOf n (H ++ L) i = treeOf n H i :=
  treeOf_agree hwf (fun k hk => by rw [List.getElem?_append_left hk]) n i hi


theorem getElem?_snoc_ge {H : Heap} {o o' : Obj} {k : Nat} (hk : H.length ≤ k)
    (h : (H ++ [o])[k]? = some o') : o' = o ∧ k = H.length := by
  rw [List.getElem?_append_right hk] at h
  have : k - H.length = 0 := by
    rcases Nat.eq_zero_or_pos (k - H.length) with h0 | h0
    · exact h0
    · rw [List.getElem?_eq_none (by simp; omega)] at h; cases h
  rw [this] at h
  simp only [List.getElem?_cons_zero, Option.some.injEq] at h
  exact ⟨h.symm, by omega⟩

theorem treeOf_snoc_leaf (H : Heap) (hd : Head) (t : Rx) (c : Nat) (acc : Option (ENFA Nat))
    (h : (hd = .empty ∧ t = .empty) ∨ (hd = .eps ∧ t = .eps) ∨ ∃ s, hd = .sym s ∧ t = .sym s) :
    treeOf (H.length + 1) (H ++ [⟨hd, [], c, acc⟩]) H.length = some t := by
  rw [treeOf]
  rcases h with ⟨rfl, rfl⟩ | ⟨rfl, rfl⟩ | ⟨s, rfl, rfl⟩ <;> simp

theorem treeOf_snoc_bin {H : Heap} (hwf : WF H = true) {i j : Nat} {ri rj : Rx}
    (hi : i < H.length) (hj : j < H.length)
    (hri : treeOf (i + 1) H i = some ri) (hrj : treeOf (j + 1) H j = some rj)
    (c : Nat) (acc : Option (ENFA Nat)) :
    treeOf (H.length + 1) (H ++ [⟨.alt, [i, j], c, acc⟩]) H.length = some (.alt ri rj) ∧
    treeOf (H.length + 1) (H ++ [⟨.cat, [i, j], c, acc⟩]) H.length = some (.cat ri rj) := by
  constructor
  · rw [treeOf]
    simp only [List.getElem?_concat_length]
    rw [treeOf_append hwf _ _ _ hi, treeOf_append hwf _ _ _ hj,
      treeOf_mono hri (by omega), treeOf_mono hrj (by omega)]
  · rw [treeOf]
    simp only [List.getElem?_concat_length]
    rw [treeOf_append hwf _ _ _ hi, treeOf_append hwf _ _ _ hj,
      treeOf_mono hri (by omega), treeOf_mono hrj (by omega)]

theorem treeOf_snoc_star {H : Heap} (hwf : WF H = true) {i : Nat} {ri : Rx}
    (hi : i < H.length) (hri : treeOf (i + 1) H i = some ri)
    (c : Nat) (acc : Option (ENFA Nat)) :
    treeOf (H.length + 1) (H ++ [⟨.star, [i], c, acc⟩]) H.length = some (.star ri) := by
  rw [treeOf]
  simp only [List.getElem?_concat_length]
  rw [treeOf_append hwf _ _ _ hi, treeOf_mono hri (by omega)]
  rfl

/-- what `alloc` does: new objects at the end, the last one standing for the tree -/
theorem alloc_spec (t : Rx) : ∀ {H H' : Heap} {i : Nat}, alloc t H = (H', i) → WF H = true →
    WF H' = true ∧ H.length ≤ i ∧ i < H'.length ∧ (∀ k, k < H.length → H'[k]? = H[k]?) ∧
    treeOf (i + 1) H' i = some t ∧
    (∀ k o, H.length ≤ k → H'[k]? = some o → o.acc = none) := by
  induction t with
  | empty =>
    intro H H' i h hwf
    simp only [alloc, Prod.mk.injEq] at h
    obtain ⟨rfl, rfl⟩ := h
    refine ⟨wf_append hwf (by simp [WFObj]), Nat.le_refl _, by simp,
      fun k hk => List.getElem?_append_left hk, treeOf_snoc_leaf H _ _ _ _ (by simp), ?_⟩
    intro k o hk ho
    rw [(getElem?_snoc_ge hk ho).1]
  | eps =>
    intro H H' i h hwf
    simp only [alloc, Prod.mk.injEq] at h
    obtain ⟨rfl, rfl⟩ := h
    refine ⟨wf_append hwf (by simp [WFObj]), Nat.le_refl _, by simp,
      fun k hk => List.getElem?_append_left hk, treeOf_snoc_leaf H _ _ _ _ (by simp), ?_⟩
    intro k o hk ho
    rw [(getElem?_snoc_ge hk ho).1]
  | sym s =>
    intro H H' i h hwf
    simp only [alloc, Prod.mk.injEq] at h
    obtain ⟨rfl, rfl⟩ := h
    refine ⟨wf_append hwf (by simp [WFObj]), Nat.le_refl _, by simp,
      fun k hk => List.getElem?_append_left hk, treeOf_snoc_leaf H _ _ _ _ (by simp), ?_⟩
    intro k o hk ho
    rw [(getElem?_snoc_ge hk ho).1]
  | cat a b iha ihb =>
    intro H H' i h hwf
    rcases ha : alloc a H with ⟨H1, ia⟩
    rcases hb : alloc b H1 with ⟨H2, ib⟩
    simp only [alloc, ha, hb, Prod.mk.injEq] at h
    obtain ⟨rfl, rfl⟩ := h
    obtain ⟨wf1, a1, a2, a3, a4, a5⟩ := iha ha hwf
    obtain ⟨wf2, b1, b2, b3, b4, b5⟩ := ihb hb wf1
    have hta : treeOf (ia + 1) H2 ia = some a := by
      rw [treeOf_agree wf1 (fun k hk => by rw [b3 k hk]) _ _ a2]; exact a4
    refine ⟨wf_append wf2 (by simp [WFObj]; omega), by omega, by simp,
      fun k hk => ?_, (treeOf_snoc_bin wf2 (by omega) b2 hta b4 _ _).2, ?_⟩
    · rw [List.getElem?_append_left (by omega), b3 k (by omega), a3 k hk]
    · intro k o hk ho
      rcases Nat.lt_or_ge k H2.length with h2 | h2
      · rw [List.getElem?_append_left h2] at ho
        rcases Nat.lt_or_ge k H1.length with h1 | h1
        · rw [b3 k h1] at ho; exact a5 k o hk ho
        · exact b5 k o h1 ho
      · rw [(getElem?_snoc_ge h2 ho).1]
  | alt a b iha ihb =>
    intro H H' i h hwf
    rcases ha : alloc a H with ⟨H1, ia⟩
    rcases hb : alloc b H1 with ⟨H2, ib⟩
    simp only [alloc, ha, hb, Prod.mk.injEq] at h
    obtain ⟨rfl, rfl⟩ := h
    obtain ⟨wf1, a1, a2, a3, a4, a5⟩ := iha ha hwf
    obtain ⟨wf2, b1, b2, b3, b4, b5⟩ := ihb hb wf1
    have hta : treeOf (ia + 1) H2 ia = some a := by
      rw [treeOf_agree wf1 (fun k hk => by rw [b3 k hk]) _ _ a2]; exact a4
    refine ⟨wf_append wf2 (by simp [WFObj]; omega), by omega, by simp,
      fun k hk => ?_, (treeOf_snoc_bin wf2 (by omega) b2 hta b4 _ _).1, ?_⟩
    · rw [List.getElem?_append_left (by omega), b3 k (by omega), a3 k hk]
    · intro k o hk ho
      rcases Nat.lt_or_ge k H2.length with h2 | h2
      · rw [List.getElem?_append_left h2] at ho
        rcases Nat.lt_or_ge k H1.length with h1 | h1
        · rw [b3 k h1] at ho; exact a5 k o hk ho
        · exact b5 k o h1 ho
      · rw [(getElem?_snoc_ge h2 ho).1]
  | star a iha =>
    intro H H' i h hwf
    rcases ha : alloc a H with ⟨H1, ia⟩
    simp only [alloc, ha, Prod.mk.injEq] at h
    obtain ⟨rfl, rfl⟩ := h
    obtain ⟨wf1, a1, a2, a3, a4, a5⟩ := iha ha hwf
    refine ⟨wf_append wf1 (by simp [WFObj]; omega), by omega, by simp,
      fun k hk => ?_, treeOf_snoc_star wf1 a2 a4 _ _, ?_⟩
    · rw [List.getElem?_append_left (by omega), a3 k hk]
    · intro k o hk ho
      rcases Nat.lt_or_ge k H1.length with h1 | h1
      · rw [List.getElem?_append_left h1] at ho
        exact a5 k o hk ho
      · rw [(getElem?_snoc_ge h1 ho).1]


theorem lt_of_getElem? {H : Heap} {k : Nat} {o : Obj} (h : H[k]? = some o) : k < H.length := by
  obtain ⟨hk, _⟩ := List.getElem?_eq_some_iff.1 h
  exact hk

/-- the generic step of the invariant: old objects keep head and sons, the caches are old, empty, or
the Thompson automaton of the tree -/
theorem inv_ext (code : String → Nat) {H H' : Heap} (hinv : Inv code H) (hwf' : WF H' = true)
    (hlen : H.length ≤ H'.length)
    (hag : ∀ k, k < H.length → (H'[k]?).map hs = (H[k]?).map hs)
    (hacc : ∀ (k : Nat) o', H'[k]? = some o' → o'.acc = none ∨ (∃ o, H[k]? = some o ∧ o'.acc = o.acc) ∨
      (k < H.length ∧ ∃ r c, treeOf (k + 1) H k = some r ∧ o'.acc = some (r.thompson code c).1)) :
    Inv code H' ∧ H.length ≤ H'.length ∧
      ∀ i, i < H.length → treeOf (i + 1) H' i = treeOf (i + 1) H i := by
  have htree := fun i hi => treeOf_agree hinv.1 hag (i + 1) i hi
  refine ⟨⟨hwf', ?_⟩, hlen, htree⟩
  intro k o' A ho' hA
  rcases hacc k o' ho' with h | ⟨o, ho, e⟩ | ⟨hk, r, c, hr, e⟩
  · rw [h] at hA; cases hA
  · have hk := lt_of_getElem? ho
    obtain ⟨r, c, hr, hAe⟩ := hinv.2 k o A ho (e ▸ hA)
    exact ⟨r, c, by rw [htree k hk]; exact hr, hAe⟩
  · rw [e] at hA
    simp only [Option.some.injEq] at hA
    exact ⟨r, c, by rw [htree k hk]; exact hr, hA.symm⟩

theorem inv_snoc (code : String → Nat) {H : Heap} (hinv : Inv code H) {o : Obj}
    (hwfo : WFObj H.length o = true) (hacc : o.acc = none) :
    Inv code (H ++ [o]) ∧ H.length ≤ (H ++ [o]).length ∧
      ∀ i, i < H.length → treeOf (i + 1) (H ++ [o]) i = treeOf (i + 1) H i := by
  refine inv_ext code hinv (wf_append hinv.1 hwfo) (by simp)
    (fun k hk => by rw [List.getElem?_append_left hk]) ?_
  intro k o' ho'
  rcases Nat.lt_or_ge k H.length with hk | hk
  · right; left
    rw [List.getElem?_append_left hk] at ho'
    exact ⟨o', ho', rfl⟩
  · left
    rw [(getElem?_snoc_ge hk ho').1]; exact hacc

theorem filterMap_code (code : String → Nat) (w : List String) :
    (w.map fun s => some (code s)).filterMap id = w.map code := by
  induction w with
  | nil => rfl
  | cons a w ih => simp [ih]

/-- the two ways `accepts` answers: from the cache, or from a fresh automaton that it caches -/
theorem accepts_cases (code : String → Nat) {fuel : Nat} {H H' : Heap} {i : Nat} {w : List String}
    {b : Bool} (hinv : Inv code H) (h : accepts code fuel H i w = some (b, H')) :
    i < H.length ∧ ∃ r c A, treeOf (i + 1) H i = some r ∧ A = (r.thompson code c).1 ∧
      b = A.acceptsE (w.map fun s => some (code s)) ∧
      (H' = H ∨ ∃ c', H' = setAcc (setCounter H i c') i A) := by
  unfold accepts at h
  split at h
  · cases h
  · rename_i o ho
    refine ⟨lt_of_getElem? ho, ?_⟩
    split at h
    · rename_i A hA
      simp only [Option.some.injEq, Prod.mk.injEq] at h
      obtain ⟨rfl, rfl⟩ := h
      obtain ⟨r, c, hr, hAe⟩ := hinv.2 i o A ho hA
      exact ⟨r, c, A, hr, hAe, rfl, Or.inl rfl⟩
    · split at h
      · cases h
      · rename_i A H1 hE
        simp only [Option.some.injEq, Prod.mk.injEq] at h
        obtain ⟨rfl, rfl⟩ := h
        obtain ⟨r, c, hr, _, hAe, hH1⟩ := toENFA_spec code hinv.1 hE
        exact ⟨r, c, A, hr, hAe, rfl, Or.inr ⟨_, by rw [hH1]⟩⟩

theorem accepts_inv (code : String → Nat) {fuel : Nat} {H H' : Heap} {i : Nat} {w : List String}
    {b : Bool} (hinv : Inv code H) (h : accepts code fuel H i w = some (b, H')) :
    Inv code H' ∧ H.length ≤ H'.length ∧
      ∀ i, i < H.length → treeOf (i + 1) H' i = treeOf (i + 1) H i := by
  obtain ⟨hi, r, c, A, hr, hA, -, hH'⟩ := accepts_cases code hinv h
  rcases hH' with rfl | ⟨c', rfl⟩
  · exact ⟨hinv, Nat.le_refl _, fun _ _ => rfl⟩
  · refine inv_ext code hinv (wf_setAcc _ _ (wf_setCounter _ _ hinv.1))
      (by rw [length_setAcc, length_setCounter]; exact Nat.le_refl _)
      (fun k _ => by rw [agree_setAcc, agree_setCounter]) ?_
    intro k o' ho'
    obtain ⟨o1, ho1, -, e1⟩ := getElem?_setAcc ho'
    obtain ⟨o, ho, -, e⟩ := getElem?_setCounter ho1
    rcases e1 with e1 | ⟨rfl, e1⟩
    · right; left; exact ⟨o, ho, by rw [e1, e]⟩
    · right; right; exact ⟨hi, r, c, hr, by rw [e1, hA]⟩

/-- the addresses a call creates are new, the old objects keep their trees -/
theorem step_inv (code : String → Nat) {fuel : Nat} {H H' : Heap} {op : Op} {out : Out}
    (hinv : Inv code H) (h : step code fuel H op = some (out, H')) :
    Inv code H' ∧ H.length ≤ H'.length ∧
      ∀ i, i < H.length → treeOf (i + 1) H' i = treeOf (i + 1) H i := by
  cases op with
  | new t =>
    rcases ha : alloc t H with ⟨H1, i⟩
    simp only [step, ha, Option.some.injEq, Prod.mk.injEq] at h
    obtain ⟨-, rfl⟩ := h
    obtain ⟨wf1, a1, a2, a3, a4, a5⟩ := alloc_spec t ha hinv.1
    refine inv_ext code hinv wf1 (by omega) (fun k hk => by rw [a3 k hk]) ?_
    intro k o' ho'
    rcases Nat.lt_or_ge k H.length with hk | hk
    · right; left; exact ⟨o', by rw [← a3 k hk]; exact ho', rfl⟩
    · left; exact a5 k o' hk ho'
  | union i j =>
    simp only [step] at h
    split at h
    · simp only [Option.some.injEq, Prod.mk.injEq] at h
      obtain ⟨-, rfl⟩ := h
      exact inv_snoc code hinv (by simp [WFObj]; omega) rfl
    · cases h
  | concat i j =>
    simp only [step] at h
    split at h
    · simp only [Option.some.injEq, Prod.mk.injEq] at h
      obtain ⟨-, rfl⟩ := h
      exact inv_snoc code hinv (by simp [WFObj]; omega) rfl
    · cases h
  | star i =>
    simp only [step] at h
    split at h
    · simp only [Option.some.injEq, Prod.mk.injEq] at h
      obtain ⟨-, rfl⟩ := h
      exact inv_snoc code hinv (by simp [WFObj]; omega) rfl
    · cases h
  | toENFA i =>
    simp only [step, Option.map_eq_some_iff, Prod.mk.injEq] at h
    obtain ⟨⟨A, H1⟩, hE, -, rfl⟩ := h
    obtain ⟨r, c, hr, _, hAe, rfl⟩ := toENFA_spec code hinv.1 hE
    refine inv_ext code hinv (wf_setCounter _ _ hinv.1)
      (by rw [length_setCounter]; exact Nat.le_refl _)
      (fun k _ => by rw [agree_setCounter]) ?_
    intro k o' ho'
    obtain ⟨o, ho, -, e⟩ := getElem?_setCounter ho'
    right; left; exact ⟨o, ho, e⟩
  | accepts i w =>
    simp only [step, Option.map_eq_some_iff, Prod.mk.injEq] at h
    obtain ⟨⟨b, H1⟩, hE, -, rfl⟩ := h
    exact accepts_inv code hinv hE

theorem accepts_answer (code : String → Nat) {fuel : Nat} {H H' : Heap} {i : Nat} {w : List String}
    {b : Bool} (hinv : Inv code H) (h : accepts code fuel H i w = some (b, H')) :
    ∃ r, treeOf (i + 1) H i = some r ∧
      (b = true ↔ ∃ w', Denote r w' ∧ w'.map code = w.map code) := by
  obtain ⟨hi, r, c, A, hr, hA, hb, -⟩ := accepts_cases code hinv h
  refine ⟨r, hr, ?_⟩
  rw [hb, Pfl.ENFA.acceptsE_iff, filterMap_code, hA, thompson_lang]

/-- (4) every call answers what the trees determine, whatever the counters and caches are -/
theorem step_answer (code : String → Nat) {fuel : Nat} {H H' : Heap} {op : Op} {out : Out}
    (hinv : Inv code H) (h : step code fuel H op = some (out, H')) : Answer code H H' op out := by
  cases op with
  | new t =>
    rcases ha : alloc t H with ⟨H1, i⟩
    simp only [step, ha, Option.some.injEq, Prod.mk.injEq] at h
    obtain ⟨rfl, rfl⟩ := h
    obtain ⟨wf1, a1, a2, a3, a4, a5⟩ := alloc_spec t ha hinv.1
    exact ⟨a2, a1, a4⟩
  | union i j =>
    simp only [step] at h
    split at h
    · rename_i hij
      simp only [Option.some.injEq, Prod.mk.injEq] at h
      obtain ⟨rfl, rfl⟩ := h
      obtain ⟨ri, hri⟩ := Option.isSome_iff_exists.1 (treeOf_isSome hinv.1 hij.1)
      obtain ⟨rj, hrj⟩ := Option.isSome_iff_exists.1 (treeOf_isSome hinv.1 hij.2)
      exact ⟨Nat.le_refl _, ri, rj, hri, hrj,
        (treeOf_snoc_bin hinv.1 hij.1 hij.2 hri hrj _ _).1⟩
    · cases h
  | concat i j =>
    simp only [step] at h
    split at h
    · rename_i hij
      simp only [Option.some.injEq, Prod.mk.injEq] at h
      obtain ⟨rfl, rfl⟩ := h
      obtain ⟨ri, hri⟩ := Option.isSome_iff_exists.1 (treeOf_isSome hinv.1 hij.1)
      obtain ⟨rj, hrj⟩ := Option.isSome_iff_exists.1 (treeOf_isSome hinv.1 hij.2)
      exact ⟨Nat.le_refl _, ri, rj, hri, hrj,
        (treeOf_snoc_bin hinv.1 hij.1 hij.2 hri hrj _ _).2⟩
    · cases h
  | star i =>
    simp only [step] at h
    split at h
    · rename_i hi
      simp only [Option.some.injEq, Prod.mk.injEq] at h
      obtain ⟨rfl, rfl⟩ := h
      obtain ⟨ri, hri⟩ := Option.isSome_iff_exists.1 (treeOf_isSome hinv.1 hi)
      exact ⟨Nat.le_refl _, ri, hri, treeOf_snoc_star hinv.1 hi hri _ _⟩
    · cases h
  | toENFA i =>
    simp only [step, Option.map_eq_some_iff, Prod.mk.injEq] at h
    obtain ⟨⟨A, H1⟩, hE, rfl, rfl⟩ := h
    exact toENFA_lang code hinv.1 hE
  | accepts i w =>
    simp only [step, Option.map_eq_some_iff, Prod.mk.injEq] at h
    obtain ⟨⟨b, H1⟩, hE, rfl, rfl⟩ := h
    exact accepts_answer code hinv hE

/-- with an injective coding of the symbols, `accepts` is membership of the word itself -/
theorem accepts_exact (code : String → Nat) (hcode : Function.Injective code) {fuel : Nat}
    {H H' : Heap} {i : Nat} {w : List String} {b : Bool} (hinv : Inv code H)
    (h : accepts code fuel H i w = some (b, H')) :
    ∃ r, treeOf (i + 1) H i = some r ∧ b = r.matches w := by
  obtain ⟨r, hr, hb⟩ := accepts_answer code hinv h
  refine ⟨r, hr, ?_⟩
  rw [Bool.eq_iff_iff, hb, matches_iff]
  constructor
  · rintro ⟨w', hd, e⟩
    rw [(List.map_inj_right (fun x y h => hcode h)).1 e] at hd; exact hd
  · intro hd; exact ⟨w, hd, rfl⟩

theorem trace_inv (code : String → Nat) (fuel : Nat) (ops : List Op) :
    ∀ H, Inv code H → ∀ e ∈ trace code fuel H ops,
      Inv code e.1 ∧ Inv code e.2.2.2 ∧ Answer code e.1 e.2.2.2 e.2.1 e.2.2.1 ∧
      ∀ i, i < e.1.length → treeOf (i + 1) e.2.2.2 i = treeOf (i + 1) e.1 i := by
  induction ops with
  | nil => intro H _ e he; simp [trace] at he
  | cons op ops ih =>
    intro H hinv e he
    unfold trace at he
    split at he
    · cases he
    · rename_i o H1 hs
      obtain ⟨hinv1, -, htree⟩ := step_inv code hinv hs
      rcases List.mem_cons.1 he with rfl | he
      · exact ⟨hinv, hinv1, step_answer code hinv hs, htree⟩
      · exact ih H1 hinv1 e he

/-- (5) history independence: along any history from the empty heap the invariant holds and every
call answers what the trees determine — and the tree of an address is fixed when it is created -/
theorem history_independent (code : String → Nat) (fuel : Nat) (ops : List Op) :
    ∀ e ∈ trace code fuel [] ops, Inv code e.1 ∧ Inv code e.2.2.2 ∧ Answer code e.1 e.2.2.2 e.2.1 e.2.2.1 ∧
      ∀ i, i < e.1.length → treeOf (i + 1) e.2.2.2 i = treeOf (i + 1) e.1 i := by
  refine trace_inv code fuel ops [] ⟨rfl, ?_⟩
  intro i o A h
  simp at h

theorem nextState_some {H : Heap} {i : Nat} (hi : i < H.length) :
    ∃ c, nextState H i = some (c, setCounter H i (c + 1)) := by
  unfold nextState
  rw [List.getElem?_eq_getElem hi]
  exact ⟨_, rfl⟩

theorem toENFA_isSome (code : String → Nat) {H : Heap} (hwf : WF H = true) {fuel i : Nat}
    (hi : i < H.length) (hf : i + 1 ≤ fuel) : (toENFA code fuel H i).isSome := by
  unfold toENFA
  obtain ⟨c, hc⟩ := nextState_some hi
  rw [hc]
  obtain ⟨c2, hc2⟩ := nextState_some (H := setCounter H i (c + 1)) (i := i)
    (by rw [length_setCounter]; exact hi)
  simp only [hc2]
  have := process_isSome code (wf_setCounter i (c2 + 1) (wf_setCounter i (c + 1) hwf))
    (i := i) (by rw [length_setCounter, length_setCounter]; exact hi) c c2 hf
  obtain ⟨⟨es, H3⟩, hp⟩ := Option.isSome_iff_exists.1 this
  rw [hp]; rfl

/-- (6) every call on valid addresses ends, fuel `|heap| + 1` suffices (a fresh tree is allocated
without fuel) -/
theorem step_isSome (code : String → Nat) {H : Heap} (hwf : WF H = true) {fuel : Nat}
    (hf : H.length + 1 ≤ fuel) (op : Op)
    (hop : match op with
      | .new _ => True
      | .union i j | .concat i j => i < H.length ∧ j < H.length
      | .star i | .toENFA i | .accepts i _ => i < H.length) :
    (step code fuel H op).isSome := by
  cases op with
  | new t => simp [step]
  | union i j => simp only [step]; rw [if_pos hop]; rfl
  | concat i j => simp only [step]; rw [if_pos hop]; rfl
  | star i => simp only [step]; rw [if_pos hop]; rfl
  | toENFA i =>
    simp only at hop
    simp only [step, Option.isSome_map]
    exact toENFA_isSome code hwf hop (by omega)
  | accepts i w =>
    simp only at hop
    simp only [step, Option.isSome_map]
    unfold accepts
    rw [List.getElem?_eq_getElem hop]
    simp only
    split
    · rfl
    · obtain ⟨⟨A, H1⟩, hp⟩ := Option.isSome_iff_exists.1 (toENFA_isSome code hwf (fuel := fuel) hop (by omega))
      rw [hp]; rfl


end PH
end RxObj
end Pfl
