/-
Helper lemmas for C11_BarHillel: the triple construction `[p A r]` over a Chomsky normal form and a
deterministic ε-free automaton.
-/
import Pfl.Model.BarHillel
import Pfl.Props.C09_CNF
import Pfl.Props.C12_Classes
import Pfl.Props.C04_Preds
import Pfl.Props.C01_Accepts
namespace Pfl.CFG.BH
open Pfl Pfl.CFG Pfl.ENFA
variable {τ : Type} [DecidableEq τ]

/-! ### `mapM` on `Option` -/

theorem mapM_nil_some {f : String → Option Nat} {ks : List Nat} :
    ([] : List String).mapM f = some ks ↔ ks = [] := by
  rw [List.mapM_nil]
  simp only [Option.pure_def, Option.some.injEq]
  exact eq_comm

theorem mapM_cons_some {f : String → Option Nat} {a : String} {w : List String} {ks : List Nat} :
    (a :: w).mapM f = some ks ↔ ∃ k ks', f a = some k ∧ w.mapM f = some ks' ∧ ks = k :: ks' := by
  rw [List.mapM_cons]
  cases hf : f a with
  | none => simp
  | some k =>
    cases hw : w.mapM f with
    | none => simp
    | some ks' =>
      simp only [Option.pure_def, Option.bind_eq_bind, Option.bind_some, Option.some.injEq]
      constructor
      · rintro rfl; exact ⟨k, ks', rfl, rfl, rfl⟩
      · rintro ⟨k', ks'', hk, hks, rfl⟩
        cases hk; cases hks; rfl

theorem mapM_append_some {f : String → Option Nat} {u v : List String} {ks : List Nat} :
    (u ++ v).mapM f = some ks ↔
      ∃ k₁ k₂, u.mapM f = some k₁ ∧ v.mapM f = some k₂ ∧ ks = k₁ ++ k₂ := by
  induction u generalizing ks with
  | nil =>
    simp only [List.nil_append, mapM_nil_some]
    constructor
    · intro h; exact ⟨[], ks, rfl, h, rfl⟩
    · rintro ⟨k₁, k₂, rfl, h, rfl⟩; exact h
  | cons a u ih =>
    rw [List.cons_append, mapM_cons_some]
    constructor
    · rintro ⟨k, ks', hk, hks, rfl⟩
      obtain ⟨k₁, k₂, h1, h2, rfl⟩ := ih.1 hks
      exact ⟨k :: k₁, k₂, mapM_cons_some.2 ⟨k, k₁, hk, h1, rfl⟩, h2, rfl⟩
    · rintro ⟨k₁, k₂, h1, h2, rfl⟩
      obtain ⟨k, k₁', hk, h1', rfl⟩ := mapM_cons_some.1 h1
      exact ⟨k, k₁' ++ k₂, hk, ih.2 ⟨k₁', k₂, h1', h2, rfl⟩, rfl⟩

/-! ### runs -/

omit [DecidableEq τ] in
theorem run_states {A : ENFA τ} (h : A.WF) {q r : τ} {w : List Nat} (hr : A.Run q w r)
    (hq : q ∈ A.states) : r ∈ A.states := by
  induction hr with
  | nil => exact hq
  | eps hd _ ih => exact ih (h.delta_dst _ hd)
  | step hd _ ih => exact ih (h.delta_dst _ hd)

omit [DecidableEq τ] in
theorem run_split {A : ENFA τ} (he : A.EpsFree) (u v : List Nat) (p r : τ)
    (h : A.Run p (u ++ v) r) : ∃ q, A.Run p u q ∧ A.Run q v r := by
  induction u generalizing p with
  | nil => exact ⟨p, Run.nil p, h⟩
  | cons a u ih =>
    rw [List.cons_append, he.run_cons_iff] at h
    obtain ⟨r', hedge, hr⟩ := h
    obtain ⟨q, h1, h2⟩ := ih r' hr
    exact ⟨q, Run.step hedge h1, h2⟩

/-! ### the productions of the construction -/

/-- the triple productions -/
def binProds (N : CFG) (D : ENFA τ) (symOf : String → Option Nat) (nm : τ → String) : List Prod :=
  N.prods.flatMap fun pr => match pr.2 with
    | [.var b, .var c] => D.states.flatMap fun p => D.states.flatMap fun r =>
        D.states.map fun q => (PDA.tripleName nm id p pr.1 r,
          [Sym.var (PDA.tripleName nm id p b q), Sym.var (PDA.tripleName nm id q c r)])
    | [.ter a] => D.states.filterMap fun p =>
        (dfaNext D symOf p a).map fun r => (PDA.tripleName nm id p pr.1 r, [Sym.ter a])
    | _ => []

/-- the start productions -/
def startProds (N : CFG) (D : ENFA τ) (nm : τ → String) : List Prod :=
  match D.starts.head?, N.start with
  | some s0, some st => D.finals.map fun f => ("Start", [Sym.var (PDA.tripleName nm id s0 st f)])
  | _, _ => []

theorem interD_eq (G : CFG) (D : ENFA τ) (symOf : String → Option Nat) (nm : τ → String)
    (fuel : Nat) :
    G.interD D symOf nm fuel =
      if D.isEmpty then some (mk' [] [] none []) else
      match G.toNormalForm fuel with
      | none => none
      | some N => some (mk' [] [] (some "Start") (binProds N D symOf nm ++ startProds N D nm ++
          (if G.generateEpsilon && D.acceptsE [] then [("Start", [])] else []))) := rfl

theorem mem_binProds (N : CFG) (D : ENFA τ) (symOf : String → Option Nat) (nm : τ → String)
    (pr : Prod) :
    pr ∈ binProds N D symOf nm ↔
      (∃ A b c p r q, (A, [Sym.var b, Sym.var c]) ∈ N.prods ∧ p ∈ D.states ∧ r ∈ D.states ∧
        q ∈ D.states ∧ pr = (PDA.tripleName nm id p A r,
          [Sym.var (PDA.tripleName nm id p b q), Sym.var (PDA.tripleName nm id q c r)])) ∨
      (∃ A a p r, (A, [Sym.ter a]) ∈ N.prods ∧ p ∈ D.states ∧ dfaNext D symOf p a = some r ∧
        pr = (PDA.tripleName nm id p A r, [Sym.ter a])) := by
  unfold binProds
  simp only [List.mem_flatMap]
  constructor
  · rintro ⟨⟨A, body⟩, hp, hm⟩
    split at hm
    · rename_i b c hb
      simp only at hb
      subst hb
      simp only [List.mem_flatMap, List.mem_map] at hm
      obtain ⟨p, hp', r, hr, q, hq, rfl⟩ := hm
      exact Or.inl ⟨A, b, c, p, r, q, hp, hp', hr, hq, rfl⟩
    · rename_i a hb
      simp only at hb
      subst hb
      simp only [List.mem_filterMap, Option.map_eq_some_iff] at hm
      obtain ⟨p, hp', r, hr, rfl⟩ := hm
      exact Or.inr ⟨A, a, p, r, hp, hp', hr, rfl⟩
    · cases hm
  · rintro (⟨A, b, c, p, r, q, hp, hp', hr, hq, rfl⟩ | ⟨A, a, p, r, hp, hp', hr, rfl⟩)
    · refine ⟨(A, [Sym.var b, Sym.var c]), hp, ?_⟩
      simp only [List.mem_flatMap, List.mem_map]
      exact ⟨p, hp', r, hr, q, hq, rfl⟩
    · refine ⟨(A, [Sym.ter a]), hp, ?_⟩
      simp only [List.mem_filterMap, Option.map_eq_some_iff]
      exact ⟨p, hp', r, hr, rfl⟩

theorem dfaNext_edge {D : ENFA τ} {symOf : String → Option Nat} {p r : τ} {a : String}
    (h : dfaNext D symOf p a = some r) : ∃ k, symOf a = some k ∧ (p, some k, r) ∈ D.delta := by
  unfold dfaNext at h
  split at h
  · cases h
  · rename_i k hk
    exact ⟨k, hk, (mem_succs D p r (some k)).mp (List.mem_of_head? h)⟩

theorem edge_dfaNext {D : ENFA τ} (dD : D.Deterministic) {symOf : String → Option Nat} {p r : τ}
    {a : String} {k : Nat} (hk : symOf a = some k) (he : (p, some k, r) ∈ D.delta) :
    dfaNext D symOf p a = some r := by
  unfold dfaNext
  rw [hk]
  exact (dD.head?_succs_iff p r (some k)).mpr he

/-! ### soundness of the triples -/

def SoundP (N : CFG) (D : ENFA τ) (symOf : String → Option Nat) (nm : τ → String)
    (s : Sym) (w : List String) : Prop :=
  ∀ p A r, s = .var (PDA.tripleName nm id p A r) → p ∈ D.states → r ∈ D.states →
    N.Gen (.var A) w ∧ ∃ ks, w.mapM symOf = some ks ∧ D.Run p ks r

def SoundQ (N : CFG) (D : ENFA τ) (symOf : String → Option Nat) (nm : τ → String) :
    List Sym → List String → Prop
  | [], w => w = []
  | [s], w => SoundP N D symOf nm s w
  | [s, t], w => ∃ w₁ w₂, w = w₁ ++ w₂ ∧ SoundP N D symOf nm s w₁ ∧ SoundP N D symOf nm t w₂
  | _, _ => True

theorem sound (N : CFG) (D : ENFA τ) (hD : D.WF) (symOf : String → Option Nat) (nm : τ → String)
    (hinj : ∀ p a r p' a' r', p ∈ D.states → r ∈ D.states → p' ∈ D.states → r' ∈ D.states →
      PDA.tripleName nm id p a r = PDA.tripleName nm id p' a' r' → p = p' ∧ a = a' ∧ r = r')
    (hstart : ∀ p a r, PDA.tripleName nm id p a r ≠ "Start")
    (R : CFG) (S : List Prod) (hS : ∀ pr ∈ S, pr.1 = "Start")
    (hR : ∀ pr, pr ∈ R.prods → pr ∈ binProds N D symOf nm ∨ pr ∈ S) :
    (∀ s w, R.Gen s w → SoundP N D symOf nm s w) ∧
    (∀ u w, R.GenList u w → SoundQ N D symOf nm u w) := by
  apply Clean.gen_ind
  · intro t p A r h; cases h
  · intro h body w hp hb ih p A r heq hps hrs
    simp only [Sym.var.injEq] at heq
    subst heq
    rcases hR _ hp with hm | hm
    · rw [mem_binProds] at hm
      rcases hm with ⟨A', b, c, p', r', q, hp', hps', hrs', hqs, he⟩ | ⟨A', a, p', r', hp', hps', hn, he⟩
      · simp only [Prod.mk.injEq] at he
        obtain ⟨he1, rfl⟩ := he
        obtain ⟨rfl, rfl, rfl⟩ := hinj _ _ _ _ _ _ hps hrs hps' hrs' he1
        simp only [SoundQ] at ih
        obtain ⟨w₁, w₂, rfl, h1, h2⟩ := ih
        obtain ⟨g1, k₁, m1, r1⟩ := h1 p b q rfl hps hqs
        obtain ⟨g2, k₂, m2, r2⟩ := h2 q c r rfl hqs hrs
        refine ⟨Gen.var hp' ((genList_pair_iff _ _ _ _).2 ⟨_, _, rfl, g1, g2⟩), k₁ ++ k₂, ?_, ?_⟩
        · exact mapM_append_some.2 ⟨k₁, k₂, m1, m2, rfl⟩
        · exact Run.append r1 r2
      · simp only [Prod.mk.injEq] at he
        obtain ⟨he1, rfl⟩ := he
        obtain ⟨k, hk, hedge⟩ := dfaNext_edge hn
        have hrs' : r' ∈ D.states := hD.delta_dst _ hedge
        obtain ⟨rfl, rfl, rfl⟩ := hinj _ _ _ _ _ _ hps hrs hps' hrs' he1
        rw [genList_single_iff, gen_ter_iffD] at hb
        subst hb
        refine ⟨Gen.var hp' ((genList_single_iff _ _ _).2 (Gen.ter a)), [k], ?_, ?_⟩
        · exact mapM_cons_some.2 ⟨k, [], hk, mapM_nil_some.2 rfl, rfl⟩
        · exact Run.step hedge (Run.nil _)
    · exact absurd (hS _ hm) (hstart p A r)
  · simp only [SoundQ]
  · intro s u w₁ w₂ _ _ ih₁ ih₂
    match u, ih₂ with
    | [], ih₂ =>
      simp only [SoundQ] at ih₂ ⊢
      subst ih₂
      simpa using ih₁
    | [t], ih₂ =>
      simp only [SoundQ] at ih₂ ⊢
      exact ⟨w₁, w₂, rfl, ih₁, ih₂⟩
    | _ :: _ :: _, _ => simp only [SoundQ]

/-- soundness, as used: a word of a triple is a word of the variable spelled along a run -/
theorem sound_gen (N : CFG) (D : ENFA τ) (hD : D.WF) (symOf : String → Option Nat) (nm : τ → String)
    (hinj : ∀ p a r p' a' r', p ∈ D.states → r ∈ D.states → p' ∈ D.states → r' ∈ D.states →
      PDA.tripleName nm id p a r = PDA.tripleName nm id p' a' r' → p = p' ∧ a = a' ∧ r = r')
    (hstart : ∀ p a r, PDA.tripleName nm id p a r ≠ "Start")
    (R : CFG) (S : List Prod) (hS : ∀ pr ∈ S, pr.1 = "Start")
    (hR : ∀ pr, pr ∈ R.prods → pr ∈ binProds N D symOf nm ∨ pr ∈ S)
    (p r : τ) (A : String) (w : List String) (hp : p ∈ D.states) (hr : r ∈ D.states)
    (h : R.Gen (.var (PDA.tripleName nm id p A r)) w) :
    N.Gen (.var A) w ∧ ∃ ks, w.mapM symOf = some ks ∧ D.Run p ks r :=
  (sound N D hD symOf nm hinj hstart R S hS hR).1 _ _ h p A r rfl hp hr

/-! ### completeness of the triples -/

theorem complete (N : CFG) (hN : N.isNormalForm = true) (D : ENFA τ) (hD : D.WF)
    (dD : D.Deterministic) (eD : D.EpsFree) (symOf : String → Option Nat) (nm : τ → String)
    (R : CFG) (hR : ∀ pr, pr ∈ binProds N D symOf nm → pr ∈ R.prods) :
    ∀ (n : Nat) (w : List String) (A : String), w.length ≤ n → N.Gen (.var A) w →
      ∀ p r ks, p ∈ D.states → w.mapM symOf = some ks → D.Run p ks r →
        R.Gen (.var (PDA.tripleName nm id p A r)) w := by
  intro n
  induction n with
  | zero =>
    intro w A hlen h
    have := cnf_gen_nonempty N hN h
    have : w = [] := List.eq_nil_of_length_eq_zero (by omega)
    contradiction
  | succ n ih =>
    intro w A hlen h p r ks hps hks hrun
    have hrs : r ∈ D.states := run_states hD hrun hps
    rcases (cnf_gen_var_iff N hN A w).1 h with ⟨t, rfl, hp⟩ | ⟨b, c, u₁, u₂, hp, rfl, h₁, h₂⟩
    · obtain ⟨k, ks', hk, hks', rfl⟩ := mapM_cons_some.1 hks
      rw [mapM_nil_some] at hks'
      subst hks'
      obtain ⟨r', hedge, hr'⟩ := (eD.run_cons_iff p r k []).1 hrun
      have := (eD.run_nil_iff r' r).1 hr'
      subst this
      have hn := edge_dfaNext dD (symOf := symOf) hk hedge
      have hm : (PDA.tripleName nm id p A r', [Sym.ter t]) ∈ binProds N D symOf nm :=
        (mem_binProds _ _ _ _ _).2 (Or.inr ⟨A, t, p, r', hp, hps, hn, rfl⟩)
      exact Gen.var (hR _ hm) ((genList_single_iff _ _ _).2 (Gen.ter t))
    · have n₁ := cnf_gen_nonempty N hN h₁
      have n₂ := cnf_gen_nonempty N hN h₂
      have l₁ : 0 < u₁.length := List.length_pos_iff.2 n₁
      have l₂ : 0 < u₂.length := List.length_pos_iff.2 n₂
      simp only [List.length_append] at hlen
      obtain ⟨k₁, k₂, m1, m2, rfl⟩ := mapM_append_some.1 hks
      obtain ⟨q, r1, r2⟩ := run_split eD k₁ k₂ p r hrun
      have hqs : q ∈ D.states := run_states hD r1 hps
      have g1 := ih u₁ b (by omega) h₁ p q k₁ hps m1 r1
      have g2 := ih u₂ c (by omega) h₂ q r k₂ hqs m2 r2
      have hm : (PDA.tripleName nm id p A r,
          [Sym.var (PDA.tripleName nm id p b q), Sym.var (PDA.tripleName nm id q c r)]) ∈
            binProds N D symOf nm :=
        (mem_binProds _ _ _ _ _).2 (Or.inl ⟨A, b, c, p, r, q, hp, hps, hrs, hqs, rfl⟩)
      exact Gen.var (hR _ hm) ((genList_pair_iff _ _ _ _).2 ⟨_, _, rfl, g1, g2⟩)

/-- the triple `[p A r]` generates the words of `A` that label a run from `p` to `r` -/
theorem triple_iff (N : CFG) (hN : N.isNormalForm = true) (D : ENFA τ) (hD : D.WF)
    (dD : D.Deterministic) (eD : D.EpsFree) (symOf : String → Option Nat) (nm : τ → String)
    (hinj : ∀ p a r p' a' r', p ∈ D.states → r ∈ D.states → p' ∈ D.states → r' ∈ D.states →
      PDA.tripleName nm id p a r = PDA.tripleName nm id p' a' r' → p = p' ∧ a = a' ∧ r = r')
    (hstart : ∀ p a r, PDA.tripleName nm id p a r ≠ "Start")
    (R : CFG) (S : List Prod) (hS : ∀ pr ∈ S, pr.1 = "Start")
    (hR : ∀ pr, pr ∈ R.prods ↔ pr ∈ binProds N D symOf nm ∨ pr ∈ S)
    (p r : τ) (A : String) (w : List String) (hp : p ∈ D.states) (hr : r ∈ D.states) :
    R.Gen (.var (PDA.tripleName nm id p A r)) w ↔
      N.Gen (.var A) w ∧ ∃ ks, w.mapM symOf = some ks ∧ D.Run p ks r := by
  constructor
  · exact sound_gen N D hD symOf nm hinj hstart R S hS (fun pr h => (hR pr).1 h) p r A w hp hr
  · rintro ⟨hg, ks, hks, hrun⟩
    exact complete N hN D hD dD eD symOf nm R (fun pr h => (hR pr).2 (Or.inl h)) w.length w A
      (Nat.le_refl _) hg p r ks hp hks hrun

/-! ### the top level -/

theorem binProds_head (N : CFG) (D : ENFA τ) (symOf : String → Option Nat) (nm : τ → String)
    (hstart : ∀ p a r, PDA.tripleName nm id p a r ≠ "Start") :
    ∀ pr ∈ binProds N D symOf nm, pr.1 ≠ "Start" := by
  intro pr h
  rw [mem_binProds] at h
  rcases h with ⟨A, b, c, p, r, q, _, _, _, _, rfl⟩ | ⟨A, a, p, r, _, _, _, rfl⟩
  · exact hstart _ _ _
  · exact hstart _ _ _

omit [DecidableEq τ] in
theorem startProds_head (N : CFG) (D : ENFA τ) (nm : τ → String) :
    ∀ pr ∈ startProds N D nm, pr.1 = "Start" := by
  intro pr h
  unfold startProds at h
  split at h
  · simp only [List.mem_map] at h
    obtain ⟨f, _, rfl⟩ := h
    rfl
  · cases h

omit [DecidableEq τ] in
theorem mem_startProds (N : CFG) (D : ENFA τ) (nm : τ → String) (pr : Prod) :
    pr ∈ startProds N D nm ↔ ∃ s0 st f, D.starts.head? = some s0 ∧ N.start = some st ∧
      f ∈ D.finals ∧ pr = ("Start", [Sym.var (PDA.tripleName nm id s0 st f)]) := by
  unfold startProds
  constructor
  · intro h
    split at h
    · rename_i s0 st h0 hst
      simp only [List.mem_map] at h
      obtain ⟨f, hf, rfl⟩ := h
      exact ⟨s0, st, f, h0, hst, hf, rfl⟩
    · cases h
  · rintro ⟨s0, st, f, h0, hst, hf, rfl⟩
    rw [h0, hst]
    exact List.mem_map.2 ⟨f, hf, rfl⟩

theorem interD_lang_main (G : CFG) (hG : G.WF) (D : ENFA τ) (hD : D.WF) (dD : D.Deterministic)
    (eD : D.EpsFree) (symOf : String → Option Nat) (nm : τ → String)
    (hinj : ∀ p a r p' a' r', p ∈ D.states → r ∈ D.states → p' ∈ D.states → r' ∈ D.states →
      PDA.tripleName nm id p a r = PDA.tripleName nm id p' a' r' → p = p' ∧ a = a' ∧ r = r')
    (hstart : ∀ p a r, PDA.tripleName nm id p a r ≠ "Start")
    (fuel : Nat) (R : CFG) (h : G.interD D symOf nm fuel = some R) (w : List String) :
    R.Lang w ↔ G.Lang w ∧ ∃ ks, w.mapM symOf = some ks ∧ D.Lang ks := by
  rw [interD_eq] at h
  by_cases hE : D.isEmpty = true
  · rw [if_pos hE] at h
    simp only [Option.some.injEq] at h
    subst h
    have hno := (ENFA.isEmpty_iff D hD).1 hE
    constructor
    · rintro ⟨s, hs, _⟩
      cases hs
    · rintro ⟨_, ks, _, hl⟩
      exact absurd hl (hno ks)
  · rw [if_neg hE] at h
    cases hN : G.toNormalForm fuel with
    | none => rw [hN] at h; cases h
    | some N =>
      rw [hN] at h
      simp only [Option.some.injEq] at h
      have hnf := toNormalForm_isNormalForm G hG fuel N hN
      have hlang := toNormalForm_lang G hG fuel N hN
      -- the unique start state
      have hne : ∃ ks, D.Lang ks := by
        by_contra hc
        exact hE ((ENFA.isEmpty_iff D hD).2 (fun w hw => hc ⟨w, hw⟩))
      obtain ⟨ks0, s0, hs0, _⟩ := hne
      have h0 : D.starts.head? = some s0 := by
        cases hst : D.starts with
        | nil => rw [hst] at hs0; cases hs0
        | cons a l =>
          have := dD.1 a (by rw [hst]; exact List.mem_cons_self) s0 hs0
          subst this
          rfl
      have hDl : ∀ ks, D.Lang ks ↔ ∃ f ∈ D.finals, D.Run s0 ks f := by
        intro ks
        constructor
        · rintro ⟨s, hs, f, hf, hr⟩
          have := dD.1 s hs s0 hs0
          subst this
          exact ⟨f, hf, hr⟩
        · rintro ⟨f, hf, hr⟩
          exact ⟨s0, hs0, f, hf, hr⟩
      have hs0s : s0 ∈ D.states := hD.starts_sub _ hs0
      -- the productions of `R`
      generalize hEdef : (if (G.generateEpsilon && D.acceptsE []) = true then [(("Start", []) : Prod)]
        else []) = E at h
      have hEmem : ∀ pr, pr ∈ E ↔ pr = ("Start", []) ∧ G.Lang [] ∧ D.Lang [] := by
        intro pr
        have ha : D.acceptsE [] = true ↔ D.Lang [] := by
          have := acceptsE_iff D []
          simpa using this
        rw [← hEdef, ← generateEpsilon_iff, ← ha]
        split
        · rename_i hc
          simp only [Bool.and_eq_true] at hc
          simp [hc.1, hc.2]
        · rename_i hc
          simp only [Bool.and_eq_true] at hc
          simp only [List.not_mem_nil, false_iff]
          rintro ⟨_, h1, h2⟩
          exact hc ⟨h1, h2⟩
      have hprods : ∀ pr, pr ∈ R.prods ↔
          pr ∈ binProds N D symOf nm ∨ pr ∈ startProds N D nm ++ E := by
        intro pr
        subst h
        rw [(mk'_prods _ _ _ _).1]
        simp only [List.mem_append, or_assoc]
      have hRstart : R.start = some "Start" := by subst h; rfl
      have hS : ∀ pr ∈ startProds N D nm ++ E, pr.1 = "Start" := by
        intro pr hpr
        rcases List.mem_append.1 hpr with hpr | hpr
        · exact startProds_head N D nm pr hpr
        · rw [((hEmem pr).1 hpr).1]
      have htri := triple_iff N hnf D hD dD eD symOf nm hinj hstart R _ hS hprods
      rw [lang_iff_gen]
      constructor
      · rintro ⟨s, hs, hg⟩
        rw [hRstart] at hs
        cases hs
        obtain ⟨body, hp, hb⟩ := (gen_var_iffD _ _ _).1 hg
        rcases (hprods _).1 hp with hm | hm
        · exact absurd rfl (binProds_head N D symOf nm hstart _ hm)
        · rcases List.mem_append.1 hm with hm | hm
          · rw [mem_startProds] at hm
            obtain ⟨s0', st, f, h0', hst, hf, he⟩ := hm
            rw [h0] at h0'
            cases h0'
            simp only [Prod.mk.injEq, true_and] at he
            subst he
            rw [genList_single_iff] at hb
            obtain ⟨hgN, ks, hks, hrun⟩ := (htri s0 f st w hs0s (hD.finals_sub _ hf)).1 hb
            have hNl : N.Lang w := (lang_iff_gen N w).2 ⟨st, hst, hgN⟩
            exact ⟨((hlang w).1 hNl).1, ks, hks, (hDl ks).2 ⟨f, hf, hrun⟩⟩
          · obtain ⟨he, hg0, hd0⟩ := (hEmem _).1 hm
            simp only [Prod.mk.injEq, true_and] at he
            subst he
            rw [genList_nil_iffD] at hb
            subst hb
            exact ⟨hg0, [], mapM_nil_some.2 rfl, hd0⟩
      · rintro ⟨hgl, ks, hks, hdl⟩
        refine ⟨"Start", hRstart, ?_⟩
        by_cases hw : w = []
        · subst hw
          rw [mapM_nil_some] at hks
          subst hks
          have hm : (("Start", []) : Prod) ∈ R.prods :=
            (hprods _).2 (Or.inr (List.mem_append_right _ ((hEmem _).2 ⟨rfl, hgl, hdl⟩)))
          exact Gen.var hm GenList.nil
        · obtain ⟨st, hst, hgN⟩ := (lang_iff_gen N w).1 ((hlang w).2 ⟨hgl, hw⟩)
          obtain ⟨f, hf, hrun⟩ := (hDl ks).1 hdl
          have hg := (htri s0 f st w hs0s (hD.finals_sub _ hf)).2 ⟨hgN, ks, hks, hrun⟩
          have hm : (("Start", [Sym.var (PDA.tripleName nm id s0 st f)]) : Prod) ∈ R.prods :=
            (hprods _).2 (Or.inr (List.mem_append_left _
              ((mem_startProds _ _ _ _).2 ⟨s0, st, f, h0, hst, hf, rfl⟩)))
          exact Gen.var hm ((genList_single_iff _ _ _).2 hg)

end Pfl.CFG.BH
