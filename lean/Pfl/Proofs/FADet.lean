/-
Helper lemmas for the subset construction (`toDet`): shape of `ofParts`, the invariant of the
worklist `detSeen`, and the simulation between runs of the result and iterated `stepSet`.
-/
import Pfl.Proofs.FABase
namespace Pfl

/-- keys listed once: `key` is injective on the list -/
theorem key_inj_of_nodup {α κ : Type} (key : α → κ) :
    ∀ (l : List α), (l.map key).Nodup → ∀ x ∈ l, ∀ y ∈ l, key x = key y → x = y := by
  intro l
  induction l with
  | nil => intro _ x hx; cases hx
  | cons z l ih =>
    intro hnd x hx y hy hxy
    rw [List.map_cons, List.nodup_cons] at hnd
    rcases List.mem_cons.mp hx with hx' | hx' <;> rcases List.mem_cons.mp hy with hy' | hy'
    · rw [hx', hy']
    · subst hx'
      exact absurd (List.mem_map.mpr ⟨y, hy', hxy.symm⟩) hnd.1
    · subst hy'
      exact absurd (List.mem_map.mpr ⟨x, hx', hxy⟩) hnd.1
    · exact ih hnd.2 x hx' y hy' hxy

namespace ENFA
set_option linter.unusedSectionVars false
variable {σ κ : Type} [DecidableEq σ] [DecidableEq κ]

/-- the naming function separates different sets of states -/
def KeyInj (A : ENFA σ) (key : List σ → κ) : Prop :=
  ∀ S T : List σ, (∀ q ∈ S, q ∈ A.states) → (∀ q ∈ T, q ∈ A.states) →
    key S = key T → ∀ q, q ∈ S ↔ q ∈ T

/-! ### fields of `ofParts` -/

theorem mem_ofParts_starts (starts finals : List σ) (delta : List (σ × Option Nat × σ)) (q : σ) :
    q ∈ (ofParts starts finals delta).starts ↔ q ∈ starts := by
  simp only [ofParts, List.mem_eraseDups]

theorem mem_ofParts_finals (starts finals : List σ) (delta : List (σ × Option Nat × σ)) (q : σ) :
    q ∈ (ofParts starts finals delta).finals ↔ q ∈ finals := by
  simp only [ofParts, List.mem_eraseDups]

theorem mem_ofParts_delta (starts finals : List σ) (delta : List (σ × Option Nat × σ))
    (t : σ × Option Nat × σ) :
    t ∈ (ofParts starts finals delta).delta ↔ t ∈ delta := by
  simp only [ofParts, List.mem_eraseDups]

/-! ### runs in ε-free automata -/

theorem run_nil_of_epsFree {A : ENFA σ} (he : A.EpsFree) {q r : σ} (h : A.Run q [] r) : q = r := by
  cases h with
  | nil => rfl
  | eps hd _ => exact absurd rfl (he _ hd)

theorem run_nil_iff_of_epsFree {A : ENFA σ} (he : A.EpsFree) (q r : σ) : A.Run q [] r ↔ r = q :=
  ⟨fun h => (run_nil_of_epsFree he h).symm, fun h => by subst h; exact Run.nil r⟩

theorem run_cons_iff_of_epsFree {A : ENFA σ} (he : A.EpsFree) (q s : σ) (a : Nat) (w : List Nat) :
    A.Run q (a :: w) s ↔ ∃ r, (q, some a, r) ∈ A.delta ∧ A.Run r w s := by
  constructor
  · intro h
    cases h with
    | eps hd _ => exact absurd rfl (he _ hd)
    | step hd hr => exact ⟨_, hd, hr⟩
  · rintro ⟨r, hd, hr⟩
    exact Run.step hd hr

/-- under `WF`, runs stay inside `states` -/
theorem run_states {A : ENFA σ} (h : A.WF) {q r : σ} {w : List Nat} (hr : A.Run q w r)
    (hq : q ∈ A.states) : r ∈ A.states := by
  induction hr with
  | nil => exact hq
  | eps hd _ ih => exact ih (h.delta_dst _ hd)
  | step hd _ ih => exact ih (h.delta_dst _ hd)

/-! ### one step of the subset construction, as a relation on states -/

/-- `r` is reached from `q` by one `a`-edge (followed by ε-moves when closing) -/
def StepRel (A : ENFA σ) (useE : Bool) (q : σ) (a : Nat) (r : σ) : Prop :=
  if useE then ∃ p, (q, some a, p) ∈ A.delta ∧ A.EpsReach p r else (q, some a, r) ∈ A.delta

theorem mem_stepSet_iff (A : ENFA σ) (useE : Bool) (S : List σ) (a : Nat) (r : σ) :
    r ∈ A.stepSet useE S a ↔ ∃ q ∈ S, A.StepRel useE q a r := by
  cases useE with
  | true =>
    simp only [stepSet, StepRel, if_true, mem_ecloseL_iff, mem_nextL_iff]
    constructor
    · rintro ⟨p, ⟨q, hq, hd⟩, hp⟩; exact ⟨q, hq, p, hd, hp⟩
    · rintro ⟨q, hq, p, hd, hp⟩; exact ⟨p, ⟨q, hq, hd⟩, hp⟩
  | false =>
    simp only [stepSet, StepRel, Bool.false_eq_true, if_false, mem_nextL_iff]

theorem stepRel_sym {A : ENFA σ} (h : A.WF) {useE : Bool} {q r : σ} {a : Nat}
    (hs : A.StepRel useE q a r) : a ∈ A.syms := by
  cases useE with
  | true =>
    simp only [StepRel, if_true] at hs
    obtain ⟨p, hd, _⟩ := hs
    exact h.delta_sym _ hd a rfl
  | false =>
    simp only [StepRel, Bool.false_eq_true, if_false] at hs
    exact h.delta_sym _ hs a rfl

theorem stepRel_states {A : ENFA σ} (h : A.WF) {useE : Bool} {q r : σ} {a : Nat}
    (hs : A.StepRel useE q a r) : r ∈ A.states := by
  cases useE with
  | true =>
    simp only [StepRel, if_true] at hs
    obtain ⟨p, hd, hp⟩ := hs
    exact run_states h hp (h.delta_dst _ hd)
  | false =>
    simp only [StepRel, Bool.false_eq_true, if_false] at hs
    exact h.delta_dst _ hs

/-- `stepSet` only depends on the set of members -/
theorem stepSet_congr (A : ENFA σ) (useE : Bool) {S T : List σ} (hST : ∀ q, q ∈ S ↔ q ∈ T)
    (a : Nat) (r : σ) : r ∈ A.stepSet useE S a ↔ r ∈ A.stepSet useE T a := by
  simp only [mem_stepSet_iff]
  constructor
  · rintro ⟨q, hq, hr⟩; exact ⟨q, (hST q).mp hq, hr⟩
  · rintro ⟨q, hq, hr⟩; exact ⟨q, (hST q).mpr hq, hr⟩

theorem foldl_stepSet_congr (A : ENFA σ) (useE : Bool) (w : List Nat) :
    ∀ {S T : List σ}, (∀ q, q ∈ S ↔ q ∈ T) →
      ∀ r, r ∈ w.foldl (A.stepSet useE) S ↔ r ∈ w.foldl (A.stepSet useE) T := by
  induction w with
  | nil => intro S T hST r; exact hST r
  | cons a w ih =>
    intro S T hST r
    simp only [List.foldl_cons]
    exact ih (stepSet_congr A useE hST a) r

/-- nothing comes out of the empty set -/
theorem foldl_stepSet_empty (A : ENFA σ) (useE : Bool) (w : List Nat) :
    ∀ {S : List σ}, (∀ q, q ∉ S) → ∀ r, r ∉ w.foldl (A.stepSet useE) S := by
  induction w with
  | nil => intro S hS r; exact hS r
  | cons a w ih =>
    intro S hS r
    simp only [List.foldl_cons]
    apply ih
    intro q hq
    obtain ⟨p, hp, _⟩ := (mem_stepSet_iff A useE S a q).mp hq
    exact hS p hp

theorem foldl_stepSet_true (A : ENFA σ) (S : List σ) (w : List Nat) :
    w.foldl (A.stepSet true) S = A.evalE S w := by
  unfold evalE
  induction w generalizing S with
  | nil => rfl
  | cons a w ih => simp only [List.foldl_cons]; rw [← ih]; rfl

/-- without ε-edges, iterating the plain step agrees with the closing evaluation -/
theorem foldl_stepSet_false (A : ENFA σ) (he : A.EpsFree) (w : List Nat) :
    ∀ {S T : List σ}, (∀ q, q ∈ S ↔ q ∈ T) →
      ∀ r, r ∈ w.foldl (A.stepSet false) S ↔ r ∈ A.evalE T w := by
  induction w with
  | nil => intro S T hST r; exact hST r
  | cons a w ih =>
    intro S T hST r
    simp only [evalE, List.foldl_cons]
    apply ih
    intro q
    simp only [stepSet, Bool.false_eq_true, if_false, mem_ecloseL_iff, mem_nextL_iff, EpsReach,
      run_nil_iff_of_epsFree he]
    constructor
    · rintro ⟨p, hp, hd⟩; exact ⟨q, ⟨p, (hST p).mp hp, hd⟩, rfl⟩
    · rintro ⟨q', ⟨p, hp, hd⟩, rfl⟩; exact ⟨p, (hST p).mpr hp, hd⟩

theorem mem_ecloseL_of_epsFree (A : ENFA σ) (he : A.EpsFree) (S : List σ) (r : σ) :
    r ∈ A.ecloseL S ↔ r ∈ S := by
  simp only [mem_ecloseL_iff, EpsReach, run_nil_iff_of_epsFree he]
  constructor
  · rintro ⟨q, hq, rfl⟩; exact hq
  · intro h; exact ⟨r, h, rfl⟩

/-! ### the worklist -/

section seen
variable (A : ENFA σ) (key : List σ → κ) (useE : Bool) (fuel : Nat) (seen : List (List σ))

theorem detSeen_start (hs : A.detSeen key useE fuel = some seen) : A.detStart useE ∈ seen := by
  unfold detSeen at hs
  have := bfsK_inv key (A.detNext useE) fuel _ _ seen hs (fun z hz => hz)
    (fun x hx hxt => absurd hx hxt)
  exact this.1 _ (by simp)

theorem detSeen_closed (hs : A.detSeen key useE fuel = some seen) {S : List σ} (hS : S ∈ seen)
    {a : Nat} (ha : a ∈ A.syms) (hne : A.stepSet useE S a ≠ []) :
    ∃ T ∈ seen, key T = key (A.stepSet useE S a) := by
  unfold detSeen at hs
  have := bfsK_inv key (A.detNext useE) fuel _ _ seen hs (fun z hz => hz)
    (fun x hx hxt => absurd hx hxt)
  have hmem : A.stepSet useE S a ∈ A.detNext useE S := by
    unfold detNext
    refine List.mem_filterMap.mpr ⟨a, ha, ?_⟩
    simp [hne]
  obtain ⟨T, hT, hk⟩ := List.mem_map.mp (this.2 S hS (by simp) _ hmem)
  exact ⟨T, hT, hk⟩

theorem detSeen_inj (hs : A.detSeen key useE fuel = some seen) :
    ∀ S ∈ seen, ∀ T ∈ seen, key S = key T → S = T := by
  unfold detSeen at hs
  exact key_inj_of_nodup key seen
    (bfsK_nodup key (A.detNext useE) fuel _ _ seen hs (by simp))

theorem detStart_states (h : A.WF) : ∀ q ∈ A.detStart useE, q ∈ A.states := by
  intro q hq
  cases useE with
  | true =>
    simp only [detStart, if_true, mem_ecloseL_iff] at hq
    obtain ⟨s, hs, hr⟩ := hq
    exact run_states h hr (h.starts_sub s hs)
  | false =>
    simp only [detStart, Bool.false_eq_true, if_false, List.mem_eraseDups] at hq
    exact h.starts_sub q hq

theorem stepSet_states (h : A.WF) (S : List σ) (a : Nat) :
    ∀ q ∈ A.stepSet useE S a, q ∈ A.states := by
  intro q hq
  obtain ⟨p, _, hp⟩ := (mem_stepSet_iff A useE S a q).mp hq
  exact stepRel_states h hp

theorem detSeen_states (h : A.WF) (hs : A.detSeen key useE fuel = some seen) :
    ∀ S ∈ seen, ∀ q ∈ S, q ∈ A.states := by
  unfold detSeen at hs
  refine bfsK_sound key (A.detNext useE) (fun S => ∀ q ∈ S, q ∈ A.states) ?_ fuel _ _ seen hs ?_ ?_
  · intro S T _ hT
    unfold detNext at hT
    obtain ⟨a, _, ha⟩ := List.mem_filterMap.mp hT
    have : T = A.stepSet useE S a := by
      by_cases he : (A.stepSet useE S a).isEmpty <;> simp [he] at ha
      exact ha.symm
    subst this
    exact stepSet_states A useE h S a
  · intro z hz
    simp only [List.mem_singleton] at hz
    subst hz; exact detStart_states A useE h
  · intro z hz
    simp only [List.mem_singleton] at hz
    subst hz; exact detStart_states A useE h

end seen

/-! ### the determinised automaton -/

/-- the automaton built by `toDet` from the list of processed subsets -/
def detOf (A : ENFA σ) (key : List σ → κ) (useE : Bool) (seen : List (List σ)) : ENFA κ :=
  ofParts [key (A.detStart useE)]
    ((seen.filter fun S => S.any (· ∈ A.finals)).map key)
    (seen.flatMap fun S => A.syms.filterMap fun a =>
      let T := A.stepSet useE S a
      if T.isEmpty then none else some (key S, some a, key T))

theorem toDet_eq (A : ENFA σ) (key : List σ → κ) (useE : Bool) (fuel : Nat) (D : ENFA κ)
    (hD : A.toDet key useE fuel = some D) :
    ∃ seen, A.detSeen key useE fuel = some seen ∧ D = A.detOf key useE seen := by
  unfold toDet at hD
  obtain ⟨seen, hs, hd⟩ := Option.map_eq_some_iff.mp hD
  exact ⟨seen, hs, hd.symm⟩

section detOf
variable (A : ENFA σ) (key : List σ → κ) (useE : Bool) (seen : List (List σ))

theorem mem_detOf_starts (k : κ) : k ∈ (A.detOf key useE seen).starts ↔ k = key (A.detStart useE) := by
  simp only [detOf, mem_ofParts_starts, List.mem_singleton]

theorem mem_detOf_finals (k : κ) :
    k ∈ (A.detOf key useE seen).finals ↔ ∃ S ∈ seen, (∃ f ∈ A.finals, f ∈ S) ∧ key S = k := by
  simp only [detOf, mem_ofParts_finals, List.mem_map, List.mem_filter, List.any_eq_true,
    decide_eq_true_eq]
  constructor
  · rintro ⟨S, ⟨hS, f, hf, hfin⟩, rfl⟩; exact ⟨S, hS, ⟨f, hfin, hf⟩, rfl⟩
  · rintro ⟨S, hS, ⟨f, hfin, hf⟩, rfl⟩; exact ⟨S, ⟨hS, f, hf, hfin⟩, rfl⟩

theorem mem_detOf_delta (t : κ × Option Nat × κ) :
    t ∈ (A.detOf key useE seen).delta ↔
      ∃ S ∈ seen, ∃ a ∈ A.syms, A.stepSet useE S a ≠ [] ∧
        t = (key S, some a, key (A.stepSet useE S a)) := by
  simp only [detOf, mem_ofParts_delta, List.mem_flatMap, List.mem_filterMap]
  constructor
  · rintro ⟨S, hS, a, ha, h⟩
    by_cases he : (A.stepSet useE S a).isEmpty
    · simp [he] at h
    · simp only [he] at h
      refine ⟨S, hS, a, ha, ?_, ?_⟩
      · intro h0; rw [h0] at he; simp at he
      · simpa using h.symm
  · rintro ⟨S, hS, a, ha, hne, rfl⟩
    refine ⟨S, hS, a, ha, ?_⟩
    have : (A.stepSet useE S a).isEmpty = false := by
      cases hh : A.stepSet useE S a with
      | nil => exact absurd hh hne
      | cons _ _ => rfl
    simp [this]

theorem detOf_epsFree : (A.detOf key useE seen).EpsFree := by
  intro t ht
  obtain ⟨S, _, a, _, _, rfl⟩ := (mem_detOf_delta A key useE seen t).mp ht
  simp

theorem detOf_deterministic (hinj : ∀ S ∈ seen, ∀ T ∈ seen, key S = key T → S = T) :
    (A.detOf key useE seen).Deterministic := by
  refine ⟨?_, ?_, ?_⟩
  · intro p hp q hq
    rw [mem_detOf_starts] at hp hq
    rw [hp, hq]
  · intro q a r r' h1 h2
    obtain ⟨S1, hS1, a1, _, _, e1⟩ := (mem_detOf_delta A key useE seen _).mp h1
    obtain ⟨S2, hS2, a2, _, _, e2⟩ := (mem_detOf_delta A key useE seen _).mp h2
    simp only [Prod.mk.injEq] at e1 e2
    obtain ⟨e1q, e1a, e1r⟩ := e1
    obtain ⟨e2q, e2a, e2r⟩ := e2
    have hS : S1 = S2 := hinj S1 hS1 S2 hS2 (by rw [← e1q, ← e2q])
    have ha : a1 = a2 := by
      have : some a1 = some a2 := by rw [← e1a, ← e2a]
      exact Option.some.inj this
    rw [e1r, e2r, hS, ha]
  · intro q r h
    obtain ⟨S, _, a, _, _, e⟩ := (mem_detOf_delta A key useE seen _).mp h
    simp at e

end detOf

/-- simulation: from a processed subset `S`, the result accepts `w` iff iterating `stepSet`
from `S` along `w` hits a final state -/
theorem detOf_accepts (A : ENFA σ) (h : A.WF) (key : List σ → κ) (hk : A.KeyInj key)
    (useE : Bool) (fuel : Nat) (seen : List (List σ))
    (hs : A.detSeen key useE fuel = some seen) (w : List Nat) :
    ∀ S ∈ seen,
      (∃ k ∈ (A.detOf key useE seen).finals, (A.detOf key useE seen).Run (key S) w k) ↔
        ∃ f ∈ A.finals, f ∈ w.foldl (A.stepSet useE) S := by
  have hef := detOf_epsFree A key useE seen
  have hinj := detSeen_inj A key useE fuel seen hs
  have hst := detSeen_states A key useE fuel seen h hs
  induction w with
  | nil =>
    intro S hS
    simp only [run_nil_iff_of_epsFree hef, List.foldl_nil, mem_detOf_finals]
    constructor
    · rintro ⟨k, ⟨S', hS', hf, hkS'⟩, rfl⟩
      have : S' = S := hinj S' hS' S hS hkS'
      subst this; exact hf
    · intro hf
      exact ⟨key S, ⟨S, hS, hf, rfl⟩, rfl⟩
  | cons a w ih =>
    intro S hS
    simp only [run_cons_iff_of_epsFree hef, List.foldl_cons]
    constructor
    · rintro ⟨k, hkf, r, hd, hr⟩
      obtain ⟨S1, hS1, a1, ha1, hne, e⟩ := (mem_detOf_delta A key useE seen _).mp hd
      simp only [Prod.mk.injEq, Option.some.injEq] at e
      obtain ⟨eq1, ea, er⟩ := e
      have : S1 = S := hinj S1 hS1 S hS eq1.symm
      subst this
      subst ea
      obtain ⟨T, hT, hkT⟩ := detSeen_closed A key useE fuel seen hs hS1 ha1 hne
      have hmem := hk T (A.stepSet useE S1 a) (hst T hT) (stepSet_states A useE h S1 a) hkT
      rw [er, ← hkT] at hr
      obtain ⟨f, hf, hfm⟩ := (ih T hT).mp ⟨k, hkf, hr⟩
      exact ⟨f, hf, (foldl_stepSet_congr A useE w hmem f).mp hfm⟩
    · rintro ⟨f, hf, hfm⟩
      have hne : A.stepSet useE S a ≠ [] := by
        intro h0
        rw [h0] at hfm
        exact foldl_stepSet_empty A useE w (by simp) f hfm
      have ha : a ∈ A.syms := by
        cases hh : A.stepSet useE S a with
        | nil => exact absurd hh hne
        | cons r _ =>
          have hr : r ∈ A.stepSet useE S a := by rw [hh]; simp
          obtain ⟨q, _, hq⟩ := (mem_stepSet_iff A useE S a r).mp hr
          exact stepRel_sym h hq
      obtain ⟨T, hT, hkT⟩ := detSeen_closed A key useE fuel seen hs hS ha hne
      have hmem := hk T (A.stepSet useE S a) (hst T hT) (stepSet_states A useE h S a) hkT
      obtain ⟨k, hkf, hr⟩ := (ih T hT).mpr ⟨f, hf, (foldl_stepSet_congr A useE w hmem f).mpr hfm⟩
      refine ⟨k, hkf, key T, ?_, hr⟩
      rw [hkT]
      exact (mem_detOf_delta A key useE seen _).mpr ⟨S, hS, a, ha, hne, rfl⟩

/-- the language of the result, in terms of iterated `stepSet` from `detStart` -/
theorem toDet_lang_fold (A : ENFA σ) (h : A.WF) (key : List σ → κ) (hk : A.KeyInj key)
    (useE : Bool) (fuel : Nat) (D : ENFA κ) (hD : A.toDet key useE fuel = some D) (w : List Nat) :
    D.Lang w ↔ ∃ f ∈ A.finals, f ∈ w.foldl (A.stepSet useE) (A.detStart useE) := by
  obtain ⟨seen, hs, rfl⟩ := toDet_eq A key useE fuel D hD
  rw [← detOf_accepts A h key hk useE fuel seen hs w _ (detSeen_start A key useE fuel seen hs)]
  unfold Lang
  constructor
  · rintro ⟨s, hs', f, hf, hr⟩
    rw [mem_detOf_starts] at hs'
    subst hs'
    exact ⟨f, hf, hr⟩
  · rintro ⟨f, hf, hr⟩
    exact ⟨_, (mem_detOf_starts A key useE seen _).mpr rfl, f, hf, hr⟩

end ENFA
end Pfl
