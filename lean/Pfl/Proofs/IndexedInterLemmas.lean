/-
Helper lemmas for C17_Inter: the triple construction `FST.intersection(indexed_grammar)`.
-/
import Pfl.Model.IndexedInter
import Pfl.Spec.Indexed
import Pfl.Spec.FST
import Pfl.Proofs.FSTLemmas
import Pfl.Proofs.IndexedLemmas
namespace Pfl.IG.Inter
open Pfl.FST
set_option linter.unusedSectionVars false
variable {σ : Type} [DecidableEq σ]

/-! ### paths -/

theorem path_split {T : FST σ} {p q : σ} {u v o : List String} (h : T.Path p (u ++ v) o q) :
    ∃ r o₁ o₂, T.Path p u o₁ r ∧ T.Path r v o₂ q := by
  generalize hw : u ++ v = w at h
  induction h generalizing u with
  | nil q =>
    obtain ⟨rfl, rfl⟩ := List.append_eq_nil_iff.mp hw
    exact ⟨q, [], [], Path.nil q, Path.nil q⟩
  | eps he _ ih =>
    obtain ⟨r, o₁, o₂, h1, h2⟩ := ih hw
    exact ⟨r, _, o₂, Path.eps he h1, h2⟩
  | @read q r s a i o o' he hp ih =>
    cases u with
    | nil =>
      simp only [List.nil_append] at hw
      subst hw
      exact ⟨q, [], _, Path.nil q, Path.read he hp⟩
    | cons b u' =>
      simp only [List.cons_append, List.cons.injEq] at hw
      obtain ⟨rfl, hw⟩ := hw
      obtain ⟨r', o₁, o₂, h1, h2⟩ := ih hw
      exact ⟨r', _, o₂, Path.read he h1, h2⟩

theorem path_states {T : FST σ} (hT : T.WF) {p q : σ} {i o : List String} (h : T.Path p i o q)
    (hp : p ∈ T.states) : q ∈ T.states := by
  induction h with
  | nil q => exact hp
  | eps he _ ih => exact ih (hT.dst _ he)
  | read he _ ih => exact ih (hT.dst _ he)

/-! ### membership in `interRules` -/

/-- the shapes of the rules written by the construction -/
def Shape (T : FST σ) (rs : σ → String) (G : IG) (r : IRule) : Prop :=
  r = IRule.end_ "T" "epsilon" ∨
  (∃ f a b, IRule.cons f a b ∈ G.rules ∧ ∃ p ∈ T.states, ∃ q ∈ T.states,
    r = IRule.cons f (tripleStr rs p a q) (tripleStr rs p b q)) ∨
  (∃ a b c, IRule.dup a b c ∈ G.rules ∧ ∃ p ∈ T.states, ∃ q ∈ T.states, ∃ r' ∈ T.states,
    r = IRule.dup (tripleStr rs p a q) (tripleStr rs p b r') (tripleStr rs r' c q)) ∨
  (∃ a b f, IRule.prod a b f ∈ G.rules ∧ ∃ p ∈ T.states, ∃ q ∈ T.states,
    r = IRule.prod (tripleStr rs p a q) (tripleStr rs p b q) f) ∨
  (∃ a t, IRule.end_ a t ∈ G.rules ∧ ∃ p ∈ T.states, ∃ q ∈ T.states,
    r = IRule.dup (tripleStr rs p a q) (terTripleStr rs p t q) "T") ∨
  (∃ t ∈ G.ruleTerminals, ∃ p ∈ T.states, ∃ q ∈ T.states, ∃ r' ∈ T.states,
    r = IRule.dup (terTripleStr rs p t q) (terTripleStr rs p "epsilon" r')
      (terTripleStr rs r' t q) ∨
    r = IRule.dup (terTripleStr rs p t q) (terTripleStr rs p t r')
      (terTripleStr rs r' "epsilon" q)) ∨
  (∃ p ∈ T.states, ∃ q ∈ T.states, ∃ r' ∈ T.states,
    r = IRule.dup (terTripleStr rs p "epsilon" q) (terTripleStr rs p "epsilon" r')
      (terTripleStr rs r' "epsilon" q)) ∨
  (∃ e ∈ T.delta, r = IRule.end_ (terTripleStr rs e.1 (e.2.1.getD "epsilon") e.2.2.1)
      (" ".intercalate e.2.2.2)) ∨
  (∃ p ∈ T.states, r = IRule.end_ (terTripleStr rs p "epsilon" p) "epsilon") ∨
  (∃ f ∈ T.finals, ∃ s ∈ T.starts, r = IRule.dup "S" (tripleStr rs s "S" f) "T")

theorem mem_consBlock (T : FST σ) (rs : σ → String) (G : IG) (r : IRule) :
    (r ∈ G.rules.flatMap fun r => match r with
      | .cons f a b => T.states.flatMap fun p => T.states.map fun q =>
          IRule.cons f (tripleStr rs p a q) (tripleStr rs p b q)
      | _ => []) ↔
    ∃ f a b, IRule.cons f a b ∈ G.rules ∧ ∃ p ∈ T.states, ∃ q ∈ T.states,
      r = IRule.cons f (tripleStr rs p a q) (tripleStr rs p b q) := by
  simp only [List.mem_flatMap]
  constructor
  · rintro ⟨r0, hr0, h⟩
    cases r0 with
    | cons f a b =>
      simp only [List.mem_flatMap, List.mem_map] at h
      obtain ⟨p, hp, q, hq, rfl⟩ := h
      exact ⟨f, a, b, hr0, p, hp, q, hq, rfl⟩
    | _ => simp at h
  · rintro ⟨f, a, b, hr0, p, hp, q, hq, rfl⟩
    exact ⟨_, hr0, by simp only [List.mem_flatMap, List.mem_map]; exact ⟨p, hp, q, hq, rfl⟩⟩

theorem mem_gBlock (T : FST σ) (rs : σ → String) (G : IG) (r : IRule) :
    (r ∈ G.rules.flatMap fun r => match r with
      | .dup a b c => T.states.flatMap fun p => T.states.flatMap fun q => T.states.map fun r' =>
          IRule.dup (tripleStr rs p a q) (tripleStr rs p b r') (tripleStr rs r' c q)
      | .prod a b f => T.states.flatMap fun p => T.states.map fun q =>
          IRule.prod (tripleStr rs p a q) (tripleStr rs p b q) f
      | .end_ a t => T.states.flatMap fun p => T.states.map fun q =>
          IRule.dup (tripleStr rs p a q) (terTripleStr rs p t q) "T"
      | .cons _ _ _ => []) ↔
    (∃ a b c, IRule.dup a b c ∈ G.rules ∧ ∃ p ∈ T.states, ∃ q ∈ T.states, ∃ r' ∈ T.states,
      r = IRule.dup (tripleStr rs p a q) (tripleStr rs p b r') (tripleStr rs r' c q)) ∨
    (∃ a b f, IRule.prod a b f ∈ G.rules ∧ ∃ p ∈ T.states, ∃ q ∈ T.states,
      r = IRule.prod (tripleStr rs p a q) (tripleStr rs p b q) f) ∨
    (∃ a t, IRule.end_ a t ∈ G.rules ∧ ∃ p ∈ T.states, ∃ q ∈ T.states,
      r = IRule.dup (tripleStr rs p a q) (terTripleStr rs p t q) "T") := by
  simp only [List.mem_flatMap]
  constructor
  · rintro ⟨r0, hr0, h⟩
    cases r0 with
    | cons f a b => simp at h
    | dup a b c =>
      simp only [List.mem_flatMap, List.mem_map] at h
      obtain ⟨p, hp, q, hq, r', hr', rfl⟩ := h
      exact Or.inl ⟨a, b, c, hr0, p, hp, q, hq, r', hr', rfl⟩
    | prod a b f =>
      simp only [List.mem_flatMap, List.mem_map] at h
      obtain ⟨p, hp, q, hq, rfl⟩ := h
      exact Or.inr (Or.inl ⟨a, b, f, hr0, p, hp, q, hq, rfl⟩)
    | end_ a t =>
      simp only [List.mem_flatMap, List.mem_map] at h
      obtain ⟨p, hp, q, hq, rfl⟩ := h
      exact Or.inr (Or.inr ⟨a, t, hr0, p, hp, q, hq, rfl⟩)
  · rintro (⟨a, b, c, hr0, p, hp, q, hq, r', hr', rfl⟩ | ⟨a, b, f, hr0, p, hp, q, hq, rfl⟩ |
      ⟨a, t, hr0, p, hp, q, hq, rfl⟩)
    · exact ⟨_, hr0, by
        simp only [List.mem_flatMap, List.mem_map]; exact ⟨p, hp, q, hq, r', hr', rfl⟩⟩
    · exact ⟨_, hr0, by simp only [List.mem_flatMap, List.mem_map]; exact ⟨p, hp, q, hq, rfl⟩⟩
    · exact ⟨_, hr0, by simp only [List.mem_flatMap, List.mem_map]; exact ⟨p, hp, q, hq, rfl⟩⟩

theorem mem_interRules (T : FST σ) (rs : σ → String) (G : IG) (r : IRule) :
    r ∈ interRules T rs G ↔ Shape T rs G r := by
  unfold interRules Shape
  simp only [List.mem_append, List.mem_singleton, or_assoc]
  refine or_congr Iff.rfl (or_congr (mem_consBlock T rs G r) ?_)
  refine Iff.trans (or_congr (mem_gBlock T rs G r) Iff.rfl) ?_
  simp only [or_assoc]
  refine or_congr Iff.rfl (or_congr Iff.rfl (or_congr Iff.rfl
    (or_congr ?_ (or_congr ?_ (or_congr ?_ (or_congr ?_ ?_))))))
  · simp only [List.mem_flatMap, List.mem_cons, List.not_mem_nil, or_false]
  · simp only [List.mem_flatMap, List.mem_map, eq_comm]
  · simp only [List.mem_map, eq_comm]
  · simp only [List.mem_map, eq_comm]
  · simp only [List.mem_flatMap, List.mem_map, eq_comm]


theorem mem_end (T : FST σ) (rs : σ → String) (G : IG) (x t : String) :
    IRule.end_ x t ∈ interRules T rs G ↔
      (x = "T" ∧ t = "epsilon") ∨
      (∃ e ∈ T.delta, x = terTripleStr rs e.1 (e.2.1.getD "epsilon") e.2.2.1 ∧
        t = " ".intercalate e.2.2.2) ∨
      (∃ p ∈ T.states, x = terTripleStr rs p "epsilon" p ∧ t = "epsilon") := by
  rw [mem_interRules]
  unfold Shape
  simp only [IRule.end_.injEq, reduceCtorEq, and_false, exists_false, false_or, or_false]

theorem mem_prod (T : FST σ) (rs : σ → String) (G : IG) (x y f : String) :
    IRule.prod x y f ∈ interRules T rs G ↔
      ∃ a b, IRule.prod a b f ∈ G.rules ∧ ∃ p ∈ T.states, ∃ q ∈ T.states,
        x = tripleStr rs p a q ∧ y = tripleStr rs p b q := by
  rw [mem_interRules]
  unfold Shape
  simp only [IRule.prod.injEq, reduceCtorEq, and_false, exists_false, false_or, or_false]
  constructor
  · rintro ⟨a, b, f', hr, p, hp, q, hq, rfl, rfl, rfl⟩
    exact ⟨a, b, hr, p, hp, q, hq, rfl, rfl⟩
  · rintro ⟨a, b, hr, p, hp, q, hq, rfl, rfl⟩
    exact ⟨a, b, f, hr, p, hp, q, hq, rfl, rfl, rfl⟩

theorem mem_cons (T : FST σ) (rs : σ → String) (G : IG) (f x y : String) :
    IRule.cons f x y ∈ interRules T rs G ↔
      ∃ a b, IRule.cons f a b ∈ G.rules ∧ ∃ p ∈ T.states, ∃ q ∈ T.states,
        x = tripleStr rs p a q ∧ y = tripleStr rs p b q := by
  rw [mem_interRules]
  unfold Shape
  simp only [IRule.cons.injEq, reduceCtorEq, and_false, exists_false, false_or, or_false]
  constructor
  · rintro ⟨f', a, b, hr, p, hp, q, hq, rfl, rfl, rfl⟩
    exact ⟨a, b, hr, p, hp, q, hq, rfl, rfl⟩
  · rintro ⟨a, b, hr, p, hp, q, hq, rfl, rfl⟩
    exact ⟨f, a, b, hr, p, hp, q, hq, rfl, rfl, rfl⟩

theorem mem_dup (T : FST σ) (rs : σ → String) (G : IG) (x y z : String) :
    IRule.dup x y z ∈ interRules T rs G ↔
      (∃ a b c, IRule.dup a b c ∈ G.rules ∧ ∃ p ∈ T.states, ∃ q ∈ T.states, ∃ r' ∈ T.states,
        x = tripleStr rs p a q ∧ y = tripleStr rs p b r' ∧ z = tripleStr rs r' c q) ∨
      (∃ a t, IRule.end_ a t ∈ G.rules ∧ ∃ p ∈ T.states, ∃ q ∈ T.states,
        x = tripleStr rs p a q ∧ y = terTripleStr rs p t q ∧ z = "T") ∨
      (∃ t ∈ G.ruleTerminals, ∃ p ∈ T.states, ∃ q ∈ T.states, ∃ r' ∈ T.states,
        (x = terTripleStr rs p t q ∧ y = terTripleStr rs p "epsilon" r' ∧
          z = terTripleStr rs r' t q) ∨
        (x = terTripleStr rs p t q ∧ y = terTripleStr rs p t r' ∧
          z = terTripleStr rs r' "epsilon" q)) ∨
      (∃ p ∈ T.states, ∃ q ∈ T.states, ∃ r' ∈ T.states,
        x = terTripleStr rs p "epsilon" q ∧ y = terTripleStr rs p "epsilon" r' ∧
          z = terTripleStr rs r' "epsilon" q) ∨
      (∃ f ∈ T.finals, ∃ s ∈ T.starts, x = "S" ∧ y = tripleStr rs s "S" f ∧ z = "T") := by
  rw [mem_interRules]
  unfold Shape
  simp only [IRule.dup.injEq, reduceCtorEq, and_false, exists_false, false_or]


/-! ### the invariant -/

/-- the hygiene conditions used by the proofs -/
structure Hyp (T : FST σ) (rs : σ → String) (G : IG) : Prop where
  wf : T.WF
  tripleInj : ∀ p x q p' x' q', p ∈ T.states → q ∈ T.states → p' ∈ T.states → q' ∈ T.states →
    tripleStr rs p x q = tripleStr rs p' x' q' → p = p' ∧ x = x' ∧ q = q'
  terTripleInj : ∀ p x q p' x' q', p ∈ T.states → q ∈ T.states → p' ∈ T.states → q' ∈ T.states →
    terTripleStr rs p x q = terTripleStr rs p' x' q' → p = p' ∧ x = x' ∧ q = q'
  tripleNeTer : ∀ p x q p' x' q', tripleStr rs p x q ≠ terTripleStr rs p' x' q'
  tripleNotS : ∀ p x q, tripleStr rs p x q ≠ "S" ∧ terTripleStr rs p x q ≠ "S"
  tripleNotT : ∀ p x q, tripleStr rs p x q ≠ "T" ∧ terTripleStr rs p x q ≠ "T"
  inNotEps : ∀ t ∈ T.delta, t.2.1 ≠ some "epsilon"

/-- the grammar before `removeUseless` -/
def pre (T : FST σ) (rs : σ → String) (G : IG) : IG := { rules := interRules T rs G, start := "S" }

/-- the word spelled by a terminal -/
def word (t : String) : List String := if t = "epsilon" then [] else [t]

theorem mem_ruleTerminals_end {G : IG} {a t : String} (h : IRule.end_ a t ∈ G.rules) :
    t ∈ G.ruleTerminals := by
  unfold ruleTerminals
  rw [List.mem_eraseDups]
  exact List.mem_flatMap.mpr ⟨_, h, by simp⟩

/-- what a derivation of a triple means: (a) for the triple of a non-terminal,
(b)/(c) for the triple of a terminal / of "epsilon" -/
def Sem (T : FST σ) (rs : σ → String) (G : IG) (x : String) (st : List String) : Prop :=
  ∀ p X q, p ∈ T.states → q ∈ T.states →
    (x = tripleStr rs p X q → ∃ w, G.Gen X st w ∧ ∃ o, T.Path p w o q) ∧
    (x = terTripleStr rs p X q → ∃ o, T.Path p (word X) o q)

theorem word_eps : word "epsilon" = [] := by simp [word]

theorem word_ne {t : String} (h : t ≠ "epsilon") : word t = [t] := by simp [word, h]

theorem sound {T : FST σ} {rs : σ → String} {G : IG} (h : Hyp T rs G) {x : String}
    {st : List String} (hd : (pre T rs G).Derivable x st) : Sem T rs G x st := by
  induction hd with
  | @end_ a t st hr =>
    intro p X q hp hq
    rcases (mem_end T rs G _ _).mp hr with ⟨h1, _⟩ | ⟨e, he, h1, _⟩ | ⟨p', hp', h1, _⟩
    · subst h1
      exact ⟨fun hx => absurd hx.symm (h.tripleNotT _ _ _).1,
        fun hx => absurd hx.symm (h.tripleNotT _ _ _).2⟩
    · subst h1
      refine ⟨fun hx => absurd hx.symm (h.tripleNeTer _ _ _ _ _ _), fun hx => ?_⟩
      obtain ⟨rfl, rfl, rfl⟩ :=
        h.terTripleInj _ _ _ _ _ _ (h.wf.src _ he) (h.wf.dst _ he) hp hq hx
      obtain ⟨e1, a, e2, o⟩ := e
      cases a with
      | none =>
        refine ⟨o, ?_⟩
        show T.Path e1 (word "epsilon") o e2
        rw [word_eps]
        exact FST.Lem.path_eps_one he
      | some a =>
        have hne : a ≠ "epsilon" := fun hh => h.inNotEps _ he (by simp [hh])
        refine ⟨o, ?_⟩
        show T.Path e1 (word a) o e2
        rw [word_ne hne]
        exact FST.Lem.path_read_one he
    · subst h1
      refine ⟨fun hx => absurd hx.symm (h.tripleNeTer _ _ _ _ _ _), fun hx => ?_⟩
      obtain ⟨rfl, rfl, rfl⟩ := h.terTripleInj _ _ _ _ _ _ hp' hp' hp hq hx
      refine ⟨[], ?_⟩
      rw [word_eps]
      exact Path.nil _
  | @prod a b f st hr hd ih =>
    intro p X q hp hq
    obtain ⟨a', b', hr', p', hp', q', hq', rfl, rfl⟩ := (mem_prod T rs G _ _ _).mp hr
    refine ⟨fun hx => ?_, fun hx => absurd hx (h.tripleNeTer _ _ _ _ _ _)⟩
    obtain ⟨rfl, rfl, rfl⟩ := h.tripleInj _ _ _ _ _ _ hp' hq' hp hq hx
    obtain ⟨w, hg, hpath⟩ := (ih p' b' q' hp hq).1 rfl
    exact ⟨w, Gen.prod hr' hg, hpath⟩
  | @cons f a b st hr hd ih =>
    intro p X q hp hq
    obtain ⟨a', b', hr', p', hp', q', hq', rfl, rfl⟩ := (mem_cons T rs G _ _ _).mp hr
    refine ⟨fun hx => ?_, fun hx => absurd hx (h.tripleNeTer _ _ _ _ _ _)⟩
    obtain ⟨rfl, rfl, rfl⟩ := h.tripleInj _ _ _ _ _ _ hp' hq' hp hq hx
    obtain ⟨w, hg, hpath⟩ := (ih p' b' q' hp hq).1 rfl
    exact ⟨w, Gen.cons hr' hg, hpath⟩
  | @dup a b c st hr hd1 hd2 ih1 ih2 =>
    intro p X q hp hq
    rcases (mem_dup T rs G _ _ _).mp hr with
      ⟨a', b', c', hr', p', hp', q', hq', r', hr'', rfl, rfl, rfl⟩ |
      ⟨a', t, hr', p', hp', q', hq', rfl, rfl, rfl⟩ |
      ⟨t, ht, p', hp', q', hq', r', hr'', (⟨rfl, rfl, rfl⟩ | ⟨rfl, rfl, rfl⟩)⟩ |
      ⟨p', hp', q', hq', r', hr'', rfl, rfl, rfl⟩ | ⟨f, hf, s, hs, rfl, _, _⟩
    · refine ⟨fun hx => ?_, fun hx => absurd hx (h.tripleNeTer _ _ _ _ _ _)⟩
      obtain ⟨rfl, rfl, rfl⟩ := h.tripleInj _ _ _ _ _ _ hp' hq' hp hq hx
      obtain ⟨u, hgu, o1, hp1⟩ := (ih1 p' b' r' hp hr'').1 rfl
      obtain ⟨v, hgv, o2, hp2⟩ := (ih2 r' c' q' hr'' hq).1 rfl
      exact ⟨u ++ v, Gen.dup hr' hgu hgv, _, FST.Lem.path_append hp1 hp2⟩
    · refine ⟨fun hx => ?_, fun hx => absurd hx (h.tripleNeTer _ _ _ _ _ _)⟩
      obtain ⟨rfl, rfl, rfl⟩ := h.tripleInj _ _ _ _ _ _ hp' hq' hp hq hx
      obtain ⟨o, hpo⟩ := (ih1 p' t q' hp hq).2 rfl
      exact ⟨word t, Gen.end_ hr', o, hpo⟩
    · refine ⟨fun hx => absurd hx.symm (h.tripleNeTer _ _ _ _ _ _), fun hx => ?_⟩
      obtain ⟨rfl, rfl, rfl⟩ := h.terTripleInj _ _ _ _ _ _ hp' hq' hp hq hx
      obtain ⟨o1, hp1⟩ := (ih1 p' "epsilon" r' hp hr'').2 rfl
      obtain ⟨o2, hp2⟩ := (ih2 r' t q' hr'' hq).2 rfl
      have := FST.Lem.path_append hp1 hp2
      rw [word_eps, List.nil_append] at this
      exact ⟨_, this⟩
    · refine ⟨fun hx => absurd hx.symm (h.tripleNeTer _ _ _ _ _ _), fun hx => ?_⟩
      obtain ⟨rfl, rfl, rfl⟩ := h.terTripleInj _ _ _ _ _ _ hp' hq' hp hq hx
      obtain ⟨o1, hp1⟩ := (ih1 p' t r' hp hr'').2 rfl
      obtain ⟨o2, hp2⟩ := (ih2 r' "epsilon" q' hr'' hq).2 rfl
      have := FST.Lem.path_append hp1 hp2
      rw [word_eps, List.append_nil] at this
      exact ⟨_, this⟩
    · refine ⟨fun hx => absurd hx.symm (h.tripleNeTer _ _ _ _ _ _), fun hx => ?_⟩
      obtain ⟨rfl, rfl, rfl⟩ := h.terTripleInj _ _ _ _ _ _ hp' hq' hp hq hx
      obtain ⟨o1, hp1⟩ := (ih1 p' "epsilon" r' hp hr'').2 rfl
      obtain ⟨o2, hp2⟩ := (ih2 r' "epsilon" q' hr'' hq).2 rfl
      have := FST.Lem.path_append hp1 hp2
      rw [word_eps, List.append_nil] at this
      refine ⟨o1 ++ o2, ?_⟩
      rw [word_eps]
      exact this
    · exact ⟨fun hx => absurd hx.symm (h.tripleNotS _ _ _).1,
        fun hx => absurd hx.symm (h.tripleNotS _ _ _).2⟩

/-! ### completeness -/

theorem derivable_T (T : FST σ) (rs : σ → String) (G : IG) (st : List String) :
    (pre T rs G).Derivable "T" st :=
  Derivable.end_ (t := "epsilon") ((mem_end T rs G _ _).mpr (Or.inl ⟨rfl, rfl⟩))

theorem derivable_edge {T : FST σ} (rs : σ → String) (G : IG) {p r : σ} {a : Option String}
    {o : List String} (he : (p, a, r, o) ∈ T.delta) (st : List String) :
    (pre T rs G).Derivable (terTripleStr rs p (a.getD "epsilon") r) st :=
  Derivable.end_ (t := " ".intercalate o)
    ((mem_end T rs G _ _).mpr (Or.inr (Or.inl ⟨_, he, rfl, rfl⟩)))

theorem complete_eps {T : FST σ} (rs : σ → String) (G : IG) (hT : T.WF) {p q : σ}
    {i o : List String} (hp : T.Path p i o q) (hi : i = []) (hps : p ∈ T.states)
    (st : List String) : (pre T rs G).Derivable (terTripleStr rs p "epsilon" q) st := by
  induction hp with
  | nil q =>
    exact Derivable.end_ (t := "epsilon")
      ((mem_end T rs G _ _).mpr (Or.inr (Or.inr ⟨q, hps, rfl, rfl⟩)))
  | @eps q r s i o o' he hrest ih =>
    have hr : r ∈ T.states := hT.dst _ he
    have hs : s ∈ T.states := path_states hT hrest hr
    exact Derivable.dup ((mem_dup T rs G _ _ _).mpr (Or.inr (Or.inr (Or.inr (Or.inl
      ⟨q, hps, s, hs, r, hr, rfl, rfl, rfl⟩))))) (derivable_edge rs G he st) (ih hi hr)
  | read he _ _ => cases hi

theorem complete_term {T : FST σ} (rs : σ → String) (G : IG) (hT : T.WF) {t : String}
    (ht : t ∈ G.ruleTerminals) {p q : σ} {i o : List String} (hp : T.Path p i o q)
    (hi : i = [t]) (hps : p ∈ T.states) (st : List String) :
    (pre T rs G).Derivable (terTripleStr rs p t q) st := by
  induction hp with
  | nil q => cases hi
  | @eps q r s i o o' he hrest ih =>
    have hr : r ∈ T.states := hT.dst _ he
    have hs : s ∈ T.states := path_states hT hrest hr
    exact Derivable.dup ((mem_dup T rs G _ _ _).mpr (Or.inr (Or.inr (Or.inl
      ⟨t, ht, q, hps, s, hs, r, hr, Or.inl ⟨rfl, rfl, rfl⟩⟩)))) (derivable_edge rs G he st)
      (ih hi hr)
  | @read q r s a i o o' he hrest ih =>
    have hr : r ∈ T.states := hT.dst _ he
    have hs : s ∈ T.states := path_states hT hrest hr
    simp only [List.cons.injEq] at hi
    obtain ⟨rfl, hi⟩ := hi
    exact Derivable.dup ((mem_dup T rs G _ _ _).mpr (Or.inr (Or.inr (Or.inl
      ⟨a, ht, q, hps, s, hs, r, hr, Or.inr ⟨rfl, rfl, rfl⟩⟩)))) (derivable_edge rs G he st)
      (complete_eps rs G hT hrest hi hr st)

theorem complete_word {T : FST σ} (rs : σ → String) (G : IG) (hT : T.WF) {t : String}
    (ht : t ∈ "epsilon" :: G.ruleTerminals) {p q : σ} {o : List String}
    (hp : T.Path p (word t) o q) (hps : p ∈ T.states) (st : List String) :
    (pre T rs G).Derivable (terTripleStr rs p t q) st := by
  by_cases he : t = "epsilon"
  · subst he
    exact complete_eps rs G hT hp word_eps hps st
  · rcases List.mem_cons.mp ht with h | h
    · exact absurd h he
    · exact complete_term rs G hT h hp (word_ne he) hps st

theorem complete_gen {T : FST σ} (rs : σ → String) (G : IG) (hT : T.WF) {A : String}
    {st w : List String} (hg : G.Gen A st w) :
    ∀ p q o, p ∈ T.states → T.Path p w o q → (pre T rs G).Derivable (tripleStr rs p A q) st := by
  induction hg with
  | @end_ a t st hr =>
    intro p q o hps hp
    have hq := path_states hT hp hps
    exact Derivable.dup ((mem_dup T rs G _ _ _).mpr (Or.inr (Or.inl
      ⟨a, t, hr, p, hps, q, hq, rfl, rfl, rfl⟩)))
      (complete_word rs G hT (List.mem_cons_of_mem _ (mem_ruleTerminals_end hr)) hp hps st)
      (derivable_T T rs G st)
  | @prod a b f st w hr _ ih =>
    intro p q o hps hp
    have hq := path_states hT hp hps
    exact Derivable.prod ((mem_prod T rs G _ _ _).mpr ⟨a, b, hr, p, hps, q, hq, rfl, rfl⟩)
      (ih p q o hps hp)
  | @cons f a b st w hr _ ih =>
    intro p q o hps hp
    have hq := path_states hT hp hps
    exact Derivable.cons ((mem_cons T rs G _ _ _).mpr ⟨a, b, hr, p, hps, q, hq, rfl, rfl⟩)
      (ih p q o hps hp)
  | @dup a b c st u v hr _ _ ih1 ih2 =>
    intro p q o hps hp
    have hq := path_states hT hp hps
    obtain ⟨r, o₁, o₂, h1, h2⟩ := path_split hp
    have hrs := path_states hT h1 hps
    exact Derivable.dup ((mem_dup T rs G _ _ _).mpr (Or.inl
      ⟨a, b, c, hr, p, hps, q, hq, r, hrs, rfl, rfl, rfl⟩)) (ih1 p r o₁ hps h1) (ih2 r q o₂ hrs h2)

/-! ### the top level -/

theorem pre_nonEmpty {T : FST σ} {rs : σ → String} {G : IG} (h : Hyp T rs G) :
    (pre T rs G).NonEmpty ↔ ∃ w, G.Gen "S" [] w ∧ ∃ o, T.Rel w o := by
  constructor
  · intro hd
    unfold NonEmpty at hd
    generalize hx : (pre T rs G).start = x at hd
    have hx' : x = "S" := hx.symm
    cases hd with
    | @end_ _ t _ hr =>
      subst hx'
      rcases (mem_end T rs G _ _).mp hr with ⟨h1, _⟩ | ⟨e, he, h1, _⟩ | ⟨p', hp', h1, _⟩
      · simp at h1
      · exact absurd h1.symm (h.tripleNotS _ _ _).2
      · exact absurd h1.symm (h.tripleNotS _ _ _).2
    | @prod _ b f _ hr _ =>
      subst hx'
      obtain ⟨a', b', hr', p', hp', q', hq', h1, _⟩ := (mem_prod T rs G _ _ _).mp hr
      exact absurd h1.symm (h.tripleNotS _ _ _).1
    | @dup _ b c _ hr hd1 hd2 =>
      subst hx'
      rcases (mem_dup T rs G _ _ _).mp hr with
        ⟨a', b', c', hr', p', hp', q', hq', r', hr'', h1, _, _⟩ |
        ⟨a', t, hr', p', hp', q', hq', h1, _, _⟩ |
        ⟨t, ht, p', hp', q', hq', r', hr'', (⟨h1, _, _⟩ | ⟨h1, _, _⟩)⟩ |
        ⟨p', hp', q', hq', r', hr'', h1, _, _⟩ | ⟨f, hf, s, hs, _, rfl, _⟩
      · exact absurd h1.symm (h.tripleNotS _ _ _).1
      · exact absurd h1.symm (h.tripleNotS _ _ _).1
      · exact absurd h1.symm (h.tripleNotS _ _ _).2
      · exact absurd h1.symm (h.tripleNotS _ _ _).2
      · exact absurd h1.symm (h.tripleNotS _ _ _).2
      · obtain ⟨w, hg, o, hp⟩ := (sound h hd1 s "S" f (h.wf.starts_sub _ hs)
          (h.wf.finals_sub _ hf)).1 rfl
        exact ⟨w, hg, o, s, hs, f, hf, hp⟩
  · rintro ⟨w, hg, o, s, hs, f, hf, hp⟩
    exact Derivable.dup ((mem_dup T rs G _ _ _).mpr (Or.inr (Or.inr (Or.inr (Or.inr
      ⟨f, hf, s, hs, rfl, rfl, rfl⟩)))))
      (complete_gen rs G h.wf hg s f o (h.wf.starts_sub _ hs) hp) (derivable_T T rs G [])

end Pfl.IG.Inter
