/-
Helper lemmas for the text round trip `fromText (toText up prods) = some prods` (C20).
-/
import Pfl.Model.TextCodec
import Pfl.Props.C20_Codec
import Pfl.Props.C20_Labels
namespace Pfl.TextCodec.Lem
open Pfl Pfl.TextCodec Pfl.Codec Pfl.Codec.Lem Pfl.LabelCodec.Lem

/-! ### characters -/

theorem isLineBreak_isSpace (c : Char) (h : isLineBreak c = true) : isSpace c = true := by
  simp only [isLineBreak, Bool.or_eq_true, decide_eq_true_eq] at h
  simp only [isSpace, Bool.or_eq_true, Bool.and_eq_true, decide_eq_true_eq]
  omega

theorem not_lineBreak_of_not_space (c : Char) (h : isSpace c = false) : isLineBreak c = false := by
  cases hb : isLineBreak c with
  | false => rfl
  | true => rw [isLineBreak_isSpace c hb] at h; exact absurd h (by decide)

/-- a token: non-empty, free of white space, of '|' and of "->" -/
def Tok (t : List Char) : Prop :=
  t ≠ [] ∧ (∀ c ∈ t, isSpace c = false ∧ c ≠ '|') ∧ ¬ ['-', '>'] <:+: t

/-! ### "->" occurrences -/

theorem noArrow_append {a b : List Char} (ha : ¬ ['-', '>'] <:+: a) (hb : ¬ ['-', '>'] <:+: b)
    (hj : a.getLast? ≠ some '-' ∨ b.head? ≠ some '>') : ¬ ['-', '>'] <:+: a ++ b := by
  intro hi
  rcases infix_append_cases _ _ _ _ a hi with h | ⟨h1, h2⟩ | h
  · exact ha h
  · rcases hj with hj | hj
    · exact hj h1
    · exact hj h2
  · exact hb h

theorem noArrow_cons {c : Char} {t : List Char} (hc : c ≠ '-') (ht : ¬ ['-', '>'] <:+: t) :
    ¬ ['-', '>'] <:+: c :: t := by
  intro hi
  rw [List.infix_cons_iff] at hi
  rcases hi with hi | hi
  · rw [List.cons_prefix_cons] at hi
    exact hc hi.1.symm
  · exact ht hi

theorem noArrow_snoc {c : Char} {t : List Char} (hc : c ≠ '>') (ht : ¬ ['-', '>'] <:+: t) :
    ¬ ['-', '>'] <:+: t ++ [c] := by
  apply noArrow_append ht
  · intro h; have := h.length_le; simp at this
  · right; simpa using fun h => hc h

/-! ### marked tokens -/

theorem tok_marked (a b c : Char) (v : List Char) (hv : Tok v)
    (ha : isSpace a = false ∧ a ≠ '|' ∧ a ≠ '-') (hb : isSpace b = false ∧ b ≠ '|' ∧ b ≠ '-')
    (hc : isSpace c = false ∧ c ≠ '|' ∧ c ≠ '-') :
    Tok ('"' :: a :: b :: c :: ':' :: (v ++ ['"'])) := by
  obtain ⟨hne, hcl, hna⟩ := hv
  refine ⟨by simp, ?_, ?_⟩
  · intro x hx
    simp only [List.mem_cons, List.mem_append, List.not_mem_nil, or_false] at hx
    rcases hx with rfl | rfl | rfl | rfl | rfl | hx | rfl
    · decide
    · exact ⟨ha.1, ha.2.1⟩
    · exact ⟨hb.1, hb.2.1⟩
    · exact ⟨hc.1, hc.2.1⟩
    · decide
    · exact hcl x hx
    · decide
  · apply noArrow_cons (by decide)
    apply noArrow_cons ha.2.2
    apply noArrow_cons hb.2.2
    apply noArrow_cons hc.2.2
    apply noArrow_cons (by decide)
    exact noArrow_snoc (by decide) hna

theorem tok_var (v : List Char) (hv : Tok v) : Tok (varToText v) := by
  cases v with
  | nil => exact absurd rfl hv.1
  | cons c rest =>
    by_cases hc : isUpper c = true
    · simpa [varToText, hc] using hv
    · simp only [varToText, hc, Bool.false_eq_true, if_false]
      exact tok_marked 'V' 'A' 'R' _ hv (by decide) (by decide) (by decide)

theorem tok_ter (up : Char → Bool) (t : List Char) (ht : Tok t) : Tok (terText up t) := by
  cases t with
  | nil => exact absurd rfl ht.1
  | cons c rest =>
    by_cases hc : up c = true
    · simp only [terText, hc, if_true]
      exact tok_marked 'T' 'E' 'R' _ ht (by decide) (by decide) (by decide)
    · simpa [terText, hc] using ht

theorem read_terText (up : Char → Bool) (hup : ∀ c, isUpper c = true → up c = true)
    (t : List Char) (hne : t ≠ []) (hs : isSpecial t = false) (he : t ∉ epsilonSpellings) :
    readComponent (terText up t) = .ter t := by
  cases t with
  | nil => exact absurd rfl hne
  | cons c rest =>
    by_cases hc : up c = true
    · simp only [terText, hc, if_true]
      exact read_marked_ter (c :: rest) hne
    · have hu : isUpper c = false := by
        cases h : isUpper c with
        | false => rfl
        | true => exact absurd (hup c h) hc
      simp [terText, hc, read_unmarked _ _ hs, he, hu]

/-! ### `joinWith` -/

theorem joinWith_cons_cons (sep x y : List Char) (rest : List (List Char)) :
    joinWith sep (x :: y :: rest) = x ++ sep ++ joinWith sep (y :: rest) := rfl

theorem mem_joinWith (sep : List Char) : ∀ (toks : List (List Char)) (c : Char),
    c ∈ joinWith sep toks → c ∈ sep ∨ ∃ t ∈ toks, c ∈ t
  | [], c, h => by simp [joinWith] at h
  | [x], c, h => Or.inr ⟨x, by simp, by simpa [joinWith] using h⟩
  | x :: y :: rest, c, h => by
    rw [joinWith_cons_cons, List.mem_append, List.mem_append] at h
    rcases h with (h | h) | h
    · exact Or.inr ⟨x, by simp, h⟩
    · exact Or.inl h
    · rcases mem_joinWith sep (y :: rest) c h with h | ⟨t, ht, hc⟩
      · exact Or.inl h
      · exact Or.inr ⟨t, List.mem_cons_of_mem _ ht, hc⟩

theorem noArrow_join : ∀ (toks : List (List Char)), (∀ t ∈ toks, Tok t) →
    ¬ ['-', '>'] <:+: joinWith [' '] toks
  | [], _ => by intro h; have := h.length_le; simp [joinWith] at this
  | [x], h => by simpa [joinWith] using (h x (by simp)).2.2
  | x :: y :: rest, h => by
    rw [joinWith_cons_cons, List.append_assoc]
    apply noArrow_append (h x (by simp)).2.2
    · exact noArrow_cons (by decide) (noArrow_join (y :: rest) fun t ht => h t (List.mem_cons_of_mem _ ht))
    · right; simp

/-- the joined body of a non-empty production ends with a non-space character -/
theorem join_last : ∀ (toks : List (List Char)), toks ≠ [] → (∀ t ∈ toks, Tok t) →
    ∃ init c, joinWith [' '] toks = init ++ [c] ∧ isSpace c = false
  | [], h, _ => absurd rfl h
  | [x], _, h => by
    obtain ⟨hne, hcl, -⟩ := h x (by simp)
    refine ⟨x.dropLast, x.getLast hne, by simp [joinWith, List.dropLast_concat_getLast], ?_⟩
    exact (hcl _ (List.getLast_mem hne)).1
  | x :: y :: rest, _, h => by
    obtain ⟨init, c, he, hc⟩ := join_last (y :: rest) (by simp) fun t ht => h t (List.mem_cons_of_mem _ ht)
    exact ⟨x ++ [' '] ++ init, c, by rw [joinWith_cons_cons, he]; simp, hc⟩

/-! ### `str.split()` -/

theorem splitWsAux_run : ∀ (t rest cur : List Char), (∀ c ∈ t, isSpace c = false) →
    splitWsAux (t ++ rest) cur = splitWsAux rest (t.reverse ++ cur)
  | [], rest, cur, _ => by simp
  | c :: t, rest, cur, h => by
    have hc : isSpace c = false := h c (by simp)
    rw [List.cons_append, splitWsAux]
    simp only [hc, Bool.false_eq_true, if_false]
    rw [splitWsAux_run t rest (c :: cur) fun d hd => h d (List.mem_cons_of_mem _ hd)]
    simp

theorem splitWsAux_join : ∀ (toks : List (List Char)), (∀ t ∈ toks, Tok t) →
    splitWsAux (joinWith [' '] toks) [] = toks
  | [], _ => by simp [joinWith, splitWsAux]
  | [x], h => by
    obtain ⟨hne, hcl, -⟩ := h x (by simp)
    have := splitWsAux_run x [] [] fun c hc => (hcl c hc).1
    simp only [List.append_nil] at this
    simp [joinWith, this, splitWsAux, hne]
  | x :: y :: rest, h => by
    obtain ⟨hne, hcl, -⟩ := h x (by simp)
    rw [joinWith_cons_cons, List.append_assoc, splitWsAux_run x _ [] fun c hc => (hcl c hc).1]
    have hsp : isSpace ' ' = true := by decide
    simp only [List.append_nil, List.singleton_append, splitWsAux, hsp, if_true,
      List.isEmpty_reverse, List.reverse_reverse]
    rw [splitWsAux_join (y :: rest) fun t ht => h t (List.mem_cons_of_mem _ ht)]
    simp [hne]

theorem splitWs_space_join (toks : List (List Char)) (h : ∀ t ∈ toks, Tok t) :
    splitWs (' ' :: joinWith [' '] toks) = toks := by
  have hsp : isSpace ' ' = true := by decide
  simp [splitWs, splitWsAux, hsp, splitWsAux_join toks h]

/-! ### `str.strip()` -/

theorem strip_keep (d c : Char) (m : List Char) (hd : isSpace d = false) (hc : isSpace c = false) :
    strip (d :: (m ++ [c])) = d :: (m ++ [c]) := by
  simp [strip, hd, hc]

theorem strip_single (d : Char) (hd : isSpace d = false) : strip [d] = [d] := by
  simp [strip, hd]

theorem strip_space (d : Char) (m : List Char) (hd : isSpace d = false) :
    strip (d :: (m ++ [' '])) = strip (d :: m) := by
  have hsp : isSpace ' ' = true := by decide
  simp [strip, hd, hsp]

/-- a white-space-free non-empty text is unchanged by `strip` -/
theorem strip_tok (t : List Char) (h : ∀ c ∈ t, isSpace c = false) : strip t = t := by
  cases t with
  | nil => rfl
  | cons d m =>
    have hd := h d (by simp)
    rcases List.eq_nil_or_concat m with rfl | ⟨m', c, rfl⟩
    · exact strip_single d hd
    · rw [List.concat_eq_append] at h ⊢
      exact strip_keep d c m' hd (h c (by simp))

/-! ### `str.splitlines()` -/

theorem splitLinesAux_run : ∀ (l rest cur : List Char), (∀ c ∈ l, isLineBreak c = false) →
    splitLinesAux (l ++ '\n' :: rest) cur false = (cur.reverse ++ l) :: splitLinesAux rest [] false
  | [], rest, cur, _ => by
    have : isLineBreak '\n' = true := by decide
    simp [splitLinesAux, this]
  | c :: l, rest, cur, h => by
    have hc : isLineBreak c = false := h c (by simp)
    rw [List.cons_append, splitLinesAux]
    simp only [Bool.false_and, Bool.false_eq_true, if_false, hc]
    rw [splitLinesAux_run l rest (c :: cur) fun d hd => h d (List.mem_cons_of_mem _ hd)]
    simp

theorem splitLines_join : ∀ (lines : List (List Char)), lines ≠ [] →
    (∀ l ∈ lines, ∀ c ∈ l, isLineBreak c = false) →
    splitLines (joinWith ['\n'] lines ++ ['\n']) = lines
  | [], h, _ => absurd rfl h
  | [x], _, h => by
    simp only [joinWith, splitLines]
    rw [splitLinesAux_run x [] [] (h x (by simp))]
    simp [splitLinesAux]
  | x :: y :: rest, _, h => by
    have ih := splitLines_join (y :: rest) (by simp) fun l hl => h l (List.mem_cons_of_mem _ hl)
    rw [joinWith_cons_cons]
    simp only [splitLines, List.append_assoc, List.cons_append, List.nil_append] at ih ⊢
    rw [splitLinesAux_run x _ [] (h x (by simp)), ih]
    simp

/-! ### one line -/

/-- the component reader of `readLine` -/
def compSym (c : List Char) : Option TSym :=
  match readComponent c with
  | .var v => some (.var v)
  | .ter t => some (.ter t)
  | .eps => none

theorem readLine_eq (line : List Char) : readLine line =
    match LabelCodec.split ['-', '>'] line with
    | [h, b] =>
      let head := strip h
      let head := if isSpecial head then (head.drop 5).dropLast else head
      some ((LabelCodec.split ['|'] b).map fun sub => (head, (splitWs sub).filterMap compSym))
    | _ => none := rfl

theorem split_nil (sep : List Char) : LabelCodec.split sep [] = [[]] := by
  simp [LabelCodec.split, LabelCodec.splitOn]

theorem readLine_shape (head rest : List Char) (hh : Tok head) (hs : isSpecial head = false)
    (hr : ¬ ['-', '>'] <:+: rest) (hb : ∀ c ∈ rest, c ≠ '|') :
    readLine (head ++ [' '] ++ ['-', '>'] ++ rest) = some [(head, (splitWs rest).filterMap compSym)] := by
  obtain ⟨hne, hcl, hna⟩ := hh
  have h1 : ¬ ['-', '>'] <:+: (head ++ [' ']) ++ ['-', '>'].dropLast := by
    rw [List.append_assoc]
    apply noArrow_append hna
    · intro h
      have h' : ['-', '>'] <:+: [' ', '-'] := h
      rw [List.infix_cons_iff, List.infix_cons_iff] at h'
      simp at h'
    · right; simp
  have h2 : LabelCodec.split ['-', '>'] rest = [rest] := split_none _ _ hr
  have h3 : LabelCodec.split ['|'] rest = [rest] := by
    apply split_none
    intro hi
    exact hb '|' (hi.subset (by simp)) rfl
  have h4 : strip (head ++ [' ']) = head := by
    obtain ⟨d, m, rfl⟩ := List.exists_cons_of_ne_nil hne
    rw [List.cons_append, strip_space d m (hcl d (by simp)).1]
    exact strip_tok _ fun c hc => (hcl c hc).1
  rw [readLine_eq, split_first _ (by simp) _ _ h1, h2]
  simp only [h3, h4, hs, Bool.false_eq_true, if_false, List.map_cons, List.map_nil]

theorem line_lineBreak (head : List Char) (toks : List (List Char)) (hh : Tok head)
    (ht : ∀ t ∈ toks, Tok t) :
    ∀ c ∈ head ++ [' ', '-', '>', ' '] ++ joinWith [' '] toks, isLineBreak c = false := by
  intro c hc
  rw [List.mem_append, List.mem_append] at hc
  rcases hc with (hc | hc) | hc
  · exact not_lineBreak_of_not_space c (hh.2.1 c hc).1
  · simp only [List.mem_cons, List.not_mem_nil, or_false] at hc
    rcases hc with rfl | rfl | rfl | rfl <;> decide
  · rcases mem_joinWith _ _ _ hc with hc | ⟨t, htm, hc⟩
    · simp only [List.mem_cons, List.not_mem_nil, or_false] at hc
      subst hc; decide
    · exact not_lineBreak_of_not_space c ((ht t htm).2.1 c hc).1

/-- a written line, stripped, is non-empty and reads back as its production -/
theorem readLine_line (head : List Char) (toks : List (List Char)) (hh : Tok head)
    (hs : isSpecial head = false) (ht : ∀ t ∈ toks, Tok t) :
    strip (head ++ [' ', '-', '>', ' '] ++ joinWith [' '] toks) ≠ [] ∧
    readLine (strip (head ++ [' ', '-', '>', ' '] ++ joinWith [' '] toks)) =
      some [(head, toks.filterMap compSym)] := by
  obtain ⟨d, m, rfl⟩ := List.exists_cons_of_ne_nil hh.1
  have hd : isSpace d = false := (hh.2.1 d (by simp)).1
  by_cases hnil : toks = []
  · subst hnil
    have e : strip (d :: m ++ [' ', '-', '>', ' '] ++ joinWith [' '] []) = d :: m ++ [' '] ++ ['-', '>'] ++ [] := by
      have : d :: m ++ [' ', '-', '>', ' '] ++ joinWith [' '] [] = d :: ((m ++ [' ', '-', '>']) ++ [' ']) := by
        simp [joinWith]
      rw [this, strip_space d _ hd]
      have : d :: (m ++ [' ', '-', '>']) = d :: ((m ++ [' ', '-']) ++ ['>']) := by simp
      rw [this, strip_keep d '>' _ hd (by decide)]
      simp
    rw [e]
    refine ⟨by simp, ?_⟩
    rw [readLine_shape _ [] hh hs (by intro h; have := h.length_le; simp at this) (by simp)]
    simp [splitWs, splitWsAux]
  · obtain ⟨init, c, he, hc⟩ := join_last toks hnil ht
    have e : strip (d :: m ++ [' ', '-', '>', ' '] ++ joinWith [' '] toks) =
        d :: m ++ [' '] ++ ['-', '>'] ++ (' ' :: joinWith [' '] toks) := by
      have : d :: m ++ [' ', '-', '>', ' '] ++ joinWith [' '] toks =
          d :: ((m ++ [' ', '-', '>', ' '] ++ init) ++ [c]) := by
        rw [he]; simp
      rw [this, strip_keep d c _ hd hc, he]
      simp
    rw [e]
    refine ⟨by simp, ?_⟩
    rw [readLine_shape _ _ hh hs (noArrow_cons (by decide) (noArrow_join toks ht)) ?_,
      splitWs_space_join toks ht]
    intro x hx
    rw [List.mem_cons] at hx
    rcases hx with rfl | hx
    · decide
    · rcases mem_joinWith _ _ _ hx with hx | ⟨t, htm, hx⟩
      · simp only [List.mem_cons, List.not_mem_nil, or_false] at hx
        subst hx; decide
      · exact ((ht t htm).2.1 x hx).2

/-! ### the whole text -/

theorem allSome_lines (f : TProd → List Char) : ∀ (prods : List TProd),
    (∀ p ∈ prods, strip (f p) ≠ [] ∧ readLine (strip (f p)) = some [p]) →
    allSome (((((prods.map f).map strip).filter (fun l => !l.isEmpty)).map readLine)) =
      some (prods.map fun p => [p])
  | [], _ => rfl
  | p :: rest, h => by
    obtain ⟨h1, h2⟩ := h p (by simp)
    have ih := allSome_lines f rest fun q hq => h q (List.mem_cons_of_mem _ hq)
    have hf : (!(strip (f p)).isEmpty) = true := by simpa using h1
    simp only [List.map_cons, List.filter_cons, hf, if_true, h2, allSome, ih, Option.map_some]

theorem flatten_singletons {α : Type} (l : List α) : (l.map fun p => [p]).flatten = l := by
  induction l with
  | nil => rfl
  | cons a l ih => simp [ih]

theorem fromText_lines (f : TProd → List Char) (prods : List TProd)
    (hbr : ∀ p ∈ prods, ∀ c ∈ f p, isLineBreak c = false)
    (hrd : ∀ p ∈ prods, strip (f p) ≠ [] ∧ readLine (strip (f p)) = some [p]) :
    fromText (joinWith ['\n'] (prods.map f) ++ ['\n']) = some prods := by
  by_cases hnil : prods = []
  · subst hnil
    have : isLineBreak '\n' = true := by decide
    simp [fromText, joinWith, splitLines, splitLinesAux, this, strip, allSome]
  · have hl : splitLines (joinWith ['\n'] (prods.map f) ++ ['\n']) = prods.map f := by
      apply splitLines_join _ (by simpa using hnil)
      intro l hl
      obtain ⟨p, hp, rfl⟩ := List.mem_map.mp hl
      exact hbr p hp
    unfold fromText
    rw [hl, allSome_lines f prods hrd, Option.map_some, flatten_singletons]

end Pfl.TextCodec.Lem
