/-
The tree-carrying Earley run (`Pfl/Model/EarleyTree.lean`) erases to the plain recogniser's run
(`Pfl/Model/Earley.lean`): forgetting the trees commutes with every operation.
-/
import Pfl.Model.EarleyTree
import Mathlib.Data.List.Basic
namespace Pfl.Earley.Tr
open FsDag

/-- erasing the trees of one dictionary entry -/
def eg (e : Key × List TState) : Key × List EState := (e.1, e.2.map Prod.fst)

theorem erase_store (T : TablesT) : T.erase.store = T.store := rfl
theorem erase_chart (T : TablesT) : T.erase.chart = T.chart.map (List.map Prod.fst) := rfl
theorem erase_processed (T : TablesT) : T.erase.processed = T.processed.map (List.map eg) := rfl

theorem erase_mk (st : Store) (c : List (List TState)) (p : List DictT) :
    (TablesT.mk st c p).erase = ⟨st, c.map (List.map Prod.fst), p.map (List.map eg)⟩ := rfl

theorem colGet_map {α β : Type} (f : α → β) (l : List (List α)) (i : Nat) :
    colGet (l.map (List.map f)) i = (colGet l i).map f := by
  unfold colGet
  rw [List.getD_eq_getElem?_getD, List.getD_eq_getElem?_getD, List.getElem?_map]
  cases l[i]? <;> simp

theorem find_eg (d : DictT) (k : Key) :
    (d.map eg).find? (fun e => decide (e.1 = k)) = (d.find? (fun e => decide (e.1 = k))).map eg := by
  induction d with
  | nil => rfl
  | cons a d ih =>
    simp only [List.map_cons, List.find?_cons]
    have : (eg a).1 = a.1 := rfl
    rw [this]
    split
    · rfl
    · exact ih

theorem any_eg (d : DictT) (k : Key) :
    (d.map eg).any (fun e => decide (e.1 = k)) = d.any (fun e => decide (e.1 = k)) := by
  rw [List.any_map]; rfl

theorem procAddT_erase (G : Grammar) (T : TablesT) (i : Nat) (s : TState) :
    (procAddT G T i s).1.erase = (procAdd G T.erase i s.1).1 ∧
      (procAddT G T i s).2 = (procAdd G T.erase i s.1).2 := by
  unfold procAddT procAdd
  simp only [erase_store, erase_processed, colGet_map, find_eg, any_eg]
  generalize colGet T.processed i = d
  have hcomp : ((fun o : EState => subsumes T.store o.fs s.1.fs) ∘ Prod.fst) =
      (fun o : TState => subsumes T.store o.1.fs s.1.fs) := rfl
  have hex : ∀ l : List TState, (l.map Prod.fst).any (fun o => subsumes T.store o.fs s.1.fs) =
      l.any (fun o => subsumes T.store o.1.fs s.1.fs) := by
    intro l; rw [List.any_map, hcomp]
  have hset : ∀ d1 d2, d1.map eg = d2 →
      (T.processed.set i d1).map (List.map eg) = (T.processed.map (List.map eg)).set i d2 := by
    intro d1 d2 h; subst h; rw [List.map_set]
  have hA : (if (d.any fun x => decide (x.fst = keyOf G s.fst)) = true then d
      else d ++ [(keyOf G s.fst, [])]).map eg =
      (if (d.any fun x => decide (x.fst = keyOf G s.fst)) = true then d.map eg
      else d.map eg ++ [(keyOf G s.fst, [])]) := by
    split
    · rfl
    · simp [eg]
  have hB : (if (d.any fun x => decide (x.fst = keyOf G s.fst)) = true then
        d.map (fun e => if e.fst = keyOf G s.fst then (e.fst, e.snd ++ [s]) else e)
      else d ++ [(keyOf G s.fst, [s])]).map eg =
      (if (d.any fun x => decide (x.fst = keyOf G s.fst)) = true then
        (d.map eg).map (fun e => if e.fst = keyOf G s.fst then (e.fst, e.snd ++ [s.fst]) else e)
      else d.map eg ++ [(keyOf G s.fst, [s.fst])]) := by
    split
    · simp only [List.map_map]
      apply List.map_congr_left
      intro e _
      simp only [Function.comp]
      have : (eg e).1 = e.1 := rfl
      rw [this]
      split <;> simp [eg]
    · simp [eg]
  generalize d.find? (fun x => decide (x.1 = keyOf G s.1)) = o
  rcases o with _ | e
  · simp only [Option.map_none, List.any_nil, Bool.false_eq_true, if_false, and_true]
    simp only [erase_mk]
    congr 1
    exact hset _ _ hB
  · simp only [Option.map_some, eg, hex]
    split
    · refine ⟨?_, rfl⟩
      simp only [erase_mk]
      congr 1
      exact hset _ _ hA
    · refine ⟨?_, rfl⟩
      simp only [erase_mk]
      congr 1
      exact hset _ _ hB

theorem pushIfNewT_erase (G : Grammar) (T : TablesT) (i : Nat) (s : TState) :
    (pushIfNewT G T i s).erase = pushIfNew G T.erase i s.1 := by
  unfold pushIfNewT pushIfNew
  obtain ⟨h1, h2⟩ := procAddT_erase G T i s
  simp only
  rw [← h2, ← h1]
  split
  · generalize (procAddT G T i s).1 = T'
    simp only [erase_mk, erase_store, erase_chart, erase_processed, colGet_map, List.map_set,
      List.map_append, List.map_cons, List.map_nil]
  · rfl

theorem erase_withStore (T : TablesT) (st : Store) :
    ({ T with store := st } : TablesT).erase = { T.erase with store := st } := rfl

theorem advanceT_erase (G : Grammar) (T : TablesT) (nx s : TState) :
    (advanceT G T nx s).erase = advance G T.erase nx.1 s.1 := by
  unfold advanceT advance
  simp only [erase_store]
  cases byPath (copy T.store s.1.fs).1 (copy T.store s.1.fs).2 ["head"] with
  | none => rfl
  | some left =>
    simp only
    cases byPath (copy (copy T.store s.1.fs).1 nx.1.fs).1 (copy (copy T.store s.1.fs).1 nx.1.fs).2
        [toString nx.1.dot] with
    | none => rfl
    | some considered =>
      simp only
      cases unify ((copy (copy T.store s.1.fs).1 nx.1.fs).1.length + 2)
          (copy (copy T.store s.1.fs).1 nx.1.fs).1 considered left with
      | ok st3 => simp only; rw [pushIfNewT_erase]; rfl
      | _ => rfl

theorem foldl_erase {α : Type} (f : TablesT → α → TablesT) (g : Tables → α → Tables)
    (h : ∀ T x, (f T x).erase = g T.erase x) (l : List α) (T : TablesT) :
    (l.foldl f T).erase = l.foldl g T.erase := by
  induction l generalizing T with
  | nil => rfl
  | cons a l ih => simp only [List.foldl_cons]; rw [ih, h]

theorem snapshot_erase (T : TablesT) (i : Nat) :
    (colGet T.erase.processed i).flatMap (·.2) =
      ((colGet T.processed i).flatMap (·.2)).map Prod.fst := by
  rw [erase_processed, colGet_map, List.flatMap_map, List.map_flatMap]
  rfl

theorem predictorT_erase (G : Grammar) (T : TablesT) (s : TState) :
    (predictorT G T s).erase = predictor G T.erase s.1 := by
  unfold predictorT predictor
  cases nextSym G s.1 with
  | none => rfl
  | some sym =>
    cases sym with
    | ter t => rfl
    | var v =>
      simp only
      have h1 := foldl_erase (fun T (pk : FProd × Nat) =>
          if pk.1.head = v then
            pushIfNewT G T s.1.e ({ prod := pk.2, b := s.1.e, e := s.1.e, dot := 0, fs := pk.1.feats },
              .node (.var pk.1.head) [])
          else T)
        (fun T pk =>
          if pk.1.head = v then
            pushIfNew G T s.1.e { prod := pk.2, b := s.1.e, e := s.1.e, dot := 0, fs := pk.1.feats }
          else T)
        (by
          intro T pk
          split
          · rw [pushIfNewT_erase]
          · rfl) (G.prods.zip (List.range G.prods.length)) T
      rw [← h1, snapshot_erase, List.foldl_map]
      apply foldl_erase
      intro T c
      split
      · rw [advanceT_erase]
      · rfl

theorem scannerT_erase (G : Grammar) (T : TablesT) (s : TState) (t : String)
    (h : nextSym G s.1 = some (.ter t)) :
    (scannerT G T s).erase = scanner G T.erase s.1 := by
  unfold scannerT scanner
  rw [h]
  simp only
  rw [pushIfNewT_erase]

theorem completerT_erase (G : Grammar) (T : TablesT) (s : TState) :
    (completerT G T s).erase = completer G T.erase s.1 := by
  unfold completerT completer
  simp only
  rw [snapshot_erase, List.foldl_map]
  apply foldl_erase
  intro T c
  split
  · rw [advanceT_erase]
  · rfl

theorem columnLoopT_erase (G : Grammar) (word : List String) (i : Nat) (f : Nat) (T : TablesT) :
    (columnLoopT G word i f T).map TablesT.erase = columnLoop G word i f T.erase := by
  induction f generalizing T with
  | zero => rfl
  | succ f ih =>
    unfold columnLoopT columnLoop
    rw [erase_chart, colGet_map, List.getLast?_map]
    cases hl : (colGet T.chart i).getLast? with
    | none => rfl
    | some s =>
      simp only [Option.map_some]
      rw [ih]
      congr 1
      have h0 : ({ T with chart := T.chart.set i (colGet T.chart i).dropLast } : TablesT).erase =
          { T.erase with chart := ((T.chart.map (List.map Prod.fst)).set i
              ((colGet T.chart i).map Prod.fst).dropLast) } := by
        simp only [TablesT.erase, List.map_set, List.map_dropLast]
      rw [← h0]
      split
      · cases ht : nextSym G s.1 with
        | none => rfl
        | some sym =>
          cases sym with
          | var v => simp only; rw [predictorT_erase]
          | ter t =>
            simp only
            split
            · rw [scannerT_erase _ _ _ t ht]
            · rfl
      · rw [completerT_erase]

theorem cols_erase (G : Grammar) (word : List String) (fuel : Nat) (l : List Nat) (T : TablesT) :
    (parseTree.cols G word fuel l T).map TablesT.erase = contains.cols G word fuel l T.erase := by
  induction l generalizing T with
  | nil => rfl
  | cons i l ih =>
    unfold parseTree.cols contains.cols
    rw [← columnLoopT_erase]
    cases columnLoopT G word i fuel T with
    | none => rfl
    | some T' => simp only [Option.map_some]; exact ih T'

theorem parseTree_isSome' (G : Grammar) (st0 : Store) (word : List String) (fuel : Nat) :
    (parseTree G st0 word fuel).map (·.isSome) = contains G st0 word fuel := by
  unfold parseTree contains
  simp only
  have h0 : (pushIfNewT G ⟨st0, List.replicate (word.length + 1) [], List.replicate (word.length + 1) []⟩ 0
        ({ prod := G.prods.length, b := 0, e := 0, dot := 0, fs := G.gammaFeats },
          .node (.var "BEGIN") [])).erase =
      pushIfNew G ⟨st0, List.replicate (word.length + 1) [], List.replicate (word.length + 1) []⟩ 0
        { prod := G.prods.length, b := 0, e := 0, dot := 0, fs := G.gammaFeats } := by
    rw [pushIfNewT_erase]
    simp [TablesT.erase]
  rw [← h0, ← cols_erase]
  cases parseTree.cols G word fuel (List.range (word.length + 1)) _ with
  | none => rfl
  | some T3 =>
    simp only [Option.map_some, Option.isSome_map]
    rw [snapshot_erase, List.any_map]
    congr 1
    rw [Bool.eq_iff_iff]
    simp only [List.find?_isSome, List.any_eq_true, Function.comp]

end Pfl.Earley.Tr
