/-
Kernel-reducible copies of the (tree-carrying) Earley run, for non-vacuity witnesses by `decide +kernel`:
`FsDag.unify` is compiled by well-founded recursion and does not reduce in the kernel; the run is
re-stated over an abstract unifier `u` (`parseTreeU u`), shown to be the model's run for `u = unify`
(`parseTree_eq_K`), and `unify` is replaced by its structurally recursive copy `unifyK`.
-/
import Pfl.Model.EarleyTree
import Pfl.Proofs.FeatureDagLemmas
namespace Pfl.Earley.Tr.NV
open FsDag FsDag.Lem

/-- `unify.go` with the recursive call abstracted (structural recursion) -/
def goK (u : Store → Nat → Nat → Res) (ca : Nat) : Store → List (String × Nat) → Res
  | st, [] => .ok st
  | st, (g, y) :: rest =>
    match u (fieldOf st ca g).1 (fieldOf st ca g).2 y with
    | .ok st2 => goK u ca st2 rest
    | r => r

def unifyK : Nat → Store → Nat → Nat → Res
  | 0, _, _, _ => .fuel
  | f+1, st, a, b =>
      if deref st a = deref st b then .ok st else
      if cont st (deref st a) = [] ∧ cont st (deref st b) = [] then
        if val st (deref st a) = val st (deref st b) then .ok (setPointer st (deref st a) (deref st b))
        else if val st (deref st a) = none then .ok (setPointer st (deref st a) (deref st b))
        else if val st (deref st b) = none then .ok (setPointer st (deref st b) (deref st a))
        else .conflict
      else goK (unifyK f) (deref st a) (setPointer st (deref st b) (deref st a)) (cont st (deref st b))

theorem go_eq_goK (f ca : Nat) (ih : ∀ st a b, unify f st a b = unifyK f st a b) :
    ∀ (l : List (String × Nat)) (st : Store), unify.go f ca st l = goK (unifyK f) ca st l
  | [], st => by rw [go_nil]; rfl
  | (g, y) :: rest, st => by
    rw [go_cons, goK, ih]
    cases unifyK f (fieldOf st ca g).1 (fieldOf st ca g).2 y with
    | ok st2 => exact go_eq_goK f ca ih rest st2
    | conflict => rfl
    | fuel => rfl

theorem unify_eq_unifyK : ∀ f st a b, unify f st a b = unifyK f st a b
  | 0, st, a, b => by rw [unify_zero]; rfl
  | f+1, st, a, b => by rw [unify_succ, unifyK, go_eq_goK f _ (unify_eq_unifyK f)]

theorem unify_eq : unify = unifyK := by
  funext f st a b; exact unify_eq_unifyK f st a b

abbrev Unifier := Nat → Store → Nat → Nat → Res

def advanceU (u : Unifier) (G : Grammar) (T : TablesT) (nx s : TState) : TablesT :=
  let (st1, cl) := copy T.store s.1.fs
  match byPath st1 cl ["head"] with
  | none => { T with store := st1 }
  | some left =>
    let (st2, cr) := copy st1 nx.1.fs
    match byPath st2 cr [toString nx.1.dot] with
    | none => { T with store := st2 }
    | some considered =>
      match u (st2.length + 2) st2 considered left with
      | .ok st3 =>
        pushIfNewT G { T with store := st3 } s.1.e
          ({ prod := nx.1.prod, b := nx.1.b, e := s.1.e, dot := nx.1.dot + 1, fs := cr }, addSon nx.2 s.2)
      | _ => { T with store := st2 }

def predictorU (u : Unifier) (G : Grammar) (T : TablesT) (s : TState) : TablesT :=
  match nextSym G s.1 with
  | some (.var v) =>
    let T1 := (G.prods.zip (List.range G.prods.length)).foldl (fun T pk =>
      if pk.1.head = v then
        pushIfNewT G T s.1.e ({ prod := pk.2, b := s.1.e, e := s.1.e, dot := 0, fs := pk.1.feats }, .node (.var pk.1.head) [])
      else T) T
    let snapshot : List TState := (colGet T1.processed s.1.e).flatMap (·.2)
    snapshot.foldl (fun T c =>
      if !(incomplete G c.1) ∧ c.1.b = s.1.e ∧ (prodOf G c.1.prod).head = v then advanceU u G T s c else T) T1
  | _ => T

def completerU (u : Unifier) (G : Grammar) (T : TablesT) (s : TState) : TablesT :=
  let head := (prodOf G s.1.prod).head
  let snapshot : List TState := (colGet T.processed s.1.b).flatMap (·.2)
  snapshot.foldl (fun T nx =>
    if incomplete G nx.1 ∧ nextSym G nx.1 = some (.var head) then advanceU u G T nx s else T) T

def columnLoopU (u : Unifier) (G : Grammar) (word : List String) (i : Nat) : Nat → TablesT → Option TablesT
  | 0, _ => none
  | f+1, T =>
    match (colGet T.chart i).getLast? with
    | none => some T
    | some s =>
      let T0 := { T with chart := T.chart.set i (colGet T.chart i).dropLast }
      let T1 :=
        if incomplete G s.1 then
          match nextSym G s.1 with
          | some (.var _) => predictorU u G T0 s
          | some (.ter t) => if word[i]? = some t then scannerT G T0 s else T0
          | none => T0
        else completerU u G T0 s
      columnLoopU u G word i f T1

def colsU (u : Unifier) (G : Grammar) (word : List String) (fuel : Nat) : List Nat → TablesT → Option TablesT
  | [], T => some T
  | i :: rest, T =>
    match columnLoopU u G word i fuel T with
    | none => none
    | some T' => colsU u G word fuel rest T'

def parseTreeU (u : Unifier) (G : Grammar) (st0 : Store) (word : List String) (fuel : Nat) :
    Option (Option PTree) :=
  let n := word.length
  let first : TState := ({ prod := G.prods.length, b := 0, e := 0, dot := 0, fs := G.gammaFeats }, .node (.var "BEGIN") [])
  let T0 : TablesT := { store := st0, chart := List.replicate (n + 1) [], processed := List.replicate (n + 1) [] }
  let T1 := pushIfNewT G T0 0 first
  match colsU u G word fuel (List.range (n + 1)) T1 with
  | none => none
  | some T3 =>
    some ((((colGet T3.processed n).flatMap (·.2)).find? fun s =>
      s.1.b = 0 ∧ !(incomplete G s.1) ∧ (prodOf G s.1.prod).head = G.start).map (·.2))

theorem advanceU_unify : advanceU unify = advanceT := rfl

theorem predictorU_unify : predictorU unify = predictorT := by
  funext G T s; unfold predictorU predictorT; rw [advanceU_unify]; rfl

theorem completerU_unify : completerU unify = completerT := by
  funext G T s; unfold completerU completerT; rw [advanceU_unify]

theorem columnLoopU_unify (G : Grammar) (word : List String) (i f : Nat) (T : TablesT) :
    columnLoopU unify G word i f T = columnLoopT G word i f T := by
  induction f generalizing T with
  | zero => rfl
  | succ f ih =>
    unfold columnLoopU columnLoopT
    simp only [predictorU_unify, completerU_unify, ih]
    rfl

theorem colsU_unify (G : Grammar) (word : List String) (fuel : Nat) (l : List Nat) (T : TablesT) :
    colsU unify G word fuel l T = parseTree.cols G word fuel l T := by
  induction l generalizing T with
  | nil => rfl
  | cons i l ih =>
    unfold colsU parseTree.cols
    simp only [columnLoopU_unify, ih]
    rfl

/-- the model's run is the run over the kernel-reducible unifier -/
theorem parseTree_eq_K (G : Grammar) (st0 : Store) (word : List String) (fuel : Nat) :
    parseTree G st0 word fuel = parseTreeU unifyK G st0 word fuel := by
  rw [← unify_eq]
  unfold parseTree parseTreeU
  simp only [colsU_unify]
  rfl

theorem parseTreeSpec_eq_K (spec : List ((String × Feat) × List (Sym × Feat))) (start : String)
    (word : List String) (fuel : Nat) :
    parseTreeSpec spec start word fuel =
      parseTreeU unifyK (buildGrammar spec start).2 (buildGrammar spec start).1 word fuel :=
  parseTree_eq_K _ _ _ _

end Pfl.Earley.Tr.NV
