/-
Helper lemmas for C13_ToCFG: the triple construction PDA → CFG and the product of a PDA with a
deterministic automaton.
-/
import Pfl.Props.C13_Modes
import Pfl.Proofs.CFGBase
import Pfl.Proofs.FABase
namespace Pfl.PDA.ToCFG
open Pfl.CFG
variable {σ γ τ : Type}

/-! ### basic facts about moves -/

/-- uniform description of a move out of a configuration with non-empty stack -/
theorem step_iff (P : PDA σ γ) (q : σ) (u : List String) (α : List γ) (c' : Config σ γ) :
    P.Step (q, u, α) c' ↔ ∃ a x q' push w β, (q, a, x, q', push) ∈ P.delta ∧ α = x :: β ∧
      u = a.toList ++ w ∧ c' = (q', w, push ++ β) := by
  constructor
  · intro h
    cases h with
    | read ht => exact ⟨some _, _, _, _, _, _, ht, rfl, rfl, rfl⟩
    | eps ht => exact ⟨none, _, _, _, _, _, ht, rfl, rfl, rfl⟩
  · rintro ⟨a, x, q', push, w, β, ht, rfl, rfl, rfl⟩
    cases a with
    | none => exact Step.eps ht
    | some a => exact Step.read ht

theorem step_mk {P : PDA σ γ} {q q' : σ} {a : Option String} {x : γ} {push : List γ}
    (ht : (q, a, x, q', push) ∈ P.delta) (w : List String) (β : List γ) :
    P.Step (q, a.toList ++ w, x :: β) (q', w, push ++ β) :=
  (step_iff P _ _ _ _).2 ⟨a, x, q', push, w, β, ht, rfl, rfl, rfl⟩

theorem Step.frame {P : PDA σ γ} {c c' : Config σ γ} (h : P.Step c c') (v : List String)
    (β : List γ) : P.Step (c.1, c.2.1 ++ v, c.2.2 ++ β) (c'.1, c'.2.1 ++ v, c'.2.2 ++ β) := by
  cases h with
  | read ht =>
    simp only [List.cons_append, List.append_assoc]
    exact Step.read ht
  | eps ht =>
    simp only [List.cons_append, List.append_assoc]
    exact Step.eps ht

theorem Steps.trans {P : PDA σ γ} {c c' c'' : Config σ γ} (h₁ : P.Steps c c') (h₂ : P.Steps c' c'') :
    P.Steps c c'' := by
  induction h₁ with
  | refl _ => exact h₂
  | head hs _ ih => exact Steps.head hs (ih h₂)

theorem Steps.single {P : PDA σ γ} {c c' : Config σ γ} (h : P.Step c c') : P.Steps c c' :=
  Steps.head h (Steps.refl _)

theorem Steps.frame {P : PDA σ γ} {c c' : Config σ γ} (h : P.Steps c c') (v : List String)
    (β : List γ) : P.Steps (c.1, c.2.1 ++ v, c.2.2 ++ β) (c'.1, c'.2.1 ++ v, c'.2.2 ++ β) := by
  induction h with
  | refl _ => exact Steps.refl _
  | head hs _ ih => exact Steps.head (Step.frame hs v β) ih

/-- composition of two runs that empty consecutive parts of the stack -/
theorem Steps.comp {P : PDA σ γ} {q m p : σ} {u₁ u₂ : List String} {α β : List γ}
    (h₁ : P.Steps (q, u₁, α) (m, [], [])) (h₂ : P.Steps (m, u₂, β) (p, [], [])) :
    P.Steps (q, u₁ ++ u₂, α ++ β) (p, [], []) := by
  have := Steps.frame h₁ u₂ β
  simp only [List.nil_append] at this
  exact Steps.trans this h₂

/-- step-indexed runs -/
inductive StepsN (P : PDA σ γ) : Nat → Config σ γ → Config σ γ → Prop
  | refl (c : Config σ γ) : StepsN P 0 c c
  | head {n : Nat} {c c' c'' : Config σ γ} : P.Step c c' → StepsN P n c' c'' → StepsN P (n+1) c c''

theorem steps_iff_stepsN {P : PDA σ γ} {c c' : Config σ γ} :
    P.Steps c c' ↔ ∃ n, StepsN P n c c' := by
  constructor
  · intro h
    induction h with
    | refl _ => exact ⟨0, .refl _⟩
    | head hs _ ih => obtain ⟨n, hn⟩ := ih; exact ⟨n+1, .head hs hn⟩
  · rintro ⟨n, h⟩
    induction h with
    | refl _ => exact .refl _
    | head hs _ ih => exact .head hs ih

theorem stepsN_zero_iff {P : PDA σ γ} {c c' : Config σ γ} : StepsN P 0 c c' ↔ c = c' := by
  constructor
  · intro h; cases h; rfl
  · rintro rfl; exact .refl _

theorem stepsN_succ_iff {P : PDA σ γ} {n : Nat} {c c'' : Config σ γ} :
    StepsN P (n+1) c c'' ↔ ∃ c', P.Step c c' ∧ StepsN P n c' c'' := by
  constructor
  · intro h; cases h with
    | head hs hr => exact ⟨_, hs, hr⟩
  · rintro ⟨c', hs, hr⟩; exact .head hs hr

/-- no move out of an empty stack -/
theorem stepsN_nil_stack {P : PDA σ γ} {n : Nat} {q : σ} {u : List String} {c' : Config σ γ}
    (h : StepsN P n (q, u, []) c') : n = 0 ∧ c' = (q, u, []) := by
  cases h with
  | refl _ => exact ⟨rfl, rfl⟩
  | head hs _ =>
    rw [step_iff] at hs
    obtain ⟨a, x, q', push, w, β, _, hα, _⟩ := hs
    cases hα

/-- a run that empties a non-empty stack starts with a transition -/
theorem stepsN_cons_stack {P : PDA σ γ} {n : Nat} {q p : σ} {u u' : List String} {x : γ}
    {α : List γ} (h : StepsN P n (q, u, x :: α) (p, u', [])) :
    ∃ k a q' push w, n = k + 1 ∧ (q, a, x, q', push) ∈ P.delta ∧ u = a.toList ++ w ∧
      StepsN P k (q', w, push ++ α) (p, u', []) := by
  cases h with
  | head hs hr =>
    rw [step_iff] at hs
    obtain ⟨a, x', q', push, w, β, ht, hα, rfl, rfl⟩ := hs
    simp only [List.cons.injEq] at hα
    obtain ⟨rfl, rfl⟩ := hα
    exact ⟨_, a, q', push, w, rfl, ht, rfl, hr⟩

theorem step_dst {P : PDA σ γ} (hP : P.WF) {c c' : Config σ γ} (h : P.Step c c') :
    c'.1 ∈ P.states := by
  cases h with
  | read ht => exact hP.dst _ ht
  | eps ht => exact hP.dst _ ht

theorem stepsN_states {P : PDA σ γ} (hP : P.WF) {n : Nat} {c c' : Config σ γ}
    (h : StepsN P n c c') : c.1 ∈ P.states → c'.1 ∈ P.states := by
  induction h with
  | refl _ => exact id
  | head hs _ ih => intro _; exact ih (step_dst hP hs)

theorem stepsN_last {P : PDA σ γ} (hP : P.WF) {n : Nat} {c c' : Config σ γ}
    (h : StepsN P (n+1) c c') : c'.1 ∈ P.states := by
  cases h with
  | head hs hr => exact stepsN_states hP hr (step_dst hP hs)

/-- a run emptying `α ++ β` splits into a run emptying `α` and one emptying `β` -/
theorem stepsN_split {P : PDA σ γ} : ∀ (n : Nat) (q : σ) (u : List String) (α β : List γ) (p : σ),
    StepsN P n (q, u, α ++ β) (p, [], []) →
    ∃ m u₁ u₂ n₁ n₂, u = u₁ ++ u₂ ∧ n = n₁ + n₂ ∧ StepsN P n₁ (q, u₁, α) (m, [], []) ∧
      StepsN P n₂ (m, u₂, β) (p, [], []) := by
  intro n
  induction n with
  | zero =>
    intro q u α β p h
    rw [stepsN_zero_iff] at h
    simp only [Prod.mk.injEq, List.append_eq_nil_iff] at h
    obtain ⟨rfl, rfl, rfl, rfl⟩ := h
    exact ⟨q, [], [], 0, 0, rfl, rfl, .refl _, .refl _⟩
  | succ n ih =>
    intro q u α β p h
    cases α with
    | nil => exact ⟨q, [], u, 0, n+1, rfl, by omega, .refl _, h⟩
    | cons x α =>
      rw [List.cons_append] at h
      obtain ⟨k, a, q', push, w, hk, ht, rfl, hr⟩ := stepsN_cons_stack h
      have hk' : k = n := by omega
      subst hk'
      rw [← List.append_assoc] at hr
      obtain ⟨m, u₁, u₂, n₁, n₂, rfl, rfl, h1, h2⟩ := ih _ _ _ _ _ hr
      refine ⟨m, a.toList ++ u₁, u₂, n₁ + 1, n₂, by simp, by omega, ?_, h2⟩
      exact .head (step_mk ht _ _) h1

/-! ### the grammar -/

section grammar
variable [DecidableEq σ] [DecidableEq γ]

omit [DecidableEq σ] in
theorem mem_tuples (xs : List σ) : ∀ (n : Nat) (t : List σ),
    t ∈ tuples xs n ↔ t.length = n ∧ ∀ x ∈ t, x ∈ xs := by
  intro n
  induction n with
  | zero =>
    intro t
    simp only [tuples, List.mem_singleton, List.length_eq_zero_iff]
    constructor
    · rintro rfl; simp
    · exact fun h => h.1
  | succ n ih =>
    intro t
    simp only [tuples, List.mem_flatMap, List.mem_map]
    constructor
    · rintro ⟨x, hx, t', ht', rfl⟩
      obtain ⟨h1, h2⟩ := (ih t').1 ht'
      refine ⟨by simp [h1], ?_⟩
      intro y hy
      rcases List.mem_cons.mp hy with rfl | hy
      · exact hx
      · exact h2 y hy
    · rintro ⟨h1, h2⟩
      cases t with
      | nil => simp at h1
      | cons x t' =>
        refine ⟨x, h2 x (by simp), t', (ih t').2 ⟨by simpa using h1, fun y hy => h2 y (by simp [hy])⟩, rfl⟩

/-- the triples `[q X₁ m₁][m₁ X₂ m₂]…[mₖ₋₁ Xₖ p]` -/
def triplesOf (q : σ) (mids : List σ) (push : List γ) (p : σ) : List ((σ × γ) × σ) :=
  ((q :: mids).zip push).zip (mids ++ [p])

omit [DecidableEq σ] [DecidableEq γ] in
theorem triplesOf_nil (q : σ) (x : γ) (push : List γ) (p : σ) :
    triplesOf q [] (x :: push) p = [((q, x), p)] := by
  simp [triplesOf]

omit [DecidableEq σ] [DecidableEq γ] in
theorem triplesOf_cons (q m : σ) (mids : List σ) (x : γ) (push : List γ) (p : σ) :
    triplesOf q (m :: mids) (x :: push) p = ((q, x), m) :: triplesOf m mids push p := by
  simp [triplesOf]

omit [DecidableEq σ] [DecidableEq γ] in
theorem triplesOf_length (q : σ) (mids : List σ) (push : List γ) (p : σ)
    (h : mids.length + 1 = push.length) : (triplesOf q mids push p).length = push.length := by
  simp [triplesOf, List.length_zip]; omega

/-- the body of a production built from a chain of triples -/
def chain (ns : σ → String) (ng : γ → String) (q : σ) (mids : List σ) (push : List γ) (p : σ) :
    List Sym :=
  (triplesOf q mids push p).map fun t => Sym.var (tripleName ns ng t.1.1 t.1.2 t.2)

/-- "`(q, x)` is the source of some transition" -/
def validB (P : PDA σ γ) (q : σ) (x : γ) : Bool := P.delta.any fun t => t.1 = q ∧ t.2.2.1 = x

theorem validB_iff (P : PDA σ γ) (q : σ) (x : γ) :
    validB P q x = true ↔ ∃ a q' push, (q, a, x, q', push) ∈ P.delta := by
  simp only [validB, List.any_eq_true, decide_eq_true_eq]
  constructor
  · rintro ⟨⟨q₀, a, x₀, q', push⟩, ht, rfl, rfl⟩; exact ⟨a, q', push, ht⟩
  · rintro ⟨a, q', push, ht⟩; exact ⟨_, ht, rfl, rfl⟩

omit [DecidableEq σ] [DecidableEq γ] in
theorem mem_bodiesOf (P : PDA σ γ) (valid : σ → γ → Bool) (ns : σ → String) (ng : γ → String)
    (q p : σ) (push : List γ) (body : List Sym) :
    body ∈ bodiesOf P valid ns ng q p push ↔
      (push = [] ∧ body = []) ∨
      (push ≠ [] ∧ ∃ mids, mids.length + 1 = push.length ∧ (∀ m ∈ mids, m ∈ P.states) ∧
        (∀ t ∈ triplesOf q mids push p, valid t.1.1 t.1.2 = true) ∧ body = chain ns ng q mids push p) := by
  cases push with
  | nil => simp [bodiesOf]
  | cons x push =>
    simp only [bodiesOf, List.mem_filterMap, mem_tuples, reduceCtorEq, false_and, false_or,
      ne_eq, not_false_eq_true, true_and, List.length_cons, Nat.add_one_sub_one]
    constructor
    · rintro ⟨mids, ⟨h1, h2⟩, h3⟩
      split at h3
      · rename_i hv
        simp only [Option.some.injEq] at h3
        refine ⟨mids, by omega, h2, ?_, h3.symm⟩
        simpa [List.all_eq_true, triplesOf] using hv
      · cases h3
    · rintro ⟨mids, h1, h2, h3, rfl⟩
      refine ⟨mids, ⟨by omega, h2⟩, ?_⟩
      rw [if_pos]
      · rfl
      · simpa [List.all_eq_true, triplesOf] using h3

theorem toCFG_start {P : PDA σ γ} {ns : σ → String} {ng : γ → String} {C : CFG}
    (h : P.toCFG ns ng = some C) : C.start = some "#StartCFG#" := by
  unfold toCFG at h
  split at h
  · simp only [Option.some.injEq] at h
    subst h; rfl
  · cases h

theorem mem_toCFG_prods {P : PDA σ γ} {ns : σ → String} {ng : γ → String} {C : CFG}
    (h : P.toCFG ns ng = some C) (pr : Prod) :
    pr ∈ C.prods ↔
      (∃ s z p, P.start = some s ∧ P.startStack = some z ∧ p ∈ P.states ∧
        pr = ("#StartCFG#", [Sym.var (tripleName ns ng s z p)])) ∨
      (∃ q a x q₁ push p body, (q, a, x, q₁, push) ∈ P.delta ∧ p ∈ P.states ∧
        (push = [] → p = q₁) ∧ body ∈ bodiesOf P (validB P) ns ng q₁ p push ∧
        pr = (tripleName ns ng q x p, a.toList.map Sym.ter ++ body)) := by
  unfold toCFG at h
  split at h
  · rename_i s z hs hz
    simp only [Option.some.injEq] at h
    subst h
    simp only [CFG.mk', List.mem_append, List.mem_map, List.mem_flatMap]
    constructor
    · rintro (⟨p, hp, rfl⟩ | ⟨⟨q, a, x, q₁, push⟩, ht, p, hp, hpr⟩)
      · exact Or.inl ⟨s, z, p, hs, hz, hp, rfl⟩
      · right
        simp only at hpr
        split at hpr
        · simp at hpr
        · rename_i hc
          simp only [List.mem_map] at hpr
          obtain ⟨body, hb, rfl⟩ := hpr
          refine ⟨q, a, x, q₁, push, p, body, ht, hp, ?_, hb, ?_⟩
          · intro he; subst he
            exact Decidable.byContradiction fun hne => hc ⟨by simp, hne⟩
          · cases a <;> rfl
    · rintro (⟨s', z', p, hs', hz', hp, rfl⟩ | ⟨q, a, x, q₁, push, p, body, ht, hp, hpush, hb, rfl⟩)
      · rw [hs] at hs'; rw [hz] at hz'
        cases hs'; cases hz'
        exact Or.inl ⟨p, hp, rfl⟩
      · right
        refine ⟨(q, a, x, q₁, push), ht, p, hp, ?_⟩
        simp only
        rw [if_neg]
        · simp only [List.mem_map]
          refine ⟨body, hb, ?_⟩
          cases a <;> rfl
        · rintro ⟨h1, h2⟩
          exact h2 (hpush (by simpa using h1))
  · cases h

/-! ### runs to parse trees -/

/-- a run emptying `x :: push` is cut into runs emptying one symbol each; `IH` turns each piece
into a parse tree -/
theorem chain_of_stepsN {P : PDA σ γ} (hP : P.WF) (ns : σ → String) (ng : γ → String) (C : CFG)
    (N : Nat)
    (IH : ∀ n, n ≤ N → ∀ q x p u, StepsN P n (q, u, [x]) (p, [], []) →
      C.Gen (.var (tripleName ns ng q x p)) u) :
    ∀ (push : List γ) (x : γ) (q : σ) (n : Nat) (u : List String) (p : σ), n ≤ N →
      StepsN P n (q, u, x :: push) (p, [], []) →
      ∃ mids, mids.length = push.length ∧ (∀ m ∈ mids, m ∈ P.states) ∧
        (∀ t ∈ triplesOf q mids (x :: push) p, validB P t.1.1 t.1.2 = true) ∧
        C.GenList (chain ns ng q mids (x :: push) p) u := by
  intro push
  induction push with
  | nil =>
    intro x q n u p hn h
    refine ⟨[], rfl, by simp, ?_, ?_⟩
    · obtain ⟨k, a, q', push, w, _, ht, _, _⟩ := stepsN_cons_stack h
      simp only [triplesOf_nil, List.mem_singleton]
      rintro t rfl
      exact (validB_iff P q x).2 ⟨a, q', push, ht⟩
    · simp only [chain, triplesOf_nil, List.map_cons, List.map_nil]
      exact genList_singleton.2 (IH n hn q x p u h)
  | cons y push ih =>
    intro x q n u p hn h
    obtain ⟨m, u₁, u₂, n₁, n₂, rfl, rfl, h1, h2⟩ := stepsN_split n q u [x] (y :: push) p h
    obtain ⟨mids, hl, hm, hv, hg⟩ := ih y m n₂ u₂ p (by omega) h2
    obtain ⟨k, a, q', push', w, hk, ht, _, _⟩ := stepsN_cons_stack h1
    have hms : m ∈ P.states := by
      subst hk
      exact stepsN_last hP h1
    refine ⟨m :: mids, by simp [hl], ?_, ?_, ?_⟩
    · intro m' hm'
      rcases List.mem_cons.mp hm' with rfl | hm'
      · exact hms
      · exact hm m' hm'
    · simp only [triplesOf_cons, List.mem_cons]
      rintro t (rfl | ht')
      · exact (validB_iff P q x).2 ⟨a, q', push', ht⟩
      · exact hv t ht'
    · simp only [chain, triplesOf_cons, List.map_cons]
      exact GenList.cons (IH n₁ (by omega) q x m u₁ h1) hg

/-- a run emptying `[x]` from `q` to `p` gives a parse tree of `[q x p]` -/
theorem gen_of_stepsN {P : PDA σ γ} (hP : P.WF) {ns : σ → String} {ng : γ → String} {C : CFG}
    (h : P.toCFG ns ng = some C) : ∀ (n : Nat) (q : σ) (x : γ) (p : σ) (u : List String),
      StepsN P n (q, u, [x]) (p, [], []) → C.Gen (.var (tripleName ns ng q x p)) u := by
  intro n
  induction n using Nat.strongRecOn with
  | ind n IH =>
    intro q x p u hr
    obtain ⟨k, a, q', push, w, rfl, ht, rfl, hr'⟩ := stepsN_cons_stack hr
    rw [List.append_nil] at hr'
    have hps : p ∈ P.states := stepsN_last hP hr
    have hter : C.GenList (a.toList.map Sym.ter) a.toList := genList_map_ter C _
    cases push with
    | nil =>
      obtain ⟨_, he⟩ := stepsN_nil_stack hr'
      simp only [Prod.mk.injEq] at he
      obtain ⟨rfl, rfl, _⟩ := he
      refine Gen.var ((mem_toCFG_prods h _).2 (Or.inr ⟨q, a, x, p, [], p, [], ht, hps,
        fun _ => rfl, ?_, rfl⟩)) ?_
      · exact (mem_bodiesOf ..).2 (Or.inl ⟨rfl, rfl⟩)
      · simpa using hter
    | cons y push =>
      obtain ⟨mids, hl, hm, hv, hg⟩ := chain_of_stepsN hP ns ng C k
        (fun n hn => IH n (by omega)) push y q' k w p (Nat.le_refl _) hr'
      refine Gen.var ((mem_toCFG_prods h _).2 (Or.inr ⟨q, a, x, q', y :: push, p,
        chain ns ng q' mids (y :: push) p, ht, hps, (fun he => by cases he), ?_, rfl⟩)) ?_
      · exact (mem_bodiesOf ..).2 (Or.inr ⟨by simp, mids, by simp [hl], hm, hv, rfl⟩)
      · exact genList_append hter hg

/-! ### parse trees to runs -/

theorem gen_ind {G : CFG} {A : Sym → List String → Prop} {B : List Sym → List String → Prop}
    (hter : ∀ t, A (.ter t) [t])
    (hvar : ∀ h body w, (h, body) ∈ G.prods → G.GenList body w → B body w → A (.var h) w)
    (hnil : B [] [])
    (hcons : ∀ s u w₁ w₂, G.Gen s w₁ → G.GenList u w₂ → A s w₁ → B u w₂ → B (s :: u) (w₁ ++ w₂)) :
    (∀ s w, G.Gen s w → A s w) ∧ (∀ u w, G.GenList u w → B u w) :=
  ⟨fun _ _ h => Gen.rec (motive_1 := fun s w _ => A s w) (motive_2 := fun u w _ => B u w)
      hter (fun hp hb ih => hvar _ _ _ hp hb ih) hnil
      (fun hs hu ih₁ ih₂ => hcons _ _ _ _ hs hu ih₁ ih₂) h,
   fun _ _ h => GenList.rec (motive_1 := fun s w _ => A s w) (motive_2 := fun u w _ => B u w)
      hter (fun hp hb ih => hvar _ _ _ hp hb ih) hnil
      (fun hs hu ih₁ ih₂ => hcons _ _ _ _ hs hu ih₁ ih₂) h⟩

/-- the statement proved about bodies: a chain of triples generates the input of a run emptying
the pushed symbols -/
def ChainRuns (P : PDA σ γ) (ns : σ → String) (ng : γ → String) (body : List Sym)
    (w : List String) : Prop :=
  ∀ q mids push p, mids.length + 1 = push.length → q ∈ P.states → (∀ m ∈ mids, m ∈ P.states) →
    (∀ x ∈ push, x ∈ P.stack) → p ∈ P.states → body = chain ns ng q mids push p →
    P.Steps (q, w, push) (p, [], [])

theorem steps_of_gen {P : PDA σ γ} (hP : P.WF) {ns : σ → String} {ng : γ → String}
    (hinj : ∀ q x p q' x' p', q ∈ P.states → p ∈ P.states → q' ∈ P.states → p' ∈ P.states →
      x ∈ P.stack → x' ∈ P.stack →
      tripleName ns ng q x p = tripleName ns ng q' x' p' → q = q' ∧ x = x' ∧ p = p')
    (hstart : ∀ q ∈ P.states, ∀ x ∈ P.stack, ∀ p ∈ P.states, tripleName ns ng q x p ≠ "#StartCFG#")
    {C : CFG} (h : P.toCFG ns ng = some C) :
    (∀ s w, C.Gen s w → ∀ q x p, q ∈ P.states → x ∈ P.stack → p ∈ P.states →
      s = .var (tripleName ns ng q x p) → P.Steps (q, w, [x]) (p, [], [])) ∧
    (∀ body w, C.GenList body w →
      ChainRuns P ns ng body w ∧
      ∀ c body', body = Sym.ter c :: body' → ∃ w', w = c :: w' ∧ ChainRuns P ns ng body' w') := by
  apply gen_ind
  · intro t q x p _ _ _ he; cases he
  · intro hd body w hp hg ih q x p hq hx hpp he
    simp only [Sym.var.injEq] at he
    subst he
    rcases (mem_toCFG_prods h _).1 hp with ⟨s, z, p', _, _, _, he⟩ | ⟨q', a, x', q₁, push, p', body', ht, hp', hpush, hb, he⟩
    · simp only [Prod.mk.injEq] at he
      exact absurd he.1 (hstart q hq x hx p hpp)
    · simp only [Prod.mk.injEq] at he
      obtain ⟨hn, rfl⟩ := he
      obtain ⟨rfl, rfl, rfl⟩ := hinj _ _ _ _ _ _ hq hpp (hP.src _ ht) hp' hx (hP.pop _ ht) hn
      have hq₁ : q₁ ∈ P.states := hP.dst _ ht
      have hpu : ∀ y ∈ push, y ∈ P.stack := hP.push _ ht
      -- the run emptying `push`
      have key : ∃ w', w = a.toList ++ w' ∧ P.Steps (q₁, w', push) (p, [], []) := by
        have hbody : ∀ w', C.GenList body' w' → ChainRuns P ns ng body' w' →
            P.Steps (q₁, w', push) (p, [], []) := by
          intro w' hg' hc
          rcases (mem_bodiesOf ..).1 hb with ⟨rfl, rfl⟩ | ⟨_, mids, hl, hm, _, hbe⟩
          · rw [genList_nil_iff] at hg'
            subst hg'
            rw [hpush rfl]
            exact Steps.refl _
          · exact hc q₁ mids push p hl hq₁ hm hpu hpp hbe
        cases a with
        | none =>
          exact ⟨w, rfl, hbody w (by simpa using hg) (by simpa using ih.1)⟩
        | some c =>
          obtain ⟨w', rfl, hc⟩ := ih.2 c body' rfl
          refine ⟨w', rfl, hbody w' ?_ hc⟩
          have := hg
          simp only [Option.toList_some, List.map_cons, List.map_nil, List.cons_append,
            List.nil_append] at this
          obtain ⟨w₁, w₂, he, h1, h2⟩ := genList_cons_iff.1 this
          rw [gen_ter_iff] at h1
          subst h1
          simp only [List.cons_append, List.nil_append, List.cons.injEq, true_and] at he
          subst he
          exact h2
      obtain ⟨w', rfl, hr⟩ := key
      have := step_mk ht w' []
      rw [List.append_nil] at this
      exact Steps.head this hr
  · refine ⟨?_, ?_⟩
    · intro q mids push p hl _ _ _ _ he
      have := congrArg List.length he
      simp only [chain, List.length_map, triplesOf_length q mids push p hl, List.length_nil] at this
      omega
    · intro c body' he; cases he
  · intro s u w₁ w₂ hs hu ih₁ ih₂
    refine ⟨?_, ?_⟩
    · intro q mids push p hl hq hm hpu hpp he
      cases push with
      | nil => simp at hl
      | cons x push =>
        cases mids with
        | nil =>
          simp only [chain, triplesOf_nil, List.map_cons, List.map_nil, List.cons.injEq] at he
          obtain ⟨rfl, rfl⟩ := he
          rw [genList_nil_iff] at hu
          subst hu
          have hpn : push = [] := by
            simp only [List.length_nil, List.length_cons] at hl
            exact List.length_eq_zero_iff.mp (by omega)
          subst hpn
          rw [List.append_nil]
          exact ih₁ q x p hq (hpu x (by simp)) hpp rfl
        | cons m mids =>
          simp only [chain, triplesOf_cons, List.map_cons, List.cons.injEq] at he
          obtain ⟨rfl, rfl⟩ := he
          have h1 := ih₁ q x m hq (hpu x (by simp)) (hm m (by simp)) rfl
          have h2 := ih₂.1 m mids push p (by simpa using hl) (hm m (by simp))
            (fun m' hm' => hm m' (by simp [hm'])) (fun y hy => hpu y (by simp [hy])) hpp rfl
          exact Steps.comp (α := [x]) h1 h2
    · intro c body' he
      simp only [List.cons.injEq] at he
      obtain ⟨rfl, rfl⟩ := he
      rw [gen_ter_iff] at hs
      subst hs
      exact ⟨w₂, rfl, ih₂.1⟩

end grammar

/-! ### product with a deterministic automaton -/

section product
variable [DecidableEq σ] [DecidableEq γ] [DecidableEq τ]

omit [DecidableEq τ] in
theorem mem_interBody (P : PDA σ γ) (pq : σ × τ) (a : Option String) (nextD : List τ)
    (e : (σ × τ) × Option String × γ × (σ × τ) × List γ) :
    e ∈ (if nextD.isEmpty = true then [] else
          P.stack.flatMap fun x =>
            (P.delta.filter fun (t : σ × Option String × γ × σ × List γ) =>
              t.1 = pq.1 ∧ t.2.1 = a ∧ t.2.2.1 = x).flatMap
            fun (t : σ × Option String × γ × σ × List γ) =>
              nextD.map fun d => (pq, a, x, (t.2.2.2.1, d), t.2.2.2.2)) ↔
      ∃ x q' push d', d' ∈ nextD ∧ e = (pq, a, x, (q', d'), push) ∧
        (pq.1, a, x, q', push) ∈ P.delta ∧ x ∈ P.stack := by
  constructor
  · intro he
    split at he
    · cases he
    · simp only [List.mem_flatMap, List.mem_filter, List.mem_map, decide_eq_true_eq] at he
      obtain ⟨x, hx, ⟨q₀, a₀, x₀, q', push⟩, ⟨ht, hq, hta, htx⟩, d', hd', rfl⟩ := he
      simp only at hq hta htx
      subst hq hta htx
      exact ⟨x₀, q', push, d', hd', rfl, ht, hx⟩
  · rintro ⟨x, q', push, d', hd', rfl, ht, hx⟩
    rw [if_neg (by intro hn; rw [List.isEmpty_iff] at hn; subst hn; simp at hd')]
    simp only [List.mem_flatMap, List.mem_filter, List.mem_map, decide_eq_true_eq]
    exact ⟨x, hx, (pq.1, a, x, q', push), ⟨ht, rfl, rfl, rfl⟩, d', hd', rfl⟩

theorem mem_interNext (P : PDA σ γ) (D : ENFA τ) (symOf : String → Option Nat) (pq : σ × τ)
    (e : (σ × τ) × Option String × γ × (σ × τ) × List γ) :
    e ∈ interNext P D symOf pq ↔
      ∃ a x q' push d', e = (pq, a, x, (q', d'), push) ∧ (pq.1, a, x, q', push) ∈ P.delta ∧
        x ∈ P.stack ∧
        ((a = none ∧ d' = pq.2) ∨
          ∃ c k, a = some c ∧ c ∈ P.inputs ∧ symOf c = some k ∧ (pq.2, some k, d') ∈ D.delta) := by
  unfold interNext
  simp only [List.mem_flatMap, mem_interBody]
  constructor
  · rintro ⟨a, ha, x, q', push, d', hd', rfl, ht, hx⟩
    refine ⟨a, x, q', push, d', rfl, ht, hx, ?_⟩
    cases a with
    | none =>
      simp only [List.mem_singleton] at hd'
      exact Or.inl ⟨rfl, hd'⟩
    | some c =>
      right
      simp only [List.mem_append, List.mem_map, Option.some.injEq, exists_eq_right,
        List.mem_singleton, reduceCtorEq, or_false] at ha
      simp only at hd'
      split at hd'
      · rename_i k hk
        rw [List.mem_eraseDups, ENFA.mem_succs] at hd'
        exact ⟨c, k, rfl, ha, hk, hd'⟩
      · simp at hd'
  · rintro ⟨a, x, q', push, d', rfl, ht, hx, hd⟩
    refine ⟨a, ?_, x, q', push, d', ?_, rfl, ht, hx⟩
    · rcases hd with ⟨rfl, _⟩ | ⟨c, k, rfl, hc, _, _⟩
      · simp
      · simp [hc]
    · rcases hd with ⟨rfl, rfl⟩ | ⟨c, k, rfl, hc, hk, hdd⟩
      · simp
      · simp only [hk]
        rw [List.mem_eraseDups, ENFA.mem_succs]
        exact hdd

/-- the set of pairs explored by `inter` -/
def InterSeen (P : PDA σ γ) (D : ENFA τ) (symOf : String → Option Nat) (s : σ) (d : τ)
    (seen : List (σ × τ)) : Prop :=
  (s, d) ∈ seen ∧ ∀ pq ∈ seen, ∀ e ∈ interNext P D symOf pq, e.2.2.2.1 ∈ seen

theorem inter_spec {P : PDA σ γ} {D : ENFA τ} {symOf : String → Option Nat} {fuel : Nat}
    {Q : PDA (σ × τ) γ} (h : P.inter D symOf fuel = some Q) :
    ∃ s d seen, P.start = some s ∧ D.starts.head? = some d ∧ InterSeen P D symOf s d seen ∧
      Q.start = some (s, d) ∧ Q.startStack = P.startStack ∧
      (∀ f, f ∈ Q.finals ↔ f ∈ seen ∧ f.1 ∈ P.finals ∧ f.2 ∈ D.finals) ∧
      (∀ e, e ∈ Q.delta ↔ ∃ pq ∈ seen, e ∈ interNext P D symOf pq) := by
  unfold inter at h
  split at h
  · rename_i s d hs hd
    simp only [Option.map_eq_some_iff] at h
    obtain ⟨seen, hb, rfl⟩ := h
    have hmem := mem_bfs_iff _ _ _ _ hb
    refine ⟨s, d, seen, hs, hd, ⟨?_, ?_⟩, rfl, rfl, ?_, ?_⟩
    · exact (hmem _).2 ⟨_, by simp, Reach.refl _⟩
    · intro pq hpq e he
      obtain ⟨s₀, hs₀, hr⟩ := (hmem pq).1 hpq
      exact (hmem _).2 ⟨s₀, hs₀, Reach.tail hr (List.mem_map.2 ⟨e, he, rfl⟩)⟩
    · intro f
      simp only [mk', List.mem_eraseDups, List.mem_filter, decide_eq_true_eq]
    · intro e
      simp only [mk', List.mem_eraseDups, List.mem_flatMap]
  · cases h

/-- edges of the product -/
theorem mem_inter_delta {P : PDA σ γ} {D : ENFA τ} {symOf : String → Option Nat}
    {seen : List (σ × τ)} {Q : PDA (σ × τ) γ}
    (hd : ∀ e, e ∈ Q.delta ↔ ∃ pq ∈ seen, e ∈ interNext P D symOf pq)
    (q : σ) (d : τ) (a : Option String) (x : γ) (q' : σ) (d' : τ) (push : List γ) :
    ((q, d), a, x, (q', d'), push) ∈ Q.delta ↔
      (q, d) ∈ seen ∧ (q, a, x, q', push) ∈ P.delta ∧ x ∈ P.stack ∧
        ((a = none ∧ d' = d) ∨
          ∃ c k, a = some c ∧ c ∈ P.inputs ∧ symOf c = some k ∧ (d, some k, d') ∈ D.delta) := by
  rw [hd]
  constructor
  · rintro ⟨pq, hpq, he⟩
    rw [mem_interNext] at he
    obtain ⟨a', x', q'', push', d'', he, ht, hx, hc⟩ := he
    simp only [Prod.mk.injEq] at he
    obtain ⟨rfl, rfl, rfl, ⟨rfl, rfl⟩, rfl⟩ := he
    exact ⟨hpq, ht, hx, hc⟩
  · rintro ⟨hpq, ht, hx, hc⟩
    exact ⟨(q, d), hpq, (mem_interNext ..).2 ⟨a, x, q', push, d', rfl, ht, hx, hc⟩⟩

theorem mapM_cons_some {f : String → Option Nat} {a : String} {w : List String} {ks : List Nat} :
    (a :: w).mapM f = some ks ↔ ∃ k ks', f a = some k ∧ w.mapM f = some ks' ∧ ks = k :: ks' := by
  rw [List.mapM_cons]
  cases hf : f a with
  | none => simp
  | some k =>
    cases hw : w.mapM f with
    | none => simp
    | some ks' =>
      simp only [Option.pure_def, Option.bind_eq_bind, Option.bind_some, Option.some.injEq]
      constructor
      · rintro rfl; exact ⟨k, ks', rfl, rfl, rfl⟩
      · rintro ⟨k', ks'', hk, hks, rfl⟩
        cases hk; cases hks; rfl

/-- a run of the product projects to a run of `P` and a run of `D` -/
theorem inter_steps_sound {P : PDA σ γ} {D : ENFA τ} {symOf : String → Option Nat}
    {seen : List (σ × τ)} {Q : PDA (σ × τ) γ}
    (hd : ∀ e, e ∈ Q.delta ↔ ∃ pq ∈ seen, e ∈ interNext P D symOf pq)
    {c c' : Config (σ × τ) γ} (h : Q.Steps c c') : c'.2.1 = [] →
      P.Steps (c.1.1, c.2.1, c.2.2) (c'.1.1, [], c'.2.2) ∧
      ∃ ks, c.2.1.mapM symOf = some ks ∧ D.Run c.1.2 ks c'.1.2 := by
  induction h with
  | refl c =>
    intro he
    rw [he]
    exact ⟨Steps.refl _, [], by simp, ENFA.Run.nil _⟩
  | head hs _ ih =>
    intro he
    obtain ⟨h1, ks, hks, hr⟩ := ih he
    cases hs with
    | @read q q' a x push β w ht =>
      obtain ⟨q, d⟩ := q
      obtain ⟨q', d'⟩ := q'
      rw [mem_inter_delta hd] at ht
      obtain ⟨_, ht, _, hc⟩ := ht
      rcases hc with ⟨hc, _⟩ | ⟨c, k, hc, _, hk, hdd⟩
      · cases hc
      · cases hc
        refine ⟨Steps.head (Step.read ht) h1, k :: ks, ?_, ENFA.Run.step hdd hr⟩
        exact mapM_cons_some.2 ⟨k, ks, hk, hks, rfl⟩
    | @eps q q' x push β w ht =>
      obtain ⟨q, d⟩ := q
      obtain ⟨q', d'⟩ := q'
      rw [mem_inter_delta hd] at ht
      obtain ⟨_, ht, _, hc⟩ := ht
      rcases hc with ⟨_, rfl⟩ | ⟨c, k, hc, _⟩
      · exact ⟨Steps.head (Step.eps ht) h1, ks, hks, hr⟩
      · cases hc

/-- runs of `P` and `D` on the same input combine into a run of the product -/
theorem inter_steps_complete {P : PDA σ γ} (hP : P.WF) {D : ENFA τ} (eD : D.EpsFree)
    {symOf : String → Option Nat} {s : σ} {d₀ : τ} {seen : List (σ × τ)} {Q : PDA (σ × τ) γ}
    (hseen : InterSeen P D symOf s d₀ seen)
    (hd : ∀ e, e ∈ Q.delta ↔ ∃ pq ∈ seen, e ∈ interNext P D symOf pq)
    {c c' : Config σ γ} (h : P.Steps c c') : c'.2.1 = [] → ∀ d ks d', (c.1, d) ∈ seen →
      c.2.1.mapM symOf = some ks → D.Run d ks d' →
      (c'.1, d') ∈ seen ∧ Q.Steps ((c.1, d), c.2.1, c.2.2) ((c'.1, d'), [], c'.2.2) := by
  induction h with
  | refl c =>
    intro he d ks d' hs hks hr
    rw [he] at hks ⊢
    simp only [List.mapM_nil, Option.pure_def, Option.some.injEq] at hks
    subst hks
    rw [eD.run_nil_iff] at hr
    subst hr
    exact ⟨hs, Steps.refl _⟩
  | head hs _ ih =>
    intro he d ks d' hsn hks hr
    cases hs with
    | @read q q' a x push β w ht =>
      simp only at hks hsn
      obtain ⟨k, ks', hk, hks', rfl⟩ := mapM_cons_some.1 hks
      obtain ⟨r, hdr, hr'⟩ := (eD.run_cons_iff _ _ _ _).1 hr
      have hedge : ((q, d), some a, x, (q', r), push) ∈ Q.delta :=
        (mem_inter_delta hd ..).2 ⟨hsn, ht, hP.pop _ ht,
          Or.inr ⟨a, k, rfl, hP.inp _ ht a rfl, hk, hdr⟩⟩
      have hnext : (q', r) ∈ seen := by
        obtain ⟨pq, hpq, he'⟩ := (hd _).1 hedge
        exact hseen.2 pq hpq _ he'
      obtain ⟨h1, h2⟩ := ih he r ks' d' hnext hks' hr'
      exact ⟨h1, Steps.head (Step.read hedge) h2⟩
    | @eps q q' x push β w ht =>
      simp only at hks hsn
      have hedge : ((q, d), none, x, (q', d), push) ∈ Q.delta :=
        (mem_inter_delta hd ..).2 ⟨hsn, ht, hP.pop _ ht, Or.inl ⟨rfl, rfl⟩⟩
      have hnext : (q', d) ∈ seen := by
        obtain ⟨pq, hpq, he'⟩ := (hd _).1 hedge
        exact hseen.2 pq hpq _ he'
      obtain ⟨h1, h2⟩ := ih he d ks d' hnext hks hr
      exact ⟨h1, Steps.head (Step.eps hedge) h2⟩

end product

end Pfl.PDA.ToCFG
