/-
Termination of the subset construction (`ENFA.detSeen` / `ENFA.toDet`): explicit fuel under which
the worklist of `_to_deterministic_internal` always answers.

The subsets handled by the model are duplicate-free lists of states (every `stepSet` ends with
`eraseDups`), but the *order* of a subset depends on the path by which it was reached.  The
worklist compares subsets by `key` (`to_single_state`).  Hence

* for a key that does not see the order (`KeyCongr`; the library's `mergeName` sorts the names, so
  it is one: `mergeName_keyCongr`), at most `2 ^ |Q|` keys exist and fuel `2 ^ |Q|` is enough;
* for an arbitrary key, at most `2 ^ |Q| * |Q|!` keys exist (arrangements of subsets), and that much
  fuel is enough; `2 ^ |Q|` is NOT enough in general (`Pfl/Props/C01_Termination.lean`,
  `detSeen_order_counterexample`).
-/
import Pfl.Proofs.FADet
import Pfl.Proofs.FAOracle
import Pfl.Proofs.NamesLemmas
import Mathlib.Data.List.Sublists
import Mathlib.Data.List.Permutation
import Mathlib.Data.List.Sort
import Mathlib.Data.Nat.Factorial.Basic

namespace Pfl.Term
open Pfl Pfl.ENFA

set_option linter.unusedSectionVars false
variable {σ κ : Type} [DecidableEq σ] [DecidableEq κ]

/-- the naming function does not see the order in which a (duplicate-free) subset is listed -/
def KeyCongr (A : ENFA σ) (key : List σ → κ) : Prop :=
  ∀ S T : List σ, S.Nodup → (∀ q ∈ S, q ∈ A.states) → S.Perm T → key S = key T

/-! ### the subsets of the model are duplicate-free lists of states -/

theorem detStart_nodup (A : ENFA σ) (useE : Bool) : (A.detStart useE).Nodup := by
  unfold detStart ecloseL
  split <;> exact FAOracle.nodup_eraseDups _

theorem stepSet_nodup (A : ENFA σ) (useE : Bool) (S : List σ) (a : Nat) :
    (A.stepSet useE S a).Nodup := by
  unfold stepSet ecloseL nextL
  simp only []
  split <;> exact FAOracle.nodup_eraseDups _

theorem mem_detNext {A : ENFA σ} {useE : Bool} {S T : List σ} (h : T ∈ A.detNext useE S) :
    ∃ a, T = A.stepSet useE S a := by
  unfold detNext at h
  obtain ⟨a, _, ha⟩ := List.mem_filterMap.mp h
  refine ⟨a, ?_⟩
  by_cases he : (A.stepSet useE S a).isEmpty <;> simp [he] at ha
  exact ha.symm

/-- a duplicate-free list over `L` is an arrangement of a sub-list of `L.eraseDups` -/
theorem perm_sublist_of_nodup (L S : List σ) (hS : S.Nodup) (hL : ∀ q ∈ S, q ∈ L) :
    ∃ l ∈ L.eraseDups.sublists, S.Perm l := by
  refine ⟨L.eraseDups.filter (· ∈ S), List.mem_sublists.mpr List.filter_sublist, ?_⟩
  refine (List.perm_ext_iff_of_nodup hS ((FAOracle.nodup_eraseDups L).filter _)).mpr ?_
  intro q
  simp only [List.mem_filter, List.mem_eraseDups, decide_eq_true_eq]
  exact ⟨fun h => ⟨hL q h, h⟩, fun h => h.2⟩

theorem eraseDups_length_le (L : List σ) : L.eraseDups.length ≤ L.length :=
  (FAOracle.nodup_eraseDups L).length_le_of_subset (fun _ h => List.mem_eraseDups.mp h)

/-! ### order-blind keys: `2 ^ |Q|` -/

theorem detSeen_isSome (A : ENFA σ) (h : A.WF) (key : List σ → κ) (hc : KeyCongr A key)
    (useE : Bool) (fuel : Nat) (hf : 2 ^ A.states.length ≤ fuel) :
    (A.detSeen key useE fuel).isSome := by
  unfold detSeen
  have hkey : ∀ S : List σ, S.Nodup → (∀ q ∈ S, q ∈ A.states) →
      key S ∈ A.states.eraseDups.sublists.map key := by
    intro S hS hSt
    obtain ⟨l, hl, hp⟩ := perm_sublist_of_nodup A.states S hS hSt
    exact List.mem_map.mpr ⟨l, hl, (hc S l hS hSt hp).symm⟩
  apply bfsK_isSome key (A.detNext useE) (A.states.eraseDups.sublists.map key)
  · intro S T hT
    obtain ⟨a, rfl⟩ := mem_detNext hT
    exact hkey _ (stepSet_nodup A useE S a) (stepSet_states A useE h S a)
  · simp
  · intro z hz
    simp only [List.mem_singleton] at hz
    subst hz
    exact hkey _ (detStart_nodup A useE) (detStart_states A useE h)
  · simp only [List.length_cons, List.length_nil, List.length_map, List.length_sublists]
    have : 2 ^ A.states.eraseDups.length ≤ 2 ^ A.states.length :=
      Nat.pow_le_pow_right (by omega) (eraseDups_length_le _)
    omega

theorem toDet_isSome (A : ENFA σ) (h : A.WF) (key : List σ → κ) (hc : KeyCongr A key)
    (useE : Bool) (fuel : Nat) (hf : 2 ^ A.states.length ≤ fuel) :
    (A.toDet key useE fuel).isSome := by
  unfold toDet
  rw [Option.isSome_map]
  exact detSeen_isSome A h key hc useE fuel hf

/-! ### arbitrary keys: `2 ^ |Q| * |Q|!` -/

theorem length_flatMap_permutations_le (n : Nat) (ls : List (List σ))
    (hls : ∀ l ∈ ls, l.length ≤ n) :
    (ls.flatMap List.permutations).length ≤ ls.length * n.factorial := by
  induction ls with
  | nil => simp
  | cons l ls ih =>
    rw [List.flatMap_cons, List.length_append, List.length_permutations, List.length_cons,
      Nat.succ_mul]
    have h1 := Nat.factorial_le (hls l List.mem_cons_self)
    have h2 := ih (fun l' hl' => hls l' (List.mem_cons_of_mem _ hl'))
    omega

theorem detSeen_isSome_anyKey (A : ENFA σ) (h : A.WF) (key : List σ → κ)
    (useE : Bool) (fuel : Nat) (hf : 2 ^ A.states.length * A.states.length.factorial ≤ fuel) :
    (A.detSeen key useE fuel).isSome := by
  unfold detSeen
  have hkey : ∀ S : List σ, S.Nodup → (∀ q ∈ S, q ∈ A.states) →
      key S ∈ (A.states.eraseDups.sublists.flatMap List.permutations).map key := by
    intro S hS hSt
    obtain ⟨l, hl, hp⟩ := perm_sublist_of_nodup A.states S hS hSt
    exact List.mem_map.mpr ⟨S, List.mem_flatMap.mpr ⟨l, hl, List.mem_permutations.mpr hp⟩, rfl⟩
  apply bfsK_isSome key (A.detNext useE)
    ((A.states.eraseDups.sublists.flatMap List.permutations).map key)
  · intro S T hT
    obtain ⟨a, rfl⟩ := mem_detNext hT
    exact hkey _ (stepSet_nodup A useE S a) (stepSet_states A useE h S a)
  · simp
  · intro z hz
    simp only [List.mem_singleton] at hz
    subst hz
    exact hkey _ (detStart_nodup A useE) (detStart_states A useE h)
  · simp only [List.length_cons, List.length_nil, List.length_map]
    have h1 := length_flatMap_permutations_le A.states.eraseDups.length
      A.states.eraseDups.sublists (fun l hl => (List.mem_sublists.mp hl).length_le)
    rw [List.length_sublists] at h1
    have h2 : 2 ^ A.states.eraseDups.length * A.states.eraseDups.length.factorial
        ≤ 2 ^ A.states.length * A.states.length.factorial :=
      Nat.mul_le_mul (Nat.pow_le_pow_right (by omega) (eraseDups_length_le _))
        (Nat.factorial_le (eraseDups_length_le _))
    omega

theorem toDet_isSome_anyKey (A : ENFA σ) (h : A.WF) (key : List σ → κ)
    (useE : Bool) (fuel : Nat) (hf : 2 ^ A.states.length * A.states.length.factorial ≤ fuel) :
    (A.toDet key useE fuel).isSome := by
  unfold toDet
  rw [Option.isSome_map]
  exact detSeen_isSome_anyKey A h key useE fuel hf

/-! ### the library's naming is order-blind -/

theorem mergeName_perm (names : σ → List Char) {S T : List σ} (hp : S.Perm T) :
    Names.mergeName names S = Names.mergeName names T := by
  unfold Names.mergeName
  rw [Names.sortNames_eq_insertionSort, Names.sortNames_eq_insertionSort]
  congr 1
  exact List.Perm.eq_of_pairwise' (r := (· ≤ ·))
    (List.pairwise_insertionSort _ _) (List.pairwise_insertionSort _ _)
    ((List.perm_insertionSort _ _).trans
      ((hp.map names).trans (List.perm_insertionSort _ _).symm))

theorem mergeName_keyCongr (A : ENFA σ) (names : σ → List Char) :
    KeyCongr A (Names.mergeName names) :=
  fun _ _ _ _ hp => mergeName_perm names hp

end Pfl.Term
