/-
Termination (fuel sufficiency) of `PDA.intersection` (`PDA.inter`) and of `CFG.intersection`
(`CFG.interD`).
-/
import Pfl.Proofs.Termination2FA
import Pfl.Proofs.PDAToCFG
import Pfl.Model.BarHillel
import Pfl.Props.C09_Termination

namespace Pfl.Term2
open Pfl Pfl.ENFA

set_option linter.unusedSectionVars false

theorem eraseDups_singleton {α : Type} [DecidableEq α] (a : α) : [a].eraseDups = [a] := by
  simp [List.eraseDups_cons]

/-! ### `bfsK` with an invariant on the queued elements -/

section Bfs
variable {α κ : Type} [DecidableEq κ]

/-- as `bfsK_isSome`, the successors being controlled only for elements satisfying `I` -/
theorem bfsK_isSome_inv (key : α → κ) (next : α → List α) (U : List κ) (I : α → Prop)
    (hU : ∀ x y, I x → y ∈ next x → key y ∈ U ∧ I y) :
    ∀ fuel todo seen, (seen.map key).Nodup → (∀ z ∈ seen, key z ∈ U) → (∀ z ∈ todo, I z) →
      todo.length + U.length < fuel + seen.length + 1 →
      (bfsK key next fuel todo seen).isSome := by
  intro fuel
  induction fuel with
  | zero =>
    intro todo seen hnd hsU _ hlt
    have hle : (seen.map key).length ≤ U.length :=
      List.Nodup.length_le_of_subset hnd (by
        intro k hk; obtain ⟨w, hw, rfl⟩ := List.mem_map.mp hk; exact hsU w hw)
    simp at hle
    cases todo with
    | nil => simp [bfsK]
    | cons a t => simp at hlt; omega
  | succ n ih =>
    intro todo seen hnd hsU hI hlt
    cases todo with
    | nil => simp [bfsK]
    | cons x todo =>
      simp only [bfsK]
      have hx : I x := hI x List.mem_cons_self
      apply ih
      · exact addNewK_nodup key _ _ _ hnd
      · intro z hz
        rcases addNewK_seen_mem key _ _ _ z hz with h | h
        · exact hsU z h
        · exact (hU x z hx h).1
      · intro z hz
        rcases addNewK_todo_mem key _ _ _ z hz with h | ⟨h, _⟩
        · exact hI z (List.mem_cons_of_mem _ h)
        · exact (hU x z hx h).2
      · have := addNewK_length key (next x) todo seen
        simp at hlt; omega

end Bfs

/-! ### (T4) `PDA.inter` -/

section PDAInter
variable {σ γ τ : Type} [DecidableEq σ] [DecidableEq γ] [DecidableEq τ]

/-- the successors of a pair of registered states are pairs of registered states -/
theorem pda_interNext_states (P : PDA σ γ) (hP : P.WF) (D : ENFA τ) (hD : D.WF)
    (symOf : String → Option Nat) (pq : σ × τ) (hpq : pq ∈ ENFA.prod P.states D.states)
    (y : σ × τ) (hy : y ∈ (PDA.interNext P D symOf pq).map (·.2.2.2.1)) :
    y ∈ ENFA.prod P.states D.states := by
  obtain ⟨p, q⟩ := pq
  obtain ⟨_, hq⟩ := (mem_prod _ _ _ _).mp hpq
  obtain ⟨e, he, rfl⟩ := List.mem_map.mp hy
  obtain ⟨a, x, q', push, d', rfl, ht, _, hd⟩ := (PDA.ToCFG.mem_interNext P D symOf (p, q) e).mp he
  refine (mem_prod _ _ _ _).mpr ⟨hP.dst _ ht, ?_⟩
  rcases hd with ⟨_, rfl⟩ | ⟨c, k, _, _, _, hdd⟩
  · exact hq
  · exact hD.delta_dst _ hdd

/-- the product exploration of `PDA.intersection` never queues a pair twice -/
theorem pda_inter_bfs_isSome (P : PDA σ γ) (hP : P.WF) (D : ENFA τ) (hD : D.WF)
    (symOf : String → Option Nat) (s : σ) (d : τ) (hs : s ∈ P.states) (hd : d ∈ D.states)
    (fuel : Nat) (hf : P.states.length * D.states.length ≤ fuel) :
    (bfs (fun pq => (PDA.interNext P D symOf pq).map (·.2.2.2.1)) fuel [(s, d)]).isSome := by
  unfold bfs
  have hsd : (s, d) ∈ ENFA.prod P.states D.states := (mem_prod _ _ _ _).mpr ⟨hs, hd⟩
  rw [eraseDups_singleton]
  apply bfsK_isSome_inv id _ (ENFA.prod P.states D.states) (· ∈ ENFA.prod P.states D.states)
  · intro x y hx hy
    have := pda_interNext_states P hP D hD symOf x hx y hy
    exact ⟨this, this⟩
  · simp
  · intro z hz
    simp only [List.mem_singleton] at hz
    subst hz; exact hsd
  · intro z hz
    simp only [List.mem_singleton] at hz
    subst hz; exact hsd
  · rw [length_prod]
    simp only [List.length_cons, List.length_nil]
    omega

theorem pda_inter_isSome (P : PDA σ γ) (hP : P.WF) (D : ENFA τ) (hD : D.WF)
    (symOf : String → Option Nat) (hs : P.start.isSome) (hd : D.starts ≠ [])
    (fuel : Nat) (hf : P.states.length * D.states.length ≤ fuel) :
    (P.inter D symOf fuel).isSome := by
  obtain ⟨s, hs⟩ := Option.isSome_iff_exists.mp hs
  obtain ⟨d, ds, hds⟩ := List.exists_cons_of_ne_nil hd
  have hd0 : D.starts.head? = some d := by rw [hds]; rfl
  unfold PDA.inter
  rw [hs, hd0]
  simp only [Option.isSome_map]
  exact pda_inter_bfs_isSome P hP D hD symOf s d (hP.start s hs)
    (hD.starts_sub d (by rw [hds]; exact List.mem_cons_self)) fuel hf

/-- without a start state on either side the model has no product to build -/
theorem pda_inter_none (P : PDA σ γ) (D : ENFA τ) (symOf : String → Option Nat) (fuel : Nat)
    (h : P.start = none ∨ D.starts = []) : P.inter D symOf fuel = none := by
  unfold PDA.inter
  rcases h with h | h
  · rw [h]
  · rw [h]; cases P.start <;> rfl

end PDAInter

/-! ### (T4) `CFG.interD` -/

section InterD
variable {τ : Type} [DecidableEq τ]

/-- the only fuelled part of `CFG.intersection` is the normal form: two rounds -/
theorem interD_isSome (G : CFG) (D : ENFA τ) (symOf : String → Option Nat) (nm : τ → String)
    (fuel : Nat) (hf : 2 ≤ fuel) : (G.interD D symOf nm fuel).isSome := by
  unfold CFG.interD
  split
  · rfl
  · obtain ⟨N, hN⟩ := Option.isSome_iff_exists.mp (CFG.toNormalForm_isSome G fuel hf)
    rw [hN]
    rfl

end InterD

end Pfl.Term2
