/-
Helper lemmas for C10 (substitution and the closure operations built on it).
-/
import Pfl.Proofs.CFGBase
import Pfl.Proofs.CFGClean
import Pfl.Proofs.CFGCNF
import Pfl.Props.C09_Clean
namespace Pfl
namespace CFG
namespace Sub

/-! ### fresh names `v#SUBS#i` -/

def sname (v : String) (i : Nat) : String := v ++ "#SUBS#" ++ toString i

theorem split_last {α : Type} (c : α) (a a' d d' : List α) (hd : c ∉ d) (hd' : c ∉ d')
    (h : a ++ c :: d = a' ++ c :: d') : a = a' ∧ d = d' := by
  rcases List.append_eq_append_iff.1 h with ⟨x, h1, h2⟩ | ⟨x, h1, h2⟩
  · cases x with
    | nil => simp at h1 h2; exact ⟨h1.symm, h2⟩
    | cons y x =>
      simp only [List.cons_append, List.cons.injEq] at h2
      exact absurd (h2.2 ▸ (by simp : c ∈ x ++ c :: d')) hd
  · cases x with
    | nil => simp at h1 h2; exact ⟨h1, h2.symm⟩
    | cons y x =>
      simp only [List.cons_append, List.cons.injEq] at h2
      exact absurd (h2.2 ▸ (by simp : c ∈ x ++ c :: d)) hd'

theorem hash_not_mem_digits (i : Nat) : '#' ∉ Nat.toDigits 10 i := by
  intro h
  have := Nat.isDigit_of_mem_toDigits (by decide) (by decide) h
  exact absurd this (by decide)

theorem sname_inj {v v' : String} {i j : Nat} (h : sname v i = sname v' j) : v = v' ∧ i = j := by
  have h2 := congrArg String.toList h
  simp only [sname, String.toList_append, Nat.toString_eq_repr, Nat.toList_repr] at h2
  have e : "#SUBS#".toList = ['#', 'S', 'U', 'B', 'S'] ++ ['#'] := by decide
  rw [e] at h2
  simp only [← List.append_assoc] at h2
  simp only [List.append_assoc _ ['#'] _, List.singleton_append] at h2
  obtain ⟨h3, h4⟩ := split_last '#' _ _ _ _ (hash_not_mem_digits i) (hash_not_mem_digits j) h2
  constructor
  · exact String.toList_injective (List.append_cancel_right h3)
  · have := congrArg (fun l => Nat.ofDigitChars 10 l 0) h4
    simpa using this

/-! ### rename tables -/

theorem mem_renameTable {vars : List String} {idx : Nat} {e : String × String}
    (h : e ∈ renameTable vars idx) : e.1 ∈ vars ∧ ∃ i, i < vars.length ∧ e.2 = sname e.1 (idx + i) := by
  unfold renameTable at h
  rw [List.mem_map] at h
  obtain ⟨⟨v, i⟩, hm, rfl⟩ := h
  have h1 := (List.of_mem_zip hm).1
  have h2 := (List.of_mem_zip hm).2
  simp only [List.mem_range] at h2
  exact ⟨h1, i, h2, rfl⟩

theorem renameTable_fst (vars : List String) (idx : Nat) :
    (renameTable vars idx).map (·.1) = vars := by
  unfold renameTable
  rw [List.map_map]
  have : ((fun x : String × String => x.1) ∘ fun x : String × Nat =>
      match x with | (v, i) => (v, v ++ "#SUBS#" ++ toString (idx + i))) = (·.1) := by
    funext x; rfl
  rw [this, List.map_fst_zip]
  simp

theorem find_renameTable_none {vars : List String} {idx : Nat} {v : String} (h : v ∉ vars) :
    (renameTable vars idx).find? (fun e => e.1 = v) = none := by
  rw [List.find?_eq_none]
  intro e he
  have := (mem_renameTable he).1
  simp only [decide_eq_true_eq]
  rintro rfl
  exact h this

theorem find_renameTable_some {vars : List String} {idx : Nat} {v : String} (h : v ∈ vars) :
    ∃ i, i < vars.length ∧
      (renameTable vars idx).find? (fun e => e.1 = v) = some (v, sname v (idx + i)) := by
  cases hf : (renameTable vars idx).find? (fun e => e.1 = v) with
  | none =>
    rw [List.find?_eq_none] at hf
    rw [← renameTable_fst vars idx, List.mem_map] at h
    obtain ⟨e, he, rfl⟩ := h
    exact absurd (hf e he) (by simp)
  | some e =>
    have h1 := List.mem_of_find?_eq_some hf
    have h2 := List.find?_some hf
    simp only [decide_eq_true_eq] at h2
    obtain ⟨_, i, hi, h3⟩ := mem_renameTable h1
    refine ⟨i, hi, ?_⟩
    subst h2
    rw [← h3]

theorem lookupName_mem {vars : List String} {idx : Nat} {v : String} (h : v ∈ vars) :
    ∃ i, i < vars.length ∧ lookupName (renameTable vars idx) v = sname v (idx + i) := by
  obtain ⟨i, hi, hf⟩ := find_renameTable_some (idx := idx) h
  exact ⟨i, hi, by simp [lookupName, hf]⟩

theorem renameSym_var (tbl fin : List (String × String)) (v : String) :
    renameSym tbl fin (.var v) = .var (lookupName tbl v) := by
  simp only [renameSym, lookupName]
  cases tbl.find? (fun e => e.1 = v) <;> rfl

theorem renameSym_ter_none {tbl fin : List (String × String)} {t : String}
    (h2 : fin.find? (fun e => e.1 = t) = none) :
    renameSym tbl fin (.ter t) = .ter t := by
  simp [renameSym, h2]

theorem renameSym_ter_some {tbl fin : List (String × String)} {t : String} {e : String × String}
    (h2 : fin.find? (fun e => e.1 = t) = some e) :
    renameSym tbl fin (.ter t) = .var e.2 := by
  simp [renameSym, h2]

/-! ### the structure of `substitute` -/

/-- the operands with the first index of their block of renamed variables -/
def blocks : Nat → List (String × CFG) → List (String × CFG × Nat)
  | _, [] => []
  | idx, (t, H) :: rest => (t, H, idx) :: blocks (idx + H.vars.length) rest

def blkTbl (b : String × CFG × Nat) : List (String × String) := renameTable b.2.1.vars b.2.2

def blkProds (b : String × CFG × Nat) : List Prod :=
  b.2.1.prods.map fun p => (lookupName (blkTbl b) p.1, p.2.map (renameSym (blkTbl b) []))

def blkFin (b : String × CFG × Nat) : List (String × String) :=
  match b.2.1.start with
  | some s => [(b.1, lookupName (blkTbl b) s)]
  | none => []

theorem fold_eq (f : Nat × List Prod × List (String × String) → String × CFG →
      Nat × List Prod × List (String × String))
    (hf : ∀ idx prods final t H, f (idx, prods, final) (t, H) =
      (idx + H.vars.length, prods ++ blkProds (t, H, idx), final ++ blkFin (t, H, idx))) :
    ∀ (subst : List (String × CFG)) (idx : Nat) (prods : List Prod) (final : List (String × String)),
      ∃ n, subst.foldl f (idx, prods, final) =
        (n, prods ++ (blocks idx subst).flatMap blkProds, final ++ (blocks idx subst).flatMap blkFin) := by
  intro subst
  induction subst with
  | nil => intro idx prods final; exact ⟨idx, by simp [blocks]⟩
  | cons tc rest ih =>
    intro idx prods final
    obtain ⟨t, H⟩ := tc
    rw [List.foldl_cons, hf]
    obtain ⟨n, hn⟩ := ih (idx + H.vars.length) (prods ++ blkProds (t, H, idx)) (final ++ blkFin (t, H, idx))
    exact ⟨n, by rw [hn]; simp [blocks]⟩

def recvTbl (G : CFG) : List (String × String) := renameTable G.vars 0

def finalOf (G : CFG) (subst : List (String × CFG)) : List (String × String) :=
  (blocks G.vars.length subst).flatMap blkFin

def ownProds (G : CFG) (subst : List (String × CFG)) : List Prod :=
  G.prods.map fun p => (lookupName (recvTbl G) p.1, p.2.map (renameSym (recvTbl G) (finalOf G subst)))

theorem substitute_prods (G : CFG) (subst : List (String × CFG)) :
    (G.substitute subst).prods =
      ((blocks G.vars.length subst).flatMap blkProds ++ ownProds G subst).eraseDups := by
  unfold substitute
  simp only
  generalize hfold : List.foldl _ (G.vars.length, ([] : List Prod), ([] : List (String × String))) subst = r
  obtain ⟨n, hn⟩ : ∃ n, r = (n, [] ++ (blocks G.vars.length subst).flatMap blkProds,
      [] ++ (blocks G.vars.length subst).flatMap blkFin) := by
    rw [← hfold]
    refine fold_eq _ ?_ _ _ _ _
    intros; rfl
  subst hn
  rfl

theorem substitute_start (G : CFG) (subst : List (String × CFG)) :
    (G.substitute subst).start = G.start.map (lookupName (recvTbl G)) := rfl

theorem mem_substitute_prods (G : CFG) (subst : List (String × CFG)) (p : Prod) :
    p ∈ (G.substitute subst).prods ↔
      (∃ b ∈ blocks G.vars.length subst, p ∈ blkProds b) ∨ p ∈ ownProds G subst := by
  rw [substitute_prods, List.mem_eraseDups, List.mem_append, List.mem_flatMap]

/-! ### blocks -/

theorem mem_blocks {b : String × CFG × Nat} : ∀ {subst : List (String × CFG)} {idx : Nat},
    b ∈ blocks idx subst → (b.1, b.2.1) ∈ subst ∧ idx ≤ b.2.2 := by
  intro subst
  induction subst with
  | nil => intro idx h; simp [blocks] at h
  | cons tc rest ih =>
    intro idx h
    obtain ⟨t, H⟩ := tc
    simp only [blocks, List.mem_cons] at h
    rcases h with rfl | h
    · exact ⟨by simp, Nat.le_refl _⟩
    · obtain ⟨h1, h2⟩ := ih h
      exact ⟨List.mem_cons_of_mem _ h1, by omega⟩

theorem blocks_of_mem {t : String} {H : CFG} : ∀ {subst : List (String × CFG)} (idx : Nat),
    (t, H) ∈ subst → ∃ i, (t, H, i) ∈ blocks idx subst := by
  intro subst
  induction subst with
  | nil => intro idx h; simp at h
  | cons tc rest ih =>
    intro idx h
    obtain ⟨t0, H0⟩ := tc
    rcases List.mem_cons.1 h with h | h
    · simp only [Prod.mk.injEq] at h
      obtain ⟨rfl, rfl⟩ := h
      exact ⟨idx, by simp [blocks]⟩
    · obtain ⟨i, hi⟩ := ih (idx + H0.vars.length) h
      exact ⟨i, by simp [blocks, hi]⟩

theorem blocks_overlap {b b' : String × CFG × Nat} {j : Nat} :
    ∀ {subst : List (String × CFG)} {idx : Nat},
    b ∈ blocks idx subst → b' ∈ blocks idx subst →
    b.2.2 ≤ j → j < b.2.2 + b.2.1.vars.length → b'.2.2 ≤ j → j < b'.2.2 + b'.2.1.vars.length →
    b = b' := by
  intro subst
  induction subst with
  | nil => intro idx h; simp [blocks] at h
  | cons tc rest ih =>
    intro idx h h' h1 h2 h3 h4
    obtain ⟨t, H⟩ := tc
    simp only [blocks, List.mem_cons] at h h'
    rcases h with rfl | h <;> rcases h' with rfl | h'
    · rfl
    · have := (mem_blocks h').2
      simp only at h2
      omega
    · have := (mem_blocks h).2
      simp only at h4
      omega
    · exact ih h h' h1 h2 h3 h4

theorem find_fin_some {t : String} {H : CFG} : ∀ {subst : List (String × CFG)} (idx : Nat),
    (subst.map (·.1)).Nodup → (∀ e ∈ subst, e.2.start ≠ none) → (t, H) ∈ subst →
    ∃ i s, (t, H, i) ∈ blocks idx subst ∧ H.start = some s ∧
      ((blocks idx subst).flatMap blkFin).find? (fun e => e.1 = t) =
        some (t, lookupName (blkTbl (t, H, i)) s) := by
  intro subst
  induction subst with
  | nil => intro idx _ _ h; simp at h
  | cons tc rest ih =>
    intro idx hnd hst h
    obtain ⟨t0, H0⟩ := tc
    simp only [List.map_cons, List.nodup_cons] at hnd
    have hs0' : H0.start ≠ none := hst (t0, H0) (by simp)
    obtain ⟨s0, hs0⟩ := Option.ne_none_iff_exists'.1 hs0'
    rcases List.mem_cons.1 h with h | h
    · simp only [Prod.mk.injEq] at h
      obtain ⟨rfl, rfl⟩ := h
      refine ⟨idx, s0, by simp [blocks], hs0, ?_⟩
      simp [blocks, blkFin, hs0]
    · have hne : t0 ≠ t := by
        rintro rfl
        exact hnd.1 (List.mem_map.2 ⟨_, h, rfl⟩)
      obtain ⟨i, s, h1, h2, h3⟩ := ih (idx + H0.vars.length) hnd.2
        (fun e he => hst e (List.mem_cons_of_mem _ he)) h
      refine ⟨i, s, by simp [blocks, h1], h2, ?_⟩
      simp only [blocks, List.flatMap_cons]
      rw [List.find?_append]
      have : List.find? (fun e => decide (e.1 = t)) (blkFin (t0, H0, idx)) = none := by
        simp [blkFin, hs0, hne]
      rw [this, h3]
      rfl

theorem find_fin_none {t : String} {subst : List (String × CFG)} (idx : Nat)
    (h : t ∉ subst.map (·.1)) :
    ((blocks idx subst).flatMap blkFin).find? (fun e => e.1 = t) = none := by
  rw [List.find?_eq_none]
  intro e he
  rw [List.mem_flatMap] at he
  obtain ⟨b, hb, he⟩ := he
  simp only [decide_eq_true_eq]
  rintro rfl
  apply h
  have h1 := (mem_blocks hb).1
  unfold blkFin at he
  split at he
  · simp only [List.mem_singleton] at he
    rw [he]
    exact List.mem_map.2 ⟨_, h1, rfl⟩
  · simp at he

/-! ### disjointness of the renamed blocks -/

theorem lookup_blk_eq {subst : List (String × CFG)} {idx : Nat} {b b' : String × CFG × Nat}
    {v v' : String} (hb : b ∈ blocks idx subst) (hb' : b' ∈ blocks idx subst)
    (hv : v ∈ b.2.1.vars) (hv' : v' ∈ b'.2.1.vars)
    (h : lookupName (blkTbl b) v = lookupName (blkTbl b') v') : b = b' ∧ v = v' := by
  obtain ⟨i, hi, e⟩ := lookupName_mem (idx := b.2.2) hv
  obtain ⟨i', hi', e'⟩ := lookupName_mem (idx := b'.2.2) hv'
  unfold blkTbl at h
  rw [e, e'] at h
  obtain ⟨h1, h2⟩ := sname_inj h
  exact ⟨blocks_overlap (j := b.2.2 + i) hb hb' (by omega) (by omega) (by omega) (by omega), h1⟩

theorem lookup_blk_ne_recv {G : CFG} {subst : List (String × CFG)} {b : String × CFG × Nat}
    {v v' : String} (hb : b ∈ blocks G.vars.length subst)
    (hv : v ∈ b.2.1.vars) (hv' : v' ∈ G.vars) :
    lookupName (blkTbl b) v ≠ lookupName (recvTbl G) v' := by
  obtain ⟨i, hi, e⟩ := lookupName_mem (idx := b.2.2) hv
  obtain ⟨i', hi', e'⟩ := lookupName_mem (idx := 0) hv'
  unfold blkTbl recvTbl
  rw [e, e']
  intro h
  have := (sname_inj h).2
  have := (mem_blocks hb).2
  omega

theorem lookup_recv_inj {G : CFG} {v v' : String} (hv : v ∈ G.vars) (hv' : v' ∈ G.vars)
    (h : lookupName (recvTbl G) v = lookupName (recvTbl G) v') : v = v' := by
  obtain ⟨i, hi, e⟩ := lookupName_mem (idx := 0) hv
  obtain ⟨i', hi', e'⟩ := lookupName_mem (idx := 0) hv'
  unfold recvTbl at h
  rw [e, e'] at h
  exact (sname_inj h).1

/-! ### operands -/

def Valid (H : CFG) : Sym → Prop
  | .var v => v ∈ H.vars
  | .ter t => t ∈ H.ters

theorem valid_of_wf {H : CFG} (hH : H.WF) {p : Prod} (hp : p ∈ H.prods) : ∀ s ∈ p.2, Valid H s := by
  intro s hs
  cases s with
  | var v => exact hH.var_mem p hp v hs
  | ter t => exact hH.ter_mem p hp t hs

theorem renameSym_op_ter (tbl : List (String × String)) (t : String) :
    renameSym tbl [] (.ter t) = .ter t :=
  renameSym_ter_none (by simp)

theorem op_fwd {G : CFG} {subst : List (String × CFG)} {b : String × CFG × Nat}
    (hb : b ∈ blocks G.vars.length subst) (hwf : b.2.1.WF) :
    (∀ s w, b.2.1.Gen s w → Valid b.2.1 s → (G.substitute subst).Gen (renameSym (blkTbl b) [] s) w) ∧
    (∀ u w, b.2.1.GenList u w → (∀ s ∈ u, Valid b.2.1 s) →
      (G.substitute subst).GenList (u.map (renameSym (blkTbl b) [])) w) := by
  apply Clean.gen_ind
  · intro t _
    rw [renameSym_op_ter]
    exact .ter t
  · intro h body w hp _ ih _
    rw [renameSym_var]
    refine .var (body := body.map (renameSym (blkTbl b) [])) ?_ (ih (valid_of_wf hwf hp))
    rw [mem_substitute_prods]
    exact Or.inl ⟨b, hb, List.mem_map.2 ⟨_, hp, rfl⟩⟩
  · intro _; exact .nil
  · intro s u w₁ w₂ _ _ ih₁ ih₂ hv
    rw [List.map_cons]
    exact .cons (ih₁ (hv s (by simp))) (ih₂ (fun x hx => hv x (List.mem_cons_of_mem _ hx)))

theorem op_bwd {G : CFG} {subst : List (String × CFG)} (hG : G.WF)
    (hwfs : ∀ e ∈ subst, e.2.WF)
    {b : String × CFG × Nat} (hb : b ∈ blocks G.vars.length subst) :
    (∀ s' w, (G.substitute subst).Gen s' w → ∀ s, Valid b.2.1 s → s' = renameSym (blkTbl b) [] s →
      b.2.1.Gen s w) ∧
    (∀ u' w, (G.substitute subst).GenList u' w → ∀ u, (∀ s ∈ u, Valid b.2.1 s) →
      u' = u.map (renameSym (blkTbl b) []) → b.2.1.GenList u w) := by
  have hwf : b.2.1.WF := hwfs _ (mem_blocks hb).1
  apply Clean.gen_ind
  · intro t s hs e
    cases s with
    | var v => rw [renameSym_var] at e; cases e
    | ter t' =>
      rw [renameSym_op_ter] at e
      cases e
      exact .ter t
  · intro h' body' w hp _ ih s hs e
    cases s with
    | ter t' => rw [renameSym_op_ter] at e; cases e
    | var v =>
      rw [renameSym_var] at e
      simp only [Sym.var.injEq] at e
      rw [mem_substitute_prods] at hp
      rcases hp with ⟨b', hb', hp⟩ | hp
      · unfold blkProds at hp
        rw [List.mem_map] at hp
        obtain ⟨q, hq, hqe⟩ := hp
        simp only [Prod.mk.injEq] at hqe
        have hwf' : b'.2.1.WF := hwfs _ (mem_blocks hb').1
        have := lookup_blk_eq hb' hb (hwf'.head_mem q hq) hs (hqe.1.trans e)
        obtain ⟨rfl, rfl⟩ := this
        exact .var (show (q.1, q.2) ∈ _ from hq) (ih q.2 (valid_of_wf hwf hq) hqe.2.symm)
      · unfold ownProds at hp
        rw [List.mem_map] at hp
        obtain ⟨q, hq, hqe⟩ := hp
        simp only [Prod.mk.injEq] at hqe
        exact absurd (e.symm.trans hqe.1.symm) (lookup_blk_ne_recv hb hs (hG.head_mem q hq))
  · intro u _ e
    cases u with
    | nil => exact .nil
    | cons _ _ => simp at e
  · intro s' u' w₁ w₂ _ _ ih₁ ih₂ u hv e
    cases u with
    | nil => simp at e
    | cons s u =>
      simp only [List.map_cons, List.cons.injEq] at e
      exact .cons (ih₁ s (hv s (by simp)) e.1) (ih₂ u (fun x hx => hv x (List.mem_cons_of_mem _ hx)) e.2)

/-! ### substituted words (copy of `SubstWord` of the Props file) -/

inductive SW (subst : List (String × CFG)) : List String → List String → Prop
  | nil : SW subst [] []
  | keep {t : String} {u w : List String} :
      (∀ e ∈ subst, e.1 ≠ t) → SW subst u w → SW subst (t :: u) (t :: w)
  | repl {t : String} {H : CFG} {v u w : List String} :
      (t, H) ∈ subst → H.Lang v → SW subst u w → SW subst (t :: u) (v ++ w)

theorem sw_nil_inv {subst : List (String × CFG)} {w : List String} (h : SW subst [] w) : w = [] := by
  cases h; rfl

theorem sw_cons_inv {subst : List (String × CFG)} {t : String} {u w : List String}
    (h : SW subst (t :: u) w) :
    ((∀ e ∈ subst, e.1 ≠ t) ∧ ∃ w', w = t :: w' ∧ SW subst u w') ∨
    (∃ H v w', (t, H) ∈ subst ∧ H.Lang v ∧ w = v ++ w' ∧ SW subst u w') := by
  cases h with
  | keep h1 h2 => exact Or.inl ⟨h1, _, rfl, h2⟩
  | repl h1 h2 h3 => exact Or.inr ⟨_, _, _, h1, h2, rfl, h3⟩

theorem sw_single_inv {subst : List (String × CFG)} {t : String} {w : List String}
    (h : SW subst [t] w) :
    ((∀ e ∈ subst, e.1 ≠ t) ∧ w = [t]) ∨ (∃ H, (t, H) ∈ subst ∧ H.Lang w) := by
  rcases sw_cons_inv h with ⟨h1, w', rfl, h2⟩ | ⟨H, v, w', h1, h2, rfl, h3⟩
  · rw [sw_nil_inv h2]; exact Or.inl ⟨h1, rfl⟩
  · rw [sw_nil_inv h3, List.append_nil]; exact Or.inr ⟨H, h1, h2⟩

theorem sw_append {subst : List (String × CFG)} {u₁ u₂ w₁ w₂ : List String}
    (h₁ : SW subst u₁ w₁) (h₂ : SW subst u₂ w₂) : SW subst (u₁ ++ u₂) (w₁ ++ w₂) := by
  induction h₁ with
  | nil => simpa using h₂
  | keep h _ ih => exact .keep h ih
  | repl h1 h2 _ ih =>
    rw [List.cons_append, List.append_assoc]
    exact .repl h1 h2 ih

theorem sw_append_inv {subst : List (String × CFG)} {u₁ u₂ : List String} :
    ∀ {w : List String}, SW subst (u₁ ++ u₂) w →
    ∃ w₁ w₂, w = w₁ ++ w₂ ∧ SW subst u₁ w₁ ∧ SW subst u₂ w₂ := by
  induction u₁ with
  | nil => intro w h; exact ⟨[], w, rfl, .nil, by simpa using h⟩
  | cons t u ih =>
    intro w h
    rw [List.cons_append] at h
    rcases sw_cons_inv h with ⟨h1, w', rfl, h2⟩ | ⟨H, v, w', h1, h2, rfl, h3⟩
    · obtain ⟨w₁, w₂, rfl, h3, h4⟩ := ih h2
      exact ⟨t :: w₁, w₂, rfl, .keep h1 h3, h4⟩
    · obtain ⟨w₁, w₂, rfl, h4, h5⟩ := ih h3
      exact ⟨v ++ w₁, w₂, by simp, .repl h1 h2 h4, h5⟩

theorem sw_single_keep {subst : List (String × CFG)} {t : String} (h : ∀ e ∈ subst, e.1 ≠ t) :
    SW subst [t] [t] := .keep h .nil

theorem sw_single_repl {subst : List (String × CFG)} {t : String} {H : CFG} {v : List String}
    (h : (t, H) ∈ subst) (hv : H.Lang v) : SW subst [t] v := by
  have := SW.repl h hv (SW.nil (subst := subst))
  simpa using this

/-! ### the receiver -/

/-- the hypotheses of the Props file, unbundled -/
structure OK (G : CFG) (subst : List (String × CFG)) : Prop where
  wfG : G.WF
  wfH : ∀ e ∈ subst, e.2.WF
  keys : (subst.map (·.1)).Nodup
  startH : ∀ e ∈ subst, e.2.start ≠ none

theorem recv_ter_keep {G : CFG} {subst : List (String × CFG)} {t : String}
    (hk : ∀ e ∈ subst, e.1 ≠ t) :
    renameSym (recvTbl G) (finalOf G subst) (.ter t) = .ter t := by
  refine renameSym_ter_none (find_fin_none _ ?_)
  intro h
  obtain ⟨e, he, rfl⟩ := List.mem_map.1 h
  exact hk e he rfl

theorem recv_ter_repl {G : CFG} {subst : List (String × CFG)} (ok : OK G subst) {t : String}
    {H : CFG} (hk : (t, H) ∈ subst) :
    ∃ i s, (t, H, i) ∈ blocks G.vars.length subst ∧ H.start = some s ∧
      renameSym (recvTbl G) (finalOf G subst) (.ter t) = .var (lookupName (blkTbl (t, H, i)) s) := by
  obtain ⟨i, s, h1, h2, h3⟩ := find_fin_some G.vars.length ok.keys ok.startH hk
  exact ⟨i, s, h1, h2, renameSym_ter_some h3⟩

theorem recv_fwd {G : CFG} {subst : List (String × CFG)} (ok : OK G subst) :
    (∀ s u, G.Gen s u → Valid G s → ∀ w, SW subst u w →
      (G.substitute subst).Gen (renameSym (recvTbl G) (finalOf G subst) s) w) ∧
    (∀ body u, G.GenList body u → (∀ s ∈ body, Valid G s) → ∀ w, SW subst u w →
      (G.substitute subst).GenList (body.map (renameSym (recvTbl G) (finalOf G subst))) w) := by
  apply Clean.gen_ind
  · intro t _ w hw
    rcases sw_single_inv hw with ⟨hk, rfl⟩ | ⟨H, hk, hl⟩
    · rw [recv_ter_keep hk]; exact .ter t
    · obtain ⟨i, s, hb, hs, e⟩ := recv_ter_repl ok hk
      rw [e]
      obtain ⟨s', hs', hg⟩ := (lang_iff_gen H w).1 hl
      rw [hs] at hs'
      cases hs'
      have := (op_fwd (G := G) hb (ok.wfH _ hk)).1 _ _ hg
        ((ok.wfH _ hk).start_mem s hs)
      rwa [renameSym_var] at this
  · intro h body u hp _ ih _ w hw
    rw [renameSym_var]
    refine .var (body := body.map (renameSym (recvTbl G) (finalOf G subst))) ?_
      (ih (valid_of_wf ok.wfG hp) w hw)
    rw [mem_substitute_prods]
    exact Or.inr (List.mem_map.2 ⟨_, hp, rfl⟩)
  · intro _ w hw
    rw [sw_nil_inv hw]; exact .nil
  · intro s u w₁ w₂ _ _ ih₁ ih₂ hv w hw
    obtain ⟨x₁, x₂, rfl, h1, h2⟩ := sw_append_inv hw
    rw [List.map_cons]
    exact .cons (ih₁ (hv s (by simp)) _ h1) (ih₂ (fun x hx => hv x (List.mem_cons_of_mem _ hx)) _ h2)

theorem recv_bwd {G : CFG} {subst : List (String × CFG)} (ok : OK G subst) :
    (∀ s' w, (G.substitute subst).Gen s' w → ∀ s, Valid G s →
      s' = renameSym (recvTbl G) (finalOf G subst) s → ∃ u, G.Gen s u ∧ SW subst u w) ∧
    (∀ u' w, (G.substitute subst).GenList u' w → ∀ body, (∀ s ∈ body, Valid G s) →
      u' = body.map (renameSym (recvTbl G) (finalOf G subst)) →
      ∃ u, G.GenList body u ∧ SW subst u w) := by
  apply Clean.gen_ind
  · intro t s hs e
    cases s with
    | var v => rw [renameSym_var] at e; cases e
    | ter t' =>
      by_cases hk : ∀ e ∈ subst, e.1 ≠ t'
      · rw [recv_ter_keep hk] at e
        cases e
        exact ⟨[t], .ter t, sw_single_keep hk⟩
      · simp only [ne_eq, not_forall, not_not] at hk
        obtain ⟨⟨t'', H⟩, he, rfl⟩ := hk
        obtain ⟨i, s, _, _, e'⟩ := recv_ter_repl ok he
        rw [e'] at e; cases e
  · intro h' body' w hp hgl ih s hs e
    cases s with
    | var v =>
      rw [renameSym_var] at e
      simp only [Sym.var.injEq] at e
      rw [mem_substitute_prods] at hp
      rcases hp with ⟨b', hb', hp⟩ | hp
      · unfold blkProds at hp
        rw [List.mem_map] at hp
        obtain ⟨q, hq, hqe⟩ := hp
        simp only [Prod.mk.injEq] at hqe
        have hwf' : b'.2.1.WF := ok.wfH _ (mem_blocks hb').1
        exact absurd (hqe.1.trans e) (lookup_blk_ne_recv hb' (hwf'.head_mem q hq) hs)
      · unfold ownProds at hp
        rw [List.mem_map] at hp
        obtain ⟨q, hq, hqe⟩ := hp
        simp only [Prod.mk.injEq] at hqe
        have := lookup_recv_inj (ok.wfG.head_mem q hq) hs (hqe.1.trans e)
        subst this
        obtain ⟨u, hu, hsw⟩ := ih q.2 (valid_of_wf ok.wfG hq) hqe.2.symm
        exact ⟨u, .var (show (q.1, q.2) ∈ _ from hq) hu, hsw⟩
    | ter t =>
      by_cases hk : ∀ e ∈ subst, e.1 ≠ t
      · rw [recv_ter_keep hk] at e
        cases e
      · simp only [ne_eq, not_forall, not_not] at hk
        obtain ⟨⟨t'', H⟩, he, rfl⟩ := hk
        obtain ⟨i, sH, hb, hsH, e'⟩ := recv_ter_repl ok he
        rw [e'] at e
        simp only [Sym.var.injEq] at e
        have hg : (G.substitute subst).Gen (.var h') w := .var hp hgl
        have := (op_bwd ok.wfG ok.wfH hb).1 _ _ hg (.var sH)
          ((ok.wfH _ he).start_mem sH hsH) (by rw [renameSym_var, e])
        have hl : H.Lang w := (lang_iff_gen H w).2 ⟨sH, hsH, this⟩
        exact ⟨[t''], .ter t'', sw_single_repl he hl⟩
  · intro body _ e
    cases body with
    | nil => exact ⟨[], .nil, .nil⟩
    | cons _ _ => simp at e
  · intro s' u' w₁ w₂ _ _ ih₁ ih₂ body hv e
    cases body with
    | nil => simp at e
    | cons s body =>
      simp only [List.map_cons, List.cons.injEq] at e
      obtain ⟨u₁, h1, h2⟩ := ih₁ s (hv s (by simp)) e.1
      obtain ⟨u₂, h3, h4⟩ := ih₂ body (fun x hx => hv x (List.mem_cons_of_mem _ hx)) e.2
      exact ⟨u₁ ++ u₂, .cons h1 h3, sw_append h2 h4⟩

theorem substitute_lang_sw {G : CFG} {subst : List (String × CFG)} (ok : OK G subst)
    (w : List String) : (G.substitute subst).Lang w ↔ ∃ u, G.Lang u ∧ SW subst u w := by
  rw [lang_iff_gen, substitute_start]
  constructor
  · rintro ⟨s', hs', hg⟩
    rw [Option.map_eq_some_iff] at hs'
    obtain ⟨s, hs, rfl⟩ := hs'
    obtain ⟨u, hu, hsw⟩ := (recv_bwd ok).1 _ _ hg (.var s) (ok.wfG.start_mem s hs)
      (by rw [renameSym_var])
    exact ⟨u, (lang_iff_gen G u).2 ⟨s, hs, hu⟩, hsw⟩
  · rintro ⟨u, hu, hsw⟩
    obtain ⟨s, hs, hg⟩ := (lang_iff_gen G u).1 hu
    refine ⟨lookupName (recvTbl G) s, by rw [hs]; rfl, ?_⟩
    have := (recv_fwd ok).1 _ _ hg (ok.wfG.start_mem s hs) w hsw
    rwa [renameSym_var] at this

/-! ### the template grammars -/

theorem unionT_prods : unionT.prods =
    [("#STARTUNION#", [.ter "#0UNION#"]), ("#STARTUNION#", [.ter "#1UNION#"])] := rfl
theorem unionT_start : unionT.start = some "#STARTUNION#" := rfl
theorem concT_prods : concT.prods = [("#STARTCONC#", [.ter "#0CONC#", .ter "#1CONC#"])] := rfl
theorem concT_start : concT.start = some "#STARTCONC#" := rfl
theorem closT_prods : closT.prods =
    [("#STARTCLOS#", [.ter "#1CLOS#"]), ("#STARTCLOS#", [.var "#STARTCLOS#", .var "#STARTCLOS#"]),
     ("#STARTCLOS#", [])] := rfl
theorem closT_start : closT.start = some "#STARTCLOS#" := rfl
theorem posClosT_prods : posClosT.prods =
    [("#STARTPOSCLOS#", [.ter "#1POSCLOS#", .var "#VARPOSCLOS#"]),
     ("#VARPOSCLOS#", [.var "#VARPOSCLOS#", .var "#VARPOSCLOS#"]),
     ("#VARPOSCLOS#", [.ter "#1POSCLOS#"]), ("#VARPOSCLOS#", [])] := rfl
theorem posClosT_start : posClosT.start = some "#STARTPOSCLOS#" := rfl

theorem unionT_lang (u : List String) : unionT.Lang u ↔ u = ["#0UNION#"] ∨ u = ["#1UNION#"] := by
  rw [lang_iff_gen, unionT_start]
  simp only [Option.some.injEq, exists_eq_left', gen_var_iff, unionT_prods, List.mem_cons,
    Prod.mk.injEq, true_and, List.mem_nil_iff, or_false]
  constructor
  · rintro ⟨body, rfl | rfl, h⟩
    · exact Or.inl (gen_ter_iff.1 (genList_singleton.1 h))
    · exact Or.inr (gen_ter_iff.1 (genList_singleton.1 h))
  · rintro (rfl | rfl)
    · exact ⟨_, Or.inl rfl, genList_singleton.2 (.ter _)⟩
    · exact ⟨_, Or.inr rfl, genList_singleton.2 (.ter _)⟩

theorem concT_lang (u : List String) : concT.Lang u ↔ u = ["#0CONC#", "#1CONC#"] := by
  rw [lang_iff_gen, concT_start]
  simp only [Option.some.injEq, exists_eq_left', gen_var_iff, concT_prods, List.mem_cons,
    Prod.mk.injEq, true_and, List.mem_nil_iff, or_false]
  constructor
  · rintro ⟨body, rfl, h⟩
    obtain ⟨w₁, w₂, rfl, h1, h2⟩ := genList_cons_iff.1 h
    rw [gen_ter_iff.1 h1, gen_ter_iff.1 (genList_singleton.1 h2)]
    rfl
  · rintro rfl
    exact ⟨_, rfl, GenList.cons (.ter _) (genList_singleton.2 (.ter _))⟩

theorem closT_gen_fwd :
    (∀ s u, closT.Gen s u → (s = .ter "#1CLOS#" ∨ s = .var "#STARTCLOS#") →
      ∃ n, u = List.replicate n "#1CLOS#") ∧
    (∀ body u, closT.GenList body u → (∀ s ∈ body, s = .ter "#1CLOS#" ∨ s = .var "#STARTCLOS#") →
      ∃ n, u = List.replicate n "#1CLOS#") := by
  apply Clean.gen_ind
  · rintro t (h | h)
    · cases h; exact ⟨1, rfl⟩
    · cases h
  · intro h body u hp _ ih _
    apply ih
    rw [closT_prods] at hp
    simp only [List.mem_cons, Prod.mk.injEq, List.mem_nil_iff, or_false] at hp
    rcases hp with ⟨_, rfl⟩ | ⟨_, rfl⟩ | ⟨_, rfl⟩ <;> simp
  · intro _; exact ⟨0, rfl⟩
  · intro s body w₁ w₂ _ _ ih₁ ih₂ hv
    obtain ⟨n, rfl⟩ := ih₁ (hv s (by simp))
    obtain ⟨m, rfl⟩ := ih₂ (fun x hx => hv x (List.mem_cons_of_mem _ hx))
    exact ⟨n + m, by rw [List.replicate_append_replicate]⟩

theorem closT_gen_bwd (n : Nat) : closT.Gen (.var "#STARTCLOS#") (List.replicate n "#1CLOS#") := by
  induction n with
  | zero => exact .var (body := []) (by rw [closT_prods]; simp) .nil
  | succ n ih =>
    have h1 : closT.Gen (.var "#STARTCLOS#") ["#1CLOS#"] :=
      .var (body := [.ter "#1CLOS#"]) (by rw [closT_prods]; simp) (genList_singleton.2 (.ter _))
    have : closT.GenList [.var "#STARTCLOS#", .var "#STARTCLOS#"]
        (["#1CLOS#"] ++ List.replicate n "#1CLOS#") := .cons h1 (genList_singleton.2 ih)
    exact .var (body := [.var "#STARTCLOS#", .var "#STARTCLOS#"]) (by rw [closT_prods]; simp) this

theorem closT_lang (u : List String) : closT.Lang u ↔ ∃ n, u = List.replicate n "#1CLOS#" := by
  rw [lang_iff_gen, closT_start]
  simp only [Option.some.injEq, exists_eq_left']
  constructor
  · intro h; exact closT_gen_fwd.1 _ _ h (Or.inr rfl)
  · rintro ⟨n, rfl⟩; exact closT_gen_bwd n

theorem posClosT_gen_fwd :
    (∀ s u, posClosT.Gen s u → (s = .ter "#1POSCLOS#" ∨ s = .var "#VARPOSCLOS#") →
      ∃ n, u = List.replicate n "#1POSCLOS#") ∧
    (∀ body u, posClosT.GenList body u →
      (∀ s ∈ body, s = .ter "#1POSCLOS#" ∨ s = .var "#VARPOSCLOS#") →
      ∃ n, u = List.replicate n "#1POSCLOS#") := by
  apply Clean.gen_ind
  · rintro t (h | h)
    · cases h; exact ⟨1, rfl⟩
    · cases h
  · intro h body u hp _ ih hs
    apply ih
    rcases hs with hs | hs
    · cases hs
    · cases hs
      rw [posClosT_prods] at hp
      simp only [List.mem_cons, Prod.mk.injEq, List.mem_nil_iff, or_false] at hp
      rcases hp with ⟨h0, _⟩ | ⟨_, rfl⟩ | ⟨_, rfl⟩ | ⟨_, rfl⟩
      · exact absurd h0 (by decide)
      all_goals simp
  · intro _; exact ⟨0, rfl⟩
  · intro s body w₁ w₂ _ _ ih₁ ih₂ hv
    obtain ⟨n, rfl⟩ := ih₁ (hv s (by simp))
    obtain ⟨m, rfl⟩ := ih₂ (fun x hx => hv x (List.mem_cons_of_mem _ hx))
    exact ⟨n + m, by rw [List.replicate_append_replicate]⟩

theorem posClosT_gen_bwd (n : Nat) :
    posClosT.Gen (.var "#VARPOSCLOS#") (List.replicate n "#1POSCLOS#") := by
  induction n with
  | zero => exact .var (body := []) (by rw [posClosT_prods]; simp) .nil
  | succ n ih =>
    have h1 : posClosT.Gen (.var "#VARPOSCLOS#") ["#1POSCLOS#"] :=
      .var (body := [.ter "#1POSCLOS#"]) (by rw [posClosT_prods]; simp) (genList_singleton.2 (.ter _))
    have : posClosT.GenList [.var "#VARPOSCLOS#", .var "#VARPOSCLOS#"]
        (["#1POSCLOS#"] ++ List.replicate n "#1POSCLOS#") := .cons h1 (genList_singleton.2 ih)
    exact .var (body := [.var "#VARPOSCLOS#", .var "#VARPOSCLOS#"]) (by rw [posClosT_prods]; simp) this

theorem posClosT_lang (u : List String) :
    posClosT.Lang u ↔ ∃ n, u = List.replicate (n + 1) "#1POSCLOS#" := by
  rw [lang_iff_gen, posClosT_start]
  simp only [Option.some.injEq, exists_eq_left']
  constructor
  · intro h
    obtain ⟨body, hp, hl⟩ := gen_var_iff.1 h
    rw [posClosT_prods] at hp
    simp only [List.mem_cons, Prod.mk.injEq, List.mem_nil_iff, or_false] at hp
    rcases hp with ⟨_, rfl⟩ | ⟨h0, _⟩ | ⟨h0, _⟩ | ⟨h0, _⟩
    · obtain ⟨w₁, w₂, rfl, h1, h2⟩ := genList_cons_iff.1 hl
      obtain ⟨n, rfl⟩ := posClosT_gen_fwd.1 _ _ (genList_singleton.1 h2) (Or.inr rfl)
      rw [gen_ter_iff.1 h1]
      exact ⟨n, rfl⟩
    all_goals exact absurd h0 (by decide)
  · rintro ⟨n, rfl⟩
    exact .var (body := [.ter "#1POSCLOS#", .var "#VARPOSCLOS#"]) (by rw [posClosT_prods]; simp)
      (GenList.cons (w₁ := ["#1POSCLOS#"]) (.ter _) (genList_singleton.2 (posClosT_gen_bwd n)))

/-! ### the four operations -/

theorem sw_replicate (T : String) (G : CFG) (n : Nat) : ∀ (w : List String),
    SW [(T, G)] (List.replicate n T) w ↔
      ∃ ws : List (List String), ws.length = n ∧ w = ws.flatten ∧ ∀ x ∈ ws, G.Lang x := by
  induction n with
  | zero =>
    intro w
    constructor
    · intro h
      exact ⟨[], rfl, by rw [sw_nil_inv h]; rfl, by simp⟩
    · rintro ⟨ws, hl, rfl, _⟩
      rw [List.length_eq_zero_iff.1 hl]
      exact .nil
  | succ n ih =>
    intro w
    rw [List.replicate_succ]
    constructor
    · intro h
      rcases sw_cons_inv h with ⟨h1, _⟩ | ⟨H, v, w', h1, h2, rfl, h3⟩
      · exact absurd rfl (h1 (T, G) (by simp))
      · simp only [List.mem_singleton, Prod.mk.injEq, true_and] at h1
        subst h1
        obtain ⟨ws, hl, rfl, hws⟩ := (ih w').1 h3
        refine ⟨v :: ws, by simp [hl], by simp, ?_⟩
        intro x hx
        rcases List.mem_cons.1 hx with rfl | hx
        · exact h2
        · exact hws x hx
    · rintro ⟨ws, hl, rfl, hws⟩
      cases ws with
      | nil => simp at hl
      | cons v ws =>
        simp only [List.length_cons, Nat.add_right_cancel_iff] at hl
        rw [List.flatten_cons]
        exact .repl (by simp) (hws v (by simp))
          ((ih _).2 ⟨ws, hl, rfl, fun x hx => hws x (List.mem_cons_of_mem _ hx)⟩)

theorem unionT_ok (G H : CFG) (hG : G.WF) (hH : H.WF) (sG : G.start ≠ none) (sH : H.start ≠ none) :
    OK unionT [("#0UNION#", G), ("#1UNION#", H)] where
  wfG := mk'_wf _ _ _ _
  wfH := by simp [hG, hH]
  keys := by simp only [List.map_cons, List.map_nil]; decide
  startH := by simp [sG, sH]

theorem concT_ok (G H : CFG) (hG : G.WF) (hH : H.WF) (sG : G.start ≠ none) (sH : H.start ≠ none) :
    OK concT [("#0CONC#", G), ("#1CONC#", H)] where
  wfG := mk'_wf _ _ _ _
  wfH := by simp [hG, hH]
  keys := by simp only [List.map_cons, List.map_nil]; decide
  startH := by simp [sG, sH]

theorem closT_ok (G : CFG) (hG : G.WF) (sG : G.start ≠ none) :
    OK closT [("#1CLOS#", G)] where
  wfG := mk'_wf _ _ _ _
  wfH := by simp [hG]
  keys := by simp only [List.map_cons, List.map_nil]; decide
  startH := by simp [sG]

theorem posClosT_ok (G : CFG) (hG : G.WF) (sG : G.start ≠ none) :
    OK posClosT [("#1POSCLOS#", G)] where
  wfG := mk'_wf _ _ _ _
  wfH := by simp [hG]
  keys := by simp only [List.map_cons, List.map_nil]; decide
  startH := by simp [sG]

theorem union_lang' (G H : CFG) (hG : G.WF) (hH : H.WF) (sG : G.start ≠ none) (sH : H.start ≠ none)
    (w : List String) : (G.union H).Lang w ↔ G.Lang w ∨ H.Lang w := by
  unfold union
  rw [substitute_lang_sw (unionT_ok G H hG hH sG sH)]
  simp only [unionT_lang]
  constructor
  · rintro ⟨u, rfl | rfl, h⟩
    · rcases sw_single_inv h with ⟨h1, _⟩ | ⟨K, h1, h2⟩
      · exact absurd rfl (h1 ("#0UNION#", G) (by simp))
      · simp only [List.mem_cons, Prod.mk.injEq, List.mem_nil_iff, or_false] at h1
        rcases h1 with ⟨_, rfl⟩ | ⟨h0, _⟩
        · exact Or.inl h2
        · exact absurd h0 (by decide)
    · rcases sw_single_inv h with ⟨h1, _⟩ | ⟨K, h1, h2⟩
      · exact absurd rfl (h1 ("#1UNION#", H) (by simp))
      · simp only [List.mem_cons, Prod.mk.injEq, List.mem_nil_iff, or_false] at h1
        rcases h1 with ⟨h0, _⟩ | ⟨_, rfl⟩
        · exact absurd h0 (by decide)
        · exact Or.inr h2
  · rintro (h | h)
    · exact ⟨_, Or.inl rfl, sw_single_repl (by simp) h⟩
    · exact ⟨_, Or.inr rfl, sw_single_repl (by simp) h⟩

theorem concatenate_lang' (G H : CFG) (hG : G.WF) (hH : H.WF) (sG : G.start ≠ none)
    (sH : H.start ≠ none)
    (w : List String) : (G.concatenate H).Lang w ↔ ∃ u v, w = u ++ v ∧ G.Lang u ∧ H.Lang v := by
  unfold concatenate
  rw [substitute_lang_sw (concT_ok G H hG hH sG sH)]
  simp only [concT_lang, exists_eq_left]
  constructor
  · intro h
    rcases sw_cons_inv h with ⟨h1, _⟩ | ⟨K, v, w', h1, h2, rfl, h3⟩
    · exact absurd rfl (h1 ("#0CONC#", G) (by simp))
    · simp only [List.mem_cons, Prod.mk.injEq, List.mem_nil_iff, or_false] at h1
      rcases h1 with ⟨_, rfl⟩ | ⟨h0, _⟩
      · rcases sw_single_inv h3 with ⟨h4, _⟩ | ⟨K', h4, h5⟩
        · exact absurd rfl (h4 ("#1CONC#", H) (by simp))
        · simp only [List.mem_cons, Prod.mk.injEq, List.mem_nil_iff, or_false] at h4
          rcases h4 with ⟨h0, _⟩ | ⟨_, rfl⟩
          · exact absurd h0 (by decide)
          · exact ⟨v, w', rfl, h2, h5⟩
      · exact absurd h0 (by decide)
  · rintro ⟨u, v, rfl, h1, h2⟩
    exact .repl (by simp) h1 (sw_single_repl (by simp) h2)

theorem closure_lang' (G : CFG) (hG : G.WF) (sG : G.start ≠ none)
    (w : List String) :
    G.closure.Lang w ↔ ∃ ws : List (List String), w = ws.flatten ∧ ∀ x ∈ ws, G.Lang x := by
  unfold closure
  rw [substitute_lang_sw (closT_ok G hG sG)]
  simp only [closT_lang]
  constructor
  · rintro ⟨u, ⟨n, rfl⟩, h⟩
    obtain ⟨ws, _, h1, h2⟩ := (sw_replicate _ _ _ _).1 h
    exact ⟨ws, h1, h2⟩
  · rintro ⟨ws, h1, h2⟩
    exact ⟨_, ⟨ws.length, rfl⟩, (sw_replicate _ _ _ _).2 ⟨ws, rfl, h1, h2⟩⟩

theorem posClosure_lang' (G : CFG) (hG : G.WF) (sG : G.start ≠ none)
    (w : List String) :
    G.posClosure.Lang w ↔
      ∃ ws : List (List String), ws ≠ [] ∧ w = ws.flatten ∧ ∀ x ∈ ws, G.Lang x := by
  unfold posClosure
  rw [substitute_lang_sw (posClosT_ok G hG sG)]
  simp only [posClosT_lang]
  constructor
  · rintro ⟨u, ⟨n, rfl⟩, h⟩
    obtain ⟨ws, h0, h1, h2⟩ := (sw_replicate _ _ _ _).1 h
    refine ⟨ws, ?_, h1, h2⟩
    rintro rfl
    simp at h0
  · rintro ⟨ws, h0, h1, h2⟩
    cases ws with
    | nil => exact absurd rfl h0
    | cons v ws =>
      exact ⟨_, ⟨ws.length, rfl⟩, (sw_replicate _ _ _ _).2 ⟨v :: ws, rfl, h1, h2⟩⟩

end Sub
end CFG
end Pfl
