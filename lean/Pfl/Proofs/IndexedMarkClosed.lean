/-
C17 (library loop), completeness half: a call that reports `was_modified = False` left the table
unchanged and the table is closed under the inferences of that rule; a table that contains the
initial marks and is closed under all rules marks the empty set for every non-terminal that
derives a terminal word with the empty stack.
-/
import Pfl.Proofs.IndexedMarkSound

namespace Pfl.IG.LibP
open Pfl Pfl.IG Pfl.IG.Lib Pfl.IG.Lem

/-! ### closure of a table under one rule (sets up to inclusion) -/

def DupClosed (T : Table) (a b c : String) : Prop :=
  ∀ E0 ∈ get T b, ∀ E1 ∈ get T c, ∃ E ∈ get T a, ∀ x ∈ E, x ∈ E0 ∨ x ∈ E1

def ProdClosed (G : IG) (T : Table) (a b f : String) : Prop :=
  ∀ E ∈ get T b, ∀ Q : String → Prop,
    (∀ C ∈ E, ∃ D ED, IRule.cons f C D ∈ G.rules ∧ ED ∈ get T D ∧ ∀ x ∈ ED, Q x) →
    ∃ E' ∈ get T a, ∀ x ∈ E', Q x

def RuleClosed (G : IG) (T : Table) : IRule → Prop
  | .dup a b c => DupClosed T a b c
  | .prod a b f => ProdClosed G T a b f
  | _ => True

theorem foldl_flag_mono {S X : Type} (f : S → X → S) (flag : S → Bool)
    (hmono : ∀ s x, flag s = true → flag (f s x) = true) :
    ∀ (l : List X) (s : S), flag s = true → flag (l.foldl f s) = true := by
  intro l
  induction l with
  | nil => intro s hs; exact hs
  | cons x l ih => intro s hs; exact ih _ (hmono s x hs)

/-! ### `_duplication_processing` -/

theorem dupInner_mono (start a b c : String) (E0 : SetS) (s : DupSt) (E1 : SetS)
    (h : s.mod = true) : (dupInner start a b c E0 s E1).mod = true := by
  unfold dupInner
  simp only []
  split
  · exact h
  · split
    · rfl
    · split <;> rfl

theorem dupInner_step (start a b c : String) (E0 : SetS) (s : DupSt) (E1 : SetS)
    (h : (dupInner start a b c E0 s E1).mod = false) :
    dupInner start a b c E0 s E1 = s ∧ dupTemp E0 E1 ∈ get s.T a := by
  unfold dupInner at h ⊢
  simp only [] at h ⊢
  split
  · rename_i hm; exact ⟨rfl, hm⟩
  · rename_i hm
    rw [if_neg hm] at h
    split at h
    · cases h
    · split at h <;> cases h

theorem dupOuter_mono (ord : List SetS → List SetS) (start a b c : String) (s : DupSt)
    (E0 : SetS) (h : s.mod = true) : (dupOuter ord start a b c s E0).mod = true := by
  unfold dupOuter
  simp only []
  exact foldl_flag_mono _ DupSt.mod (dupInner_mono start a b c E0) _ _ h

theorem dupOuter_step (ord : List SetS → List SetS) (start a b c : String) (T : Table)
    (E0 : SetS) (h : (dupOuter ord start a b c ⟨T, [], [], false, false⟩ E0).mod = false) :
    dupOuter ord start a b c ⟨T, [], [], false, false⟩ E0 = ⟨T, [], [], false, false⟩ ∧
      ∀ E1 ∈ ord (get T c), dupTemp E0 E1 ∈ get T a := by
  unfold dupOuter at h ⊢
  simp only [] at h ⊢
  obtain ⟨h1, h2⟩ := foldl_clean (dupInner start a b c E0) DupSt.mod
    (fun E1 => dupTemp E0 E1 ∈ get T a) ⟨T, [], [], false, false⟩
    (dupInner_mono start a b c E0)
    (fun E1 hE1 => dupInner_step start a b c E0 _ E1 hE1) (ord (get T c)) h
  rw [h1]
  exact ⟨rfl, h2⟩

theorem dupProcess_clean {ord : List SetS → List SetS} (hord : OrdOK ord) (start a b c : String)
    (T : Table) (h : (dupProcess ord start a b c T).2.1 = false) :
    (dupProcess ord start a b c T).1 = T ∧ DupClosed T a b c := by
  unfold dupProcess at h ⊢
  simp only [] at h ⊢
  obtain ⟨h1, h2⟩ := foldl_clean (dupOuter ord start a b c) DupSt.mod
    (fun E0 => ∀ E1 ∈ ord (get T c), dupTemp E0 E1 ∈ get T a) ⟨T, [], [], false, false⟩
    (dupOuter_mono ord start a b c)
    (fun E0 hE0 => dupOuter_step ord start a b c T E0 hE0) (ord (get T b)) h
  rw [h1]
  refine ⟨rfl, ?_⟩
  intro E0 hE0 E1 hE1
  exact ⟨_, h2 E0 ((hord _ _).mpr hE0) E1 ((hord _ _).mpr hE1), dupTemp_sub E0 E1⟩

/-! ### `addrec_ter`, `addrec_bis` -/

theorem addrecTer_clean (T : Table) (lt : List (String × String)) (a : String)
    (h : (addrecTer T lt a).2 = false) :
    addrecTer T lt a = (T, false) ∧ ∀ t ∈ leavesOf (choicesOf T lt), t ∈ get T a := by
  unfold addrecTer at h ⊢
  refine foldl_clean (fun (st : Table × Bool) t => if t ∈ get st.1 a then st else (add st.1 a t, true))
    (fun st => st.2) (fun t => t ∈ get T a) (T, false) ?_ ?_ _ h
  · intro s x hs
    split
    · exact hs
    · rfl
  · intro x hx
    simp only [] at hx ⊢
    split
    · rename_i hm; exact ⟨rfl, hm⟩
    · rename_i hm; rw [if_neg hm] at hx; cases hx

/-- the condition `frozenset(s_temp) == marked and len(marked) > 0` -/
def bisCond (lsets : List (String × String)) (E : SetS) : Bool :=
  E.all (fun c => (lsets.filter fun x => x.1 ∈ E).any fun x => x.1 = c) && !E.isEmpty

theorem addrecBisStep_mono (lsets : List (String × String)) (a : String) (s : Table × Bool)
    (E : SetS) (h : s.2 = true) : (addrecBisStep lsets a s E).2 = true := by
  unfold addrecBisStep
  simp only []
  split
  · simp [h]
  · exact h

theorem addrecBisStep_step (lsets : List (String × String)) (a : String) (T : Table) (E : SetS)
    (h : (addrecBisStep lsets a (T, false) E).2 = false) :
    addrecBisStep lsets a (T, false) E = (T, false) ∧
      (bisCond lsets E = true →
        ∀ t ∈ leavesOf (choicesOf T (lsets.filter fun x => x.1 ∈ E)), t ∈ get T a) := by
  unfold addrecBisStep at h ⊢
  simp only [] at h ⊢
  split
  · rename_i hc
    rw [if_pos hc] at h
    simp only [Bool.false_or] at h
    obtain ⟨h1, h2⟩ := addrecTer_clean T _ a h
    rw [h1]
    exact ⟨rfl, fun _ => h2⟩
  · rename_i hc
    refine ⟨rfl, ?_⟩
    intro hc'
    exact absurd hc' hc

theorem addrecBis_clean {ord : List SetS → List SetS} (hord : OrdOK ord) (T : Table)
    (lsets : List (String × String)) (a b : String) (h : (addrecBis ord T lsets a b).2 = false) :
    addrecBis ord T lsets a b = (T, false) ∧
      ∀ E ∈ get T b, bisCond lsets E = true →
        ∀ t ∈ leavesOf (choicesOf T (lsets.filter fun x => x.1 ∈ E)), t ∈ get T a := by
  unfold addrecBis at h ⊢
  obtain ⟨h1, h2⟩ := foldl_clean (addrecBisStep lsets a) (fun st => st.2)
    (fun E => bisCond lsets E = true →
        ∀ t ∈ leavesOf (choicesOf T (lsets.filter fun x => x.1 ∈ E)), t ∈ get T a) (T, false)
    (addrecBisStep_mono lsets a)
    (fun E hE => addrecBisStep_step lsets a T E hE) (ord (get T b)) h
  exact ⟨h1, fun E hE => h2 E ((hord _ _).mpr hE)⟩

/-! ### the 'is it useful' branch never resets `was_modified` -/

theorem usefulInner_mono (start a : String) (s : Table × Bool × Bool) (sub : SetS)
    (h : s.2.1 = true) : (usefulInner start a s sub).2.1 = true := by
  unfold usefulInner
  split
  · exact h
  · rfl

theorem usefulOuter_mono (ord : List SetS → List SetS) (start a : String)
    (s : Table × Bool × Bool) (x : String × String)
    (h : s.2.1 = true) : (usefulOuter ord start a s x).2.1 = true := by
  unfold usefulOuter
  split
  · exact h
  · exact foldl_flag_mono _ (fun (st : Table × Bool × Bool) => st.2.1) (usefulInner_mono start a) _ _ h

theorem usefulPart_mod (ord : List SetS → List SetS) (G : IG) (a b f : String) (r1 : Table × Bool)
    (h : r1.2 = true) : (usefulPart ord G a b f r1).2.1 = true := by
  unfold usefulPart
  split
  · exact foldl_flag_mono _ (fun (st : Table × Bool × Bool) => st.2.1) (usefulOuter_mono ord G.start a) _ _ h
  · exact h

theorem usefulInner_step (start a : String) (T : Table) (sub : SetS) :
    (usefulInner start a (T, false, false) sub).2.1 = true := by
  unfold usefulInner
  simp

theorem usefulOuter_step (ord : List SetS → List SetS) (start a : String) (T : Table)
    (x : String × String) (h : (usefulOuter ord start a (T, false, false) x).2.1 = false) :
    usefulOuter ord start a (T, false, false) x = (T, false, false) := by
  unfold usefulOuter at h ⊢
  simp only [Bool.false_eq_true, if_false] at h ⊢
  obtain ⟨h1, _⟩ := foldl_clean (usefulInner start a) (fun (st : Table × Bool × Bool) => st.2.1) (fun _ => False)
    (T, false, false) (usefulInner_mono start a)
    (fun sub hsub => by rw [usefulInner_step] at hsub; cases hsub) _ h
  exact h1

theorem usefulPart_clean (ord : List SetS → List SetS) (G : IG) (a b f : String) (T : Table)
    (h : (usefulPart ord G a b f (T, false)).2.1 = false) :
    usefulPart ord G a b f (T, false) = (T, false, false) := by
  unfold usefulPart at h ⊢
  split
  · rename_i hc
    rw [if_pos hc] at h
    obtain ⟨h1, _⟩ := foldl_clean (usefulOuter ord G.start a) (fun (st : Table × Bool × Bool) => st.2.1) (fun _ => True)
      (T, false, false) (usefulOuter_mono ord G.start a)
      (fun x hx => ⟨usefulOuter_step ord G.start a T x hx, trivial⟩) _ h
    exact h1
  · rfl

theorem edgePart_mod (a b : String) (r2 : Table × Bool × Bool) (h : r2.2.1 = true) :
    (edgePart a b r2).2.1 = true := by
  unfold edgePart
  split
  · exact h
  · split
    · rfl
    · exact h

theorem edgePart_clean (a b : String) (T : Table)
    (h : (edgePart a b (T, false, false)).2.1 = false) :
    edgePart a b (T, false, false) = (T, false, false) ∧ ([] ∈ get T b → [] ∈ get T a) := by
  unfold edgePart at h ⊢
  simp only [Bool.false_eq_true, if_false] at h ⊢
  split
  · rename_i hc; rw [if_pos hc] at h; cases h
  · rename_i hc
    refine ⟨rfl, ?_⟩
    intro hb
    by_cases ha : [] ∈ get T a
    · exact ha
    · exact absurd ⟨hb, ha⟩ hc

/-! ### `_production_process` -/

theorem prodProcess_clean {ord : List SetS → List SetS} (hord : OrdOK ord) (G : IG)
    (a b f : String) (T : Table) (hm : (prodProcess ord G a b f T).2.1 = false)
    (hs : (prodProcess ord G a b f T).2.2 = false) :
    (prodProcess ord G a b f T).1 = T ∧ ProdClosed G T a b f := by
  rw [prodProcess_eq] at hm hs ⊢
  split at hm
  · rename_i hc; rw [if_pos hc] at hs; cases hs
  · rename_i hc
    rw [if_neg hc] at hs ⊢
    -- `addrec_bis` did not modify
    have h1 : (addrecBis ord T (consRules G f) a b).2 = false := by
      cases h : (addrecBis ord T (consRules G f) a b).2 with
      | false => rfl
      | true =>
        rw [edgePart_mod a b _ (usefulPart_mod ord G a b f _ h)] at hm; cases hm
    obtain ⟨h1e, h1c⟩ := addrecBis_clean hord T (consRules G f) a b h1
    rw [h1e] at hm hs ⊢
    have h2 : (usefulPart ord G a b f (T, false)).2.1 = false := by
      cases h : (usefulPart ord G a b f (T, false)).2.1 with
      | false => rfl
      | true => rw [edgePart_mod a b _ h] at hm; cases hm
    have h2e := usefulPart_clean ord G a b f T h2
    rw [h2e] at hm hs ⊢
    obtain ⟨h3e, h3c⟩ := edgePart_clean a b T hm
    rw [h3e]
    refine ⟨rfl, ?_⟩
    intro E hE Q hQ
    cases hE0 : E with
    | nil =>
      subst hE0
      exact ⟨[], h3c hE, fun _ hx => by cases hx⟩
    | cons e E' =>
      have hcond : bisCond (consRules G f) E = true := by
        unfold bisCond
        simp only [Bool.and_eq_true, List.all_eq_true, List.any_eq_true, decide_eq_true_eq,
          Bool.not_eq_true', List.isEmpty_eq_false_iff]
        refine ⟨?_, by rw [hE0]; simp⟩
        intro C hC
        obtain ⟨D, ED, hr, _, _⟩ := hQ C hC
        exact ⟨(C, D), List.mem_filter.mpr ⟨mem_consRules.mpr hr, by simpa using hC⟩, rfl⟩
      have hleaves := h1c E hE hcond
      obtain ⟨t, ht, hQt⟩ := leavesOf_complete (T := T)
        (lsets := (consRules G f).filter fun x => x.1 ∈ E) Q (by
          intro s hs
          obtain ⟨x, hx, rfl⟩ := List.mem_map.mp hs
          obtain ⟨hx1, hx2⟩ := List.mem_filter.mp hx
          simp only [decide_eq_true_eq] at hx2
          obtain ⟨D, ED, hr, hED, hQED⟩ := hQ x.1 hx2
          exact ⟨D, ED, List.mem_filter.mpr ⟨mem_consRules.mpr hr, by simpa using hx2⟩, hED, hQED⟩)
      exact ⟨t, hleaves t ht, hQt⟩

/-! ### one rule, one pass -/

theorem ruleProcess_clean {ord : List SetS → List SetS} (hord : OrdOK ord) (G : IG) (r : IRule)
    (T : Table) (hm : (ruleProcess ord G r T).2.1 = false)
    (hs : (ruleProcess ord G r T).2.2 = false) :
    (ruleProcess ord G r T).1 = T ∧ RuleClosed G T r := by
  cases r with
  | dup a b c => exact dupProcess_clean hord G.start a b c T hm
  | prod a b f => exact prodProcess_clean hord G a b f T hm hs
  | end_ a t => exact ⟨rfl, trivial⟩
  | cons f a b => exact ⟨rfl, trivial⟩

theorem pass_mod_mono (ord : List SetS → List SetS) (G : IG) (rs : List IRule) :
    ∀ (T : Table), (pass ord G rs T true).2.1 = true := by
  induction rs with
  | nil => intro T; rfl
  | cons r rs ih =>
    intro T
    unfold pass
    simp only [Bool.true_or]
    split
    · rfl
    · exact ih _

theorem pass_clean {ord : List SetS → List SetS} (hord : OrdOK ord) (G : IG) (rs : List IRule) :
    ∀ (T : Table), (pass ord G rs T false).2.1 = false → (pass ord G rs T false).2.2 = false →
      (pass ord G rs T false).1 = T ∧ ∀ r ∈ rs, RuleClosed G T r := by
  induction rs with
  | nil => intro T _ _; exact ⟨rfl, fun _ h => by cases h⟩
  | cons r rs ih =>
    intro T hm hs
    unfold pass at hm hs ⊢
    simp only [Bool.false_or] at hm hs ⊢
    split at hm
    · rename_i hc; rw [if_pos hc] at hs; cases hs
    · rename_i hc
      rw [if_neg hc] at hs ⊢
      have hc' : (ruleProcess ord G r T).2.2 = false := by simpa using hc
      have hm1 : (ruleProcess ord G r T).2.1 = false := by
        cases h : (ruleProcess ord G r T).2.1 with
        | false => rfl
        | true => rw [h, pass_mod_mono] at hm; cases hm
      obtain ⟨h1, h2⟩ := ruleProcess_clean hord G r T hm1 hc'
      rw [hm1, h1] at hm hs ⊢
      obtain ⟨h3, h4⟩ := ih T hm hs
      refine ⟨h3, ?_⟩
      intro r' hr'
      rcases List.mem_cons.mp hr' with rfl | hr'
      · exact h2
      · exact h4 r' hr'

/-! ### a closed table is complete -/

structure ClosedT (G : IG) (T : Table) : Prop where
  init1 : ∀ a ∈ G.nonTerminals, [a] ∈ get T a
  init0 : ∀ a t, IRule.end_ a t ∈ G.rules → [] ∈ get T a
  dup : ∀ a b c, IRule.dup a b c ∈ G.rules → DupClosed T a b c
  prod : ∀ a b f, IRule.prod a b f ∈ G.rules → ProdClosed G T a b f

theorem complete_auxT {G : IG} {T : Table} (hT : ClosedT G T) :
    ∀ n a σ, DerN G n a σ → a ∈ G.nonTerminals →
      ∃ E, E ∈ get T a ∧ ∀ c ∈ E, Exit G n σ c := by
  intro n
  induction n using Nat.strongRecOn with
  | _ n ih =>
    intro a σ h ha
    cases h with
    | end_ hr => exact ⟨[], hT.init0 _ _ hr, by simp⟩
    | @cons n' f _ b σ' hr hb =>
      refine ⟨[a], hT.init1 a ha, ?_⟩
      intro c hc
      simp only [List.mem_singleton] at hc
      subst hc
      exact ⟨f, σ', b, n', rfl, hr, by omega, hb⟩
    | @dup n₁ n₂ _ b c _ hr hb hc =>
      obtain ⟨E0, h0, e0⟩ := ih n₁ (by omega) b σ hb (mem_nonTerminals_of_rule hr (by simp))
      obtain ⟨E1, h1, e1⟩ := ih n₂ (by omega) c σ hc (mem_nonTerminals_of_rule hr (by simp))
      obtain ⟨E, hE, hsub⟩ := hT.dup _ _ _ hr E0 h0 E1 h1
      refine ⟨E, hE, ?_⟩
      intro x hx
      rcases hsub x hx with hx | hx
      · exact (e0 x hx).mono (by omega)
      · exact (e1 x hx).mono (by omega)
    | @prod n' _ b f _ hr hb =>
      obtain ⟨E, h0, e0⟩ := ih n' (by omega) b (f :: σ) hb (mem_nonTerminals_of_rule hr (by simp))
      have hres : ∀ C ∈ E, ∃ D ED, IRule.cons f C D ∈ G.rules ∧ ED ∈ get T D ∧
          ∀ x ∈ ED, Exit G (n' + 1) σ x := by
        intro C hC
        obtain ⟨g, σ', d, m, h1, h2, h3, h4⟩ := e0 C hC
        simp only [List.cons.injEq] at h1
        obtain ⟨rfl, rfl⟩ := h1
        obtain ⟨ED, hd, ed⟩ := ih m (by omega) d σ h4 (mem_nonTerminals_of_rule h2 (by simp))
        exact ⟨d, ED, h2, hd, fun x hx => (ed x hx).mono (by omega)⟩
      exact hT.prod _ _ _ hr E h0 (Exit G (n' + 1) σ) hres

theorem closed_complete {G : IG} {T : Table} (hT : ClosedT G T) (a : String)
    (ha : a ∈ G.nonTerminals) (hd : G.Derivable a []) : [] ∈ get T a := by
  obtain ⟨n, hn⟩ := derN_of_derivable hd
  obtain ⟨E, hE, hex⟩ := complete_auxT hT n a [] hn ha
  have : E = [] := by
    apply List.eq_nil_iff_forall_not_mem.mpr
    intro c hc
    obtain ⟨g, σ', d, m, h1, _⟩ := hex c hc
    cases h1
  rw [this] at hE; exact hE

end Pfl.IG.LibP
