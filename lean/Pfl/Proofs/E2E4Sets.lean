/-
Character sets through the first three passes: the text of a set is collected into a list of tokens,
one per character (escaped where a pass or the renderer escapes it) and `-` for a range.
-/
import Pfl.Proofs.E2E3Rel
import Pfl.Proofs.E2E3Sem
namespace Pfl.PyRx.E2E.S3
open Pfl.RegexReader Pfl.Rx Pfl.Rx.Lem Pfl.PyPass
open Pfl.PyRx.E2E

/-! ### inside a set: the relations -/

def P1in (s : List Char) (l : List Tok) : Prop :=
  ∀ rest acc, replaceShortcutsGo (s ++ rest) true false acc =
    replaceShortcutsGo rest true false (l.reverse ++ acc)

theorem P1in.nil : P1in [] [] := fun _ _ => rfl

theorem P1in.append {s1 s2 : List Char} {l1 l2 : List Tok} (h1 : P1in s1 l1) (h2 : P1in s2 l2) :
    P1in (s1 ++ s2) (l1 ++ l2) := by
  intro rest acc
  rw [List.append_assoc, h1, h2]
  simp

theorem P1in.ch (c : Char) (h1 : c ≠ ' ') (h2 : c ≠ '\\') (h3 : c ≠ '[') (h4 : c ≠ ']') :
    P1in [c] [[c]] := by
  intro rest acc
  simp [replaceShortcutsGo, h1, h2, h3, h4]

theorem P1in.blank : P1in [' '] [['\\', ' ']] := by
  intro rest acc
  simp [replaceShortcutsGo]

theorem P1in.esc (c : Char) (h1 : c ≠ ' ') (h2 : shortcuts.find? (fun p => p.1 == ['\\', c]) = none) :
    P1in ['\\', c] [['\\'], [c]] := by
  intro rest acc
  simp [replaceShortcutsGo, h1, h2]

theorem P1.set {body : List Char} {l : List Tok} (h : P1in body l) :
    P1 ('[' :: (body ++ [']'])) (['['] :: (l ++ [[']']])) := by
  intro rest acc
  have s1 : ∀ r a, replaceShortcutsGo ('[' :: r) false false a =
      replaceShortcutsGo r true false (['['] :: a) := by
    intro r a; simp [replaceShortcutsGo]
  have s2 : ∀ r a, replaceShortcutsGo (']' :: r) true false a =
      replaceShortcutsGo r false false ([']'] :: a) := by
    intro r a; simp [replaceShortcutsGo]
  rw [List.cons_append, s1, List.append_assoc, h, List.cons_append, List.nil_append, s2]
  simp

theorem P2.chEsc (c : Char) (h1 : c ∈ toEscapeInBrackets) : P2 true [c] [['\\', c]] := by
  have hc : c ≠ '[' ∧ c ≠ ']' := by
    constructor <;> (rintro rfl; revert h1; decide)
  refine ⟨by intro t ht; simp at ht; subst ht; simp, fun rt hrt => ?_⟩
  simp [escapeInBracketsStep, hc.1, hc.2, hrt, h1]

theorem P3in.bar : P3in ['|'] [['\\', '|']] := by
  refine ⟨by intro t ht; simp at ht; subst ht; simp, fun rt top htop => ?_⟩
  simp [preprocessBracketsStep, htop, pure, Except.pure]
  rfl

/-! ### one character of a set -/

/-- does the renderer escape the character inside a set -/
def rEsc (c : Char) (first : Bool) : Bool :=
  decide (c ∈ ['[', ']', '\\']) || (c == '^' && first) || c == '-'

theorem escItem_eq (c : Char) (first : Bool) :
    escItem c first = if rEsc c first then ['\\', c] else [c] := by
  unfold escItem rEsc
  by_cases h1 : c ∈ ['[', ']', '\\'] <;> by_cases h2 : c = '^' <;> by_cases h3 : c = '-' <;>
    cases first <;> simp [h1, h2, h3]

/-- the token a character of a set ends up as -/
def stok (c : Char) (first : Bool) : Tok :=
  if rEsc c first then ['\\', c]
  else if c = ' ' then ['\\', ' ']
  else if c ∈ toEscapeInBrackets then ['\\', c]
  else if c = '|' then ['\\', '|']
  else [c]

/-- the text of the character after `_replace_shortcuts` / `_escape_in_brackets` -/
def c1 (c : Char) (first : Bool) : List Char :=
  if rEsc c first then ['\\', c] else if c = ' ' then ['\\', ' '] else [c]

def c2 (c : Char) (first : Bool) : List Char :=
  if rEsc c first then ['\\', c]
  else if c = ' ' then ['\\', ' ']
  else if c ∈ toEscapeInBrackets then ['\\', c]
  else [c]

def l1 (c : Char) (first : Bool) : List Tok :=
  if rEsc c first then [['\\'], [c]] else if c = ' ' then [['\\', ' ']] else [[c]]

theorem l1_flatten (c : Char) (first : Bool) : (l1 c first).flatten = c1 c first := by
  unfold l1 c1; split
  · rfl
  · split <;> rfl

theorem rEsc_facts (c : Char) (first : Bool) (h : rEsc c first = true) :
    c ≠ ' ' ∧ shortcuts.find? (fun p => p.1 == ['\\', c]) = none := by
  unfold rEsc at h
  simp only [Bool.or_eq_true, decide_eq_true_eq, Bool.and_eq_true, beq_iff_eq, List.mem_cons,
    List.not_mem_nil, or_false] at h
  rcases h with ((rfl | rfl | rfl) | ⟨rfl, _⟩) | rfl <;> exact ⟨by decide, by decide⟩

theorem not_rEsc_facts (c : Char) (first : Bool) (h : rEsc c first = false) :
    c ≠ '\\' ∧ c ≠ '[' ∧ c ≠ ']' ∧ c ≠ '-' := by
  unfold rEsc at h
  simp only [Bool.or_eq_false_iff, decide_eq_false_iff_not, List.mem_cons, List.not_mem_nil,
    or_false, not_or, beq_eq_false_iff_ne] at h
  exact ⟨h.1.1.2.2, h.1.1.1, h.1.1.2.1, h.2⟩

theorem ch_p1 (c : Char) (first : Bool) : P1in (escItem c first) (l1 c first) := by
  rw [escItem_eq]
  unfold l1
  cases h : rEsc c first with
  | true =>
    simp only [if_true]
    exact P1in.esc c (rEsc_facts c first h).1 (rEsc_facts c first h).2
  | false =>
    have hf := not_rEsc_facts c first h
    by_cases hb : c = ' '
    · subst hb; simpa using P1in.blank
    · simp only [Bool.false_eq_true, if_false, hb]
      exact P1in.ch c hb hf.1 hf.2.1 hf.2.2.1

theorem ch_p2 (c : Char) (first : Bool) : P2 true (c1 c first) [c2 c first] := by
  unfold c1 c2
  cases h : rEsc c first with
  | true => simpa using P2.esc true c
  | false =>
    have hf := not_rEsc_facts c first h
    simp only [Bool.false_eq_true, if_false]
    by_cases hb : c = ' '
    · subst hb; simpa using P2.esc true ' '
    · by_cases he : c ∈ toEscapeInBrackets
      · simpa [hb, he] using P2.chEsc c he
      · simpa [hb, he] using P2.ch true c hf.1 hf.2.1 hf.2.2.1 (fun _ => he)

theorem ch_p3 (c : Char) (first : Bool) : P3in (c2 c first) [stok c first] := by
  unfold c2 stok
  cases h : rEsc c first with
  | true => simpa using P3in.esc c
  | false =>
    have hf := not_rEsc_facts c first h
    simp only [Bool.false_eq_true, if_false]
    by_cases hb : c = ' '
    · subst hb; simpa using P3in.esc ' '
    · by_cases he : c ∈ toEscapeInBrackets
      · simpa [hb, he] using P3in.esc c
      · by_cases hbar : c = '|'
        · subst hbar; simpa [hb, he] using P3in.bar
        · simpa [hb, he, hbar] using P3in.ch c hf.1 hf.2.1 hf.2.2.1 hbar

/-! ### items -/

def it1 : Item → Bool → List Tok
  | .ch c, f => l1 c f
  | .range lo hi, f => l1 lo f ++ [['-']] ++ l1 hi false
  | .short _, _ => []

def it2 : Item → Bool → List Tok
  | .ch c, f => [c2 c f]
  | .range lo hi, f => [c2 lo f, ['-'], c2 hi false]
  | .short _, _ => []

def it3 : Item → Bool → List Tok
  | .ch c, f => [stok c f]
  | .range lo hi, f => [stok lo f, ['-'], stok hi false]
  | .short _, _ => []

def its (g : Item → Bool → List Tok) : List Item → Bool → List Tok
  | [], _ => []
  | it :: rest, f => g it f ++ its g rest false

def NoShort : Item → Prop
  | .short _ => False
  | _ => True

theorem c12_flatten (c : Char) (f : Bool) : (l1 c f).flatten = c1 c f := l1_flatten c f

theorem it_p1 : ∀ (it : Item) (f : Bool), NoShort it → P1in (renderItem it f) (it1 it f)
  | .ch c, f, _ => ch_p1 c f
  | .range lo hi, f, _ =>
    ((ch_p1 lo f).append (P1in.ch '-' (by decide) (by decide) (by decide) (by decide))).append
      (ch_p1 hi false)
  | .short _, _, h => absurd h (by simp [NoShort])

theorem its_p1 : ∀ (items : List Item) (f : Bool), (∀ it ∈ items, NoShort it) →
    P1in (renderItems items f) (its it1 items f)
  | [], _, _ => P1in.nil
  | it :: rest, f, h =>
    (it_p1 it f (h it (by simp))).append (its_p1 rest false (fun x hx => h x (by simp [hx])))

theorem it_p2 : ∀ (it : Item) (f : Bool), NoShort it → P2 true (it1 it f).flatten (it2 it f)
  | .ch c, f, _ => by simpa [it1, it2, l1_flatten] using ch_p2 c f
  | .range lo hi, f, _ => by
    have := ((ch_p2 lo f).append (P2.ch true '-' (by decide) (by decide) (by decide)
      (fun _ => by decide))).append (ch_p2 hi false)
    simpa [it1, it2, l1_flatten] using this
  | .short _, _, h => absurd h (by simp [NoShort])

theorem its_p2 : ∀ (items : List Item) (f : Bool), (∀ it ∈ items, NoShort it) →
    P2 true (its it1 items f).flatten (its it2 items f)
  | [], _, _ => P2.nil true
  | it :: rest, f, h => by
    have := (it_p2 it f (h it (by simp))).append
      (its_p2 rest false (fun x hx => h x (by simp [hx])))
    simpa [its] using this

theorem it_p3 : ∀ (it : Item) (f : Bool), NoShort it → P3in (it2 it f).flatten (it3 it f)
  | .ch c, f, _ => by simpa [it2, it3] using ch_p3 c f
  | .range lo hi, f, _ => by
    have := ((ch_p3 lo f).append (P3in.ch '-' (by decide) (by decide) (by decide)
      (by decide))).append (ch_p3 hi false)
    simpa [it2, it3] using this
  | .short _, _, h => absurd h (by simp [NoShort])

theorem its_p3 : ∀ (items : List Item) (f : Bool), (∀ it ∈ items, NoShort it) →
    P3in (its it2 items f).flatten (its it3 items f)
  | [], _, _ => P3in.nil
  | it :: rest, f, h => by
    have := (it_p3 it f (h it (by simp))).append
      (its_p3 rest false (fun x hx => h x (by simp [hx])))
    simpa [its] using this

/-! ### `_preprocess_brackets_content`: the loop -/

/-- the items as the loop leaves them: ranges filled in -/
def ex3 : Item → Bool → List Tok
  | .ch c, f => [stok c f]
  | .range lo hi, f => [stok lo f] ++ rangeToks lo.toNat hi.toNat ++ [stok hi false]
  | .short _, _ => []

theorem stok_ne_dash (c : Char) (f : Bool) : stok c f ≠ ['-'] := by
  unfold stok
  cases h : rEsc c f with
  | true => simp
  | false =>
    have hf := not_rEsc_facts c f h
    simp only [Bool.false_eq_true, if_false]
    split
    · simp
    · split
      · simp
      · split
        · simp
        · simpa using hf.2.2.2

theorem stok_ne_bs (c : Char) (f : Bool) : stok c f ≠ ['\\'] := by
  unfold stok
  cases h : rEsc c f with
  | true => simp
  | false =>
    have hf := not_rEsc_facts c f h
    simp only [Bool.false_eq_true, if_false]
    split
    · simp
    · split
      · simp
      · split
        · simp
        · simpa using hf.1

theorem stok_last (c : Char) (f : Bool) : lastOrd (stok c f) = .ok c.toNat := by
  unfold stok
  split
  · rfl
  · split
    · rename_i h; subst h; rfl
    · split
      · rfl
      · split
        · rename_i h; subst h; rfl
        · rfl

theorem transf_ne_bs (c : Char) : transf c ≠ ['\\'] := by
  unfold transf transformations?
  repeat' split
  all_goals simp [*]

theorem rangeToks_ne_bs (lo hi : Nat) : ∀ t ∈ rangeToks lo hi, t ≠ ['\\'] := by
  intro t ht
  simp only [rangeToks, List.mem_map] at ht
  obtain ⟨j, _, rfl⟩ := ht
  exact transf_ne_bs _

theorem loop_sym (prev : Option Tok) (sym : Tok) (rest : List Tok) (temp : RToks) (valid : Bool)
    (h1 : sym ≠ ['-']) (h2 : escNext temp = false) :
    bracketsContentLoop prev (sym :: rest) temp valid =
      bracketsContentLoop (some sym) rest (sym :: temp) (!(prev == some ['-'] && !valid)) := by
  have hp : pushTok temp sym = sym :: temp := by
    cases temp with
    | nil => rfl
    | cons t r =>
      simp only [escNext] at h2
      simp [pushTok, h2]
  conv => lhs; unfold bracketsContentLoop
  simp [beq_tok_false h1, hp]

theorem loop_dash (p : Tok) (nxt : Tok) (rest : List Tok) (temp : RToks) (h2 : escNext temp = false) :
    bracketsContentLoop (some p) (['-'] :: nxt :: rest) temp true = (do
      let lo ← lastOrd p
      let hi ← lastOrd nxt
      bracketsContentLoop (some ['-']) (nxt :: rest) ((rangeToks lo hi).reverse ++ temp) false) := by
  conv => lhs; unfold bracketsContentLoop
  simp [h2]

theorem escNext_cons (t : Tok) (temp : RToks) (h : t ≠ ['\\']) : escNext (t :: temp) = false := by
  simp [escNext, h]

/-- one item -/
theorem loop_item (it : Item) (f : Bool) (hit : NoShort it) (prev : Option Tok) (tail : List Tok)
    (temp : RToks) (valid : Bool) (hp : prev ≠ some ['-']) (ht : escNext temp = false) :
    ∃ prev' valid', bracketsContentLoop prev (it3 it f ++ tail) temp valid =
        bracketsContentLoop prev' tail ((ex3 it f).reverse ++ temp) valid' ∧
      prev' ≠ some ['-'] ∧ escNext ((ex3 it f).reverse ++ temp) = false := by
  cases it with
  | short k => exact absurd hit (by simp [NoShort])
  | ch c =>
    refine ⟨some (stok c f), !(prev == some ['-'] && !valid), ?_, ?_, ?_⟩
    · simp only [it3, ex3, List.cons_append, List.nil_append, List.reverse_cons, List.reverse_nil]
      rw [loop_sym prev _ _ temp valid (stok_ne_dash c f) ht]
    · simpa using stok_ne_dash c f
    · simpa [ex3] using escNext_cons _ temp (stok_ne_bs c f)
  | range lo hi =>
    have hpv : (prev == some ['-']) = false := by
      cases prev with
      | none => rfl
      | some q => simpa using fun e => hp (by rw [e])
    have e1 : escNext (stok lo f :: temp) = false := escNext_cons _ temp (stok_ne_bs lo f)
    have e2 : escNext ((rangeToks lo.toNat hi.toNat).reverse ++ stok lo f :: temp) = false :=
      escNext_toks _ (rangeToks_ne_bs _ _) _ e1
    refine ⟨some (stok hi false), false, ?_, ?_, ?_⟩
    · simp only [it3, ex3, List.cons_append, List.nil_append]
      rw [loop_sym prev _ _ temp valid (stok_ne_dash lo f) ht]
      simp only [hpv, Bool.false_and, Bool.not_false]
      rw [loop_dash _ _ _ _ e1, stok_last, stok_last]
      simp only [bind, Except.bind]
      rw [loop_sym _ _ _ _ _ (stok_ne_dash hi false) e2]
      simp
    · simpa using stok_ne_dash hi false
    · have := escNext_cons (stok hi false)
        ((rangeToks lo.toNat hi.toNat).reverse ++ stok lo f :: temp) (stok_ne_bs hi false)
      simpa [ex3] using this

theorem loop_items : ∀ (items : List Item) (f : Bool), (∀ it ∈ items, NoShort it) →
    ∀ (prev : Option Tok) (temp : RToks) (valid : Bool), prev ≠ some ['-'] → escNext temp = false →
    bracketsContentLoop prev (its it3 items f) temp valid = .ok ((its ex3 items f).reverse ++ temp)
  | [], _, _, prev, temp, valid, _, _ => by simp [its, bracketsContentLoop]
  | it :: rest, f, h, prev, temp, valid, hp, ht => by
    obtain ⟨prev', valid', h1, h2, h3⟩ :=
      loop_item it f (h it (by simp)) prev (its it3 rest false) temp valid hp ht
    rw [its, h1, loop_items rest false (fun x hx => h x (by simp [hx])) prev' _ valid' h2 h3]
    simp [its]

/-- the collected tokens of a set -/
def bcOf (neg : Bool) (items : List Item) : List Tok :=
  (if neg then [['^']] else []) ++ its it3 items true

def tempOf (neg : Bool) (items : List Item) : List Tok :=
  (if neg then [['^']] else []) ++ its ex3 items true

theorem loop_set (neg : Bool) (items : List Item) (h : ∀ it ∈ items, NoShort it) :
    bracketsContentLoop none (bcOf neg items) [] false = .ok (tempOf neg items).reverse := by
  cases neg with
  | false =>
    have := loop_items items true h none [] false (by simp) rfl
    simpa [bcOf, tempOf] using this
  | true =>
    have h1 := loop_sym none ['^'] (its it3 items true) [] false (by simp) rfl
    have := loop_items items true h (some ['^']) [['^']] (!(none == some ['-'] && !false))
      (by simp) (by simp [escNext])
    simp only [bcOf, tempOf, if_true, List.singleton_append]
    rw [h1, this]
    simp

/-! ### facts about the tokens (checked on all printable characters) -/

set_option maxRecDepth 100000 in
theorem stok_facts : ∀ c ∈ printables, c ≠ '\n' → ∀ f : Bool,
    a3nB (stok c f) = true ∧ tokChar (stok c f) = c ∧ (utokB (stok c f) || stok c f == ['{']) = true ∧
    recombine? (stok c f) = none ∧ (stok c f = transf c ∨ stok c f = ['\\', c]) := by decide

set_option maxRecDepth 100000 in
theorem transf_facts : ∀ c ∈ printables, c ≠ '\n' →
    a3nB (transf c) = true ∧ tokChar (transf c) = c ∧ (utokB (transf c) || transf c == ['{']) = true ∧
    recombine? (transf c) = none ∧ transf c ∈ escapedPrintables := by decide

set_option maxRecDepth 100000 in
theorem esc_eq : escapedPrintables = (printables.filter (· ≠ '\n')).map transf := by decide

set_option maxRecDepth 100000 in
theorem range_facts : ∀ j ∈ List.range' 33 94,
    Char.ofNat j ∈ printables ∧ Char.ofNat j ≠ '\n' ∧ (Char.ofNat j).toNat = j := by decide

theorem newline_facts : a3nB ['\n'] = true ∧ tokChar ['\n'] = '\n' ∧ utokB ['\n'] = true ∧
    '\n' ∈ printables := by decide

theorem range_char (j : Nat) (h1 : 33 ≤ j) (h2 : j ≤ 126) :
    Char.ofNat j ∈ printables ∧ Char.ofNat j ≠ '\n' ∧ (Char.ofNat j).toNat = j :=
  range_facts j (List.mem_range'_1.mpr ⟨h1, by omega⟩)

theorem utokB2_sound (t : Tok) (h : (utokB t || t == ['{']) = true) : UTok true t := by
  rcases Bool.or_eq_true_iff.mp h with h | h
  · exact utokB_sound t h
  · exact Or.inr (by simpa using h)

/-! ### good items -/

def GoodIt : Item → Prop
  | .ch c => c ∈ printables ∧ c ≠ '\n'
  | .range lo hi => lo ∈ printables ∧ hi ∈ printables ∧ lo.toNat ≤ hi.toNat ∧ lo.toNat ≥ 33 ∧
      hi.toNat ≤ 126
  | .short _ => False

theorem GoodIt.noShort {it : Item} (h : GoodIt it) : NoShort it := by
  cases it <;> first | trivial | exact h

/-- a token of the collected set: it stands for a printable character other than the newline and
is written as the renderer and the passes / `transf` write it -/
def MemTok (t : Tok) : Prop :=
  ∃ d ∈ printables, d ≠ '\n' ∧ (t = transf d ∨ ∃ f, t = stok d f)

theorem MemTok.facts {t : Tok} (h : MemTok t) :
    a3nB t = true ∧ UTok true t ∧ recombine? t = none ∧ tokChar t ∈ printables ∧ tokChar t ≠ '\n' := by
  obtain ⟨d, hd, hn, rfl | ⟨f, rfl⟩⟩ := h
  · have := transf_facts d hd hn
    exact ⟨this.1, utokB2_sound _ this.2.2.1, this.2.2.2.1, by rw [this.2.1]; exact hd,
      by rw [this.2.1]; exact hn⟩
  · have := stok_facts d hd hn f
    exact ⟨this.1, utokB2_sound _ this.2.2.1, this.2.2.2.1, by rw [this.2.1]; exact hd,
      by rw [this.2.1]; exact hn⟩

theorem printable_range (c : Char) (h : c ∈ printables) (h1 : 33 ≤ c.toNat) : c ≠ '\n' := by
  rintro rfl; revert h1; decide

theorem mem_rangeToks (lo hi : Nat) (t : Tok) :
    t ∈ rangeToks lo hi ↔ ∃ j, lo < j ∧ j < hi ∧ t = transf (Char.ofNat j) := by
  simp only [rangeToks, List.mem_map, List.mem_range']
  constructor
  · rintro ⟨j, ⟨i, hi', rfl⟩, rfl⟩
    exact ⟨lo + 1 + 1 * i, by omega, by omega, rfl⟩
  · rintro ⟨j, h1, h2, rfl⟩
    exact ⟨j, ⟨j - (lo + 1), by omega, by omega⟩, rfl⟩

theorem mem_ex3_item (it : Item) (f : Bool) (h : GoodIt it) (t : Tok) (ht : t ∈ ex3 it f) :
    MemTok t ∧ tokChar t ∈ itemChars it := by
  cases it with
  | short k => exact absurd h (by simp [GoodIt])
  | ch c =>
    simp only [ex3, List.mem_cons, List.not_mem_nil, or_false] at ht
    subst ht
    exact ⟨⟨c, h.1, h.2, Or.inr ⟨f, rfl⟩⟩, by simp [itemChars, (stok_facts c h.1 h.2 f).2.1]⟩
  | range lo hi =>
    obtain ⟨h1, h2, h3, h4, h5⟩ := h
    have hlo := printable_range lo h1 h4
    have hhi := printable_range hi h2 (by omega)
    simp only [ex3, List.mem_append, List.mem_cons, List.not_mem_nil, or_false] at ht
    have key : ∀ j, lo.toNat ≤ j → j ≤ hi.toNat → Char.ofNat j ∈ itemChars (.range lo hi) := by
      intro j hj1 hj2
      simp only [itemChars, List.mem_map, List.mem_range]
      exact ⟨j - lo.toNat, by omega, by rw [show lo.toNat + (j - lo.toNat) = j by omega]⟩
    rcases ht with (rfl | ht) | rfl
    · refine ⟨⟨lo, h1, hlo, Or.inr ⟨f, rfl⟩⟩, ?_⟩
      rw [(stok_facts lo h1 hlo f).2.1]
      have := key lo.toNat (Nat.le_refl _) h3
      rwa [Char.ofNat_toNat] at this
    · obtain ⟨j, hj1, hj2, rfl⟩ := (mem_rangeToks _ _ t).mp ht
      have hj := range_char j (by omega) (by omega)
      refine ⟨⟨_, hj.1, hj.2.1, Or.inl rfl⟩, ?_⟩
      rw [(transf_facts _ hj.1 hj.2.1).2.1]
      exact key j (by omega) (by omega)
    · refine ⟨⟨hi, h2, hhi, Or.inr ⟨false, rfl⟩⟩, ?_⟩
      rw [(stok_facts hi h2 hhi false).2.1]
      have := key hi.toNat h3 (Nat.le_refl _)
      rwa [Char.ofNat_toNat] at this

theorem mem_itemChars_ex3 (it : Item) (f : Bool) (h : GoodIt it) (c : Char) (hc : c ∈ itemChars it) :
    ∃ t ∈ ex3 it f, tokChar t = c := by
  cases it with
  | short k => exact absurd h (by simp [GoodIt])
  | ch d =>
    simp only [itemChars, List.mem_cons, List.not_mem_nil, or_false] at hc
    subst hc
    exact ⟨stok c f, by simp [ex3], (stok_facts c h.1 h.2 f).2.1⟩
  | range lo hi =>
    obtain ⟨h1, h2, h3, h4, h5⟩ := h
    have hlo := printable_range lo h1 h4
    have hhi := printable_range hi h2 (by omega)
    simp only [itemChars, List.mem_map, List.mem_range] at hc
    obtain ⟨i, hi', rfl⟩ := hc
    by_cases e1 : i = 0
    · subst e1
      refine ⟨stok lo f, by simp [ex3], ?_⟩
      rw [(stok_facts lo h1 hlo f).2.1, Nat.add_zero, Char.ofNat_toNat]
    · by_cases e2 : lo.toNat + i = hi.toNat
      · refine ⟨stok hi false, by simp [ex3], ?_⟩
        rw [(stok_facts hi h2 hhi false).2.1, e2, Char.ofNat_toNat]
      · have hj := range_char (lo.toNat + i) (by omega) (by omega)
        refine ⟨transf (Char.ofNat (lo.toNat + i)), ?_, (transf_facts _ hj.1 hj.2.1).2.1⟩
        simp only [ex3, List.mem_append, List.mem_cons, List.not_mem_nil, or_false]
        exact Or.inl (Or.inr ((mem_rangeToks _ _ _).mpr ⟨_, by omega, by omega, rfl⟩))

theorem mem_its_ex3 : ∀ (items : List Item) (f : Bool), (∀ it ∈ items, GoodIt it) →
    ∀ t ∈ its ex3 items f, MemTok t ∧ tokChar t ∈ members items
  | [], _, _, t, ht => by simp [its] at ht
  | it :: rest, f, h, t, ht => by
    simp only [its, List.mem_append] at ht
    rcases ht with ht | ht
    · have := mem_ex3_item it f (h it (by simp)) t ht
      exact ⟨this.1, by simp [members, this.2]⟩
    · have := mem_its_ex3 rest false (fun x hx => h x (by simp [hx])) t ht
      refine ⟨this.1, ?_⟩
      have h2 := this.2
      simp only [members, List.flatMap_cons, List.mem_append] at h2 ⊢
      exact Or.inr h2

theorem mem_members_its : ∀ (items : List Item) (f : Bool), (∀ it ∈ items, GoodIt it) →
    ∀ c ∈ members items, ∃ t ∈ its ex3 items f, tokChar t = c
  | [], _, _, c, hc => by simp [members] at hc
  | it :: rest, f, h, c, hc => by
    simp only [members, List.flatMap_cons, List.mem_append] at hc
    rcases hc with hc | hc
    · obtain ⟨t, ht, e⟩ := mem_itemChars_ex3 it f (h it (by simp)) c hc
      exact ⟨t, by simp [its, ht], e⟩
    · obtain ⟨t, ht, e⟩ := mem_members_its rest false (fun x hx => h x (by simp [hx])) c hc
      exact ⟨t, by simp [its, ht], e⟩

/-! ### negation, duplicates, the result -/

set_option maxRecDepth 100000 in
theorem stok_ne_caret : ∀ c ∈ printables, c ≠ '\n' → stok c true ≠ ['^'] := by decide

/-- the tokens between the parentheses the set is replaced by (without the `|`) -/
def cts (neg : Bool) (items : List Item) : List Tok :=
  (preprocessNegation (tempOf neg items)).eraseDups

theorem its_ex3_head (it : Item) (rest : List Item) (h : GoodIt it) :
    ∃ c ∈ printables, c ≠ '\n' ∧ ∃ tl, its ex3 (it :: rest) true = stok c true :: tl := by
  cases it with
  | short k => exact absurd h (by simp [GoodIt])
  | ch c => exact ⟨c, h.1, h.2, its ex3 rest false, by simp [its, ex3]⟩
  | range lo hi =>
    exact ⟨lo, h.1, printable_range lo h.1 h.2.2.2.1,
      rangeToks lo.toNat hi.toNat ++ stok hi false :: its ex3 rest false, by simp [its, ex3]⟩

theorem negation_pos (items : List Item) (h : ∀ it ∈ items, GoodIt it) :
    preprocessNegation (tempOf false items) = its ex3 items true := by
  simp only [tempOf, Bool.false_eq_true, if_false, List.nil_append]
  cases items with
  | nil => rfl
  | cons it rest =>
    obtain ⟨c, hc, hn, tl, e⟩ := its_ex3_head it rest (h it (by simp))
    rw [e, preprocessNegation]
    have : (stok c true != ['^']) = true := by simpa using stok_ne_caret c hc hn
    simp [this]

theorem mem_negation (M : List Tok) (hM : ∀ m ∈ M, MemTok m) (t : Tok) :
    t ∈ preprocessNegation (['^'] :: M) ↔
      (t ∈ escapedPrintables ∨ t = ['\n']) ∧ ¬ ∃ m ∈ M, tokChar m = tokChar t := by
  have hextra : ∀ x, x ∈ M.filterMap (fun s =>
      match recombine? s with
      | some r => some r
      | none =>
        match s with
        | ['\\', c] => some (transf c)
        | _ => none) ↔ ∃ d, ['\\', d] ∈ M ∧ x = transf d := by
    intro x
    rw [List.mem_filterMap]
    constructor
    · rintro ⟨m, hm, hx⟩
      rw [(hM m hm).facts.2.2.1] at hx
      simp only at hx
      split at hx
      · rename_i d
        simp only [Option.some.injEq] at hx
        exact ⟨d, hm, hx.symm⟩
      · simp at hx
    · rintro ⟨d, hd, rfl⟩
      refine ⟨_, hd, ?_⟩
      rw [(hM _ hd).facts.2.2.1]
      rfl
  rw [preprocessNegation]
  simp only [bne_self_eq_false, Bool.false_eq_true, if_false, List.mem_filter, List.mem_append,
    List.mem_cons, List.not_mem_nil, or_false, Bool.not_eq_true', List.contains_eq_mem,
    decide_eq_false_iff_not]
  have hshape : (t ∈ escapedPrintables ∨ t = ['\n']) →
      ∃ c ∈ printables, tokChar t = c ∧ (c ≠ '\n' → t = transf c) ∧ (c = '\n' → t = ['\n']) := by
    rintro (ht | rfl)
    · rw [esc_eq, List.mem_map] at ht
      obtain ⟨c, hc, rfl⟩ := ht
      rw [List.mem_filter] at hc
      have hn : c ≠ '\n' := by simpa using hc.2
      exact ⟨c, hc.1, (transf_facts c hc.1 hn).2.1, fun _ => rfl, fun e => absurd e hn⟩
    · exact ⟨'\n', newline_facts.2.2.2, newline_facts.2.1, fun e => absurd rfl e, fun _ => rfl⟩
  constructor
  · rintro ⟨h1, h2⟩
    refine ⟨h1, ?_⟩
    rintro ⟨m, hm, hmc⟩
    obtain ⟨c, hc, hct, hc1, hc2⟩ := hshape h1
    apply h2
    obtain ⟨d, hd, hdn, rfl | ⟨f, rfl⟩⟩ := hM m hm
    · have hdc : d = c := by rw [← (transf_facts d hd hdn).2.1, hmc, hct]
      subst hdc
      exact Or.inl (by rw [hc1 hdn]; exact hm)
    · have hdc : d = c := by rw [← (stok_facts d hd hdn f).2.1, hmc, hct]
      subst hdc
      rcases (stok_facts d hd hdn f).2.2.2.2 with e | e
      · exact Or.inl (by rw [hc1 hdn, ← e]; exact hm)
      · exact Or.inr ((hextra t).mpr ⟨d, by rw [← e]; exact hm, hc1 hdn⟩)
  · rintro ⟨h1, h2⟩
    refine ⟨h1, ?_⟩
    rintro (hm | hx)
    · exact h2 ⟨t, hm, rfl⟩
    · obtain ⟨d, hd, rfl⟩ := (hextra t).mp hx
      have hf := (hM _ hd).facts
      have hdc : tokChar ['\\', d] = d := rfl
      rw [hdc] at hf
      exact h2 ⟨_, hd, by rw [hdc, (transf_facts d hf.2.2.2.1 hf.2.2.2.2).2.1]⟩

theorem members_not_newline (items : List Item) (h : ∀ it ∈ items, GoodIt it) :
    '\n' ∉ members items := by
  intro hc
  obtain ⟨t, ht, e⟩ := mem_members_its items true h _ hc
  have := (mem_its_ex3 items true h t ht).1.facts.2.2.2.2
  exact this e

/-- the characters of the result are the characters of the set -/
theorem cts_chars (neg : Bool) (items : List Item) (h : ∀ it ∈ items, GoodIt it) (c : Char) :
    (∃ t ∈ cts neg items, tokChar t = c) ↔ c ∈ setChars printables neg items := by
  rw [Lem.mem_setChars]
  cases neg with
  | false =>
    simp only [cts, negation_pos items h, List.mem_eraseDups, Bool.false_eq_true, false_and,
      true_and, false_or]
    constructor
    · rintro ⟨t, ht, rfl⟩; exact (mem_its_ex3 items true h t ht).2
    · exact mem_members_its items true h c
  | true =>
    have hM : ∀ m ∈ its ex3 items true, MemTok m := fun m hm => (mem_its_ex3 items true h m hm).1
    simp only [cts, tempOf, if_true, List.singleton_append, List.mem_eraseDups,
      mem_negation _ hM, true_and, Bool.true_eq_false, false_and, or_false]
    constructor
    · rintro ⟨t, ⟨h1, h2⟩, rfl⟩
      constructor
      · rcases h1 with h1 | rfl
        · rw [esc_eq, List.mem_map] at h1
          obtain ⟨d, hd, rfl⟩ := h1
          rw [List.mem_filter] at hd
          rw [(transf_facts d hd.1 (by simpa using hd.2)).2.1]
          exact hd.1
        · exact newline_facts.2.2.2
      · intro hc
        exact h2 (mem_members_its items true h _ hc)
    · rintro ⟨h1, h2⟩
      by_cases hn : c = '\n'
      · subst hn
        refine ⟨['\n'], ⟨Or.inr rfl, ?_⟩, rfl⟩
        rintro ⟨m, hm, e⟩
        have := (mem_its_ex3 items true h m hm).2
        rw [e] at this
        exact h2 this
      · have hf := transf_facts c h1 hn
        refine ⟨transf c, ⟨Or.inl hf.2.2.2.2, ?_⟩, hf.2.1⟩
        rintro ⟨m, hm, e⟩
        rw [hf.2.1] at e
        exact h2 (e ▸ (mem_its_ex3 items true h m hm).2)

theorem cts_toks (neg : Bool) (items : List Item) (h : ∀ it ∈ items, GoodIt it) :
    ∀ t ∈ cts neg items, a3nB t = true ∧ UTok true t := by
  intro t ht
  cases neg with
  | false =>
    simp only [cts, negation_pos items h, List.mem_eraseDups] at ht
    have := (mem_its_ex3 items true h t ht).1.facts
    exact ⟨this.1, this.2.1⟩
  | true =>
    have hM : ∀ m ∈ its ex3 items true, MemTok m := fun m hm => (mem_its_ex3 items true h m hm).1
    simp only [cts, tempOf, if_true, List.singleton_append, List.mem_eraseDups,
      mem_negation _ hM] at ht
    rcases ht.1 with h1 | rfl
    · rw [esc_eq, List.mem_map] at h1
      obtain ⟨d, hd, rfl⟩ := h1
      rw [List.mem_filter] at hd
      have := transf_facts d hd.1 (by simpa using hd.2)
      exact ⟨this.1, utokB2_sound _ this.2.2.1⟩
    · exact ⟨newline_facts.1, utokB_sound _ newline_facts.2.2.1⟩

theorem cts_ne_nil (neg : Bool) (items : List Item) (hne : items ≠ []) (h : ∀ it ∈ items, GoodIt it) :
    cts neg items ≠ [] := by
  cases neg with
  | true =>
    have := (cts_chars true items h '\n').mpr (by
      rw [Lem.mem_setChars]
      exact Or.inl ⟨rfl, newline_facts.2.2.2, members_not_newline items h⟩)
    obtain ⟨t, ht, _⟩ := this
    intro e; rw [e] at ht; simp at ht
  | false =>
    cases items with
    | nil => exact absurd rfl hne
    | cons it rest =>
      obtain ⟨c, hc, hn, tl, e⟩ := its_ex3_head it rest (h it (by simp))
      have : stok c true ∈ cts false (it :: rest) := by
        simp only [cts, negation_pos _ h, List.mem_eraseDups, e]
        simp
      intro e2; rw [e2] at this; simp at this

theorem UTok.fin {q : Bool} {t : Tok} (h : UTok q t) : FinTok t := by
  rcases h with h | rfl
  · exact h.1.fin
  · exact fin_ch _ (by decide)

/-- `_preprocess_brackets_content` on the collected tokens -/
theorem content_set (neg : Bool) (items : List Item) (h : ∀ it ∈ items, GoodIt it) :
    preprocessBracketsContent (bcOf neg items) = .ok (insertOr (cts neg items)) := by
  have hl := loop_set neg items (fun it hit => (h it hit).noShort)
  have hfin : ∀ t ∈ insertOr (cts neg items), FinTok t := by
    intro t ht
    rcases insertOr_mem _ t ht with ht | rfl
    · exact (cts_toks neg items h t ht).2.fin
    · exact fin_ch _ (by decide)
  simp only [preprocessBracketsContent, hl, bind, Except.bind, List.reverse_reverse]
  exact recombine_fin _ hfin

/-! ### a whole set through the three passes -/

def caretC (neg : Bool) : List Char := if neg then ['^'] else []
def caretT (neg : Bool) : List Tok := if neg then [['^']] else []

def set0 (neg : Bool) (items : List Item) : List Char :=
  '[' :: ((caretC neg ++ renderItems items true) ++ [']'])

def setTok1 (neg : Bool) (items : List Item) : List Tok :=
  ['['] :: ((caretT neg ++ its it1 items true) ++ [[']']])

def setTok2 (neg : Bool) (items : List Item) : List Tok :=
  ['['] :: ((caretT neg ++ its it2 items true) ++ [[']']])

def setTok3 (neg : Bool) (items : List Item) : List Tok :=
  ['('] :: (insertOr (cts neg items) ++ [[')']])

theorem caret_flatten (neg : Bool) : (caretT neg).flatten = caretC neg := by
  cases neg <;> rfl

theorem set_p1 (neg : Bool) (items : List Item) (h : ∀ it ∈ items, GoodIt it) :
    P1 (set0 neg items) (setTok1 neg items) := by
  have hc : P1in (caretC neg) (caretT neg) := by
    cases neg
    · exact P1in.nil
    · exact P1in.ch '^' (by decide) (by decide) (by decide) (by decide)
  exact P1.set (hc.append (its_p1 items true (fun it hit => (h it hit).noShort)))

theorem set_p2 (neg : Bool) (items : List Item) (h : ∀ it ∈ items, GoodIt it) :
    P2 false (setTok1 neg items).flatten (setTok2 neg items) := by
  have hc : P2 true (caretC neg) (caretT neg) := by
    cases neg
    · exact P2.nil true
    · exact P2.ch true '^' (by decide) (by decide) (by decide) (fun _ => by decide)
  have := P2.set (hc.append (its_p2 items true (fun it hit => (h it hit).noShort)))
  simpa [setTok1, setTok2, caret_flatten] using this

theorem set_p3 (neg : Bool) (items : List Item) (h : ∀ it ∈ items, GoodIt it) :
    P3 (setTok2 neg items).flatten (setTok3 neg items) := by
  have hc : P3in (caretC neg) (caretT neg) := by
    cases neg
    · exact P3in.nil
    · exact P3in.ch '^' (by decide) (by decide) (by decide) (by decide)
  have hb := hc.append (its_p3 items true (fun it hit => (h it hit).noShort))
  have hcont : preprocessBracketsContent (caretT neg ++ its it3 items true) =
      .ok (insertOr (cts neg items)) := content_set neg items h
  have hnb : NoBsT (insertOr (cts neg items)) := by
    intro t ht
    rcases insertOr_mem _ t ht with ht | rfl
    · exact (cts_toks neg items h t ht).2.push.ne_bs
    · simp
  have := P3.set hb hcont hnb
  simpa [setTok2, setTok3, caret_flatten] using this

theorem set0_eq (neg : Bool) (items : List Item) :
    set0 neg items = ['['] ++ (if neg then ['^'] else []) ++ renderItems items true ++ [']'] := by
  cases neg <;> simp [set0, caretC]

/-- the characters of the text of a set are ASCII -/
theorem set0_ascii (neg : Bool) (items : List Item) (h : ∀ it ∈ items, GoodIt it) :
    ∀ c ∈ set0 neg items, c.toNat < 128 := by
  have hch : ∀ (d : Char) (f : Bool), d ∈ printables → ∀ c ∈ escItem d f, c.toNat < 128 := by
    intro d f hd c hc
    rw [escItem_eq] at hc
    split at hc
    · simp only [List.mem_cons, List.not_mem_nil, or_false] at hc
      rcases hc with rfl | rfl
      · decide
      · exact printable_ascii _ hd
    · simp only [List.mem_cons, List.not_mem_nil, or_false] at hc
      subst hc; exact printable_ascii _ hd
  have hit : ∀ (it : Item) (f : Bool), GoodIt it → ∀ c ∈ renderItem it f, c.toNat < 128 := by
    intro it f hg c hc
    cases it with
    | short k => exact absurd hg (by simp [GoodIt])
    | ch d => exact hch d f hg.1 c hc
    | range lo hi =>
      simp only [renderItem, List.mem_append, List.mem_cons, List.not_mem_nil, or_false] at hc
      rcases hc with (hc | rfl) | hc
      · exact hch lo f hg.1 c hc
      · decide
      · exact hch hi false hg.2.1 c hc
  have hits : ∀ (items : List Item) (f : Bool), (∀ it ∈ items, GoodIt it) →
      ∀ c ∈ renderItems items f, c.toNat < 128 := by
    intro items
    induction items with
    | nil => intro f _ c hc; simp [renderItems] at hc
    | cons it rest ih =>
      intro f hg c hc
      simp only [renderItems, List.mem_append] at hc
      rcases hc with hc | hc
      · exact hit it f (hg it (by simp)) c hc
      · exact ih false (fun x hx => hg x (by simp [hx])) c hc
  intro c hc
  simp only [set0, caretC, List.mem_cons, List.mem_append, List.not_mem_nil, or_false] at hc
  rcases hc with rfl | (hc | hc) | rfl
  · decide
  · split at hc
    · simp at hc; subst hc; decide
    · simp at hc
  · exact hits items true h c hc
  · decide

end Pfl.PyRx.E2E.S3
