/- Proofs for Pfl/Props/C19_Regex.lean (regex object model), part A. -/
import Pfl.Spec.RegexObject
import Pfl.Props.C05_Regex
import Pfl.Props.C01_Accepts
namespace Pfl
namespace RxObj
namespace P
open Pfl.Rx

/-! ### frame lemmas for `setCounter` -/

theorem getElem?_setCounter (H : Heap) (j c k : Nat) :
    (setCounter H j c)[k]? =
      if k = j then (H[j]?).map (fun o => { o with counter := c }) else H[k]? := by
  unfold setCounter
  cases hj : H[j]? with
  | none =>
    by_cases hk : k = j
    · subst hk; simp [hj]
    · simp [hk]
  | some o =>
    by_cases hk : k = j
    · subst hk
      have : k < H.length := by
        rcases Nat.lt_or_ge k H.length with h | h
        · exact h
        · rw [List.getElem?_eq_none h] at hj; cases hj
      simp [this]
    · have : ¬ j = k := fun h => hk h.symm
      simp [hk, this]

theorem length_setCounter (H : Heap) (j c : Nat) : (setCounter H j c).length = H.length := by
  unfold setCounter; split <;> simp

theorem getElem?_setCounter_self {H : Heap} {j : Nat} {o : Obj} (h : H[j]? = some o) (c : Nat) :
    (setCounter H j c)[j]? = some { o with counter := c } := by
  rw [getElem?_setCounter]; simp [h]

theorem getElem?_setCounter_ne (H : Heap) {j k : Nat} (h : k ≠ j) (c : Nat) :
    (setCounter H j c)[k]? = H[k]? := by
  rw [getElem?_setCounter]; simp [h]

theorem setCounter_idem (H : Heap) (j c c' : Nat) :
    setCounter (setCounter H j c) j c' = setCounter H j c' := by
  apply List.ext_getElem?
  intro k
  simp only [getElem?_setCounter]
  by_cases hk : k = j
  · subst hk
    cases H[k]? <;> simp
  · simp [hk]

theorem setCounter_same {H : Heap} {j : Nat} {o : Obj} (h : H[j]? = some o) :
    setCounter H j o.counter = H := by
  apply List.ext_getElem?
  intro k
  simp only [getElem?_setCounter]
  by_cases hk : k = j
  · subst hk; simp [h]
  · simp [hk]

theorem setCounter_comm (H : Heap) {i j : Nat} (hij : i ≠ j) (c d : Nat) :
    setCounter (setCounter H i c) j d = setCounter (setCounter H j d) i c := by
  apply List.ext_getElem?
  intro k
  simp only [getElem?_setCounter]
  have hji : j ≠ i := fun h => hij h.symm
  by_cases hk : k = j
  · subst hk; simp [hji]
  · by_cases hk' : k = i
    · subst hk'; simp [hij]
    · simp [hk, hk']

theorem treeOf_setCounter (n : Nat) (H : Heap) (j c i : Nat) :
    treeOf n (setCounter H j c) i = treeOf n H i := by
  induction n generalizing i with
  | zero => rfl
  | succ n ih =>
    unfold treeOf
    simp only [ih]
    rw [getElem?_setCounter]
    by_cases hk : i = j
    · subst hk
      cases H[i]? <;> simp
    · simp [hk]

theorem WF_iff (H : Heap) : WF H = true ↔ ∀ i o, H[i]? = some o → WFObj i o = true := by
  unfold WF
  rw [List.all_eq_true]
  constructor
  · intro h i o hio
    have hi : i < H.length := by
      rcases Nat.lt_or_ge i H.length with h | h
      · exact h
      · rw [List.getElem?_eq_none h] at hio; cases hio
    have := h i (List.mem_range.2 hi)
    rw [hio] at this
    exact this
  · intro h i hi
    have hi := List.mem_range.1 hi
    have h1 : H[i]? = some H[i] := List.getElem?_eq_getElem hi
    rw [h1]
    exact h i _ h1

theorem WF_setCounter {H : Heap} (hwf : WF H = true) (j c : Nat) : WF (setCounter H j c) = true := by
  rw [WF_iff] at hwf ⊢
  intro i o hio
  rw [getElem?_setCounter] at hio
  by_cases hk : i = j
  · subst hk
    simp only [if_true] at hio
    cases ho : H[i]? with
    | none => rw [ho] at hio; cases hio
    | some o' =>
      rw [ho] at hio
      simp at hio
      subst hio
      exact hwf i o' ho
  · simp only [hk, if_false] at hio
    exact hwf i o hio

theorem lt_length_of_getElem? {H : Heap} {i : Nat} {o : Obj} (h : H[i]? = some o) : i < H.length := by
  rcases Nat.lt_or_ge i H.length with h' | h'
  · exact h'
  · rw [List.getElem?_eq_none h'] at h; cases h

/-! ### `treeOf` -/

/-- more fuel does not change the tree -/
theorem treeOf_mono {H : Heap} {fuel fuel' i : Nat} {r : Rx} (h : treeOf fuel H i = some r)
    (hle : fuel ≤ fuel') : treeOf fuel' H i = some r := by
  induction fuel generalizing fuel' i r with
  | zero => simp [treeOf] at h
  | succ fuel ih =>
    obtain ⟨fuel', rfl⟩ : ∃ k, fuel' = k + 1 := ⟨fuel' - 1, by omega⟩
    have hle' : fuel ≤ fuel' := by omega
    unfold treeOf at h ⊢
    cases ho : H[i]? with
    | none => rw [ho] at h; cases h
    | some o =>
      rw [ho] at h
      obtain ⟨hd, sons, cnt, acc⟩ := o
      simp only at h ⊢
      cases hd <;> rcases sons with _ | ⟨a, _ | ⟨b, _ | ⟨c, l⟩⟩⟩ <;> simp only at h ⊢ <;>
        first
        | exact h
        | cases h
        | skip
      · cases ha : treeOf fuel H a with
        | none => rw [ha] at h; cases h
        | some ta =>
          cases hb : treeOf fuel H b with
          | none => rw [ha, hb] at h; cases h
          | some tb =>
            rw [ha, hb] at h
            rw [ih ha hle', ih hb hle']; exact h
      · cases ha : treeOf fuel H a with
        | none => rw [ha] at h; cases h
        | some ta =>
          cases hb : treeOf fuel H b with
          | none => rw [ha, hb] at h; cases h
          | some tb =>
            rw [ha, hb] at h
            rw [ih ha hle', ih hb hle']; exact h
      · cases ha : treeOf fuel H a with
        | none => rw [ha] at h; cases h
        | some ta =>
          rw [ha] at h
          rw [ih ha hle']; exact h

/-- a son of a well-formed node: shape facts -/
theorem WFObj_sons {i : Nat} {o : Obj} (h : WFObj i o = true) : ∀ s ∈ o.sons, s < i := by
  unfold WFObj at h
  rw [Bool.and_eq_true, List.all_eq_true] at h
  intro s hs
  simpa using h.1 s hs

/-- on a well-formed heap every address stands for a tree; fuel `i + 1` suffices -/
theorem treeOf_isSome {H : Heap} (hwf : WF H = true) {i : Nat} (hi : i < H.length) :
    (treeOf (i + 1) H i).isSome := by
  induction i using Nat.strongRecOn with
  | _ i ih =>
    have ho : H[i]? = some H[i] := List.getElem?_eq_getElem hi
    have hw := (WF_iff H).1 hwf i _ ho
    have hs := WFObj_sons hw
    have key : ∀ s, s < i → ∃ r, treeOf i H s = some r := by
      intro s hsi
      have := ih s hsi (by omega)
      obtain ⟨r, hr⟩ := Option.isSome_iff_exists.1 this
      exact ⟨r, treeOf_mono hr (by omega)⟩
    unfold treeOf
    rw [ho]
    generalize H[i] = o at hw hs
    obtain ⟨hd, sons, cnt, acc⟩ := o
    simp only at hs ⊢
    cases hd <;> rcases sons with _ | ⟨a, _ | ⟨b, _ | ⟨c, l⟩⟩⟩ <;> simp [WFObj] at hw <;> simp only
      <;> try rfl
    · obtain ⟨ra, hra⟩ := key a hw.1
      obtain ⟨rb, hrb⟩ := key b hw.2
      rw [hra, hrb]; rfl
    · obtain ⟨ra, hra⟩ := key a hw.1
      obtain ⟨rb, hrb⟩ := key b hw.2
      rw [hra, hrb]; rfl
    · obtain ⟨ra, hra⟩ := key a hw
      rw [hra]; rfl

/-! ### `process` -/

/-- the local helper `son` of `process` (`_process_to_enfa_son` called on `i`) -/
def sonF (code : String → Nat) (fuel i : Nat) (H : Heap) (s f t : Nat) : Option (List Edge × Heap) :=
  match H[i]?, H[s]? with
  | some me, some so =>
    match process code fuel (setCounter H s me.counter) s f t with
    | none => none
    | some (es, H2) =>
      match H2[s]? with
      | none => none
      | some so2 => some (es, setCounter (setCounter H2 i so2.counter) s so.counter)
  | _, _ => none

theorem process_succ (code : String → Nat) (fuel : Nat) (H : Heap) (i f t : Nat) :
    process code (fuel + 1) H i f t =
    match H[i]? with
    | none => none
    | some o =>
      match o.head, o.sons with
      | .empty, [] => some ([], H)
      | .eps, [] => some ([(f, none, t)], H)
      | .sym s, [] => some ([(f, some (code s), t)], H)
      | .cat, [a, b] =>
        match nextState H i with
        | none => none
        | some (s0, H1) =>
          match nextState H1 i with
          | none => none
          | some (s1, H2) =>
            match sonF code fuel i H2 a f s0 with
            | none => none
            | some (ea, H3) =>
              match sonF code fuel i H3 b s1 t with
              | none => none
              | some (eb, H4) => some ((s0, none, s1) :: ea ++ eb, H4)
      | .alt, [a, b] =>
        match nextState H i with
        | none => none
        | some (s0, H1) =>
          match nextState H1 i with
          | none => none
          | some (s2, H2) =>
            match sonF code fuel i H2 a s0 s2 with
            | none => none
            | some (ea, H3) =>
              match nextState H3 i with
              | none => none
              | some (s0', H4) =>
                match nextState H4 i with
                | none => none
                | some (s2', H5) =>
                  match sonF code fuel i H5 b s0' s2' with
                  | none => none
                  | some (eb, H6) =>
                    some ((f, none, s0) :: (s2, none, t) :: ea ++ (f, none, s0') :: (s2', none, t) :: eb, H6)
      | .star, [a] =>
        match nextState H i with
        | none => none
        | some (s1, H1) =>
          match nextState H1 i with
          | none => none
          | some (s2, H2) =>
            match sonF code fuel i H2 a s1 s2 with
            | none => none
            | some (ea, H3) =>
              some ((s2, none, s1) :: (f, none, t) :: (f, none, s1) :: (s2, none, t) :: ea, H3)
      | _, _ => none := by
  rfl

/-- the statement of `process_spec` at a given fuel -/
def SpecAt (code : String → Nat) (fuel : Nat) : Prop :=
  ∀ {H H' : Heap} {i f t : Nat} {es : List Edge}, WF H = true →
    process code fuel H i f t = some (es, H') →
    ∃ r c, treeOf (i + 1) H i = some r ∧ counterOf H i = some c ∧
      es = (thompsonAux code r f t c).1 ∧ H' = setCounter H i (thompsonAux code r f t c).2

theorem nextState_eq {H : Heap} {i : Nat} {o : Obj} (h : H[i]? = some o) :
    nextState H i = some (o.counter, setCounter H i (o.counter + 1)) := by
  unfold nextState; rw [h]

theorem nextState_setCounter {H : Heap} {i : Nat} {o : Obj} (h : H[i]? = some o) (c : Nat) :
    nextState (setCounter H i c) i = some (c, setCounter H i (c + 1)) := by
  rw [nextState_eq (getElem?_setCounter_self h c), setCounter_idem]

theorem restore_eq {G : Heap} {i s : Nat} {so : Obj} (hso : G[s]? = some so) (hsi : s ≠ i)
    (cm c' : Nat) :
    setCounter (setCounter (setCounter (setCounter G s cm) s c') i c') s so.counter
      = setCounter G i c' := by
  rw [setCounter_idem, setCounter_comm (setCounter G s c') (fun h => hsi h.symm) c' so.counter,
    setCounter_idem, setCounter_same hso]

theorem sonF_spec (code : String → Nat) {fuel : Nat} (IH : SpecAt code fuel)
    {G G' : Heap} {i s f t : Nat} {es : List Edge} {me : Obj} (hwf : WF G = true)
    (hme : G[i]? = some me) (hsi : s ≠ i) (h : sonF code fuel i G s f t = some (es, G')) :
    ∃ r, treeOf (s + 1) G s = some r ∧ es = (thompsonAux code r f t me.counter).1 ∧
      G' = setCounter G i (thompsonAux code r f t me.counter).2 := by
  unfold sonF at h
  rw [hme] at h
  cases hso : G[s]? with
  | none => rw [hso] at h; cases h
  | some so =>
    rw [hso] at h
    simp only at h
    cases hp : process code fuel (setCounter G s me.counter) s f t with
    | none => rw [hp] at h; cases h
    | some p =>
      obtain ⟨es', H2⟩ := p
      rw [hp] at h
      simp only at h
      obtain ⟨r, c, hr, hc, hes, hH2⟩ := IH (WF_setCounter hwf s me.counter) hp
      rw [treeOf_setCounter] at hr
      have hc' : c = me.counter := by
        unfold counterOf at hc
        rw [getElem?_setCounter_self hso] at hc
        simpa using hc.symm
      subst hc'
      have h2s : H2[s]? = some { so with counter := (thompsonAux code r f t me.counter).2 } := by
        rw [hH2, setCounter_idem, getElem?_setCounter_self hso]
      rw [h2s] at h
      simp only [Option.some.injEq, Prod.mk.injEq] at h
      obtain ⟨h1, h2⟩ := h
      refine ⟨r, hr, ?_, ?_⟩
      · rw [← h1, hes]
      · rw [← h2, hH2]
        exact restore_eq hso hsi _ _

/-- `sonF` on a heap where the parent's counter has been moved to `c` -/
theorem sonF_spec' (code : String → Nat) {fuel : Nat} (IH : SpecAt code fuel)
    {H G' : Heap} {i s f t c : Nat} {es : List Edge} {o : Obj} (hwf : WF H = true)
    (ho : H[i]? = some o) (hsi : s ≠ i)
    (h : sonF code fuel i (setCounter H i c) s f t = some (es, G')) :
    ∃ r, treeOf (s + 1) H s = some r ∧ es = (thompsonAux code r f t c).1 ∧
      G' = setCounter H i (thompsonAux code r f t c).2 := by
  obtain ⟨r, hr, hes, hG⟩ := sonF_spec code IH (WF_setCounter hwf i c)
    (getElem?_setCounter_self ho c) hsi h
  rw [treeOf_setCounter] at hr
  rw [setCounter_idem] at hG
  exact ⟨r, hr, hes, hG⟩

theorem son_tree {H : Heap} {i s : Nat} {r : Rx} (hsi : s < i) (h : treeOf (s + 1) H s = some r) :
    treeOf i H s = some r := treeOf_mono h (by omega)

theorem process_spec_all (code : String → Nat) (fuel : Nat) : SpecAt code fuel := by
  induction fuel with
  | zero => intro H H' i f t es hwf h; simp [process] at h
  | succ fuel ih =>
    intro H H' i f t es hwf h
    rw [process_succ] at h
    cases hi : H[i]? with
    | none => rw [hi] at h; cases h
    | some o =>
      rw [hi] at h
      simp only at h
      have hw := (WF_iff H).1 hwf i o hi
      have hc : counterOf H i = some o.counter := by simp [counterOf, hi]
      have hself : setCounter H i o.counter = H := setCounter_same hi
      have ht : treeOf (i + 1) H i = (match o.head, o.sons with
          | .empty, [] => some .empty
          | .eps, [] => some .eps
          | .sym s, [] => some (.sym s)
          | .cat, [a, b] =>
            match treeOf i H a, treeOf i H b with
            | some ta, some tb => some (.cat ta tb)
            | _, _ => none
          | .alt, [a, b] =>
            match treeOf i H a, treeOf i H b with
            | some ta, some tb => some (.alt ta tb)
            | _, _ => none
          | .star, [a] => (treeOf i H a).map .star
          | _, _ => none) := by
        rw [treeOf, hi]; rfl
      obtain ⟨hd, sons, cnt, acc⟩ := o
      simp only at h ht hc hself
      cases hd <;> rcases sons with _ | ⟨a, _ | ⟨b, _ | ⟨c, l⟩⟩⟩ <;> simp [WFObj] at hw <;>
        simp only at h ht
      · -- empty
        simp only [Option.some.injEq, Prod.mk.injEq] at h
        refine ⟨_, cnt, ht, hc, ?_, ?_⟩
        · rw [← h.1]; rfl
        · rw [← h.2]; exact hself.symm
      · -- eps
        simp only [Option.some.injEq, Prod.mk.injEq] at h
        refine ⟨_, cnt, ht, hc, ?_, ?_⟩
        · rw [← h.1]; rfl
        · rw [← h.2]; exact hself.symm
      · -- sym
        simp only [Option.some.injEq, Prod.mk.injEq] at h
        refine ⟨_, cnt, ht, hc, ?_, ?_⟩
        · rw [← h.1]; rfl
        · rw [← h.2]; exact hself.symm
      · -- cat
        rw [nextState_eq hi] at h
        simp only at h
        rw [nextState_setCounter hi] at h
        simp only at h
        cases h1 : sonF code fuel i (setCounter H i (cnt + 1 + 1)) a f cnt with
        | none => rw [h1] at h; cases h
        | some p1 =>
          obtain ⟨ea, H3⟩ := p1
          rw [h1] at h
          simp only at h
          obtain ⟨ra, hra, hea, hH3⟩ := sonF_spec' code ih hwf hi (by omega) h1
          subst hH3
          cases h2 : sonF code fuel i (setCounter H i (thompsonAux code ra f cnt (cnt + 1 + 1)).2) b
              (cnt + 1) t with
          | none => rw [h2] at h; cases h
          | some p2 =>
            obtain ⟨eb, H4⟩ := p2
            rw [h2] at h
            simp only [Option.some.injEq, Prod.mk.injEq] at h
            obtain ⟨rb, hrb, heb, hH4⟩ := sonF_spec' code ih hwf hi (by omega) h2
            rw [son_tree hw.1 hra, son_tree hw.2 hrb] at ht
            refine ⟨_, cnt, ht, hc, ?_, ?_⟩
            · rw [← h.1, hea, heb]; rfl
            · rw [← h.2, hH4]; rfl
      · -- alt
        rw [nextState_eq hi] at h
        simp only at h
        rw [nextState_setCounter hi] at h
        simp only at h
        cases h1 : sonF code fuel i (setCounter H i (cnt + 1 + 1)) a cnt (cnt + 1) with
        | none => rw [h1] at h; cases h
        | some p1 =>
          obtain ⟨ea, H3⟩ := p1
          rw [h1] at h
          simp only at h
          obtain ⟨ra, hra, hea, hH3⟩ := sonF_spec' code ih hwf hi (by omega) h1
          subst hH3
          rw [nextState_setCounter hi] at h
          simp only at h
          rw [nextState_setCounter hi] at h
          simp only at h
          cases h2 : sonF code fuel i
              (setCounter H i ((thompsonAux code ra cnt (cnt + 1) (cnt + 1 + 1)).2 + 1 + 1)) b
              (thompsonAux code ra cnt (cnt + 1) (cnt + 1 + 1)).2
              ((thompsonAux code ra cnt (cnt + 1) (cnt + 1 + 1)).2 + 1) with
          | none => rw [h2] at h; cases h
          | some p2 =>
            obtain ⟨eb, H4⟩ := p2
            rw [h2] at h
            simp only [Option.some.injEq, Prod.mk.injEq] at h
            obtain ⟨rb, hrb, heb, hH4⟩ := sonF_spec' code ih hwf hi (by omega) h2
            rw [son_tree hw.1 hra, son_tree hw.2 hrb] at ht
            refine ⟨_, cnt, ht, hc, ?_, ?_⟩
            · rw [← h.1, hea, heb]; rfl
            · rw [← h.2, hH4]; rfl
      · -- star
        rw [nextState_eq hi] at h
        simp only at h
        rw [nextState_setCounter hi] at h
        simp only at h
        cases h1 : sonF code fuel i (setCounter H i (cnt + 1 + 1)) a cnt (cnt + 1) with
        | none => rw [h1] at h; cases h
        | some p1 =>
          obtain ⟨ea, H3⟩ := p1
          rw [h1] at h
          simp only [Option.some.injEq, Prod.mk.injEq] at h
          obtain ⟨ra, hra, hea, hH3⟩ := sonF_spec' code ih hwf hi (by omega) h1
          rw [son_tree hw hra] at ht
          refine ⟨_, cnt, ht, hc, ?_, ?_⟩
          · rw [← h.1, hea]; rfl
          · rw [← h.2, hH3]; rfl

/-- (1) `_process_to_enfa` on object `i` of a well-formed heap adds exactly the edges of the Thompson
construction of its tree, numbered from the object's counter, and leaves the heap as it was except for
that counter: the sons have their counters back -/
theorem process_spec (code : String → Nat) {fuel : Nat} {H H' : Heap} {i f t : Nat} {es : List Edge}
    (hwf : WF H = true) (h : process code fuel H i f t = some (es, H')) :
    ∃ r c, treeOf (i + 1) H i = some r ∧ counterOf H i = some c ∧
      es = (thompsonAux code r f t c).1 ∧ H' = setCounter H i (thompsonAux code r f t c).2 :=
  process_spec_all code fuel hwf h

theorem sonF_isSome (code : String → Nat) {fuel : Nat}
    (IH : ∀ {H : Heap} {s : Nat} (f t : Nat), WF H = true → s < H.length → s + 1 ≤ fuel →
      (process code fuel H s f t).isSome)
    {H : Heap} {i s : Nat} (f t c : Nat) {o : Obj} (hwf : WF H = true)
    (ho : H[i]? = some o) (hsi : s < i) (hfuel : s + 1 ≤ fuel) :
    ∃ es G', sonF code fuel i (setCounter H i c) s f t = some (es, G') := by
  have hi := lt_length_of_getElem? ho
  have hwf' := WF_setCounter hwf i c
  have hs : s < (setCounter H i c).length := by rw [length_setCounter]; omega
  have hso : (setCounter H i c)[s]? = some (setCounter H i c)[s] := List.getElem?_eq_getElem hs
  generalize (setCounter H i c)[s] = so at hso
  have hme := getElem?_setCounter_self ho c
  unfold sonF
  rw [hme, hso]
  simp only
  have hp := IH (H := setCounter (setCounter H i c) s c) f t (WF_setCounter hwf' s c)
    (by rw [length_setCounter]; exact hs) hfuel
  obtain ⟨⟨es, H2⟩, hp⟩ := Option.isSome_iff_exists.1 hp
  rw [hp]
  simp only
  obtain ⟨r, c', -, -, -, hH2⟩ := process_spec code (WF_setCounter hwf' s c) hp
  have h2s : H2[s]? = some { so with counter := (thompsonAux code r f t c').2 } := by
    rw [hH2, setCounter_idem, getElem?_setCounter_self hso]
  rw [h2s]
  exact ⟨_, _, rfl⟩

/-- (1') `_process_to_enfa` ends: fuel `i + 1` suffices -/
theorem process_isSome (code : String → Nat) {H : Heap} (hwf : WF H = true) {i : Nat}
    (hi : i < H.length) (f t : Nat) {fuel : Nat} (hf : i + 1 ≤ fuel) :
    (process code fuel H i f t).isSome := by
  induction fuel generalizing H i f t with
  | zero => omega
  | succ fuel ih =>
    have IH : ∀ {H : Heap} {s : Nat} (f t : Nat), WF H = true → s < H.length → s + 1 ≤ fuel →
        (process code fuel H s f t).isSome := fun f t hwf hs hf => ih hwf hs f t hf
    have hspec : SpecAt code fuel := process_spec_all code fuel
    have ho : H[i]? = some H[i] := List.getElem?_eq_getElem hi
    generalize H[i] = o at ho
    have hw := (WF_iff H).1 hwf i o ho
    rw [process_succ, ho]
    simp only
    obtain ⟨hd, sons, cnt, acc⟩ := o
    simp only
    cases hd <;> rcases sons with _ | ⟨a, _ | ⟨b, _ | ⟨c, l⟩⟩⟩ <;> simp [WFObj] at hw <;>
      simp only <;> try rfl
    · -- cat
      rw [nextState_eq ho]
      simp only
      rw [nextState_setCounter ho]
      simp only
      obtain ⟨ea, H3, h1⟩ := sonF_isSome code IH f cnt (cnt + 1 + 1) hwf ho hw.1 (by omega)
      rw [h1]
      simp only
      obtain ⟨ra, -, -, hH3⟩ := sonF_spec' code hspec hwf ho (by omega) h1
      subst hH3
      obtain ⟨eb, H4, h2⟩ := sonF_isSome code IH (cnt + 1) t
        (thompsonAux code ra f cnt (cnt + 1 + 1)).2 hwf ho hw.2 (by omega)
      rw [h2]
      rfl
    · -- alt
      rw [nextState_eq ho]
      simp only
      rw [nextState_setCounter ho]
      simp only
      obtain ⟨ea, H3, h1⟩ := sonF_isSome code IH cnt (cnt + 1) (cnt + 1 + 1) hwf ho hw.1 (by omega)
      rw [h1]
      simp only
      obtain ⟨ra, -, -, hH3⟩ := sonF_spec' code hspec hwf ho (by omega) h1
      subst hH3
      rw [nextState_setCounter ho]
      simp only
      rw [nextState_setCounter ho]
      simp only
      obtain ⟨eb, H4, h2⟩ := sonF_isSome code IH
        (thompsonAux code ra cnt (cnt + 1) (cnt + 1 + 1)).2
        ((thompsonAux code ra cnt (cnt + 1) (cnt + 1 + 1)).2 + 1)
        ((thompsonAux code ra cnt (cnt + 1) (cnt + 1 + 1)).2 + 1 + 1) hwf ho hw.2 (by omega)
      rw [h2]
      rfl
    · -- star
      rw [nextState_eq ho]
      simp only
      rw [nextState_setCounter ho]
      simp only
      obtain ⟨ea, H3, h1⟩ := sonF_isSome code IH cnt (cnt + 1) (cnt + 1 + 1) hwf ho hw (by omega)
      rw [h1]
      rfl

/-- (2) `to_epsilon_nfa()`: the automaton of the tree, numbered from the current counter; only the
counter of the object itself moves -/
theorem toENFA_spec (code : String → Nat) {fuel : Nat} {H H' : Heap} {i : Nat} {A : ENFA Nat}
    (hwf : WF H = true) (h : toENFA code fuel H i = some (A, H')) :
    ∃ r c, treeOf (i + 1) H i = some r ∧ counterOf H i = some c ∧
      A = (r.thompson code c).1 ∧ H' = setCounter H i (r.thompson code c).2 := by
  unfold toENFA at h
  cases ho : H[i]? with
  | none => simp [nextState, ho] at h
  | some o =>
    rw [nextState_eq ho] at h
    simp only at h
    rw [nextState_setCounter ho] at h
    simp only at h
    cases hp : process code fuel (setCounter H i (o.counter + 1 + 1)) i o.counter (o.counter + 1) with
    | none => rw [hp] at h; cases h
    | some p =>
      obtain ⟨es, H3⟩ := p
      rw [hp] at h
      simp only [Option.some.injEq, Prod.mk.injEq] at h
      obtain ⟨r, c, hr, hc, hes, hH3⟩ := process_spec code (WF_setCounter hwf i _) hp
      rw [treeOf_setCounter] at hr
      have hc' : c = o.counter + 1 + 1 := by
        unfold counterOf at hc
        rw [getElem?_setCounter_self ho] at hc
        simpa using hc.symm
      subst hc'
      rw [setCounter_idem] at hH3
      refine ⟨r, o.counter, hr, by simp [counterOf, ho], ?_, ?_⟩
      · rw [← h.1, hes]; rfl
      · rw [← h.2, hH3]; rfl

/-- (2') whatever the counter, the automaton handed out accepts exactly the denoted language -/
theorem toENFA_lang (code : String → Nat) {fuel : Nat} {H H' : Heap} {i : Nat} {A : ENFA Nat}
    (hwf : WF H = true) (h : toENFA code fuel H i = some (A, H')) :
    ∃ r, treeOf (i + 1) H i = some r ∧ ∀ ks, A.Lang ks ↔ ∃ w, Denote r w ∧ w.map code = ks := by
  obtain ⟨r, c, hr, -, hA, -⟩ := toENFA_spec code hwf h
  refine ⟨r, hr, fun ks => ?_⟩
  rw [hA]
  exact thompson_lang code r c ks

end P
end RxObj
end Pfl
