/-
Termination of the Earley model (C18), part 2: accounting of the pushes on the chart columns
against the processed states (`Bal`), the counting bound for a processed column whose keys are
distinct and whose states have pairwise distinct patterns, and the strengthened invariant `TB`.
-/
import Pfl.Proofs.EarleyTerminationSubs
import Pfl.Proofs.EarleyCompleteLoop
import Mathlib.Data.List.Nodup
namespace Pfl
namespace Earley
namespace Term
open FsDag FsDag.Lem Lem Cmp

/-! ### accounting -/

/-- number of states stored in a dictionary -/
def flen (d : Dict) : Nat := (d.flatMap (·.2)).length

/-- number of processed states of column `j` -/
def acc (T : Tables) (j : Nat) : Nat := (procStates T j).length

theorem acc_eq (T : Tables) (j : Nat) : acc T j = flen (colGet T.processed j) := rfl

theorem flen_append (d d' : Dict) : flen (d ++ d') = flen d + flen d' := by
  simp [flen, List.flatMap_append]

theorem flen_map_ge (k : Key) (s : EState) : ∀ d : Dict,
    flen d ≤ flen (d.map fun e => if e.1 = k then (e.1, e.2 ++ [s]) else e) ∧
    (d.any (·.1 = k) = true →
      flen d + 1 ≤ flen (d.map fun e => if e.1 = k then (e.1, e.2 ++ [s]) else e))
  | [] => by simp [flen]
  | e :: d => by
    obtain ⟨h1, h2⟩ := flen_map_ge k s d
    have hc : ∀ (x : Key × List EState) (l : Dict), flen (x :: l) = x.2.length + flen l := by
      intro x l; simp [flen, List.flatMap_cons]
    rw [List.map_cons, hc, hc]
    by_cases hk : e.1 = k
    · rw [if_pos hk]
      simp only [List.length_append, List.length_singleton]
      exact ⟨by omega, fun _ => by omega⟩
    · rw [if_neg hk]
      refine ⟨by omega, fun h => ?_⟩
      simp only [List.any_cons, hk, decide_false, Bool.false_or] at h
      have := h2 h
      omega

/-- the processed column after `procAdd` -/
theorem procAdd_flen (G : Grammar) (T : Tables) (i : Nat) (s : EState) :
    ∃ d', (procAdd G T i s).1 = { T with processed := T.processed.set i d' } ∧
      flen (colGet T.processed i) ≤ flen d' ∧
      ((procAdd G T i s).2 = true → flen (colGet T.processed i) + 1 ≤ flen d') := by
  unfold procAdd
  simp only
  split_ifs with h1 h2 h3
  · exact ⟨_, rfl, Nat.le_refl _, fun h => by simp at h⟩
  · refine ⟨_, rfl, ?_, fun h => by simp at h⟩
    rw [flen_append]; omega
  · obtain ⟨g1, g2⟩ := flen_map_ge (keyOf G s) s (colGet T.processed i)
    exact ⟨_, rfl, g1, fun _ => g2 (by simpa using h3)⟩
  · refine ⟨_, rfl, ?_, fun _ => ?_⟩
    · rw [flen_append]; omega
    · rw [flen_append]; simp [flen]

theorem acc_set (T : Tables) (i : Nat) (d' : Dict) (j : Nat) :
    acc { T with processed := T.processed.set i d' } j =
      if j = i ∧ i < T.processed.length then flen d' else acc T j := by
  rw [acc_eq, acc_eq]
  simp only
  by_cases hi : i < T.processed.length
  · by_cases hj : j = i
    · subst hj; rw [colGet_set_self _ hi, if_pos ⟨rfl, hi⟩]
    · rw [colGet_set_ne _ (Ne.symm hj), if_neg (fun h => hj h.1)]
  · rw [colGet_set_ge _ (Nat.le_of_not_lt hi), if_neg (fun h => hi h.2)]

theorem len_colGet_set {α : Type} (l : List (List α)) (i : Nat) (x : List α) (j : Nat) :
    (colGet (l.set i x) j).length = if j = i ∧ i < l.length then x.length else (colGet l j).length := by
  by_cases hi : i < l.length
  · by_cases hj : j = i
    · subst hj; rw [colGet_set_self _ hi, if_pos ⟨rfl, hi⟩]
    · rw [colGet_set_ne _ (Ne.symm hj), if_neg (fun h => hj h.1)]
  · rw [colGet_set_ge _ (Nat.le_of_not_lt hi), if_neg (fun h => hi h.2)]

/-- the chart columns grow at most as much as the processed columns -/
structure Bal (T T' : Tables) : Prop where
  lc : T'.chart.length = T.chart.length
  lp : T'.processed.length = T.processed.length
  le : ∀ j, (colGet T'.chart j).length + acc T j ≤ (colGet T.chart j).length + acc T' j

theorem Bal.refl (T : Tables) : Bal T T := ⟨rfl, rfl, fun _ => Nat.le_refl _⟩

theorem Bal.trans {T T1 T2 : Tables} (h1 : Bal T T1) (h2 : Bal T1 T2) : Bal T T2 :=
  ⟨by rw [h2.lc, h1.lc], by rw [h2.lp, h1.lp], fun j => by
    have a := h1.le j; have b := h2.le j; omega⟩

theorem bal_store (T : Tables) (st' : Store) : Bal T { T with store := st' } :=
  ⟨rfl, rfl, fun _ => Nat.le_refl _⟩

theorem bal_push (G : Grammar) (T : Tables) (i : Nat) (s : EState)
    (hks : T.chart.length = T.processed.length) : Bal T (pushIfNew G T i s) := by
  obtain ⟨d', hd, g1, g2⟩ := procAdd_flen G T i s
  refine ⟨?_, ?_, ?_⟩
  · rw [pushIfNew_chart]; split <;> simp
  · rw [pushIfNew_processed, procAdd_len]
  · intro j
    have hacc : acc (pushIfNew G T i s) j = acc (procAdd G T i s).1 j := by
      unfold acc; rw [pushIfNew_proc]
    rw [hacc, hd, acc_set, pushIfNew_chart]
    by_cases hadd : (procAdd G T i s).2 = true
    · rw [if_pos hadd, len_colGet_set]
      have g2' := g2 hadd
      rw [← acc_eq] at g1 g2'
      by_cases hc : j = i ∧ i < T.chart.length
      · rw [if_pos hc, if_pos ⟨hc.1, by rw [← hks]; exact hc.2⟩]
        obtain ⟨rfl, _⟩ := hc
        simp only [List.length_append, List.length_singleton]
        omega
      · rw [if_neg hc, if_neg (by rw [← hks]; exact hc)]
    · rw [if_neg hadd]
      rw [← acc_eq] at g1
      split
      · rename_i hc
        obtain ⟨rfl, _⟩ := hc
        omega
      · omega

/-- `advance` changes the store and pushes at most one state -/
theorem advance_shape (G : Grammar) (T : Tables) (nx c : EState) :
    ∃ st', advance G T nx c = { T with store := st' } ∨
      ∃ ns, advance G T nx c = pushIfNew G { T with store := st' } c.e ns := by
  unfold advance
  simp only
  split
  · exact ⟨_, Or.inl rfl⟩
  · split
    · exact ⟨_, Or.inl rfl⟩
    · split
      · exact ⟨_, Or.inr ⟨_, rfl⟩⟩
      · exact ⟨_, Or.inl rfl⟩

theorem bal_advance (G : Grammar) (T : Tables) (nx c : EState)
    (hks : T.chart.length = T.processed.length) : Bal T (advance G T nx c) := by
  obtain ⟨st', h | ⟨ns, h⟩⟩ := advance_shape G T nx c
  · rw [h]; exact bal_store T st'
  · rw [h]; exact (bal_store T st').trans (bal_push G _ c.e ns hks)

theorem bal_foldl {α : Type} (step : Tables → α → Tables)
    (hstep : ∀ T a, T.chart.length = T.processed.length → Bal T (step T a)) :
    ∀ (l : List α) (T : Tables), T.chart.length = T.processed.length → Bal T (l.foldl step T) := by
  intro l
  induction l with
  | nil => intro T _; exact Bal.refl T
  | cons a l ih =>
    intro T hks
    rw [List.foldl_cons]
    have h1 := hstep T a hks
    exact h1.trans (ih _ (by rw [h1.lc, h1.lp]; exact hks))

theorem bal_scanner (G : Grammar) (T : Tables) (s : EState)
    (hks : T.chart.length = T.processed.length) : Bal T (scanner G T s) :=
  bal_push G T _ _ hks

theorem bal_completer (G : Grammar) (T : Tables) (s : EState)
    (hks : T.chart.length = T.processed.length) : Bal T (completer G T s) := by
  unfold completer
  simp only
  refine bal_foldl _ (fun T' nx hks' => ?_) _ T hks
  split
  · exact bal_advance G T' nx s hks'
  · exact Bal.refl T'

theorem bal_predictor (G : Grammar) (T : Tables) (s : EState)
    (hks : T.chart.length = T.processed.length) : Bal T (predictor G T s) := by
  unfold predictor
  split
  · rename_i v _
    simp only
    have h1 : Bal T (List.foldl (fun T pk =>
        if pk.1.head = v then pushIfNew G T s.e
          { prod := pk.2, b := s.e, e := s.e, dot := 0, fs := pk.1.feats } else T) T
        (G.prods.zip (List.range G.prods.length))) := by
      refine bal_foldl _ (fun T' pk hks' => ?_) _ T hks
      split
      · exact bal_push G T' _ _ hks'
      · exact Bal.refl T'
    refine h1.trans ?_
    refine bal_foldl _ (fun T' c hks' => ?_) _ _ (by rw [h1.lc, h1.lp]; exact hks)
    split
    · exact bal_advance G T' s c hks'
    · exact Bal.refl T'
  · exact Bal.refl T

theorem bal_procOne (G : Grammar) (word : List String) (i : Nat) (T : Tables) (s : EState)
    (hks : T.chart.length = T.processed.length) : Bal T (procOne G word i T s) := by
  unfold procOne
  split
  · split
    · exact bal_predictor G T s hks
    · split
      · exact bal_scanner G T s hks
      · exact Bal.refl T
    · exact Bal.refl T
  · exact bal_completer G T s hks

/-! ### counting -/

theorem flen_le (M : Nat) : ∀ d : Dict, (∀ e ∈ d, e.2.length ≤ M) → flen d ≤ d.length * M
  | [], _ => by simp [flen]
  | e :: d, h => by
    have hc : flen (e :: d) = e.2.length + flen d := by simp [flen, List.flatMap_cons]
    have h1 := flen_le M d (fun e' he' => h e' (List.mem_cons_of_mem _ he'))
    have h2 := h e (List.mem_cons_self ..)
    rw [hc, List.length_cons, Nat.succ_mul]; omega

/-- the keys of column `j`: production index, begin, end `j`, dot -/
def KeyIn (S W L j : Nat) (k : Key) : Prop := k.1 ≤ S ∧ k.2.1 ≤ W ∧ k.2.2.1 = j ∧ k.2.2.2 ≤ L

theorem keys_le {S W L j : Nat} (ks : List Key) (hnd : ks.Nodup)
    (hin : ∀ k ∈ ks, KeyIn S W L j k) : ks.length ≤ (S + 1) * (W + 1) * (L + 1) := by
  let f : Key → Fin (S + 1) × Fin (W + 1) × Fin (L + 1) := fun k =>
    (⟨k.1 % (S + 1), Nat.mod_lt _ (by omega)⟩, ⟨k.2.1 % (W + 1), Nat.mod_lt _ (by omega)⟩,
      ⟨k.2.2.2 % (L + 1), Nat.mod_lt _ (by omega)⟩)
  have hmap : (ks.map f).Nodup := by
    refine List.Nodup.map_on ?_ hnd
    intro x hx y hy hxy
    obtain ⟨a1, a2, a3, a4⟩ := hin x hx
    obtain ⟨b1, b2, b3, b4⟩ := hin y hy
    simp only [f, Prod.mk.injEq, Fin.mk.injEq] at hxy
    obtain ⟨e1, e2, e3⟩ := hxy
    rw [Nat.mod_eq_of_lt (by omega), Nat.mod_eq_of_lt (by omega)] at e1 e2 e3
    obtain ⟨x1, x2, x3, x4⟩ := x
    obtain ⟨y1, y2, y3, y4⟩ := y
    simp only at a3 b3 e1 e2 e3
    subst e1 e2 e3 a3 b3
    rfl
  have := hmap.length_le_card
  simpa [Fintype.card_prod, Nat.mul_assoc] using this

/-! ### the strengthened invariant -/

/-- side conditions on the parameters `vals` (the value domain) and `L` (the longest body) -/
structure TC (C : Ctx) (vals : List String) (L : Nat) : Prop where
  pvals : ∀ v, C.P v → v ∈ vals
  body : ∀ k, (prodOf C.G k).body.length ≤ L

structure TB (C : Ctx) (vals : List String) (L : Nat) (T : Tables) (rk : Nat → Nat)
    (X : List (Nat × EState)) : Prop where
  base : Base C T rk X
  len2 : 2 ≤ T.store.length
  rlc : ∀ j s, s ∈ colGet T.chart j → RootLab T.store s.fs L
  rlp : ∀ j s, s ∈ procStates T j → RootLab T.store s.fs L
  rlx : ∀ e ∈ X, RootLab T.store e.2.fs L
  rlo : ∀ (k : Nat) (p : FProd), C.G.prods[k]? = some p → RootLab T.store p.feats L
  kn : ∀ j, ((colGet T.processed j).map (·.1)).Nodup
  kr : ∀ j, ∀ e ∈ colGet T.processed j, KeyIn C.spec.length C.word.length L j e.1
  pn : ∀ j, ∀ e ∈ colGet T.processed j, (e.2.map fun o => pat vals L T.store o.fs).Nodup

/-- the bound on the number of processed states of a column -/
def colBound (S W L m : Nat) : Nat :=
  (S + 1) * (W + 1) * (L + 1) * (2 ^ (L + 1) * (2 ^ (L + 1) * (m + 3))) ^ (L + 1)

theorem TB.acc_le {C : Ctx} {vals : List String} {L : Nat} {T : Tables} {rk : Nat → Nat}
    {X : List (Nat × EState)} (h : TB C vals L T rk X) (j : Nat) :
    acc T j ≤ colBound C.spec.length C.word.length L vals.length := by
  rw [acc_eq]
  have h1 : ∀ e ∈ colGet T.processed j, e.2.length ≤ Fintype.card (PatT L vals.length) := by
    intro e he
    have := (h.pn j e he).length_le_card
    simpa using this
  have h2 := flen_le _ _ h1
  have h3 : (colGet T.processed j).length ≤ (C.spec.length + 1) * (C.word.length + 1) * (L + 1) := by
    have := keys_le _ (h.kn j) (fun k hk => by
      rw [List.mem_map] at hk
      obtain ⟨e, he, rfl⟩ := hk
      exact h.kr j e he)
    simpa using this
  rw [card_patT] at h2
  unfold colBound
  exact Nat.le_trans h2 (Nat.mul_le_mul_right _ h3)

theorem TB.weaken {C : Ctx} {vals : List String} {L : Nat} {T : Tables} {rk : Nat → Nat}
    {X X' : List (Nat × EState)} (h : TB C vals L T rk X) (hsub : ∀ e ∈ X', e ∈ X) :
    TB C vals L T rk X' :=
  ⟨h.base.weaken hsub, h.len2, h.rlc, h.rlp, fun e he => h.rlx e (hsub e he), h.rlo, h.kn, h.kr,
    h.pn⟩

theorem TB.withProc {C : Ctx} {vals : List String} {L : Nat} {T : Tables} {rk : Nat → Nat}
    {X : List (Nat × EState)} (h : TB C vals L T rk X) (j : Nat) :
    TB C vals L T rk (X ++ (procStates T j).map fun nx => (j, nx)) := by
  refine ⟨h.base.withProc j, h.len2, h.rlc, h.rlp, ?_, h.rlo, h.kn, h.kr, h.pn⟩
  intro e he
  rcases List.mem_append.1 he with he | he
  · exact h.rlx e he
  · rw [List.mem_map] at he
    obtain ⟨nx, hnx, rfl⟩ := he
    exact h.rlp _ _ hnx

theorem mem_proc_of_entry {T : Tables} {j : Nat} {e : Key × List EState} {o : EState}
    (he : e ∈ colGet T.processed j) (ho : o ∈ e.2) : o ∈ procStates T j :=
  List.mem_flatMap.2 ⟨e, he, ho⟩

/-- a later store with the same tables -/
theorem TB.store {C : Ctx} {vals : List String} {L : Nat} {T : Tables} {rk rk' : Nat → Nat}
    {X : List (Nat × EState)} (h : TB C vals L T rk X) {st' : Store}
    (hB' : Base C { T with store := st' } rk' X) (hf : Fr T.store st') :
    TB C vals L { T with store := st' } rk' X := by
  have hw := h.base.inv.wf
  have ha := hw.inv.acyc
  have hr := hw.rng
  refine ⟨hB', Nat.le_trans h.len2 hf.len, ?_, ?_, ?_, ?_, h.kn, h.kr, ?_⟩
  · intro j s hs
    exact rootLab_fr hf ha hr (h.base.inv.chart j s hs).fs_lt (h.rlc j s hs)
  · intro j s hs
    exact rootLab_fr hf ha hr (h.base.inv.proc j s hs).fs_lt (h.rlp j s hs)
  · intro e he
    exact rootLab_fr hf ha hr (h.base.inv.extra e he).fs_lt (h.rlx e he)
  · intro k p hp
    exact rootLab_fr hf ha hr (h.base.inv.objs k p hp).1 (h.rlo k p hp)
  · intro j e he
    have := h.pn j e he
    have hcongr : (e.2.map fun o => pat vals L st' o.fs) = e.2.map fun o => pat vals L T.store o.fs := by
      apply List.map_congr_left
      intro o ho
      exact pat_fr hf ha hr (h.base.inv.proc j o (mem_proc_of_entry he ho)).fs_lt
    show (e.2.map fun o => pat vals L st' o.fs).Nodup
    rw [hcongr]; exact this

theorem TB.pop {C : Ctx} {vals : List String} {L : Nat} {T : Tables} {rk : Nat → Nat}
    (h : TB C vals L T rk []) {i : Nat} {s : EState} (hs : s ∈ colGet T.chart i) :
    TB C vals L (popT T i) rk [(i, s)] := by
  have hsub : ∀ j s', s' ∈ colGet (popT T i).chart j → s' ∈ colGet T.chart j := by
    intro j s' hm
    unfold popT at hm
    simp only at hm
    rcases mem_colGet_set hm with ⟨rfl, h2⟩ | h2
    · exact List.dropLast_subset _ h2
    · exact h2
  refine ⟨pop_base h.base hs, h.len2, fun j s' hm => h.rlc j s' (hsub j s' hm), h.rlp, ?_, h.rlo,
    h.kn, h.kr, h.pn⟩
  intro e he
  simp only [List.mem_singleton] at he; subst he
  exact h.rlc i s hs

/-! ### `procAdd` on the column -/

/-- the states already stored under the key of `s` -/
def existingOf (G : Grammar) (T : Tables) (i : Nat) (s : EState) : List EState :=
  match (colGet T.processed i).find? (·.1 = keyOf G s) with
  | some e => e.2
  | none => []

theorem procAdd_dict (G : Grammar) (T : Tables) (i : Nat) (s : EState)
    (hi : i < T.processed.length) (Q : Dict → Prop)
    (h1 : Q (colGet T.processed i))
    (h2 : (colGet T.processed i).any (·.1 = keyOf G s) = false →
      Q (colGet T.processed i ++ [(keyOf G s, [])]))
    (h3 : ((existingOf G T i s).any fun o => subsumes T.store o.fs s.fs) = false →
      (colGet T.processed i).any (·.1 = keyOf G s) = true →
      Q ((colGet T.processed i).map fun e => if e.1 = keyOf G s then (e.1, e.2 ++ [s]) else e))
    (h4 : (colGet T.processed i).any (·.1 = keyOf G s) = false →
      Q (colGet T.processed i ++ [(keyOf G s, [s])])) :
    Q (colGet (procAdd G T i s).1.processed i) := by
  unfold procAdd
  simp only
  split_ifs with c1 c2 c3
  · simp only; rw [colGet_set_self _ hi]; exact h1
  · simp only; rw [colGet_set_self _ hi]; exact h2 (Bool.eq_false_iff.2 c2)
  · simp only; rw [colGet_set_self _ hi]
    exact h3 (Bool.eq_false_iff.2 c1) c3
  · simp only; rw [colGet_set_self _ hi]; exact h4 (Bool.eq_false_iff.2 c3)

theorem find_key : ∀ {d : Dict}, (d.map (·.1)).Nodup → ∀ {e : Key × List EState}, e ∈ d →
    d.find? (fun x => decide (x.1 = e.1)) = some e
  | [], _, _, he => by simp at he
  | x :: d, hnd, e, he => by
    rw [List.map_cons, List.nodup_cons] at hnd
    rw [List.find?_cons]
    by_cases hx : x.1 = e.1
    · simp only [hx, decide_true]
      rcases List.mem_cons.1 he with h | h
      · rw [h]
      · exfalso; apply hnd.1; rw [hx]; exact List.mem_map.2 ⟨e, h, rfl⟩
    · simp only [hx, decide_false]
      rcases List.mem_cons.1 he with h | h
      · exact absurd (by rw [h]) hx
      · exact find_key hnd.2 h

theorem procAdd_col_ne (G : Grammar) (T : Tables) (i : Nat) (s : EState) {j : Nat} (hj : j ≠ i) :
    colGet (procAdd G T i s).1.processed j = colGet T.processed j := by
  obtain ⟨d', hd, _⟩ := procAdd_eq G T i s
  rw [hd]
  simp only
  exact colGet_set_ne _ (Ne.symm hj)

theorem TB.push {C : Ctx} {vals : List String} {L : Nat} (hc : TC C vals L) {T : Tables}
    {rk : Nat → Nat} {X : List (Nat × EState)} (h : TB C vals L T rk X) {i : Nat} {s : EState}
    (hi : i < C.word.length + 1) (hs : StOK C T.store rk i s)
    (hp : HasPaths C T.store s.fs s.prod) (hrl : RootLab T.store s.fs L) (hdot : s.dot ≤ L) :
    TB C vals L (pushIfNew C.G T i s) rk X := by
  have hst := pushIfNew_store C.G T i s
  have hB := h.base
  have hil : i < T.processed.length := by rw [hB.lenp]; exact hi
  have hkey : KeyIn C.spec.length C.word.length L i (keyOf C.G s) := by
    refine ⟨hs.prod_le, ?_, hs.e_eq, hdot⟩
    have h1 := hs.ble; have h2 := hs.e_eq
    show s.b ≤ C.word.length
    omega
  refine ⟨pushIfNew_base hB hs hp, by rw [hst]; exact h.len2, ?_, ?_, by rw [hst]; exact h.rlx,
    by rw [hst]; exact h.rlo, ?_, ?_, ?_⟩
  · intro j s' hm
    rw [hst]
    rw [pushIfNew_chart] at hm
    split at hm
    · rcases mem_colGet_set hm with ⟨rfl, h2⟩ | h2
      · rcases List.mem_append.1 h2 with h3 | h3
        · exact h.rlc _ s' h3
        · simp only [List.mem_singleton] at h3; subst h3; exact hrl
      · exact h.rlc j s' h2
    · exact h.rlc j s' hm
  · intro j s' hm
    rw [hst]
    rw [pushIfNew_proc] at hm
    rcases procAdd_states C.G T i s j s' hm with ⟨rfl, rfl⟩ | h2
    · exact hrl
    · exact h.rlp j s' h2
  · intro j
    rw [pushIfNew_processed]
    by_cases hj : j = i
    · subst hj
      refine procAdd_dict C.G T j s hil (fun d => (d.map (·.1)).Nodup) (h.kn j) ?_ ?_ ?_
      · intro hno
        rw [List.map_append, List.nodup_append]
        refine ⟨h.kn j, by simp, ?_⟩
        intro a ha b hb
        simp only [List.map_cons, List.map_nil, List.mem_singleton] at hb
        subst hb
        rw [List.mem_map] at ha
        obtain ⟨e, he, rfl⟩ := ha
        intro heq
        have := List.any_eq_false.1 hno e he
        simp [heq] at this
      · intro _ _
        have : ((colGet T.processed j).map fun e =>
            if e.1 = keyOf C.G s then (e.1, e.2 ++ [s]) else e).map (·.1) =
            (colGet T.processed j).map (·.1) := by
          rw [List.map_map]
          apply List.map_congr_left
          intro e _
          simp only [Function.comp]
          split <;> rfl
        rw [this]; exact h.kn j
      · intro hno
        rw [List.map_append, List.nodup_append]
        refine ⟨h.kn j, by simp, ?_⟩
        intro a ha b hb
        simp only [List.map_cons, List.map_nil, List.mem_singleton] at hb
        subst hb
        rw [List.mem_map] at ha
        obtain ⟨e, he, rfl⟩ := ha
        intro heq
        have := List.any_eq_false.1 hno e he
        simp [heq] at this
    · rw [procAdd_col_ne C.G T i s hj]; exact h.kn j
  · intro j
    rw [pushIfNew_processed]
    by_cases hj : j = i
    · subst hj
      refine procAdd_dict C.G T j s hil
        (fun d => ∀ e ∈ d, KeyIn C.spec.length C.word.length L j e.1) (h.kr j) ?_ ?_ ?_
      · intro _ e he
        rcases List.mem_append.1 he with he | he
        · exact h.kr j e he
        · simp only [List.mem_singleton] at he; subst he; exact hkey
      · intro _ _ e he
        rw [List.mem_map] at he
        obtain ⟨e0, he0, rfl⟩ := he
        split
        · exact h.kr j e0 he0
        · exact h.kr j e0 he0
      · intro _ e he
        rcases List.mem_append.1 he with he | he
        · exact h.kr j e he
        · simp only [List.mem_singleton] at he; subst he; exact hkey
    · rw [procAdd_col_ne C.G T i s hj]; exact h.kr j
  · intro j e0 he0
    rw [pushIfNew_processed] at he0
    rw [hst]
    revert e0
    by_cases hj : j = i
    · subst hj
      refine procAdd_dict C.G T j s hil
        (fun d => ∀ e ∈ d, (e.2.map fun o => pat vals L T.store o.fs).Nodup) (h.pn j) ?_ ?_ ?_
      · intro _ e he
        rcases List.mem_append.1 he with he | he
        · exact h.pn j e he
        · simp only [List.mem_singleton] at he; subst he; simp
      · intro hsub _ e he
        rw [List.mem_map] at he
        obtain ⟨e0, he0, rfl⟩ := he
        split
        · rename_i hk
          simp only
          rw [List.map_append, List.nodup_append]
          refine ⟨h.pn j e0 he0, by simp, ?_⟩
          intro a ha b hb
          simp only [List.map_cons, List.map_nil, List.mem_singleton] at hb
          subst hb
          rw [List.mem_map] at ha
          obtain ⟨o, ho, rfl⟩ := ha
          intro heq
          -- `o` is stored under the key of `s`, was not found to subsume `s`
          have hfind : existingOf C.G T j s = e0.2 := by
            unfold existingOf
            have := find_key (h.kn j) he0
            rw [hk] at this
            rw [this]
          rw [hfind] at hsub
          have hns := List.any_eq_false.1 hsub o ho
          have hoOK := hB.inv.proc j o (mem_proc_of_entry he0 ho)
          have := subsumes_of_pat (vals := vals) (L := L) hB.inv.wf hB.sx.kf hB.sx.alln
            (fun n v hv => hc.pvals v (hB.sx.ap n v hv)) h.len2 hoOK.rk2 hs.rk2
            (h.rlp j o (mem_proc_of_entry he0 ho)) heq
          rw [this] at hns
          simp at hns
        · exact h.pn j e0 he0
      · intro _ e he
        rcases List.mem_append.1 he with he | he
        · exact h.pn j e he
        · simp only [List.mem_singleton] at he; subst he; simp
    · rw [procAdd_col_ne C.G T i s hj]; exact h.pn j

end Term
end Earley
end Pfl
