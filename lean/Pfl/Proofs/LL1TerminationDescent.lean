/-
Termination of the stack machine of `get_llone_parse_tree`, part 2: the order in which the
symbols under one lookahead descend.

`descent`: when the variable `v` is expanded under the lookahead `a` by the ONLY production of its
cell, every symbol of the body that can come on top of the stack before any input is consumed
(all symbols before it lack `a` in FIRST, as they must when they are popped without consuming
input) is strictly smaller than `v` for `phi`: first the class "nullable with `a` in FOLLOW" below
the other class, then the height of the least justification (of nullability in the first class, of
`a ∈ FIRST` in the second).  The reason is always that a second production would otherwise sit in
the cell.  `nofirst`: a variable whose body symbols all lack `a` in FIRST lacks it as well.
-/
import Pfl.Proofs.LL1TerminationSets
import Mathlib.Data.Nat.Find
namespace Pfl
namespace LL1Lib
namespace Term
open CFG Lem

/-- the lookahead: the next input symbol or the end marker -/
def look : List String → Look
  | a :: _ => .ter a
  | [] => .eof

theorem look_ne_eps (w : List String) : look w ≠ Look.eps := by
  cases w <;> (intro h; cases h)

/-- the table cell of row `v` and column `a` -/
def cell (tb : List (String × Look × Pfl.Prod)) (v : String) (a : Look) :
    List (String × Look × Pfl.Prod) :=
  tb.filter fun e => e.1 = v ∧ e.2.1 = a

theorem mem_cell (tb : List (String × Look × Pfl.Prod)) (v : String) (a : Look)
    (e : String × Look × Pfl.Prod) : e ∈ cell tb v a ↔ e ∈ tb ∧ e.1 = v ∧ e.2.1 = a := by
  unfold cell
  simp only [List.mem_filter, decide_eq_true_eq]

/-! ### least heights -/

open Classical in
/-- the height of the least justification of `a ∈ FIRST(s)` (0 when there is none) -/
noncomputable def rk (G : CFG) (a : Look) (s : Sym) : Nat :=
  if h : ∃ n, FJ G n s a then Nat.find h else 0

theorem rk_spec {G : CFG} {a : Look} {s : Sym} {n : Nat} (h : FJ G n s a) :
    FJ G (rk G a s) s a ∧ rk G a s ≤ n := by
  classical
  have hex : ∃ n, FJ G n s a := ⟨n, h⟩
  unfold rk
  rw [dif_pos hex]
  exact ⟨Nat.find_spec hex, Nat.find_min' hex h⟩

/-- the lexicographic order on pairs of numbers -/
def lt (p q : Nat × Nat) : Prop := p.1 < q.1 ∨ (p.1 = q.1 ∧ p.2 < q.2)

theorem lt_irrefl (p : Nat × Nat) : ¬ lt p p := by
  rintro (h | ⟨_, h⟩) <;> omega

theorem lt_trans {p q r : Nat × Nat} (h1 : lt p q) (h2 : lt q r) : lt p r := by
  unfold lt at *
  omega

/-- class 1: nullable, and the lookahead is in FOLLOW -/
def T1 (f : Sym → List Look) (fo : Option Sym → List Look) (a : Look) (s : Sym) : Prop :=
  Look.eps ∈ f s ∧ a ∈ fo (some s)

open Classical in
noncomputable def phi (G : CFG) (f : Sym → List Look) (fo : Option Sym → List Look) (a : Look)
    (s : Sym) : Nat × Nat :=
  if T1 f fo a s then (0, rk G .eps s) else (1, rk G a s)

section
variable {G : CFG} {tb : List (String × Look × Pfl.Prod)} {f : Sym → List Look}
  {fo : Option Sym → List Look}

/-- what the single entry of a cell is -/
theorem cell_single (H : Facts G tb f fo) {v : String} {a : Look} {e : String × Look × Pfl.Prod}
    (ha : a ≠ Look.eps) (hc : cell tb v a = [e]) :
    e.2.2 ∈ G.prods ∧ e.2.2.1 = v ∧
      (Lem.Reach f e.2.2.2 a ∨ ((∀ y ∈ e.2.2.2, Look.eps ∈ f y) ∧ a ∈ fo (some (.var v)))) ∧
      ∀ q, (v, a, q) ∈ tb → q = e.2.2 := by
  have he : e ∈ cell tb v a := by rw [hc]; exact List.mem_singleton.mpr rfl
  obtain ⟨hetb, h1, h2⟩ := (mem_cell tb v a e).mp he
  have hetb' : (v, a, e.2.2) ∈ tb := by
    have : e = (v, a, e.2.2) := by
      rcases e with ⟨e1, e2, e3⟩
      simp only at h1 h2
      rw [h1, h2]
    rw [← this]; exact hetb
  obtain ⟨hp, hv, hpred⟩ := (H.tb_iff v a e.2.2 ha).mp hetb'
  refine ⟨hp, hv.symm, ?_, ?_⟩
  · rw [hv]; exact hpred
  · intro q hq
    have : (v, a, q) ∈ cell tb v a := (mem_cell tb v a _).mpr ⟨hq, rfl, rfl⟩
    rw [hc] at this
    have := List.mem_singleton.mp this
    rw [← this]

/-- the FIRST set of a terminal holds no ε -/
theorem eps_not_ter (H : Facts G tb f fo) (t : String) : Look.eps ∉ f (.ter t) := by
  intro h
  obtain ⟨n, hj⟩ := H.just _ _ h
  cases hj.ter_inv

/-- a variable with `a` in FIRST, expanded by the only production of its cell: that production
carries the least justification -/
theorem first_witness (H : Facts G tb f fo) {v : String} {a : Look} {e : String × Look × Pfl.Prod}
    (ha : a ≠ Look.eps) (hc : cell tb v a = [e]) (hf : a ∈ f (.var v)) :
    ∃ m α Z β, rk G a (.var v) = m + 1 ∧ e.2.2.2 = α ++ Z :: β ∧ (∀ s ∈ α, FJ G m s .eps) ∧
      FJ G m Z a := by
  obtain ⟨n, hj⟩ := H.just _ _ hf
  obtain ⟨m, body, α, Z, β, hm, hp, hb, h1, h2⟩ := (rk_spec hj).1.first_inv ha
  have hter : ∀ t, Sym.ter t ∈ body → t ∈ G.ters := fun t ht => H.wf.ter_mem _ hp t ht
  have hr : Lem.Reach f body a := by
    rw [hb]
    refine reach_of_split α Z β ?_ ?_
    · intro s hs
      exact H.mem m s _ (h1 s hs) (fun t e' => hter t (by rw [hb]; exact e' ▸ List.mem_append_left _ hs))
    · exact H.mem m Z a h2 (fun t e' => hter t (by rw [hb, e']; simp))
  have hin : (v, a, (v, body)) ∈ tb := (H.tb_iff v a (v, body) ha).mpr ⟨hp, rfl, Or.inl hr⟩
  have := (cell_single H ha hc).2.2.2 _ hin
  refine ⟨m, α, Z, β, hm, ?_, h1, h2⟩
  rw [← this]; exact hb

/-- a nullable variable with `a` in FOLLOW, expanded by the only production of its cell: that
production carries the least justification of nullability -/
theorem eps_witness (H : Facts G tb f fo) {v : String} {a : Look} {e : String × Look × Pfl.Prod}
    (ha : a ≠ Look.eps) (hc : cell tb v a = [e]) (hT : T1 f fo a (.var v)) :
    ∃ m, rk G .eps (.var v) = m + 1 ∧ ∀ s ∈ e.2.2.2, FJ G m s .eps := by
  obtain ⟨n, hj⟩ := H.just _ _ hT.1
  obtain ⟨m, body, hm, hp, hb⟩ := (rk_spec hj).1.eps_inv
  have hall : ∀ y ∈ body, Look.eps ∈ f y := by
    intro y hy
    exact H.mem m y _ (hb y hy) (fun t e' => H.wf.ter_mem _ hp t (e' ▸ hy))
  have hin : (v, a, (v, body)) ∈ tb :=
    (H.tb_iff v a (v, body) ha).mpr ⟨hp, rfl, Or.inr ⟨hall, hT.2⟩⟩
  have := (cell_single H ha hc).2.2.2 _ hin
  refine ⟨m, hm, ?_⟩
  rw [← this]; exact hb

/-- a variable all of whose body symbols lack `a` in FIRST lacks it as well -/
theorem nofirst (H : Facts G tb f fo) {v : String} {a : Look} {e : String × Look × Pfl.Prod}
    (ha : a ≠ Look.eps) (hc : cell tb v a = [e]) (hn : ∀ y ∈ e.2.2.2, a ∉ f y) : a ∉ f (.var v) := by
  intro hf
  obtain ⟨m, α, Z, β, _, hb, _, h2⟩ := first_witness H ha hc hf
  have hp := (cell_single H ha hc).1
  have hZ : Z ∈ e.2.2.2 := by rw [hb]; simp
  exact hn Z hZ (H.mem m Z a h2 (fun t e' => H.wf.ter_mem _ hp t (e' ▸ hZ)))

/-- the descent of `phi` along the symbols that can surface before input is consumed -/
theorem descent (H : Facts G tb f fo) {v : String} {a : Look} {e : String × Look × Pfl.Prod}
    (ha : a ≠ Look.eps) (hc : cell tb v a = [e]) (pre : List Sym) (s : Sym) (post : List Sym)
    (hb : e.2.2.2 = pre ++ s :: post) (hpre : ∀ y ∈ pre, a ∉ f y) :
    lt (phi G f fo a s) (phi G f fo a (.var v)) := by
  classical
  obtain ⟨hp, hv, hpred, _⟩ := cell_single H ha hc
  have hter : ∀ t, Sym.ter t ∈ e.2.2.2 → t ∈ G.ters := fun t ht => H.wf.ter_mem _ hp t ht
  by_cases hT : T1 f fo a (.var v)
  · -- class 1: the whole body is nullable with `a` in FOLLOW, at smaller heights
    obtain ⟨m, hm, hall⟩ := eps_witness H ha hc hT
    have hs : s ∈ e.2.2.2 := by rw [hb]; simp
    have hmem : ∀ y ∈ e.2.2.2, Look.eps ∈ f y := fun y hy =>
      H.mem m y _ (hall y hy) (fun t e' => hter t (e' ▸ hy))
    have hTs : T1 f fo a s := by
      refine ⟨hmem s hs, ?_⟩
      refine H.fo2 _ hp pre s post a hb (fun y hy => hmem y (by rw [hb]; simp [hy])) ?_
      rw [hv]; exact hT.2
    unfold phi
    rw [if_pos hTs, if_pos hT]
    right
    refine ⟨rfl, ?_⟩
    have := (rk_spec (hall s hs)).2
    show rk G Look.eps s < rk G Look.eps (Sym.var v)
    omega
  · -- class 2
    have hr : Lem.Reach f e.2.2.2 a := by
      rcases hpred with h | ⟨h1, h2⟩
      · exact h
      · exfalso
        apply hT
        refine ⟨?_, h2⟩
        obtain ⟨n, g⟩ := FJ.all_common e.2.2.2 (fun y hy => H.just _ _ (h1 y hy))
        have := H.mem (n + 1) (.var e.2.2.1) .eps (.eps n e.2.2.1 e.2.2.2 hp g) (by intro t e'; cases e')
        rw [hv] at this; exact this
    have hf : a ∈ f (.var v) := by
      obtain ⟨α, Z, β, e1, h1, h2⟩ := reach_split hr
      obtain ⟨n1, g1⟩ := FJ.all_common α (fun y hy => H.just _ _ (h1 y hy))
      obtain ⟨n2, g2⟩ := H.just _ _ h2
      have := H.mem (max n1 n2 + 1) (.var e.2.2.1) a
        (.first _ e.2.2.1 e.2.2.2 α Z β a hp e1 (fun y hy => (g1 y hy).mono _ (Nat.le_max_left _ _))
          (g2.mono _ (Nat.le_max_right _ _)) ha) (by intro t e'; cases e')
      rw [hv] at this; exact this
    obtain ⟨m, α, Z, β, hm, hb', h1, h2⟩ := first_witness H ha hc hf
    have hZf : a ∈ f Z := H.mem m Z a h2 (fun t e' => hter t (by rw [hb', e']; simp))
    have hαf : ∀ y ∈ α, Look.eps ∈ f y := fun y hy =>
      H.mem m y _ (h1 y hy) (fun t e' => hter t (by rw [hb']; exact e' ▸ List.mem_append_left _ hy))
    unfold phi
    rw [if_neg hT]
    -- where is `s` with respect to `Z`?
    have hsplit : pre ++ s :: post = α ++ Z :: β := by rw [← hb, hb']
    rcases List.append_eq_append_iff.mp hsplit with ⟨a', e1, e2⟩ | ⟨c', e1, e2⟩
    · -- `α = pre ++ a'`, `s :: post = a' ++ Z :: β`
      cases a' with
      | nil =>
        simp only [List.nil_append, List.cons.injEq] at e2
        obtain ⟨rfl, _⟩ := e2
        by_cases hTs : T1 f fo a s
        · rw [if_pos hTs]; left; show (0 : Nat) < 1; omega
        · rw [if_neg hTs]; right
          refine ⟨rfl, ?_⟩
          have := (rk_spec h2).2
          show rk G a s < rk G a (Sym.var v)
          omega
      | cons x a'' =>
        simp only [List.cons_append, List.cons.injEq] at e2
        obtain ⟨rfl, e2⟩ := e2
        have hsα : s ∈ α := by rw [e1]; simp
        have hTs : T1 f fo a s := by
          refine ⟨hαf s hsα, ?_⟩
          refine H.fo1 _ hp pre s post a hb ha ?_
          rw [e2]
          exact reach_of_split a'' Z β (fun y hy => hαf y (by rw [e1]; simp [hy])) hZf
        rw [if_pos hTs]; left; show (0 : Nat) < 1; omega
    · -- `pre = α ++ c'`, `Z :: β = c' ++ s :: post`
      cases c' with
      | nil =>
        simp only [List.nil_append, List.cons.injEq] at e2
        obtain ⟨rfl, _⟩ := e2
        by_cases hTs : T1 f fo a Z
        · rw [if_pos hTs]; left; show (0 : Nat) < 1; omega
        · rw [if_neg hTs]; right
          refine ⟨rfl, ?_⟩
          have := (rk_spec h2).2
          show rk G a Z < rk G a (Sym.var v)
          omega
      | cons x c'' =>
        simp only [List.cons_append, List.cons.injEq] at e2
        obtain ⟨rfl, _⟩ := e2
        exact absurd hZf (hpre Z (by rw [e1]; simp))

end

end Term
end LL1Lib
end Pfl
