/-
Helper lemmas for C09 (clean-up transformations of context-free grammars).
-/
import Pfl.Proofs.CFGBase
import Pfl.Props.C12_Classes
import Mathlib.Data.List.ProdSigma
namespace Pfl
namespace CFG
namespace Clean

/-! ### simultaneous induction on `Gen` / `GenList` -/

theorem gen_ind {G : CFG} {P : Sym → List String → Prop} {Q : List Sym → List String → Prop}
    (hter : ∀ t, P (.ter t) [t])
    (hvar : ∀ h body w, (h, body) ∈ G.prods → G.GenList body w → Q body w → P (.var h) w)
    (hnil : Q [] [])
    (hcons : ∀ s u w₁ w₂, G.Gen s w₁ → G.GenList u w₂ → P s w₁ → Q u w₂ → Q (s :: u) (w₁ ++ w₂)) :
    (∀ s w, G.Gen s w → P s w) ∧ (∀ u w, G.GenList u w → Q u w) :=
  ⟨fun _ _ h => Gen.rec (motive_1 := fun s w _ => P s w) (motive_2 := fun u w _ => Q u w)
      hter (fun hp hb ih => hvar _ _ _ hp hb ih) hnil
      (fun hs hu ih₁ ih₂ => hcons _ _ _ _ hs hu ih₁ ih₂) h,
   fun _ _ h => GenList.rec (motive_1 := fun s w _ => P s w) (motive_2 := fun u w _ => Q u w)
      hter (fun hp hb ih => hvar _ _ _ hp hb ih) hnil
      (fun hs hu ih₁ ih₂ => hcons _ _ _ _ hs hu ih₁ ih₂) h⟩

theorem genList_nil_inv {G : CFG} {w : List String} (h : G.GenList [] w) : w = [] := by
  cases h; rfl

theorem genList_cons_inv {G : CFG} {s : Sym} {u : List Sym} {w : List String}
    (h : G.GenList (s :: u) w) : ∃ w₁ w₂, w = w₁ ++ w₂ ∧ G.Gen s w₁ ∧ G.GenList u w₂ := by
  cases h with
  | cons h₁ h₂ => exact ⟨_, _, rfl, h₁, h₂⟩

theorem gen_ter_inv {G : CFG} {t : String} {w : List String} (h : G.Gen (.ter t) w) : w = [t] := by
  cases h; rfl

theorem gen_var_inv {G : CFG} {v : String} {w : List String} (h : G.Gen (.var v) w) :
    ∃ body, (v, body) ∈ G.prods ∧ G.GenList body w := by
  cases h with
  | var hp hb => exact ⟨_, hp, hb⟩

theorem genList_single {G : CFG} {s : Sym} {w : List String} (h : G.Gen s w) : G.GenList [s] w := by
  have := GenList.cons h GenList.nil
  simpa using this

/-! ### `mk'` -/

theorem mk'_prods_eq (vars ters : List String) (start : Option String) (prods : List Prod) :
    (mk' vars ters start prods).prods = prods := rfl

theorem mk'_start_eq (vars ters : List String) (start : Option String) (prods : List Prod) :
    (mk' vars ters start prods).start = start := rfl

theorem mk'_wf (vars ters : List String) (start : Option String) (prods : List Prod) :
    (mk' vars ters start prods).WF := by
  constructor
  · intro p hp
    simp only [mk', List.mem_eraseDups, List.mem_append, List.mem_flatMap]
    exact Or.inr ⟨p, hp, List.mem_cons_self⟩
  · intro p hp v hv
    simp only [mk', List.mem_eraseDups, List.mem_append, List.mem_flatMap]
    refine Or.inr ⟨p, hp, List.mem_cons_of_mem _ ?_⟩
    exact List.mem_filterMap.mpr ⟨_, hv, rfl⟩
  · intro p hp t ht
    simp only [mk', List.mem_eraseDups, List.mem_append, List.mem_flatMap]
    refine Or.inr ⟨p, hp, ?_⟩
    exact List.mem_filterMap.mpr ⟨_, ht, rfl⟩
  · intro s hs
    simp only [mk'] at hs
    simp only [mk', List.mem_eraseDups, List.mem_append, List.mem_flatMap]
    exact Or.inl (Or.inr (by simp [hs]))

/-! ### reachability -/

theorem reachable_start {G : CFG} {st : String} (h : G.start = some st) :
    Sym.var st ∈ G.reachable :=
  (mem_reachable_iff G _).mpr ⟨st, h, [], [], by simpa using Derives.refl _⟩

theorem reachable_step {G : CFG} {h : String} {body : List Sym} {s : Sym}
    (hp : (h, body) ∈ G.prods) (hr : Sym.var h ∈ G.reachable) (hs : s ∈ body) :
    s ∈ G.reachable := by
  obtain ⟨st, hst, u, v, hd⟩ := (mem_reachable_iff G _).mp hr
  obtain ⟨b₁, b₂, rfl⟩ := List.append_of_mem hs
  refine (mem_reachable_iff G _).mpr ⟨st, hst, u ++ b₁, b₂ ++ v, ?_⟩
  refine Derives.trans hd ?_
  have := Derives.step (u := u) (v := v) hp (Derives.refl _)
  simpa [List.append_assoc] using this

/-- a derivation from reachable symbols only uses productions with reachable heads -/
theorem derives_restrict {G R : CFG}
    (hR : ∀ p, p ∈ G.prods → Sym.var p.1 ∈ G.reachable → p ∈ R.prods)
    {x y : List Sym} (hd : G.Derives x y) (hx : ∀ s ∈ x, s ∈ G.reachable) : R.Derives x y := by
  induction hd with
  | refl u => exact Derives.refl u
  | @step u v body w h hp _ ih =>
    have hh : Sym.var h ∈ G.reachable := hx _ (by simp)
    refine Derives.step (hR _ hp hh) (ih ?_)
    intro s hs
    simp only [List.mem_append] at hs
    rcases hs with (hs | hs) | hs
    · exact hx s (by simp [hs])
    · exact reachable_step hp hh hs
    · exact hx s (by simp [hs])

theorem reachable_restrict {G R : CFG} (hst : R.start = G.start)
    (hR : ∀ p, p ∈ G.prods → Sym.var p.1 ∈ G.reachable → p ∈ R.prods)
    {s : Sym} (hs : s ∈ G.reachable) : s ∈ R.reachable := by
  obtain ⟨st, hst', u, v, hd⟩ := (mem_reachable_iff G _).mp hs
  refine (mem_reachable_iff R _).mpr ⟨st, hst ▸ hst', u, v, derives_restrict hR hd ?_⟩
  intro x hx
  simp only [List.mem_singleton] at hx
  subst hx
  exact reachable_start hst'

/-- restricting to productions with reachable heads keeps the trees below reachable symbols -/
theorem gen_restrict {G R : CFG}
    (hR : ∀ p, p ∈ G.prods → Sym.var p.1 ∈ G.reachable → p ∈ R.prods) :
    (∀ s w, G.Gen s w → s ∈ G.reachable → R.Gen s w) ∧
    (∀ u w, G.GenList u w → (∀ s ∈ u, s ∈ G.reachable) → R.GenList u w) := by
  apply gen_ind
  · intro t _; exact Gen.ter t
  · intro h body w hp _ ih hr
    exact Gen.var (hR _ hp hr) (ih fun s hs => reachable_step hp hr hs)
  · intro _; exact GenList.nil
  · intro s u w₁ w₂ _ _ ih₁ ih₂ hr
    exact GenList.cons (ih₁ (hr s (by simp))) (ih₂ fun x hx => hr x (by simp [hx]))

/-! ### generating symbols -/

/-- every symbol of a parse tree is generating -/
theorem gen_generating {G R : CFG} (hG : G.WF)
    (hR : ∀ p, p ∈ G.prods → Sym.var p.1 ∈ G.generating → (∀ s ∈ p.2, s ∈ G.generating) →
      p ∈ R.prods) :
    (∀ s w, G.Gen s w → R.Gen s w) ∧
    (∀ u w, G.GenList u w → (∀ t, Sym.ter t ∈ u → t ∈ G.ters) →
      R.GenList u w ∧ ∀ s ∈ u, s ∈ G.generating) := by
  apply gen_ind
  · intro t; exact Gen.ter t
  · intro h body w hp hb ih
    obtain ⟨h₁, h₂⟩ := ih (hG.ter_mem _ hp)
    refine Gen.var (hR _ hp ?_ h₂) h₁
    exact (mem_generating_iff G hG _).mpr (Or.inr ⟨h, w, rfl, Gen.var hp hb⟩)
  · intro _; exact ⟨GenList.nil, by simp⟩
  · intro s u w₁ w₂ hs _ ih₁ ih₂ ht
    obtain ⟨h₁, h₂⟩ := ih₂ fun t h => ht t (by simp [h])
    refine ⟨GenList.cons ih₁ h₁, ?_⟩
    intro x hx
    rcases List.mem_cons.mp hx with rfl | hx
    · cases x with
      | var v => exact (mem_generating_iff G hG _).mpr (Or.inr ⟨v, w₁, rfl, hs⟩)
      | ter t => exact (mem_generating_iff G hG _).mpr (Or.inl ⟨t, rfl, ht t (by simp)⟩)
    · exact h₂ x hx

/-! ### `removeUseless` -/

/-- the intermediate grammar of `removeUseless` (non-generating symbols removed) -/
def usefulTmp (G : CFG) : CFG :=
  mk' (G.vars.filter fun v => .var v ∈ G.generating) (G.ters.filter fun t => .ter t ∈ G.generating)
    G.start (G.prods.filter fun p => .var p.1 ∈ G.generating ∧ p.2.all (· ∈ G.generating))

theorem removeUseless_prods_eq (G : CFG) :
    G.removeUseless.prods =
      (usefulTmp G).prods.filter fun p => .var p.1 ∈ (usefulTmp G).reachable := rfl

theorem removeUseless_start_eq (G : CFG) : G.removeUseless.start = G.start := rfl

theorem usefulTmp_start_eq (G : CFG) : (usefulTmp G).start = G.start := rfl

theorem mem_usefulTmp_prods (G : CFG) (p : Prod) :
    p ∈ (usefulTmp G).prods ↔
      p ∈ G.prods ∧ Sym.var p.1 ∈ G.generating ∧ ∀ s ∈ p.2, s ∈ G.generating := by
  simp [usefulTmp, mk', List.mem_filter, List.all_eq_true]

theorem mem_removeUseless_prods (G : CFG) (p : Prod) :
    p ∈ G.removeUseless.prods ↔
      p ∈ (usefulTmp G).prods ∧ Sym.var p.1 ∈ (usefulTmp G).reachable := by
  rw [removeUseless_prods_eq]; simp [List.mem_filter]

theorem removeUseless_wf (G : CFG) : G.removeUseless.WF := mk'_wf _ _ _ _

theorem gen_usefulTmp {G : CFG} (hG : G.WF) {s : Sym} {w : List String} (h : G.Gen s w) :
    (usefulTmp G).Gen s w :=
  (gen_generating (R := usefulTmp G) hG fun p hp h₁ h₂ =>
    (mem_usefulTmp_prods G p).mpr ⟨hp, h₁, h₂⟩).1 s w h

theorem gen_removeUseless {G : CFG} {s : Sym} {w : List String} (h : (usefulTmp G).Gen s w)
    (hr : s ∈ (usefulTmp G).reachable) : G.removeUseless.Gen s w :=
  (gen_restrict (R := G.removeUseless) fun p hp h₁ =>
    (mem_removeUseless_prods G p).mpr ⟨hp, h₁⟩).1 s w h hr

theorem removeUseless_lang (G : CFG) (hG : G.WF) (w : List String) :
    G.removeUseless.Lang w ↔ G.Lang w := by
  rw [lang_iff_gen, lang_iff_gen, removeUseless_start_eq]
  constructor
  · rintro ⟨s, hs, h⟩
    refine ⟨s, hs, gen_mono _ _ ?_ _ _ h⟩
    intro p hp
    exact ((mem_usefulTmp_prods G p).mp ((mem_removeUseless_prods G p).mp hp).1).1
  · rintro ⟨s, hs, h⟩
    exact ⟨s, hs, gen_removeUseless (gen_usefulTmp hG h) (reachable_start (G := usefulTmp G) hs)⟩

theorem removeUseless_useful (G : CFG) (hG : G.WF) :
    ∀ p ∈ G.removeUseless.prods, ∀ s ∈ Sym.var p.1 :: p.2,
      s ∈ G.removeUseless.generating ∧ s ∈ G.removeUseless.reachable := by
  intro p hp s hs
  obtain ⟨hp₁, hr⟩ := (mem_removeUseless_prods G p).mp hp
  obtain ⟨hp₀, hg₁, hg₂⟩ := (mem_usefulTmp_prods G p).mp hp₁
  have hsr : s ∈ (usefulTmp G).reachable := by
    rcases List.mem_cons.mp hs with rfl | hs
    · exact hr
    · exact reachable_step (h := p.1) (body := p.2) hp₁ hr hs
  have hsg : s ∈ G.generating := by
    rcases List.mem_cons.mp hs with rfl | hs
    · exact hg₁
    · exact hg₂ s hs
  constructor
  · rw [mem_generating_iff _ (removeUseless_wf G)]
    cases s with
    | ter t =>
      refine Or.inl ⟨t, rfl, ?_⟩
      have hs' : Sym.ter t ∈ p.2 := by simpa using hs
      exact (removeUseless_wf G).ter_mem p hp t hs'
    | var v =>
      rcases (mem_generating_iff G hG _).mp hsg with ⟨t, ht, _⟩ | ⟨v', w, hv, hgen⟩
      · cases ht
      · cases hv
        exact Or.inr ⟨v, w, rfl, gen_removeUseless (gen_usefulTmp hG hgen) hsr⟩
  · exact reachable_restrict (G := usefulTmp G) (R := G.removeUseless) rfl
      (fun p hp h₁ => (mem_removeUseless_prods G p).mpr ⟨hp, h₁⟩) hsr

/-! ### `removeEpsilon` -/

theorem mem_removeEpsilon_prods (G : CFG) (p : Prod) :
    p ∈ G.removeEpsilon.prods ↔
      ∃ body, (p.1, body) ∈ G.prods ∧ p.2 ∈ removeNullableSub G.nullable body ∧ p.2 ≠ [] := by
  obtain ⟨h, b⟩ := p
  simp only [removeEpsilon, mk', List.mem_flatMap, List.mem_map, List.mem_filter,
    decide_eq_true_eq, Prod.mk.injEq, Prod.exists]
  constructor
  · rintro ⟨h', body, hp, b', ⟨hb, hne⟩, rfl, rfl⟩
    exact ⟨body, hp, hb, hne⟩
  · rintro ⟨body, hp, hb, hne⟩
    exact ⟨h, body, hp, b, ⟨hb, hne⟩, rfl, rfl⟩

theorem removeEpsilon_start_eq (G : CFG) : G.removeEpsilon.start = G.start := rfl

theorem removeEpsilon_noEps (G : CFG) : ∀ p ∈ G.removeEpsilon.prods, p.2 ≠ [] := by
  intro p hp
  obtain ⟨_, _, _, h⟩ := (mem_removeEpsilon_prods G p).mp hp
  exact h

theorem removeNullableSub_drop {nul : List Sym} {x : Sym} {rest b : List Sym}
    (hx : x ∈ nul) (hb : b ∈ removeNullableSub nul rest) :
    b ∈ removeNullableSub nul (x :: rest) := by
  simp only [removeNullableSub, List.mem_flatMap]
  exact ⟨b, hb, by simp [hx]⟩

theorem removeNullableSub_keep {nul : List Sym} {x : Sym} {rest b : List Sym}
    (hb : b ∈ removeNullableSub nul rest) :
    x :: b ∈ removeNullableSub nul (x :: rest) := by
  simp only [removeNullableSub, List.mem_flatMap]
  exact ⟨b, hb, by simp⟩

theorem removeNullableSub_cons_inv {nul : List Sym} {x : Sym} {rest b' : List Sym}
    (h : b' ∈ removeNullableSub nul (x :: rest)) :
    (x ∈ nul ∧ b' ∈ removeNullableSub nul rest) ∨
      ∃ b ∈ removeNullableSub nul rest, b' = x :: b := by
  simp only [removeNullableSub, List.mem_flatMap, List.mem_append, List.mem_singleton] at h
  obtain ⟨b, hb, h | h⟩ := h
  · by_cases hx : x ∈ nul
    · simp [hx] at h; subst h; exact Or.inl ⟨hx, hb⟩
    · simp [hx] at h
  · exact Or.inr ⟨b, hb, h⟩

/-- a variant body can be completed to the original body by nullable symbols -/
theorem genList_of_sub {G : CFG} :
    ∀ (body b' : List Sym) (w : List String), b' ∈ removeNullableSub G.nullable body →
      G.GenList b' w → G.GenList body w
  | [], b', w, hb, h => by
    simp [removeNullableSub] at hb; subst hb; exact h
  | x :: rest, b', w, hb, h => by
    rcases removeNullableSub_cons_inv hb with ⟨hx, hb'⟩ | ⟨b, hb', rfl⟩
    · obtain ⟨v, rfl, hv⟩ := (mem_nullable_iff G x).mp hx
      have := GenList.cons hv (genList_of_sub rest b' w hb' h)
      simpa using this
    · obtain ⟨w₁, w₂, rfl, h₁, h₂⟩ := genList_cons_inv h
      exact GenList.cons h₁ (genList_of_sub rest b w₂ hb' h₂)

theorem gen_of_removeEpsilon (G : CFG) :
    (∀ s w, G.removeEpsilon.Gen s w → G.Gen s w) ∧
    (∀ u w, G.removeEpsilon.GenList u w → G.GenList u w) := by
  apply gen_ind
  · intro t; exact Gen.ter t
  · intro h body w hp _ ih
    obtain ⟨body₀, hp₀, hsub, _⟩ := (mem_removeEpsilon_prods G (h, body)).mp hp
    exact Gen.var hp₀ (genList_of_sub body₀ body w hsub ih)
  · exact GenList.nil
  · intro s u w₁ w₂ _ _ ih₁ ih₂
    exact GenList.cons ih₁ ih₂

theorem removeEpsilon_nonempty (G : CFG) :
    (∀ s w, G.removeEpsilon.Gen s w → w ≠ []) ∧
    (∀ u w, G.removeEpsilon.GenList u w → u ≠ [] → w ≠ []) := by
  apply gen_ind
  · intro t; simp
  · intro h body w hp _ ih
    exact ih (removeEpsilon_noEps G _ hp)
  · intro h; exact absurd rfl h
  · intro s u w₁ w₂ _ _ ih₁ _ _
    simp [ih₁]

theorem gen_removeEpsilon (G : CFG) :
    (∀ s w, G.Gen s w → w ≠ [] → G.removeEpsilon.Gen s w) ∧
    (∀ u w, G.GenList u w →
      ∃ u' ∈ removeNullableSub G.nullable u, G.removeEpsilon.GenList u' w) := by
  apply gen_ind
  · intro t _; exact Gen.ter t
  · intro h body w hp _ ih hw
    obtain ⟨u', hu', hgen⟩ := ih
    have hne : u' ≠ [] := by
      rintro rfl
      exact hw (genList_nil_inv hgen)
    exact Gen.var ((mem_removeEpsilon_prods G (h, u')).mpr ⟨body, hp, hu', hne⟩) hgen
  · exact ⟨[], by simp [removeNullableSub], GenList.nil⟩
  · intro s u w₁ w₂ hs _ ih₁ ih₂
    obtain ⟨u', hu', hgen⟩ := ih₂
    by_cases hw : w₁ = []
    · subst hw
      cases s with
      | ter t => exact absurd (gen_ter_inv hs) (by simp)
      | var v =>
        refine ⟨u', removeNullableSub_drop ?_ hu', by simpa using hgen⟩
        exact (mem_nullable_iff G _).mpr ⟨v, rfl, hs⟩
    · exact ⟨s :: u', removeNullableSub_keep hu', GenList.cons (ih₁ hw) hgen⟩

theorem removeEpsilon_lang (G : CFG) (w : List String) :
    G.removeEpsilon.Lang w ↔ G.Lang w ∧ w ≠ [] := by
  rw [lang_iff_gen, lang_iff_gen, removeEpsilon_start_eq]
  constructor
  · rintro ⟨s, hs, h⟩
    exact ⟨⟨s, hs, (gen_of_removeEpsilon G).1 _ _ h⟩, (removeEpsilon_nonempty G).1 _ _ h⟩
  · rintro ⟨⟨s, hs, h⟩, hw⟩
    exact ⟨s, hs, (gen_removeEpsilon G).1 _ _ h hw⟩

/-! ### `elimUnit` -/

theorem nodup_eraseDups {α : Type} [BEq α] [LawfulBEq α] (l : List α) : l.eraseDups.Nodup := by
  generalize hn : l.length = n
  induction n using Nat.strongRecOn generalizing l with
  | _ n ih =>
    cases l with
    | nil => simp
    | cons a as =>
      rw [List.eraseDups_cons, List.nodup_cons]
      refine ⟨?_, ?_⟩
      · simp [List.mem_eraseDups, List.mem_filter]
      · refine ih _ ?_ _ rfl
        have := List.length_filter_le (fun b => !b == a) as
        simp at hn; omega

/-- `bfsK_isSome` relative to an invariant `I` of the queued elements -/
theorem bfsK_isSome_inv {α κ : Type} [DecidableEq κ] (key : α → κ) (next : α → List α)
    (U : List κ) (I : α → Prop) (hI : ∀ x y, I x → y ∈ next x → I y)
    (hU : ∀ x y, I x → y ∈ next x → key y ∈ U) :
    ∀ fuel todo seen, (∀ x ∈ todo, I x) → (seen.map key).Nodup → (∀ z ∈ seen, key z ∈ U) →
      todo.length + U.length < fuel + seen.length + 1 →
      (bfsK key next fuel todo seen).isSome := by
  intro fuel
  induction fuel with
  | zero =>
    intro todo seen _ hnd hsU hlt
    have hle : (seen.map key).length ≤ U.length :=
      List.Nodup.length_le_of_subset hnd (by
        intro k hk; obtain ⟨w, hw, rfl⟩ := List.mem_map.mp hk; exact hsU w hw)
    simp at hle
    cases todo with
    | nil => simp [bfsK]
    | cons a t => simp at hlt; omega
  | succ n ih =>
    intro todo seen hT hnd hsU hlt
    cases todo with
    | nil => simp [bfsK]
    | cons x todo =>
      simp only [bfsK]
      have hx : I x := hT x List.mem_cons_self
      apply ih
      · intro z hz
        rcases addNewK_todo_mem key _ _ _ z hz with h | ⟨h, _⟩
        · exact hT z (List.mem_cons_of_mem _ h)
        · exact hI x z hx h
      · exact addNewK_nodup key _ _ _ hnd
      · intro z hz
        rcases addNewK_seen_mem key _ _ _ z hz with h | h
        · exact hsU z h
        · exact hU x z hx h
      · have := addNewK_length key (next x) todo seen
        simp at hlt; omega

theorem mem_unitTargets (G : CFG) (v c : String) :
    c ∈ G.unitTargets v ↔ (v, [Sym.var c]) ∈ G.prods := by
  simp only [unitTargets, List.mem_filterMap]
  constructor
  · rintro ⟨⟨h, b⟩, hp, hc⟩
    simp only at hc
    split at hc
    · rename_i hv
      subst hv
      split at hc
      · simp only [Option.some.injEq] at hc; subst hc; exact hp
      · cases hc
    · cases hc
  · intro hp
    exact ⟨(v, [Sym.var c]), hp, by simp⟩

theorem isUnit_iff (p : Prod) : isUnit p = true ↔ ∃ u, p.2 = [Sym.var u] := by
  unfold isUnit
  split
  · rename_i u h; simp [h]
  · rename_i h
    simp only [Bool.false_eq_true, false_iff, not_exists]
    intro u hu; exact h u hu

/-- the successor function of the unit-pair worklist -/
def unitNext (G : CFG) (ab : String × String) : List (String × String) :=
  (G.unitTargets ab.2).map fun c => (ab.1, c)

theorem unitPairs_eq (G : CFG) :
    G.unitPairs = (bfs (unitNext G)
      (G.vars.length * (G.vars.length + G.prods.length) + G.vars.length + 2)
      (G.vars.map fun v => (v, v))).getD [] := rfl

theorem unitPairs_bfs_isSome (G : CFG) :
    (bfs (unitNext G) (G.vars.length * (G.vars.length + G.prods.length) + G.vars.length + 2)
      (G.vars.map fun v => (v, v))).isSome := by
  unfold bfs
  refine bfsK_isSome_inv id (unitNext G)
    (G.vars ×ˢ (G.vars ++ G.prods.map fun p => match p.2 with | [.var u] => u | _ => p.1))
    (fun ab => ab.1 ∈ G.vars) ?_ ?_ _ _ _ ?_ ?_ ?_ ?_
  · intro x y hx hy
    simp only [unitNext, List.mem_map] at hy
    obtain ⟨c, _, rfl⟩ := hy
    exact hx
  · intro x y hx hy
    simp only [unitNext, List.mem_map] at hy
    obtain ⟨c, hc, rfl⟩ := hy
    simp only [id, List.mem_product, List.mem_append, List.mem_map]
    refine ⟨hx, Or.inr ⟨_, (mem_unitTargets G _ _).mp hc, rfl⟩⟩
  · intro x hx
    simp only [List.mem_map] at hx
    obtain ⟨v, hv, rfl⟩ := hx
    exact hv
  · simpa using @nodup_eraseDups _ instBEqOfDecidableEq _ _
  · intro z hz
    have := (@List.mem_eraseDups _ instBEqOfDecidableEq _ _ _).mp hz
    simp only [List.mem_map] at this
    obtain ⟨v, hv, rfl⟩ := this
    simp [hv]
  · simp only [List.length_map, List.length_product, List.length_append]
    omega

theorem mem_unitPairs_iff (G : CFG) (ab : String × String) :
    ab ∈ G.unitPairs ↔ ∃ v ∈ G.vars, Reach (unitNext G) (v, v) ab := by
  obtain ⟨res, hres⟩ := Option.isSome_iff_exists.mp (unitPairs_bfs_isSome G)
  rw [unitPairs_eq, hres, Option.getD_some, mem_bfs_iff _ _ _ _ hres]
  simp only [List.mem_map]
  constructor
  · rintro ⟨s, ⟨v, hv, rfl⟩, hr⟩; exact ⟨v, hv, hr⟩
  · rintro ⟨v, hv, hr⟩; exact ⟨_, ⟨v, hv, rfl⟩, hr⟩

theorem unitPairs_refl {G : CFG} {a : String} (ha : a ∈ G.vars) : (a, a) ∈ G.unitPairs :=
  (mem_unitPairs_iff G _).mpr ⟨a, ha, Reach.refl _⟩

theorem unitPairs_step {G : CFG} {a b c : String} (hab : (a, b) ∈ G.unitPairs)
    (hp : (b, [Sym.var c]) ∈ G.prods) : (a, c) ∈ G.unitPairs := by
  obtain ⟨v, hv, hr⟩ := (mem_unitPairs_iff G _).mp hab
  refine (mem_unitPairs_iff G _).mpr ⟨v, hv, Reach.tail hr ?_⟩
  simp only [unitNext, List.mem_map]
  exact ⟨c, (mem_unitTargets G _ _).mpr hp, rfl⟩

theorem unitReach_gen {G : CFG} {s z : String × String} (hr : Reach (unitNext G) s z) :
    z.1 = s.1 ∧ ∀ w, G.Gen (.var z.2) w → G.Gen (.var s.2) w := by
  induction hr with
  | refl => exact ⟨rfl, fun _ h => h⟩
  | @tail y z _ hz ih =>
    simp only [unitNext, List.mem_map] at hz
    obtain ⟨c, hc, rfl⟩ := hz
    refine ⟨ih.1, fun w h => ih.2 w ?_⟩
    exact Gen.var ((mem_unitTargets G _ _).mp hc) (genList_single h)

theorem unitPairs_gen {G : CFG} {ab : String × String} (hab : ab ∈ G.unitPairs)
    {w : List String} (h : G.Gen (.var ab.2) w) : G.Gen (.var ab.1) w := by
  obtain ⟨v, _, hr⟩ := (mem_unitPairs_iff G _).mp hab
  obtain ⟨h₁, h₂⟩ := unitReach_gen hr
  rw [h₁]
  exact h₂ w h

theorem elimUnit_start_eq (G : CFG) : G.elimUnit.start = G.start := rfl

theorem mem_elimUnit_prods (G : CFG) (p : Prod) :
    p ∈ G.elimUnit.prods ↔
      (p ∈ G.prods ∧ isUnit p = false) ∨
      ∃ b, (p.1, b) ∈ G.unitPairs ∧ (b, p.2) ∈ G.prods ∧ isUnit (b, p.2) = false := by
  obtain ⟨h, body⟩ := p
  simp only [elimUnit, mk', List.mem_append, List.mem_filter, List.mem_flatMap, List.mem_map,
    Bool.not_eq_true', decide_eq_true_eq, Prod.exists, Prod.mk.injEq]
  constructor
  · rintro (h₁ | ⟨a, b, hab, h', body', ⟨⟨hp, hu⟩, rfl⟩, rfl, rfl⟩)
    · exact Or.inl h₁
    · exact Or.inr ⟨h', hab, hp, hu⟩
  · rintro (h₁ | ⟨b, hab, hp, hu⟩)
    · exact Or.inl h₁
    · exact Or.inr ⟨h, b, hab, b, body, ⟨⟨hp, hu⟩, rfl⟩, rfl, rfl⟩

theorem elimUnit_noUnit (G : CFG) : ∀ p ∈ G.elimUnit.prods, isUnit p = false := by
  intro p hp
  rcases (mem_elimUnit_prods G p).mp hp with ⟨_, h⟩ | ⟨b, _, _, h⟩
  · exact h
  · simpa [isUnit] using h

theorem gen_of_elimUnit (G : CFG) :
    (∀ s w, G.elimUnit.Gen s w → G.Gen s w) ∧
    (∀ u w, G.elimUnit.GenList u w → G.GenList u w) := by
  apply gen_ind
  · intro t; exact Gen.ter t
  · intro h body w hp _ ih
    rcases (mem_elimUnit_prods G (h, body)).mp hp with ⟨hp', _⟩ | ⟨b, hab, hp', _⟩
    · exact Gen.var hp' ih
    · exact unitPairs_gen (ab := (h, b)) hab (Gen.var hp' ih)
  · exact GenList.nil
  · intro s u w₁ w₂ _ _ ih₁ ih₂
    exact GenList.cons ih₁ ih₂

/-- the statement carried through the tree induction for `elimUnit` -/
def UnitLift (G : CFG) : Sym → List String → Prop
  | .ter t, w => G.elimUnit.Gen (.ter t) w
  | .var b, w => ∀ a, (a, b) ∈ G.unitPairs → G.elimUnit.Gen (.var a) w

theorem gen_elimUnit (G : CFG) (hG : G.WF) :
    (∀ s w, G.Gen s w → UnitLift G s w) ∧
    (∀ u w, G.GenList u w → G.elimUnit.GenList u w ∧
      ∀ c, u = [Sym.var c] → ∀ a, (a, c) ∈ G.unitPairs → G.elimUnit.Gen (.var a) w) := by
  apply gen_ind
  · intro t; exact Gen.ter t
  · intro b body w hp _ ih a hab
    obtain ⟨ih₁, ih₂⟩ := ih
    by_cases hu : isUnit (b, body) = true
    · obtain ⟨c, hc⟩ := (isUnit_iff _).mp hu
      simp only at hc
      subst hc
      exact ih₂ c rfl a (unitPairs_step hab hp)
    · have hu' : isUnit (b, body) = false := by simpa using hu
      exact Gen.var ((mem_elimUnit_prods G (a, body)).mpr (Or.inr ⟨b, hab, hp, hu'⟩)) ih₁
  · exact ⟨GenList.nil, by simp⟩
  · intro s u w₁ w₂ hs hu ih₁ ih₂
    constructor
    · refine GenList.cons ?_ ih₂.1
      cases s with
      | ter t => exact ih₁
      | var c =>
        obtain ⟨body, hp, _⟩ := gen_var_inv hs
        exact ih₁ c (unitPairs_refl (hG.head_mem _ hp))
    · intro c hc a hac
      simp only [List.cons.injEq] at hc
      obtain ⟨rfl, rfl⟩ := hc
      have := genList_nil_inv hu
      subst this
      simpa using ih₁ a hac

theorem elimUnit_lang (G : CFG) (hG : G.WF) (w : List String) : G.elimUnit.Lang w ↔ G.Lang w := by
  rw [lang_iff_gen, lang_iff_gen, elimUnit_start_eq]
  constructor
  · rintro ⟨s, hs, h⟩
    exact ⟨s, hs, (gen_of_elimUnit G).1 _ _ h⟩
  · rintro ⟨s, hs, h⟩
    exact ⟨s, hs, (gen_elimUnit G hG).1 _ _ h s (unitPairs_refl (hG.start_mem s hs))⟩

end Clean
end CFG
end Pfl
