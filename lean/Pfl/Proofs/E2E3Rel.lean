/-
The first three passes (`_replace_shortcuts`, `_escape_in_brackets`, `_preprocess_brackets`) as
relations between a piece of text and the tokens a pass makes of it.
-/
import Pfl.Proofs.E2E3Pass5
namespace Pfl.PyRx.E2E.S3
open Pfl.RegexReader Pfl.Rx Pfl.Rx.Lem Pfl.PyPass
open Pfl.PyRx.E2E

/-! ### `_replace_shortcuts` -/

/-- outside sets and escapes, the loop maps the text `s` to the tokens `l` -/
def P1 (s : List Char) (l : List Tok) : Prop :=
  ∀ rest acc, replaceShortcutsGo (s ++ rest) false false acc =
    replaceShortcutsGo rest false false (l.reverse ++ acc)

theorem P1.append {s1 s2 : List Char} {l1 l2 : List Tok} (h1 : P1 s1 l1) (h2 : P1 s2 l2) :
    P1 (s1 ++ s2) (l1 ++ l2) := by
  intro rest acc
  rw [List.append_assoc, h1, h2]
  simp

theorem P1.ch (c : Char) (h1 : c ≠ ' ') (h2 : c ≠ '\\') (h3 : c ≠ '[') : P1 [c] [[c]] := by
  intro rest acc
  simp [replaceShortcutsGo, h1, h2, h3]

theorem P1.blank : P1 [' '] [['\\', ' ']] := by
  intro rest acc
  simp [replaceShortcutsGo]

theorem P1.esc (c : Char) (h1 : c ≠ ' ') (h2 : shortcuts.find? (fun p => p.1 == ['\\', c]) = none) :
    P1 ['\\', c] [['\\'], [c]] := by
  intro rest acc
  simp [replaceShortcutsGo, h1, h2]

theorem P1.short (c : Char) (p : Tok × Tok) (h1 : c ≠ ' ')
    (h2 : shortcuts.find? (fun p => p.1 == ['\\', c]) = some p) : P1 ['\\', c] [p.2] := by
  intro rest acc
  simp [replaceShortcutsGo, h1, h2]

theorem P1.run {s : List Char} {l : List Tok} (h : P1 s l) : replaceShortcuts s = l.flatten := by
  have := h [] []
  simp only [List.append_nil] at this
  rw [replaceShortcuts, this]
  simp [replaceShortcutsGo, joinR]

/-! ### `_escape_in_brackets` -/

/-- the loop, inside (`inb`) or outside a set -/
def P2 (inb : Bool) (s : List Char) (l : List Tok) : Prop :=
  NoBsT l ∧ ∀ rt, escNext rt = false →
    s.foldl escapeInBracketsStep (rt, inb) = (l.reverse ++ rt, inb)

theorem P2.append {inb : Bool} {s1 s2 : List Char} {l1 l2 : List Tok} (h1 : P2 inb s1 l1)
    (h2 : P2 inb s2 l2) : P2 inb (s1 ++ s2) (l1 ++ l2) := by
  refine ⟨fun c hc => (List.mem_append.mp hc).elim (h1.1 c) (h2.1 c), fun rt hrt => ?_⟩
  rw [List.foldl_append, h1.2 rt hrt, h2.2 _ (escNext_toks l1 h1.1 rt hrt)]
  simp

theorem P2.ch (inb : Bool) (c : Char) (h1 : c ≠ '\\') (h2 : c ≠ '[') (h3 : c ≠ ']')
    (h4 : inb = true → c ∉ toEscapeInBrackets) : P2 inb [c] [[c]] := by
  refine ⟨by intro t ht; simp at ht; subst ht; simpa using h1, fun rt hrt => ?_⟩
  cases inb with
  | false => simp [escapeInBracketsStep, h2, h3, pushSym_of rt c hrt]
  | true => simp [escapeInBracketsStep, h2, h3, hrt, h4 rfl, pushSym_of rt c hrt]

theorem P2.esc (inb : Bool) (c : Char) : P2 inb ['\\', c] [['\\', c]] := by
  refine ⟨by intro t ht; simp at ht; subst ht; simp, fun rt hrt => ?_⟩
  have h1 : pushSym rt '\\' = ['\\'] :: rt := pushSym_of rt '\\' hrt
  have h2 : escNext (['\\'] :: rt) = true := by simp [escNext]
  have h3 : pushSym (['\\'] :: rt) c = ['\\', c] :: rt := by simp [pushSym, pushTok]
  have hte : '\\' ∉ toEscapeInBrackets := by decide
  simp only [List.foldl_cons, List.foldl_nil]
  have s1 : escapeInBracketsStep (rt, inb) '\\' = (['\\'] :: rt, inb) := by
    cases inb <;> simp [escapeInBracketsStep, hrt, hte, h1]
  have s2 : escapeInBracketsStep (['\\'] :: rt, inb) c = (['\\', c] :: rt, inb) := by
    cases inb <;> simp [escapeInBracketsStep, h2, h3]
  rw [s1, s2]
  simp

/-- a whole set whose inside needs no escaping -/
theorem P2.set {body : List Char} {l : List Tok} (h : P2 true body l) :
    P2 false ('[' :: (body ++ [']'])) (['['] :: (l ++ [[']']])) := by
  refine ⟨by
    intro t ht
    simp only [List.mem_cons, List.mem_append, List.not_mem_nil, or_false] at ht
    rcases ht with rfl | ht | rfl
    · simp
    · exact h.1 t ht
    · simp, fun rt hrt => ?_⟩
  have s1 : escapeInBracketsStep (rt, false) '[' = (['['] :: rt, true) := by
    have : '[' ∉ toEscapeInBrackets := by decide
    simp [escapeInBracketsStep, hrt, this, pushSym_of rt '[' hrt]
  have e1 : escNext (['['] :: rt) = false := by simp [escNext]
  have e2 : escNext (l.reverse ++ ['['] :: rt) = false := escNext_toks l h.1 _ e1
  have s2 : escapeInBracketsStep (l.reverse ++ ['['] :: rt, true) ']' =
      ([']'] :: (l.reverse ++ ['['] :: rt), false) := by
    simp [escapeInBracketsStep, e2, pushSym_of _ ']' e2]
  rw [List.foldl_cons, s1, List.foldl_append, h.2 _ e1, List.foldl_cons, List.foldl_nil, s2]
  simp

theorem P2.run {s : List Char} {l : List Tok} (h : P2 false s l) : escapeInBrackets s = l.flatten := by
  have := h.2 [] rfl
  simp only [List.append_nil] at this
  rw [escapeInBrackets, this]
  simp [joinR]

/-! ### `_preprocess_brackets` -/

/-- outside a set -/
def P3 (s : List Char) (l : List Tok) : Prop :=
  NoBsT l ∧ ∀ rt, escNext rt = false →
    s.foldlM preprocessBracketsStep (rt, []) = .ok (l.reverse ++ rt, [])

/-- inside a top-level set: the characters are collected -/
def P3in (s : List Char) (l : List Tok) : Prop :=
  NoBsT l ∧ ∀ (rt top : RToks), escNext top = false →
    s.foldlM preprocessBracketsStep (rt, [top]) = .ok (rt, [l.reverse ++ top])

theorem P3.append {s1 s2 : List Char} {l1 l2 : List Tok} (h1 : P3 s1 l1) (h2 : P3 s2 l2) :
    P3 (s1 ++ s2) (l1 ++ l2) := by
  refine ⟨fun c hc => (List.mem_append.mp hc).elim (h1.1 c) (h2.1 c), fun rt hrt => ?_⟩
  rw [List.foldlM_append, h1.2 rt hrt]
  show List.foldlM preprocessBracketsStep (l1.reverse ++ rt, []) s2 = _
  rw [h2.2 _ (escNext_toks l1 h1.1 rt hrt)]
  simp

theorem P3in.append {s1 s2 : List Char} {l1 l2 : List Tok} (h1 : P3in s1 l1) (h2 : P3in s2 l2) :
    P3in (s1 ++ s2) (l1 ++ l2) := by
  refine ⟨fun c hc => (List.mem_append.mp hc).elim (h1.1 c) (h2.1 c), fun rt top htop => ?_⟩
  rw [List.foldlM_append, h1.2 rt top htop]
  show List.foldlM preprocessBracketsStep (rt, [l1.reverse ++ top]) s2 = _
  rw [h2.2 _ _ (escNext_toks l1 h1.1 top htop)]
  simp

theorem P3.ch (c : Char) (h1 : c ≠ '\\') (h2 : c ≠ '[') : P3 [c] [[c]] := by
  refine ⟨by intro t ht; simp at ht; subst ht; simpa using h1, fun rt hrt => ?_⟩
  simp [preprocessBracketsStep, h2, pushSym_of rt c hrt, pure, Except.pure]
  rfl

theorem P3.esc (c : Char) : P3 ['\\', c] [['\\', c]] := by
  refine ⟨by intro t ht; simp at ht; subst ht; simp, fun rt hrt => ?_⟩
  have h1 : pushSym rt '\\' = ['\\'] :: rt := pushSym_of rt '\\' hrt
  have h2 : escNext (['\\'] :: rt) = true := by simp [escNext]
  have h3 : pushSym (['\\'] :: rt) c = ['\\', c] :: rt := by simp [pushSym, pushTok]
  have s1 : preprocessBracketsStep (rt, []) '\\' = .ok (['\\'] :: rt, []) := by
    simp [preprocessBracketsStep, h1]
  have s2 : preprocessBracketsStep (['\\'] :: rt, []) c = .ok (['\\', c] :: rt, []) := by
    simp [preprocessBracketsStep, h2, h3]
  simp only [List.foldlM_cons, List.foldlM_nil, s1]
  show (preprocessBracketsStep (['\\'] :: rt, []) c >>= fun s => pure s) = _
  rw [s2]
  rfl

theorem P3in.ch (c : Char) (h1 : c ≠ '\\') (h2 : c ≠ '[') (h3 : c ≠ ']') (h4 : c ≠ '|') :
    P3in [c] [[c]] := by
  refine ⟨by intro t ht; simp at ht; subst ht; simpa using h1, fun rt top htop => ?_⟩
  simp [preprocessBracketsStep, h2, h3, h4, htop, pure, Except.pure]
  rfl

theorem P3in.esc (c : Char) : P3in ['\\', c] [['\\', c]] := by
  refine ⟨by intro t ht; simp at ht; subst ht; simp, fun rt top htop => ?_⟩
  have h2 : escNext (['\\'] :: top) = true := by simp [escNext]
  have h3 : pushSym (['\\'] :: top) c = ['\\', c] :: top := by simp [pushSym, pushTok]
  have s1 : preprocessBracketsStep (rt, [top]) '\\' = .ok (rt, [['\\'] :: top]) := by
    simp [preprocessBracketsStep, htop]
  have s2 : preprocessBracketsStep (rt, [['\\'] :: top]) c = .ok (rt, [['\\', c] :: top]) := by
    by_cases hc : c = ']'
    · subst hc; simp [preprocessBracketsStep, h2, h3]
    · simp [preprocessBracketsStep, h2, h3, hc]
  simp only [List.foldlM_cons, List.foldlM_nil, s1]
  show (preprocessBracketsStep (rt, [['\\'] :: top]) c >>= fun s => pure s) = _
  rw [s2]
  rfl

/-- a whole top-level set -/
theorem P3.set {body : List Char} {l content : List Tok} (h : P3in body l)
    (hc : preprocessBracketsContent l = .ok content) (hnb : NoBsT content) :
    P3 ('[' :: (body ++ [']'])) (['('] :: (content ++ [[')']])) := by
  refine ⟨by
    intro t ht
    simp only [List.mem_cons, List.mem_append, List.not_mem_nil, or_false] at ht
    rcases ht with rfl | ht | rfl
    · simp
    · exact hnb t ht
    · simp, fun rt hrt => ?_⟩
  have s1 : preprocessBracketsStep (rt, []) '[' = .ok (rt, [[]]) := by
    simp [preprocessBracketsStep, hrt]
  have e2 : escNext (l.reverse ++ []) = false := escNext_toks l h.1 [] rfl
  have s2 : preprocessBracketsStep (rt, [l.reverse ++ []]) ']' =
      .ok ([')'] :: (content.reverse ++ (['('] :: rt)), []) := by
    simp only [preprocessBracketsStep, e2]
    simp [hc, bind, Except.bind]
  rw [List.foldlM_cons, s1]
  show List.foldlM preprocessBracketsStep (rt, [[]]) (body ++ [']']) = _
  rw [List.foldlM_append, h.2 rt [] rfl]
  show List.foldlM preprocessBracketsStep (rt, [l.reverse ++ []]) [']'] = _
  rw [List.foldlM_cons, s2]
  simp [pure, Except.pure, bind, Except.bind]

theorem P3.run {s : List Char} {l : List Tok} (h : P3 s l) : preprocessBrackets s = .ok l.flatten := by
  have := h.2 [] rfl
  simp only [List.append_nil] at this
  simp only [preprocessBrackets, this]
  show Except.ok (joinR l.reverse) = _
  simp [joinR]

theorem P2.nil (inb : Bool) : P2 inb [] [] := ⟨by intro t ht; simp at ht, fun rt _ => rfl⟩

theorem P3in.nil : P3in [] [] := ⟨by intro t ht; simp at ht, fun rt top _ => rfl⟩

end Pfl.PyRx.E2E.S3
