/-
Semantic transport for the Earley soundness proof: class valuations of a store, the simulation
relation `Sim` between (store, object) pairs, and the two store-changing steps of the completer
(`copy`, `unify`) as simulations.
-/
import Pfl.Proofs.EarleyLemmasDefs
namespace Pfl
namespace Earley
namespace Lem
open FsDag FsDag.Lem

/-- a valuation of the classes (representatives) that respects the atoms -/
def Resp (P : String → Prop) (st : Store) (σ : Nat → String) : Prop :=
  (∀ c, P (σ c)) ∧ ∀ c v, ptr st c = none → val st c = some v → P v → σ c = v

/-- the value read at the end of a path -/
def rdv (st : Store) (σ : Nat → String) (F : Nat) (p : List String) : Option String :=
  (byPath st F p).map fun n => σ (deref st n)

/-- every valuation of `st'` induces a valuation of `st` under which `F` reads what `F'` reads -/
def Sim (P : String → Prop) (st : Store) (F : Nat) (st' : Store) (F' : Nat) : Prop :=
  ∀ σ', Resp P st' σ' → ∃ σ, Resp P st σ ∧
    ∀ p a, rdv st σ F p = some a → rdv st' σ' F' p = some a

theorem Sim.refl (P : String → Prop) (st : Store) (F : Nat) : Sim P st F st F :=
  fun σ' h => ⟨σ', h, fun _ _ h => h⟩

theorem Sim.trans {P : String → Prop} {st st1 st2 : Store} {F F1 F2 : Nat} (h1 : Sim P st F st1 F1)
    (h2 : Sim P st1 F1 st2 F2) : Sim P st F st2 F2 := by
  intro σ2 hr2
  obtain ⟨σ1, hr1, hp1⟩ := h2 σ2 hr2
  obtain ⟨σ, hr, hp⟩ := h1 σ1 hr1
  exact ⟨σ, hr, fun p a h => hp1 p a (hp p a h)⟩

open Classical in
/-- the default valuation: the atom of the class when it is admissible, `d` otherwise -/
noncomputable def dfltVal (P : String → Prop) (st : Store) (d : String) (c : Nat) : String :=
  if P ((val st c).getD d) then (val st c).getD d else d

theorem resp_default (P : String → Prop) (st : Store) {d : String} (hd : P d) :
    Resp P st (dfltVal P st d) := by
  constructor
  · intro c
    unfold dfltVal
    split
    · assumption
    · exact hd
  · intro c v _ hv hP
    unfold dfltVal
    rw [hv]
    simp [hP]

/-! ### paths -/

theorem byPath_lt {st : Store} (hr : Rng st) : ∀ (p : List String) (i n : Nat), i < st.length →
    byPath st i p = some n → n < st.length := by
  intro p
  induction p with
  | nil => intro i n hi h; simp only [byPath_nil, Option.some.injEq] at h; subst h; exact hi
  | cons g p ih =>
    intro i n hi h
    rw [byPath_cons] at h
    cases hl : lookupC g (cont st (deref st i)) with
    | none => rw [hl] at h; simp at h
    | some x =>
      rw [hl] at h
      exact ih x n (hr.c _ g x (lookupC_mem hl)) h

theorem byPath_append (st : Store) : ∀ (p q : List String) (i : Nat),
    byPath st i (p ++ q) = (byPath st i p).bind fun n => byPath st n q := by
  intro p
  induction p with
  | nil => intro q i; simp [byPath_nil]
  | cons g p ih =>
    intro q i
    rw [List.cons_append, byPath_cons, byPath_cons]
    cases lookupC g (cont st (deref st i)) with
    | none => rfl
    | some x => exact ih q x

theorem byPath_congr' {st : Store} {i j : Nat} (h : deref st i = deref st j) (g : String)
    (p : List String) : byPath st i (g :: p) = byPath st j (g :: p) := byPath_congr h g p

theorem lookupC_map (κ : Nat → Nat) (g : String) : ∀ c : List (String × Nat),
    lookupC g (c.map fun e => (e.1, κ e.2)) = (lookupC g c).map κ
  | [] => rfl
  | (h, x) :: rest => by
    simp only [List.map_cons, lookupC]
    split
    · rfl
    · exact lookupC_map κ g rest

/-! ### appending objects -/

section Append
variable {st : Store} (e : Store)

theorem deref_append (ha : Acyc st) (hr : Rng st) {i : Nat} (hi : i < st.length) :
    deref (st ++ e) i = deref st i :=
  deref_frame ha (by simp) (· < st.length) (fun j hj => by rw [ptr, get_append_lt e hj])
    (fun j j2 _ h => hr.p j j2 h) i hi

theorem byPath_append_store (ha : Acyc st) (hr : Rng st) (p : List String) {i : Nat}
    (hi : i < st.length) : byPath (st ++ e) i p = byPath st i p :=
  byPath_frame ha hr (by simp) (fun j hj => get_append_lt e hj) p i hi

theorem sim_append (P : String → Prop) (ha : Acyc st) (hr : Rng st) {G : Nat} (hG : G < st.length) :
    Sim P st G (st ++ e) G := by
  intro σ' h'
  refine ⟨σ', ⟨h'.1, ?_⟩, ?_⟩
  · intro c v hp hv
    have hc : c < st.length := val_lt hv
    exact h'.2 c v (by rw [ptr, get_append_lt e hc]; exact hp) (by rw [val, get_append_lt e hc]; exact hv)
  · intro p a h
    unfold rdv at h ⊢
    rw [byPath_append_store e ha hr p hG]
    cases hb : byPath st G p with
    | none => rw [hb] at h; simp at h
    | some n =>
      rw [hb] at h
      have hn := byPath_lt hr p G n hG hb
      simp only [Option.map_some] at h ⊢
      rw [deref_append e ha hr hn]; exact h

end Append

/-! ### the unification step -/

theorem ccat_out {st : Store} {i : Nat} (h : st.length ≤ i) : CCat st i := by
  intro g x hx
  rw [cont, get_ge h] at hx
  simp [emptyNode, lookupC] at hx

theorem unify_step (P : String → Prop) {st : Store} {rk : Nat → Nat} {a b f : Nat} {st' : Store}
    (hw : WFS st rk) (ha : a < st.length) (hb : b < st.length) (hk : rk a = rk b)
    (hu : unify f st a b = .ok st') :
    ∃ rk', WFS st' rk' ∧ st.length ≤ st'.length ∧ (∀ i, i < st.length → rk' i = rk i) ∧
      deref st' a = deref st' b ∧
      (∀ p i n, i < st.length → byPath st i p = some n →
        n < st.length ∧ ∃ n', byPath st' i p = some n' ∧ deref st' n' = deref st' n) ∧
      ∀ F, F < st.length → Sim P st F st' F := by
  have hU := unify_R f st rk (rk a) a b hw.rng hw.inv (fun i _ => hw.cc i) ha hb rfl hk.symm
  rw [hu] at hU
  obtain ⟨rk', he, hI', hc', hab⟩ := hU
  have hr' : Rng st' := ((unify_sem f st a b hw.rng ha hb).1 st' hu).1
  have hcc : ∀ i, CCat st' i := by
    intro i
    by_cases h1 : rk' i ≤ rk a
    · exact hc' i h1
    · by_cases h2 : i < st.length
      · exact ccatR_frame he hw.rng hw.inv h2 (by rw [← he.rkold i h2]; omega) (hw.cc i)
      · by_cases h3 : i < st'.length
        · have := he.rknew i (by omega) h3; omega
        · exact ccat_out (by omega)
  have hpp := pathR_pres he hw.rng hw.inv hcc
  refine ⟨rk', ⟨hr', hI', hcc⟩, he.len, he.rkold, hab, hpp, ?_⟩
  intro F hF σ' h'
  refine ⟨fun c => σ' (deref st' c), ⟨fun c => h'.1 _, ?_⟩, ?_⟩
  · intro c v hp hv
    have hc : c < st.length := val_lt hv
    have h2 := he.e2 c v hc (by rw [deref_of_none hp]; exact hv)
    exact h'.2 _ v (deref_ptr_none hI'.acyc c) h2
  · intro p a' h
    unfold rdv at h ⊢
    cases hb' : byPath st F p with
    | none => rw [hb'] at h; simp at h
    | some n =>
      rw [hb'] at h
      obtain ⟨hn, n', hn', hd⟩ := hpp p F n hF hb'
      rw [hn']
      simp only [Option.map_some, Option.some.injEq] at h ⊢
      rw [hd, ← h]
      congr 1
      exact (he.e1 _ _ (deref_lt hw.rng hn) hn (deref_idem hw.inv.acyc n)).symm

/-! ### the copy step -/

section CopyStep
variable {st : Store} {rk : Nat → Nat} {F : Nat} {st1 : Store} {F' : Nat} {κ : Nat → Nat}
  {dom : Nat → Prop} {π : Nat → Nat}

/-- projection of the objects of the extended store to the objects they come from -/
def proj (st : Store) (π : Nat → Nat) (n : Nat) : Nat := if n < st.length then n else π n

theorem proj_old {n : Nat} (h : n < st.length) : proj st π n = n := by simp [proj, h]

theorem CopySpec.len (hc : CopySpec st F st1 F' κ dom π) : st.length ≤ st1.length := by
  obtain ⟨e, he⟩ := hc.ext; rw [he]; simp

theorem CopySpec.old (hc : CopySpec st F st1 F' κ dom π) {i : Nat} (hi : i < st.length) :
    get st1 i = get st i := by
  obtain ⟨e, he⟩ := hc.ext; rw [he]; exact get_append_lt e hi

theorem CopySpec.proj_κ (hc : CopySpec st F st1 F' κ dom π) {j : Nat} (hj : dom j) :
    proj st π (κ j) = j := by
  have h1 := hc.rng j hj
  have h2 := hc.surj (κ j) h1.1 h1.2
  unfold proj
  rw [if_neg (by omega)]
  exact hc.inj _ _ h2.1 hj h2.2

/-- every object of the extended store below its length: old, or the copy of a `dom` object -/
theorem CopySpec.cases (hc : CopySpec st F st1 F' κ dom π) (n : Nat) :
    (n < st.length ∧ get st1 n = get st n) ∨
    (st.length ≤ n ∧ n < st1.length ∧ dom (π n) ∧ κ (π n) = n) ∨
    (st1.length ≤ n ∧ st.length ≤ n) := by
  by_cases h1 : n < st.length
  · exact Or.inl ⟨h1, hc.old h1⟩
  · by_cases h2 : n < st1.length
    · have := hc.surj n (by omega) h2
      exact Or.inr (Or.inl ⟨by omega, h2, this.1, this.2⟩)
    · exact Or.inr (Or.inr ⟨by omega, by omega⟩)

theorem CopySpec.hom_ptr (hc : CopySpec st F st1 F' κ dom π) (hr : Rng st) {n m : Nat}
    (h : ptr st1 n = some m) :
    ptr st (proj st π n) = some (proj st π m) ∧ m < st1.length := by
  rcases hc.cases n with ⟨h1, h2⟩ | ⟨h1, h2, h3, h4⟩ | ⟨h1, _⟩
  · rw [ptr, h2] at h
    have hm := hr.p n m h
    rw [proj_old h1, proj_old hm]
    exact ⟨h, Nat.lt_of_lt_of_le hm hc.len⟩
  · have hnode := hc.node _ h3
    rw [h4] at hnode
    rw [ptr, hnode] at h
    simp only [Option.map_eq_some_iff] at h
    obtain ⟨p, hp, rfl⟩ := h
    have hdp := hc.dom_ptr _ p h3 hp
    rw [hc.proj_κ hdp]
    have : proj st π n = π n := by unfold proj; rw [if_neg (by omega)]
    rw [this]
    exact ⟨hp, (hc.rng p hdp).2⟩
  · rw [ptr, get_ge h1] at h; simp [emptyNode] at h

theorem CopySpec.hom_cont (hc : CopySpec st F st1 F' κ dom π) (hr : Rng st) {n : Nat} {g : String}
    {x : Nat} (h : (g, x) ∈ cont st1 n) :
    (g, proj st π x) ∈ cont st (proj st π n) ∧ x < st1.length := by
  rcases hc.cases n with ⟨h1, h2⟩ | ⟨h1, h2, h3, h4⟩ | ⟨h1, _⟩
  · rw [cont, h2] at h
    have hm := hr.c n g x h
    rw [proj_old h1, proj_old hm]
    exact ⟨h, Nat.lt_of_lt_of_le hm hc.len⟩
  · have hnode := hc.node _ h3
    rw [h4] at hnode
    rw [cont, hnode] at h
    simp only [List.mem_map, Prod.mk.injEq] at h
    obtain ⟨e, he, rfl, rfl⟩ := h
    have hdp := hc.dom_cont _ e.1 e.2 h3 he
    rw [hc.proj_κ hdp]
    have : proj st π n = π n := by unfold proj; rw [if_neg (by omega)]
    rw [this]
    exact ⟨he, (hc.rng _ hdp).2⟩
  · rw [cont, get_ge h1] at h; simp [emptyNode] at h

theorem CopySpec.rng1 (hc : CopySpec st F st1 F' κ dom π) (hr : Rng st) : Rng st1 :=
  ⟨fun _ _ h => (hc.hom_ptr hr h).2, fun _ _ _ h => (hc.hom_cont hr h).2⟩

theorem CopySpec.acyc1 (hc : CopySpec st F st1 F' κ dom π) (hr : Rng st) (ha : Acyc st) :
    Acyc st1 := by
  obtain ⟨h, hh⟩ := ha
  exact ⟨fun n => h (proj st π n), fun i j hp => hh _ _ (hc.hom_ptr hr hp).1⟩

theorem CopySpec.invR1 (hc : CopySpec st F st1 F' κ dom π) (hr : Rng st) (hI : InvR st rk) :
    InvR st1 (fun n => rk (proj st π n)) := by
  refine ⟨hc.acyc1 hr hI.acyc, ?_, ?_, ?_⟩
  · intro i j hp; exact hI.rkp _ _ (hc.hom_ptr hr hp).1
  · intro i g x hx; exact hI.rkc _ g _ (hc.hom_cont hr hx).1
  · intro n v hv
    rcases hc.cases n with ⟨h1, h2⟩ | ⟨h1, h2, h3, h4⟩ | ⟨h1, _⟩
    · rw [val, h2] at hv; rw [proj_old h1]; exact hI.rkv n v hv
    · have hnode := hc.node _ h3
      rw [h4] at hnode
      rw [val, hnode] at hv
      have : proj st π n = π n := by unfold proj; rw [if_neg (by omega)]
      rw [this, ← rkR_deref hI]
      exact hI.rkv _ v hv
    · rw [val, get_ge h1] at hv; simp [emptyNode] at hv

theorem CopySpec.deref_old (hc : CopySpec st F st1 F' κ dom π) (hr : Rng st) (ha : Acyc st)
    {i : Nat} (hi : i < st.length) : deref st1 i = deref st i := by
  obtain ⟨e, he⟩ := hc.ext; rw [he]; exact deref_append e ha hr hi

/-- `deref` commutes with the copy -/
theorem CopySpec.deref_κ (hc : CopySpec st F st1 F' κ dom π) (hr : Rng st) (ha : Acyc st) :
    ∀ j, dom j → deref st1 (κ j) = κ (deref st j) ∧ dom (deref st j) := by
  have ha1 := hc.acyc1 hr ha
  obtain ⟨h, hh⟩ := id ha
  intro j
  induction hn : h j using Nat.strongRecOn generalizing j with
  | _ n ih =>
    intro hj
    have hnode := hc.node j hj
    cases hp : ptr st j with
    | none =>
      have : ptr st1 (κ j) = none := by rw [ptr, hnode]; simp [hp]
      rw [deref_of_none this, deref_of_none hp]
      exact ⟨rfl, hj⟩
    | some p =>
      have : ptr st1 (κ j) = some (κ p) := by rw [ptr, hnode]; simp [hp]
      rw [deref_step ha1 this, deref_step ha hp]
      exact ih (h p) (by rw [← hn]; exact hh j p hp) p rfl (hc.dom_ptr j p hj hp)

/-- paths commute with the copy -/
theorem CopySpec.byPath_κ (hc : CopySpec st F st1 F' κ dom π) (hr : Rng st) (ha : Acyc st) :
    ∀ (p : List String) (j n : Nat), dom j → byPath st j p = some n →
      dom n ∧ byPath st1 (κ j) p = some (κ n) := by
  intro p
  induction p with
  | nil =>
    intro j n hj h
    simp only [byPath_nil, Option.some.injEq] at h ⊢; subst h; exact ⟨hj, rfl⟩
  | cons g p ih =>
    intro j n hj h
    rw [byPath_cons] at h
    obtain ⟨hd, hdd⟩ := hc.deref_κ hr ha j hj
    cases hl : lookupC g (cont st (deref st j)) with
    | none => rw [hl] at h; simp at h
    | some x =>
      rw [hl] at h
      have hdx := hc.dom_cont _ g x hdd (lookupC_mem hl)
      obtain ⟨h1, h2⟩ := ih x n hdx h
      refine ⟨h1, ?_⟩
      have : lookupC g (cont st1 (deref st1 (κ j))) = some (κ x) := by
        rw [hd, cont, hc.node _ hdd]
        show lookupC g ((cont st (deref st j)).map fun e => (e.1, κ e.2)) = _
        rw [lookupC_map, hl]; rfl
      rw [byPath_cons_of _ this]; exact h2

theorem CopySpec.ccat1 (hc : CopySpec st F st1 F' κ dom π) (hr : Rng st) (ha : Acyc st)
    (hcc : ∀ i, CCat st i) : ∀ n, CCat st1 n := by
  intro n
  rcases hc.cases n with ⟨h1, h2⟩ | ⟨h1, h2, h3, h4⟩ | ⟨h1, _⟩
  · intro g x hx
    rw [cont, h2] at hx
    obtain ⟨x', hx', hd⟩ := hcc n g x hx
    have hdn := deref_lt hr h1
    refine ⟨x', ?_, ?_⟩
    · rw [hc.deref_old hr ha h1, cont, hc.old hdn]; exact hx'
    · rw [hc.deref_old hr ha (hr.c _ g x' (lookupC_mem hx')),
        hc.deref_old hr ha (hr.c _ g x (lookupC_mem hx))]
      exact hd
  · intro g x hx
    have hnode := hc.node _ h3
    rw [h4] at hnode
    rw [cont, hnode] at hx
    change lookupC g ((cont st (π n)).map fun e => (e.1, κ e.2)) = some x at hx
    rw [lookupC_map] at hx
    simp only [Option.map_eq_some_iff] at hx
    obtain ⟨x0, hx0, rfl⟩ := hx
    obtain ⟨x0', hx0', hd⟩ := hcc (π n) g x0 hx0
    obtain ⟨hdn, hddom⟩ := hc.deref_κ hr ha _ h3
    rw [h4] at hdn
    have hdx0 := hc.dom_cont _ g x0 h3 (lookupC_mem hx0)
    have hdx0' := hc.dom_cont _ g x0' hddom (lookupC_mem hx0')
    refine ⟨κ x0', ?_, ?_⟩
    · rw [hdn, cont, hc.node _ hddom]
      show lookupC g ((cont st (deref st (π n))).map fun e => (e.1, κ e.2)) = _
      rw [lookupC_map, hx0']; rfl
    · rw [(hc.deref_κ hr ha _ hdx0').1, (hc.deref_κ hr ha _ hdx0).1, hd]
  · exact ccat_out h1

open Classical in
theorem CopySpec.sim (P : String → Prop) (hc : CopySpec st F st1 F' κ dom π) (hr : Rng st)
    (ha : Acyc st) : Sim P st F st1 F' := by
  intro σ' h'
  refine ⟨fun c => if dom c then σ' (κ c) else σ' c, ⟨?_, ?_⟩, ?_⟩
  · intro c
    by_cases hd : dom c
    · simp only [if_pos hd]; exact h'.1 _
    · simp only [if_neg hd]; exact h'.1 _
  · intro c v hp hv
    by_cases hd : dom c
    · simp only [if_pos hd]
      have hnode := hc.node c hd
      refine h'.2 (κ c) v ?_ ?_
      · rw [ptr, hnode]; simp [hp]
      · rw [val, hnode]; show val st (deref st c) = some v
        rw [deref_of_none hp]; exact hv
    · simp only [if_neg hd]
      have hcl : c < st.length := val_lt hv
      exact h'.2 c v (by rw [ptr, hc.old hcl]; exact hp) (by rw [val, hc.old hcl]; exact hv)
  · intro p a h
    unfold rdv at h ⊢
    cases hb : byPath st F p with
    | none => rw [hb] at h; simp at h
    | some n =>
      rw [hb] at h
      obtain ⟨hdn, hbn⟩ := hc.byPath_κ hr ha p F n hc.domF hb
      rw [hc.κF] at hbn
      rw [hbn]
      obtain ⟨h1, h2⟩ := hc.deref_κ hr ha n hdn
      simp only [Option.map_some, Option.some.injEq] at h ⊢
      rw [h1, ← h, if_pos h2]

theorem copy_step (P : String → Prop) (hw : WFS st rk) (hc : CopySpec st F st1 F' κ dom π) :
    ∃ rk1, WFS st1 rk1 ∧ (∀ i, i < st.length → rk1 i = rk i) ∧ st.length ≤ st1.length ∧
      F' < st1.length ∧ rk1 F' = rk F ∧ Sim P st F st1 F' ∧
      (∀ G, G < st.length → Sim P st G st1 G) := by
  have hr := hw.rng
  have ha := hw.inv.acyc
  refine ⟨fun n => rk (proj st π n), ⟨hc.rng1 hr, hc.invR1 hr hw.inv, hc.ccat1 hr ha hw.cc⟩,
    fun i hi => by simp only [proj_old hi], hc.len, ?_, ?_, hc.sim P hr ha, ?_⟩
  · rw [← hc.κF]; exact (hc.rng F hc.domF).2
  · show rk (proj st π F') = rk F
    rw [← hc.κF, hc.proj_κ hc.domF]
  · intro G hG
    obtain ⟨e, he⟩ := hc.ext
    rw [he]; exact sim_append e P ha hr hG

end CopyStep

end Lem
end Earley
end Pfl
