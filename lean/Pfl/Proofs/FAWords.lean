/-
Helper lemmas for C04_Words: bounded-language oracle, cycle oracle, `is_acyclic`,
`_get_states_leading_to_final`, `get_accepted_words`.
-/
import Pfl.Proofs.FAOracle
import Pfl.Proofs.FAEpsCopy
import Pfl.Props.C04_Oracle
import Mathlib.Data.List.Basic
import Mathlib.Data.List.Nodup
namespace Pfl
namespace ENFA
variable {σ : Type} [DecidableEq σ]

/-! ### `wordsOfLen` -/

theorem mem_wordsOfLen (syms : List Nat) (k : Nat) (w : List Nat) :
    w ∈ wordsOfLen syms k ↔ w.length = k ∧ ∀ a ∈ w, a ∈ syms := by
  induction k generalizing w with
  | zero =>
    simp only [wordsOfLen, List.mem_singleton, List.length_eq_zero_iff]
    constructor
    · rintro rfl; simp
    · rintro ⟨h, _⟩; exact h
  | succ k ih =>
    simp only [wordsOfLen, List.mem_flatMap, List.mem_map]
    constructor
    · rintro ⟨u, hu, a, ha, rfl⟩
      obtain ⟨h1, h2⟩ := (ih u).mp hu
      refine ⟨by simp [h1], ?_⟩
      intro b hb
      rcases List.mem_append.mp hb with hb | hb
      · exact h2 b hb
      · simp at hb; subst hb; exact ha
    · rintro ⟨hl, hs⟩
      have hne : w ≠ [] := by intro h; subst h; simp at hl
      refine ⟨w.dropLast, (ih _).mpr ⟨by simp [hl], ?_⟩, w.getLast hne, ?_, ?_⟩
      · intro a ha; exact hs a (List.dropLast_subset _ ha)
      · exact hs _ (List.getLast_mem hne)
      · exact List.dropLast_append_getLast hne

theorem wordsOfLen_nodup (syms : List Nat) (hs : syms.Nodup) (k : Nat) :
    (wordsOfLen syms k).Nodup := by
  induction k with
  | zero => simp [wordsOfLen]
  | succ k ih =>
    simp only [wordsOfLen]
    rw [List.nodup_flatMap]
    refine ⟨?_, ?_⟩
    · intro u _
      refine List.Nodup.map ?_ hs
      intro a b hab
      have := List.append_cancel_left hab
      simpa using this
    · refine List.Pairwise.imp_of_mem ?_ (List.Nodup.pairwise_of_forall_ne ih (fun _ _ _ _ h => h))
      intro u v _ _ huv
      simp only [Function.onFun, List.disjoint_left, List.mem_map]
      rintro w ⟨a, _, rfl⟩ ⟨b, _, hb⟩
      exact huv (List.append_inj_left' hb rfl).symm

theorem langUpTo_nodup' (A : ENFA σ) (n : Nat) : (A.langUpTo n).Nodup := by
  unfold langUpTo
  rw [List.nodup_flatMap]
  refine ⟨?_, ?_⟩
  · intro k _
    exact List.Nodup.filter _ (wordsOfLen_nodup _ (FAOracle.nodup_eraseDups _) k)
  · refine List.Pairwise.imp_of_mem ?_
      (List.Nodup.pairwise_of_forall_ne (List.nodup_range (n := n+1)) (fun _ _ _ _ h => h))
    intro i j _ _ hij
    simp only [Function.onFun, List.disjoint_left, List.mem_filter, mem_wordsOfLen]
    rintro w ⟨⟨h1, _⟩, _⟩ ⟨⟨h2, _⟩, _⟩
    exact hij (h1.symm.trans h2)

theorem mem_langUpTo_iff' (A : ENFA σ) (hA : A.WF) (n : Nat) (w : List Nat) :
    w ∈ A.langUpTo n ↔ w.length ≤ n ∧ A.Lang w := by
  unfold langUpTo
  simp only [List.mem_flatMap, List.mem_range, List.mem_filter, mem_wordsOfLen, member_iff,
    List.mem_eraseDups]
  constructor
  · rintro ⟨k, hk, ⟨hl, _⟩, hL⟩
    exact ⟨by omega, hL⟩
  · rintro ⟨hl, hL⟩
    refine ⟨w.length, by omega, ⟨rfl, ?_⟩, hL⟩
    obtain ⟨s, _, f, _, hr⟩ := hL
    intro a ha
    obtain ⟨t, ht, hta⟩ := List.mem_filterMap.mp (run_syms A hr a ha)
    exact hA.delta_sym t ht a hta

/-! ### head induction for `Reach` -/

omit [DecidableEq σ] in
theorem Reach.head_induction {next : σ → List σ} {y : σ} {P : σ → Prop} (hrefl : P y)
    (hhead : ∀ x z, z ∈ next x → Reach next z y → P z → P x) :
    ∀ x, Reach next x y → P x := by
  intro x h
  induction h with
  | refl => exact hrefl
  | tail _ hz ih =>
    refine ih (hhead _ _ hz (Reach.refl _) hrefl) ?_
    intro x' z' hz' hr hp
    exact hhead x' z' hz' (Reach.tail hr hz) hp

/-! ### `leadingToFinal` -/

/-- backward successor function used by `leadingToFinal` -/
def preds (A : ENFA σ) (q : σ) : List σ :=
  A.delta.filterMap fun t => if t.2.2 = q then some t.1 else none

theorem mem_preds (A : ENFA σ) (q p : σ) :
    p ∈ A.preds q ↔ ∃ a, (p, a, q) ∈ A.delta := by
  unfold preds
  simp only [List.mem_filterMap]
  constructor
  · rintro ⟨⟨x, b, y⟩, ht, h⟩
    split at h
    · rename_i hc
      simp only at hc; subst hc
      simp only [Option.some.injEq] at h; subst h
      exact ⟨b, ht⟩
    · cases h
  · rintro ⟨a, h⟩
    exact ⟨(p, a, q), h, by simp⟩

theorem leadingToFinal_bfs_isSome (A : ENFA σ) :
    (bfs A.preds (A.delta.length + A.finals.length + 1) A.finals).isSome := by
  unfold bfs
  refine bfsK_isSome id A.preds (A.finals.eraseDups ++ A.delta.map (·.1)) ?_ _ _ _ ?_ ?_ ?_
  · intro x y hy
    simp only [id]
    apply List.mem_append_right
    obtain ⟨a, h⟩ := (mem_preds A x y).mp hy
    exact List.mem_map.mpr ⟨_, h, rfl⟩
  · simpa using FAOracle.nodup_eraseDups A.finals
  · intro z hz; exact List.mem_append_left _ hz
  · simp only [List.length_append, List.length_map]; omega

theorem reach_preds_iff (A : ENFA σ) (f q : σ) :
    Reach A.preds f q ↔ ∃ w, A.Run q w f := by
  constructor
  · intro h
    induction h with
    | refl => exact ⟨[], Run.nil f⟩
    | tail _ hz ih =>
      obtain ⟨w, hw⟩ := ih
      obtain ⟨a, ha⟩ := (mem_preds A _ _).mp hz
      cases a with
      | none => exact ⟨w, Run.eps ha hw⟩
      | some a => exact ⟨a :: w, Run.step ha hw⟩
  · rintro ⟨w, hw⟩
    induction hw with
    | nil q => exact Reach.refl q
    | eps h _ ih => exact Reach.tail ih ((mem_preds A _ _).mpr ⟨_, h⟩)
    | step h _ ih => exact Reach.tail ih ((mem_preds A _ _).mpr ⟨_, h⟩)

theorem mem_leadingToFinal_iff' (A : ENFA σ) (q : σ) :
    q ∈ A.leadingToFinal ↔ ∃ w, ∃ f ∈ A.finals, A.Run q w f := by
  have hs := leadingToFinal_bfs_isSome A
  obtain ⟨res, hres⟩ := Option.isSome_iff_exists.mp hs
  have : A.leadingToFinal = res := by
    unfold leadingToFinal
    change (bfs A.preds _ A.finals).getD [] = res
    rw [hres]; rfl
  rw [this, mem_bfs_iff _ _ _ _ hres]
  constructor
  · rintro ⟨f, hf, hr⟩
    obtain ⟨w, hw⟩ := (reach_preds_iff A f q).mp hr
    exact ⟨w, f, hf, hw⟩
  · rintro ⟨w, f, hf, hw⟩
    exact ⟨f, hf, (reach_preds_iff A f q).mpr ⟨w, hw⟩⟩

/-! ### `reachableCycle` -/

theorem cycle_bfs_isSome (A : ENFA σ) (r : σ) :
    (bfs A.outs (A.delta.length + 2) [r]).isSome := by
  unfold bfs
  have hq : ([r] : List σ).eraseDups = [r] := by simp [List.eraseDups_cons]
  rw [hq]
  apply bfsK_isSome id A.outs (r :: A.delta.map (·.2.2))
  · intro x y hy
    apply List.mem_cons_of_mem
    rcases (mem_outs A x y).mp hy with ⟨a, _, h⟩ | h
    · exact List.mem_map.mpr ⟨_, h, rfl⟩
    · exact List.mem_map.mpr ⟨_, h, rfl⟩
  · simp
  · intro z hz
    simp only [List.mem_singleton] at hz
    subst hz; exact List.mem_cons_self
  · simp only [List.length_cons, List.length_map, List.length_nil]; omega

theorem mem_cycle_bfs_iff (A : ENFA σ) (r q : σ) :
    q ∈ (bfs A.outs (A.delta.length + 2) [r]).getD [] ↔ Reach A.outs r q := by
  obtain ⟨res, hres⟩ := Option.isSome_iff_exists.mp (cycle_bfs_isSome A r)
  rw [hres, Option.getD_some, mem_bfs_iff _ _ _ _ hres]
  simp

theorem mem_reachable_reach (A : ENFA σ) (q : σ) :
    q ∈ A.reachable ↔ ∃ s ∈ A.starts, Reach A.outs s q := by
  obtain ⟨res, hres⟩ := Option.isSome_iff_exists.mp (reachable_bfs_isSome A)
  have : A.reachable = res := by
    unfold reachable
    change (bfs A.outs _ A.starts).getD [] = res
    rw [hres]; rfl
  rw [this, mem_bfs_iff _ _ _ _ hres]

theorem reachableCycle_iff' (A : ENFA σ) :
    A.reachableCycle = true ↔
      ∃ s ∈ A.starts, ∃ q, Reach A.outs s q ∧ ∃ r ∈ A.outs q, Reach A.outs r q := by
  unfold reachableCycle
  simp only [List.any_eq_true, decide_eq_true_eq, mem_cycle_bfs_iff, mem_reachable_reach]
  constructor
  · rintro ⟨q, ⟨s, hs, hsq⟩, r, hr, hrq⟩
    exact ⟨s, hs, q, hsq, r, hr, hrq⟩
  · rintro ⟨s, hs, q, hsq, r, hr, hrq⟩
    exact ⟨q, ⟨s, hs, hsq⟩, r, hr, hrq⟩

/-! ### `is_acyclic` -/

/-- the stack entry `(q, vis)` leads to a `false` answer -/
inductive Bad (A : ENFA σ) : σ → List σ → Prop
  | here {q vis} : q ∈ vis → Bad A q vis
  | next {q vis r} : r ∈ A.outs q → Bad A r (q :: vis) → Bad A q vis

theorem acyclicLoop_true (A : ENFA σ) :
    ∀ fuel stk, A.acyclicLoop fuel stk = some true → ∀ e ∈ stk, ¬ A.Bad e.1 e.2 := by
  intro fuel
  induction fuel with
  | zero =>
    intro stk h
    cases stk with
    | nil => intro e he; cases he
    | cons a t => simp [acyclicLoop] at h
  | succ n ih =>
    intro stk h
    cases stk with
    | nil => intro e he; cases he
    | cons a rest =>
      obtain ⟨q, vis⟩ := a
      simp only [acyclicLoop] at h
      split at h
      · cases h
      · rename_i hq
        have := ih _ h
        intro e he
        rcases List.mem_cons.mp he with rfl | he
        · intro hb
          cases hb with
          | here hm => exact hq hm
          | next hr hb =>
            refine this (_, q :: vis) ?_ hb
            apply List.mem_append_left
            exact List.mem_map.mpr ⟨_, List.mem_reverse.mpr hr, rfl⟩
        · exact this e (List.mem_append_right _ he)

theorem acyclicLoop_false (A : ENFA σ) :
    ∀ fuel stk, A.acyclicLoop fuel stk = some false → ∃ e ∈ stk, A.Bad e.1 e.2 := by
  intro fuel
  induction fuel with
  | zero =>
    intro stk h
    cases stk with
    | nil => simp [acyclicLoop] at h
    | cons a t => simp [acyclicLoop] at h
  | succ n ih =>
    intro stk h
    cases stk with
    | nil => simp [acyclicLoop] at h
    | cons a rest =>
      obtain ⟨q, vis⟩ := a
      simp only [acyclicLoop] at h
      split at h
      · rename_i hq
        exact ⟨(q, vis), List.mem_cons_self, Bad.here hq⟩
      · obtain ⟨e, he, hb⟩ := ih _ h
        rcases List.mem_append.mp he with he | he
        · obtain ⟨r, hr, rfl⟩ := List.mem_map.mp he
          exact ⟨(q, vis), List.mem_cons_self, Bad.next (List.mem_reverse.mp hr) hb⟩
        · exact ⟨e, List.mem_cons_of_mem _ he, hb⟩

theorem Bad.cycle {A : ENFA σ} {s q : σ} {vis : List σ} (hb : A.Bad q vis)
    (hsq : Reach A.outs s q)
    (hv : ∀ v ∈ vis, Reach A.outs s v ∧ ∃ r ∈ A.outs v, Reach A.outs r q) :
    ∃ q, Reach A.outs s q ∧ ∃ r ∈ A.outs q, Reach A.outs r q := by
  induction hb with
  | here hm => exact ⟨_, hsq, (hv _ hm).2⟩
  | @next q vis r hr _ ih =>
    apply ih (Reach.tail hsq hr)
    intro v hvm
    rcases List.mem_cons.mp hvm with rfl | hvm
    · exact ⟨hsq, r, hr, Reach.refl r⟩
    · obtain ⟨h1, r', hr', h2⟩ := hv v hvm
      exact ⟨h1, r', hr', Reach.tail h2 hr⟩

theorem bad_of_reach_mem {A : ENFA σ} {x y : σ} (h : Reach A.outs x y) :
    ∀ vis, y ∈ vis → A.Bad x vis := by
  refine Reach.head_induction (P := fun x => ∀ vis, y ∈ vis → A.Bad x vis) ?_ ?_ x h
  · intro vis hy; exact Bad.here hy
  · intro x z hz _ ih vis hy
    exact Bad.next hz (ih _ (List.mem_cons_of_mem _ hy))

theorem bad_of_cycle {A : ENFA σ} {x q r : σ} (h : Reach A.outs x q) (hr : r ∈ A.outs q)
    (hrq : Reach A.outs r q) : ∀ vis, A.Bad x vis := by
  refine Reach.head_induction (P := fun x => ∀ vis, A.Bad x vis) ?_ ?_ x h
  · intro vis
    exact Bad.next hr (bad_of_reach_mem hrq _ List.mem_cons_self)
  · intro x z hz _ ih vis
    exact Bad.next hz (ih _)

theorem isAcyclic_iff' (A : ENFA σ) (fuel : Nat) (b : Bool) (h : A.isAcyclic fuel = some b) :
    b = true ↔
      ¬ ∃ s ∈ A.starts, ∃ q, Reach A.outs s q ∧ ∃ r ∈ A.outs q, Reach A.outs r q := by
  unfold isAcyclic at h
  cases b with
  | true =>
    simp only [true_iff]
    rintro ⟨s, hs, q, hsq, r, hr, hrq⟩
    refine acyclicLoop_true A _ _ h (s, []) ?_ (bad_of_cycle hsq hr hrq [])
    exact List.mem_map.mpr ⟨s, List.mem_reverse.mpr hs, rfl⟩
  | false =>
    simp only [Bool.false_eq_true, false_iff, not_not]
    obtain ⟨e, he, hb⟩ := acyclicLoop_false A _ _ h
    obtain ⟨s, hs, rfl⟩ := List.mem_map.mp he
    refine ⟨s, List.mem_reverse.mp hs, ?_⟩
    exact Bad.cycle hb (Reach.refl s) (by intro v hv; cases hv)

/-! ### `get_accepted_words` -/

/-- the word is within the length bound (if any) -/
def lenOK (maxLen : Option Nat) (w : List Nat) : Prop :=
  match maxLen with
  | some n => w.length ≤ n
  | none => True

/-- extend a word by an edge label -/
def ext (w : List Nat) (a : Option Nat) : List Nat :=
  match a with
  | some a => w ++ [a]
  | none => w

/-- the pairs queued when `(q, w)` is expanded -/
def newPairs (A : ENFA σ) (lead : List σ) (q : σ) (w : List Nat) : List (σ × List Nat) :=
  (A.edgesFrom q).filterMap fun e => if e.2 ∈ lead then some (e.2, ext w e.1) else none

theorem lenOK_nil (maxLen : Option Nat) : lenOK maxLen [] := by
  cases maxLen <;> simp [lenOK]

theorem lenOK_of_append (maxLen : Option Nat) (u v : List Nat) (h : lenOK maxLen (u ++ v)) :
    lenOK maxLen u := by
  cases maxLen with
  | none => trivial
  | some n => simp only [lenOK, List.length_append] at h ⊢; omega

theorem mem_edgesFrom (A : ENFA σ) (q : σ) (e : Option Nat × σ) :
    e ∈ A.edgesFrom q ↔ (q, e.1, e.2) ∈ A.delta := by
  unfold edgesFrom
  simp only [List.mem_filterMap]
  constructor
  · rintro ⟨⟨x, b, y⟩, ht, h⟩
    split at h
    · rename_i hc
      simp only at hc; subst hc
      simp only [Option.some.injEq] at h; subst h
      exact ht
    · cases h
  · intro h
    exact ⟨(q, e.1, e.2), h, by simp⟩

theorem mem_newPairs (A : ENFA σ) (lead : List σ) (q : σ) (w : List Nat) (p : σ × List Nat) :
    p ∈ A.newPairs lead q w ↔
      ∃ a, (q, a, p.1) ∈ A.delta ∧ p.1 ∈ lead ∧ p.2 = ext w a := by
  unfold newPairs
  simp only [List.mem_filterMap, mem_edgesFrom]
  constructor
  · rintro ⟨e, he, h⟩
    split at h
    · rename_i hl
      simp only [Option.some.injEq] at h; subst h
      exact ⟨e.1, he, hl, rfl⟩
    · cases h
  · rintro ⟨a, ha, hl, hp⟩
    refine ⟨(a, p.1), ha, ?_⟩
    simp only [hl, if_true, Option.some.injEq]
    rw [← hp]

theorem wordsLoop_nil (A : ENFA σ) (lead : List σ) (maxLen : Option Nat) (fuel : Nat)
    (wbs : List (σ × List Nat)) (out : List (List Nat)) :
    A.wordsLoop lead maxLen fuel [] wbs out = some out.reverse := by
  cases fuel <;> rfl

theorem wordsLoop_long (A : ENFA σ) (lead : List σ) (maxLen : Option Nat) (fuel : Nat)
    (q : σ) (w : List Nat) (queue wbs : List (σ × List Nat)) (out : List (List Nat))
    (h : ¬ lenOK maxLen w) :
    A.wordsLoop lead maxLen (fuel+1) ((q, w) :: queue) wbs out
      = A.wordsLoop lead maxLen fuel queue wbs out := by
  cases maxLen with
  | none => exact absurd trivial h
  | some n =>
    simp only [lenOK, Nat.not_le] at h
    simp [wordsLoop, h]

theorem wordsLoop_seen (A : ENFA σ) (lead : List σ) (maxLen : Option Nat) (fuel : Nat)
    (q : σ) (w : List Nat) (queue wbs : List (σ × List Nat)) (out : List (List Nat))
    (h : lenOK maxLen w) (hs : (q, w) ∈ wbs) :
    A.wordsLoop lead maxLen (fuel+1) ((q, w) :: queue) wbs out
      = A.wordsLoop lead maxLen fuel queue wbs out := by
  cases maxLen with
  | none => simp [wordsLoop, hs]
  | some n =>
    simp only [lenOK] at h
    simp [wordsLoop, hs, Nat.not_lt.mpr h]

theorem wordsLoop_new (A : ENFA σ) (lead : List σ) (maxLen : Option Nat) (fuel : Nat)
    (q : σ) (w : List Nat) (queue wbs : List (σ × List Nat)) (out : List (List Nat))
    (h : lenOK maxLen w) (hs : (q, w) ∉ wbs) :
    A.wordsLoop lead maxLen (fuel+1) ((q, w) :: queue) wbs out
      = A.wordsLoop lead maxLen fuel (queue ++ A.newPairs lead q w) ((q, w) :: wbs)
          (if q ∈ A.finals ∧ w ∉ out then w :: out else out) := by
  cases maxLen with
  | none => simp [wordsLoop, hs, newPairs, ext]; congr
  | some n =>
    simp only [lenOK] at h
    simp [wordsLoop, hs, Nat.not_lt.mpr h, newPairs, ext]; congr

/-- loop invariant of `wordsLoop` -/
structure WInv (A : ENFA σ) (lead : List σ) (maxLen : Option Nat)
    (queue wbs : List (σ × List Nat)) (out : List (List Nat)) : Prop where
  run : ∀ p, p ∈ queue ∨ p ∈ wbs → ∃ s ∈ A.starts, A.Run s p.2 p.1
  len : ∀ p ∈ wbs, lenOK maxLen p.2
  out_sound : ∀ w ∈ out, ∃ q ∈ A.finals, (q, w) ∈ wbs
  nodup : out.Nodup
  start : ∀ s ∈ A.starts, (s, []) ∈ queue ∨ (s, []) ∈ wbs
  closed : ∀ p ∈ wbs, ∀ a r, (p.1, a, r) ∈ A.delta → r ∈ lead → lenOK maxLen (ext p.2 a) →
    (r, ext p.2 a) ∈ queue ∨ (r, ext p.2 a) ∈ wbs
  yield : ∀ p ∈ wbs, p.1 ∈ A.finals → p.2 ∈ out

omit [DecidableEq σ] in
theorem WInv.drop_long {A : ENFA σ} {lead : List σ} {maxLen : Option Nat} {q : σ} {w : List Nat}
    {queue wbs : List (σ × List Nat)} {out : List (List Nat)}
    (hi : WInv A lead maxLen ((q, w) :: queue) wbs out) (h : ¬ lenOK maxLen w) :
    WInv A lead maxLen queue wbs out := by
  refine ⟨?_, hi.len, hi.out_sound, hi.nodup, ?_, ?_, hi.yield⟩
  · intro p hp
    rcases hp with hp | hp
    · exact hi.run p (Or.inl (List.mem_cons_of_mem _ hp))
    · exact hi.run p (Or.inr hp)
  · intro s hs
    rcases hi.start s hs with hp | hp
    · rcases List.mem_cons.mp hp with heq | hp
      · cases heq; exact absurd (lenOK_nil maxLen) h
      · exact Or.inl hp
    · exact Or.inr hp
  · intro p hp a r ha hr hl
    rcases hi.closed p hp a r ha hr hl with hp | hp
    · rcases List.mem_cons.mp hp with heq | hp
      · cases heq; exact absurd hl h
      · exact Or.inl hp
    · exact Or.inr hp

omit [DecidableEq σ] in
theorem WInv.drop_seen {A : ENFA σ} {lead : List σ} {maxLen : Option Nat} {q : σ} {w : List Nat}
    {queue wbs : List (σ × List Nat)} {out : List (List Nat)}
    (hi : WInv A lead maxLen ((q, w) :: queue) wbs out) (h : (q, w) ∈ wbs) :
    WInv A lead maxLen queue wbs out := by
  refine ⟨?_, hi.len, hi.out_sound, hi.nodup, ?_, ?_, hi.yield⟩
  · intro p hp
    rcases hp with hp | hp
    · exact hi.run p (Or.inl (List.mem_cons_of_mem _ hp))
    · exact hi.run p (Or.inr hp)
  · intro s hs
    rcases hi.start s hs with hp | hp
    · rcases List.mem_cons.mp hp with heq | hp
      · rw [heq]; exact Or.inr h
      · exact Or.inl hp
    · exact Or.inr hp
  · intro p hp a r ha hr hl
    rcases hi.closed p hp a r ha hr hl with hp | hp
    · rcases List.mem_cons.mp hp with heq | hp
      · rw [heq]; exact Or.inr h
      · exact Or.inl hp
    · exact Or.inr hp

theorem WInv.expand {A : ENFA σ} {lead : List σ} {maxLen : Option Nat} {q : σ} {w : List Nat}
    {queue wbs : List (σ × List Nat)} {out : List (List Nat)}
    (hi : WInv A lead maxLen ((q, w) :: queue) wbs out) (h : lenOK maxLen w) :
    WInv A lead maxLen (queue ++ A.newPairs lead q w) ((q, w) :: wbs)
      (if q ∈ A.finals ∧ w ∉ out then w :: out else out) := by
  have hqw : ∃ s ∈ A.starts, A.Run s w q := hi.run (q, w) (Or.inl List.mem_cons_self)
  refine ⟨?_, ?_, ?_, ?_, ?_, ?_, ?_⟩
  · intro p hp
    rcases hp with hp | hp
    · rcases List.mem_append.mp hp with hp | hp
      · exact hi.run p (Or.inl (List.mem_cons_of_mem _ hp))
      · obtain ⟨a, ha, _, hp2⟩ := (mem_newPairs A lead q w p).mp hp
        obtain ⟨s, hs, hr⟩ := hqw
        refine ⟨s, hs, ?_⟩
        rw [hp2]
        cases a with
        | none => exact Run.snoc_eps hr ha
        | some a => exact Run.snoc hr ha
    · rcases List.mem_cons.mp hp with rfl | hp
      · exact hqw
      · exact hi.run p (Or.inr hp)
  · intro p hp
    rcases List.mem_cons.mp hp with rfl | hp
    · exact h
    · exact hi.len p hp
  · intro v hv
    split at hv
    · rename_i hc
      rcases List.mem_cons.mp hv with rfl | hv
      · exact ⟨q, hc.1, List.mem_cons_self⟩
      · obtain ⟨f, hf, hm⟩ := hi.out_sound v hv
        exact ⟨f, hf, List.mem_cons_of_mem _ hm⟩
    · obtain ⟨f, hf, hm⟩ := hi.out_sound v hv
      exact ⟨f, hf, List.mem_cons_of_mem _ hm⟩
  · split
    · rename_i hc
      exact List.nodup_cons.mpr ⟨hc.2, hi.nodup⟩
    · exact hi.nodup
  · intro s hs
    rcases hi.start s hs with hp | hp
    · rcases List.mem_cons.mp hp with heq | hp
      · rw [heq]; exact Or.inr List.mem_cons_self
      · exact Or.inl (List.mem_append_left _ hp)
    · exact Or.inr (List.mem_cons_of_mem _ hp)
  · intro p hp a r ha hr hl
    rcases List.mem_cons.mp hp with rfl | hp
    · left
      apply List.mem_append_right
      exact (mem_newPairs A lead _ _ _).mpr ⟨a, ha, hr, rfl⟩
    · rcases hi.closed p hp a r ha hr hl with hp | hp
      · rcases List.mem_cons.mp hp with heq | hp
        · rw [heq]; exact Or.inr List.mem_cons_self
        · exact Or.inl (List.mem_append_left _ hp)
      · exact Or.inr (List.mem_cons_of_mem _ hp)
  · intro p hp hf
    rcases List.mem_cons.mp hp with rfl | hp
    · split
      · exact List.mem_cons_self
      · rename_i hc
        by_contra hn
        exact hc ⟨hf, hn⟩
    · have := hi.yield p hp hf
      split
      · exact List.mem_cons_of_mem _ this
      · exact this

theorem wordsLoop_inv (A : ENFA σ) (lead : List σ) (maxLen : Option Nat) :
    ∀ fuel queue wbs out ws, A.wordsLoop lead maxLen fuel queue wbs out = some ws →
      WInv A lead maxLen queue wbs out →
      ∃ wbs' out', WInv A lead maxLen [] wbs' out' ∧ ws = out'.reverse := by
  intro fuel
  induction fuel with
  | zero =>
    intro queue wbs out ws h hi
    cases queue with
    | nil =>
      rw [wordsLoop_nil] at h
      exact ⟨wbs, out, hi, (Option.some.inj h).symm⟩
    | cons a t => simp [wordsLoop] at h
  | succ n ih =>
    intro queue wbs out ws h hi
    cases queue with
    | nil =>
      rw [wordsLoop_nil] at h
      exact ⟨wbs, out, hi, (Option.some.inj h).symm⟩
    | cons a queue =>
      obtain ⟨q, w⟩ := a
      by_cases hl : lenOK maxLen w
      · by_cases hs : (q, w) ∈ wbs
        · rw [wordsLoop_seen A lead maxLen n q w queue wbs out hl hs] at h
          exact ih _ _ _ _ h (hi.drop_seen hs)
        · rw [wordsLoop_new A lead maxLen n q w queue wbs out hl hs] at h
          exact ih _ _ _ _ h (hi.expand hl)
      · rw [wordsLoop_long A lead maxLen n q w queue wbs out hl] at h
        exact ih _ _ _ _ h (hi.drop_long hl)

omit [DecidableEq σ] in
/-- completeness of a closed `wbs` -/
theorem WInv.complete {A : ENFA σ} {lead : List σ} {maxLen : Option Nat}
    {wbs : List (σ × List Nat)} {out : List (List Nat)}
    (hi : WInv A lead maxLen [] wbs out)
    (hlead : ∀ q, (∃ w, ∃ f ∈ A.finals, A.Run q w f) → q ∈ lead)
    {q f : σ} {v : List Nat} (hr : A.Run q v f) (hf : f ∈ A.finals) :
    ∀ u, (q, u) ∈ wbs → lenOK maxLen (u ++ v) → (f, u ++ v) ∈ wbs := by
  induction hr with
  | nil q => intro u hu _; simpa using hu
  | @eps q r s v he hr ih =>
    intro u hu hl
    have hrl : r ∈ lead := hlead r ⟨v, s, hf, hr⟩
    have := hi.closed (q, u) hu none r he hrl (lenOK_of_append maxLen u v hl)
    simp only [List.not_mem_nil, false_or, ext] at this
    exact ih hf u this hl
  | @step q r s a v he hr ih =>
    intro u hu hl
    have hrl : r ∈ lead := hlead r ⟨v, s, hf, hr⟩
    have hl' : lenOK maxLen ((u ++ [a]) ++ v) := by simpa using hl
    have := hi.closed (q, u) hu (some a) r he hrl (lenOK_of_append maxLen (u ++ [a]) v hl')
    simp only [List.not_mem_nil, false_or, ext] at this
    have := ih hf (u ++ [a]) this hl'
    simpa using this

theorem wordsLoop_exact (A : ENFA σ) (maxLen : Option Nat) (fuel : Nat) (ws : List (List Nat))
    (h : A.acceptedWords maxLen fuel = some ws) :
    ws.Nodup ∧ ∀ w, w ∈ ws ↔ lenOK maxLen w ∧ A.Lang w := by
  unfold acceptedWords at h
  have h0 : WInv A A.leadingToFinal maxLen (A.starts.map fun q => (q, [])) [] [] := by
    refine ⟨?_, ?_, ?_, List.nodup_nil, ?_, ?_, ?_⟩
    · intro p hp
      rcases hp with hp | hp
      · obtain ⟨s, hs, rfl⟩ := List.mem_map.mp hp
        exact ⟨s, hs, Run.nil s⟩
      · cases hp
    · intro p hp; cases hp
    · intro w hw; cases hw
    · intro s hs; exact Or.inl (List.mem_map.mpr ⟨s, hs, rfl⟩)
    · intro p hp; cases hp
    · intro p hp; cases hp
  obtain ⟨wbs, out, hi, rfl⟩ := wordsLoop_inv A _ maxLen fuel _ _ _ ws h h0
  refine ⟨List.nodup_reverse.mpr hi.nodup, ?_⟩
  intro w
  rw [List.mem_reverse]
  constructor
  · intro hw
    obtain ⟨f, hf, hm⟩ := hi.out_sound w hw
    obtain ⟨s, hs, hr⟩ := hi.run (f, w) (Or.inr hm)
    exact ⟨hi.len _ hm, s, hs, f, hf, hr⟩
  · rintro ⟨hl, s, hs, f, hf, hr⟩
    have hs0 : (s, []) ∈ wbs := by
      have := hi.start s hs
      simpa using this
    have := hi.complete (fun q hq => (mem_leadingToFinal_iff' A q).mpr hq) hr hf [] hs0
      (by simpa using hl)
    exact hi.yield (f, [] ++ w) this hf

end ENFA
end Pfl
