/-
Helper lemmas for C05: inversion of `Denote`, the derivative matcher, and the Thompson
construction (state ranges, completeness by path building, soundness by first-exit decomposition
of length-indexed paths in an ambient edge list).
-/
import Pfl.Spec.Regex
import Pfl.Spec.FA
import Pfl.Proofs.FABase
import Pfl.Proofs.FAEpsCopy
import Pfl.Proofs.FARef
namespace Pfl
namespace Rx
namespace Lem

/-! ### inversion of `Denote` -/

theorem empty_denote (w : List String) : ¬ Denote .empty w := by
  intro h; cases h

theorem eps_denote (w : List String) : Denote .eps w ↔ w = [] := by
  constructor
  · intro h; cases h; rfl
  · rintro rfl; exact .eps

theorem sym_denote (s : String) (w : List String) : Denote (.sym s) w ↔ w = [s] := by
  constructor
  · intro h; cases h; rfl
  · rintro rfl; exact .sym s

theorem alt_denote (a b : Rx) (w : List String) :
    Denote (.alt a b) w ↔ Denote a w ∨ Denote b w := by
  constructor
  · intro h
    cases h with
    | altL h => exact Or.inl h
    | altR h => exact Or.inr h
  · rintro (h | h)
    · exact .altL h
    · exact .altR h

theorem cat_denote (a b : Rx) (w : List String) :
    Denote (.cat a b) w ↔ ∃ u v, w = u ++ v ∧ Denote a u ∧ Denote b v := by
  constructor
  · intro h
    cases h with
    | cat h1 h2 => exact ⟨_, _, rfl, h1, h2⟩
  · rintro ⟨u, v, rfl, h1, h2⟩
    exact .cat h1 h2

theorem star_denote_fwd : ∀ (r : Rx) (w : List String), Denote r w → ∀ a, r = .star a →
    ∃ ws : List (List String), w = ws.flatten ∧ ∀ x ∈ ws, Denote a x := by
  intro r w h
  induction h with
  | eps => intro a h; cases h
  | sym s => intro a h; cases h
  | cat _ _ _ _ => intro a h; cases h
  | altL _ _ => intro a h; cases h
  | altR _ _ => intro a h; cases h
  | starNil => intro a _; exact ⟨[], rfl, by simp⟩
  | @starCons a' u v h1 _ _ ih2 =>
    intro a h
    cases h
    obtain ⟨ws, rfl, hws⟩ := ih2 _ rfl
    refine ⟨u :: ws, by simp, ?_⟩
    intro x hx
    rcases List.mem_cons.mp hx with rfl | hx
    · exact h1
    · exact hws x hx

theorem star_denote (a : Rx) (w : List String) :
    Denote (.star a) w ↔ ∃ ws : List (List String), w = ws.flatten ∧ ∀ x ∈ ws, Denote a x := by
  constructor
  · intro h; exact star_denote_fwd _ _ h a rfl
  · rintro ⟨ws, rfl, hws⟩
    induction ws with
    | nil => exact .starNil
    | cons x ws ih =>
      rw [List.flatten_cons]
      exact .starCons (hws x List.mem_cons_self) (ih (fun y hy => hws y (List.mem_cons_of_mem _ hy)))

/-- a non-empty word of `star a` starts with a non-empty chunk of `a` -/
theorem star_cons_inv : ∀ (r : Rx) (v : List String), Denote r v → ∀ a c w, r = .star a →
    v = c :: w → ∃ u v', w = u ++ v' ∧ Denote a (c :: u) ∧ Denote (.star a) v' := by
  intro r v h
  induction h with
  | eps => intro a c w h; cases h
  | sym s => intro a c w h; cases h
  | cat _ _ _ _ => intro a c w h; cases h
  | altL _ _ => intro a c w h; cases h
  | altR _ _ => intro a c w h; cases h
  | starNil => intro a c w _ h; cases h
  | @starCons a' u v h1 h2 _ ih2 =>
    intro a c w h hv
    cases h
    cases u with
    | nil => exact ih2 _ c w rfl (by simpa using hv)
    | cons d u' =>
      simp only [List.cons_append, List.cons.injEq] at hv
      obtain ⟨rfl, rfl⟩ := hv
      exact ⟨u', v, rfl, h1, h2⟩

/-! ### the derivative matcher -/

theorem nullable_iff (r : Rx) : r.nullable = true ↔ Denote r [] := by
  induction r with
  | empty => simp [nullable, empty_denote]
  | eps => simp [nullable, eps_denote]
  | sym s => simp [nullable, sym_denote]
  | cat a b iha ihb =>
    simp only [nullable, Bool.and_eq_true, iha, ihb, cat_denote]
    constructor
    · rintro ⟨h1, h2⟩; exact ⟨[], [], rfl, h1, h2⟩
    · rintro ⟨u, v, h, h1, h2⟩
      have : u = [] ∧ v = [] := by simpa using h.symm
      obtain ⟨rfl, rfl⟩ := this
      exact ⟨h1, h2⟩
  | alt a b iha ihb =>
    simp only [nullable, Bool.or_eq_true, iha, ihb, alt_denote]
  | star a _ =>
    simp only [nullable, true_iff]
    exact .starNil

theorem deriv_iff (c : String) (r : Rx) : ∀ (w : List String),
    Denote (deriv c r) w ↔ Denote r (c :: w) := by
  induction r with
  | empty => intro w; simp [deriv, empty_denote]
  | eps => intro w; simp [deriv, empty_denote, eps_denote]
  | sym s =>
    intro w
    simp only [deriv, sym_denote]
    split
    · rename_i h; subst h; simp [eps_denote]
    · rename_i h
      simp only [empty_denote, List.cons.injEq, false_iff, not_and]
      intro hc; exact absurd hc.symm h
  | cat a b iha ihb =>
    intro w
    have key : (∃ u v, w = u ++ v ∧ Denote a (c :: u) ∧ Denote b v) ∨
        (Denote a [] ∧ Denote b (c :: w)) ↔ Denote (.cat a b) (c :: w) := by
      rw [cat_denote]
      constructor
      · rintro (⟨u, v, rfl, h1, h2⟩ | ⟨h1, h2⟩)
        · exact ⟨c :: u, v, rfl, h1, h2⟩
        · exact ⟨[], c :: w, rfl, h1, h2⟩
      · rintro ⟨u, v, h, h1, h2⟩
        cases u with
        | nil => right; simp only [List.nil_append] at h; subst h; exact ⟨h1, h2⟩
        | cons d u' =>
          simp only [List.cons_append, List.cons.injEq] at h
          obtain ⟨rfl, rfl⟩ := h
          exact Or.inl ⟨u', v, rfl, h1, h2⟩
    rw [← key]
    simp only [deriv]
    split
    · rename_i hn
      rw [alt_denote, cat_denote, ihb]
      have hn' := (nullable_iff a).mp hn
      simp only [iha, hn', true_and]
    · rename_i hn
      have hn' : ¬ Denote a [] := fun h => hn ((nullable_iff a).mpr h)
      rw [cat_denote]
      simp only [iha, hn', false_and, or_false]
  | alt a b iha ihb =>
    intro w
    simp only [deriv, alt_denote, iha, ihb]
  | star a iha =>
    intro w
    simp only [deriv, cat_denote, iha]
    constructor
    · rintro ⟨u, v, rfl, h1, h2⟩
      exact Denote.starCons h1 h2
    · intro h
      exact star_cons_inv _ _ h a c w rfl rfl

theorem matches_iff (r : Rx) (w : List String) : r.matches w = true ↔ Denote r w := by
  induction w generalizing r with
  | nil => simp only [«matches», nullable_iff]
  | cons c w ih => simp only [«matches», ih, deriv_iff]


/-! ### Thompson construction: state ranges -/

abbrev Edge := Nat × Option Nat × Nat

/-- sources are the entry state or fresh, targets are the exit state or fresh -/
theorem aux_range (code : String → Nat) : ∀ (r : Rx) (f t c : Nat) (E : List Edge) (c' : Nat),
    thompsonAux code r f t c = (E, c') →
    c ≤ c' ∧ ∀ e ∈ E, (e.1 = f ∨ (c ≤ e.1 ∧ e.1 < c')) ∧ (e.2.2 = t ∨ (c ≤ e.2.2 ∧ e.2.2 < c')) := by
  intro r
  induction r with
  | empty =>
    intro f t c E c' h
    simp only [thompsonAux, Prod.mk.injEq] at h
    obtain ⟨rfl, rfl⟩ := h
    simp
  | eps =>
    intro f t c E c' h
    simp only [thompsonAux, Prod.mk.injEq] at h
    obtain ⟨rfl, rfl⟩ := h
    simp
  | sym s =>
    intro f t c E c' h
    simp only [thompsonAux, Prod.mk.injEq] at h
    obtain ⟨rfl, rfl⟩ := h
    simp
  | cat a b iha ihb =>
    intro f t c E c' h
    rcases hea : thompsonAux code a f c (c + 2) with ⟨Ea, c1⟩
    rcases heb : thompsonAux code b (c + 1) t c1 with ⟨Eb, c2⟩
    simp only [thompsonAux, hea, heb, Prod.mk.injEq] at h
    obtain ⟨rfl, rfl⟩ := h
    obtain ⟨ha1, ha2⟩ := iha _ _ _ _ _ hea
    obtain ⟨hb1, hb2⟩ := ihb _ _ _ _ _ heb
    refine ⟨by omega, ?_⟩
    intro e he
    simp only [List.cons_append, List.mem_cons, List.mem_append] at he
    rcases he with rfl | he | he
    · simp <;> omega
    · have := ha2 e he; omega
    · have := hb2 e he; omega
  | alt a b iha ihb =>
    intro f t c E c' h
    rcases hea : thompsonAux code a c (c + 1) (c + 2) with ⟨Ea, c1⟩
    rcases heb : thompsonAux code b c1 (c1 + 1) (c1 + 2) with ⟨Eb, c2⟩
    simp only [thompsonAux, hea, heb, Prod.mk.injEq] at h
    obtain ⟨rfl, rfl⟩ := h
    obtain ⟨ha1, ha2⟩ := iha _ _ _ _ _ hea
    obtain ⟨hb1, hb2⟩ := ihb _ _ _ _ _ heb
    refine ⟨by omega, ?_⟩
    intro e he
    simp only [List.cons_append, List.mem_cons, List.mem_append] at he
    rcases he with rfl | rfl | he | rfl | rfl | he
    · simp <;> omega
    · simp <;> omega
    · have := ha2 e he; omega
    · simp <;> omega
    · simp <;> omega
    · have := hb2 e he; omega
  | star a iha =>
    intro f t c E c' h
    rcases hea : thompsonAux code a c (c + 1) (c + 2) with ⟨Ea, c1⟩
    simp only [thompsonAux, hea, Prod.mk.injEq] at h
    obtain ⟨rfl, rfl⟩ := h
    obtain ⟨ha1, ha2⟩ := iha _ _ _ _ _ hea
    refine ⟨by omega, ?_⟩
    intro e he
    simp only [List.mem_cons] at he
    rcases he with rfl | rfl | rfl | rfl | he
    · simp <;> omega
    · simp <;> omega
    · simp <;> omega
    · simp <;> omega
    · have := ha2 e he; omega

/-! ### completeness: every denoted word labels a path through the fragment -/

/-- the bare automaton on an edge list -/
def EA (D : List Edge) : ENFA Nat := ⟨[], [], [], [], D⟩

theorem EA_mono {D D' : List Edge} (h : ∀ e ∈ D, e ∈ D') {q r : Nat} {w : List Nat}
    (hr : (EA D).Run q w r) : (EA D').Run q w r :=
  ENFA.Run.mono (A := EA D) (B := EA D') h hr

theorem complete (code : String → Nat) : ∀ (r : Rx) (f t c : Nat) (E : List Edge) (c' : Nat),
    thompsonAux code r f t c = (E, c') → ∀ w, Denote r w → (EA E).Run f (w.map code) t := by
  intro r
  induction r with
  | empty => intro f t c E c' _ w hw; cases hw
  | eps =>
    intro f t c E c' h w hw
    simp only [thompsonAux, Prod.mk.injEq] at h
    obtain ⟨rfl, rfl⟩ := h
    cases hw
    exact .eps (r := t) (by simp [EA]) (.nil t)
  | sym s =>
    intro f t c E c' h w hw
    simp only [thompsonAux, Prod.mk.injEq] at h
    obtain ⟨rfl, rfl⟩ := h
    cases hw
    exact .step (r := t) (by simp [EA]) (.nil t)
  | cat a b iha ihb =>
    intro f t c E c' h w hw
    rcases hea : thompsonAux code a f c (c + 2) with ⟨Ea, c1⟩
    rcases heb : thompsonAux code b (c + 1) t c1 with ⟨Eb, c2⟩
    simp only [thompsonAux, hea, heb, Prod.mk.injEq] at h
    obtain ⟨rfl, rfl⟩ := h
    obtain ⟨u, v, rfl, hu, hv⟩ := (cat_denote a b w).mp hw
    rw [List.map_append]
    have ra := EA_mono (D' := (c, none, c + 1) :: Ea ++ Eb) (by intro e he; simp [he])
      (iha _ _ _ _ _ hea u hu)
    have rb := EA_mono (D' := (c, none, c + 1) :: Ea ++ Eb) (by intro e he; simp [he])
      (ihb _ _ _ _ _ heb v hv)
    exact ENFA.Run.append (ENFA.Run.snoc_eps ra (by simp [EA])) rb
  | alt a b iha ihb =>
    intro f t c E c' h w hw
    rcases hea : thompsonAux code a c (c + 1) (c + 2) with ⟨Ea, c1⟩
    rcases heb : thompsonAux code b c1 (c1 + 1) (c1 + 2) with ⟨Eb, c2⟩
    simp only [thompsonAux, hea, heb, Prod.mk.injEq] at h
    obtain ⟨rfl, rfl⟩ := h
    rcases (alt_denote a b w).mp hw with hw | hw
    · have ra := EA_mono
        (D' := (f, none, c) :: (c + 1, none, t) :: Ea ++ (f, none, c1) :: (c1 + 1, none, t) :: Eb)
        (by intro e he; simp [he]) (iha _ _ _ _ _ hea w hw)
      exact .eps (r := c) (by simp [EA]) (ENFA.Run.snoc_eps ra (by simp [EA]))
    · have rb := EA_mono
        (D' := (f, none, c) :: (c + 1, none, t) :: Ea ++ (f, none, c1) :: (c1 + 1, none, t) :: Eb)
        (by intro e he; simp [he]) (ihb _ _ _ _ _ heb w hw)
      exact .eps (r := c1) (by simp [EA]) (ENFA.Run.snoc_eps rb (by simp [EA]))
  | star a iha =>
    intro f t c E c' h w hw
    rcases hea : thompsonAux code a c (c + 1) (c + 2) with ⟨Ea, c1⟩
    simp only [thompsonAux, hea, Prod.mk.injEq] at h
    obtain ⟨rfl, rfl⟩ := h
    obtain ⟨ws, rfl, hws⟩ := (star_denote a w).mp hw
    have son : ∀ x, Denote a x →
        (EA ((c + 1, none, c) :: (f, none, t) :: (f, none, c) :: (c + 1, none, t) :: Ea)).Run
          c (x.map code) (c + 1) := fun x hx =>
      EA_mono (by intro e he; simp [he]) (iha _ _ _ _ _ hea x hx)
    have loop : ∀ ws : List (List String), (∀ x ∈ ws, Denote a x) →
        (EA ((c + 1, none, c) :: (f, none, t) :: (f, none, c) :: (c + 1, none, t) :: Ea)).Run
          (c + 1) (ws.flatten.map code) t := by
      intro ws
      induction ws with
      | nil => intro _; exact .eps (r := t) (by simp [EA]) (.nil t)
      | cons x ws ih =>
        intro hws
        rw [List.flatten_cons, List.map_append]
        exact .eps (r := c) (by simp [EA])
          (ENFA.Run.append (son x (hws x List.mem_cons_self))
            (ih (fun y hy => hws y (List.mem_cons_of_mem _ hy))))
    cases ws with
    | nil => exact .eps (r := t) (by simp [EA]) (.nil t)
    | cons x ws =>
      rw [List.flatten_cons, List.map_append]
      exact .eps (r := c) (by simp [EA])
        (ENFA.Run.append (son x (hws x List.mem_cons_self))
          (loop ws (fun y hy => hws y (List.mem_cons_of_mem _ hy))))

/-! ### soundness: first-exit decomposition of length-indexed paths -/

/-- paths with their number of edges -/
inductive PathN (D : List Edge) : Nat → Nat → List Nat → Nat → Prop
  | nil (q : Nat) : PathN D 0 q [] q
  | eps {n q r s : Nat} {w : List Nat} : (q, none, r) ∈ D → PathN D n r w s → PathN D (n + 1) q w s
  | step {n q r s a : Nat} {w : List Nat} :
      (q, some a, r) ∈ D → PathN D n r w s → PathN D (n + 1) q (a :: w) s

theorem PathN.of_run {A : ENFA Nat} {q r : Nat} {w : List Nat} (h : A.Run q w r) :
    ∃ n, PathN A.delta n q w r := by
  induction h with
  | nil q => exact ⟨0, .nil q⟩
  | eps he _ ih => obtain ⟨n, hn⟩ := ih; exact ⟨n + 1, .eps he hn⟩
  | step he _ ih => obtain ⟨n, hn⟩ := ih; exact ⟨n + 1, .step he hn⟩

theorem PathN.mono {D D' : List Edge} (h : ∀ e ∈ D, e ∈ D') {n q r : Nat} {w : List Nat}
    (hp : PathN D n q w r) : PathN D' n q w r := by
  induction hp with
  | nil q => exact .nil q
  | eps he _ ih => exact .eps (h _ he) ih
  | step he _ ih => exact .step (h _ he) ih

/-- first-edge inversion, uniform in the label -/
theorem PathN.inv {D : List Edge} {n p q : Nat} {ks : List Nat} (h : PathN D n p ks q) :
    (n = 0 ∧ ks = [] ∧ q = p) ∨
    ∃ m a r ks', n = m + 1 ∧ (p, a, r) ∈ D ∧ PathN D m r ks' q ∧ ks = a.toList ++ ks' := by
  cases h with
  | nil => exact Or.inl ⟨rfl, rfl, rfl⟩
  | eps he hp => exact Or.inr ⟨_, none, _, _, rfl, he, hp, rfl⟩
  | step he hp => exact Or.inr ⟨_, some _, _, _, rfl, he, hp, rfl⟩

/-- the coded language of a regex -/
def L (code : String → Nat) (r : Rx) (ks : List Nat) : Prop := ∃ w, Denote r w ∧ w.map code = ks

theorem L_cat {code : String → Nat} {a b : Rx} {k1 k2 : List Nat} (h1 : L code a k1) (h2 : L code b k2) :
    L code (.cat a b) (k1 ++ k2) := by
  obtain ⟨u, hu, rfl⟩ := h1
  obtain ⟨v, hv, rfl⟩ := h2
  exact ⟨u ++ v, .cat hu hv, by simp⟩

theorem L_star_cons {code : String → Nat} {a : Rx} {k1 k2 : List Nat} (h1 : L code a k1)
    (h2 : L code (.star a) k2) : L code (.star a) (k1 ++ k2) := by
  obtain ⟨u, hu, rfl⟩ := h1
  obtain ⟨v, hv, rfl⟩ := h2
  exact ⟨u ++ v, .starCons hu hv, by simp⟩

theorem L_star_nil {code : String → Nat} {a : Rx} : L code (.star a) [] := ⟨[], .starNil, rfl⟩

theorem L_star_one {code : String → Nat} {a : Rx} {k1 : List Nat} (h1 : L code a k1) :
    L code (.star a) k1 := by
  have := L_star_cons h1 (L_star_nil (code := code) (a := a))
  simpa using this

theorem L_altL {code : String → Nat} {a b : Rx} {k : List Nat} (h : L code a k) : L code (.alt a b) k := by
  obtain ⟨u, hu, rfl⟩ := h; exact ⟨u, .altL hu, rfl⟩

theorem L_altR {code : String → Nat} {a b : Rx} {k : List Nat} (h : L code b k) : L code (.alt a b) k := by
  obtain ⟨u, hu, rfl⟩ := h; exact ⟨u, .altR hu, rfl⟩

/-- the statement proved by induction on the regex: in any ambient edge list `D` in which the
edges leaving the entry state and the fresh states are those of the fragment, a path from the
entry state either ends inside the fragment or leaves it through the exit state after spelling
a word of the language -/
def Sound (code : String → Nat) (r : Rx) : Prop :=
  ∀ (f t c : Nat) (E : List Edge) (c' : Nat), thompsonAux code r f t c = (E, c') →
    f < c → t < c → f ≠ t →
    ∀ D : List Edge, (∀ e ∈ D, (e.1 = f ∨ (c ≤ e.1 ∧ e.1 < c')) → e ∈ E) →
    ∀ n ks q, PathN D n f ks q →
      (q = f ∨ (c ≤ q ∧ q < c')) ∨
      ∃ m ks1 ks2, m ≤ n ∧ ks = ks1 ++ ks2 ∧ L code r ks1 ∧ PathN D m t ks2 q

theorem sound_empty (code : String → Nat) : Sound code .empty := by
  intro f t c E c' h hf ht hft D hD n ks q hp
  simp only [thompsonAux, Prod.mk.injEq] at h
  obtain ⟨rfl, rfl⟩ := h
  rcases hp.inv with ⟨_, _, rfl⟩ | ⟨m, a, r, ks', _, he, _, _⟩
  · exact Or.inl (Or.inl rfl)
  · have := hD _ he (Or.inl rfl)
    simp at this

theorem sound_eps (code : String → Nat) : Sound code .eps := by
  intro f t c E c' h hf ht hft D hD n ks q hp
  simp only [thompsonAux, Prod.mk.injEq] at h
  obtain ⟨rfl, rfl⟩ := h
  rcases hp.inv with ⟨_, _, rfl⟩ | ⟨m, a, r, ks', rfl, he, hp', rfl⟩
  · exact Or.inl (Or.inl rfl)
  · have := hD _ he (Or.inl rfl)
    simp only [List.mem_singleton, Prod.mk.injEq, true_and] at this
    obtain ⟨rfl, rfl⟩ := this
    exact Or.inr ⟨m, [], ks', by omega, rfl, ⟨[], .eps, rfl⟩, hp'⟩

theorem sound_sym (code : String → Nat) (s : String) : Sound code (.sym s) := by
  intro f t c E c' h hf ht hft D hD n ks q hp
  simp only [thompsonAux, Prod.mk.injEq] at h
  obtain ⟨rfl, rfl⟩ := h
  rcases hp.inv with ⟨_, _, rfl⟩ | ⟨m, a, r, ks', rfl, he, hp', rfl⟩
  · exact Or.inl (Or.inl rfl)
  · have := hD _ he (Or.inl rfl)
    simp only [List.mem_singleton, Prod.mk.injEq, true_and] at this
    obtain ⟨rfl, rfl⟩ := this
    exact Or.inr ⟨m, [code s], ks', by omega, rfl, ⟨[s], .sym s, rfl⟩, hp'⟩

theorem sound_cat (code : String → Nat) (a b : Rx) (iha : Sound code a) (ihb : Sound code b) :
    Sound code (.cat a b) := by
  intro f t c E c' h hf ht hft D hD n ks q hp
  rcases hea : thompsonAux code a f c (c + 2) with ⟨Ea, c1⟩
  rcases heb : thompsonAux code b (c + 1) t c1 with ⟨Eb, c2⟩
  simp only [thompsonAux, hea, heb, Prod.mk.injEq] at h
  obtain ⟨rfl, rfl⟩ := h
  obtain ⟨ha1, ha2⟩ := aux_range code _ _ _ _ _ _ hea
  obtain ⟨hb1, hb2⟩ := aux_range code _ _ _ _ _ _ heb
  -- which edges of the fragment leave a given state
  have hD' : ∀ e ∈ D, (e.1 = f ∨ (c ≤ e.1 ∧ e.1 < c2)) →
      e = (c, none, c + 1) ∨ e ∈ Ea ∨ e ∈ Eb := by
    intro e he hs
    have := hD e he hs
    simpa only [List.cons_append, List.mem_cons, List.mem_append] using this
  have hDa : ∀ e ∈ D, (e.1 = f ∨ (c + 2 ≤ e.1 ∧ e.1 < c1)) → e ∈ Ea := by
    intro e he hs
    rcases hD' e he (by omega) with rfl | h | h
    · simp only at hs; omega
    · exact h
    · have := (hb2 e h).1; omega
  have hDb : ∀ e ∈ D, (e.1 = c + 1 ∨ (c1 ≤ e.1 ∧ e.1 < c2)) → e ∈ Eb := by
    intro e he hs
    rcases hD' e he (by omega) with rfl | h | h
    · simp only at hs; omega
    · have := (ha2 e h).1; omega
    · exact h
  rcases iha _ _ _ _ _ hea (by omega) (by omega) (by omega) D hDa n ks q hp with
    hin | ⟨m, k1, k2, hm, rfl, hL1, hp2⟩
  · left; omega
  · rcases hp2.inv with ⟨_, _, rfl⟩ | ⟨m', x, r, ks', rfl, he, hp3, rfl⟩
    · left; omega
    · have hx : x = none ∧ r = c + 1 := by
        rcases hD' _ he (by simp only; omega) with h | h | h
        · simpa using h
        · have := (ha2 _ h).1; simp only at this; omega
        · have := (hb2 _ h).1; simp only at this; omega
      obtain ⟨rfl, rfl⟩ := hx
      rcases ihb _ _ _ _ _ heb (by omega) (by omega) (by omega) D hDb m' ks' q hp3 with
        hin | ⟨m2, k3, k4, hm2, rfl, hL2, hp4⟩
      · left; omega
      · exact Or.inr ⟨m2, k1 ++ k3, k4, by omega, by simp, L_cat hL1 hL2, hp4⟩

theorem sound_alt (code : String → Nat) (a b : Rx) (iha : Sound code a) (ihb : Sound code b) :
    Sound code (.alt a b) := by
  intro f t c E c' h hf ht hft D hD n ks q hp
  rcases hea : thompsonAux code a c (c + 1) (c + 2) with ⟨Ea, c1⟩
  rcases heb : thompsonAux code b c1 (c1 + 1) (c1 + 2) with ⟨Eb, c2⟩
  simp only [thompsonAux, hea, heb, Prod.mk.injEq] at h
  obtain ⟨rfl, rfl⟩ := h
  obtain ⟨ha1, ha2⟩ := aux_range code _ _ _ _ _ _ hea
  obtain ⟨hb1, hb2⟩ := aux_range code _ _ _ _ _ _ heb
  have hD' : ∀ e ∈ D, (e.1 = f ∨ (c ≤ e.1 ∧ e.1 < c2)) →
      e = (f, none, c) ∨ e = (c + 1, none, t) ∨ e ∈ Ea ∨ e = (f, none, c1) ∨
        e = (c1 + 1, none, t) ∨ e ∈ Eb := by
    intro e he hs
    have := hD e he hs
    simpa only [List.cons_append, List.mem_cons, List.mem_append] using this
  have hDa : ∀ e ∈ D, (e.1 = c ∨ (c + 2 ≤ e.1 ∧ e.1 < c1)) → e ∈ Ea := by
    intro e he hs
    rcases hD' e he (by omega) with rfl | rfl | h | rfl | rfl | h
    · simp only at hs; omega
    · simp only at hs; omega
    · exact h
    · simp only at hs; omega
    · simp only at hs; omega
    · have := (hb2 e h).1; omega
  have hDb : ∀ e ∈ D, (e.1 = c1 ∨ (c1 + 2 ≤ e.1 ∧ e.1 < c2)) → e ∈ Eb := by
    intro e he hs
    rcases hD' e he (by omega) with rfl | rfl | h | rfl | rfl | h
    · simp only at hs; omega
    · simp only at hs; omega
    · have := (ha2 e h).1; omega
    · simp only at hs; omega
    · simp only at hs; omega
    · exact h
  rcases hp.inv with ⟨_, _, rfl⟩ | ⟨m, x, r, ks', rfl, he, hp1, rfl⟩
  · exact Or.inl (Or.inl rfl)
  · have hx : x = none ∧ (r = c ∨ r = c1) := by
      rcases hD' _ he (Or.inl rfl) with h | h | h | h | h | h
      · simp only [Prod.mk.injEq] at h; simp [h]
      · simp only [Prod.mk.injEq] at h; omega
      · have := (ha2 _ h).1; simp only at this; omega
      · simp only [Prod.mk.injEq] at h; simp [h]
      · simp only [Prod.mk.injEq] at h; omega
      · have := (hb2 _ h).1; simp only at this; omega
    obtain ⟨rfl, rfl | rfl⟩ := hx
    · -- through the left son
      rcases iha _ _ _ _ _ hea (by omega) (by omega) (by omega) D hDa m ks' q hp1 with
        hin | ⟨m1, k1, k2, hm1, rfl, hL1, hp2⟩
      · left; omega
      · rcases hp2.inv with ⟨_, _, rfl⟩ | ⟨m', y, r', ks'', rfl, he2, hp3, rfl⟩
        · left; omega
        · have hy : y = none ∧ r' = t := by
            rcases hD' _ he2 (by simp only; omega) with h | h | h | h | h | h
            · simp only [Prod.mk.injEq] at h; omega
            · simpa using h
            · have := (ha2 _ h).1; simp only at this; omega
            · simp only [Prod.mk.injEq] at h; omega
            · simp only [Prod.mk.injEq] at h; omega
            · have := (hb2 _ h).1; simp only at this; omega
          obtain ⟨rfl, rfl⟩ := hy
          exact Or.inr ⟨m', k1, ks'', by omega, by simp, L_altL hL1, hp3⟩
    · -- through the right son
      rcases ihb _ _ _ _ _ heb (by omega) (by omega) (by omega) D hDb m ks' q hp1 with
        hin | ⟨m1, k1, k2, hm1, rfl, hL1, hp2⟩
      · left; omega
      · rcases hp2.inv with ⟨_, _, rfl⟩ | ⟨m', y, r', ks'', rfl, he2, hp3, rfl⟩
        · left; omega
        · have hy : y = none ∧ r' = t := by
            rcases hD' _ he2 (by simp only; omega) with h | h | h | h | h | h
            · simp only [Prod.mk.injEq] at h; omega
            · simp only [Prod.mk.injEq] at h; omega
            · have := (ha2 _ h).1; simp only at this; omega
            · simp only [Prod.mk.injEq] at h; omega
            · simpa using h
            · have := (hb2 _ h).1; simp only at this; omega
          obtain ⟨rfl, rfl⟩ := hy
          exact Or.inr ⟨m', k1, ks'', by omega, by simp, L_altR hL1, hp3⟩

theorem sound_star (code : String → Nat) (a : Rx) (iha : Sound code a) : Sound code (.star a) := by
  intro f t c E c' h hf ht hft D hD n ks q hp
  rcases hea : thompsonAux code a c (c + 1) (c + 2) with ⟨Ea, c1⟩
  simp only [thompsonAux, hea, Prod.mk.injEq] at h
  obtain ⟨rfl, rfl⟩ := h
  obtain ⟨ha1, ha2⟩ := aux_range code _ _ _ _ _ _ hea
  have hD' : ∀ e ∈ D, (e.1 = f ∨ (c ≤ e.1 ∧ e.1 < c1)) →
      e = (c + 1, none, c) ∨ e = (f, none, t) ∨ e = (f, none, c) ∨ e = (c + 1, none, t) ∨ e ∈ Ea := by
    intro e he hs
    have := hD e he hs
    simpa only [List.mem_cons] using this
  have hDa : ∀ e ∈ D, (e.1 = c ∨ (c + 2 ≤ e.1 ∧ e.1 < c1)) → e ∈ Ea := by
    intro e he hs
    rcases hD' e he (by omega) with rfl | rfl | rfl | rfl | h
    · simp only at hs; omega
    · simp only at hs; omega
    · simp only at hs; omega
    · simp only at hs; omega
    · exact h
  -- the loop: paths from the entry state of the son
  have loop : ∀ n ks, PathN D n c ks q →
      (q = f ∨ (c ≤ q ∧ q < c1)) ∨
      ∃ m ks1 ks2, m ≤ n ∧ ks = ks1 ++ ks2 ∧ L code (.star a) ks1 ∧ PathN D m t ks2 q := by
    intro n
    induction n using Nat.strongRecOn with
    | _ n ih =>
      intro ks hp
      rcases iha _ _ _ _ _ hea (by omega) (by omega) (by omega) D hDa n ks q hp with
        hin | ⟨m1, k1, k2, hm1, rfl, hL1, hp2⟩
      · left; omega
      · rcases hp2.inv with ⟨_, _, rfl⟩ | ⟨m', y, r', ks'', rfl, he2, hp3, rfl⟩
        · left; omega
        · have hy : y = none ∧ (r' = c ∨ r' = t) := by
            rcases hD' _ he2 (by simp only; omega) with h | h | h | h | h
            · simp only [Prod.mk.injEq] at h; simp [h]
            · simp only [Prod.mk.injEq] at h; omega
            · simp only [Prod.mk.injEq] at h; omega
            · simp only [Prod.mk.injEq] at h; simp [h]
            · have := (ha2 _ h).1; simp only at this; omega
          obtain ⟨rfl, rfl | rfl⟩ := hy
          · rcases ih m' (by omega) ks'' hp3 with hin | ⟨m2, k3, k4, hm2, rfl, hL2, hp4⟩
            · exact Or.inl hin
            · exact Or.inr ⟨m2, k1 ++ k3, k4, by omega, by simp, L_star_cons hL1 hL2, hp4⟩
          · exact Or.inr ⟨m', k1, ks'', by omega, by simp, L_star_one hL1, hp3⟩
  rcases hp.inv with ⟨_, _, rfl⟩ | ⟨m, x, r, ks', rfl, he, hp1, rfl⟩
  · exact Or.inl (Or.inl rfl)
  · have hx : x = none ∧ (r = t ∨ r = c) := by
      rcases hD' _ he (Or.inl rfl) with h | h | h | h | h
      · simp only [Prod.mk.injEq] at h; omega
      · simp only [Prod.mk.injEq] at h; simp [h]
      · simp only [Prod.mk.injEq] at h; simp [h]
      · simp only [Prod.mk.injEq] at h; omega
      · have := (ha2 _ h).1; simp only at this; omega
    obtain ⟨rfl, rfl | rfl⟩ := hx
    · exact Or.inr ⟨m, [], ks', by omega, rfl, L_star_nil, hp1⟩
    · rcases loop m ks' hp1 with hin | ⟨m2, k3, k4, hm2, rfl, hL2, hp4⟩
      · exact Or.inl hin
      · exact Or.inr ⟨m2, k3, k4, by omega, rfl, hL2, hp4⟩

theorem sound (code : String → Nat) (r : Rx) : Sound code r := by
  induction r with
  | empty => exact sound_empty code
  | eps => exact sound_eps code
  | sym s => exact sound_sym code s
  | cat a b iha ihb => exact sound_cat code a b iha ihb
  | alt a b iha ihb => exact sound_alt code a b iha ihb
  | star a iha => exact sound_star code a iha

/-! ### the top-level automaton -/

theorem thompson_eq (code : String → Nat) (r : Rx) (c : Nat) :
    r.thompson code c =
      (ENFA.ofParts [c] [c + 1] (thompsonAux code r c (c + 1) (c + 2)).1,
        (thompsonAux code r c (c + 1) (c + 2)).2) := rfl

theorem thompson_lang (code : String → Nat) (r : Rx) (c : Nat) (ks : List Nat) :
    (r.thompson code c).1.Lang ks ↔ ∃ w, Denote r w ∧ w.map code = ks := by
  rw [thompson_eq]
  rcases he : thompsonAux code r c (c + 1) (c + 2) with ⟨E, c'⟩
  obtain ⟨h1, h2⟩ := aux_range code _ _ _ _ _ _ he
  simp only
  constructor
  · rintro ⟨s, hs, f, hf, hr⟩
    rw [ENFA.mem_ofParts_starts, List.mem_singleton] at hs
    rw [ENFA.mem_ofParts_finals, List.mem_singleton] at hf
    subst hs hf
    obtain ⟨n, hp⟩ := PathN.of_run hr
    have hp' : PathN E n s ks (s + 1) :=
      hp.mono (fun e he => (ENFA.mem_ofParts_delta _ _ _ e).mp he)
    rcases sound code r _ _ _ _ _ he (by omega) (by omega) (by omega) E (fun e he _ => he) n ks _ hp'
      with hin | ⟨m, k1, k2, _, rfl, hL, hp2⟩
    · omega
    · rcases hp2.inv with ⟨_, rfl, _⟩ | ⟨m', x, r', ks', _, he2, _, _⟩
      · simpa [L] using hL
      · have := (h2 _ he2).1; simp only at this; omega
  · rintro ⟨w, hw, rfl⟩
    refine ⟨c, (ENFA.mem_ofParts_starts _ _ _ _).mpr (by simp), c + 1,
      (ENFA.mem_ofParts_finals _ _ _ _).mpr (by simp), ?_⟩
    exact ENFA.Run.mono (A := EA E) (fun e he => (ENFA.mem_ofParts_delta _ _ _ e).mpr he)
      (complete code r _ _ _ _ _ he w hw)

theorem thompson_counter (code : String → Nat) (r : Rx) (c : Nat) :
    c + 2 ≤ (r.thompson code c).2 ∧
    ∀ q ∈ (r.thompson code c).1.states, c ≤ q ∧ q < (r.thompson code c).2 := by
  rw [thompson_eq]
  rcases he : thompsonAux code r c (c + 1) (c + 2) with ⟨E, c'⟩
  obtain ⟨h1, h2⟩ := aux_range code _ _ _ _ _ _ he
  simp only
  refine ⟨h1, ?_⟩
  intro q hq
  rw [ENFA.mem_ofParts_states] at hq
  simp only [List.mem_singleton] at hq
  rcases hq with rfl | rfl | ⟨e, hE, rfl | rfl⟩
  · omega
  · omega
  · have := (h2 e hE).1; omega
  · have := (h2 e hE).2; omega

theorem thompson_wf (code : String → Nat) (r : Rx) (c : Nat) : (r.thompson code c).1.WF := by
  rw [thompson_eq]
  exact ENFA.ofParts_wf _ _ _

end Lem
end Rx
end Pfl
