/-
Helper lemmas for C14 (FIRST / FOLLOW saturation, reference LL(1) parser).
-/
import Pfl.Oracle.Trees
import Pfl.Proofs.CFGBase
import Pfl.Props.C12_Classes
namespace Pfl
namespace CFG
namespace LL1

/-! ### the reference parser -/

theorem llParseAux_spec (G : CFG) : ∀ (fuel : Nat) (u : List Sym) (w : List String)
    (ts : List PTree) (w' : List String), llParseAux G fuel u w = some (ts, w') →
      w = yieldL ts ++ w' ∧ ts.map PTree.sym = u ∧ G.wellFormedL ts = true := by
  intro fuel
  induction fuel with
  | zero => intro u w ts w' h; simp [llParseAux] at h
  | succ fuel ih =>
    intro u w ts w' h
    cases u with
    | nil =>
      simp only [llParseAux, Option.some.injEq, Prod.mk.injEq] at h
      obtain ⟨rfl, rfl⟩ := h
      simp [yieldL, wellFormedL]
    | cons s rest =>
      cases s with
      | ter a =>
        cases w with
        | nil => simp [llParseAux] at h
        | cons b w1 =>
          simp only [llParseAux] at h
          split at h
          · next hab =>
            subst hab
            obtain ⟨⟨ts1, w2⟩, hr, he⟩ := Option.map_eq_some_iff.mp h
            simp only [Prod.mk.injEq] at he
            obtain ⟨rfl, rfl⟩ := he
            obtain ⟨h1, h2, h3⟩ := ih rest w1 ts1 w2 hr
            refine ⟨?_, ?_, ?_⟩
            · simp [yieldL, yieldT, h1]
            · simp [PTree.sym, h2]
            · simp [wellFormedL, wellFormedT, h3]
          · cases h
      | var v =>
        simp only [llParseAux] at h
        split at h
        · next p hp =>
          have hpm : p ∈ G.prods.eraseDups.filter
              (fun p => p.1 = v ∧ w.head? ∈ G.predict p) := by rw [hp]; simp
          rw [List.mem_filter] at hpm
          obtain ⟨hp1, hp2⟩ := hpm
          rw [List.mem_eraseDups] at hp1
          simp only [decide_eq_true_eq] at hp2
          split at h
          · cases h
          · next sons w1 hs =>
            obtain ⟨⟨ts1, w2⟩, hr, he⟩ := Option.map_eq_some_iff.mp h
            simp only [Prod.mk.injEq] at he
            obtain ⟨rfl, rfl⟩ := he
            obtain ⟨h1, h2, h3⟩ := ih rest w1 ts1 w2 hr
            obtain ⟨g1, g2, g3⟩ := ih p.2 w sons w1 hs
            refine ⟨?_, ?_, ?_⟩
            · simp only [yieldL, yieldT]; rw [g1, h1]; simp
            · simp [PTree.sym, h2]
            · simp only [wellFormedL, wellFormedT, Bool.and_eq_true, decide_eq_true_eq]
              refine ⟨⟨?_, g3⟩, h3⟩
              rw [g2, ← hp2.1]; exact hp1
        · cases h

theorem llParse_valid' (G : CFG) (w : List String) (fuel : Nat) (t : PTree)
    (h : G.llParse w fuel = some t) : G.treeValid t w = true := by
  unfold llParse at h
  cases hst : G.start with
  | none => rw [hst] at h; cases h
  | some s =>
    rw [hst] at h
    simp only at h
    split at h
    · next t' hr =>
      cases h
      obtain ⟨h1, h2, h3⟩ := llParseAux_spec G fuel _ w _ _ hr
      unfold treeValid
      rw [Bool.and_eq_true, Bool.and_eq_true, decide_eq_true_eq, hst]
      simp only [List.map_cons, List.map_nil, List.cons.injEq, and_true] at h2
      simp only [wellFormedL, Bool.and_true] at h3
      refine ⟨⟨by simpa using h2, h3⟩, ?_⟩
      rw [h1]; simp [yieldL]
    · cases h

/-! ### generic saturation bookkeeping -/

section Sat
variable {β ε π : Type}

theorem prefix_antisymm {A B : List β} (h1 : A <+: B) (h2 : B <+: A) : B = A :=
  (h1.eq_of_length (Nat.le_antisymm h1.length_le h2.length_le)).symm

/-- a fold that appends `g e` when it is not yet present -/
theorem foldAdd_prefix (step : List β → ε → List β) (g : ε → β)
    (hstep : ∀ F e, (step F e = F ∧ g e ∈ F) ∨ (step F e = F ++ [g e] ∧ g e ∉ F)) :
    ∀ (l : List ε) (F : List β), F <+: l.foldl step F := by
  intro l
  induction l with
  | nil => intro F; exact List.prefix_refl _
  | cons e l ih =>
    intro F
    rw [List.foldl_cons]
    refine List.IsPrefix.trans ?_ (ih _)
    rcases hstep F e with h | h
    · rw [h.1]; exact List.prefix_refl _
    · rw [h.1]; exact List.prefix_append _ _

theorem foldAdd_mem (step : List β → ε → List β) (g : ε → β)
    (hstep : ∀ F e, (step F e = F ∧ g e ∈ F) ∨ (step F e = F ++ [g e] ∧ g e ∉ F)) :
    ∀ (l : List ε) (F : List β) (x : β), x ∈ l.foldl step F ↔ x ∈ F ∨ ∃ e ∈ l, x = g e := by
  intro l
  induction l with
  | nil => intro F x; simp
  | cons e l ih =>
    intro F x
    rw [List.foldl_cons, ih]
    rcases hstep F e with h | h
    · rw [h.1]
      constructor
      · rintro (hx | ⟨e', he', rfl⟩)
        · exact Or.inl hx
        · exact Or.inr ⟨e', List.mem_cons_of_mem _ he', rfl⟩
      · rintro (hx | ⟨e', he', rfl⟩)
        · exact Or.inl hx
        · rcases List.mem_cons.mp he' with rfl | he'
          · exact Or.inl h.2
          · exact Or.inr ⟨e', he', rfl⟩
    · rw [h.1]
      constructor
      · rintro (hx | ⟨e', he', rfl⟩)
        · rcases List.mem_append.mp hx with hx | hx
          · exact Or.inl hx
          · simp only [List.mem_singleton] at hx
            exact Or.inr ⟨e, List.mem_cons_self, hx⟩
        · exact Or.inr ⟨e', List.mem_cons_of_mem _ he', rfl⟩
      · rintro (hx | ⟨e', he', rfl⟩)
        · exact Or.inl (List.mem_append_left _ hx)
        · rcases List.mem_cons.mp he' with rfl | he'
          · exact Or.inl (List.mem_append_right _ (List.mem_singleton.mpr rfl))
          · exact Or.inr ⟨e', he', rfl⟩

theorem foldAdd_nodup (step : List β → ε → List β) (g : ε → β)
    (hstep : ∀ F e, (step F e = F ∧ g e ∈ F) ∨ (step F e = F ++ [g e] ∧ g e ∉ F)) :
    ∀ (l : List ε) (F : List β), F.Nodup → (l.foldl step F).Nodup := by
  intro l
  induction l with
  | nil => intro F hF; exact hF
  | cons e l ih =>
    intro F hF
    rw [List.foldl_cons]
    apply ih
    rcases hstep F e with h | h
    · rw [h.1]; exact hF
    · rw [h.1, List.nodup_append]
      refine ⟨hF, by simp, ?_⟩
      intro a ha b hb
      simp only [List.mem_singleton] at hb
      subst hb
      intro hab; subst hab; exact h.2 ha

theorem foldl_prefix (g : List β → π → List β) (hg : ∀ F p, F <+: g F p) :
    ∀ (ps : List π) (F : List β), F <+: ps.foldl g F := by
  intro ps
  induction ps with
  | nil => intro F; exact List.prefix_refl _
  | cons p ps ih => intro F; rw [List.foldl_cons]; exact (hg F p).trans (ih _)

theorem foldl_inv (P : List β → Prop) (g : List β → π → List β) (ps : List π)
    (h : ∀ p ∈ ps, ∀ F, P F → P (g F p)) :
    ∀ F : List β, P F → P (ps.foldl g F) := by
  induction ps with
  | nil => intro F hF; exact hF
  | cons p ps ih =>
    intro F hF
    rw [List.foldl_cons]
    exact ih (fun q hq => h q (List.mem_cons_of_mem _ hq)) _ (h p List.mem_cons_self F hF)

theorem foldl_fixed (g : List β → π → List β) (hg : ∀ F p, F <+: g F p) :
    ∀ (ps : List π) (F : List β), ps.foldl g F = F → ∀ p ∈ ps, g F p = F := by
  intro ps
  induction ps with
  | nil => intro F _ p hp; cases hp
  | cons p ps ih =>
    intro F hF q hq
    rw [List.foldl_cons] at hF
    have h1 : g F p = F := by
      have := foldl_prefix g hg ps (g F p)
      rw [hF] at this
      exact prefix_antisymm (hg F p) this
    rcases List.mem_cons.mp hq with rfl | hq
    · exact h1
    · rw [h1] at hF; exact ih F hF q hq

theorem iter_sat [DecidableEq β] (step : List β → List β) (U : List β)
    (hpre : ∀ F, F <+: step F)
    (hnd : ∀ F, F.Nodup → (step F).Nodup)
    (hU : ∀ F, (∀ x ∈ F, x ∈ U) → ∀ x ∈ step F, x ∈ U) :
    ∀ (n : Nat) (F : List β), F.Nodup → (∀ x ∈ F, x ∈ U) →
      U.countP (fun x => decide (x ∉ F)) < n →
      step (iter step n F) = iter step n F := by
  intro n
  induction n with
  | zero => intro F _ _ h; omega
  | succ n ih =>
    intro F hFnd hF hn
    show step (iter step n (step F)) = iter step n (step F)
    by_cases hlen : (step F).length = F.length
    · have heq : step F = F := ((hpre F).eq_of_length hlen.symm).symm
      rw [heq, iter_fix _ _ heq n, heq]
    · -- a new element
      have hex : ∃ x ∈ step F, x ∉ F := by
        obtain ⟨t, ht⟩ := hpre F
        cases t with
        | nil => rw [List.append_nil] at ht; rw [← ht] at hlen; exact absurd rfl hlen
        | cons a t =>
          refine ⟨a, by rw [← ht]; simp, ?_⟩
          have hn := hnd F hFnd
          rw [← ht, List.nodup_append] at hn
          intro ha
          exact hn.2.2 a ha a List.mem_cons_self rfl
      obtain ⟨x, hx1, hx2⟩ := hex
      have hlt : U.countP (fun y => decide (y ∉ step F)) < U.countP (fun y => decide (y ∉ F)) := by
        apply countP_lt_of _ _ _ _ x (hU F hF x hx1)
        · simpa using hx2
        · simpa using hx1
        · intro y _ hy
          simp only [decide_eq_true_eq] at hy ⊢
          exact fun hm => hy ((hpre F).subset hm)
      exact ih _ (hnd F hFnd) (hU F hF) (by omega)

end Sat

/-! ### FIRST -/

abbrev FPair := String × String

/-- the rules applied by `firstStep.go` on a body suffix -/
inductive FRule (nul : List Sym) (F : List FPair) (h : String) : List Sym → FPair → Prop
  | ter (t : String) (rest : List Sym) : FRule nul F h (.ter t :: rest) (h, t)
  | var (v t : String) (rest : List Sym) : (v, t) ∈ F → FRule nul F h (.var v :: rest) (h, t)
  | skip (v : String) (rest : List Sym) (x : FPair) : Sym.var v ∈ nul → FRule nul F h rest x →
      FRule nul F h (.var v :: rest) x

theorem FRule.mono {nul : List Sym} {F F' : List FPair} {h : String} {b : List Sym} {x : FPair}
    (hs : ∀ y ∈ F, y ∈ F') (hr : FRule nul F h b x) : FRule nul F' h b x := by
  induction hr with
  | ter t rest => exact .ter t rest
  | var v t rest hm => exact .var v t rest (hs _ hm)
  | skip v rest x hn _ ih => exact .skip v rest x hn ih

theorem addStep_cases (h : String) (F : List FPair) (e : FPair) :
    ((if (h, e.2) ∈ F then F else F ++ [(h, e.2)]) = F ∧ (h, e.2) ∈ F) ∨
    ((if (h, e.2) ∈ F then F else F ++ [(h, e.2)]) = F ++ [(h, e.2)] ∧ (h, e.2) ∉ F) := by
  by_cases hm : (h, e.2) ∈ F
  · left; rw [if_pos hm]; exact ⟨rfl, hm⟩
  · right; rw [if_neg hm]; exact ⟨rfl, hm⟩

/-- the inner fold of `firstStep.go` -/
def inner (h v : String) (F : List FPair) : List FPair :=
  List.foldl (fun F e => if (h, e.snd) ∈ F then F else F ++ [(h, e.snd)]) F
    (List.filter (fun x => decide (x.fst = v)) F)

theorem inner_prefix (h v : String) (F : List FPair) : F <+: inner h v F :=
  foldAdd_prefix _ (fun e : FPair => (h, e.2)) (addStep_cases h) _ F

theorem inner_nodup (h v : String) (F : List FPair) (hF : F.Nodup) : (inner h v F).Nodup :=
  foldAdd_nodup _ (fun e : FPair => (h, e.2)) (addStep_cases h) _ F hF

theorem mem_inner (h v : String) (F : List FPair) (x : FPair) :
    x ∈ inner h v F ↔ x ∈ F ∨ ∃ t, (v, t) ∈ F ∧ x = (h, t) := by
  unfold inner
  rw [foldAdd_mem _ (fun e : FPair => (h, e.2)) (addStep_cases h)]
  constructor
  · rintro (hx | ⟨e, he, rfl⟩)
    · exact Or.inl hx
    · rw [List.mem_filter] at he
      simp only [decide_eq_true_eq] at he
      refine Or.inr ⟨e.2, ?_, rfl⟩
      rw [← he.2]; exact he.1
  · rintro (hx | ⟨t, ht, rfl⟩)
    · exact Or.inl hx
    · refine Or.inr ⟨(v, t), ?_, rfl⟩
      rw [List.mem_filter]; exact ⟨ht, by simp⟩

theorem go_ter (nul : List Sym) (p : Pfl.Prod) (F : List FPair) (t : String) (rest : List Sym) :
    firstStep.go nul p F (.ter t :: rest) = if (p.1, t) ∈ F then F else F ++ [(p.1, t)] := by
  rw [firstStep.go]

theorem go_var (nul : List Sym) (p : Pfl.Prod) (F : List FPair) (v : String) (rest : List Sym) :
    firstStep.go nul p F (.var v :: rest) =
      if Sym.var v ∈ nul then firstStep.go nul p (inner p.1 v F) rest else inner p.1 v F := by
  rw [firstStep.go]; rfl

theorem go_prefix (nul : List Sym) (p : Pfl.Prod) :
    ∀ (b : List Sym) (F : List FPair), F <+: firstStep.go nul p F b := by
  intro b
  induction b with
  | nil => intro F; rw [firstStep.go]; exact List.prefix_refl _
  | cons s rest ih =>
    intro F
    cases s with
    | ter t =>
      rw [go_ter]
      split
      · exact List.prefix_refl _
      · exact List.prefix_append _ _
    | var v =>
      rw [go_var]
      split
      · exact (inner_prefix _ _ _).trans (ih _)
      · exact inner_prefix _ _ _

theorem go_nodup (nul : List Sym) (p : Pfl.Prod) :
    ∀ (b : List Sym) (F : List FPair), F.Nodup → (firstStep.go nul p F b).Nodup := by
  intro b
  induction b with
  | nil => intro F hF; rw [firstStep.go]; exact hF
  | cons s rest ih =>
    intro F hF
    cases s with
    | ter t =>
      rw [go_ter]
      split
      · exact hF
      · next hn =>
        rw [List.nodup_append]
        refine ⟨hF, by simp, ?_⟩
        intro a ha b hb
        simp only [List.mem_singleton] at hb
        subst hb
        intro hab; subst hab; exact hn ha
    | var v =>
      rw [go_var]
      split
      · exact ih _ (inner_nodup _ _ _ hF)
      · exact inner_nodup _ _ _ hF

/-- elementwise invariants justified by the rules are preserved -/
theorem go_forall (nul : List Sym) (p : Pfl.Prod) (Q : FPair → Prop) :
    ∀ (b : List Sym) (F : List FPair),
      (∀ F' x, (∀ y ∈ F', Q y) → FRule nul F' p.1 b x → Q x) →
      (∀ y ∈ F, Q y) → ∀ y ∈ firstStep.go nul p F b, Q y := by
  intro b
  induction b with
  | nil => intro F _ hF; rw [firstStep.go]; exact hF
  | cons s rest ih =>
    intro F hQ hF
    cases s with
    | ter t =>
      rw [go_ter]
      split
      · exact hF
      · intro y hy
        rcases List.mem_append.mp hy with hy | hy
        · exact hF y hy
        · simp only [List.mem_singleton] at hy
          subst hy
          exact hQ F _ hF (.ter t rest)
    | var v =>
      have hin : ∀ y ∈ inner p.1 v F, Q y := by
        intro y hy
        rcases (mem_inner _ _ _ _).mp hy with hy | ⟨t, ht, rfl⟩
        · exact hF y hy
        · exact hQ F _ hF (.var v t rest ht)
      rw [go_var]
      split
      · next hn =>
        exact ih _ (fun F' x hF' hr => hQ F' x hF' (.skip v rest x hn hr)) hin
      · exact hin

/-- a pass that adds nothing certifies closure under the rules -/
theorem go_closed (nul : List Sym) (p : Pfl.Prod) (F : List FPair) :
    ∀ (b : List Sym) (x : FPair), FRule nul F p.1 b x → firstStep.go nul p F b = F → x ∈ F := by
  intro b x hr
  induction hr with
  | ter t rest =>
    intro h
    rw [go_ter] at h
    by_cases hm : (p.1, t) ∈ F
    · exact hm
    · rw [if_neg hm] at h
      have := congrArg List.length h
      simp at this
  | var v t rest hm =>
    intro h
    rw [go_var] at h
    have hin : inner p.1 v F = F := by
      split at h
      · have h2 := go_prefix nul p rest (inner p.1 v F)
        rw [h] at h2
        exact prefix_antisymm (inner_prefix _ _ _) h2
      · exact h
    rw [← hin, mem_inner]
    exact Or.inr ⟨t, hm, rfl⟩
  | skip v rest x hn _ ih =>
    intro h
    rw [go_var, if_pos hn] at h
    have hin : inner p.1 v F = F := by
      have h2 := go_prefix nul p rest (inner p.1 v F)
      rw [h] at h2
      exact prefix_antisymm (inner_prefix _ _ _) h2
    rw [hin] at h
    exact ih h

/-! #### one round and the iteration -/

theorem firstStep_eq (G : CFG) (nul : List Sym) (F : List FPair) :
    G.firstStep nul F = G.prods.foldl (fun F p => firstStep.go nul p F p.2) F := rfl

theorem firstStep_prefix (G : CFG) (nul : List Sym) (F : List FPair) : F <+: G.firstStep nul F :=
  foldl_prefix _ (fun F p => go_prefix nul p p.2 F) _ F

theorem firstStep_nodup (G : CFG) (nul : List Sym) (F : List FPair) (hF : F.Nodup) :
    (G.firstStep nul F).Nodup :=
  foldl_inv List.Nodup _ _ (fun p _ F hF => go_nodup nul p p.2 F hF) F hF

theorem firstStep_forall (G : CFG) (nul : List Sym) (Q : FPair → Prop)
    (hQ : ∀ p ∈ G.prods, ∀ F' x, (∀ y ∈ F', Q y) → FRule nul F' p.1 p.2 x → Q x)
    (F : List FPair) (hF : ∀ y ∈ F, Q y) : ∀ y ∈ G.firstStep nul F, Q y :=
  foldl_inv (fun F => ∀ y ∈ F, Q y) _ _ (fun p hp F hF => go_forall nul p Q p.2 F (hQ p hp) hF) F hF

/-- `F` is closed under the FIRST rules -/
def FClosed (G : CFG) (nul : List Sym) (F : List FPair) : Prop :=
  ∀ p ∈ G.prods, ∀ x, FRule nul F p.1 p.2 x → x ∈ F

theorem fclosed_of_fixed (G : CFG) (nul : List Sym) (F : List FPair) (h : G.firstStep nul F = F) :
    FClosed G nul F := by
  intro p hp x hr
  have := foldl_fixed _ (fun F (p : Pfl.Prod) => go_prefix nul p p.2 F) G.prods F h p hp
  exact go_closed nul p F p.2 x hr this

/-- the universe of pairs the saturation can ever produce -/
def fUniv (G : CFG) : List FPair := G.prods.flatMap fun p => G.ters.map fun t => (p.1, t)

theorem mem_fUniv (G : CFG) (x : FPair) :
    x ∈ fUniv G ↔ (∃ p ∈ G.prods, p.1 = x.1) ∧ x.2 ∈ G.ters := by
  unfold fUniv
  rw [List.mem_flatMap]
  constructor
  · rintro ⟨p, hp, hx⟩
    obtain ⟨t, ht, rfl⟩ := List.mem_map.mp hx
    exact ⟨⟨p, hp, rfl⟩, ht⟩
  · rintro ⟨⟨p, hp, he⟩, ht⟩
    exact ⟨p, hp, List.mem_map.mpr ⟨x.2, ht, by rw [he]⟩⟩

theorem fUniv_length (G : CFG) : (fUniv G).length = G.prods.length * G.ters.length := by
  unfold fUniv
  generalize G.prods = ps
  induction ps with
  | nil => simp
  | cons p ps ih =>
    rw [List.flatMap_cons, List.length_append, ih, List.length_map, List.length_cons,
      Nat.succ_mul, Nat.add_comm]

theorem firstStep_univ (G : CFG) (hG : G.WF) (nul : List Sym) (F : List FPair)
    (hF : ∀ y ∈ F, y ∈ fUniv G) : ∀ y ∈ G.firstStep nul F, y ∈ fUniv G := by
  refine firstStep_forall G nul (fun y => y ∈ fUniv G) ?_ F hF
  intro p hp F' x hF'
  have hgen : ∀ b, (∀ t, Sym.ter t ∈ b → t ∈ G.ters) → FRule nul F' p.1 b x → x ∈ fUniv G := by
    intro b hb hr
    induction hr with
    | ter t rest => exact (mem_fUniv G _).mpr ⟨⟨p, hp, rfl⟩, hb t List.mem_cons_self⟩
    | var v t rest hm =>
      exact (mem_fUniv G _).mpr ⟨⟨p, hp, rfl⟩, ((mem_fUniv G _).mp (hF' _ hm)).2⟩
    | skip v rest x _ _ ih => exact ih (fun t ht => hb t (List.mem_cons_of_mem _ ht))
  exact hgen p.2 (hG.ter_mem p hp)

theorem firstSets_fixed (G : CFG) (hG : G.WF) :
    G.firstStep G.nullable G.firstSets = G.firstSets := by
  unfold firstSets
  refine iter_sat (G.firstStep G.nullable) (fUniv G) (firstStep_prefix G _) (firstStep_nodup G _)
    (firstStep_univ G hG _) _ [] List.nodup_nil (by simp) ?_
  refine Nat.lt_of_le_of_lt List.countP_le_length ?_
  rw [fUniv_length]
  have h2 : G.prods.length * G.ters.length ≤ G.prods.length * (G.ters.length + 1) :=
    Nat.mul_le_mul_left _ (Nat.le_succ _)
  omega

/-! #### semantics of the FIRST rules -/

theorem frule_sound (G : CFG) (F : List FPair) (h : String)
    (hF : ∀ y ∈ F, ∃ w, G.Gen (.var y.1) (y.2 :: w)) :
    ∀ (b : List Sym) (x : FPair), (∀ s ∈ b, ∃ w, G.Gen s w) → FRule G.nullable F h b x →
      ∃ t, x = (h, t) ∧ ∃ w, G.GenList b (t :: w) := by
  intro b x hb hr
  induction hr with
  | ter t rest =>
    obtain ⟨w, hw⟩ := genList_of_forall G rest (fun s hs => hb s (List.mem_cons_of_mem _ hs))
    exact ⟨t, rfl, w, GenList.cons (w₁ := [t]) (Gen.ter t) hw⟩
  | var v t rest hm =>
    obtain ⟨w, hw⟩ := genList_of_forall G rest (fun s hs => hb s (List.mem_cons_of_mem _ hs))
    obtain ⟨w1, hw1⟩ := hF _ hm
    exact ⟨t, rfl, w1 ++ w, GenList.cons (w₁ := t :: w1) hw1 hw⟩
  | skip v rest x hn _ ih =>
    obtain ⟨t, rfl, w, hw⟩ := ih (fun s hs => hb s (List.mem_cons_of_mem _ hs))
    obtain ⟨v', e, hg⟩ := (mem_nullable_iff G _).mp hn
    cases e
    exact ⟨t, rfl, w, GenList.cons (w₁ := []) hg hw⟩

theorem firstSets_sound (G : CFG) (hg : ∀ p ∈ G.prods, ∀ s ∈ p.2, ∃ w, G.Gen s w) :
    ∀ y ∈ G.firstSets, ∃ w, G.Gen (.var y.1) (y.2 :: w) := by
  unfold firstSets
  refine iter_inv (G.firstStep G.nullable)
    (fun F => ∀ y ∈ F, ∃ w, G.Gen (.var y.1) (y.2 :: w)) ?_ _ _ (by simp)
  intro F hF
  refine firstStep_forall G _ _ ?_ F hF
  intro p hp F' x hF' hr
  obtain ⟨t, rfl, w, hw⟩ := frule_sound G F' p.1 hF' p.2 x (hg p hp) hr
  exact ⟨w, Gen.var (body := p.2) hp hw⟩

theorem fclosed_complete (G : CFG) (F : List FPair) (hc : FClosed G G.nullable F)
    {s : Sym} {w : List String} (hgen : G.Gen s w) :
    ∀ v t w', s = .var v → w = t :: w' → (v, t) ∈ F := by
  refine Gen.rec (G := G)
    (motive_1 := fun s w _ => ∀ v t w', s = .var v → w = t :: w' → (v, t) ∈ F)
    (motive_2 := fun u w _ => ∀ t w' h, w = t :: w' → FRule G.nullable F h u (h, t))
    ?_ ?_ ?_ ?_ hgen
  · intro t v t' w' e; cases e
  · intro h body w hp _ ih v t w' e hw
    cases e
    exact hc (h, body) hp _ (ih t w' h hw)
  · intro t w' h e; cases e
  · intro s u w₁ w₂ hs _ ih1 ih2 t w' h hw
    cases w₁ with
    | nil =>
      simp only [List.nil_append] at hw
      cases s with
      | ter a => cases hs
      | var v =>
        exact .skip v u _ ((mem_nullable_iff G _).mpr ⟨v, rfl, hs⟩) (ih2 t w' h hw)
    | cons a w1 =>
      simp only [List.cons_append, List.cons.injEq] at hw
      obtain ⟨rfl, _⟩ := hw
      cases s with
      | ter b =>
        cases hs
        exact .ter a u
      | var v => exact .var v a u (ih1 v a w1 rfl rfl)

theorem mem_firstSets_iff' (G : CFG) (hg : ∀ p ∈ G.prods, ∀ s ∈ p.2, ∃ w, G.Gen s w) (hG : G.WF)
    (v t : String) : (v, t) ∈ G.firstSets ↔ ∃ w, G.Gen (.var v) (t :: w) := by
  constructor
  · intro h; exact firstSets_sound G hg _ h
  · rintro ⟨w, hw⟩
    exact fclosed_complete G _ (fclosed_of_fixed G _ _ (firstSets_fixed G hG)) hw v t w rfl rfl

/-! ### FIRST of a symbol string -/

theorem fos_var (G : CFG) (F : List FPair) (nul : List Sym) (v : String) (rest : List Sym) :
    G.firstOfString F nul (.var v :: rest) =
      if Sym.var v ∈ nul then
        ((((F.filter (fun x => decide (x.1 = v))).map (·.2)) ++
            (G.firstOfString F nul rest).1).eraseDups, (G.firstOfString F nul rest).2)
      else (((F.filter (fun x => decide (x.1 = v))).map (·.2)).eraseDups, false) := by
  rw [firstOfString]

theorem mem_fv (F : List FPair) (v t : String) :
    t ∈ (F.filter (fun x => decide (x.1 = v))).map (·.2) ↔ (v, t) ∈ F := by
  rw [List.mem_map]
  constructor
  · rintro ⟨e, he, rfl⟩
    rw [List.mem_filter] at he
    simp only [decide_eq_true_eq] at he
    rw [← he.2]; exact he.1
  · intro h
    exact ⟨(v, t), List.mem_filter.mpr ⟨h, by simp⟩, rfl⟩

/-- semantic reading of `firstOfString` with the real FIRST sets and nullable symbols -/
theorem fos_spec (G : CFG) (hg : ∀ p ∈ G.prods, ∀ s ∈ p.2, ∃ w, G.Gen s w) (hG : G.WF) :
    ∀ b : List Sym, (∀ s ∈ b, ∃ w, G.Gen s w) →
      ((G.firstOfString G.firstSets G.nullable b).2 = true ↔ G.GenList b []) ∧
      ∀ t, t ∈ (G.firstOfString G.firstSets G.nullable b).1 ↔ ∃ w, G.GenList b (t :: w) := by
  intro b
  induction b with
  | nil =>
    intro _
    rw [firstOfString]
    refine ⟨by simp [genList_nil_iff], ?_⟩
    intro t; simp [genList_nil_iff]
  | cons s rest ih =>
    intro hb
    have hrest : ∀ s ∈ rest, ∃ w, G.Gen s w := fun s hs => hb s (List.mem_cons_of_mem _ hs)
    obtain ⟨wr, hwr⟩ := genList_of_forall G rest hrest
    obtain ⟨ih1, ih2⟩ := ih hrest
    cases s with
    | ter a =>
      rw [firstOfString]
      refine ⟨?_, ?_⟩
      · simp only [Bool.false_eq_true, false_iff]
        intro h
        obtain ⟨w₁, w₂, e, h1, _⟩ := genList_cons_iff.mp h
        rw [gen_ter_iff.mp h1] at e; simp at e
      · intro t
        simp only [List.mem_singleton]
        constructor
        · rintro rfl
          exact ⟨wr, GenList.cons (w₁ := [t]) (Gen.ter t) hwr⟩
        · rintro ⟨w, h⟩
          obtain ⟨w₁, w₂, e, h1, _⟩ := genList_cons_iff.mp h
          rw [gen_ter_iff.mp h1] at e
          simp only [List.cons_append, List.nil_append, List.cons.injEq] at e
          exact e.1
    | var v =>
      rw [fos_var]
      by_cases hn : Sym.var v ∈ G.nullable
      · rw [if_pos hn]
        obtain ⟨v', e, hv⟩ := (mem_nullable_iff G _).mp hn
        cases e
        refine ⟨?_, ?_⟩
        · show (G.firstOfString G.firstSets G.nullable rest).2 = true ↔ _
          rw [ih1]
          constructor
          · intro h; exact GenList.cons (w₁ := []) hv h
          · intro h
            obtain ⟨w₁, w₂, e, _, h2⟩ := genList_cons_iff.mp h
            have := List.append_eq_nil_iff.mp e.symm
            rw [this.2] at h2; exact h2
        · intro t
          show t ∈ List.eraseDups _ ↔ _
          rw [List.mem_eraseDups, List.mem_append, mem_fv, ih2, mem_firstSets_iff' G hg hG]
          constructor
          · rintro (⟨w, hw⟩ | ⟨w, hw⟩)
            · exact ⟨w ++ wr, GenList.cons (w₁ := t :: w) hw hwr⟩
            · exact ⟨w, GenList.cons (w₁ := []) hv hw⟩
          · rintro ⟨w, h⟩
            obtain ⟨w₁, w₂, e, h1, h2⟩ := genList_cons_iff.mp h
            cases w₁ with
            | nil => rw [List.nil_append] at e; rw [← e] at h2; exact Or.inr ⟨w, h2⟩
            | cons a w1 =>
              simp only [List.cons_append, List.cons.injEq] at e
              rw [← e.1] at h1; exact Or.inl ⟨w1, h1⟩
      · rw [if_neg hn]
        have hnn : ¬ G.Gen (.var v) [] := fun h => hn ((mem_nullable_iff G _).mpr ⟨v, rfl, h⟩)
        refine ⟨?_, ?_⟩
        · simp only [Bool.false_eq_true, false_iff]
          intro h
          obtain ⟨w₁, w₂, e, h1, _⟩ := genList_cons_iff.mp h
          have := List.append_eq_nil_iff.mp e.symm
          rw [this.1] at h1; exact hnn h1
        · intro t
          show t ∈ List.eraseDups _ ↔ _
          rw [List.mem_eraseDups, mem_fv, mem_firstSets_iff' G hg hG]
          constructor
          · rintro ⟨w, hw⟩
            exact ⟨w ++ wr, GenList.cons (w₁ := t :: w) hw hwr⟩
          · rintro ⟨w, h⟩
            obtain ⟨w₁, w₂, e, h1, h2⟩ := genList_cons_iff.mp h
            cases w₁ with
            | nil => exact absurd h1 hnn
            | cons a w1 =>
              simp only [List.cons_append, List.cons.injEq] at e
              rw [← e.1] at h1; exact ⟨w1, h1⟩

/-! ### FOLLOW -/

abbrev OPair := String × Option String

/-- the rules applied by `followStep.go` on a body suffix -/
inductive WRule (fos : List Sym → List String × Bool) (Fo : List OPair) (h : String) :
    List Sym → OPair → Prop
  | first (v t : String) (rest : List Sym) : t ∈ (fos rest).1 →
      WRule fos Fo h (.var v :: rest) (v, some t)
  | last (v : String) (x : Option String) (rest : List Sym) : (fos rest).2 = true → (h, x) ∈ Fo →
      WRule fos Fo h (.var v :: rest) (v, x)
  | skip (s : Sym) (rest : List Sym) (x : OPair) : WRule fos Fo h rest x →
      WRule fos Fo h (s :: rest) x

theorem WRule.prepend {fos : List Sym → List String × Bool} {Fo : List OPair} {h : String}
    {b : List Sym} {x : OPair} (hr : WRule fos Fo h b x) :
    ∀ pre : List Sym, WRule fos Fo h (pre ++ b) x
  | [] => hr
  | s :: pre => .skip s _ x (WRule.prepend hr pre)

theorem oadd1_cases (v : String) (F : List OPair) (t : String) :
    ((if (v, some t) ∈ F then F else F ++ [(v, some t)]) = F ∧ (v, some t) ∈ F) ∨
    ((if (v, some t) ∈ F then F else F ++ [(v, some t)]) = F ++ [(v, some t)] ∧ (v, some t) ∉ F) := by
  by_cases hm : (v, some t) ∈ F
  · left; rw [if_pos hm]; exact ⟨rfl, hm⟩
  · right; rw [if_neg hm]; exact ⟨rfl, hm⟩

theorem oadd2_cases (v : String) (F : List OPair) (e : OPair) :
    ((if (v, e.2) ∈ F then F else F ++ [(v, e.2)]) = F ∧ (v, e.2) ∈ F) ∨
    ((if (v, e.2) ∈ F then F else F ++ [(v, e.2)]) = F ++ [(v, e.2)] ∧ (v, e.2) ∉ F) := by
  by_cases hm : (v, e.2) ∈ F
  · left; rw [if_pos hm]; exact ⟨rfl, hm⟩
  · right; rw [if_neg hm]; exact ⟨rfl, hm⟩

def fo1 (v : String) (fr : List String) (Fo : List OPair) : List OPair :=
  List.foldl (fun Fo t => if (v, some t) ∈ Fo then Fo else Fo ++ [(v, some t)]) Fo fr

def fo2 (h v : String) (Fo1 : List OPair) : List OPair :=
  List.foldl (fun Fo e => if (v, e.snd) ∈ Fo then Fo else Fo ++ [(v, e.snd)]) Fo1
    (List.filter (fun x => decide (x.fst = h)) Fo1)

/-- the set handed to the recursive call of `followStep.go` -/
def mid (h v : String) (fn : List String × Bool) (Fo : List OPair) : List OPair :=
  if fn.2 = true then fo2 h v (fo1 v fn.1 Fo) else fo1 v fn.1 Fo

theorem fo1_prefix (v : String) (fr : List String) (Fo : List OPair) : Fo <+: fo1 v fr Fo :=
  foldAdd_prefix _ (fun t : String => ((v, some t) : OPair)) (oadd1_cases v) _ Fo

theorem fo1_nodup (v : String) (fr : List String) (Fo : List OPair) (h : Fo.Nodup) :
    (fo1 v fr Fo).Nodup :=
  foldAdd_nodup _ (fun t : String => ((v, some t) : OPair)) (oadd1_cases v) _ Fo h

theorem mem_fo1 (v : String) (fr : List String) (Fo : List OPair) (x : OPair) :
    x ∈ fo1 v fr Fo ↔ x ∈ Fo ∨ ∃ t ∈ fr, x = (v, some t) :=
  foldAdd_mem _ (fun t : String => ((v, some t) : OPair)) (oadd1_cases v) _ Fo x

theorem fo2_prefix (h v : String) (Fo : List OPair) : Fo <+: fo2 h v Fo :=
  foldAdd_prefix _ (fun e : OPair => ((v, e.2) : OPair)) (oadd2_cases v) _ Fo

theorem fo2_nodup (h v : String) (Fo : List OPair) (hn : Fo.Nodup) : (fo2 h v Fo).Nodup :=
  foldAdd_nodup _ (fun e : OPair => ((v, e.2) : OPair)) (oadd2_cases v) _ Fo hn

theorem mem_fo2 (h v : String) (Fo : List OPair) (x : OPair) :
    x ∈ fo2 h v Fo ↔ x ∈ Fo ∨ ∃ y, (h, y) ∈ Fo ∧ x = (v, y) := by
  unfold fo2
  rw [foldAdd_mem _ (fun e : OPair => ((v, e.2) : OPair)) (oadd2_cases v)]
  constructor
  · rintro (hx | ⟨e, he, rfl⟩)
    · exact Or.inl hx
    · rw [List.mem_filter] at he
      simp only [decide_eq_true_eq] at he
      refine Or.inr ⟨e.2, ?_, rfl⟩
      rw [← he.2]; exact he.1
  · rintro (hx | ⟨y, hy, rfl⟩)
    · exact Or.inl hx
    · refine Or.inr ⟨(h, y), ?_, rfl⟩
      rw [List.mem_filter]; exact ⟨hy, by simp⟩

theorem mid_prefix1 (h v : String) (fn : List String × Bool) (Fo : List OPair) :
    fo1 v fn.1 Fo <+: mid h v fn Fo := by
  unfold mid
  split
  · exact fo2_prefix _ _ _
  · exact List.prefix_refl _

theorem mid_prefix (h v : String) (fn : List String × Bool) (Fo : List OPair) :
    Fo <+: mid h v fn Fo := (fo1_prefix _ _ _).trans (mid_prefix1 _ _ _ _)

theorem mid_nodup (h v : String) (fn : List String × Bool) (Fo : List OPair) (hn : Fo.Nodup) :
    (mid h v fn Fo).Nodup := by
  unfold mid
  split
  · exact fo2_nodup _ _ _ (fo1_nodup _ _ _ hn)
  · exact fo1_nodup _ _ _ hn

theorem wgo_nil (G : CFG) (F : List FPair) (nul : List Sym) (p : Pfl.Prod) (Fo : List OPair) :
    followStep.go G F nul p Fo [] = Fo := by rw [followStep.go]

theorem wgo_ter (G : CFG) (F : List FPair) (nul : List Sym) (p : Pfl.Prod) (Fo : List OPair)
    (t : String) (rest : List Sym) :
    followStep.go G F nul p Fo (.ter t :: rest) = followStep.go G F nul p Fo rest := by
  rw [followStep.go]

theorem wgo_var (G : CFG) (F : List FPair) (nul : List Sym) (p : Pfl.Prod) (Fo : List OPair)
    (v : String) (rest : List Sym) :
    followStep.go G F nul p Fo (.var v :: rest) =
      followStep.go G F nul p (mid p.1 v (G.firstOfString F nul rest) Fo) rest := by
  rw [followStep.go]; rfl

theorem wgo_prefix (G : CFG) (F : List FPair) (nul : List Sym) (p : Pfl.Prod) :
    ∀ (b : List Sym) (Fo : List OPair), Fo <+: followStep.go G F nul p Fo b := by
  intro b
  induction b with
  | nil => intro Fo; rw [wgo_nil]; exact List.prefix_refl _
  | cons s rest ih =>
    intro Fo
    cases s with
    | ter t => rw [wgo_ter]; exact ih Fo
    | var v => rw [wgo_var]; exact (mid_prefix _ _ _ _).trans (ih _)

theorem wgo_nodup (G : CFG) (F : List FPair) (nul : List Sym) (p : Pfl.Prod) :
    ∀ (b : List Sym) (Fo : List OPair), Fo.Nodup → (followStep.go G F nul p Fo b).Nodup := by
  intro b
  induction b with
  | nil => intro Fo h; rw [wgo_nil]; exact h
  | cons s rest ih =>
    intro Fo h
    cases s with
    | ter t => rw [wgo_ter]; exact ih Fo h
    | var v => rw [wgo_var]; exact ih _ (mid_nodup _ _ _ _ h)

theorem wgo_forall (G : CFG) (F : List FPair) (nul : List Sym) (p : Pfl.Prod) (Q : OPair → Prop) :
    ∀ (b : List Sym) (Fo : List OPair),
      (∀ Fo' x, (∀ y ∈ Fo', Q y) → WRule (G.firstOfString F nul) Fo' p.1 b x → Q x) →
      (∀ y ∈ Fo, Q y) → ∀ y ∈ followStep.go G F nul p Fo b, Q y := by
  intro b
  induction b with
  | nil => intro Fo _ hF; rw [wgo_nil]; exact hF
  | cons s rest ih =>
    intro Fo hQ hF
    cases s with
    | ter t =>
      rw [wgo_ter]
      exact ih Fo (fun Fo' x hFo' hr => hQ Fo' x hFo' (.skip _ _ _ hr)) hF
    | var v =>
      rw [wgo_var]
      have h1 : ∀ y ∈ fo1 v (G.firstOfString F nul rest).1 Fo, Q y := by
        intro y hy
        rcases (mem_fo1 _ _ _ _).mp hy with hy | ⟨t, ht, rfl⟩
        · exact hF y hy
        · exact hQ Fo _ hF (.first v t rest ht)
      have h2 : ∀ y ∈ mid p.1 v (G.firstOfString F nul rest) Fo, Q y := by
        unfold mid
        split
        · next hnr =>
          intro y hy
          rcases (mem_fo2 _ _ _ _).mp hy with hy | ⟨z, hz, rfl⟩
          · exact h1 y hy
          · exact hQ _ _ h1 (.last v z rest hnr hz)
        · exact h1
      exact ih _ (fun Fo' x hFo' hr => hQ Fo' x hFo' (.skip _ _ _ hr)) h2

theorem wgo_closed (G : CFG) (F : List FPair) (nul : List Sym) (p : Pfl.Prod) (Fo : List OPair) :
    ∀ (b : List Sym) (x : OPair), WRule (G.firstOfString F nul) Fo p.1 b x →
      followStep.go G F nul p Fo b = Fo → x ∈ Fo := by
  intro b x hr
  have hmid : ∀ v rest, followStep.go G F nul p Fo (.var v :: rest) = Fo →
      mid p.1 v (G.firstOfString F nul rest) Fo = Fo := by
    intro v rest h
    rw [wgo_var] at h
    have h2 := wgo_prefix G F nul p rest (mid p.1 v (G.firstOfString F nul rest) Fo)
    rw [h] at h2
    exact prefix_antisymm (mid_prefix _ _ _ _) h2
  have hfo1 : ∀ v rest, followStep.go G F nul p Fo (.var v :: rest) = Fo →
      fo1 v (G.firstOfString F nul rest).1 Fo = Fo := by
    intro v rest h
    have h2 := mid_prefix1 p.1 v (G.firstOfString F nul rest) Fo
    rw [hmid v rest h] at h2
    exact prefix_antisymm (fo1_prefix _ _ _) h2
  induction hr with
  | first v t rest ht =>
    intro h
    rw [← hfo1 v rest h, mem_fo1]
    exact Or.inr ⟨t, ht, rfl⟩
  | last v x rest hnr hm =>
    intro h
    have hm' := hmid v rest h
    unfold mid at hm'
    rw [if_pos hnr, hfo1 v rest h] at hm'
    rw [← hm', mem_fo2]
    exact Or.inr ⟨x, hm, rfl⟩
  | skip s rest x _ ih =>
    intro h
    cases s with
    | ter t => rw [wgo_ter] at h; exact ih h
    | var v =>
      have hm' := hmid v rest h
      rw [wgo_var, hm'] at h
      exact ih h

/-! #### one round and the iteration -/

theorem followStep_prefix (G : CFG) (F : List FPair) (nul : List Sym) (Fo : List OPair) :
    Fo <+: G.followStep F nul Fo :=
  foldl_prefix _ (fun Fo p => wgo_prefix G F nul p p.2 Fo) _ Fo

theorem followStep_nodup (G : CFG) (F : List FPair) (nul : List Sym) (Fo : List OPair)
    (h : Fo.Nodup) : (G.followStep F nul Fo).Nodup :=
  foldl_inv List.Nodup _ _ (fun p _ Fo h => wgo_nodup G F nul p p.2 Fo h) Fo h

theorem followStep_forall (G : CFG) (F : List FPair) (nul : List Sym) (Q : OPair → Prop)
    (hQ : ∀ p ∈ G.prods, ∀ Fo' x, (∀ y ∈ Fo', Q y) →
      WRule (G.firstOfString F nul) Fo' p.1 p.2 x → Q x)
    (Fo : List OPair) (hF : ∀ y ∈ Fo, Q y) : ∀ y ∈ G.followStep F nul Fo, Q y :=
  foldl_inv (fun Fo => ∀ y ∈ Fo, Q y) _ _
    (fun p hp Fo hF => wgo_forall G F nul p Q p.2 Fo (hQ p hp) hF) Fo hF

/-- `Fo` is closed under the FOLLOW rules -/
def WClosed (G : CFG) (F : List FPair) (nul : List Sym) (Fo : List OPair) : Prop :=
  ∀ p ∈ G.prods, ∀ x, WRule (G.firstOfString F nul) Fo p.1 p.2 x → x ∈ Fo

theorem wclosed_of_fixed (G : CFG) (F : List FPair) (nul : List Sym) (Fo : List OPair)
    (h : G.followStep F nul Fo = Fo) : WClosed G F nul Fo := by
  intro p hp x hr
  have := foldl_fixed _ (fun Fo (p : Pfl.Prod) => wgo_prefix G F nul p p.2 Fo) G.prods Fo h p hp
  exact wgo_closed G F nul p Fo p.2 x hr this

/-- the universe of pairs the FOLLOW saturation can ever produce -/
def oUniv (G : CFG) : List OPair :=
  G.vars.flatMap fun v => (none :: G.ters.map some).map fun x => (v, x)

theorem mem_oUniv (G : CFG) (x : OPair) :
    x ∈ oUniv G ↔ x.1 ∈ G.vars ∧ ∀ t, x.2 = some t → t ∈ G.ters := by
  unfold oUniv
  rw [List.mem_flatMap]
  constructor
  · rintro ⟨v, hv, hx⟩
    obtain ⟨y, hy, rfl⟩ := List.mem_map.mp hx
    refine ⟨hv, ?_⟩
    intro t ht
    simp only at ht
    subst ht
    simpa using hy
  · rintro ⟨hv, ht⟩
    refine ⟨x.1, hv, List.mem_map.mpr ⟨x.2, ?_, rfl⟩⟩
    cases hx : x.2 with
    | none => simp
    | some t => simpa using ht t hx

theorem oUniv_length (G : CFG) : (oUniv G).length = G.vars.length * (G.ters.length + 1) := by
  unfold oUniv
  generalize G.vars = vs
  induction vs with
  | nil => simp
  | cons v vs ih =>
    rw [List.flatMap_cons, List.length_append, ih, List.length_map, List.length_cons,
      List.length_map, List.length_cons, Nat.succ_mul, Nat.add_comm]

theorem firstSets_univ (G : CFG) (hG : G.WF) : ∀ y ∈ G.firstSets, y ∈ fUniv G := by
  unfold firstSets
  exact iter_inv (G.firstStep G.nullable) (fun F => ∀ y ∈ F, y ∈ fUniv G)
    (firstStep_univ G hG _) _ _ (by simp)

theorem fos_ters (G : CFG) (hG : G.WF) (nul : List Sym) :
    ∀ b : List Sym, (∀ t, Sym.ter t ∈ b → t ∈ G.ters) →
      ∀ t ∈ (G.firstOfString G.firstSets nul b).1, t ∈ G.ters := by
  intro b
  induction b with
  | nil => intro _ t ht; rw [firstOfString] at ht; cases ht
  | cons s rest ih =>
    intro hb t ht
    have hfv : ∀ v, t ∈ (G.firstSets.filter (fun x => decide (x.1 = v))).map (·.2) → t ∈ G.ters := by
      intro v h
      rw [mem_fv] at h
      exact ((mem_fUniv G _).mp (firstSets_univ G hG _ h)).2
    cases s with
    | ter a =>
      rw [firstOfString] at ht
      simp only [List.mem_singleton] at ht
      subst ht
      exact hb t List.mem_cons_self
    | var v =>
      rw [fos_var] at ht
      split at ht
      · simp only [List.mem_eraseDups, List.mem_append] at ht
        rcases ht with ht | ht
        · exact hfv v ht
        · exact ih (fun t ht => hb t (List.mem_cons_of_mem _ ht)) t ht
      · simp only [List.mem_eraseDups] at ht
        exact hfv v ht

theorem followStep_univ (G : CFG) (hG : G.WF) (nul : List Sym) (Fo : List OPair)
    (hF : ∀ y ∈ Fo, y ∈ oUniv G) : ∀ y ∈ G.followStep G.firstSets nul Fo, y ∈ oUniv G := by
  refine followStep_forall G _ nul (fun y => y ∈ oUniv G) ?_ Fo hF
  intro p hp Fo' x hF'
  have hgen : ∀ b, (∀ t, Sym.ter t ∈ b → t ∈ G.ters) → (∀ v, Sym.var v ∈ b → v ∈ G.vars) →
      WRule (G.firstOfString G.firstSets nul) Fo' p.1 b x → x ∈ oUniv G := by
    intro b hb hv hr
    induction hr with
    | first v t rest ht =>
      refine (mem_oUniv G _).mpr ⟨hv v List.mem_cons_self, ?_⟩
      intro t' e
      cases e
      exact fos_ters G hG nul rest (fun t ht => hb t (List.mem_cons_of_mem _ ht)) t ht
    | last v x rest _ hm =>
      exact (mem_oUniv G _).mpr ⟨hv v List.mem_cons_self, ((mem_oUniv G _).mp (hF' _ hm)).2⟩
    | skip s rest x _ ih =>
      exact ih (fun t ht => hb t (List.mem_cons_of_mem _ ht))
        (fun v hv' => hv v (List.mem_cons_of_mem _ hv'))
  exact hgen p.2 (hG.ter_mem p hp) (hG.var_mem p hp)

/-- the initial FOLLOW set -/
def followInit (G : CFG) : List OPair :=
  match G.start with
  | some s => [(s, none)]
  | none => []

theorem followSets_eq (G : CFG) :
    G.followSets = iter (G.followStep G.firstSets G.nullable)
      (G.vars.length * (G.ters.length + 2) + 1) (followInit G) := rfl

theorem followInit_nodup (G : CFG) : (followInit G).Nodup := by
  unfold followInit; split <;> simp

theorem followInit_univ (G : CFG) (hG : G.WF) : ∀ y ∈ followInit G, y ∈ oUniv G := by
  unfold followInit
  split
  · next s hs =>
    intro y hy
    simp only [List.mem_singleton] at hy
    subst hy
    exact (mem_oUniv G _).mpr ⟨hG.start_mem s hs, by intro t e; cases e⟩
  · intro y hy; cases hy

theorem followSets_fixed (G : CFG) (hG : G.WF) :
    G.followStep G.firstSets G.nullable G.followSets = G.followSets := by
  rw [followSets_eq]
  refine iter_sat (G.followStep G.firstSets G.nullable) (oUniv G) (followStep_prefix G _ _)
    (followStep_nodup G _ _) (followStep_univ G hG _) _ _ (followInit_nodup G)
    (followInit_univ G hG) ?_
  refine Nat.lt_of_le_of_lt List.countP_le_length ?_
  rw [oUniv_length]
  have h2 : G.vars.length * (G.ters.length + 1) ≤ G.vars.length * (G.ters.length + 2) :=
    Nat.mul_le_mul_left _ (Nat.le_succ _)
  omega

theorem followInit_sub (G : CFG) : ∀ y ∈ followInit G, y ∈ G.followSets := by
  rw [followSets_eq]
  generalize (G.vars.length * (G.ters.length + 2) + 1) = n
  have : ∀ n Fo, Fo <+: iter (G.followStep G.firstSets G.nullable) n Fo := by
    intro n
    induction n with
    | zero => intro Fo; exact List.prefix_refl _
    | succ n ih => intro Fo; exact (followStep_prefix G _ _ Fo).trans (ih _)
  exact fun y hy => (this n _).subset hy

/-! #### semantics of the FOLLOW rules -/

/-- what may come right after the variable -/
def Tail (x : Option String) (β : List Sym) : Prop :=
  match x with
  | none => β = []
  | some t => ∃ β', β = .ter t :: β'

/-- textbook FOLLOW -/
def FollowSpec (G : CFG) (st v : String) (x : Option String) : Prop :=
  ∃ α β, G.Derives [.var st] (α ++ [.var v] ++ β) ∧ Tail x β

theorem derive_into (G : CFG) {st h v : String} {a c pre rest r' : List Sym}
    (hd : G.Derives [.var st] (a ++ [.var h] ++ c)) (hp : (h, pre ++ .var v :: rest) ∈ G.prods)
    (hr : G.Derives rest r') : G.Derives [.var st] ((a ++ pre) ++ [.var v] ++ (r' ++ c)) := by
  have d2 := Derives.context a c (Derives.prod hp)
  have d3 := Derives.context (a ++ pre ++ [.var v]) c hr
  have e1 : a ++ (pre ++ Sym.var v :: rest) ++ c = a ++ pre ++ [Sym.var v] ++ rest ++ c := by simp
  have e2 : a ++ pre ++ [Sym.var v] ++ r' ++ c = a ++ pre ++ [Sym.var v] ++ (r' ++ c) := by simp
  rw [e1] at d2
  rw [e2] at d3
  exact hd.trans (d2.trans d3)

theorem wrule_sound (G : CFG) (hg : ∀ p ∈ G.prods, ∀ s ∈ p.2, ∃ w, G.Gen s w) (hG : G.WF)
    (st : String) (p : Pfl.Prod) (hp : p ∈ G.prods)
    (hreach : ∃ u v', G.Derives [.var st] (u ++ [.var p.1] ++ v'))
    (Fo : List OPair) (hF : ∀ y ∈ Fo, FollowSpec G st y.1 y.2) (x : OPair) :
    ∀ b : List Sym, WRule (G.firstOfString G.firstSets G.nullable) Fo p.1 b x →
      ∀ pre, p.2 = pre ++ b → FollowSpec G st x.1 x.2 := by
  intro b hr
  induction hr with
  | first v t rest ht =>
    intro pre hb
    have hrest : ∀ s ∈ rest, ∃ w, G.Gen s w := fun s hs => hg p hp s (by rw [hb]; simp [hs])
    obtain ⟨w, hw⟩ := ((fos_spec G hg hG rest hrest).2 t).mp ht
    obtain ⟨u, v', hd⟩ := hreach
    have hp' : (p.1, pre ++ .var v :: rest) ∈ G.prods := by rw [← hb]; exact hp
    have := derive_into G hd hp' (genList_derives hw)
    exact ⟨u ++ pre, _, this, w.map Sym.ter ++ v', by simp⟩
  | last v x rest hnr hm =>
    intro pre hb
    have hrest : ∀ s ∈ rest, ∃ w, G.Gen s w := fun s hs => hg p hp s (by rw [hb]; simp [hs])
    have hw := ((fos_spec G hg hG rest hrest).1).mp hnr
    obtain ⟨α, β, hd, ht⟩ := hF _ hm
    have hp' : (p.1, pre ++ .var v :: rest) ∈ G.prods := by rw [← hb]; exact hp
    have := derive_into G hd hp' (genList_derives hw)
    exact ⟨α ++ pre, _, this, by simpa using ht⟩
  | skip s rest x _ ih =>
    intro pre hb
    exact ih (pre ++ [s]) (by rw [hb]; simp)

theorem followSets_sound (G : CFG) (hg : ∀ p ∈ G.prods, ∀ s ∈ p.2, ∃ w, G.Gen s w) (hG : G.WF)
    (st : String) (hst : G.start = some st)
    (hreach : ∀ p ∈ G.prods, ∃ u v', G.Derives [.var st] (u ++ [.var p.1] ++ v')) :
    ∀ y ∈ G.followSets, FollowSpec G st y.1 y.2 := by
  rw [followSets_eq]
  refine iter_inv (G.followStep G.firstSets G.nullable)
    (fun Fo => ∀ y ∈ Fo, FollowSpec G st y.1 y.2) ?_ _ _ ?_
  · intro Fo hF
    refine followStep_forall G _ _ _ ?_ Fo hF
    intro p hp Fo' x hF' hr
    exact wrule_sound G hg hG st p hp (hreach p hp) Fo' hF' x p.2 hr [] rfl
  · unfold followInit
    rw [hst]
    intro y hy
    simp only [List.mem_singleton] at hy
    subst hy
    exact ⟨[], [], Derives.refl _, rfl⟩

/-! #### completeness of FOLLOW -/

theorem split2 {α : Type} (y z a b : List α) (s : α) (h : y ++ z = a ++ s :: b) :
    (∃ y2, y = a ++ s :: y2 ∧ b = y2 ++ z) ∨ (∃ z1, z = z1 ++ s :: b ∧ a = y ++ z1) := by
  rcases List.append_eq_append_iff.mp h with ⟨a', ha, hz⟩ | ⟨c', hy, hc⟩
  · exact Or.inr ⟨a', hz, ha⟩
  · cases c' with
    | nil =>
      simp only [List.nil_append] at hc
      simp only [List.append_nil] at hy
      exact Or.inr ⟨[], by simp [hc], by simp [hy]⟩
    | cons c c'' =>
      simp only [List.cons_append, List.cons.injEq] at hc
      obtain ⟨rfl, rfl⟩ := hc
      exact Or.inl ⟨c'', hy, rfl⟩

theorem derives_inv (G : CFG) (P : List Sym → Prop)
    (hstep : ∀ u h body v, (h, body) ∈ G.prods → P (u ++ [Sym.var h] ++ v) → P (u ++ body ++ v))
    {a b : List Sym} (hd : G.Derives a b) : P a → P b := by
  induction hd with
  | refl _ => exact id
  | step hp _ ih => intro h; exact ih (hstep _ _ _ _ hp h)

theorem genList_fold (G : CFG) {h : String} {body x z : List Sym} {w : List String}
    (hp : (h, body) ∈ G.prods) (hw : G.GenList (x ++ body ++ z) w) :
    G.GenList (x ++ [.var h] ++ z) w := by
  rw [genList_append_iff] at hw
  obtain ⟨w₁₂, w₃, rfl, h12, h3⟩ := hw
  rw [genList_append_iff] at h12
  obtain ⟨w₁, w₂, rfl, h1, h2⟩ := h12
  exact genList_append (genList_append h1 (genList_singleton.2 (.var hp h2))) h3

/-- the invariant of sentential forms used for completeness -/
def FInv (G : CFG) (Fo : List OPair) (γ : List Sym) : Prop :=
  ∀ α v β, γ = α ++ [.var v] ++ β →
    (G.GenList β [] → (v, none) ∈ Fo) ∧ (∀ t w, G.GenList β (t :: w) → (v, some t) ∈ Fo)

theorem finv_step (G : CFG) (hg : ∀ p ∈ G.prods, ∀ s ∈ p.2, ∃ w, G.Gen s w) (hG : G.WF)
    (Fo : List OPair) (hc : WClosed G G.firstSets G.nullable Fo)
    (u : List Sym) (h : String) (body v' : List Sym) (hp : (h, body) ∈ G.prods)
    (hinv : FInv G Fo (u ++ [.var h] ++ v')) : FInv G Fo (u ++ body ++ v') := by
  intro α v β e
  have e' : u ++ (body ++ v') = α ++ Sym.var v :: β := by simpa using e
  rcases split2 _ _ _ _ _ e' with ⟨x2, hu, hβ⟩ | ⟨z1, hz, hα⟩
  · -- the occurrence lies in `u`
    have := hinv α v (x2 ++ [.var h] ++ v') (by rw [hu]; simp)
    refine ⟨fun hn => this.1 ?_, fun t w ht => this.2 t w ?_⟩
    · apply genList_fold G hp; rw [hβ] at hn; simpa using hn
    · apply genList_fold G hp; rw [hβ] at ht; simpa using ht
  · rcases split2 _ _ _ _ _ hz with ⟨y2, hb, hβ⟩ | ⟨z2, hv', _⟩
    · -- the occurrence lies in the body
      have hh := hinv u h v' rfl
      have hy2 : ∀ s ∈ y2, ∃ w, G.Gen s w := fun s hs => hg _ hp s (by rw [hb]; simp [hs])
      obtain ⟨f1, f2⟩ := fos_spec G hg hG y2 hy2
      have hrule : ∀ x, WRule (G.firstOfString G.firstSets G.nullable) Fo h (.var v :: y2) x →
          x ∈ Fo := by
        intro x hr
        have := hc (h, body) hp x
        rw [hb] at this
        exact this (hr.prepend z1)
      subst hβ
      refine ⟨?_, ?_⟩
      · intro hn
        obtain ⟨w₁, w₂, e, h1, h2⟩ := (genList_append_iff G _ _ _).mp hn
        have e2 := List.append_eq_nil_iff.mp e.symm
        rw [e2.1] at h1; rw [e2.2] at h2
        exact hrule _ (.last v none y2 (f1.mpr h1) (hh.1 h2))
      · intro t w ht
        obtain ⟨w₁, w₂, e, h1, h2⟩ := (genList_append_iff G _ _ _).mp ht
        cases w₁ with
        | nil =>
          rw [List.nil_append] at e; rw [← e] at h2
          exact hrule _ (.last v (some t) y2 (f1.mpr h1) (hh.2 t w h2))
        | cons a w1 =>
          simp only [List.cons_append, List.cons.injEq] at e
          rw [← e.1] at h1
          exact hrule _ (.first v t y2 ((f2 t).mpr ⟨w1, h1⟩))
    · -- the occurrence lies in `v'`
      exact hinv (u ++ [.var h] ++ z2) v β (by rw [hv']; simp)

theorem finv_start (G : CFG) (st : String) (hst : G.start = some st) :
    FInv G G.followSets [.var st] := by
  intro α v β e
  have hl := congrArg List.length e
  simp at hl
  have hα : α = [] := List.eq_nil_of_length_eq_zero (by omega)
  have hβ : β = [] := List.eq_nil_of_length_eq_zero (by omega)
  subst hα; subst hβ
  simp only [List.nil_append, List.append_nil, List.cons.injEq, Sym.var.injEq, and_true] at e
  subst e
  refine ⟨fun _ => followInit_sub G _ ?_, ?_⟩
  · unfold followInit; rw [hst]; simp
  · intro t w ht; cases ht

/-- symbols of sentential forms generate (apart from a start symbol without productions) -/
theorem sentential_gen (G : CFG) (hg : ∀ p ∈ G.prods, ∀ s ∈ p.2, ∃ w, G.Gen s w) (st : String)
    {γ : List Sym} (hd : G.Derives [.var st] γ) :
    γ = [.var st] ∨ ∀ s ∈ γ, ∃ w, G.Gen s w := by
  refine derives_inv G (fun γ => γ = [.var st] ∨ ∀ s ∈ γ, ∃ w, G.Gen s w) ?_ hd (Or.inl rfl)
  intro u h body v hp hP
  right
  have hbody := hg _ hp
  rcases hP with e | hall
  · have hl := congrArg List.length e
    simp at hl
    have hu : u = [] := List.eq_nil_of_length_eq_zero (by omega)
    have hv : v = [] := List.eq_nil_of_length_eq_zero (by omega)
    subst hu; subst hv
    simpa using hbody
  · intro s hs
    simp only [List.mem_append] at hs
    rcases hs with (hs | hs) | hs
    · exact hall s (by simp [hs])
    · exact hbody s hs
    · exact hall s (by simp [hs])

theorem followSets_complete (G : CFG) (hg : ∀ p ∈ G.prods, ∀ s ∈ p.2, ∃ w, G.Gen s w) (hG : G.WF)
    (st : String) (hst : G.start = some st) (v : String) (x : Option String)
    (h : FollowSpec G st v x) : (v, x) ∈ G.followSets := by
  obtain ⟨α, β, hd, ht⟩ := h
  have hc := wclosed_of_fixed G _ _ _ (followSets_fixed G hG)
  have hinv : FInv G G.followSets (α ++ [.var v] ++ β) :=
    derives_inv G (FInv G G.followSets)
      (fun u h body v' hp hi => finv_step G hg hG _ hc u h body v' hp hi) hd (finv_start G st hst)
  have := hinv α v β rfl
  cases x with
  | none =>
    have hb : β = [] := ht
    subst hb
    exact this.1 GenList.nil
  | some t =>
    obtain ⟨β', hb⟩ : ∃ β', β = .ter t :: β' := ht
    subst hb
    rcases sentential_gen G hg st hd with e | hall
    · have hl := congrArg List.length e
      simp at hl
      omega
    · obtain ⟨w, hw⟩ := genList_of_forall G β' (fun s hs => hall s (by simp [hs]))
      exact this.2 t w (GenList.cons (w₁ := [t]) (Gen.ter t) hw)

theorem mem_followSets_iff' (G : CFG) (hg : ∀ p ∈ G.prods, ∀ s ∈ p.2, ∃ w, G.Gen s w) (hG : G.WF)
    (hreach : ∀ p ∈ G.prods, Sym.var p.1 ∈ G.reachable) (v : String) (x : Option String) :
    (v, x) ∈ G.followSets ↔ ∃ st, G.start = some st ∧ FollowSpec G st v x := by
  constructor
  · intro h
    cases hst : G.start with
    | none =>
      rw [followSets_eq] at h
      have : ∀ y ∈ iter (G.followStep G.firstSets G.nullable)
          (G.vars.length * (G.ters.length + 2) + 1) (followInit G), False := by
        refine iter_inv (G.followStep G.firstSets G.nullable) (fun Fo => ∀ y ∈ Fo, False) ?_ _ _ ?_
        · intro Fo hF
          refine followStep_forall G _ _ _ ?_ Fo hF
          intro p hp Fo' x hF' hr
          have := (mem_reachable_iff G _).mp (hreach p hp)
          obtain ⟨st, hs, _⟩ := this
          rw [hst] at hs; cases hs
        · unfold followInit; rw [hst]; intro y hy; cases hy
      exact (this _ h).elim
    | some st =>
      refine ⟨st, rfl, ?_⟩
      refine followSets_sound G hg hG st hst ?_ (v, x) h
      intro p hp
      obtain ⟨st', hs, u, v', hd⟩ := (mem_reachable_iff G _).mp (hreach p hp)
      rw [hst] at hs; cases hs
      exact ⟨u, v', hd⟩
  · rintro ⟨st, hst, h⟩
    exact followSets_complete G hg hG st hst v x h

end LL1
end CFG
end Pfl
