/-
`_preprocess_optional` on the stage-2 trees, the meaning of the rewritten trees, and stage 2.
-/
import Pfl.Proofs.E2EPass4
namespace Pfl.PyRx.E2E
open Pfl.PyPass Pfl.RegexReader Pfl.Rx Pfl.Rx.Lem
open C

/-! ### `_preprocess_optional` -/

def NoBsT (l : List Tok) : Prop := ∀ t ∈ l, t ≠ ['\\']

theorem escNext_toks (l : List Tok) (hl : NoBsT l) (rt : RToks) (h : escNext rt = false) :
    escNext (l.reverse ++ rt) = false := by
  rcases List.eq_nil_or_concat l with rfl | ⟨l', t, rfl⟩
  · simpa using h
  · have := hl t (by simp)
    simp [escNext, this]

def OP (s : List Char) (l' : List Tok) : Prop :=
  NoBsT l' ∧ ∀ rt, escNext rt = false → s.foldlM optionalStep rt = .ok (l'.reverse ++ rt)

theorem OP.append {s1 s2 : List Char} {l1 l2 : List Tok} (h1 : OP s1 l1) (h2 : OP s2 l2) :
    OP (s1 ++ s2) (l1 ++ l2) := by
  refine ⟨fun t ht => (List.mem_append.mp ht).elim (h1.1 t) (h2.1 t), fun rt hrt => ?_⟩
  rw [List.foldlM_append, h1.2 rt hrt]
  show List.foldlM optionalStep (l1.reverse ++ rt) s2 = _
  rw [h2.2 _ (escNext_toks l1 h1.1 rt hrt)]
  simp

theorem OP.ch (c : Char) (h1 : c ≠ '?') (h2 : c ≠ '\\') : OP [c] [[c]] := by
  refine ⟨by intro t ht; simp at ht; subst ht; simpa using h2, fun rt hrt => ?_⟩
  simp [optionalStep, h1, pushSym_of rt c hrt, pure, Except.pure]
  rfl

theorem OP.opt_ch {s : List Char} {c : Char} (h : OP s [[c]]) (hc : c ≠ ')') :
    OP (s ++ ['?']) [['(', c, '|', '$', ')']] := by
  have hb : ([c] : Tok) ≠ ['\\'] := h.1 [c] (by simp)
  refine ⟨by intro t ht; simp at ht; subst ht; simp, fun rt hrt => ?_⟩
  rw [List.foldlM_append, h.2 rt hrt]
  show List.foldlM optionalStep ([[c]].reverse ++ rt) ['?'] = _
  have hb' : c ≠ '\\' := by simpa using hb
  simp [optionalStep, hc, hb', pure, Except.pure]
  rfl

theorem OP.opt_grp {s : List Char} {l : List Tok} (h : OP s (l ++ [[')']])) :
    OP (s ++ ['?']) (l ++ [['|', '$', ')']]) := by
  refine ⟨by
    intro t ht
    rcases List.mem_append.mp ht with ht | ht
    · exact h.1 t (List.mem_append.mpr (Or.inl ht))
    · simp at ht; subst ht; simp, fun rt hrt => ?_⟩
  rw [List.foldlM_append, h.2 rt hrt]
  show List.foldlM optionalStep ((l ++ [[')']]).reverse ++ rt) ['?'] = _
  simp [optionalStep, pure, Except.pure]
  rfl

/-- the tokens the loop of `_preprocess_optional` builds -/
def tk5 : C → List Tok
  | .ch c => [[c]]
  | .grp y => ['('] :: tk5 y ++ [[')']]
  | .seq a b => tk5 a ++ tk5 b
  | .bar a b => tk5 a ++ ['|'] :: tk5 b
  | .star a => tk5 a ++ [['*']]
  | .opt (.ch c) => [['(', c, '|', '$', ')']]
  | .opt (.grp y) => ['('] :: tk5 y ++ [['|', '$', ')']]
  | _ => []

/-- `_preprocess_optional` on the trees -/
def p5 : C → C
  | .ch c => .ch c
  | .grp y => .grp (p5 y)
  | .seq a b => .seq (p5 a) (p5 b)
  | .bar a b => .bar (p5 a) (p5 b)
  | .star a => .star (p5 a)
  | .opt (.ch c) => .grp (.bar (.ch c) (.ch '$'))
  | .opt (.grp y) => .grp (.bar (p5 y) (.ch '$'))
  | x => x

theorem form_ch_ne {pl rp op : Bool} (c : Char) (h : Form pl rp op (.ch c)) (d : Char)
    (hd : d.isAlphanum = false) (hd' : d ≠ '$') : c ≠ d := by
  rcases h with h | rfl
  · exact alnum_ne c d h hd
  · exact hd'.symm

theorem p5_op : ∀ x, Form false false true x → OP (text x) (tk5 x)
  | .ch c, h => OP.ch c (form_ch_ne c h _ (by decide) (by decide))
      (form_ch_ne c h _ (by decide) (by decide))
  | .grp y, h => by
    have := ((OP.ch '(' (by decide) (by decide)).append (p5_op y h)).append
      (OP.ch ')' (by decide) (by decide))
    simpa [text, tk5] using this
  | .seq a b, h => (p5_op a h.1).append (p5_op b h.2.1)
  | .bar a b, h => by
    have := (p5_op a h.1).append ((OP.ch '|' (by decide) (by decide)).append (p5_op b h.2))
    simpa [text, tk5] using this
  | .star a, h => (p5_op a h.1).append (OP.ch '*' (by decide) (by decide))
  | .plus a, h => absurd h.1 (by simp)
  | .rep a m n, h => absurd h.1 (by simp)
  | .opt (.ch c), h => OP.opt_ch (p5_op (.ch c) h.2.1) (alnum_noparen c h.2.1).2
  | .opt (.grp y), h => by
    have := p5_op (.grp y) h.2.1
    have e : tk5 (.grp y) = (['('] :: tk5 y) ++ [[')']] := rfl
    rw [e] at this
    exact OP.opt_grp this
  | .opt (.seq _ _), h => absurd h.2.2 (by simp [IsUnit])
  | .opt (.bar _ _), h => absurd h.2.2 (by simp [IsUnit])
  | .opt (.star _), h => absurd h.2.2 (by simp [IsUnit])
  | .opt (.plus _), h => absurd h.2.2 (by simp [IsUnit])
  | .opt (.opt _), h => absurd h.2.2 (by simp [IsUnit])
  | .opt (.rep _ _ _), h => absurd h.2.2 (by simp [IsUnit])

theorem tk5_flatten : ∀ x, Form false false true x → (tk5 x).flatten = text (p5 x)
  | .ch c, _ => rfl
  | .grp y, h => by simp [tk5, p5, text, tk5_flatten y h]
  | .seq a b, h => by simp [tk5, p5, text, tk5_flatten a h.1, tk5_flatten b h.2.1]
  | .bar a b, h => by simp [tk5, p5, text, tk5_flatten a h.1, tk5_flatten b h.2]
  | .star a, h => by simp [tk5, p5, text, tk5_flatten a h.1]
  | .plus a, h => absurd h.1 (by simp)
  | .rep a m n, h => absurd h.1 (by simp)
  | .opt (.ch c), _ => by simp [tk5, p5, text]
  | .opt (.grp y), h => by
    have : Form false false true y := h.2.1
    simp [tk5, p5, text, tk5_flatten y this]
  | .opt (.seq _ _), h => absurd h.2.2 (by simp [IsUnit])
  | .opt (.bar _ _), h => absurd h.2.2 (by simp [IsUnit])
  | .opt (.star _), h => absurd h.2.2 (by simp [IsUnit])
  | .opt (.plus _), h => absurd h.2.2 (by simp [IsUnit])
  | .opt (.opt _), h => absurd h.2.2 (by simp [IsUnit])
  | .opt (.rep _ _ _), h => absurd h.2.2 (by simp [IsUnit])

theorem pass5 (x : C) (h : Form false false true x) :
    preprocessOptional (text x) = .ok (text (p5 x)) := by
  have h1 := (p5_op x h).2 [] rfl
  simp only [List.append_nil] at h1
  simp only [preprocessOptional, h1]
  show Except.ok (joinR (tk5 x).reverse) = _
  rw [joinR, List.reverse_reverse, tk5_flatten x h]

theorem p5_form : ∀ x, Form false false true x →
    Form false false false (p5 x) ∧ (IsUnit x → IsUnit (p5 x)) ∧ (cl x ≤ 1 → cl (p5 x) ≤ 1)
  | .ch c, h => ⟨h, fun _ => trivial, fun _ => by simp [p5, cl]⟩
  | .grp x, h => ⟨(p5_form x h).1, fun _ => trivial, fun _ => by simp [p5, cl]⟩
  | .seq a b, h => ⟨⟨(p5_form a h.1).1, (p5_form b h.2.1).1, (p5_form a h.1).2.2 h.2.2.1,
      (p5_form b h.2.1).2.2 h.2.2.2⟩, fun hu => absurd hu (by simp [IsUnit]),
      fun _ => by simp [p5, cl]⟩
  | .bar a b, h => ⟨⟨(p5_form a h.1).1, (p5_form b h.2).1⟩, fun hu => absurd hu (by simp [IsUnit]),
      fun hc => by simp [cl] at hc⟩
  | .star a, h => ⟨⟨(p5_form a h.1).1, (p5_form a h.1).2.1 h.2⟩,
      fun hu => absurd hu (by simp [IsUnit]), fun _ => by simp [p5, cl]⟩
  | .plus a, h => absurd h.1 (by simp)
  | .rep a m n, h => absurd h.1 (by simp)
  | .opt (.ch c), h => ⟨⟨h.2.1, Or.inr rfl⟩, fun _ => trivial, fun _ => by simp [p5, cl]⟩
  | .opt (.grp y), h => ⟨⟨(p5_form y h.2.1).1, Or.inr rfl⟩, fun _ => trivial,
      fun _ => by simp [p5, cl]⟩
  | .opt (.seq _ _), h => absurd h.2.2 (by simp [IsUnit])
  | .opt (.bar _ _), h => absurd h.2.2 (by simp [IsUnit])
  | .opt (.star _), h => absurd h.2.2 (by simp [IsUnit])
  | .opt (.plus _), h => absurd h.2.2 (by simp [IsUnit])
  | .opt (.opt _), h => absurd h.2.2 (by simp [IsUnit])
  | .opt (.rep _ _ _), h => absurd h.2.2 (by simp [IsUnit])

theorem form_core : ∀ x, Form false false false x → Core x
  | .ch c, h => by
    rcases h with h | rfl
    · exact alnum_leaf c h
    · exact Or.inr rfl
  | .grp x, h => form_core x h
  | .seq a b, h => ⟨form_core a h.1, form_core b h.2.1, h.2.2⟩
  | .bar a b, h => ⟨form_core a h.1, form_core b h.2⟩
  | .star a, h => ⟨form_core a h.1, h.2.cl⟩
  | .plus a, h => absurd h.1 (by simp)
  | .opt a, h => absurd h.1 (by simp)
  | .rep a m n, h => absurd h.1 (by simp)

/-! ### the passes keep the language -/

theorem Eqv.cat_eps (r : Rx) : Eqv (.cat r .eps) r := by
  intro w
  rw [Rx.Lem.cat_denote]
  constructor
  · rintro ⟨u, v, rfl, h1, h2⟩
    rw [Rx.Lem.eps_denote] at h2
    subst h2
    simpa using h1
  · intro h
    exact ⟨w, [], by simp, h, .eps⟩

theorem copies_congr {r r' : Rx} (h : Eqv r r') : ∀ m, Eqv (copies r m) (copies r' m)
  | 0 => Eqv.rfl'
  | m + 1 => Eqv.cat h (copies_congr h m)

theorem optCopies_congr {r r' : Rx} (h : Eqv r r') : ∀ m, Eqv (optCopies r m) (optCopies r' m)
  | 0 => Eqv.rfl'
  | m + 1 => Eqv.cat (Eqv.alt h Eqv.rfl') (optCopies_congr h m)

theorem rx_p4a : ∀ x, Eqv (rx (p4a x)) (rx x)
  | .ch _ => Eqv.rfl'
  | .grp x => rx_p4a x
  | .seq a b => Eqv.cat (rx_p4a a) (rx_p4a b)
  | .bar a b => Eqv.alt (rx_p4a a) (rx_p4a b)
  | .star a => Eqv.star (rx_p4a a)
  | .plus a => Eqv.cat (rx_p4a a) (Eqv.star (rx_p4a a))
  | .opt a => Eqv.alt (rx_p4a a) Eqv.rfl'
  | .rep a m n => Eqv.cat (copies_congr (rx_p4a a) m) (optCopies_congr (rx_p4a a) (n - m))

theorem rx_cpow (a : C) : ∀ k, Eqv (rx (cpow a k)) (copies (rx a) (k + 1))
  | 0 => (Eqv.cat_eps _).symm
  | k + 1 => Eqv.cat Eqv.rfl' (rx_cpow a k)

theorem rx_cpow_opt (a : C) : ∀ k, Eqv (rx (cpow (.opt a) k)) (optCopies (rx a) (k + 1))
  | 0 => (Eqv.cat_eps _).symm
  | k + 1 => Eqv.cat Eqv.rfl' (rx_cpow_opt a k)

theorem rx_repC (a : C) (m n : Nat) (h : m ≤ n) :
    Eqv (rx (repC a m n)) (.cat (copies (rx a) m) (optCopies (rx a) (n - m))) := by
  unfold repC
  by_cases hmn : m = n
  · subst hmn
    simp only [if_true, Nat.sub_self, optCopies]
    refine Eqv.trans ?_ (Eqv.cat_eps _).symm
    by_cases h0 : m = 0
    · subst h0; simp only [if_true]; exact Eqv.rfl'
    · simp only [h0, if_false]
      have := rx_cpow a (m - 1)
      rwa [Nat.sub_add_cancel (by omega)] at this
  · simp only [hmn, if_false]
    have h2 := rx_cpow_opt a (n - m - 1)
    rw [show n - m - 1 + 1 = n - m by omega] at h2
    refine Eqv.cat ?_ h2
    by_cases h0 : m = 0
    · subst h0; simp only [if_true]; exact Eqv.rfl'
    · simp only [h0, if_false]
      have := rx_cpow a (m - 1)
      rwa [Nat.sub_add_cancel (by omega)] at this

theorem rx_p4b {op : Bool} : ∀ x, Form false true op x → Eqv (rx (p4b x)) (rx x)
  | .ch _, _ => Eqv.rfl'
  | .grp x, h => rx_p4b x h
  | .seq a b, h => Eqv.cat (rx_p4b a h.1) (rx_p4b b h.2.1)
  | .bar a b, h => Eqv.alt (rx_p4b a h.1) (rx_p4b b h.2)
  | .star a, h => Eqv.star (rx_p4b a h.1)
  | .plus a, h => absurd h.1 (by simp)
  | .opt a, h => Eqv.alt (rx_p4b a h.2.1) Eqv.rfl'
  | .rep a m n, h =>
    (rx_repC (p4b a) m n h.2.2.2).trans
      (Eqv.cat (copies_congr (rx_p4b a h.2.1) m) (optCopies_congr (rx_p4b a h.2.1) (n - m)))

theorem rx_p5 : ∀ x, Eqv (rx (p5 x)) (rx x)
  | .ch _ => Eqv.rfl'
  | .grp x => rx_p5 x
  | .seq a b => Eqv.cat (rx_p5 a) (rx_p5 b)
  | .bar a b => Eqv.alt (rx_p5 a) (rx_p5 b)
  | .star a => Eqv.star (rx_p5 a)
  | .plus _ => Eqv.rfl'
  | .rep _ _ _ => Eqv.rfl'
  | .opt (.ch _) => Eqv.rfl'
  | .opt (.grp y) => Eqv.alt (rx_p5 y) Eqv.rfl'
  | .opt (.seq _ _) => Eqv.rfl'
  | .opt (.bar _ _) => Eqv.rfl'
  | .opt (.star _) => Eqv.rfl'
  | .opt (.plus _) => Eqv.rfl'
  | .opt (.opt _) => Eqv.rfl'
  | .opt (.rep _ _ _) => Eqv.rfl'

/-! ### stage 2 -/

theorem toC_form : ∀ p ctx, Frag2 p → Form true true true (toC p ctx)
  | .lit c, _, h => Or.inl h
  | .cat a b, ctx, h => by
    have : Form true true true (C.seq (toC a .cat) (toC b .cat)) :=
      ⟨toC_form a .cat h.1, toC_form b .cat h.2, toC_cl_cat a h.1, toC_cl_cat b h.2⟩
    by_cases hc : ctx = .q <;> simpa [toC, hc, Form] using this
  | .alt a b, ctx, h => by
    have : Form true true true (C.bar (toC a .top) (toC b .top)) :=
      ⟨toC_form a .top h.1, toC_form b .top h.2⟩
    by_cases hc : ctx = .top <;> simpa [toC, hc, Form] using this
  | .star a, _, h => by
    refine ⟨?_, wrapQ_unit a h⟩
    unfold wrapQ; split <;> exact toC_form a .q h
  | .plus a, _, h => by
    refine ⟨rfl, ?_, wrapQ_unit a h⟩
    unfold wrapQ; split <;> exact toC_form a .q h
  | .opt a, _, h => by
    refine ⟨rfl, ?_, wrapQ_unit a h⟩
    unfold wrapQ; split <;> exact toC_form a .q h
  | .rep a m n, _, h => by
    refine ⟨rfl, ?_, wrapQ_unit a h.1, h.2⟩
    unfold wrapQ; split <;> exact toC_form a .q h.1

theorem Ch2.facts {c : Char} (h : Ch2 c) :
    c ≠ ' ' ∧ c ≠ '\\' ∧ c ≠ '[' ∧ c ≠ '.' ∧ c ≠ '\x08' ∧ c.toNat < 128 := by
  rcases h with h | h
  · have := alnum_range c h
    exact ⟨alnum_ne c _ h (by decide), alnum_ne c _ h (by decide), alnum_ne c _ h (by decide),
      alnum_ne c _ h (by decide), alnum_ne c _ h (by decide), by omega⟩
  · revert h c; decide

theorem stage2 (p : P) (h : Frag2 p) : ∃ t fuel r, transform (render p .top) = .ok t ∧
    parse fuel t = .ok r ∧ ∀ w : List Char, Denote r (word w) ↔ Matches printables p w := by
  have hx := toC_form p .top h
  have h4 := (p4a_form _ hx).1
  have h4b := (p4b_form _ h4).1
  have h5 := (p5_form _ h4b).1
  have hcore := form_core _ h5
  obtain ⟨fuel, r, hr, hE⟩ := parse_core _ hcore
  have hs := text_ch2 _ hx
  have hs5 := text_ch2 _ h5
  have e1 : replaceShortcuts (text (toC p .top)) = text (toC p .top) :=
    replaceShortcuts_id _ (fun hm => (hs _ hm).facts.1 rfl) (fun hm => (hs _ hm).facts.2.1 rfl)
  have e2 := escapeInBrackets_inert (text (toC p .top))
    (fun c hc => ⟨(hs c hc).facts.2.1, (hs c hc).facts.2.2.1⟩)
  have e3 := preprocessBrackets_inert (text (toC p .top))
    (fun c hc => ⟨(hs c hc).facts.2.1, (hs c hc).facts.2.2.1⟩)
  have ht := transform_eq (text (toC p .top)) _ _ _ _ (fun c hc => (hs c hc).facts.2.2.2.2.2)
    (by rw [e1, e2, e3]) (pass4 _ hx) (pass5 _ h4b)
    (separate_inert _ (fun c hc => ⟨(hs5 c hc).facts.2.1, (hs5 c hc).facts.2.2.2.1⟩))
  rw [lstrip_inert _ (fun c hc => (hs5 c hc).facts.2.2.2.2.1), toC_text p .top h] at ht
  refine ⟨_, fuel, r, ht, hr, ?_⟩
  intro w
  rw [hE, rx_p5 _ _, rx_p4b _ h4 _, rx_p4a _ _, toC_rx p .top h]
  exact desugar_denote printables p (Frag2.wellFormed p h) w

end Pfl.PyRx.E2E
