/-
The first three passes on the rendered text of a pattern: leaves and the skeleton of a pattern.
-/
import Pfl.Proofs.E2E4Sets
namespace Pfl.PyRx.E2E.S3
open Pfl.RegexReader Pfl.Rx Pfl.Rx.Lem Pfl.PyPass
open Pfl.PyRx.E2E

/-! ### leaves -/

inductive Lf where
  | lit (c : Char)
  | dot
  | short (k : Char)
  | set (neg : Bool) (items : List Item)

def setBody : Char → List Char
  | 'd' => "0-9".toList
  | 's' => ['\\', ' ', '\t', '\n', '\r', '\x0c', '\x0b']
  | _ => "a-zA-Z0-9_".toList

def bodyToks : Char → List Tok
  | 'd' => sing "0-9".toList
  | 's' => [['\\', ' '], ['\t'], ['\n'], ['\r'], ['\x0c'], ['\x0b']]
  | _ => sing "a-zA-Z0-9_".toList

def shortToks : Char → List Tok
  | 'd' => sing PyPass.digits
  | 's' => [['\\', ' '], ['\t'], ['\n'], ['\r'], ['\x0c'], ['\x0b']]
  | _ => sing (asciiLower ++ asciiUpper ++ PyPass.digits ++ ['_'])

def setText (k : Char) : List Char := '[' :: (setBody k ++ [']'])

def tokOf (c : Char) : Tok :=
  if c = ' ' then ['\\', ' '] else if c ∈ metaChars then ['\\', c] else [c]

def txt0 : Lf → List Char
  | .lit c => if c ∈ metaChars then ['\\', c] else [c]
  | .dot => ['.']
  | .short k => ['\\', k]
  | .set neg items => set0 neg items

def tok1 : Lf → List Tok
  | .lit c => if c = ' ' then [['\\', ' ']] else if c ∈ metaChars then [['\\'], [c]] else [[c]]
  | .dot => [['.']]
  | .short k => [setText k]
  | .set neg items => setTok1 neg items

def tok2 : Lf → List Tok
  | .lit c => [tokOf c]
  | .dot => [['.']]
  | .short k => ['['] :: (bodyToks k ++ [[']']])
  | .set neg items => setTok2 neg items

def tok3 : Lf → List Tok
  | .lit c => [tokOf c]
  | .dot => [['.']]
  | .short k => ['('] :: (insertOr (shortToks k) ++ [[')']])
  | .set neg items => setTok3 neg items

def LfOK : Lf → Prop
  | .lit c => c ∈ printables
  | .dot => True
  | .short k => k = 'd' ∨ k = 's' ∨ k = 'w'
  | .set _ items => items ≠ [] ∧ ∀ it ∈ items, GoodIt it

theorem bodyToks_flatten (k : Char) (hk : k = 'd' ∨ k = 's' ∨ k = 'w') :
    (bodyToks k).flatten = setBody k := by
  rcases hk with rfl | rfl | rfl <;> rfl

theorem meta_facts : ∀ c ∈ metaChars, c ≠ ' ' ∧
    shortcuts.find? (fun p => p.1 == ['\\', c]) = none ∧ c.isAlphanum = false := by decide

theorem plain_facts3 : ∀ c ∈ printables, c ∉ metaChars → c ≠ ' ' →
    c ≠ '\\' ∧ c ≠ '[' ∧ c ≠ ']' ∧ Tk1 c := by
  unfold Tk1
  decide

theorem lf_p1 (lf : Lf) (h : LfOK lf) : P1 (txt0 lf) (tok1 lf) := by
  cases lf with
  | lit c =>
    simp only [txt0, tok1]
    by_cases hm : c ∈ metaChars
    · have := meta_facts c hm
      simp only [hm, if_true, this.1, if_false]
      exact P1.esc c this.1 this.2.1
    · by_cases hb : c = ' '
      · subst hb; simp only [hm, if_false, if_true]; exact P1.blank
      · have := plain_facts3 c h hm hb
        simp only [hm, hb, if_false]
        exact P1.ch c hb this.1 this.2.1
  | dot => exact P1.ch '.' (by decide) (by decide) (by decide)
  | short k =>
    rcases h with rfl | rfl | rfl
    · exact P1.short 'd' (['\\', 'd'], "[0-9]".toList) (by decide) (by decide)
    · exact P1.short 's' (['\\', 's'], ['[', '\\', ' ', '\t', '\n', '\r', '\x0c', '\x0b', ']'])
        (by decide) (by decide)
    · exact P1.short 'w' (['\\', 'w'], "[a-zA-Z0-9_]".toList) (by decide) (by decide)
  | set neg items => exact set_p1 neg items h.2

theorem p2_plain (s : List Char)
    (h : ∀ c ∈ s, c ≠ '\\' ∧ c ≠ '[' ∧ c ≠ ']' ∧ c ∉ toEscapeInBrackets) : P2 true s (sing s) := by
  induction s with
  | nil => exact P2.nil true
  | cons c r ih =>
    have hc := h c (by simp)
    have := (P2.ch true c hc.1 hc.2.1 hc.2.2.1 (fun _ => hc.2.2.2)).append
      (ih (fun d hd => h d (by simp [hd])))
    simpa [sing] using this

theorem p2_body (k : Char) (hk : k = 'd' ∨ k = 's' ∨ k = 'w') : P2 true (setBody k) (bodyToks k) := by
  rcases hk with rfl | rfl | rfl
  · exact p2_plain _ (by decide)
  · have := (P2.esc true ' ').append (p2_plain ['\t', '\n', '\r', '\x0c', '\x0b'] (by decide))
    exact this
  · exact p2_plain _ (by decide)

theorem lf_p2 (lf : Lf) (h : LfOK lf) : P2 false (tok1 lf).flatten (tok2 lf) := by
  cases lf with
  | lit c =>
    simp only [tok1, tok2, tokOf]
    by_cases hb : c = ' '
    · subst hb; simpa using P2.esc false ' '
    · by_cases hm : c ∈ metaChars
      · simp only [hb, hm, if_false, if_true]
        simpa using P2.esc false c
      · have := plain_facts3 c h hm hb
        simp only [hb, hm, if_false]
        simpa using P2.ch false c this.1 this.2.1 this.2.2.1 (fun e => by simp at e)
  | dot => simpa [tok1, tok2] using P2.ch false '.' (by decide) (by decide) (by decide) (fun e => by simp at e)
  | short k =>
    have := P2.set (p2_body k h)
    simpa [tok1, tok2, setText] using this
  | set neg items => exact set_p2 neg items h.2

theorem p3in_plain (s : List Char)
    (h : ∀ c ∈ s, c ≠ '\\' ∧ c ≠ '[' ∧ c ≠ ']' ∧ c ≠ '|') : P3in s (sing s) := by
  induction s with
  | nil => exact P3in.nil
  | cons c r ih =>
    have hc := h c (by simp)
    have := (P3in.ch c hc.1 hc.2.1 hc.2.2.1 hc.2.2.2).append (ih (fun d hd => h d (by simp [hd])))
    simpa [sing] using this

theorem p3in_body (k : Char) (hk : k = 'd' ∨ k = 's' ∨ k = 'w') : P3in (setBody k) (bodyToks k) := by
  rcases hk with rfl | rfl | rfl
  · exact p3in_plain _ (by decide)
  · have := (P3in.esc ' ').append (p3in_plain ['\t', '\n', '\r', '\x0c', '\x0b'] (by decide))
    exact this
  · exact p3in_plain _ (by decide)

set_option maxRecDepth 100000 in
theorem content_d : preprocessBracketsContent (bodyToks 'd') = .ok (insertOr (shortToks 'd')) := by rfl
set_option maxRecDepth 100000 in
theorem content_s : preprocessBracketsContent (bodyToks 's') = .ok (insertOr (shortToks 's')) := by rfl
set_option maxRecDepth 100000 in
theorem content_w : preprocessBracketsContent (bodyToks 'w') = .ok (insertOr (shortToks 'w')) := by rfl

theorem shortToks_utok (k : Char) (hk : k = 'd' ∨ k = 's' ∨ k = 'w') :
    shortToks k ≠ [] ∧ ∀ t ∈ shortToks k, UTok true t := by
  have key : ∀ k ∈ ['d', 's', 'w'], shortToks k ≠ [] ∧ (shortToks k).all utokB = true := by decide
  have hk' : k ∈ ['d', 's', 'w'] := by rcases hk with rfl | rfl | rfl <;> simp
  refine ⟨(key k hk').1, fun t ht => utokB_sound t ?_⟩
  exact List.all_eq_true.mp (key k hk').2 t ht

theorem utok_noBs {q : Bool} {t : Tok} (h : UTok q t) : t ≠ ['\\'] := h.push.ne_bs

theorem lf_p3 (lf : Lf) (h : LfOK lf) : P3 (tok2 lf).flatten (tok3 lf) := by
  cases lf with
  | lit c =>
    simp only [tok2, tok3, tokOf]
    by_cases hb : c = ' '
    · subst hb; simpa using P3.esc ' '
    · by_cases hm : c ∈ metaChars
      · simp only [hb, hm, if_false, if_true]
        simpa using P3.esc c
      · have := plain_facts3 c h hm hb
        simp only [hb, hm, if_false]
        simpa using P3.ch c this.1 this.2.1
  | dot => simpa [tok2, tok3] using P3.ch '.' (by decide) (by decide)
  | short k =>
    have hc : preprocessBracketsContent (bodyToks k) = .ok (insertOr (shortToks k)) := by
      rcases h with rfl | rfl | rfl
      · exact content_d
      · exact content_s
      · exact content_w
    have hnb : NoBsT (insertOr (shortToks k)) := by
      intro t ht
      exact (insertOr_push _ (fun t ht => ((shortToks_utok k h).2 t ht).push) t ht).ne_bs
    have := P3.set (p3in_body k h) hc hnb
    simpa [tok2, tok3, bodyToks_flatten k h] using this
  | set neg items => exact set_p3 neg items h.2

/-! ### the skeleton of a pattern -/

inductive K where
  | lf (l : Lf)
  | grp (x : K)
  | seq (a b : K)
  | bar (a b : K)
  | star (a : K)
  | plus (a : K)
  | opt (a : K)
  | rep (a : K) (m n : Nat)

def ktoks (f : Lf → List Tok) : K → List Tok
  | .lf l => f l
  | .grp x => ['('] :: (ktoks f x ++ [[')']])
  | .seq a b => ktoks f a ++ ktoks f b
  | .bar a b => ktoks f a ++ ['|'] :: ktoks f b
  | .star a => ktoks f a ++ [['*']]
  | .plus a => ktoks f a ++ [['+']]
  | .opt a => ktoks f a ++ [['?']]
  | .rep a m n => ktoks f a ++ sing (C.braces m n)

def KOK : K → Prop
  | .lf l => LfOK l
  | .grp x => KOK x
  | .seq a b => KOK a ∧ KOK b
  | .bar a b => KOK a ∧ KOK b
  | .star a => KOK a
  | .plus a => KOK a
  | .opt a => KOK a
  | .rep a _ _ => KOK a

/-- structure characters: none of the first three passes reacts to them -/
def SCh (c : Char) : Prop := c ≠ ' ' ∧ c ≠ '\\' ∧ c ≠ '[' ∧ c ≠ ']'

theorem braces_sch (m n : Nat) : ∀ c ∈ C.braces m n, SCh c := by
  intro c hc
  have := (braces_ch2 m n c hc).facts
  refine ⟨this.1, this.2.1, this.2.2.1, ?_⟩
  rcases braces_ch2 m n c hc with h | h
  · exact alnum_ne c _ h (by decide)
  · rintro rfl; revert h; decide

/-- lifting a leaf-wise statement about a pass to the whole text -/
theorem lift {R : List Char → List Tok → Prop}
    (happ : ∀ {s1 s2 l1 l2}, R s1 l1 → R s2 l2 → R (s1 ++ s2) (l1 ++ l2))
    (hnil : R [] []) (hch : ∀ c, SCh c → R [c] [[c]]) (g f : Lf → List Tok)
    (hl : ∀ l, LfOK l → R (g l).flatten (f l)) :
    ∀ x, KOK x → R (ktoks g x).flatten (ktoks f x)
  | .lf l, h => hl l h
  | .grp x, h => by
    have := happ (happ (hch '(' (by simp [SCh])) (lift happ hnil hch g f hl x h))
      (hch ')' (by simp [SCh]))
    simpa [ktoks] using this
  | .seq a b, h => by
    have := happ (lift happ hnil hch g f hl a h.1) (lift happ hnil hch g f hl b h.2)
    simpa [ktoks] using this
  | .bar a b, h => by
    have := happ (lift happ hnil hch g f hl a h.1)
      (happ (hch '|' (by simp [SCh])) (lift happ hnil hch g f hl b h.2))
    simpa [ktoks] using this
  | .star a, h => by
    have := happ (lift happ hnil hch g f hl a h) (hch '*' (by simp [SCh]))
    simpa [ktoks] using this
  | .plus a, h => by
    have := happ (lift happ hnil hch g f hl a h) (hch '+' (by simp [SCh]))
    simpa [ktoks] using this
  | .opt a, h => by
    have := happ (lift happ hnil hch g f hl a h) (hch '?' (by simp [SCh]))
    simpa [ktoks] using this
  | .rep a m n, h => by
    have hb : ∀ s : List Char, (∀ c ∈ s, SCh c) → R s (sing s) := by
      intro s hs
      induction s with
      | nil => exact hnil
      | cons c r ih =>
        have := happ (hch c (hs c (by simp))) (ih (fun d hd => hs d (by simp [hd])))
        simpa [sing] using this
    have := happ (lift happ hnil hch g f hl a h) (hb _ (braces_sch m n))
    simpa [ktoks, sing_flatten] using this

end Pfl.PyRx.E2E.S3
