/-
Termination of the Earley model (C18), part 6: the unification of two symbol records computed
exactly (each of them empty or with the one feature `n` leading to a leaf), and the effect of a
pointer update / of a fresh feature on the symbol records and leaves of a record.
-/
import Pfl.Proofs.EarleyTerminationSubs
namespace Pfl
namespace Earley
namespace Term
open FsDag FsDag.Lem Lem Cmp

/-! ### exact unification of two symbol records -/

/-- the second operand is empty, the first is not -/
theorem unify_D {st : Store} {a b : Nat} (f : Nat) (hne : deref st a ≠ deref st b)
    (ha : cont st (deref st a) ≠ []) (hb : cont st (deref st b) = []) :
    unify (f + 1) st a b = .ok (setPointer st (deref st b) (deref st a)) := by
  rw [unify_succ, if_neg hne, if_neg (fun h => ha h.1), hb, go_nil]

/-- the unification of two leaves -/
theorem unify_leaf {st : Store} {a b : Nat} (f : Nat) (hne : deref st a ≠ deref st b)
    (ha : cont st (deref st a) = []) (hb : cont st (deref st b) = []) :
    unify (f + 1) st a b =
      if val st (deref st a) = val st (deref st b) ∨ val st (deref st a) = none then
        .ok (setPointer st (deref st a) (deref st b))
      else if val st (deref st b) = none then .ok (setPointer st (deref st b) (deref st a))
      else .conflict := by
  rw [unify_succ, if_neg hne, if_pos ⟨ha, hb⟩]
  by_cases h1 : val st (deref st a) = val st (deref st b)
  · rw [if_pos h1, if_pos (Or.inl h1)]
  · rw [if_neg h1]
    by_cases h2 : val st (deref st a) = none
    · rw [if_pos h2, if_pos (Or.inr h2)]
    · rw [if_neg h2]
      have h3 : ¬ (val st (deref st a) = val st (deref st b) ∨ val st (deref st a) = none) :=
        fun h => h.elim h1 h2
      rw [if_neg h3]

theorem lookupC_single (g : String) (x : Nat) : lookupC g [(g, x)] = some x := by
  simp [lookupC]

/-- both operands have the feature `n` -/
theorem unify_B {st : Store} {a b x y : Nat} (f : Nat) (hne : deref st a ≠ deref st b)
    (ha : cont st (deref st a) = [("n", x)]) (hb : cont st (deref st b) = [("n", y)]) :
    unify (f + 2) st a b =
      match unify (f + 1) (setPointer st (deref st b) (deref st a)) x y with
      | .ok st2 => .ok st2
      | r => r := by
  rw [unify_succ, if_neg hne, if_neg (fun h => by rw [ha] at h; simp at h), hb, go_cons]
  have hf : fieldOf (setPointer st (deref st b) (deref st a)) (deref st a) "n" =
      (setPointer st (deref st b) (deref st a), x) := by
    unfold fieldOf
    rw [cont_setPointer, ha, lookupC_single]
  rw [hf]
  simp only
  cases unify (f + 1) (setPointer st (deref st b) (deref st a)) x y with
  | ok st2 => simp only [go_nil]
  | conflict => rfl
  | fuel => rfl

/-- the first operand is empty, the second has the feature `n` -/
theorem unify_C {st : Store} {a b y : Nat} (f : Nat) (hne : deref st a ≠ deref st b)
    (ha : cont st (deref st a) = []) (hb : cont st (deref st b) = [("n", y)]) :
    unify (f + 2) st a b =
      match unify (f + 1) (addFresh (setPointer st (deref st b) (deref st a)) (deref st a) "n")
          st.length y with
      | .ok st2 => .ok st2
      | r => r := by
  rw [unify_succ, if_neg hne, if_neg (fun h => by rw [hb] at h; simp at h), hb, go_cons]
  have hf : fieldOf (setPointer st (deref st b) (deref st a)) (deref st a) "n" =
      (addFresh (setPointer st (deref st b) (deref st a)) (deref st a) "n", st.length) := by
    unfold fieldOf
    rw [cont_setPointer, ha]
    simp [lookupC, length_setPointer]
  rw [hf]
  simp only
  cases unify (f + 1) (addFresh (setPointer st (deref st b) (deref st a)) (deref st a) "n")
      st.length y with
  | ok st2 => simp only [go_nil]
  | conflict => rfl
  | fuel => rfl

/-! ### symbol records and leaves after a pointer update -/

theorem slotOf_setPtr {st : Store} (ha : Acyc st) {c d : Nat} (hc : ptr st c = none)
    (hd : ptr st d = none) (hcd : c ≠ d) (hlt : c < st.length) {F : Nat} (hF : deref st F ≠ c)
    (j : Nat) :
    slotOf (setPointer st c d) F j = (slotOf st F j).map fun z => if z = c then d else z := by
  unfold slotOf
  rw [byPath_one, byPath_one, deref_setPointer ha hc hd hcd hlt, if_neg hF, cont_setPointer]
  cases lookupC (lab j) (cont st (deref st F)) with
  | none => rfl
  | some r =>
    simp only [Option.map_some, Option.some.injEq]
    exact deref_setPointer ha hc hd hcd hlt r

/-- the leaves when the updated object is not a symbol record of `F` -/
theorem leafOf_setPtr {st : Store} (ha : Acyc st) {c d : Nat} (hc : ptr st c = none)
    (hd : ptr st d = none) (hcd : c ≠ d) (hlt : c < st.length) {F : Nat} (hF : deref st F ≠ c)
    (j : Nat) (hs : slotOf st F j ≠ some c) :
    leafOf (setPointer st c d) F j = (leafOf st F j).map fun z => if z = c then d else z := by
  unfold leafOf
  rw [byPath_two, byPath_two, deref_setPointer ha hc hd hcd hlt, if_neg hF, cont_setPointer]
  cases hl : lookupC (lab j) (cont st (deref st F)) with
  | none => rfl
  | some r =>
    have hr : deref st r ≠ c := by
      intro e
      apply hs
      rw [slotOf_of hl, e]
    simp only [Option.bind_some]
    rw [deref_setPointer ha hc hd hcd hlt, if_neg hr, cont_setPointer]
    cases lookupC "n" (cont st (deref st r)) with
    | none => rfl
    | some x =>
      simp only [Option.map_some, Option.some.injEq]
      exact deref_setPointer ha hc hd hcd hlt x

/-- the leaf below an updated symbol record: the leaf of the target -/
theorem leafOf_setPtr_slot {st : Store} (ha : Acyc st) {c d : Nat} (hc : ptr st c = none)
    (hd : ptr st d = none) (hcd : c ≠ d) (hlt : c < st.length) {F : Nat} (hF : deref st F ≠ c)
    (j : Nat) (hs : slotOf st F j = some c) (hdc : cont st d = []) :
    leafOf (setPointer st c d) F j = none := by
  unfold leafOf
  rw [byPath_two, deref_setPointer ha hc hd hcd hlt, if_neg hF, cont_setPointer]
  obtain ⟨r, hr, hrc⟩ := slotOf_some hs
  rw [hr]
  simp only [Option.bind_some]
  rw [deref_setPointer ha hc hd hcd hlt, if_pos hrc, cont_setPointer, hdc]
  rfl

/-! ### symbol records and leaves after the creation of the feature `n` -/

theorem slotOf_addFresh {st : Store} (ha : Acyc st) {ca : Nat} (hca : ca < st.length) {F : Nat}
    (hF : deref st F ≠ ca) (j : Nat) : slotOf (addFresh st ca "n") F j = slotOf st F j := by
  unfold slotOf
  rw [byPath_one, byPath_one, deref_addFresh ha "n" hca, cont_addFresh "n" hca, if_neg hF]
  cases lookupC (lab j) (cont st (deref st F)) with
  | none => rfl
  | some r =>
    simp only [Option.map_some, Option.some.injEq]
    exact deref_addFresh ha "n" hca r

theorem leafOf_addFresh_ne {st : Store} (ha : Acyc st) {ca : Nat} (hca : ca < st.length) {F : Nat}
    (hF : deref st F ≠ ca) (j : Nat) (hs : slotOf st F j ≠ some ca) :
    leafOf (addFresh st ca "n") F j = leafOf st F j := by
  unfold leafOf
  rw [byPath_two, byPath_two, deref_addFresh ha "n" hca, cont_addFresh "n" hca, if_neg hF]
  cases hl : lookupC (lab j) (cont st (deref st F)) with
  | none => rfl
  | some r =>
    have hr : deref st r ≠ ca := by
      intro e
      apply hs
      rw [slotOf_of hl, e]
    simp only [Option.bind_some]
    rw [deref_addFresh ha "n" hca, cont_addFresh "n" hca, if_neg hr]
    cases lookupC "n" (cont st (deref st r)) with
    | none => rfl
    | some x =>
      simp only [Option.map_some, Option.some.injEq]
      exact deref_addFresh ha "n" hca x

theorem leafOf_addFresh_eq {st : Store} (ha : Acyc st) {ca : Nat}
    (hca : ca < st.length) (hc0 : cont st ca = []) {F : Nat}
    (hF : deref st F ≠ ca) (j : Nat) (hs : slotOf st F j = some ca) :
    leafOf (addFresh st ca "n") F j = some st.length := by
  unfold leafOf
  rw [byPath_two, deref_addFresh ha "n" hca, cont_addFresh "n" hca, if_neg hF]
  obtain ⟨r, hr', hrc⟩ := slotOf_some hs
  rw [hr']
  simp only [Option.bind_some]
  rw [deref_addFresh ha "n" hca, hrc, cont_addFresh "n" hca, if_pos rfl, hc0]
  simp only [List.nil_append, lookupC_single, Option.map_some, Option.some.injEq]
  rw [deref_addFresh ha "n" hca]
  have : ptr st st.length = none := by rw [ptr, get_ge (Nat.le_refl _)]; rfl
  exact deref_of_none this

end Term
end Earley
end Pfl
