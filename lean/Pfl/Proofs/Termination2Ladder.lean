/-
The path search of `is_acyclic` needs exponentially many rounds: on the "ladder" with `n + 1`
states `0 … n` and two parallel edges `i ─0→ i+1`, `i ─1→ i+1` it makes exactly `2 ^ (n+1) - 1`
rounds (one per path from the start state).
-/
import Pfl.Proofs.Termination2FA
import Mathlib.Tactic.Ring

namespace Pfl.Term2
open Pfl Pfl.ENFA

def ladder (n : Nat) : ENFA Nat :=
  { states := List.range (n + 1), syms := [0, 1], starts := [0], finals := [n]
    delta := (List.range n).flatMap fun i => [(i, some 0, i + 1), (i, some 1, i + 1)] }

theorem flatMap_range_single {β : Type} (n q : Nat) (c : β) :
    ((List.range n).flatMap fun i => if i = q then [c] else []) = if q < n then [c] else [] := by
  induction n with
  | zero => simp
  | succ n ih =>
    rw [List.range_succ, List.flatMap_append, ih]
    by_cases h1 : q < n
    · have h2 : ¬ n = q := by omega
      have h3 : q < n + 1 := by omega
      simp [h1, h2, h3]
    · by_cases h2 : n = q
      · subst h2; simp
      · have h3 : ¬ q < n + 1 := by omega
        simp [h1, h2, h3]

theorem ladder_succs (n q : Nat) (a : Nat) (ha : a = 0 ∨ a = 1) :
    (ladder n).succs q (some a) = if q < n then [q + 1] else [] := by
  unfold succs ladder
  simp only
  rw [List.filterMap_flatMap, ← flatMap_range_single n q (q + 1)]
  congr 1
  funext i
  by_cases hi : i = q
  · subst hi
    rcases ha with rfl | rfl <;> simp
  · rcases ha with rfl | rfl <;> simp [hi]

theorem ladder_succs_none (n q : Nat) : (ladder n).succs q none = [] := by
  unfold succs ladder
  simp only
  rw [List.filterMap_flatMap]
  simp

theorem ladder_outs (n q : Nat) :
    (ladder n).outs q = if q < n then [q + 1, q + 1] else [] := by
  unfold outs
  rw [ladder_succs_none]
  show (([0, 1] : List Nat).flatMap fun a => (ladder n).succs q (some a)) ++ [] = _
  simp only [List.flatMap_cons, List.flatMap_nil, List.append_nil]
  rw [ladder_succs n q 0 (Or.inl rfl), ladder_succs n q 1 (Or.inr rfl)]
  split <;> rfl

/-- below a stack entry `(i, vis)` the loop makes exactly `2 ^ (n - i + 1) - 1` rounds -/
theorem ladder_run (n : Nat) :
    ∀ k i, i + k = n → ∀ vis rest fuel, (∀ v ∈ vis, v < i) →
      (ladder n).acyclicLoop (fuel + (2 ^ (k + 1) - 1)) ((i, vis) :: rest) =
        (ladder n).acyclicLoop fuel rest := by
  intro k
  induction k with
  | zero =>
    intro i hi vis rest fuel hv
    have hiv : i ∉ vis := fun h => Nat.lt_irrefl _ (hv i h)
    have : ¬ i < n := by omega
    show (ladder n).acyclicLoop (fuel + 1) _ = _
    simp only [acyclicLoop, hiv, if_false, ladder_outs, this]
    rfl
  | succ k ih =>
    intro i hi vis rest fuel hv
    have hiv : i ∉ vis := fun h => Nat.lt_irrefl _ (hv i h)
    have hin : i < n := by omega
    have hp : 1 ≤ 2 ^ (k + 1) := Nat.one_le_two_pow
    have e : fuel + (2 ^ (k + 1 + 1) - 1) =
        ((fuel + (2 ^ (k + 1) - 1)) + (2 ^ (k + 1) - 1)) + 1 := by
      rw [Nat.pow_succ]; omega
    rw [e]
    simp only [acyclicLoop, hiv, if_false, ladder_outs, hin, if_true]
    have hv' : ∀ v ∈ i :: vis, v < i + 1 := by
      intro v hv'
      rcases List.mem_cons.mp hv' with rfl | hv'
      · omega
      · have := hv v hv'; omega
    show (ladder n).acyclicLoop _ ((i + 1, i :: vis) :: (i + 1, i :: vis) :: rest) = _
    rw [ih (i + 1) (by omega) (i :: vis) _ _ hv', ih (i + 1) (by omega) (i :: vis) _ _ hv']

/-- with fewer rounds the loop runs out of fuel -/
theorem ladder_short (n : Nat) :
    ∀ k i, i + k = n → ∀ vis rest fuel, (∀ v ∈ vis, v < i) → fuel < 2 ^ (k + 1) - 1 →
      (ladder n).acyclicLoop fuel ((i, vis) :: rest) = none := by
  intro k
  induction k with
  | zero =>
    intro i hi vis rest fuel hv hf
    have : fuel = 0 := by simp at hf; omega
    subst this; rfl
  | succ k ih =>
    intro i hi vis rest fuel hv hf
    cases fuel with
    | zero => rfl
    | succ f =>
      have hiv : i ∉ vis := fun h => Nat.lt_irrefl _ (hv i h)
      have hin : i < n := by omega
      have hp : 1 ≤ 2 ^ (k + 1) := Nat.one_le_two_pow
      rw [Nat.pow_succ] at hf
      simp only [acyclicLoop, hiv, if_false, ladder_outs, hin, if_true]
      have hv' : ∀ v ∈ i :: vis, v < i + 1 := by
        intro v hv'
        rcases List.mem_cons.mp hv' with rfl | hv'
        · omega
        · have := hv v hv'; omega
      show (ladder n).acyclicLoop f ((i + 1, i :: vis) :: (i + 1, i :: vis) :: rest) = none
      by_cases hlt : f < 2 ^ (k + 1) - 1
      · exact ih (i + 1) (by omega) _ _ _ hv' hlt
      · obtain ⟨g, rfl⟩ : ∃ g, f = g + (2 ^ (k + 1) - 1) := ⟨f - (2 ^ (k + 1) - 1), by omega⟩
        rw [ladder_run n k (i + 1) (by omega) _ _ _ hv']
        exact ih (i + 1) (by omega) _ _ _ hv' (by omega)

/-- `is_acyclic` on the ladder: exactly `2 ^ (n+1) - 1` rounds -/
theorem ladder_isAcyclic (n : Nat) :
    (ladder n).isAcyclic (2 ^ (n + 1) - 1) = some true ∧
    ∀ fuel, fuel < 2 ^ (n + 1) - 1 → (ladder n).isAcyclic fuel = none := by
  constructor
  · have := ladder_run n n 0 (by omega) [] [] 0 (by simp)
    simp only [Nat.zero_add] at this
    show (ladder n).acyclicLoop _ [(0, [])] = _
    rw [this]; rfl
  · intro fuel hf
    exact ladder_short n n 0 (by omega) [] [] fuel (by simp) hf

theorem ladder_delta_length (n : Nat) : (ladder n).delta.length = 2 * n := by
  simp only [ladder]
  rw [length_flatMap_const _ _ 2 (fun _ _ => rfl), List.length_range]
  omega

/-! ### exponential beats polynomial -/

theorem sq_lt_two_pow (s : Nat) (h : 5 ≤ s) : s * s < 2 ^ s := by
  induction s, h using Nat.le_induction with
  | base => decide
  | succ s hs ih =>
    have h3 : 3 * s ≤ s * s := Nat.mul_le_mul_right s (by omega)
    have e : (s + 1) * (s + 1) = s * s + 2 * s + 1 := by ring
    rw [Nat.pow_succ, e]
    omega

theorem poly_lt_aux (c k m T : Nat) (hm : 1 ≤ m) (h : ((c + 1) * m) ^ (k + 1) < T) :
    c * m ^ k < T - 1 := by
  have hX : 1 ≤ m ^ k := Nat.one_le_pow _ _ hm
  have h1 : c * m ^ k + 1 ≤ (c + 1) * m ^ k := by
    rw [Nat.add_mul, Nat.one_mul]; omega
  have h2 : (c + 1) * m ^ k ≤ ((c + 1) * m) ^ (k + 1) := by
    rw [Nat.mul_pow]
    apply Nat.mul_le_mul
    · calc c + 1 = (c + 1) ^ 1 := (Nat.pow_one _).symm
        _ ≤ (c + 1) ^ (k + 1) := Nat.pow_le_pow_right (by omega) (by omega)
    · exact Nat.pow_le_pow_right hm (by omega)
  omega

/-- for every polynomial `c * x ^ k` there is a ladder on which `2 ^ |Q| - 1` exceeds its value at
`x = |Q| + |Σ| + |δ| = 3 * (n + 1)` -/
theorem exists_ladder_beats (c k : Nat) : ∃ n, c * (3 * (n + 1)) ^ k < 2 ^ (n + 1) - 1 := by
  obtain ⟨s, hs5, hsc⟩ : ∃ s, 5 ≤ s ∧ 3 * (k + 1) * (c + 1) ≤ s :=
    ⟨3 * (k + 1) * (c + 1) + 5, by omega, by omega⟩
  have hsq := sq_lt_two_pow s hs5
  have ht : 1 ≤ (k + 1) * s := Nat.mul_pos (by omega) (by omega)
  refine ⟨(k + 1) * s - 1, ?_⟩
  have e1 : (k + 1) * s - 1 + 1 = (k + 1) * s := by omega
  rw [e1]
  have hbase : (c + 1) * (3 * ((k + 1) * s)) < 2 ^ s := by
    have : (c + 1) * (3 * ((k + 1) * s)) = (3 * (k + 1) * (c + 1)) * s := by ring
    rw [this]
    exact Nat.lt_of_le_of_lt (Nat.mul_le_mul_right s hsc) hsq
  have hpow : ((c + 1) * (3 * ((k + 1) * s))) ^ (k + 1) < (2 ^ s) ^ (k + 1) :=
    Nat.pow_lt_pow_left hbase (by omega)
  rw [← Nat.pow_mul, Nat.mul_comm s (k + 1)] at hpow
  exact poly_lt_aux c k _ _ (by omega) hpow

/-- no bound polynomial in `|Q| + |Σ| + |δ|` is enough for `is_acyclic` -/
theorem isAcyclic_no_polynomial_bound (c k : Nat) :
    ∃ n, (ladder n).isAcyclic
      (c * ((ladder n).states.length + (ladder n).syms.length + (ladder n).delta.length) ^ k) = none := by
  obtain ⟨n, hn⟩ := exists_ladder_beats c k
  refine ⟨n, (ladder_isAcyclic n).2 _ ?_⟩
  have e : (ladder n).states.length + (ladder n).syms.length + (ladder n).delta.length
      = 3 * (n + 1) := by
    have := ladder_delta_length n
    simp only [ladder, List.length_range, List.length_cons, List.length_nil] at this ⊢
    omega
  rw [e]; exact hn

end Pfl.Term2
