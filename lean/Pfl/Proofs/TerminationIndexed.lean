/-
Termination of the library's marking loop (`Pfl/Model/IndexedMark.lean`), part 2: every call keeps
the table well formed (duplicate-free lists of canonical sets), only adds sets, and reports
`was_modified = True` only when the entry of its left term gained a set.  Hence a pass that reports
a modification strictly increases the number of marked sets, which is at most `|N| * 2 ^ |N|`.
-/
import Pfl.Proofs.TerminationIndexedCanon

namespace Pfl.Term
open Pfl Pfl.IG Pfl.IG.Lib Pfl.IG.LibP Pfl.IG.Lem

/-- the entry of `a` holds a set that it did not hold in `T0` -/
def W (T0 : Table) (a : String) (T : Table) : Prop := ∃ E, E ∈ get T a ∧ E ∉ get T0 a

theorem W.mono {T0 T T' : Table} {a : String} (h : W T0 a T) (hs : Sub T T') : W T0 a T' := by
  obtain ⟨E, h1, h2⟩ := h
  exact ⟨E, hs a E h1, h2⟩

variable {N : List String}

/-! ### `_duplication_processing` -/

structure DupInvT (N : List String) (T0 : Table) (a b c : String) (st : DupSt) : Prop where
  sub : Sub T0 st.T
  wf : WFT N st.T
  c0 : ∀ E ∈ st.d0, Canon N E
  c1 : ∀ E ∈ st.d1, Canon N E
  prog : st.mod = true →
    W T0 a st.T ∨ (a = b ∧ ∃ E ∈ st.d0, E ∉ get T0 a) ∨ (a = c ∧ ∃ E ∈ st.d1, E ∉ get T0 a)

theorem dupInner_invT {T0 : Table} {start a b c : String} {E0 E1 : SetS} {st : DupSt}
    (h0 : Canon N E0) (h1 : Canon N E1) (hst : DupInvT N T0 a b c st) :
    DupInvT N T0 a b c (dupInner start a b c E0 st E1) := by
  have hc := canon_dupTemp h0 h1
  unfold dupInner
  simp only []
  split
  · exact hst
  · rename_i hm
    have hnew : dupTemp E0 E1 ∉ get T0 a := fun h => hm (hst.sub _ _ h)
    split
    · rename_i hab
      refine ⟨hst.sub, hst.wf, ?_, hst.c1, fun _ => Or.inr (Or.inl ⟨hab, _, ?_, hnew⟩)⟩
      · intro E hE
        rcases List.mem_append.mp hE with hE | hE
        · exact hst.c0 E hE
        · simp only [List.mem_singleton] at hE; subst hE; exact hc
      · exact List.mem_append_right _ List.mem_cons_self
    · split
      · rename_i hac
        refine ⟨hst.sub, hst.wf, hst.c0, ?_, fun _ => Or.inr (Or.inr ⟨hac, _, ?_, hnew⟩)⟩
        · intro E hE
          rcases List.mem_append.mp hE with hE | hE
          · exact hst.c1 E hE
          · simp only [List.mem_singleton] at hE; subst hE; exact hc
        · exact List.mem_append_right _ List.mem_cons_self
      · refine ⟨hst.sub.trans (sub_add _ _ _), wft_add hst.wf a hc, hst.c0, hst.c1,
          fun _ => Or.inl ⟨_, mem_get_add.mpr (Or.inr ⟨rfl, rfl⟩), hnew⟩⟩

theorem dupOuter_invT {ord : List SetS → List SetS} (hord : OrdOK ord) {T0 : Table}
    {start a b c : String} {E0 : SetS} {st : DupSt} (h0 : Canon N E0)
    (hst : DupInvT N T0 a b c st) (hd1 : st.d1 = []) :
    DupInvT N T0 a b c (dupOuter ord start a b c st E0) ∧
      (dupOuter ord start a b c st E0).d1 = [] := by
  unfold dupOuter
  simp only []
  have e : ({ st with d1 := [] } : DupSt) = st := by
    cases st; simp only [DupSt.mk.injEq, true_and] at hd1 ⊢; simp [hd1]
  rw [e]
  have h1 : DupInvT N T0 a b c ((ord (get st.T c)).foldl (dupInner start a b c E0) st) := by
    refine foldl_inv (DupInvT N T0 a b c) _ _ ?_ _ hst
    intro S E1 hE1 hS
    exact dupInner_invT h0 (hst.wf.canon _ _ ((hord _ _).mp hE1)) hS
  refine ⟨⟨h1.sub.trans (sub_addAll _ _ _), wft_addAll c _ h1.wf h1.c1, h1.c0,
    (fun _ h => by cases h), ?_⟩, trivial⟩
  intro hm
  rcases h1.prog hm with w | ⟨hab, E, hE, hn⟩ | ⟨hac, E, hE, hn⟩
  · exact Or.inl (w.mono (sub_addAll _ _ _))
  · exact Or.inr (Or.inl ⟨hab, E, hE, hn⟩)
  · exact Or.inl ⟨E, (mem_get_addAll _).mpr (Or.inr ⟨hac, hE⟩), hn⟩

theorem dupProcess_prog {ord : List SetS → List SetS} (hord : OrdOK ord) (start a b c : String)
    (T : Table) (hT : WFT N T) :
    Sub T (dupProcess ord start a b c T).1 ∧ WFT N (dupProcess ord start a b c T).1 ∧
      ((dupProcess ord start a b c T).2.1 = true → W T a (dupProcess ord start a b c T).1) := by
  unfold dupProcess
  simp only []
  have hinit : DupInvT N T a b c ⟨T, [], [], false, false⟩ ∧
      (⟨T, [], [], false, false⟩ : DupSt).d1 = [] :=
    ⟨⟨Sub.refl T, hT, (fun _ h => by cases h), (fun _ h => by cases h), (fun h => by cases h)⟩, rfl⟩
  obtain ⟨h1, hd1⟩ := foldl_inv (fun st : DupSt => DupInvT N T a b c st ∧ st.d1 = [])
    (dupOuter ord start a b c) (ord (get T b))
    (fun S E0 hE0 hS => dupOuter_invT hord (hT.canon _ _ ((hord _ _).mp hE0)) hS.1 hS.2)
    _ hinit
  refine ⟨h1.sub.trans (sub_addAll _ _ _), wft_addAll b _ h1.wf h1.c0, ?_⟩
  intro hm
  rcases h1.prog hm with w | ⟨hab, E, hE, hn⟩ | ⟨_, E, hE, _⟩
  · exact w.mono (sub_addAll _ _ _)
  · exact ⟨E, (mem_get_addAll _).mpr (Or.inr ⟨hab, hE⟩), hn⟩
  · rw [hd1] at hE; cases hE

/-! ### `addrec_ter`, `addrec_bis` -/

theorem leavesOf_canon (chs : List (List SetS))
    (h : ∀ ch ∈ chs, ∀ m ∈ ch, ∀ x ∈ m, x ∈ N) : ∀ t ∈ leavesOf chs, Canon N t := by
  unfold leavesOf
  refine foldl_inv (fun acc : List SetS => ∀ t ∈ acc, Canon N t) leafStep chs ?_ _ ?_
  · intro acc ch hch hacc t ht
    obtain ⟨t0, ht0, m, hm, rfl⟩ := mem_leafStep.mp ht
    exact canon_unionS (hacc t0 ht0).2 (h ch hch m hm)
  · intro t ht
    simp only [List.mem_singleton] at ht
    subst ht
    exact canon_nil N

theorem leaves_canon {T : Table} (hT : WFT N T) (lt : List (String × String)) :
    ∀ t ∈ leavesOf (choicesOf T lt), Canon N t := by
  apply leavesOf_canon
  intro ch hch m hm
  obtain ⟨s, _, rfl⟩ := mem_choicesOf.mp hch
  obtain ⟨d, _, hmd⟩ := mem_choice.mp hm
  exact (hT.canon d m hmd).2

theorem terFold_prog {T0 : Table} {a : String} (leaves : List SetS)
    (hl : ∀ t ∈ leaves, Canon N t) (T : Table) (res : Bool) (hs : Sub T0 T) (hw : WFT N T)
    (hp : res = true → W T0 a T) :
    Sub T0 (leaves.foldl (fun (st : Table × Bool) t =>
        if t ∈ get st.1 a then st else (add st.1 a t, true)) (T, res)).1 ∧
    WFT N (leaves.foldl (fun (st : Table × Bool) t =>
        if t ∈ get st.1 a then st else (add st.1 a t, true)) (T, res)).1 ∧
    ((leaves.foldl (fun (st : Table × Bool) t =>
        if t ∈ get st.1 a then st else (add st.1 a t, true)) (T, res)).2 = true →
      W T0 a (leaves.foldl (fun (st : Table × Bool) t =>
        if t ∈ get st.1 a then st else (add st.1 a t, true)) (T, res)).1) := by
  refine foldl_inv (fun (st : Table × Bool) => Sub T0 st.1 ∧ WFT N st.1 ∧
    (st.2 = true → W T0 a st.1)) _ _ ?_ _ ⟨hs, hw, hp⟩
  intro S t ht ⟨hS1, hS2, hS3⟩
  split
  · exact ⟨hS1, hS2, hS3⟩
  · rename_i hm
    exact ⟨hS1.trans (sub_add _ _ _), wft_add hS2 a (hl t ht),
      fun _ => ⟨t, mem_get_add.mpr (Or.inr ⟨rfl, rfl⟩), fun h => hm (hS1 _ _ h)⟩⟩

/-- invariant of the loops of `_production_process`: `(table, was_modified, …)` -/
def PInv (N : List String) (T0 : Table) (a : String) (T : Table) (mod : Bool) : Prop :=
  Sub T0 T ∧ WFT N T ∧ (mod = true → W T0 a T)

theorem addrecBisStep_prog {T0 : Table} {a : String} (lsets : List (String × String))
    (st : Table × Bool) (E : SetS) (h : PInv N T0 a st.1 st.2) :
    PInv N T0 a (addrecBisStep lsets a st E).1 (addrecBisStep lsets a st E).2 := by
  obtain ⟨hs, hw, hp⟩ := h
  unfold addrecBisStep
  simp only []
  split
  · unfold addrecTer
    have hl := leaves_canon hw (lsets.filter fun x => decide (x.1 ∈ E))
    obtain ⟨g1, g2, g3⟩ := terFold_prog (T0 := T0) (a := a) _ hl st.1 false hs hw
      (fun h => by cases h)
    obtain ⟨k1, _, _⟩ := terFold_prog (T0 := st.1) (a := a) _ hl st.1 false (Sub.refl _) hw
      (fun h => by cases h)
    refine ⟨g1, g2, ?_⟩
    intro hm
    simp only [Bool.or_eq_true] at hm
    rcases hm with hm | hm
    · exact (hp hm).mono k1
    · exact g3 hm
  · exact ⟨hs, hw, hp⟩

theorem addrecBis_prog {ord : List SetS → List SetS} (T : Table) (hT : WFT N T)
    (lsets : List (String × String)) (a b : String) :
    PInv N T a (addrecBis ord T lsets a b).1 (addrecBis ord T lsets a b).2 := by
  unfold addrecBis
  refine foldl_inv (fun (st : Table × Bool) => PInv N T a st.1 st.2) _ _ ?_ _
    ⟨Sub.refl T, hT, fun h => by cases h⟩
  intro S E _ hS
  exact addrecBisStep_prog lsets S E hS

/-! ### the 'is it useful' branch and the edge case -/

theorem usefulInner_prog {T0 : Table} {start a : String} {sub : SetS} {st : Table × Bool × Bool}
    (hc : Canon N sub) (hn : sub ∉ get T0 a) (hst : PInv N T0 a st.1 st.2.1) :
    PInv N T0 a (usefulInner start a st sub).1 (usefulInner start a st sub).2.1 := by
  unfold usefulInner
  split
  · exact hst
  · exact ⟨hst.1.trans (sub_add _ _ _), wft_add hst.2.1 a hc,
      fun _ => ⟨sub, mem_get_add.mpr (Or.inr ⟨rfl, rfl⟩), hn⟩⟩

theorem usefulOuter_prog {ord : List SetS → List SetS} (hord : OrdOK ord) {T0 : Table}
    {start a : String} {x : String × String} {st : Table × Bool × Bool}
    (hst : PInv N T0 a st.1 st.2.1) :
    PInv N T0 a (usefulOuter ord start a st x).1 (usefulOuter ord start a st x).2.1 := by
  unfold usefulOuter
  split
  · exact hst
  · refine foldl_inv (fun (s : Table × Bool × Bool) => PInv N T0 a s.1 s.2.1) _ _ ?_ _ hst
    intro S sub hsub hS
    obtain ⟨h1, h2⟩ := List.mem_filter.mp hsub
    have hm := (hord _ _).mp h1
    have hn : sub ∉ get st.1 a := by simpa using h2
    exact usefulInner_prog (hst.2.1.canon _ _ hm) (fun h => hn (hst.1 _ _ h)) hS

theorem usefulPart_prog {ord : List SetS → List SetS} (hord : OrdOK ord) (G : IG) {T0 : Table}
    {a b f : String} {r1 : Table × Bool} (h1 : PInv N T0 a r1.1 r1.2) :
    PInv N T0 a (usefulPart ord G a b f r1).1 (usefulPart ord G a b f r1).2.1 := by
  unfold usefulPart
  split
  · refine foldl_inv (fun (s : Table × Bool × Bool) => PInv N T0 a s.1 s.2.1) _ _ ?_ _ h1
    intro S x _ hS
    exact usefulOuter_prog hord hS
  · exact h1

theorem edgePart_prog {T0 : Table} {a b : String} {r2 : Table × Bool × Bool}
    (h2 : PInv N T0 a r2.1 r2.2.1) :
    PInv N T0 a (edgePart a b r2).1 (edgePart a b r2).2.1 := by
  unfold edgePart
  split
  · exact h2
  · split
    · rename_i hedge
      exact ⟨h2.1.trans (sub_add _ _ _), wft_add h2.2.1 a (canon_nil N),
        fun _ => ⟨[], mem_get_add.mpr (Or.inr ⟨rfl, rfl⟩), fun h => hedge.2 (h2.1 _ _ h)⟩⟩
    · exact h2

theorem prodProcess_prog {ord : List SetS → List SetS} (hord : OrdOK ord) (G : IG)
    (a b f : String) (T : Table) (hT : WFT N T) :
    PInv N T a (prodProcess ord G a b f T).1 (prodProcess ord G a b f T).2.1 := by
  have h1 := addrecBis_prog (ord := ord) T hT (consRules G f) a b
  rw [prodProcess_eq]
  split
  · exact h1
  · exact edgePart_prog (usefulPart_prog hord G h1)

/-! ### one rule, one pass -/

theorem ruleProcess_prog {ord : List SetS → List SetS} (hord : OrdOK ord) (G : IG) {r : IRule}
    (hr : r ∈ G.rules) (T : Table) (hT : WFT G.nonTerminals T) :
    Sub T (ruleProcess ord G r T).1 ∧ WFT G.nonTerminals (ruleProcess ord G r T).1 ∧
      ((ruleProcess ord G r T).2.1 = true → Grew G.nonTerminals T (ruleProcess ord G r T).1) := by
  cases r with
  | dup a b c =>
    obtain ⟨h1, h2, h3⟩ := dupProcess_prog hord G.start a b c T hT
    refine ⟨h1, h2, fun hm => ?_⟩
    obtain ⟨E, hE, hn⟩ := h3 hm
    exact ⟨a, mem_nonTerminals_of_rule hr (by simp), E, hE, hn⟩
  | prod a b f =>
    obtain ⟨h1, h2, h3⟩ := prodProcess_prog hord G a b f T hT
    refine ⟨h1, h2, fun hm => ?_⟩
    obtain ⟨E, hE, hn⟩ := h3 hm
    exact ⟨a, mem_nonTerminals_of_rule hr (by simp), E, hE, hn⟩
  | end_ a t => exact ⟨Sub.refl T, hT, fun h => by cases h⟩
  | cons f a b => exact ⟨Sub.refl T, hT, fun h => by cases h⟩

theorem pass_prog {ord : List SetS → List SetS} (hord : OrdOK ord) (G : IG) (rs : List IRule)
    (hrs : ∀ r ∈ rs, r ∈ G.rules) : ∀ (T : Table) (mod : Bool), WFT G.nonTerminals T →
    Sub T (pass ord G rs T mod).1 ∧ WFT G.nonTerminals (pass ord G rs T mod).1 ∧
      ((pass ord G rs T mod).2.1 = true →
        mod = true ∨ Grew G.nonTerminals T (pass ord G rs T mod).1) := by
  induction rs with
  | nil => intro T mod hT; exact ⟨Sub.refl T, hT, fun h => Or.inl h⟩
  | cons r rs ih =>
    intro T mod hT
    obtain ⟨h1, h2, h3⟩ := ruleProcess_prog hord G (hrs r List.mem_cons_self) T hT
    unfold pass
    simp only []
    split
    · refine ⟨h1, h2, fun hm => ?_⟩
      simp only [Bool.or_eq_true] at hm
      rcases hm with hm | hm
      · exact Or.inl hm
      · exact Or.inr (h3 hm)
    · obtain ⟨h4, h5, h6⟩ := ih (fun r hr => hrs r (List.mem_cons_of_mem _ hr))
        (ruleProcess ord G r T).1 (mod || (ruleProcess ord G r T).2.1) h2
      refine ⟨h1.trans h4, h5, fun hm => ?_⟩
      rcases h6 hm with hm' | hg
      · simp only [Bool.or_eq_true] at hm'
        rcases hm' with hm' | hm'
        · exact Or.inl hm'
        · exact Or.inr ((h3 hm').mono_right h4)
      · exact Or.inr (hg.mono_left h1)

/-! ### the `while was_modified` loop -/

theorem loop_isSome {ord : List SetS → List SetS} (hord : OrdOK ord) (G : IG) :
    ∀ (fuel : Nat) (T : Table), WFT G.nonTerminals T →
      G.nonTerminals.length * 2 ^ G.nonTerminals.length < fuel + total G.nonTerminals T →
      (loop ord G fuel T).isSome := by
  intro fuel
  induction fuel with
  | zero =>
    intro T hT hf
    have := total_le hT
    omega
  | succ n ih =>
    intro T hT hf
    obtain ⟨h1, h2, h3⟩ := pass_prog hord G (libRules G)
      (fun r hr => (mem_libRules.mp hr).1) T false hT
    unfold loop
    simp only []
    split
    · rfl
    · split
      · rename_i hm
        apply ih _ h2
        rcases h3 hm with h | h
        · cases h
        · have := total_lt hT h1 h
          omega
      · rfl

end Pfl.Term
