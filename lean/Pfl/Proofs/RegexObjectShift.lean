/- Proofs for Pfl/Props/C19_Regex.lean (regex object model), part B. -/
import Pfl.Spec.RegexObject
import Pfl.Props.C05_Regex
import Pfl.Props.C03_Rev
namespace Pfl
namespace RxObj
namespace PS
open Pfl.Rx

theorem eraseDups_map_inj {α β : Type} [BEq α] [LawfulBEq α] [BEq β] [LawfulBEq β] (f : α → β)
    (hf : Function.Injective f) (l : List α) :
    (l.map f).eraseDups = l.eraseDups.map f := by
  generalize hn : l.length = n
  induction n using Nat.strongRecOn generalizing l with
  | _ n ih =>
    cases l with
    | nil => simp
    | cons a as =>
      rw [List.map_cons, List.eraseDups_cons, List.eraseDups_cons, List.map_cons, List.filter_map]
      congr 1
      have hlen := List.length_filter_le (fun b => !b == a) as
      simp at hn
      have := ih _ (by omega) (as.filter (fun b => !b == a)) rfl
      rw [← this]
      congr 2
      apply List.filter_congr
      intro x _
      rw [Bool.eq_iff_iff]
      simp [hf.eq_iff]

theorem nodup_eraseDups' {α : Type} [BEq α] [LawfulBEq α] (l : List α) : l.eraseDups.Nodup := by
  generalize hn : l.length = n
  induction n using Nat.strongRecOn generalizing l with
  | _ n ih =>
    cases l with
    | nil => simp
    | cons a as =>
      rw [List.eraseDups_cons, List.nodup_cons]
      refine ⟨?_, ?_⟩
      · simp [List.mem_eraseDups, List.mem_filter]
      · refine ih _ ?_ _ rfl
        have := List.length_filter_le (fun b => !b == a) as
        simp at hn; omega

theorem eraseDups_of_nodup {α : Type} [BEq α] [LawfulBEq α] (l : List α) (h : l.Nodup) :
    l.eraseDups = l := by
  induction l with
  | nil => simp
  | cons a as ih =>
    rw [List.nodup_cons] at h
    rw [List.eraseDups_cons]
    have : as.filter (fun b => !b == a) = as := by
      rw [List.filter_eq_self]
      intro x hx
      have : x ≠ a := fun e => h.1 (e ▸ hx)
      simp [this]
    rw [this, ih h.2]

theorem eraseDups_idem {α : Type} [BEq α] [LawfulBEq α] (l : List α) :
    l.eraseDups.eraseDups = l.eraseDups :=
  eraseDups_of_nodup _ (nodup_eraseDups' l)

theorem eraseDups_map_eraseDups {α β : Type} [BEq α] [LawfulBEq α] [BEq β] [LawfulBEq β] (f : α → β)
    (hf : Function.Injective f) (l : List α) :
    (l.eraseDups.map f).eraseDups = (l.map f).eraseDups := by
  rw [eraseDups_map_inj f hf, eraseDups_idem, eraseDups_map_inj f hf]

/-- the edges built from counter `c + k` (between `f + k` and `t + k`) are those built from `c`
(between `f` and `t`) with every state shifted by `k` -/
theorem thompsonAux_shift (code : String → Nat) (r : Rx) (f t c k : Nat) :
    thompsonAux code r (f + k) (t + k) (c + k) =
      ((thompsonAux code r f t c).1.map (fun e => (e.1 + k, e.2.1, e.2.2 + k)),
       (thompsonAux code r f t c).2 + k) := by
  induction r generalizing f t c with
  | empty => simp [thompsonAux]
  | eps => simp [thompsonAux]
  | sym s => simp [thompsonAux]
  | cat a b iha ihb =>
    simp only [thompsonAux]
    have e2 : c + k + 2 = (c + 2) + k := by omega
    have e1 : c + k + 1 = (c + 1) + k := by omega
    rw [e2, e1, iha]
    rcases ha : thompsonAux code a f c (c + 2) with ⟨ea, c1⟩
    simp only
    rw [ihb]
    rcases hb : thompsonAux code b (c + 1) t c1 with ⟨eb, c2⟩
    simp
  | alt a b iha ihb =>
    simp only [thompsonAux]
    have e2 : c + k + 2 = (c + 2) + k := by omega
    have e1 : c + k + 1 = (c + 1) + k := by omega
    rw [e2, e1, iha]
    rcases ha : thompsonAux code a c (c + 1) (c + 2) with ⟨ea, c1⟩
    simp only
    have e2' : c1 + k + 2 = (c1 + 2) + k := by omega
    have e1' : c1 + k + 1 = (c1 + 1) + k := by omega
    rw [e2', e1', ihb]
    rcases hb : thompsonAux code b c1 (c1 + 1) (c1 + 2) with ⟨eb, c2⟩
    simp
  | star a iha =>
    simp only [thompsonAux]
    have e2 : c + k + 2 = (c + 2) + k := by omega
    have e1 : c + k + 1 = (c + 1) + k := by omega
    rw [e2, e1, iha]
    rcases ha : thompsonAux code a c (c + 1) (c + 2) with ⟨ea, c1⟩
    simp

theorem ofParts_shift (k : Nat) (ss fs : List Nat) (es : List (Nat × Option Nat × Nat)) :
    ENFA.ofParts (ss.map (· + k)) (fs.map (· + k)) (es.map (fun e => (e.1 + k, e.2.1, e.2.2 + k)))
      = (ENFA.ofParts ss fs es).mapStates (· + k) := by
  have hinj : Function.Injective (· + k : Nat → Nat) := fun a b h => by simpa using h
  have hinj3 : Function.Injective (fun e : Nat × Option Nat × Nat => (e.1 + k, e.2.1, e.2.2 + k)) := by
    rintro ⟨a, b, c⟩ ⟨a', b', c'⟩ h
    simpa using h
  simp only [ENFA.ofParts, ENFA.mapStates]
  congr 1
  · rw [eraseDups_map_eraseDups _ hinj]
    congr 1
    simp [List.map_append, List.map_flatMap, List.flatMap_map]
  · congr 1
    simp [List.filterMap_map]
    rfl
  · exact (eraseDups_map_eraseDups _ hinj _).symm
  · exact (eraseDups_map_eraseDups _ hinj _).symm
  · exact (eraseDups_map_eraseDups _ hinj3 _).symm

/-- (3) the automaton an object hands out after any history is the automaton a fresh object hands
out (counter `0`) with every state shifted by the current counter -/
theorem thompson_shift (code : String → Nat) (r : Rx) (c : Nat) :
    (r.thompson code c).1 = ((r.thompson code 0).1).mapStates (· + c) ∧
    (r.thompson code c).2 = (r.thompson code 0).2 + c := by
  have h := thompsonAux_shift code r 0 1 2 c
  have e1 : 1 + c = c + 1 := by omega
  have e2 : 2 + c = c + 2 := by omega
  rw [Nat.zero_add, e1, e2] at h
  simp only [thompson, Nat.zero_add]
  rw [h]
  rcases h0 : thompsonAux code r 0 1 2 with ⟨es, c'⟩
  refine ⟨?_, rfl⟩
  have := ofParts_shift c [0] [1] es
  simpa [e1] using this

end PS
end RxObj
end Pfl
