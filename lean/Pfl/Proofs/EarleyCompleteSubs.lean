/-
Subsumption (`subsumes`, sharing-aware) implies inclusion of the ground instances: every valuation
under which the subsumed structure reads some values induces a valuation under which the
subsuming structure reads the same values on all of its paths.
-/
import Pfl.Proofs.EarleyCompleteStore
namespace Pfl
namespace Earley
namespace Cmp
open FsDag FsDag.Lem Lem

/-- the step of the fold over the features in `subsumesF` -/
def subStep (f : Nat) (st : Store) (cb : Nat) (acc : Bool × List (Nat × Nat)) (fc : String × Nat) :
    Bool × List (Nat × Nat) :=
  if !acc.1 then acc else
    match lookupC fc.1 (get st cb).content with
    | none => (false, acc.2)
    | some y => subsumesF f st acc.2 fc.2 y

theorem subsumesF_zero (st : Store) (seen : List (Nat × Nat)) (a b : Nat) :
    subsumesF 0 st seen a b = (false, seen) := rfl

theorem subsumesF_succ (f : Nat) (st : Store) (seen : List (Nat × Nat)) (a b : Nat) :
    subsumesF (f + 1) st seen a b =
      match seen.find? (·.1 = deref st a) with
      | some e => (decide (e.2 = deref st b), seen)
      | none =>
        if (get st (deref st a)).value ≠ (get st (deref st b)).value then
          (false, seen ++ [(deref st a, deref st b)])
        else (get st (deref st a)).content.foldl (subStep f st (deref st b))
          (true, seen ++ [(deref st a, deref st b)]) := by
  rw [subsumesF]; rfl

theorem foldl_subStep_false (f : Nat) (st : Store) (cb : Nat) (S : List (Nat × Nat)) :
    ∀ cs : List (String × Nat), cs.foldl (subStep f st cb) (false, S) = (false, S) := by
  intro cs
  induction cs with
  | nil => rfl
  | cons fc cs ih => rw [List.foldl_cons]; exact ih

def Uniq (S : List (Nat × Nat)) : Prop := (S.map Prod.fst).Nodup

/-- the pair is a correct step of a homomorphism recorded in `S` -/
def Good (st : Store) (S : List (Nat × Nat)) (e : Nat × Nat) : Prop :=
  val st e.1 = val st e.2 ∧ ptr st e.2 = none ∧
    ∀ g x, (g, x) ∈ cont st e.1 → ∃ y, lookupC g (cont st e.2) = some y ∧
      (deref st x, deref st y) ∈ S

theorem Good.mono {st : Store} {S S' : List (Nat × Nat)} {e : Nat × Nat} (h : Good st S e)
    (hsub : ∀ x ∈ S, x ∈ S') : Good st S' e :=
  ⟨h.1, h.2.1, fun g x hx => by
    obtain ⟨y, hy, hm⟩ := h.2.2 g x hx
    exact ⟨y, hy, hsub _ hm⟩⟩

/-- postcondition of a successful `subsumesF` / fold -/
structure SPost (st : Store) (S0 S' : List (Nat × Nat)) : Prop where
  uniq : Uniq S'
  ext : ∃ e, S' = S0 ++ e
  good : ∀ e ∈ S', e ∉ S0 → Good st S' e

theorem SPost.sub {st : Store} {S0 S' : List (Nat × Nat)} (h : SPost st S0 S') :
    ∀ x ∈ S0, x ∈ S' := by
  obtain ⟨e, he⟩ := h.ext
  intro x hx; rw [he]; exact List.mem_append_left _ hx

theorem SPost.trans {st : Store} {S0 S1 S2 : List (Nat × Nat)} (h1 : SPost st S0 S1)
    (h2 : SPost st S1 S2) : SPost st S0 S2 := by
  refine ⟨h2.uniq, ?_, ?_⟩
  · obtain ⟨e1, he1⟩ := h1.ext
    obtain ⟨e2, he2⟩ := h2.ext
    exact ⟨e1 ++ e2, by rw [he2, he1, List.append_assoc]⟩
  · intro e he hn
    by_cases h : e ∈ S1
    · exact (h1.good e h hn).mono h2.sub
    · exact h2.good e he h

theorem fold_spec {st : Store} (f : Nat) (cb : Nat)
    (IH : ∀ seen a b seen', Uniq seen → subsumesF f st seen a b = (true, seen') →
      SPost st seen seen' ∧ (deref st a, deref st b) ∈ seen') :
    ∀ (cs : List (String × Nat)) (S0 S' : List (Nat × Nat)), Uniq S0 →
      cs.foldl (subStep f st cb) (true, S0) = (true, S') →
      SPost st S0 S' ∧ ∀ g x, (g, x) ∈ cs → ∃ y, lookupC g (cont st cb) = some y ∧
        (deref st x, deref st y) ∈ S' := by
  intro cs
  induction cs with
  | nil =>
    intro S0 S' hu h
    simp only [List.foldl_nil, Prod.mk.injEq, true_and] at h
    subst h
    exact ⟨⟨hu, ⟨[], by simp⟩, fun e he hn => absurd he hn⟩, fun g x hx => by simp at hx⟩
  | cons fc cs ih =>
    intro S0 S' hu h
    rw [List.foldl_cons] at h
    have hstep : subStep f st cb (true, S0) fc =
        match lookupC fc.1 (get st cb).content with
        | none => (false, S0)
        | some y => subsumesF f st S0 fc.2 y := by
      unfold subStep; simp
    rw [hstep] at h
    cases hl : lookupC fc.1 (get st cb).content with
    | none =>
      rw [hl] at h
      simp only at h
      rw [foldl_subStep_false] at h
      simp at h
    | some y =>
      rw [hl] at h
      simp only at h
      cases hr : subsumesF f st S0 fc.2 y with
      | mk b1 S1 =>
        rw [hr] at h
        cases b1 with
        | false => rw [foldl_subStep_false] at h; simp at h
        | true =>
          obtain ⟨p1, hm1⟩ := IH S0 fc.2 y S1 hu hr
          obtain ⟨p2, hc2⟩ := ih S1 S' p1.uniq h
          refine ⟨p1.trans p2, ?_⟩
          intro g x hx
          rcases List.mem_cons.1 hx with hx | hx
          · subst hx
            exact ⟨y, hl, p2.sub _ hm1⟩
          · exact hc2 g x hx

theorem subsumesF_spec {st : Store} (ha : Acyc st) : ∀ (f : Nat) (seen : List (Nat × Nat))
    (a b : Nat) (seen' : List (Nat × Nat)), Uniq seen → subsumesF f st seen a b = (true, seen') →
    SPost st seen seen' ∧ (deref st a, deref st b) ∈ seen' := by
  intro f
  induction f with
  | zero => intro seen a b seen' _ h; rw [subsumesF_zero] at h; simp at h
  | succ f IH =>
    intro seen a b seen' hu h
    rw [subsumesF_succ] at h
    cases hf : seen.find? (·.1 = deref st a) with
    | some e =>
      rw [hf] at h
      simp only [Prod.mk.injEq, decide_eq_true_eq] at h
      obtain ⟨h1, h2⟩ := h
      subst h2
      have hmem := List.mem_of_find?_eq_some hf
      have hkey := List.find?_some hf
      simp only [decide_eq_true_eq] at hkey
      refine ⟨⟨hu, ⟨[], by simp⟩, fun e he hn => absurd he hn⟩, ?_⟩
      rw [← hkey, ← h1]; exact hmem
    | none =>
      rw [hf] at h
      simp only at h
      split at h
      · simp at h
      · rename_i hv
        have hv' : val st (deref st a) = val st (deref st b) := by
          simpa using hv
        have hu1 : Uniq (seen ++ [(deref st a, deref st b)]) := by
          unfold Uniq
          rw [List.map_append, List.nodup_append]
          refine ⟨hu, by simp, ?_⟩
          intro x hx y hy
          simp only [List.map_cons, List.map_nil, List.mem_singleton] at hy
          subst hy
          rw [List.mem_map] at hx
          obtain ⟨e, he, rfl⟩ := hx
          intro heq
          rw [List.find?_eq_none] at hf
          have := hf e he
          simp [heq] at this
        obtain ⟨p, hc⟩ := fold_spec f (deref st b) IH _ _ seen' hu1 h
        have hin : (deref st a, deref st b) ∈ seen' :=
          p.sub _ (List.mem_append_right _ (List.mem_singleton.2 rfl))
        refine ⟨⟨p.uniq, ?_, ?_⟩, hin⟩
        · obtain ⟨e, he⟩ := p.ext
          exact ⟨[(deref st a, deref st b)] ++ e, by rw [he, List.append_assoc]⟩
        · intro e he hn
          by_cases h1 : e = (deref st a, deref st b)
          · subst h1
            exact ⟨hv', deref_ptr_none ha b, hc⟩
          · refine p.good e he ?_
            intro hmem
            rcases List.mem_append.1 hmem with hm | hm
            · exact hn hm
            · exact h1 (List.mem_singleton.1 hm)

theorem uniq_mem_eq {S : List (Nat × Nat)} (hu : Uniq S) {e e' : Nat × Nat} (he : e ∈ S)
    (he' : e' ∈ S) (hk : e.1 = e'.1) : e = e' := by
  unfold Uniq at hu
  induction S with
  | nil => simp at he
  | cons x S ih =>
    rw [List.map_cons, List.nodup_cons] at hu
    rcases List.mem_cons.1 he with h1 | h1 <;> rcases List.mem_cons.1 he' with h2 | h2
    · rw [h1, h2]
    · exfalso; apply hu.1; rw [List.mem_map]; exact ⟨e', h2, by rw [← hk, h1]⟩
    · exfalso; apply hu.1; rw [List.mem_map]; exact ⟨e, h1, by rw [hk, h2]⟩
    · exact ih hu.2 h1 h2

/-- paths of the subsuming structure exist in the subsumed one and end in related classes -/
theorem hom_path {st : Store} {S : List (Nat × Nat)} (hg : ∀ e ∈ S, Good st S e) :
    ∀ (p : List String) (a b n : Nat), (deref st a, deref st b) ∈ S → byPath st a p = some n →
      ∃ m, byPath st b p = some m ∧ (deref st n, deref st m) ∈ S := by
  intro p
  induction p with
  | nil =>
    intro a b n hab h
    simp only [byPath_nil, Option.some.injEq] at h; subst h
    exact ⟨b, rfl, hab⟩
  | cons g p ih =>
    intro a b n hab h
    rw [byPath_cons] at h
    cases hl : lookupC g (cont st (deref st a)) with
    | none => rw [hl] at h; simp at h
    | some x =>
      rw [hl] at h
      obtain ⟨y, hy, hxy⟩ := (hg _ hab).2.2 g x (lookupC_mem hl)
      obtain ⟨m, hm, hnm⟩ := ih x y n hxy h
      exact ⟨m, by rw [byPath_cons_of _ hy]; exact hm, hnm⟩

/-- `a` subsumes `b`: every valuation induces one under which `a` reads on each of its paths what
`b` reads there -/
theorem subsumes_cov {P : String → Prop} {st : Store} (ha : Acyc st) {a b : Nat}
    (h : subsumes st a b = true) {σ : Nat → String} (hσ : Resp P st σ) :
    ∃ σ', Resp P st σ' ∧ ∀ p n, byPath st a p = some n →
      ∃ m, byPath st b p = some m ∧ σ' (deref st n) = σ (deref st m) := by
  unfold subsumes at h
  cases hr : subsumesF (st.length + 1) st [] a b with
  | mk b1 S =>
    rw [hr] at h
    simp only at h
    subst h
    obtain ⟨p, hab⟩ := subsumesF_spec ha _ [] a b S (by simp [Uniq]) hr
    have hg : ∀ e ∈ S, Good st S e := fun e he => p.good e he (by simp)
    refine ⟨fun c => match S.find? (·.1 = c) with
      | some e => σ e.2
      | none => σ c, ⟨?_, ?_⟩, ?_⟩
    · intro c
      simp only
      split
      · exact hσ.1 _
      · exact hσ.1 _
    · intro c v hp hv hP
      simp only
      split
      · rename_i e hf
        have hmem := List.mem_of_find?_eq_some hf
        have hkey := List.find?_some hf
        simp only [decide_eq_true_eq] at hkey
        obtain ⟨g1, g2, _⟩ := hg e hmem
        exact hσ.2 e.2 v g2 (by rw [← g1, hkey]; exact hv) hP
      · exact hσ.2 c v hp hv hP
    · intro q n hn
      obtain ⟨m, hm, hnm⟩ := hom_path hg q a b n hab hn
      refine ⟨m, hm, ?_⟩
      simp only
      cases hf : S.find? (·.1 = deref st n) with
      | none =>
        rw [List.find?_eq_none] at hf
        have := hf _ hnm
        simp at this
      | some e =>
        have hmem := List.mem_of_find?_eq_some hf
        have hkey := List.find?_some hf
        simp only [decide_eq_true_eq] at hkey
        have := uniq_mem_eq p.uniq hmem hnm hkey
        rw [this]

end Cmp
end Earley
end Pfl
