/-
Helper lemmas for C12: word enumeration (`getWords`) and finiteness (`isFinite`).
-/
import Pfl.Props.C09_CNF
import Mathlib.Data.List.Basic
import Batteries.Data.List.Perm
import Mathlib.Data.List.Nodup
namespace Pfl
namespace CFG
namespace Words

/-! ### generic list facts -/

theorem nodup_eraseDups_w {α : Type} [BEq α] [LawfulBEq α] (l : List α) : l.eraseDups.Nodup := by
  generalize hn : l.length = n
  induction n using Nat.strongRecOn generalizing l with
  | _ n ih =>
    cases l with
    | nil => simp
    | cons a as =>
      rw [List.eraseDups_cons, List.nodup_cons]
      refine ⟨?_, ?_⟩
      · simp [List.mem_eraseDups, List.mem_filter]
      · refine ih _ ?_ _ rfl
        have := List.length_filter_le (fun b => !b == a) as
        simp at hn; omega

/-! ### inversion of `Gen` / `GenList` -/

theorem gen_ter_iff (G : CFG) (t : String) (w : List String) : G.Gen (.ter t) w ↔ w = [t] := by
  constructor
  · intro h; cases h; rfl
  · rintro rfl; exact Gen.ter t

theorem gen_var_iff (G : CFG) (x : String) (w : List String) :
    G.Gen (.var x) w ↔ ∃ body, (x, body) ∈ G.prods ∧ G.GenList body w := by
  constructor
  · intro h; cases h with | var hm hl => exact ⟨_, hm, hl⟩
  · rintro ⟨body, hm, hl⟩; exact Gen.var hm hl

theorem genList_nil_iff (G : CFG) (w : List String) : G.GenList [] w ↔ w = [] := by
  constructor
  · intro h; cases h; rfl
  · rintro rfl; exact GenList.nil

theorem genList_cons_iff (G : CFG) (s : Sym) (u : List Sym) (w : List String) :
    G.GenList (s :: u) w ↔ ∃ w₁ w₂, w = w₁ ++ w₂ ∧ G.Gen s w₁ ∧ G.GenList u w₂ := by
  constructor
  · intro h; cases h with | cons h1 h2 => exact ⟨_, _, rfl, h1, h2⟩
  · rintro ⟨w₁, w₂, rfl, h1, h2⟩; exact GenList.cons h1 h2

theorem genList_single_iff (G : CFG) (s : Sym) (w : List String) :
    G.GenList [s] w ↔ G.Gen s w := by
  rw [genList_cons_iff]
  constructor
  · rintro ⟨w₁, w₂, rfl, h1, h2⟩
    rw [genList_nil_iff] at h2; subst h2; simpa using h1
  · intro h; exact ⟨w, [], by simp, h, GenList.nil⟩

theorem genList_pair_iff (G : CFG) (a b : Sym) (w : List String) :
    G.GenList [a, b] w ↔ ∃ w₁ w₂, w = w₁ ++ w₂ ∧ G.Gen a w₁ ∧ G.Gen b w₂ := by
  rw [genList_cons_iff]
  simp only [genList_single_iff]

/-! ### grammars in Chomsky normal form -/

theorem cnf_prod_cases {N : CFG} (hN : N.isNormalForm = true) {x : String} {body : List Sym}
    (hp : (x, body) ∈ N.prods) :
    (∃ b c, body = [.var b, .var c]) ∨ (∃ t, body = [.ter t]) := by
  have h := (List.all_eq_true.mp hN) _ hp
  unfold prodIsNormal at h
  split at h
  · rename_i b c hb; exact Or.inl ⟨b, c, hb⟩
  · rename_i t ht; exact Or.inr ⟨t, ht⟩
  · cases h

/-- a variable of a CNF grammar generates `w` through a terminal or a binary production -/
theorem gen_var_cnf {N : CFG} (hN : N.isNormalForm = true) (x : String) (w : List String) :
    N.Gen (.var x) w ↔
      (∃ t, (x, [.ter t]) ∈ N.prods ∧ w = [t]) ∨
      (∃ b c w₁ w₂, (x, [.var b, .var c]) ∈ N.prods ∧ N.Gen (.var b) w₁ ∧ N.Gen (.var c) w₂ ∧
        w = w₁ ++ w₂) := by
  rw [gen_var_iff]
  constructor
  · rintro ⟨body, hm, hl⟩
    rcases cnf_prod_cases hN hm with ⟨b, c, rfl⟩ | ⟨t, rfl⟩
    · rw [genList_pair_iff] at hl
      obtain ⟨w₁, w₂, rfl, h1, h2⟩ := hl
      exact Or.inr ⟨b, c, w₁, w₂, hm, h1, h2, rfl⟩
    · rw [genList_single_iff, gen_ter_iff] at hl
      exact Or.inl ⟨t, hm, hl⟩
  · rintro (⟨t, hm, rfl⟩ | ⟨b, c, w₁, w₂, hm, h1, h2, rfl⟩)
    · exact ⟨_, hm, (genList_single_iff _ _ _).mpr (Gen.ter t)⟩
    · exact ⟨_, hm, (genList_pair_iff _ _ _ _).mpr ⟨w₁, w₂, rfl, h1, h2⟩⟩

mutual
theorem gen_ne_nil_of {G : CFG} (hG : ∀ p ∈ G.prods, p.2 ≠ []) :
    ∀ {s : Sym} {w : List String}, G.Gen s w → w ≠ []
  | _, _, .ter t => by simp
  | _, _, .var hm hl => genList_ne_nil_of hG hl (hG _ hm)
theorem genList_ne_nil_of {G : CFG} (hG : ∀ p ∈ G.prods, p.2 ≠ []) :
    ∀ {u : List Sym} {w : List String}, G.GenList u w → u ≠ [] → w ≠ []
  | _, _, .nil => fun h => absurd rfl h
  | _, _, .cons hs hu => fun _ => by
    have := gen_ne_nil_of hG hs
    simp [this]
end

theorem cnf_noEps {N : CFG} (hN : N.isNormalForm = true) : ∀ p ∈ N.prods, p.2 ≠ [] := by
  rintro ⟨x, body⟩ hp
  rcases cnf_prod_cases hN hp with ⟨b, c, h⟩ | ⟨t, h⟩ <;> simp_all

theorem gen_cnf_ne_nil {N : CFG} (hN : N.isNormalForm = true) {s : Sym} {w : List String}
    (h : N.Gen s w) : w ≠ [] := gen_ne_nil_of (cnf_noEps hN) h

theorem gen_cnf_len_pos {N : CFG} (hN : N.isNormalForm = true) {s : Sym} {w : List String}
    (h : N.Gen s w) : 1 ≤ w.length := by
  have := gen_cnf_ne_nil hN h
  cases w with
  | nil => exact absurd rfl this
  | cons a t => simp

/-- the result of `toNormalForm` is well formed -/
theorem toNormalForm_wf (G : CFG) (hG : G.WF) (fuel : Nat) (N : CFG)
    (h : G.toNormalForm fuel = some N) : N.WF := by
  induction fuel generalizing G with
  | zero => simp [toNormalForm] at h
  | succ n ih =>
    unfold toNormalForm at h
    split at h
    · cases h; exact mk'_wf _ _ _ _
    · split at h
      · cases h; exact hG
      · exact ih _ (mk'_wf _ _ _ _) h

/-! ### the rows of `getWords` -/

def rowGet (row : WRow) (x : String) : List (List String) :=
  ((row.find? fun e => e.1 = x).map (·.2)).getD []

theorem rowGet_map (vs : List String) (f : String → List (List String)) (x : String) :
    rowGet (vs.map fun y => (y, f y)) x = if x ∈ vs then f x else [] := by
  induction vs with
  | nil => simp [rowGet]
  | cons v vs ih =>
    unfold rowGet at ih ⊢
    simp only [List.map_cons, List.find?_cons]
    by_cases hv : v = x
    · subst hv; simp
    · have hx : ¬ x = v := fun h => hv h.symm
      simp only [hv, decide_false, List.mem_cons, hx, false_or]
      exact ih

theorem rowGet_of_not_modified (row : WRow) (x : String)
    (h : (row.any fun e => !e.2.isEmpty) = false) : rowGet row x = [] := by
  unfold rowGet
  cases hf : row.find? fun e => e.1 = x with
  | none => rfl
  | some e =>
    have hm := List.mem_of_find?_eq_some hf
    have := List.any_eq_false.mp h e hm
    simp at this
    simpa using this

theorem rowLookup_succ (rows : List WRow) (l : Nat) (x : String) :
    rowLookup rows (l + 1) x = match rows[l]? with
      | none => []
      | some row => rowGet row x := rfl

theorem rowLookup_append_lt (rows : List WRow) (row : WRow) (len : Nat) (x : String)
    (h : len ≤ rows.length) : rowLookup (rows ++ [row]) len x = rowLookup rows len x := by
  cases len with
  | zero => rfl
  | succ l =>
    rw [rowLookup_succ, rowLookup_succ, List.getElem?_append_left (by omega)]

theorem rowLookup_append_eq (rows : List WRow) (row : WRow) (x : String) :
    rowLookup (rows ++ [row]) (rows.length + 1) x = rowGet row x := by
  rw [rowLookup_succ]
  simp

theorem rowLookup_single (row : WRow) (x : String) : rowLookup [row] 1 x = rowGet row x := by
  rw [rowLookup_succ]; simp

theorem mem_wordsRow1 {N : CFG} (hN : N.isNormalForm = true) (hWF : N.WF) (x : String)
    (u : List String) :
    u ∈ rowGet (wordsRow1 N) x ↔ u.length = 1 ∧ N.Gen (.var x) u := by
  unfold wordsRow1
  rw [rowGet_map]
  constructor
  · intro h
    split at h
    · rw [List.mem_eraseDups, List.mem_filterMap] at h
      obtain ⟨⟨y, body⟩, hp, hu⟩ := h
      rw [List.mem_filter] at hp
      obtain ⟨hp, hy⟩ := hp
      simp only [decide_eq_true_eq] at hy
      subst hy
      split at hu
      · rename_i t ht
        simp only at ht
        subst ht
        simp only [Option.some.injEq] at hu
        subst hu
        exact ⟨rfl, (gen_var_cnf hN _ _).mpr (Or.inl ⟨t, hp, rfl⟩)⟩
      · cases hu
    · cases h
  · rintro ⟨hl, hg⟩
    rcases (gen_var_cnf hN _ _).mp hg with ⟨t, hp, rfl⟩ | ⟨b, c, w₁, w₂, hp, h1, h2, rfl⟩
    · have hx : x ∈ N.vars := hWF.head_mem _ hp
      rw [if_pos hx, List.mem_eraseDups, List.mem_filterMap]
      exact ⟨(x, [.ter t]), List.mem_filter.mpr ⟨hp, by simp⟩, rfl⟩
    · have := gen_cnf_len_pos hN h1
      have := gen_cnf_len_pos hN h2
      simp at hl; omega

theorem mem_wordsRow {N : CFG} (hN : N.isNormalForm = true) (hWF : N.WF) (rows : List WRow)
    (cur : Nat) (hcur : 2 ≤ cur)
    (hrows : ∀ len x u, len < cur →
      (u ∈ rowLookup rows len x ↔ u.length = len ∧ N.Gen (.var x) u))
    (x : String) (u : List String) :
    u ∈ rowGet (wordsRow N rows cur) x ↔ u.length = cur ∧ N.Gen (.var x) u := by
  unfold wordsRow
  rw [rowGet_map]
  constructor
  · intro h
    split at h
    · rw [List.mem_eraseDups, List.mem_flatMap] at h
      obtain ⟨⟨y, body⟩, hp, hu⟩ := h
      rw [List.mem_filter] at hp
      obtain ⟨hp, hy⟩ := hp
      simp only [decide_eq_true_eq] at hy
      subst hy
      split at hu
      · rename_i b c hb
        simp only at hb
        subst hb
        simp only [List.mem_flatMap, List.mem_range, List.mem_map] at hu
        obtain ⟨k, hk, l, hl, r, hr, rfl⟩ := hu
        rw [hrows _ _ _ (by omega)] at hl hr
        refine ⟨by simp [hl.1, hr.1]; omega, ?_⟩
        exact (gen_var_cnf hN _ _).mpr (Or.inr ⟨b, c, l, r, hp, hl.2, hr.2, rfl⟩)
      · cases hu
    · cases h
  · rintro ⟨hl, hg⟩
    rcases (gen_var_cnf hN _ _).mp hg with ⟨t, hp, rfl⟩ | ⟨b, c, w₁, w₂, hp, h1, h2, rfl⟩
    · simp at hl; omega
    · have hx : x ∈ N.vars := hWF.head_mem _ hp
      have p1 := gen_cnf_len_pos hN h1
      have p2 := gen_cnf_len_pos hN h2
      simp only [List.length_append] at hl
      rw [if_pos hx, List.mem_eraseDups, List.mem_flatMap]
      refine ⟨(x, [.var b, .var c]), List.mem_filter.mpr ⟨hp, by simp⟩, ?_⟩
      simp only [List.mem_flatMap, List.mem_range, List.mem_map]
      refine ⟨w₁.length - 1, by omega, w₁, ?_, w₂, ?_, rfl⟩
      · rw [hrows _ _ _ (by omega)]; exact ⟨by omega, h1⟩
      · rw [hrows _ _ _ (by omega)]; exact ⟨by omega, h2⟩

/-! ### the loop of `getWords` -/

theorem rowGet_wordsRow_nodup (N : CFG) (rows : List WRow) (cur : Nat) (x : String) :
    (rowGet (wordsRow N rows cur) x).Nodup := by
  unfold wordsRow
  rw [rowGet_map]
  split
  · exact nodup_eraseDups_w _
  · simp

theorem no_longer_words {N : CFG} (hN : N.isNormalForm = true) (cur m : Nat) (hcur : 1 ≤ cur)
    (hwin : ∀ len x u, cur < len + m → len ≤ cur → u.length = len → ¬ N.Gen (.var x) u)
    (hm : 2 * m > cur + 1) :
    ∀ n, cur < n → ∀ x u, u.length = n → ¬ N.Gen (.var x) u := by
  intro n
  induction n using Nat.strongRecOn with
  | _ n ih =>
    intro hn x u hu hg
    rcases (gen_var_cnf hN _ _).mp hg with ⟨t, hp, rfl⟩ | ⟨b, c, w₁, w₂, hp, h1, h2, rfl⟩
    · simp at hu; omega
    · have p1 := gen_cnf_len_pos hN h1
      have p2 := gen_cnf_len_pos hN h2
      simp only [List.length_append] at hu
      have a1 : w₁.length ≤ cur := by
        by_contra hc
        exact ih _ (by omega) (by omega) b w₁ rfl h1
      have a2 : w₂.length ≤ cur := by
        by_contra hc
        exact ih _ (by omega) (by omega) c w₂ rfl h2
      have b1 : w₁.length + m ≤ cur := by
        by_contra hc
        exact hwin _ b w₁ (by omega) a1 rfl h1
      have b2 : w₂.length + m ≤ cur := by
        by_contra hc
        exact hwin _ c w₂ (by omega) a2 rfl h2
      omega

structure WInv (N : CFG) (s : String) (eps : List (List String)) (cur noMod : Nat)
    (rows : List WRow) (acc : List (List String)) : Prop where
  cur_ge : 2 ≤ cur
  len : rows.length + 1 = cur
  rows_ok : ∀ len x u, len < cur →
    (u ∈ rowLookup rows len x ↔ u.length = len ∧ N.Gen (.var x) u)
  acc_nodup : acc.Nodup
  acc_ok : ∀ w, w ∈ acc ↔ w ∈ eps ∨ (N.Gen (.var s) w ∧ w.length < cur)
  window : ∀ len x u, cur ≤ len + noMod → len < cur → u.length = len → ¬ N.Gen (.var x) u

def boundOk (maxLen : Option Nat) (cur : Nat) : Bool :=
  match maxLen with
  | some m => decide (cur ≤ m)
  | none => true

def nextNoMod (row : WRow) (noMod : Nat) : Nat :=
  if (row.any fun e => !e.2.isEmpty) then 0 else noMod + 1

theorem wordsLoop_succ (N : CFG) (s : String) (maxLen : Option Nat) (fuel cur noMod : Nat)
    (rows : List WRow) (acc : List (List String)) :
    wordsLoop N s maxLen (fuel + 1) cur noMod rows acc =
      if boundOk maxLen cur then
        if 2 * nextNoMod (wordsRow N rows cur) noMod > cur + 1 then
          some (acc ++ rowGet (wordsRow N rows cur) s)
        else wordsLoop N s maxLen fuel (cur + 1) (nextNoMod (wordsRow N rows cur) noMod)
          (rows ++ [wordsRow N rows cur]) (acc ++ rowGet (wordsRow N rows cur) s)
      else some acc := rfl

theorem wordsLoop_spec {N : CFG} (hN : N.isNormalForm = true) (hWF : N.WF) (s : String)
    (maxLen : Option Nat) (eps : List (List String)) (heps : ∀ w ∈ eps, w = []) :
    ∀ fuel cur noMod rows acc ws,
      wordsLoop N s maxLen fuel cur noMod rows acc = some ws →
      WInv N s eps cur noMod rows acc → (∀ m, maxLen = some m → cur ≤ m + 1) →
      ws.Nodup ∧ ∀ w, w ∈ ws ↔
        w ∈ eps ∨ (N.Gen (.var s) w ∧ ∀ m, maxLen = some m → w.length ≤ m) := by
  intro fuel
  induction fuel with
  | zero => intro cur noMod rows acc ws h; simp [wordsLoop] at h
  | succ fuel ih =>
    intro cur noMod rows acc ws h inv hb
    rw [wordsLoop_succ] at h
    by_cases hcond : boundOk maxLen cur = true
    · rw [if_pos hcond] at h
      have hbound : ∀ m, maxLen = some m → cur ≤ m := by
        intro m hm; rw [hm] at hcond; simpa [boundOk] using hcond
      have hrow := mem_wordsRow hN hWF rows cur inv.cur_ge inv.rows_ok
      have hnd : (acc ++ rowGet (wordsRow N rows cur) s).Nodup := by
        refine List.nodup_append.mpr ⟨inv.acc_nodup, rowGet_wordsRow_nodup _ _ _ _, ?_⟩
        intro w hw1 w' hw2 hww
        subst hww
        rw [hrow] at hw2
        rcases (inv.acc_ok w).mp hw1 with he | ⟨_, hl⟩
        · have := heps _ he; subst this
          have := inv.cur_ge
          simp at hw2; omega
        · omega
      have hmem : ∀ w, w ∈ acc ++ rowGet (wordsRow N rows cur) s ↔
          w ∈ eps ∨ (N.Gen (.var s) w ∧ w.length < cur + 1) := by
        intro w
        rw [List.mem_append, hrow, inv.acc_ok]
        constructor
        · rintro ((he | ⟨hg, hl⟩) | ⟨hl, hg⟩)
          · exact Or.inl he
          · exact Or.inr ⟨hg, by omega⟩
          · exact Or.inr ⟨hg, by omega⟩
        · rintro (he | ⟨hg, hl⟩)
          · exact Or.inl (Or.inl he)
          · by_cases hc : w.length < cur
            · exact Or.inl (Or.inr ⟨hg, hc⟩)
            · exact Or.inr ⟨by omega, hg⟩
      generalize hm' : nextNoMod (wordsRow N rows cur) noMod = m' at h
      have hwin : ∀ len x u, cur + 1 ≤ len + m' → len < cur + 1 → u.length = len →
          ¬ N.Gen (.var x) u := by
        intro len x u h1 h2 h3 hg
        unfold nextNoMod at hm'
        split at hm'
        · omega
        · rename_i hmod
          by_cases hc : len < cur
          · exact inv.window len x u (by omega) hc h3 hg
          · have : u ∈ rowGet (wordsRow N rows cur) x := (hrow x u).mpr ⟨by omega, hg⟩
            rw [rowGet_of_not_modified _ _ (by simpa using hmod)] at this
            cases this
      by_cases hstop : 2 * m' > cur + 1
      · rw [if_pos hstop] at h
        cases h
        refine ⟨hnd, ?_⟩
        intro w
        rw [hmem]
        constructor
        · rintro (he | ⟨hg, hl⟩)
          · exact Or.inl he
          · exact Or.inr ⟨hg, fun m hm => by have := hbound m hm; omega⟩
        · rintro (he | ⟨hg, hl⟩)
          · exact Or.inl he
          · refine Or.inr ⟨hg, ?_⟩
            by_contra hc
            exact no_longer_words hN cur m' (by have := inv.cur_ge; omega)
              (fun len x u a b c => hwin len x u (by omega) (by omega) c) hstop
              w.length (by omega) s w rfl hg
      · rw [if_neg hstop] at h
        refine ih _ _ _ _ _ h ?_ ?_
        · refine ⟨by have := inv.cur_ge; omega, by simp [inv.len], ?_, hnd, hmem, hwin⟩
          intro len x u hlen
          by_cases hc : len < cur
          · rw [rowLookup_append_lt _ _ _ _ (by have := inv.len; omega)]
            exact inv.rows_ok len x u hc
          · have : len = rows.length + 1 := by have := inv.len; omega
            subst this
            rw [rowLookup_append_eq, hrow]
            have := inv.len
            rw [this]
        · intro m hm; have := hbound m hm; omega
    · rw [if_neg hcond] at h
      cases h
      cases maxLen with
      | none => simp [boundOk] at hcond
      | some m =>
        have hcm : ¬ cur ≤ m := by simpa [boundOk] using hcond
        have := hb m rfl
        refine ⟨inv.acc_nodup, ?_⟩
        intro w
        rw [inv.acc_ok]
        constructor
        · rintro (he | ⟨hg, hl⟩)
          · exact Or.inl he
          · refine Or.inr ⟨hg, ?_⟩
            intro m' hm'; cases hm'; omega
        · rintro (he | ⟨hg, hl⟩)
          · exact Or.inl he
          · exact Or.inr ⟨hg, by have := hl m rfl; omega⟩

/-! ### `getWords` -/

theorem rowGet_wordsRow1_nodup (N : CFG) (x : String) : (rowGet (wordsRow1 N) x).Nodup := by
  unfold wordsRow1
  rw [rowGet_map]
  split
  · exact nodup_eraseDups_w _
  · simp

theorem getWords_spec (G : CFG) (hG : G.WF) (maxLen : Option Nat) (hne : maxLen ≠ some 0)
    (fuel : Nat) (ws : List (List String)) (h : G.getWords maxLen fuel = some ws) :
    ws.Nodup ∧ ∀ w, w ∈ ws ↔ G.Lang w ∧ ∀ m, maxLen = some m → w.length ≤ m := by
  unfold getWords at h
  simp only [hne, if_false] at h
  generalize heps : (if G.generateEpsilon = true then [[]] else [] : List (List String)) = eps at h
  have heps_nd : eps.Nodup := by subst heps; split <;> simp
  have heps_mem : ∀ w, w ∈ eps ↔ w = [] ∧ G.Lang [] := by
    intro w; subst heps; rw [← generateEpsilon_iff]; split <;> simp_all
  split at h
  · cases h
  · rename_i N hN
    have hlang := toNormalForm_lang G hG fuel N hN
    have hnf := toNormalForm_isNormalForm G hG fuel N hN
    have hwf := toNormalForm_wf G hG fuel N hN
    have hfinal : ∀ (P : List String → Prop) (hP : P []) (w : List String),
        (w ∈ eps ∨ (N.Lang w ∧ P w)) ↔ (G.Lang w ∧ P w) := by
      intro P hP w
      rw [hlang, heps_mem]
      constructor
      · rintro (⟨rfl, h1⟩ | ⟨⟨h1, _⟩, h2⟩)
        · exact ⟨h1, hP⟩
        · exact ⟨h1, h2⟩
      · rintro ⟨h1, h2⟩
        by_cases hw : w = []
        · subst hw; exact Or.inl ⟨rfl, h1⟩
        · exact Or.inr ⟨⟨h1, hw⟩, h2⟩
    split at h
    · rename_i hs
      cases h
      refine ⟨heps_nd, ?_⟩
      intro w
      have hno : ¬ N.Lang w := by
        rintro ⟨s, h1, _⟩; rw [hs] at h1; cases h1
      have := hfinal (fun w => ∀ m, maxLen = some m → w.length ≤ m) (by simp) w
      rw [← this]
      simp [hno]
    · rename_i s hs
      have hNl : ∀ w, N.Lang w ↔ N.Gen (.var s) w := by
        intro w; rw [lang_iff_gen, hs]; simp
      have hr1 := mem_wordsRow1 hnf hwf
      have key := wordsLoop_spec hnf hwf s maxLen eps (fun w hw => ((heps_mem w).mp hw).1)
        fuel 2 0 [wordsRow1 N] (eps ++ rowGet (wordsRow1 N) s) ws h ?_ ?_
      · refine ⟨key.1, ?_⟩
        intro w
        rw [key.2, ← hNl]
        exact hfinal (fun w => ∀ m, maxLen = some m → w.length ≤ m) (by simp) w
      · refine ⟨Nat.le_refl _, rfl, ?_, ?_, ?_, ?_⟩
        · intro len x u hlen
          have : len = 0 ∨ len = 1 := by omega
          rcases this with rfl | rfl
          · constructor
            · intro hu; cases hu
            · rintro ⟨hl, hg⟩
              have := gen_cnf_len_pos hnf hg; omega
          · rw [rowLookup_single]; exact hr1 x u
        · refine List.nodup_append.mpr ⟨heps_nd, rowGet_wordsRow1_nodup _ _, ?_⟩
          intro w hw1 w' hw2 hww
          subst hww
          rw [hr1] at hw2
          have := ((heps_mem w).mp hw1).1
          subst this
          simp at hw2
        · intro w
          rw [List.mem_append, hr1]
          constructor
          · rintro (he | ⟨hl, hg⟩)
            · exact Or.inl he
            · exact Or.inr ⟨hg, by omega⟩
          · rintro (he | ⟨hg, hl⟩)
            · exact Or.inl he
            · have := gen_cnf_len_pos hnf hg
              exact Or.inr ⟨by omega, hg⟩
        · intro len x u h1 h2; omega
      · intro m hm
        cases m with
        | zero => exact absurd hm hne
        | succ m => omega

/-! ### `isFinite`: the variable graph of a normal form -/

/-- successors of a variable in the graph of the binary productions -/
def bsucc (N : CFG) (v : String) : List String :=
  N.prods.flatMap fun p => if p.1 = v then
      match p.2 with
      | [.var b, .var c] => [b, c]
      | _ => []
    else []

theorem isFinite_eq (G : CFG) (fuel : Nat) :
    G.isFinite fuel = (G.toNormalForm fuel).map fun N =>
      !(N.vars.any fun v => (bsucc N v).any fun u =>
        v ∈ (bfs (bsucc N) (2 * N.prods.length + 2) [u]).getD []) := rfl

theorem mem_bsucc (N : CFG) (v u : String) :
    u ∈ bsucc N v ↔ ∃ b c, (v, [.var b, .var c]) ∈ N.prods ∧ (u = b ∨ u = c) := by
  unfold bsucc
  rw [List.mem_flatMap]
  constructor
  · rintro ⟨⟨x, body⟩, hp, hu⟩
    split at hu
    · rename_i hx
      simp only at hx
      subst hx
      split at hu
      · rename_i b c hb
        simp only at hb
        subst hb
        exact ⟨b, c, hp, by simpa using hu⟩
      · cases hu
    · cases hu
  · rintro ⟨b, c, hp, hu⟩
    exact ⟨_, hp, by simpa using hu⟩

/-- all successors of all variables -/
def allSucc (N : CFG) : List String :=
  N.prods.flatMap fun p => match p.2 with
    | [.var b, .var c] => [b, c]
    | _ => []

theorem allSucc_length (N : CFG) : (allSucc N).length ≤ 2 * N.prods.length := by
  unfold allSucc
  induction N.prods with
  | nil => simp
  | cons p ps ih =>
    simp only [List.flatMap_cons, List.length_append, List.length_cons]
    have : (match p.2 with
      | [.var b, .var c] => [b, c]
      | _ => ([] : List String)).length ≤ 2 := by
      split <;> simp
    omega

theorem bsucc_sub_allSucc (N : CFG) (v u : String) (h : u ∈ bsucc N v) : u ∈ allSucc N := by
  obtain ⟨b, c, hp, hu⟩ := (mem_bsucc N v u).mp h
  unfold allSucc
  rw [List.mem_flatMap]
  exact ⟨_, hp, by simpa using hu⟩

def Cycle (N : CFG) : Prop := ∃ v u, u ∈ bsucc N v ∧ Reach (bsucc N) u v

theorem bfs_bsucc_isSome (N : CFG) (v u : String) (h : u ∈ bsucc N v) :
    (bfs (bsucc N) (2 * N.prods.length + 2) [u]).isSome := by
  unfold bfs
  have hu : ([u] : List String).eraseDups = [u] := by simp [List.eraseDups_cons]
  rw [hu]
  refine bfsK_isSome id (bsucc N) (allSucc N) (fun x y hy => bsucc_sub_allSucc N x y hy) _ _ _
    (by simp) ?_ ?_
  · intro z hz
    simp only [List.mem_singleton] at hz
    subst hz
    exact bsucc_sub_allSucc N v _ h
  · have := allSucc_length N
    simp only [List.length_cons, List.length_nil]
    omega

theorem hasCycle_iff (N : CFG) (hWF : N.WF) :
    (N.vars.any fun v => (bsucc N v).any fun u =>
        v ∈ (bfs (bsucc N) (2 * N.prods.length + 2) [u]).getD []) = true ↔ Cycle N := by
  simp only [List.any_eq_true, decide_eq_true_eq]
  constructor
  · rintro ⟨v, hv, u, hu, hm⟩
    have hs := bfs_bsucc_isSome N v u hu
    obtain ⟨res, hres⟩ := Option.isSome_iff_exists.mp hs
    rw [hres] at hm
    simp only [Option.getD_some] at hm
    obtain ⟨s, hs, hr⟩ := (mem_bfs_iff _ _ _ _ hres v).mp hm
    simp only [List.mem_singleton] at hs
    subst hs
    exact ⟨v, s, hu, hr⟩
  · rintro ⟨v, u, hu, hr⟩
    obtain ⟨b, c, hp, _⟩ := (mem_bsucc N v u).mp hu
    refine ⟨v, hWF.head_mem _ hp, u, hu, ?_⟩
    have hs := bfs_bsucc_isSome N v u hu
    obtain ⟨res, hres⟩ := Option.isSome_iff_exists.mp hs
    rw [hres]
    simp only [Option.getD_some]
    exact (mem_bfs_iff _ _ _ _ hres v).mpr ⟨u, by simp, hr⟩

/-! #### no cycle: bounded -/

theorem acyclic_bound {N : CFG} (hN : N.isNormalForm = true) (hWF : N.WF) (hc : ¬ Cycle N) :
    ∀ (fuel : Nat) (anc : List String) (x : String) (w : List String),
      anc.Nodup → (∀ a ∈ anc, a ∈ N.vars) →
      (∀ a ∈ anc, ∃ u, u ∈ bsucc N a ∧ Reach (bsucc N) u x) →
      anc.length + fuel = N.vars.length →
      N.Gen (.var x) w → w.length ≤ 2 ^ fuel := by
  intro fuel
  induction fuel with
  | zero =>
    intro anc x w hnd hsub hanc hlen hg
    rcases (gen_var_cnf hN _ _).mp hg with ⟨t, hp, rfl⟩ | ⟨b, c, w₁, w₂, hp, h1, h2, rfl⟩
    · simp
    · exfalso
      have hx : x ∈ N.vars := hWF.head_mem _ hp
      have hxa : x ∉ anc := by
        intro hxa
        obtain ⟨u, hu, hr⟩ := hanc x hxa
        exact hc ⟨x, u, hu, hr⟩
      have hnd' : (x :: anc).Nodup := List.nodup_cons.mpr ⟨hxa, hnd⟩
      have hle := List.Nodup.length_le_of_subset hnd' (l₂ := N.vars) (by
        intro a ha
        rcases List.mem_cons.mp ha with rfl | ha
        · exact hx
        · exact hsub a ha)
      simp at hle; omega
  | succ n ih =>
    intro anc x w hnd hsub hanc hlen hg
    rcases (gen_var_cnf hN _ _).mp hg with ⟨t, hp, rfl⟩ | ⟨b, c, w₁, w₂, hp, h1, h2, rfl⟩
    · simp; exact Nat.one_le_two_pow
    · have hx : x ∈ N.vars := hWF.head_mem _ hp
      have hxa : x ∉ anc := by
        intro hxa
        obtain ⟨u, hu, hr⟩ := hanc x hxa
        exact hc ⟨x, u, hu, hr⟩
      have hnd' : (x :: anc).Nodup := List.nodup_cons.mpr ⟨hxa, hnd⟩
      have hsub' : ∀ a ∈ x :: anc, a ∈ N.vars := by
        intro a ha
        rcases List.mem_cons.mp ha with rfl | ha
        · exact hx
        · exact hsub a ha
      have hb : b ∈ bsucc N x := (mem_bsucc N x b).mpr ⟨b, c, hp, Or.inl rfl⟩
      have hcc : c ∈ bsucc N x := (mem_bsucc N x c).mpr ⟨b, c, hp, Or.inr rfl⟩
      have hanc' : ∀ y, y ∈ bsucc N x → ∀ a ∈ x :: anc,
          ∃ u, u ∈ bsucc N a ∧ Reach (bsucc N) u y := by
        intro y hy a ha
        rcases List.mem_cons.mp ha with rfl | ha
        · exact ⟨y, hy, Reach.refl y⟩
        · obtain ⟨u, hu, hr⟩ := hanc a ha
          exact ⟨u, hu, Reach.tail hr hy⟩
      have e1 := ih (x :: anc) b w₁ hnd' hsub' (hanc' b hb) (by simp; omega) h1
      have e2 := ih (x :: anc) c w₂ hnd' hsub' (hanc' c hcc) (by simp; omega) h2
      simp only [List.length_append]
      rw [Nat.pow_succ]; omega

theorem acyclic_bounded {N : CFG} (hN : N.isNormalForm = true) (hWF : N.WF) (hc : ¬ Cycle N)
    (x : String) (w : List String) (hg : N.Gen (.var x) w) : w.length ≤ 2 ^ N.vars.length :=
  acyclic_bound hN hWF hc N.vars.length [] x w (by simp) (by simp) (by simp) (by simp) hg

/-! #### cycle: unbounded -/

/-- every variable of a binary production is useful -/
def Useful (N : CFG) : Prop :=
  ∀ x b c, (x, [Sym.var b, Sym.var c]) ∈ N.prods →
    (∃ w, N.Gen (.var b) w) ∧ (∃ w, N.Gen (.var c) w) ∧
    ∃ s, N.start = some s ∧ Reach (bsucc N) s x

theorem edge_pump {N : CFG} (hN : N.isNormalForm = true) (hU : Useful N) (x u : String)
    (w : List String) (hu : u ∈ bsucc N x) (hg : N.Gen (.var u) w) :
    ∃ w', N.Gen (.var x) w' ∧ w.length < w'.length := by
  obtain ⟨b, c, hp, hu⟩ := (mem_bsucc N x u).mp hu
  obtain ⟨⟨wb, hb⟩, ⟨wc, hc⟩, _⟩ := hU x b c hp
  have pb := gen_cnf_len_pos hN hb
  have pc := gen_cnf_len_pos hN hc
  rcases hu with rfl | rfl
  · exact ⟨w ++ wc, (gen_var_cnf hN _ _).mpr (Or.inr ⟨_, _, _, _, hp, hg, hc, rfl⟩), by
      simp; omega⟩
  · exact ⟨wb ++ w, (gen_var_cnf hN _ _).mpr (Or.inr ⟨_, _, _, _, hp, hb, hg, rfl⟩), by
      simp; omega⟩

theorem reach_pump {N : CFG} (hN : N.isNormalForm = true) (hU : Useful N) (x y : String)
    (hr : Reach (bsucc N) x y) :
    ∀ w, N.Gen (.var y) w → ∃ w', N.Gen (.var x) w' ∧ w.length ≤ w'.length := by
  induction hr with
  | refl => intro w hg; exact ⟨w, hg, Nat.le_refl _⟩
  | tail _ hz ih =>
    intro w hg
    obtain ⟨w', hg', hl⟩ := edge_pump hN hU _ _ w hz hg
    obtain ⟨w'', hg'', hl'⟩ := ih w' hg'
    exact ⟨w'', hg'', by omega⟩

theorem cycle_unbounded {N : CFG} (hN : N.isNormalForm = true) (hU : Useful N) (hc : Cycle N) :
    ∀ n, ∃ w, N.Lang w ∧ n ≤ w.length := by
  obtain ⟨v, u, hu, hr⟩ := hc
  obtain ⟨b, c, hp, _⟩ := (mem_bsucc N v u).mp hu
  obtain ⟨⟨wb, hb⟩, ⟨wc, hcg⟩, s, hs, hsv⟩ := hU v b c hp
  have hv : ∀ n, ∃ w, N.Gen (.var v) w ∧ n ≤ w.length := by
    intro n
    induction n with
    | zero =>
      exact ⟨wb ++ wc, (gen_var_cnf hN _ _).mpr (Or.inr ⟨_, _, _, _, hp, hb, hcg, rfl⟩),
        Nat.zero_le _⟩
    | succ n ih =>
      obtain ⟨w, hg, hl⟩ := ih
      obtain ⟨w', hg', hl'⟩ := reach_pump hN hU u v hr w hg
      obtain ⟨w'', hg'', hl''⟩ := edge_pump hN hU v u w' hu hg'
      exact ⟨w'', hg'', by omega⟩
  intro n
  obtain ⟨w, hg, hl⟩ := hv n
  obtain ⟨w', hg', hl'⟩ := reach_pump hN hU s v hsv w hg
  exact ⟨w', (lang_iff_gen N w').mpr ⟨s, hs, hg'⟩, by omega⟩

/-! ### usefulness of the variables of a normal form: `decompose` -/

/-- `h` expands to `body` through a chain of binary productions of `P` -/
inductive Chain (P : List Prod) : String → List Sym → Prop
  | two {h : String} {b c : Sym} : (h, [b, c]) ∈ P → Chain P h [b, c]
  | more {h : String} {b : Sym} {rest : List Sym} {v : String} :
      2 ≤ rest.length → (h, [b, .var v]) ∈ P → Chain P v rest → Chain P h (b :: rest)

/-- what `decomposeOne` emits for a production with head `h` -/
def Emitted (N : CFG) (ok : Sym → Prop) (h : String) (p : Prod) : Prop :=
  Reach (bsucc N) h p.1 ∧ ∃ b X, p.2 = [b, X] ∧ ok b ∧
    (ok X ∨ ∃ v rest, X = .var v ∧ Chain N.prods v rest ∧ ∀ s ∈ rest, ok s)

theorem decomposeOne_spec (N : CFG) (ok : Sym → Prop) (hok : ∀ s, ok s → ∃ x, s = .var x) :
    ∀ (body : List Sym) (h : String) (vs : List String) (done : List (List Sym × String))
      (ps : List Prod) (done' : List (List Sym × String)),
      decomposeOne h body vs done = (ps, done') → 2 ≤ body.length →
      body.length ≤ vs.length + 2 → (∀ s ∈ body, ok s) → (∀ p ∈ ps, p ∈ N.prods) →
      (∀ d ∈ done, d.1.length < body.length → Chain N.prods d.2 d.1 ∧ ∀ s ∈ d.1, ok s) →
      Chain N.prods h body ∧
      (∀ d ∈ done', d ∈ done ∨ (Chain N.prods d.2 d.1 ∧ ∀ s ∈ d.1, ok s)) ∧
      (∀ p ∈ ps, Emitted N ok h p) := by
  intro body
  induction body with
  | nil => intro h vs done ps done' _ hl; simp at hl
  | cons b rest ih =>
    intro h vs done ps done' heq hl hvs hbody hps hdone
    match rest, ih, heq, hl, hvs, hbody, hdone with
    | [], _, _, hl, _, _, _ => simp at hl
    | [c], _, heq, _, _, hbody, _ =>
      simp only [decomposeOne, Prod.mk.injEq] at heq
      obtain ⟨rfl, rfl⟩ := heq
      have hm : (h, [b, c]) ∈ N.prods := hps _ (by simp)
      refine ⟨Chain.two hm, fun d hd => Or.inl hd, ?_⟩
      intro p hp
      simp only [List.mem_singleton] at hp
      subst hp
      exact ⟨Reach.refl _, b, c, rfl, hbody b (by simp), Or.inl (hbody c (by simp))⟩
    | c :: c2 :: r, ih, heq, _, hvs, hbody, hdone =>
      match vs, heq, hvs with
      | [], _, hvs => simp at hvs
      | v :: vs', heq, hvs =>
        have hokb : ok b := hbody b (by simp)
        have hokrest : ∀ s ∈ c :: c2 :: r, ok s := fun s hs => hbody s (List.mem_cons_of_mem _ hs)
        simp only [decomposeOne] at heq
        split at heq
        · rename_i d hd
          simp only [Prod.mk.injEq] at heq
          obtain ⟨rfl, rfl⟩ := heq
          have hdm := List.mem_of_find?_eq_some hd
          have hd1 : d.1 = c :: c2 :: r := by simpa using List.find?_some hd
          have hch := hdone d hdm (by rw [hd1]; simp)
          rw [hd1] at hch
          have hm : (h, [b, .var d.2]) ∈ N.prods := hps _ (by simp)
          refine ⟨Chain.more (by simp) hm hch.1, fun d hd => Or.inl hd, ?_⟩
          intro p hp
          simp only [List.mem_singleton] at hp
          subst hp
          exact ⟨Reach.refl _, b, _, rfl, hokb, Or.inr ⟨_, _, rfl, hch.1, hch.2⟩⟩
        · rename_i hnone
          generalize hrec : decomposeOne v (c :: c2 :: r) vs' ((c :: c2 :: r, v) :: done) = res at heq
          obtain ⟨ps', done''⟩ := res
          simp only [Prod.mk.injEq] at heq
          obtain ⟨rfl, rfl⟩ := heq
          have hm : (h, [b, .var v]) ∈ N.prods := hps _ (by simp)
          obtain ⟨hch, hd', hem⟩ := ih v vs' ((c :: c2 :: r, v) :: done) ps' _ hrec (by simp) (by simp at hvs ⊢; omega)
            hokrest (fun p hp => hps p (List.mem_cons_of_mem _ hp)) (by
              intro d hd hlen
              rcases List.mem_cons.mp hd with rfl | hd
              · simp at hlen
              · exact hdone d hd (by simp at hlen ⊢; omega))
          refine ⟨Chain.more (by simp) hm hch, ?_, ?_⟩
          · intro d hd
            rcases hd' d hd with hd | hd
            · rcases List.mem_cons.mp hd with rfl | hd
              · exact Or.inr ⟨hch, hokrest⟩
              · exact Or.inl hd
            · exact Or.inr hd
          · intro p hp
            rcases List.mem_cons.mp hp with rfl | hp
            · exact ⟨Reach.refl _, b, _, rfl, hokb, Or.inr ⟨_, _, rfl, hch, hokrest⟩⟩
            · obtain ⟨hr, hrest⟩ := hem p hp
              obtain ⟨b', rfl⟩ := hok b hokb
              have hv : v ∈ bsucc N h := (mem_bsucc N h v).mpr ⟨b', v, hm, Or.inr rfl⟩
              exact ⟨Reach.head hv hr, hrest⟩


def dstep (G : CFG) (st : Nat × List Prod × List (List Sym × String)) (p : Prod) :
    Nat × List Prod × List (List Sym × String) :=
  let (idx, acc, done) := st
  if p.2.length ≤ 2 then (idx, acc ++ [p], done)
  else
    let (idx', vs) := G.freshVars (p.2.length - 2) idx
    let (ps, done') := decomposeOne p.1 p.2 vs done
    (idx', acc ++ ps, done')

theorem decompose_eq (G : CFG) (prods : List Prod) :
    G.decompose prods = (prods.foldl (dstep G) (0, [], [])).2.1 := rfl

theorem freshVars_length (G : CFG) (n idx : Nat) : (G.freshVars n idx).2.length = n := by
  induction n generalizing idx with
  | zero => simp [freshVars]
  | succ n ih =>
    simp only [freshVars, List.length_cons]
    rw [ih]

theorem dstep_short (G : CFG) (idx : Nat) (acc : List Prod) (done : List (List Sym × String))
    (p : Prod) (hp : p.2.length ≤ 2) : dstep G (idx, acc, done) p = (idx, acc ++ [p], done) := by
  simp [dstep, hp]

theorem dstep_long (G : CFG) (idx : Nat) (acc : List Prod) (done : List (List Sym × String))
    (p : Prod) (hp : ¬ p.2.length ≤ 2) :
    ∃ idx' vs ps done', vs.length = p.2.length - 2 ∧
      decomposeOne p.1 p.2 vs done = (ps, done') ∧
      dstep G (idx, acc, done) p = (idx', acc ++ ps, done') := by
  refine ⟨(G.freshVars (p.2.length - 2) idx).1, (G.freshVars (p.2.length - 2) idx).2,
    (decomposeOne p.1 p.2 (G.freshVars (p.2.length - 2) idx).2 done).1,
    (decomposeOne p.1 p.2 (G.freshVars (p.2.length - 2) idx).2 done).2,
    freshVars_length _ _ _, rfl, ?_⟩
  simp [dstep, hp]

theorem dstep_mono (G : CFG) (st : Nat × List Prod × List (List Sym × String)) (p : Prod)
    (q : Prod) (hq : q ∈ st.2.1) : q ∈ (dstep G st p).2.1 := by
  obtain ⟨idx, acc, done⟩ := st
  by_cases hp : p.2.length ≤ 2
  · rw [dstep_short _ _ _ _ _ hp]; exact List.mem_append_left _ hq
  · obtain ⟨idx', vs, ps, done', _, _, he⟩ := dstep_long G idx acc done p hp
    rw [he]; exact List.mem_append_left _ hq

theorem dfold_mono (G : CFG) (prods : List Prod)
    (st : Nat × List Prod × List (List Sym × String)) (q : Prod) (hq : q ∈ st.2.1) :
    q ∈ (prods.foldl (dstep G) st).2.1 := by
  induction prods generalizing st with
  | nil => exact hq
  | cons p ps ih => exact ih _ (dstep_mono G st p q hq)

theorem dfold_spec (G N : CFG) (ok : Sym → Prop) (hok : ∀ s, ok s → ∃ x, s = .var x) :
    ∀ (prods : List Prod) (st : Nat × List Prod × List (List Sym × String)),
      (∀ q ∈ (prods.foldl (dstep G) st).2.1, q ∈ N.prods) →
      (∀ p ∈ prods, 2 < p.2.length → ∀ s ∈ p.2, ok s) →
      (∀ d ∈ st.2.2, Chain N.prods d.2 d.1 ∧ ∀ s ∈ d.1, ok s) →
      (∀ p ∈ prods, p.2.length ≤ 2 → p ∈ (prods.foldl (dstep G) st).2.1) ∧
      (∀ p ∈ prods, 2 < p.2.length → Chain N.prods p.1 p.2) ∧
      (∀ q ∈ (prods.foldl (dstep G) st).2.1, q ∈ st.2.1 ∨
        (∃ p ∈ prods, p.2.length ≤ 2 ∧ q = p) ∨
        (∃ p ∈ prods, 2 < p.2.length ∧ Emitted N ok p.1 q)) := by
  intro prods
  induction prods with
  | nil =>
    intro st _ _ _
    exact ⟨by simp, by simp, fun q hq => Or.inl hq⟩
  | cons p ps ih =>
    intro st hsub hokp hdone
    obtain ⟨idx, acc, done⟩ := st
    rw [List.foldl_cons] at hsub ⊢
    by_cases hp : p.2.length ≤ 2
    · rw [dstep_short _ _ _ _ _ hp] at hsub ⊢
      obtain ⟨h1, h2, h3⟩ := ih (idx, acc ++ [p], done) hsub
        (fun p' hp' => hokp p' (List.mem_cons_of_mem _ hp')) hdone
      refine ⟨?_, ?_, ?_⟩
      · intro p' hp' hl
        rcases List.mem_cons.mp hp' with rfl | hp'
        · exact dfold_mono G ps _ _ (by simp)
        · exact h1 p' hp' hl
      · intro p' hp' hl
        rcases List.mem_cons.mp hp' with rfl | hp'
        · omega
        · exact h2 p' hp' hl
      · intro q hq
        rcases h3 q hq with hq | ⟨p', hp', hl, rfl⟩ | ⟨p', hp', hl, he⟩
        · rcases List.mem_append.mp hq with hq | hq
          · exact Or.inl hq
          · simp only [List.mem_singleton] at hq
            subst hq
            exact Or.inr (Or.inl ⟨q, by simp, hp, rfl⟩)
        · exact Or.inr (Or.inl ⟨q, List.mem_cons_of_mem _ hp', hl, rfl⟩)
        · exact Or.inr (Or.inr ⟨p', List.mem_cons_of_mem _ hp', hl, he⟩)
    · obtain ⟨idx', vs, ps', done', hvs, hdec, he⟩ := dstep_long G idx acc done p hp
      rw [he] at hsub ⊢
      have hps' : ∀ q ∈ ps', q ∈ N.prods := fun q hq =>
        hsub q (dfold_mono G ps _ q (List.mem_append_right _ hq))
      obtain ⟨hch, hd', hem⟩ := decomposeOne_spec N ok hok p.2 p.1 vs done ps' done' hdec
        (by omega) (by omega) (hokp p (by simp) (by omega)) hps'
        (fun d hd _ => hdone d hd)
      have hdone' : ∀ d ∈ done', Chain N.prods d.2 d.1 ∧ ∀ s ∈ d.1, ok s := by
        intro d hd
        rcases hd' d hd with hd | hd
        · exact hdone d hd
        · exact hd
      obtain ⟨h1, h2, h3⟩ := ih (idx', acc ++ ps', done') hsub
        (fun p' hp' => hokp p' (List.mem_cons_of_mem _ hp')) hdone'
      refine ⟨?_, ?_, ?_⟩
      · intro p' hp' hl
        rcases List.mem_cons.mp hp' with rfl | hp'
        · exact absurd hl hp
        · exact h1 p' hp' hl
      · intro p' hp' hl
        rcases List.mem_cons.mp hp' with rfl | hp'
        · exact hch
        · exact h2 p' hp' hl
      · intro q hq
        rcases h3 q hq with hq | ⟨p', hp', hl, rfl⟩ | ⟨p', hp', hl, he⟩
        · rcases List.mem_append.mp hq with hq | hq
          · exact Or.inl hq
          · exact Or.inr (Or.inr ⟨p, by simp, by omega, hem q hq⟩)
        · exact Or.inr (Or.inl ⟨q, List.mem_cons_of_mem _ hp', hl, rfl⟩)
        · exact Or.inr (Or.inr ⟨p', List.mem_cons_of_mem _ hp', hl, he⟩)


theorem chain_gen {N : CFG} {h : String} {body : List Sym} (hc : Chain N.prods h body) :
    ∀ w, N.GenList body w → N.Gen (.var h) w := by
  induction hc with
  | two hm => intro w hl; exact Gen.var hm hl
  | more _ hm _ ih =>
    intro w hl
    obtain ⟨w₁, w₂, rfl, h1, h2⟩ := (genList_cons_iff _ _ _ _).mp hl
    exact Gen.var hm ((genList_pair_iff _ _ _ _).mpr ⟨w₁, w₂, rfl, h1, ih w₂ h2⟩)

theorem genList_exists (N : CFG) (body : List Sym) (h : ∀ s ∈ body, ∃ w, N.Gen s w) :
    ∃ w, N.GenList body w := by
  induction body with
  | nil => exact ⟨[], GenList.nil⟩
  | cons s u ih =>
    obtain ⟨w₁, h1⟩ := h s (by simp)
    obtain ⟨w₂, h2⟩ := ih (fun s hs => h s (List.mem_cons_of_mem _ hs))
    exact ⟨w₁ ++ w₂, GenList.cons h1 h2⟩

theorem chain_reach {N : CFG} {h : String} {body : List Sym} (hc : Chain N.prods h body) :
    (∀ s ∈ body, ∃ x, s = Sym.var x) → ∀ x, Sym.var x ∈ body → Reach (bsucc N) h x := by
  induction hc with
  | @two h b c hm =>
    intro hv x hx
    obtain ⟨b', rfl⟩ := hv b (by simp)
    obtain ⟨c', rfl⟩ := hv c (by simp)
    have : x ∈ bsucc N h := (mem_bsucc N h x).mpr ⟨b', c', hm, by simpa using hx⟩
    exact Reach.tail (Reach.refl _) this
  | @more h b rest v _ hm _ ih =>
    intro hv x hx
    obtain ⟨b', rfl⟩ := hv b (by simp)
    rcases List.mem_cons.mp hx with hx | hx
    · have : x ∈ bsucc N h := (mem_bsucc N h x).mpr ⟨b', v, hm, by simp at hx; exact Or.inl hx⟩
      exact Reach.tail (Reach.refl _) this
    · have hv' : v ∈ bsucc N h := (mem_bsucc N h v).mpr ⟨b', v, hm, Or.inr rfl⟩
      exact Reach.head hv' (ih (fun s hs => hv s (List.mem_cons_of_mem _ hs)) x hx)

/-! ### `singleTerminals` -/

def stLift (tbl : List (String × String)) : Sym → Sym := fun s => match s with
  | .ter t => match tbl.find? (fun e => e.1 = t) with
    | some e => .var e.2
    | none => .ter t
  | .var v => .var v

def stUsed (G : CFG) : List String :=
  (G.prods.flatMap fun p => if p.2.length = 1 then [] else
      p.2.filterMap fun s => match s with
        | .ter t => if t ∈ G.ters then some t else none
        | .var _ => none).eraseDups

theorem singleTerminals_eq (G : CFG) : G.singleTerminals =
    (G.prods.map fun p => if p.2.length = 1 then p else (p.1, p.2.map (stLift G.termToVar))) ++
    (stUsed G).filterMap fun t =>
      (G.termToVar.find? fun e => e.1 = t).map fun e => (e.2, [.ter t]) := rfl

theorem termToVar_fst_aux (f : List (String × String) → String → String) (l : List String)
    (init : List (String × String)) :
    (l.foldl (fun tbl t => tbl ++ [(t, f tbl t)]) init).map (·.1) = init.map (·.1) ++ l := by
  induction l generalizing init with
  | nil => simp
  | cons t l ih => rw [List.foldl_cons, ih]; simp

theorem termToVar_fst (G : CFG) : G.termToVar.map (·.1) = G.ters := by
  unfold termToVar
  rw [termToVar_fst_aux (fun tbl t =>
    liftName G.vars (tbl.map (·.2)) (G.vars.length + tbl.length + 1) (t ++ "#CNF#"))]
  simp

theorem termToVar_find (G : CFG) (t : String) (ht : t ∈ G.ters) :
    ∃ e, G.termToVar.find? (fun e => e.1 = t) = some e := by
  rw [← termToVar_fst] at ht
  obtain ⟨e, he, rfl⟩ := List.mem_map.mp ht
  have : (G.termToVar.find? (fun e' => e'.1 = e.1)).isSome := by
    rw [List.find?_isSome]; exact ⟨e, he, by simp⟩
  exact Option.isSome_iff_exists.mp this


theorem st_short (G : CFG) (x : String) (body : List Sym) (hp : (x, body) ∈ G.prods)
    (hl : body.length = 1) : (x, body) ∈ G.singleTerminals := by
  rw [singleTerminals_eq]
  refine List.mem_append_left _ (List.mem_map.mpr ⟨(x, body), hp, ?_⟩)
  simp [hl]

theorem st_long (G : CFG) (x : String) (body : List Sym) (hp : (x, body) ∈ G.prods)
    (hl : body.length ≠ 1) : (x, body.map (stLift G.termToVar)) ∈ G.singleTerminals := by
  rw [singleTerminals_eq]
  refine List.mem_append_left _ (List.mem_map.mpr ⟨(x, body), hp, ?_⟩)
  simp [hl]

theorem st_ter (G : CFG) (hG : G.WF) (x : String) (body : List Sym) (hp : (x, body) ∈ G.prods)
    (hl : body.length ≠ 1) (t : String) (ht : Sym.ter t ∈ body) :
    ∃ e, G.termToVar.find? (fun e => e.1 = t) = some e ∧
      (e.2, [Sym.ter t]) ∈ G.singleTerminals := by
  have htt : t ∈ G.ters := hG.ter_mem _ hp t ht
  obtain ⟨e, he⟩ := termToVar_find G t htt
  refine ⟨e, he, ?_⟩
  rw [singleTerminals_eq]
  refine List.mem_append_right _ (List.mem_filterMap.mpr ⟨t, ?_, by rw [he]; rfl⟩)
  unfold stUsed
  rw [List.mem_eraseDups, List.mem_flatMap]
  refine ⟨(x, body), hp, ?_⟩
  simp only [hl, if_false]
  rw [List.mem_filterMap]
  exact ⟨.ter t, ht, by simp [htt]⟩

theorem st_cases (G : CFG) (q : Prod) (hq : q ∈ G.singleTerminals) :
    (q ∈ G.prods ∧ q.2.length = 1) ∨
    (∃ p ∈ G.prods, p.2.length ≠ 1 ∧ q = (p.1, p.2.map (stLift G.termToVar))) ∨
    (∃ t y, q = (y, [Sym.ter t])) := by
  rw [singleTerminals_eq] at hq
  rcases List.mem_append.mp hq with hq | hq
  · obtain ⟨p, hp, rfl⟩ := List.mem_map.mp hq
    by_cases hl : p.2.length = 1
    · rw [if_pos hl]; exact Or.inl ⟨hp, hl⟩
    · rw [if_neg hl]; exact Or.inr (Or.inl ⟨p, hp, hl, rfl⟩)
  · obtain ⟨t, _, ht⟩ := List.mem_filterMap.mp hq
    obtain ⟨e, _, he⟩ := Option.map_eq_some_iff.mp ht
    exact Or.inr (Or.inr ⟨t, e.2, he.symm⟩)

/-- the symbols allowed in the long bodies handed to `decompose` -/
def stOk (G : CFG) (s : Sym) : Prop :=
  ∃ y, s = Sym.var y ∧ (y ∈ G.vars ∨ ∃ t, (y, [Sym.ter t]) ∈ G.singleTerminals)

theorem stLift_ok (G : CFG) (hG : G.WF) (x : String) (body : List Sym)
    (hp : (x, body) ∈ G.prods) (hl : body.length ≠ 1) (s : Sym) (hs : s ∈ body) :
    ∃ y, stLift G.termToVar s = Sym.var y ∧
      ((s = Sym.var y ∧ y ∈ G.vars) ∨ ∃ t, s = Sym.ter t ∧ (y, [Sym.ter t]) ∈ G.singleTerminals) := by
  cases s with
  | var v => exact ⟨v, rfl, Or.inl ⟨rfl, hG.var_mem _ hp v hs⟩⟩
  | ter t =>
    obtain ⟨e, he, hm⟩ := st_ter G hG x body hp hl t hs
    refine ⟨e.2, ?_, Or.inr ⟨t, rfl, hm⟩⟩
    simp only [stLift, he]

theorem st_long_ok (G : CFG) (hG : G.WF) (p : Prod) (hp : p ∈ G.singleTerminals)
    (hl : 2 ≤ p.2.length) : ∀ s ∈ p.2, stOk G s := by
  rcases st_cases G p hp with ⟨_, h1⟩ | ⟨p', hp', hl', rfl⟩ | ⟨t, y, rfl⟩
  · omega
  · intro s hs
    obtain ⟨s', hs', rfl⟩ := List.mem_map.mp hs
    obtain ⟨y, hy, h⟩ := stLift_ok G hG p'.1 p'.2 hp' hl' s' hs'
    refine ⟨y, hy, ?_⟩
    rcases h with ⟨_, h⟩ | ⟨t, _, h⟩
    · exact Or.inl h
    · exact Or.inr ⟨t, h⟩
  · simp at hl


/-- `N` has the productions of the decomposed grammar of `G` -/
structure CnfOf (G N : CFG) : Prop where
  prods : ∀ q, q ∈ N.prods ↔ q ∈ G.decompose G.singleTerminals
  start : N.start = G.start

theorem cnf_struct (G N : CFG) (hG : G.WF) (hN : CnfOf G N) :
    (∀ p ∈ G.singleTerminals, p.2.length ≤ 2 → p ∈ N.prods) ∧
    (∀ p ∈ G.singleTerminals, 2 < p.2.length → Chain N.prods p.1 p.2) ∧
    (∀ q ∈ N.prods, (q ∈ G.singleTerminals ∧ q.2.length ≤ 2) ∨
      ∃ p ∈ G.singleTerminals, 2 < p.2.length ∧ Emitted N (stOk G) p.1 q) := by
  have := dfold_spec G N (stOk G) (fun s ⟨y, h, _⟩ => ⟨y, h⟩) G.singleTerminals (0, [], [])
    (by intro q hq; exact (hN.prods q).mpr (by rw [decompose_eq]; exact hq))
    (fun p hp hl => st_long_ok G hG p hp (by omega)) (by simp)
  obtain ⟨h1, h2, h3⟩ := this
  refine ⟨?_, h2, ?_⟩
  · intro p hp hl
    exact (hN.prods p).mpr (by rw [decompose_eq]; exact h1 p hp hl)
  · intro q hq
    have hq' := (hN.prods q).mp hq
    rw [decompose_eq] at hq'
    rcases h3 q hq' with h | ⟨p, hp, hl, rfl⟩ | h
    · simp at h
    · exact Or.inl ⟨hp, hl⟩
    · exact Or.inr h

theorem st_chain (G N : CFG) (hG : G.WF) (hN : CnfOf G N) (p : Prod)
    (hp : p ∈ G.singleTerminals) (hl : 2 ≤ p.2.length) : Chain N.prods p.1 p.2 := by
  obtain ⟨h1, h2, _⟩ := cnf_struct G N hG hN
  by_cases h : 2 < p.2.length
  · exact h2 p hp h
  · obtain ⟨x, body⟩ := p
    match body, hl, h, hp with
    | [b, c], _, _, hp => exact Chain.two (h1 _ hp (by simp))
    | [], hl, _, _ => simp at hl
    | [_], hl, _, _ => simp at hl
    | _ :: _ :: _ :: _, _, h, _ => simp at h

/-- facts about a grammar on the fast path of `toNormalForm` -/
structure FastFacts (G : CFG) : Prop where
  wf : G.WF
  noEps : ∀ p ∈ G.prods, p.2 ≠ []
  noUnit : ∀ p ∈ G.prods, isUnit p = false
  gen : ∀ v ∈ G.vars, ∃ w, G.Gen (.var v) w
  reach : ∀ v ∈ G.vars, Sym.var v ∈ G.reachable

theorem unit_body_ter (G : CFG) (hF : FastFacts G) (x : String) (body : List Sym)
    (hp : (x, body) ∈ G.prods) (hl : body.length = 1) : ∃ t, body = [Sym.ter t] := by
  match body, hl with
  | [.ter t], _ => exact ⟨t, rfl⟩
  | [.var v], _ =>
    have := hF.noUnit _ hp
    simp [isUnit] at this

/-- side condition on the symbols of a body for the transfer of derivations -/
def Side (G N : CFG) (s : Sym) : Prop :=
  ∃ y, stLift G.termToVar s = Sym.var y ∧
    (s = Sym.var y ∨ ∃ t, s = Sym.ter t ∧ (y, [Sym.ter t]) ∈ N.prods)

theorem side_of_body (G N : CFG) (hF : FastFacts G) (hN : CnfOf G N) (x : String)
    (body : List Sym) (hp : (x, body) ∈ G.prods) (hl : body.length ≠ 1) :
    ∀ s ∈ body, Side G N s := by
  intro s hs
  obtain ⟨y, hy, h⟩ := stLift_ok G hF.wf x body hp hl s hs
  refine ⟨y, hy, ?_⟩
  rcases h with ⟨h, _⟩ | ⟨t, ht, hm⟩
  · exact Or.inl h
  · exact Or.inr ⟨t, ht, (cnf_struct G N hF.wf hN).1 _ hm (by simp)⟩

theorem long_gen (G N : CFG) (hF : FastFacts G) (hN : CnfOf G N) (x : String)
    (body : List Sym) (hp : (x, body) ∈ G.prods) (hl : body.length ≠ 1) (w : List String)
    (hg : N.GenList (body.map (stLift G.termToVar)) w) : N.Gen (.var x) w := by
  have hst := st_long G x body hp hl
  have h0 := hF.noEps _ hp
  have hl2 : 2 ≤ (body.map (stLift G.termToVar)).length := by
    rw [List.length_map]
    cases body with
    | nil => exact absurd rfl h0
    | cons a t => cases t with
      | nil => simp at hl
      | cons b t => simp
  exact chain_gen (st_chain G N hF.wf hN _ hst hl2) w hg

mutual
theorem gen_transfer (G N : CFG) (hF : FastFacts G) (hN : CnfOf G N) :
    ∀ {s : Sym} {w : List String}, G.Gen s w → ∀ x, s = Sym.var x → N.Gen (.var x) w
  | _, _, .ter t => fun x hx => by cases hx
  | _, _, @Gen.var _ h body w hm hl =>
    have ih := genList_transfer G N hF hN hl
    fun x hx => by
    cases hx
    by_cases hlen : body.length = 1
    · obtain ⟨t, rfl⟩ := unit_body_ter G hF h body hm hlen
      have hw : w = [t] := by
        rw [genList_single_iff, gen_ter_iff] at hl; exact hl
      subst hw
      have hm' : (h, [Sym.ter t]) ∈ N.prods :=
        (cnf_struct G N hF.wf hN).1 _ (st_short G h _ hm hlen) (by simp)
      exact Gen.var hm' ((genList_single_iff _ _ _).mpr (Gen.ter t))
    · exact long_gen G N hF hN h body hm hlen w
        (ih (side_of_body G N hF hN h body hm hlen))
theorem genList_transfer (G N : CFG) (hF : FastFacts G) (hN : CnfOf G N) :
    ∀ {u : List Sym} {w : List String}, G.GenList u w → (∀ s ∈ u, Side G N s) →
      N.GenList (u.map (stLift G.termToVar)) w
  | _, _, .nil => fun _ => GenList.nil
  | _, _, @GenList.cons _ s u w₁ w₂ hs hu =>
    have ih1 := gen_transfer G N hF hN hs
    have ih2 := genList_transfer G N hF hN hu
    fun hside => by
    have h2 := ih2 (fun s hs => hside s (List.mem_cons_of_mem _ hs))
    obtain ⟨y, hy, hcase⟩ := hside s (by simp)
    rw [List.map_cons, hy]
    refine GenList.cons ?_ h2
    rcases hcase with rfl | ⟨t, rfl, hm⟩
    · exact ih1 y rfl
    · have : w₁ = [t] := (gen_ter_iff _ _ _).mp hs
      subst this
      exact Gen.var hm ((genList_single_iff _ _ _).mpr (Gen.ter t))
end


def rnext (G : CFG) : Sym → List Sym := fun x => match x with
  | .var v => G.prods.flatMap fun p => if p.1 = v then p.2 else []
  | .ter _ => []

theorem reachable_eq (G : CFG) : G.reachable = match G.start with
    | none => []
    | some s => (bfs (rnext G) ((G.prods.flatMap (·.2)).length + 2) [Sym.var s]).getD [] := rfl

theorem mem_rnext (G : CFG) (y z : Sym) (h : z ∈ rnext G y) :
    ∃ v body, y = Sym.var v ∧ (v, body) ∈ G.prods ∧ z ∈ body := by
  cases y with
  | ter t => simp [rnext] at h
  | var v =>
    simp only [rnext, List.mem_flatMap] at h
    obtain ⟨⟨x, body⟩, hp, hz⟩ := h
    split at hz
    · rename_i hx; simp only at hx; subst hx
      exact ⟨x, body, rfl, hp, hz⟩
    · cases hz

theorem reachable_reach (G : CFG) (z : Sym) (h : z ∈ G.reachable) :
    ∃ s, G.start = some s ∧ Reach (rnext G) (Sym.var s) z := by
  rw [reachable_eq] at h
  split at h
  · cases h
  · rename_i s hs
    refine ⟨s, hs, ?_⟩
    cases hb : bfs (rnext G) ((G.prods.flatMap (·.2)).length + 2) [Sym.var s] with
    | none => rw [hb] at h; simp at h
    | some res =>
      rw [hb] at h
      simp only [Option.getD_some] at h
      obtain ⟨s', hs', hr⟩ := (mem_bfs_iff _ _ _ _ hb z).mp h
      simp only [List.mem_singleton] at hs'
      subst hs'
      exact hr

theorem edge_transfer (G N : CFG) (hF : FastFacts G) (hN : CnfOf G N) (v : String)
    (body : List Sym) (x : String) (hp : (v, body) ∈ G.prods) (hx : Sym.var x ∈ body) :
    Reach (bsucc N) v x := by
  by_cases hlen : body.length = 1
  · obtain ⟨t, rfl⟩ := unit_body_ter G hF v body hp hlen
    simp at hx
  · have hst := st_long G v body hp hlen
    have h0 := hF.noEps _ hp
    have hl2 : 2 ≤ (body.map (stLift G.termToVar)).length := by
      rw [List.length_map]
      cases body with
      | nil => exact absurd rfl h0
      | cons a t => cases t with
        | nil => simp at hlen
        | cons b t => simp
    refine chain_reach (st_chain G N hF.wf hN _ hst hl2) ?_ x ?_
    · intro s hs
      obtain ⟨y, hy, _⟩ := st_long_ok G hF.wf _ hst hl2 s hs
      exact ⟨y, hy⟩
    · exact List.mem_map.mpr ⟨.var x, hx, rfl⟩

theorem reach_transfer (G N : CFG) (hF : FastFacts G) (hN : CnfOf G N) (x : String)
    (h : Sym.var x ∈ G.reachable) : ∃ s, N.start = some s ∧ Reach (bsucc N) s x := by
  obtain ⟨s, hs, hr⟩ := reachable_reach G _ h
  refine ⟨s, by rw [hN.start]; exact hs, ?_⟩
  have : ∀ z, Reach (rnext G) (Sym.var s) z → ∀ x, z = Sym.var x → Reach (bsucc N) s x := by
    intro z hz
    induction hz with
    | refl => intro x hx; cases hx; exact Reach.refl _
    | tail _ hz ih =>
      intro x hx
      subst hx
      obtain ⟨v, body, rfl, hp, hm⟩ := mem_rnext G _ _ hz
      exact Reach.trans (ih v rfl) (edge_transfer G N hF hN v body x hp hm)
  exact this _ hr x rfl

theorem st_head (G : CFG) (hG : G.WF) (q : Prod) (hq : q ∈ G.singleTerminals)
    (hl : 2 ≤ q.2.length) : q.1 ∈ G.vars := by
  rcases st_cases G q hq with ⟨h, _⟩ | ⟨p, hp, _, rfl⟩ | ⟨t, y, rfl⟩
  · exact hG.head_mem _ h
  · exact hG.head_mem p hp
  · simp at hl

theorem stOk_good (G N : CFG) (hF : FastFacts G) (hN : CnfOf G N) (s : Sym) (h : stOk G s) :
    ∃ w, N.Gen s w := by
  obtain ⟨y, rfl, h | ⟨t, h⟩⟩ := h
  · obtain ⟨w, hw⟩ := hF.gen y h
    exact ⟨w, gen_transfer G N hF hN hw y rfl⟩
  · have hm := (cnf_struct G N hF.wf hN).1 _ h (by simp)
    exact ⟨[t], Gen.var hm ((genList_single_iff _ _ _).mpr (Gen.ter t))⟩

theorem cnf_useful (G N : CFG) (hF : FastFacts G) (hN : CnfOf G N) : Useful N := by
  intro x b c hq
  rcases (cnf_struct G N hF.wf hN).2.2 _ hq with ⟨hst, _⟩ | ⟨p, hp, hl, hr, b0, X, hb, hokb, hX⟩
  · have hok := st_long_ok G hF.wf _ hst (by simp)
    refine ⟨stOk_good G N hF hN _ (hok _ (by simp)), stOk_good G N hF hN _ (hok _ (by simp)), ?_⟩
    exact reach_transfer G N hF hN x (hF.reach x (st_head G hF.wf _ hst (by simp)))
  · simp only [List.cons.injEq, and_true] at hb
    obtain ⟨rfl, rfl⟩ := hb
    refine ⟨stOk_good G N hF hN _ hokb, ?_, ?_⟩
    · rcases hX with hX | ⟨v, rest, hv, hch, hrest⟩
      · exact stOk_good G N hF hN _ hX
      · cases hv
        obtain ⟨w, hw⟩ := genList_exists N rest (fun s hs => stOk_good G N hF hN s (hrest s hs))
        exact ⟨w, chain_gen hch w hw⟩
    · obtain ⟨s, hs, hsr⟩ := reach_transfer G N hF hN p.1
        (hF.reach p.1 (st_head G hF.wf _ hp (by omega)))
      exact ⟨s, hs, Reach.trans hsr hr⟩


theorem full_of_length {α : Type} [DecidableEq α] (l m : List α) (hnd : l.Nodup) (hs : l ⊆ m)
    (hlen : m.length ≤ l.length) : (∀ a ∈ m, a ∈ l) ∧ m.Nodup := by
  have hp := (List.subperm_of_subset hnd hs).perm_of_length_le hlen
  exact ⟨fun a ha => hp.mem_iff.mpr ha, hp.nodup_iff.mp hnd⟩

theorem reachable_nodup (G : CFG) : G.reachable.Nodup := by
  rw [reachable_eq]
  split
  · simp
  · rename_i s hs
    cases hb : bfs (rnext G) ((G.prods.flatMap (·.2)).length + 2) [Sym.var s] with
    | none => simp
    | some res =>
      simp only [Option.getD_some]
      unfold bfs at hb
      have := bfsK_nodup id (rnext G) _ _ _ res hb (by
        simpa using nodup_eraseDups_w [Sym.var s])
      simpa using this

def allSyms (G : CFG) : List Sym := G.vars.map Sym.var ++ G.ters.map Sym.ter

theorem reachable_subset (G : CFG) (hG : G.WF) : G.reachable ⊆ allSyms G := by
  intro z hz
  obtain ⟨s, hs, hr⟩ := reachable_reach G z hz
  clear hz
  induction hr with
  | refl => exact List.mem_append_left _ (List.mem_map.mpr ⟨s, hG.start_mem s hs, rfl⟩)
  | @tail y z' _ hz' _ =>
    obtain ⟨v, body, _, hp, hm⟩ := mem_rnext G _ _ hz'
    cases z' with
    | var x => exact List.mem_append_left _ (List.mem_map.mpr ⟨x, hG.var_mem _ hp x hm, rfl⟩)
    | ter t => exact List.mem_append_right _ (List.mem_map.mpr ⟨t, hG.ter_mem _ hp t hm, rfl⟩)

theorem generating_subset (G : CFG) (hG : G.WF) : G.generating ⊆ allSyms G := by
  intro z hz
  rcases (mem_generating_iff G hG z).mp hz with ⟨t, rfl, ht⟩ | ⟨v, w, rfl, hg⟩
  · exact List.mem_append_right _ (List.mem_map.mpr ⟨t, ht, rfl⟩)
  · obtain ⟨body, hp, _⟩ := (gen_var_iff G v w).mp hg
    exact List.mem_append_left _ (List.mem_map.mpr ⟨v, hG.head_mem _ hp, rfl⟩)

theorem fastFacts_of (G : CFG) (hG : G.WF) (h : G.isFastPath = true) : FastFacts G := by
  simp only [isFastPath, Bool.and_eq_true, decide_eq_true_eq, Bool.not_eq_true',
    List.length_eq_zero_iff] at h
  obtain ⟨⟨⟨⟨hnul, _⟩, hunit⟩, hgen⟩, hreach⟩ := h
  have hlen : (allSyms G).length = G.vars.length + G.ters.length := by simp [allSyms]
  have hR := full_of_length G.reachable (allSyms G) (reachable_nodup G) (reachable_subset G hG)
    (by omega)
  have htn : G.ters.Nodup := by
    have := hR.2
    unfold allSyms at this
    exact List.Nodup.of_map _ (List.nodup_append.mp this).2.1
  have hGn := full_of_length G.generating (allSyms G) (generating_nodup G htn)
    (generating_subset G hG) (by omega)
  refine ⟨hG, ?_, ?_, ?_, ?_⟩
  · rintro ⟨x, body⟩ hp hb
    simp only at hb
    subst hb
    have : Sym.var x ∈ G.nullable :=
      (mem_nullable_iff G _).mpr ⟨x, rfl, Gen.var hp GenList.nil⟩
    rw [hnul] at this
    cases this
  · intro p hp
    have := List.any_eq_false.mp hunit p hp
    simpa using this
  · intro v hv
    have hm : Sym.var v ∈ G.generating :=
      hGn.1 _ (List.mem_append_left _ (List.mem_map.mpr ⟨v, hv, rfl⟩))
    rcases (mem_generating_iff G hG _).mp hm with ⟨t, ht, _⟩ | ⟨v', w, hv', hg⟩
    · cases ht
    · cases hv'; exact ⟨w, hg⟩
  · intro v hv
    exact hR.1 _ (List.mem_append_left _ (List.mem_map.mpr ⟨v, hv, rfl⟩))

theorem toNormalForm_useful (G : CFG) (hG : G.WF) (fuel : Nat) (N : CFG)
    (h : G.toNormalForm fuel = some N) : Useful N := by
  induction fuel generalizing G with
  | zero => simp [toNormalForm] at h
  | succ n ih =>
    unfold toNormalForm at h
    split at h
    · rename_i hfast
      cases h
      refine cnf_useful G _ (fastFacts_of G hG hfast) ⟨?_, rfl⟩
      intro q
      show q ∈ (G.decompose G.singleTerminals).eraseDups ↔ _
      exact List.mem_eraseDups
    · split at h
      · rename_i h0
        cases h
        intro x b c hq
        have : N.prods = [] := List.eq_nil_of_length_eq_zero h0
        rw [this] at hq; cases hq
      · exact ih _ (mk'_wf _ _ _ _) h

end Words
end CFG
end Pfl
