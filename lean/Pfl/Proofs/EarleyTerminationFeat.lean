/-
Termination of the Earley model (C18), part 7: the tight bound in the general case.  The symbol
records of a state's record are pairwise distinct, its leaves coincide exactly as those of its
production do (a leaf may be new: the dummy rule), so the pattern of a state is determined by the
values of its leaves: at most `(|vals|+2)^(L+1)` states under one key.
-/
import Pfl.Proofs.EarleyTerminationPlain
import Pfl.Proofs.EarleyTerminationUnify
namespace Pfl
namespace Earley
namespace Term
open FsDag FsDag.Lem Lem Cmp

/-! ### the shape of the objects -/

/-- every object is empty, has the one feature `n`, or has a feature other than `n` (a record of
a production) -/
def SingSt (st : Store) : Prop :=
  ∀ i, cont st i = [] ∨ (∃ y, cont st i = [("n", y)]) ∨ (∃ g x, (g, x) ∈ cont st i ∧ g ≠ "n")

theorem sing_copy {st : Store} {F : Nat} {st1 : Store} {F' : Nat} {κ : Nat → Nat}
    {dom : Nat → Prop} {π : Nat → Nat} (hc : CopySpec st F st1 F' κ dom π) (hp : SingSt st) :
    SingSt st1 := by
  intro n
  rcases hc.cases n with ⟨h1, h2⟩ | ⟨h1, h2, h3, h4⟩ | ⟨h1, _⟩
  · rw [cont, h2]; exact hp n
  · have hnode := hc.node _ h3
    rw [h4] at hnode
    rw [cont, hnode]
    show (cont st (π n)).map (fun e => (e.1, κ e.2)) = [] ∨ _
    rcases hp (π n) with h | ⟨y, h⟩ | ⟨g, x, h, hg⟩
    · left; rw [h]; rfl
    · right; left; exact ⟨κ y, by rw [h]; rfl⟩
    · right; right
      exact ⟨g, κ x, List.mem_map.2 ⟨(g, x), h, rfl⟩, hg⟩
  · left; rw [cont, get_ge h1]; rfl

theorem sing_setPointer {st : Store} (hp : SingSt st) (c d : Nat) : SingSt (setPointer st c d) := by
  intro i; rw [cont_setPointer]; exact hp i

theorem sing_addFresh {st : Store} (hp : SingSt st) {ca : Nat} (hca : ca < st.length)
    (hc0 : cont st ca = []) : SingSt (addFresh st ca "n") := by
  intro i
  rw [cont_addFresh "n" hca]
  split
  · right; left; exact ⟨st.length, by rw [hc0]; rfl⟩
  · exact hp i

/-- a symbol record is empty or has the one feature `n` -/
theorem sing_rank1 {st : Store} {rk : Nat → Nat} (hp : SingSt st) (hn : AllN st rk) {i : Nat}
    (hi : rk i = 1) : cont st i = [] ∨ ∃ y, cont st i = [("n", y)] := by
  rcases hp i with h | h | ⟨g, x, h, hg⟩
  · exact Or.inl h
  · exact Or.inr h
  · exact absurd (hn i g x hi h) hg

/-! ### the shape of a state's record relative to its production -/

structure TSh (st : Store) (L F P : Nat) : Prop where
  sd : ∀ i j c, i ≤ L → j ≤ L → slotOf st F i = some c → slotOf st F j = some c → i = j
  se : ∀ i, i ≤ L → (slotOf st F i).isSome = (slotOf st P i).isSome
  leaf : ∀ i j, i ≤ L → j ≤ L → i ≠ j →
    ((∃ x, leafOf st F i = some x ∧ leafOf st F j = some x) ↔
      (∃ x, leafOf st P i = some x ∧ leafOf st P j = some x))
  ex : ∀ i, i ≤ L → (leafOf st P i).isSome = true → (leafOf st F i).isSome = true

theorem TSh.fr {st st' : Store} (hf : Fr st st') (ha : Acyc st) (hr : Rng st) {L F P : Nat}
    (hF : F < st.length) (hP : P < st.length) (h : TSh st L F P) : TSh st' L F P := by
  refine ⟨?_, ?_, ?_, ?_⟩
  · intro i j c hi hj
    rw [slotOf_fr hf ha hr hF, slotOf_fr hf ha hr hF]
    exact h.sd i j c hi hj
  · intro i hi
    rw [slotOf_fr hf ha hr hF, slotOf_fr hf ha hr hP]
    exact h.se i hi
  · intro i j hi hj hij
    rw [leafOf_fr hf ha hr hF, leafOf_fr hf ha hr hF, leafOf_fr hf ha hr hP, leafOf_fr hf ha hr hP]
    exact h.leaf i j hi hj hij
  · intro i hi
    rw [leafOf_fr hf ha hr hF, leafOf_fr hf ha hr hP]
    exact h.ex i hi

/-- transfer of the shape along a change of the store that renames the symbol records by `α`
and the leaves by `β` (both injective on the objects `R` of the record) and possibly creates one
leaf `y0` (at `j0`) that is none of the renamed ones -/
theorem TSh.transfer {st st' : Store} {L F P : Nat} (h : TSh st L F P)
    (hPs : ∀ j, slotOf st' P j = slotOf st P j) (hPl : ∀ j, leafOf st' P j = leafOf st P j)
    (α β : Nat → Nat) (R : Nat → Prop)
    (hRs : ∀ j u, slotOf st F j = some u → R u) (hRl : ∀ j u, leafOf st F j = some u → R u)
    (hα : ∀ u v, R u → R v → α u = α v → u = v) (hβ : ∀ u v, R u → R v → β u = β v → u = v)
    (j0 : Option Nat) (y0 : Nat)
    (hs : ∀ j, j ≤ L → slotOf st' F j = (slotOf st F j).map α)
    (hl : ∀ j, j ≤ L → leafOf st' F j =
      if some j = j0 then some y0 else (leafOf st F j).map β)
    (hj0 : ∀ j, some j = j0 → leafOf st F j = none)
    (hy0 : ∀ u, R u → β u ≠ y0) : TSh st' L F P := by
  refine ⟨?_, ?_, ?_, ?_⟩
  · intro i j c hi hj h1 h2
    rw [hs i hi] at h1; rw [hs j hj] at h2
    simp only [Option.map_eq_some_iff] at h1 h2
    obtain ⟨u, hu, hu'⟩ := h1
    obtain ⟨v, hv, hv'⟩ := h2
    have := hα u v (hRs i u hu) (hRs j v hv) (by rw [hu', hv'])
    subst this
    exact h.sd i j u hi hj hu hv
  · intro i hi
    rw [hs i hi, hPs, Option.isSome_map]
    exact h.se i hi
  · intro i j hi hj hij
    rw [hPl, hPl, ← h.leaf i j hi hj hij, hl i hi, hl j hj]
    by_cases hi0 : some i = j0
    · -- the new leaf is shared with nothing
      have hj0' : ¬ some j = j0 := by
        intro e; rw [← hi0] at e; exact hij (Option.some.inj e).symm
      rw [if_pos hi0, if_neg hj0']
      constructor
      · rintro ⟨x, h1, h2⟩
        simp only [Option.some.injEq] at h1
        subst h1
        simp only [Option.map_eq_some_iff] at h2
        obtain ⟨u, hu, hu'⟩ := h2
        exact absurd hu' (hy0 u (hRl j u hu))
      · rintro ⟨x, h1, _⟩
        rw [hj0 i hi0] at h1; simp at h1
    · by_cases hj0' : some j = j0
      · rw [if_neg hi0, if_pos hj0']
        constructor
        · rintro ⟨x, h1, h2⟩
          simp only [Option.some.injEq] at h2
          subst h2
          simp only [Option.map_eq_some_iff] at h1
          obtain ⟨u, hu, hu'⟩ := h1
          exact absurd hu' (hy0 u (hRl i u hu))
        · rintro ⟨x, _, h2⟩
          rw [hj0 j hj0'] at h2; simp at h2
      · rw [if_neg hi0, if_neg hj0']
        constructor
        · rintro ⟨x, h1, h2⟩
          simp only [Option.map_eq_some_iff] at h1 h2
          obtain ⟨u, hu, hu'⟩ := h1
          obtain ⟨v, hv, hv'⟩ := h2
          have := hβ u v (hRl i u hu) (hRl j v hv) (by rw [hu', hv'])
          subst this
          exact ⟨u, hu, hv⟩
        · rintro ⟨x, h1, h2⟩
          exact ⟨β x, by rw [h1]; rfl, by rw [h2]; rfl⟩
  · intro i hi hp
    rw [hPl] at hp
    have := h.ex i hi hp
    rw [hl i hi]
    split
    · rfl
    · rw [Option.isSome_map]; exact this

theorem leafOf_copy {st : Store} {F : Nat} {st1 : Store} {F' : Nat} {κ : Nat → Nat}
    {dom : Nat → Prop} {π : Nat → Nat} (hc : CopySpec st F st1 F' κ dom π) (hr : Rng st)
    (ha : Acyc st) (j : Nat) :
    leafOf st1 F' j = (leafOf st F j).map κ ∧ ∀ u, leafOf st F j = some u → dom u := by
  obtain ⟨hd, hdd⟩ := hc.deref_κ hr ha F hc.domF
  unfold leafOf
  rw [byPath_two, byPath_two, ← hc.κF, hd, cont, hc.node _ hdd]
  show Option.map (deref st1) (Option.bind
    (lookupC (lab j) ((cont st (deref st F)).map fun e => (e.1, κ e.2))) _) = _ ∧ _
  rw [lookupC_map]
  cases hl : lookupC (lab j) (cont st (deref st F)) with
  | none => simp
  | some r =>
    have hdr := hc.dom_cont _ _ r hdd (lookupC_mem hl)
    obtain ⟨h1, h2⟩ := hc.deref_κ hr ha r hdr
    simp only [Option.map_some, Option.bind_some]
    rw [h1, cont, hc.node _ h2]
    show Option.map (deref st1) (lookupC "n" ((cont st (deref st r)).map fun e => (e.1, κ e.2))) =
      _ ∧ _
    rw [lookupC_map]
    cases hx : lookupC "n" (cont st (deref st r)) with
    | none => simp
    | some x =>
      have hdx := hc.dom_cont _ _ x h2 (lookupC_mem hx)
      obtain ⟨h3, h4⟩ := hc.deref_κ hr ha x hdx
      simp only [Option.map_some, Option.some.injEq]
      exact ⟨h3, fun u hu => by rw [← hu]; exact h4⟩

/-- the copy of a record has the shape of the record -/
theorem TSh.copy {st : Store} {F : Nat} {st1 : Store} {F' : Nat} {κ : Nat → Nat}
    {dom : Nat → Prop} {π : Nat → Nat} (hc : CopySpec st F st1 F' κ dom π) (hr : Rng st)
    (ha : Acyc st) {L P : Nat} (hP : P < st.length) (h : TSh st L F P) : TSh st1 L F' P := by
  have hf := copy_fr hc
  have hPs : ∀ j, slotOf st1 P j = slotOf st P j := fun j => slotOf_fr hf ha hr hP j
  have hPl : ∀ j, leafOf st1 P j = leafOf st P j := fun j => leafOf_fr hf ha hr hP j
  refine ⟨?_, ?_, ?_, ?_⟩
  · intro i j c hi hj h1 h2
    rw [(slotOf_copy hc hr ha i).1] at h1
    rw [(slotOf_copy hc hr ha j).1] at h2
    simp only [Option.map_eq_some_iff] at h1 h2
    obtain ⟨u, hu, hu'⟩ := h1
    obtain ⟨v, hv, hv'⟩ := h2
    have := hc.inj u v ((slotOf_copy hc hr ha i).2 u hu) ((slotOf_copy hc hr ha j).2 v hv)
      (by rw [hu', hv'])
    subst this
    exact h.sd i j u hi hj hu hv
  · intro i hi
    rw [(slotOf_copy hc hr ha i).1, hPs, Option.isSome_map]
    exact h.se i hi
  · intro i j hi hj hij
    rw [hPl, hPl, ← h.leaf i j hi hj hij, (leafOf_copy hc hr ha i).1, (leafOf_copy hc hr ha j).1]
    constructor
    · rintro ⟨x, h1, h2⟩
      simp only [Option.map_eq_some_iff] at h1 h2
      obtain ⟨u, hu, hu'⟩ := h1
      obtain ⟨v, hv, hv'⟩ := h2
      have := hc.inj u v ((leafOf_copy hc hr ha i).2 u hu) ((leafOf_copy hc hr ha j).2 v hv)
        (by rw [hu', hv'])
      subst this
      exact ⟨u, hu, hv⟩
    · rintro ⟨x, h1, h2⟩
      exact ⟨κ x, by rw [h1]; rfl, by rw [h2]; rfl⟩
  · intro i hi hp
    rw [hPl] at hp
    rw [(leafOf_copy hc hr ha i).1, Option.isSome_map]
    exact h.ex i hi hp

/-! ### the pattern is determined by the values of the leaves -/

theorem pat_of_tsh {vals : List String} {L : Nat} {st : Store} {a b P : Nat}
    (ha : TSh st L a P) (hb : TSh st L b P)
    (hcode : ∀ i, i ≤ L → leafCode vals st a i = leafCode vals st b i) :
    pat vals L st a = pat vals L st b := by
  funext i
  have hi : i.val ≤ L := Nat.le_of_lt_succ i.isLt
  -- existence of the leaves
  have hex : ∀ k, k ≤ L → ((leafOf st a k).isSome = (leafOf st b k).isSome) := by
    intro k hk
    have := hcode k hk
    unfold leafCode at this
    cases h1 : leafOf st a k <;> cases h2 : leafOf st b k <;> simp_all
  have h1 : (fun j : Fin (L + 1) => decide (∃ c, slotOf st a i = some c ∧ slotOf st a j = some c)) =
      fun j : Fin (L + 1) => decide (∃ c, slotOf st b i = some c ∧ slotOf st b j = some c) := by
    funext j
    have hj : j.val ≤ L := Nat.le_of_lt_succ j.isLt
    apply decide_eq_decide.2
    have hse : (slotOf st a i).isSome = (slotOf st b i).isSome := by rw [ha.se i hi, hb.se i hi]
    constructor
    · rintro ⟨c, g1, g2⟩
      have hij := ha.sd i j c hi hj g1 g2
      rw [g1] at hse
      obtain ⟨c', hc'⟩ := Option.isSome_iff_exists.1 hse.symm
      refine ⟨c', hc', ?_⟩
      rw [← Fin.ext hij]; exact hc'
    · rintro ⟨c, g1, g2⟩
      have hij := hb.sd i j c hi hj g1 g2
      rw [g1] at hse
      obtain ⟨c', hc'⟩ := Option.isSome_iff_exists.1 hse
      refine ⟨c', hc', ?_⟩
      rw [← Fin.ext hij]; exact hc'
  have h2 : (fun j : Fin (L + 1) => decide (∃ x, leafOf st a i = some x ∧ leafOf st a j = some x)) =
      fun j : Fin (L + 1) => decide (∃ x, leafOf st b i = some x ∧ leafOf st b j = some x) := by
    funext j
    have hj : j.val ≤ L := Nat.le_of_lt_succ j.isLt
    apply decide_eq_decide.2
    by_cases hij : i.val = j.val
    · have := hex i hi
      rw [← Fin.ext hij]
      constructor
      · rintro ⟨x, g1, _⟩
        rw [g1] at this
        obtain ⟨x', hx'⟩ := Option.isSome_iff_exists.1 this.symm
        exact ⟨x', hx', hx'⟩
      · rintro ⟨x, g1, _⟩
        rw [g1] at this
        obtain ⟨x', hx'⟩ := Option.isSome_iff_exists.1 this
        exact ⟨x', hx', hx'⟩
    · exact (ha.leaf i j hi hj hij).trans (hb.leaf i j hi hj hij).symm
  simp only [pat, h1, h2, hcode i hi]

/-- the values of the leaves -/
def tpat (vals : List String) (L : Nat) (st : Store) (F : Nat) : Fin (L + 1) → Fin (vals.length + 2) :=
  fun i => ⟨leafCode vals st F i % (vals.length + 2), Nat.mod_lt _ (by omega)⟩

theorem leafCode_lt2 {vals : List String} {st : Store}
    (hap : ∀ i v, val st i = some v → v ∈ vals) (F j : Nat) :
    leafCode vals st F j < vals.length + 2 := by
  unfold leafCode
  split
  · omega
  · rename_i x _
    cases hv : val st x with
    | none => simp [valCode]
    | some v =>
      simp only [valCode]
      have := List.idxOf_lt_length_of_mem (hap x v hv)
      omega

theorem tpat_code {vals : List String} {L : Nat} {st : Store}
    (hap : ∀ i v, val st i = some v → v ∈ vals) {a b : Nat}
    (h : tpat vals L st a = tpat vals L st b) (i : Nat) (hi : i ≤ L) :
    leafCode vals st a i = leafCode vals st b i := by
  have h1 := congrArg (fun p => (p ⟨i, by omega⟩).val) h
  simp only [tpat] at h1
  rw [Nat.mod_eq_of_lt (leafCode_lt2 hap ..), Nat.mod_eq_of_lt (leafCode_lt2 hap ..)] at h1
  exact h1

/-! ### views of a record across a pointer update -/

theorem leafOf_none_of_slot {st : Store} {F j c : Nat} (hs : slotOf st F j = some c)
    (hc0 : cont st c = []) : leafOf st F j = none := by
  cases h : leafOf st F j with
  | none => rfl
  | some u =>
    obtain ⟨c', x, h1, h2, _⟩ := leafOf_some h
    rw [slotOf_of h1] at hs
    simp only [Option.some.injEq] at hs
    rw [hs, hc0] at h2
    simp [lookupC] at h2

theorem map_id_of {o : Option Nat} {φ : Nat → Nat} (h : ∀ u, o = some u → φ u = u) :
    o.map φ = o := by
  cases o with
  | none => rfl
  | some u => simp [h u rfl]

/-- the updated object is neither the root nor a symbol record of `F`: the symbol records stay,
the leaves are renamed -/
theorem view_setPtr_leaf {st : Store} (ha : Acyc st) {c d : Nat} (hc : ptr st c = none)
    (hd : ptr st d = none) (hcd : c ≠ d) (hlt : c < st.length) {F : Nat} (hF : deref st F ≠ c)
    (hS : ∀ j, slotOf st F j ≠ some c) (j : Nat) :
    slotOf (setPointer st c d) F j = slotOf st F j ∧
      leafOf (setPointer st c d) F j = (leafOf st F j).map fun z => if z = c then d else z := by
  refine ⟨?_, leafOf_setPtr ha hc hd hcd hlt hF j (hS j)⟩
  rw [slotOf_setPtr ha hc hd hcd hlt hF]
  apply map_id_of
  intro u hu
  rw [if_neg]
  intro e
  exact hS j (by rw [hu, e])

/-- the updated object is no object of the record `F` -/
theorem view_setPtr_out {st : Store} (ha : Acyc st) {c d : Nat} (hc : ptr st c = none)
    (hd : ptr st d = none) (hcd : c ≠ d) (hlt : c < st.length) {F : Nat} (hF : deref st F ≠ c)
    (hS : ∀ j, slotOf st F j ≠ some c) (hL : ∀ j, leafOf st F j ≠ some c) (j : Nat) :
    slotOf (setPointer st c d) F j = slotOf st F j ∧
      leafOf (setPointer st c d) F j = leafOf st F j := by
  obtain ⟨h1, h2⟩ := view_setPtr_leaf ha hc hd hcd hlt hF hS j
  refine ⟨h1, ?_⟩
  rw [h2]
  apply map_id_of
  intro u hu
  rw [if_neg]
  intro e
  exact hL j (by rw [hu, e])

/-! ### the invariant of the general case -/

structure TF (C : Ctx) (vals : List String) (L : Nat) (T : Tables) (rk : Nat → Nat)
    (X : List (Nat × EState)) : Prop where
  tb : TB C vals L T rk X
  sing : SingSt T.store
  pfs : ∀ k, (prodOf C.G k).feats < T.store.length
  sdo : ∀ k, TSh T.store L (prodOf C.G k).feats (prodOf C.G k).feats
  tsc : ∀ j s, s ∈ colGet T.chart j → TSh T.store L s.fs (prodOf C.G s.prod).feats
  tsp : ∀ j s, s ∈ procStates T j → TSh T.store L s.fs (prodOf C.G s.prod).feats
  tsx : ∀ e ∈ X, TSh T.store L e.2.fs (prodOf C.G e.2.prod).feats

section
variable {C : Ctx} {vals : List String} {L : Nat}

theorem TF.weaken {T : Tables} {rk : Nat → Nat} {X X' : List (Nat × EState)}
    (h : TF C vals L T rk X) (hsub : ∀ e ∈ X', e ∈ X) : TF C vals L T rk X' :=
  ⟨h.tb.weaken hsub, h.sing, h.pfs, h.sdo, h.tsc, h.tsp, fun e he => h.tsx e (hsub e he)⟩

theorem TF.withProc {T : Tables} {rk : Nat → Nat} {X : List (Nat × EState)}
    (h : TF C vals L T rk X) (j : Nat) :
    TF C vals L T rk (X ++ (procStates T j).map fun nx => (j, nx)) := by
  refine ⟨h.tb.withProc j, h.sing, h.pfs, h.sdo, h.tsc, h.tsp, ?_⟩
  intro e he
  rcases List.mem_append.1 he with he | he
  · exact h.tsx e he
  · rw [List.mem_map] at he
    obtain ⟨nx, hnx, rfl⟩ := he
    exact h.tsp _ _ hnx

theorem TF.pop {T : Tables} {rk : Nat → Nat} (h : TF C vals L T rk []) {i : Nat} {s : EState}
    (hs : s ∈ colGet T.chart i) : TF C vals L (popT T i) rk [(i, s)] := by
  have hsub : ∀ j s', s' ∈ colGet (popT T i).chart j → s' ∈ colGet T.chart j := by
    intro j s' hm
    unfold popT at hm
    simp only at hm
    rcases mem_colGet_set hm with ⟨rfl, h2⟩ | h2
    · exact List.dropLast_subset _ h2
    · exact h2
  refine ⟨h.tb.pop hs, h.sing, h.pfs, h.sdo, fun j s' hm => h.tsc j s' (hsub j s' hm), h.tsp, ?_⟩
  intro e he
  simp only [List.mem_singleton] at he; subst he
  exact h.tsc i s hs

theorem TF.store {T : Tables} {rk rk' : Nat → Nat} {X : List (Nat × EState)}
    (h : TF C vals L T rk X) {st' : Store} (hT' : TB C vals L { T with store := st' } rk' X)
    (hf : Fr T.store st') (hp : SingSt st') : TF C vals L { T with store := st' } rk' X := by
  have hw := h.tb.base.inv.wf
  have ha := hw.inv.acyc
  have hr := hw.rng
  refine ⟨hT', hp, fun k => Nat.lt_of_lt_of_le (h.pfs k) hf.len, ?_, ?_, ?_, ?_⟩
  · intro k
    exact (h.sdo k).fr hf ha hr (h.pfs _) (h.pfs _)
  · intro j s hs
    exact (h.tsc j s hs).fr hf ha hr (h.tb.base.inv.chart j s hs).fs_lt (h.pfs _)
  · intro j s hs
    exact (h.tsp j s hs).fr hf ha hr (h.tb.base.inv.proc j s hs).fs_lt (h.pfs _)
  · intro e he
    exact (h.tsx e he).fr hf ha hr (h.tb.base.inv.extra e he).fs_lt (h.pfs _)

theorem TF.push {T : Tables} {rk : Nat → Nat} {X : List (Nat × EState)}
    (h : TF C vals L T rk X) {i : Nat} {s : EState}
    (hT' : TB C vals L (pushIfNew C.G T i s) rk X)
    (hts : TSh T.store L s.fs (prodOf C.G s.prod).feats) :
    TF C vals L (pushIfNew C.G T i s) rk X := by
  have hst := pushIfNew_store C.G T i s
  refine ⟨hT', by rw [hst]; exact h.sing, by rw [hst]; exact h.pfs, by rw [hst]; exact h.sdo, ?_, ?_,
    by rw [hst]; exact h.tsx⟩
  · intro j s' hm
    rw [hst]
    rw [pushIfNew_chart] at hm
    split at hm
    · rcases mem_colGet_set hm with ⟨rfl, h2⟩ | h2
      · rcases List.mem_append.1 h2 with h3 | h3
        · exact h.tsc _ s' h3
        · simp only [List.mem_singleton] at h3; subst h3; exact hts
      · exact h.tsc j s' h2
    · exact h.tsc j s' hm
  · intro j s' hm
    rw [hst]
    rw [pushIfNew_proc] at hm
    rcases procAdd_states C.G T i s j s' hm with ⟨rfl, rfl⟩ | h2
    · exact hts
    · exact h.tsp j s' h2

/-- the bound of a column in the general case -/
def colBoundT (S W L m : Nat) : Nat := (S + 1) * (W + 1) * (L + 1) * (m + 2) ^ (L + 1)

/-- under a key the states differ in the values of their leaves -/
theorem TF.acc_le (hc : TC C vals L) {T : Tables} {rk : Nat → Nat} {X : List (Nat × EState)}
    (h : TF C vals L T rk X) (j : Nat) :
    acc T j ≤ colBoundT C.spec.length C.word.length L vals.length := by
  rw [acc_eq]
  have hap : ∀ i v, val T.store i = some v → v ∈ vals :=
    fun i v hv => hc.pvals v (h.tb.base.sx.ap i v hv)
  have h1 : ∀ e ∈ colGet T.processed j, e.2.length ≤ (vals.length + 2) ^ (L + 1) := by
    intro e he
    have hnd := h.tb.pn j e he
    have hkeys := h.tb.base.keys j e he
    have hinj : ∀ o1 ∈ e.2, ∀ o2 ∈ e.2,
        tpat vals L T.store o1.fs = tpat vals L T.store o2.fs → o1 = o2 := by
      intro o1 m1 o2 m2 heq
      have hprod : o1.prod = o2.prod := by
        have := (hkeys o1 m1).trans (hkeys o2 m2).symm
        simp only [Prod.mk.injEq] at this
        exact this.1
      have t1 := h.tsp j o1 (mem_proc_of_entry he m1)
      have t2 := h.tsp j o2 (mem_proc_of_entry he m2)
      rw [hprod] at t1
      have hp := pat_of_tsh (vals := vals) t1 t2 (fun i hi => tpat_code hap heq i hi)
      exact List.inj_on_of_nodup_map hnd m1 m2 hp
    have hnd2 : (e.2.map fun o => tpat vals L T.store o.fs).Nodup :=
      List.Nodup.map_on hinj (List.Nodup.of_map _ hnd)
    have := hnd2.length_le_card
    simpa using this
  have h2 := flen_le _ _ h1
  have h3 : (colGet T.processed j).length ≤ (C.spec.length + 1) * (C.word.length + 1) * (L + 1) := by
    have := keys_le _ (h.tb.kn j) (fun k hk => by
      rw [List.mem_map] at hk
      obtain ⟨e, he, rfl⟩ := hk
      exact h.tb.kr j e he)
    simpa using this
  unfold colBoundT
  exact Nat.le_trans h2 (Nat.mul_le_mul_right _ h3)

end

/-! ### `advance` in the general case -/

section
variable {C : Ctx} {vals : List String} {L : Nat}

theorem advance_tf (hC : CtxOK C) (hc : TC C vals L) {d : String} (hd : C.P d) {T : Tables}
    {rk : Nat → Nat} {X : List (Nat × EState)} (hT : TF C vals L T rk X) {i : Nat} {c nx : EState}
    (hs : (i, c) ∈ X) (hnx : (c.b, nx) ∈ X) (hi : i < C.word.length + 1)
    (hcomp : incomplete C.G c = false) (hinc : incomplete C.G nx = true)
    (hnext : nextSym C.G nx = some (.var (prodOf C.G c.prod).head)) :
    ∃ rk', TF C vals L (Pfl.Earley.advance C.G T nx c) rk' X := by
  obtain ⟨st1, cl, κ1, dom1, π1, st2, cr, κ2, dom2, π2, rh, rs, rk1, rk2, hc1, hc2, hw1, hw2,
    hrh, hdomrh, hrs1, hdomrs, ⟨hrkcr, hrkcons, hrkleft⟩, heq, hT2, hok⟩ :=
    advance_setup hC hc hd hT.tb hs hnx hi hcomp hinc hnext
  have hB := hT.tb.base
  have hnxOK := hB.inv.extra _ hnx
  have hw0 := hB.inv.wf
  have hfr1 : Fr T.store st1 := copy_fr hc1
  have hfr2 : Fr st1 st2 := copy_fr hc2
  have hfr12 := hfr1.trans hfr2
  have hs1 : SingSt st1 := sing_copy hc1 hT.sing
  have hs2 : SingSt st2 := sing_copy hc2 hs1
  have ha2 := hw2.inv.acyc
  have hr2 := hw2.rng
  have hI2 := hw2.inv
  have hTF2 : TF C vals L { T with store := st2 } rk2 X := hT.store hT2 hfr12 hs2
  have hPlt := hT.pfs nx.prod
  have hdotL : nx.dot + 1 ≤ L := by
    have h1 := hc.body nx.prod
    unfold incomplete at hinc
    have h2 : nx.dot < (prodOf C.G nx.prod).body.length := by simpa using hinc
    omega
  -- the shape of the copy of the waiting record
  have hsh1 : TSh st1 L nx.fs (prodOf C.G nx.prod).feats :=
    (hT.tsx _ hnx).fr hfr1 hw0.inv.acyc hw0.rng hnxOK.fs_lt hPlt
  have hsh2 : TSh st2 L cr (prodOf C.G nx.prod).feats :=
    hsh1.copy hc2 hw1.rng hw1.inv.acyc (Nat.lt_of_lt_of_le hPlt hfr1.len)
  have hcrlt : cr < st2.length := by rw [← hc2.κF]; exact (hc2.rng _ hc2.domF).2
  -- the objects of the copy are new
  have hRs : ∀ j u, slotOf st2 cr j = some u → st1.length ≤ u := by
    intro j u hu
    rw [(slotOf_copy hc2 hw1.rng hw1.inv.acyc j).1] at hu
    simp only [Option.map_eq_some_iff] at hu
    obtain ⟨u0, hu0, rfl⟩ := hu
    exact (hc2.rng u0 ((slotOf_copy hc2 hw1.rng hw1.inv.acyc j).2 u0 hu0)).1
  have hRl : ∀ j u, leafOf st2 cr j = some u → st1.length ≤ u := by
    intro j u hu
    rw [(leafOf_copy hc2 hw1.rng hw1.inv.acyc j).1] at hu
    simp only [Option.map_eq_some_iff] at hu
    obtain ⟨u0, hu0, rfl⟩ := hu
    exact (hc2.rng u0 ((leafOf_copy hc2 hw1.rng hw1.inv.acyc j).2 u0 hu0)).1
  -- ranks of the objects of the copy
  have hrkS : ∀ j u, slotOf st2 cr j = some u → rk2 u = 1 := by
    intro j u hu
    obtain ⟨c', hc', hcu⟩ := slotOf_some hu
    have := rk_lookup hI2 hc'
    rw [← hcu, rkR_deref hI2]; omega
  have hrkL : ∀ j u, leafOf st2 cr j = some u → rk2 u = 0 := by
    intro j u hu
    obtain ⟨c', x, hc', hx, hxu⟩ := leafOf_some hu
    have h1 := rk_lookup hI2 hc'
    have h2 := rk_lookup hI2 hx
    rw [← hxu, rkR_deref hI2]; omega
  have hrkR : rk2 (deref st2 cr) = 2 := by rw [rkR_deref hI2]; exact hrkcr
  -- the class of the expected symbol record of the copy of `nx`
  obtain ⟨hdca, hddca⟩ := hc2.deref_κ hw1.rng hw1.inv.acyc rs hdomrs
  have hcage : st1.length ≤ deref st2 (κ2 rs) := by rw [hdca]; exact (hc2.rng _ hddca).1
  have hcalt : deref st2 (κ2 rs) < st2.length := by rw [hdca]; exact (hc2.rng _ hddca).2
  have hrkca : rk2 (deref st2 (κ2 rs)) = 1 := by rw [rkR_deref hI2]; exact hrkcons
  have hcons0 : byPath st2 cr [toString nx.dot] = some (κ2 rs) := by
    obtain ⟨_, h⟩ := hc2.byPath_κ hw1.rng hw1.inv.acyc _ _ _ hc2.domF hrs1
    rw [hc2.κF] at h; exact h
  have hslotdot : slotOf st2 cr (nx.dot + 1) = some (deref st2 (κ2 rs)) := by
    unfold slotOf
    show (byPath st2 cr [toString nx.dot]).map (deref st2) = _
    rw [hcons0]; rfl
  -- the class of the head record of the copy of `c`
  obtain ⟨hdcb, hddcb⟩ := hc1.deref_κ hw0.rng hw0.inv.acyc rh hdomrh
  have hleftlt : κ1 rh < st1.length := (hc1.rng rh hdomrh).2
  have hcb1 : deref st2 (κ1 rh) = κ1 (deref T.store rh) := by
    rw [hc2.deref_old hw1.rng hw1.inv.acyc hleftlt, hdcb]
  have hcblt : deref st2 (κ1 rh) < st1.length := by rw [hcb1]; exact (hc1.rng _ hddcb).2
  have hrkcb : rk2 (deref st2 (κ1 rh)) = 1 := by rw [rkR_deref hI2]; exact hrkleft
  have hne : deref st2 (κ2 rs) ≠ deref st2 (κ1 rh) := by omega
  generalize hcadef : deref st2 (κ2 rs) = ca at *
  generalize hcbdef : deref st2 (κ1 rh) = cb at *
  have hpca : ptr st2 ca = none := by rw [← hcadef]; exact deref_ptr_none ha2 _
  have hpcb : ptr st2 cb = none := by rw [← hcbdef]; exact deref_ptr_none ha2 _
  have hcblt2 : cb < st2.length := Nat.lt_of_lt_of_le hcblt hfr2.len
  have hrootca : deref st2 cr ≠ ca := by intro e; rw [e] at hrkR; omega
  have hrootcb : deref st2 cr ≠ cb := by intro e; rw [e] at hrkR; omega
  -- the objects of the copy are not `cb`
  have hScb : ∀ j, slotOf st2 cr j ≠ some cb := by
    intro j e; have := hRs j cb e; omega
  have hLcb : ∀ j, leafOf st2 cr j ≠ some cb := by
    intro j e; have := hRl j cb e; omega
  -- the production record is untouched
  have hPs3 : ∀ st3, Fr T.store st3 → ∀ j, slotOf st3 (prodOf C.G nx.prod).feats j =
      slotOf st2 (prodOf C.G nx.prod).feats j := by
    intro st3 hf j
    rw [slotOf_fr hf hw0.inv.acyc hw0.rng hPlt, slotOf_fr hfr12 hw0.inv.acyc hw0.rng hPlt]
  have hPl3 : ∀ st3, Fr T.store st3 → ∀ j, leafOf st3 (prodOf C.G nx.prod).feats j =
      leafOf st2 (prodOf C.G nx.prod).feats j := by
    intro st3 hf j
    rw [leafOf_fr hf hw0.inv.acyc hw0.rng hPlt, leafOf_fr hfr12 hw0.inv.acyc hw0.rng hPlt]
  -- how to conclude
  have finish : ∀ st3, unify (st2.length + 2) st2 (κ2 rs) (κ1 rh) = .ok st3 → SingSt st3 →
      (Fr T.store st3 → TSh st3 L cr (prodOf C.G nx.prod).feats) →
      ∃ rk', TF C vals L (Pfl.Earley.advance C.G T nx c) rk' X := by
    intro st3 hun hs3 hsh3
    obtain ⟨rk3, hT3, hnsOK, hnsP, hrl, _, hce, hfr3⟩ := hok st3 hun
    rw [heq, hun]
    simp only
    exact ⟨rk3, (hT.store hT3 hfr3 hs3).push (hT3.push hc hce hnsOK hnsP hrl hdotL) (hsh3 hfr3)⟩
  have fail : unify (st2.length + 2) st2 (κ2 rs) (κ1 rh) = .conflict →
      ∃ rk', TF C vals L (Pfl.Earley.advance C.G T nx c) rk' X := by
    intro hun
    rw [heq, hun]
    exact ⟨rk2, hTF2⟩
  -- the view of the copy after the first pointer update `cb ↦ ca`
  have hview1 : ∀ j, slotOf (setPointer st2 cb ca) cr j = slotOf st2 cr j ∧
      leafOf (setPointer st2 cb ca) cr j = leafOf st2 cr j :=
    view_setPtr_out ha2 hpcb hpca (Ne.symm hne) hcblt2 hrootcb hScb hLcb
  have ha' : Acyc (setPointer st2 cb ca) := acyc_setPointer ha2 hpcb hpca (Ne.symm hne)
  have hder' : ∀ z, deref (setPointer st2 cb ca) z = if deref st2 z = cb then ca else deref st2 z :=
    deref_setPointer ha2 hpcb hpca (Ne.symm hne) hcblt2
  have hptr' : ∀ z, z ≠ cb → ptr (setPointer st2 cb ca) z = ptr st2 z := by
    intro z hz
    rw [ptr_setPointer, if_neg (fun e => hz e.1.symm)]
  rcases sing_rank1 hs2 hT2.base.sx.alln hrkca with hca0 | ⟨x, hcax⟩ <;>
    rcases sing_rank1 hs2 hT2.base.sx.alln hrkcb with hcb0 | ⟨y, hcby⟩
  · -- both records are empty
    have hun := unify_plain (st := st2) (a := κ2 rs) (b := κ1 rh) (st2.length + 1)
      (by rw [hcadef, hcbdef]; exact hne) (by rw [hcadef]; exact hca0) (by rw [hcbdef]; exact hcb0)
      (by rw [hcadef, hcbdef, val_none_of_rk hI2 (by omega), val_none_of_rk hI2 (by omega)])
    rw [hcadef, hcbdef] at hun
    refine finish _ hun (sing_setPointer hs2 _ _) (fun hfr3 => ?_)
    refine hsh2.transfer (hPs3 _ hfr3) (hPl3 _ hfr3) (fun z => if z = ca then cb else z) id
      (fun u => st1.length ≤ u) hRs hRl ?_ (fun u v _ _ h => h) none cb ?_ ?_ (by simp) ?_
    · intro u v hu hv h
      by_cases e1 : u = ca
      · rw [if_pos e1] at h
        by_cases e2 : v = ca
        · rw [e1, e2]
        · rw [if_neg e2] at h; omega
      · rw [if_neg e1] at h
        by_cases e2 : v = ca
        · rw [if_pos e2] at h; omega
        · rw [if_neg e2] at h; exact h
    · intro j _
      exact slotOf_setPtr ha2 hpca hpcb hne hcalt hrootca j
    · intro j _
      simp only [reduceCtorEq, if_false, Option.map_id_fun, id]
      by_cases hsj : slotOf st2 cr j = some ca
      · rw [leafOf_setPtr_slot ha2 hpca hpcb hne hcalt hrootca j hsj hcb0,
          leafOf_none_of_slot hsj hca0]
      · rw [leafOf_setPtr ha2 hpca hpcb hne hcalt hrootca j hsj]
        apply map_id_of
        intro u hu
        rw [if_neg]
        intro e
        have := hrkL j u hu
        rw [e] at this; omega
    · intro u hu
      simp only [id] at hu ⊢
      omega
  · -- the waiting record is empty, the head record has a leaf: a new leaf
    have hun0 := unify_C (st := st2) (a := κ2 rs) (b := κ1 rh) (y := y) st2.length
      (by rw [hcadef, hcbdef]; exact hne) (by rw [hcadef]; exact hca0) (by rw [hcbdef]; exact hcby)
    rw [hcadef, hcbdef] at hun0
    -- the leaf of the head record
    have hymem : ("n", y) ∈ cont st2 cb := by rw [hcby]; simp
    have hylt : y < st1.length := by
      have h1 : cont st2 cb = cont st1 cb := by rw [cont, hc2.old hcblt]
      rw [h1] at hymem
      exact hw1.rng.c _ _ _ hymem
    have hrky : rk2 (deref st2 y) = 0 := by
      have := (hI2.rkc _ _ _ hymem).1
      unfold crE at this
      rw [rkR_deref hI2]; omega
    have hcylt : deref st2 y < st1.length := by
      rw [hc2.deref_old hw1.rng hw1.inv.acyc hylt]; exact deref_lt hw1.rng hylt
    generalize hcydef : deref st2 y = cy at *
    have hpcy : ptr st2 cy = none := by rw [← hcydef]; exact deref_ptr_none ha2 _
    have hcy0 : cont st2 cy = [] := cont_nil_of_rkR_zero hI2 hrky
    have hcycb : cy ≠ cb := by intro e; rw [e] at hrky; omega
    have hcyca : cy ≠ ca := by intro e; rw [e] at hrky; omega
    -- the store with the fresh feature
    have hcalt' : ca < (setPointer st2 cb ca).length := by rw [length_setPointer]; exact hcalt
    have ha'' : Acyc (addFresh (setPointer st2 cb ca) ca "n") := acyc_addFresh ha' "n" hcalt'
    have hlen' : (setPointer st2 cb ca).length = st2.length := length_setPointer _ _ _
    have hNptr : ptr (addFresh (setPointer st2 cb ca) ca "n") st2.length = none := by
      rw [ptr_addFresh "n" hcalt', hptr' _ (by omega), ptr, get_ge (Nat.le_refl _)]; rfl
    have hNder : deref (addFresh (setPointer st2 cb ca) ca "n") st2.length = st2.length :=
      deref_of_none hNptr
    have hyder : deref (addFresh (setPointer st2 cb ca) ca "n") y = cy := by
      rw [deref_addFresh ha' "n" hcalt', hder', hcydef, if_neg hcycb]
    have hNcont : cont (addFresh (setPointer st2 cb ca) ca "n") st2.length = [] := by
      rw [cont_addFresh "n" hcalt', if_neg (by omega), cont_setPointer, cont, get_ge (Nat.le_refl _)]
      rfl
    have hcycont : cont (addFresh (setPointer st2 cb ca) ca "n") cy = [] := by
      rw [cont_addFresh "n" hcalt', if_neg hcyca, cont_setPointer]; exact hcy0
    have hNval : val (addFresh (setPointer st2 cb ca) ca "n") st2.length = none := by
      rw [val_addFresh "n" hcalt', val_setPointer, val, get_ge (Nat.le_refl _)]; rfl
    have hun1 := unify_leaf (st := addFresh (setPointer st2 cb ca) ca "n") (a := st2.length)
      (b := y) st2.length (by rw [hNder, hyder]; omega) (by rw [hNder]; exact hNcont)
      (by rw [hyder]; exact hcycont)
    rw [hNder, hyder, if_pos (Or.inr hNval)] at hun1
    rw [hun1] at hun0
    simp only at hun0
    have hca0' : cont (setPointer st2 cb ca) ca = [] := by rw [cont_setPointer]; exact hca0
    refine finish _ hun0 (sing_setPointer (sing_addFresh (sing_setPointer hs2 _ _) hcalt' hca0') _ _)
      (fun hfr3 => ?_)
    -- views
    have hroot' : deref (setPointer st2 cb ca) cr ≠ ca := by
      rw [hder', if_neg hrootcb]; exact hrootca
    have hview2s : ∀ j, slotOf (addFresh (setPointer st2 cb ca) ca "n") cr j = slotOf st2 cr j := by
      intro j; rw [slotOf_addFresh ha' hcalt' hroot', (hview1 j).1]
    have hlen'' : (addFresh (setPointer st2 cb ca) ca "n").length = st2.length + 1 := by
      rw [length_addFresh, hlen']
    have hpcy'' : ptr (addFresh (setPointer st2 cb ca) ca "n") cy = none := by
      rw [ptr_addFresh "n" hcalt', hptr' _ hcycb]; exact hpcy
    have hroot'' : deref (addFresh (setPointer st2 cb ca) ca "n") cr ≠ st2.length := by
      rw [deref_addFresh ha' "n" hcalt', hder', if_neg hrootcb]
      have := deref_lt hr2 hcrlt; omega
    have hS'' : ∀ j, slotOf (addFresh (setPointer st2 cb ca) ca "n") cr j ≠ some st2.length := by
      intro j e
      rw [hview2s] at e
      obtain ⟨c', hc', hcu⟩ := slotOf_some e
      have h1 := hr2.c _ _ _ (lookupC_mem hc')
      have := deref_lt hr2 h1
      omega
    have hview3 := view_setPtr_leaf ha'' hNptr hpcy'' (by omega : st2.length ≠ cy)
      (by rw [hlen'']; omega) hroot'' hS''
    have hdotle : nx.dot + 1 ≤ L := hdotL
    refine hsh2.transfer (hPs3 _ hfr3) (hPl3 _ hfr3) id id
      (fun u => st1.length ≤ u) hRs hRl (fun u v _ _ h => h) (fun u v _ _ h => h)
      (some (nx.dot + 1)) cy ?_ ?_ ?_ ?_
    · intro j _
      rw [(hview3 j).1, hview2s]; simp
    · intro j hj
      rw [(hview3 j).2]
      by_cases hsj : slotOf st2 cr j = some ca
      · have hje : j = nx.dot + 1 := hsh2.sd j (nx.dot + 1) ca hj hdotle hsj hslotdot
        rw [if_pos (by rw [hje])]
        have hsj' : slotOf (setPointer st2 cb ca) cr j = some ca := by rw [(hview1 j).1]; exact hsj
        rw [leafOf_addFresh_eq ha' hcalt' hca0' hroot' j hsj', hlen']
        simp
      · have hjne : ¬ some j = some (nx.dot + 1) := by
          intro e
          apply hsj
          rw [Option.some.inj e]; exact hslotdot
        rw [if_neg hjne]
        have hsj' : slotOf (setPointer st2 cb ca) cr j ≠ some ca := by rw [(hview1 j).1]; exact hsj
        rw [leafOf_addFresh_ne ha' hcalt' hroot' j hsj', (hview1 j).2, Option.map_id_fun, id]
        apply map_id_of
        intro u hu
        rw [if_neg]
        intro e
        have h1 : u < st2.length := by
          obtain ⟨c', x', _, hx', hxu⟩ := leafOf_some hu
          have h1 := hr2.c _ _ _ (lookupC_mem hx')
          rw [← hxu]; exact deref_lt hr2 h1
        omega
    · intro j hj
      rw [Option.some.inj hj]
      exact leafOf_none_of_slot hslotdot hca0
    · intro u hu
      simp only [id] at hu ⊢
      omega
  · -- the waiting record has a leaf, the head record is empty
    have hun := unify_D (st := st2) (a := κ2 rs) (b := κ1 rh) (st2.length + 1)
      (by rw [hcadef, hcbdef]; exact hne) (by rw [hcadef, hcax]; simp)
      (by rw [hcbdef]; exact hcb0)
    rw [hcadef, hcbdef] at hun
    refine finish _ hun (sing_setPointer hs2 _ _) (fun hfr3 => ?_)
    refine hsh2.transfer (hPs3 _ hfr3) (hPl3 _ hfr3) id id
      (fun u => st1.length ≤ u) hRs hRl (fun u v _ _ h => h) (fun u v _ _ h => h) none cb
      ?_ ?_ (by simp) ?_
    · intro j _; rw [(hview1 j).1]; simp
    · intro j _; rw [(hview1 j).2]; simp
    · intro u hu
      simp only [id] at hu ⊢
      omega
  · -- both records have a leaf
    have hun0 := unify_B (st := st2) (a := κ2 rs) (b := κ1 rh) (x := x) (y := y) st2.length
      (by rw [hcadef, hcbdef]; exact hne) (by rw [hcadef]; exact hcax) (by rw [hcbdef]; exact hcby)
    rw [hcadef, hcbdef] at hun0
    -- the leaf of the head record
    have hymem : ("n", y) ∈ cont st2 cb := by rw [hcby]; simp
    have hylt : y < st1.length := by
      have h1 : cont st2 cb = cont st1 cb := by rw [cont, hc2.old hcblt]
      rw [h1] at hymem
      exact hw1.rng.c _ _ _ hymem
    have hrky : rk2 (deref st2 y) = 0 := by
      have := (hI2.rkc _ _ _ hymem).1
      unfold crE at this
      rw [rkR_deref hI2]; omega
    have hcylt : deref st2 y < st1.length := by
      rw [hc2.deref_old hw1.rng hw1.inv.acyc hylt]; exact deref_lt hw1.rng hylt
    generalize hcydef : deref st2 y = cy at *
    have hpcy : ptr st2 cy = none := by rw [← hcydef]; exact deref_ptr_none ha2 _
    have hcy0 : cont st2 cy = [] := cont_nil_of_rkR_zero hI2 hrky
    have hcycb : cy ≠ cb := by intro e; rw [e] at hrky; omega
    -- the leaf of the waiting record
    have hxmem : ("n", x) ∈ cont st2 ca := by rw [hcax]; simp
    have hleafdot : leafOf st2 cr (nx.dot + 1) = some (deref st2 x) := by
      obtain ⟨c', hc', hcu⟩ := slotOf_some hslotdot
      refine leafOf_of hc' ?_
      rw [hcu, hcax]; exact lookupC_single _ _
    have hcxge : st1.length ≤ deref st2 x := hRl _ _ hleafdot
    have hrkx : rk2 (deref st2 x) = 0 := hrkL _ _ hleafdot
    have hxlt : x < st2.length := hr2.c _ _ _ hxmem
    have hcxlt : deref st2 x < st2.length := deref_lt hr2 hxlt
    generalize hcxdef : deref st2 x = cx at *
    have hpcx : ptr st2 cx = none := by rw [← hcxdef]; exact deref_ptr_none ha2 _
    have hcx0 : cont st2 cx = [] := cont_nil_of_rkR_zero hI2 hrkx
    have hcxcb : cx ≠ cb := by intro e; rw [e] at hrkx; omega
    have hxder : deref (setPointer st2 cb ca) x = cx := by rw [hder', hcxdef, if_neg hcxcb]
    have hyder : deref (setPointer st2 cb ca) y = cy := by rw [hder', hcydef, if_neg hcycb]
    have hun1 := unify_leaf (st := setPointer st2 cb ca) (a := x) (b := y) st2.length
      (by rw [hxder, hyder]; omega) (by rw [hxder, cont_setPointer]; exact hcx0)
      (by rw [hyder, cont_setPointer]; exact hcy0)
    rw [hxder, hyder] at hun1
    -- the second pointer update, in either direction
    have hpcx' : ptr (setPointer st2 cb ca) cx = none := by rw [hptr' _ hcxcb]; exact hpcx
    have hpcy' : ptr (setPointer st2 cb ca) cy = none := by rw [hptr' _ hcycb]; exact hpcy
    have hroot' : ∀ z, rk2 z = 0 → deref (setPointer st2 cb ca) cr ≠ z := by
      intro z hz
      rw [hder', if_neg hrootcb]
      intro e; rw [e] at hrkR; omega
    have hS' : ∀ z, rk2 z = 0 → ∀ j, slotOf (setPointer st2 cb ca) cr j ≠ some z := by
      intro z hz j e
      rw [(hview1 j).1] at e
      have := hrkS j z e; omega
    have hlen' : (setPointer st2 cb ca).length = st2.length := length_setPointer _ _ _
    split at hun1
    · -- `cx ↦ cy`
      rw [hun1] at hun0
      simp only at hun0
      refine finish _ hun0 (sing_setPointer (sing_setPointer hs2 _ _) _ _) (fun hfr3 => ?_)
      have hview3 := view_setPtr_leaf ha' hpcx' hpcy' (by omega : cx ≠ cy)
        (by rw [hlen']; exact hcxlt) (hroot' cx hrkx) (hS' cx hrkx)
      refine hsh2.transfer (hPs3 _ hfr3) (hPl3 _ hfr3) id (fun z => if z = cx then cy else z)
        (fun u => st1.length ≤ u) hRs hRl (fun u v _ _ h => h) ?_ none cb ?_ ?_ (by simp) ?_
      · intro u v hu hv h
        by_cases e1 : u = cx
        · rw [if_pos e1] at h
          by_cases e2 : v = cx
          · rw [e1, e2]
          · rw [if_neg e2] at h; omega
        · rw [if_neg e1] at h
          by_cases e2 : v = cx
          · rw [if_pos e2] at h; omega
          · rw [if_neg e2] at h; exact h
      · intro j _; rw [(hview3 j).1, (hview1 j).1]; simp
      · intro j _
        rw [(hview3 j).2, (hview1 j).2]; simp
      · intro u hu
        split
        · exact hcycb
        · omega
    · split at hun1
      · -- `cy ↦ cx`
        rw [hun1] at hun0
        simp only at hun0
        refine finish _ hun0 (sing_setPointer (sing_setPointer hs2 _ _) _ _) (fun hfr3 => ?_)
        have hview3 := view_setPtr_leaf ha' hpcy' hpcx' (by omega : cy ≠ cx)
          (by rw [hlen']; omega) (hroot' cy hrky) (hS' cy hrky)
        refine hsh2.transfer (hPs3 _ hfr3) (hPl3 _ hfr3) id id
          (fun u => st1.length ≤ u) hRs hRl (fun u v _ _ h => h) (fun u v _ _ h => h) none cb
          ?_ ?_ (by simp) ?_
        · intro j _; rw [(hview3 j).1, (hview1 j).1]; simp
        · intro j _
          rw [(hview3 j).2, (hview1 j).2]
          simp only [reduceCtorEq, if_false, Option.map_id_fun, id]
          apply map_id_of
          intro u hu
          rw [if_neg]
          intro e
          have := hRl j u hu
          omega
        · intro u hu
          simp only [id] at hu ⊢
          omega
      · -- the values clash
        rw [hun1] at hun0
        exact fail hun0

end

/-! ### the chain and the recogniser -/

theorem TSh.refl_of {st : Store} {L P : Nat}
    (hsd : ∀ i j c, slotOf st P i = some c → slotOf st P j = some c → i = j) : TSh st L P P :=
  ⟨fun i j c _ _ h1 h2 => hsd i j c h1 h2, fun _ _ => rfl, fun _ _ _ _ _ => Iff.rfl, fun _ _ h => h⟩

section
variable {C : Ctx} {vals : List String} {L : Nat}

/-- the invariant of the general case is kept by the primitive steps; it bounds the columns by
the number of keys times the number of valuations of the leaves -/
theorem tf_chain (hC : CtxOK C) (hc : TC C vals L) {d : String} (hd : C.P d) :
    Chain C (TF C vals L) (colBoundT C.spec.length C.word.length L vals.length) where
  weaken := fun h hsub => h.weaken hsub
  withProc := fun h j => h.withProc j
  pop := fun h hs => h.pop hs
  lens := fun h => ⟨h.tb.base.lenc, h.tb.base.lenp⟩
  eeq := fun h e he => (h.tb.base.inv.extra e he).e_eq
  adv := fun h hs hnx hi hcomp hinc hnext => advance_tf hC hc hd h hs hnx hi hcomp hinc hnext
  scan := fun {T rk X i s t} h hm hn hw =>
    h.push (i := s.e + 1) (s := { s with e := s.e + 1, dot := s.dot + 1 })
      (scanner_tb hC hc h.tb (h.tb.base.inv.extra _ hm) (h.tb.base.pthx _ hm) (h.tb.rlx _ hm) hn hw)
      (h.tsx _ hm)
  pred := fun {T rk X k p e} h hget he =>
    h.push (h.tb.push hc he (predicted_ok hC h.tb.base.inv hget _) (h.tb.base.opth _ _ hget)
      (h.tb.rlo _ _ hget) (Nat.zero_le _)) (by
        show TSh T.store L p.feats (prodOf C.G k).feats
        have := h.sdo k
        rw [prodOf_of_get hget] at this ⊢
        exact this)
  bound := fun h j => h.acc_le hc j

/-- the recogniser answers within the fuel "number of keys of a column times the number of
valuations of the leaves, plus one" -/
theorem contains_total_feat (hC : CtxOK C) (hc : TC C vals L) {st0 : Store} {rk0 : Nat → Nat}
    (hw : WFS st0 rk0) (hlen : 2 ≤ st0.length)
    (hobjs : ∀ k p, C.G.prods[k]? = some p →
      p.feats < st0.length ∧ rk0 p.feats = 2 ∧ GoodObj C st0 k p.feats)
    (hgam : C.G.gammaFeats < st0.length ∧ rk0 C.G.gammaFeats = 2)
    (hsx : SX C.P st0 rk0) (hnv : C.featured = false → NoVal st0)
    (hcov : ∀ k p pr env, C.G.prods[k]? = some p → C.spec[k]? = some pr → C.okEnv k env →
      Cov C st0 p.feats k env)
    (hpth : ∀ k p, C.G.prods[k]? = some p → HasPaths C st0 p.feats k)
    (hgpth : HasPaths C st0 C.G.gammaFeats C.spec.length)
    (hrlo : ∀ (k : Nat) (p : FProd), C.G.prods[k]? = some p → RootLab st0 p.feats L)
    (hrlg : RootLab st0 C.G.gammaFeats L)
    (hsing : SingSt st0)
    (hsd : ∀ k i j c, slotOf st0 (prodOf C.G k).feats i = some c →
      slotOf st0 (prodOf C.G k).feats j = some c → i = j)
    {d : String} (hd : C.P d) {fuel : Nat}
    (hfuel : colBoundT C.spec.length C.word.length L vals.length + 1 ≤ fuel) :
    (contains C.G st0 C.word fuel).isSome = true := by
  have hTB1 := tb_init hC hc hw hlen hobjs hgam hsx hnv hcov hpth hgpth hrlo hrlg
  refine chain_contains (tf_chain hC hc hd) (rk0 := rk0) ?_ hfuel
  have hst := pushIfNew_store C.G (Tables.mk st0 (List.replicate (C.word.length + 1) [])
      (List.replicate (C.word.length + 1) [])) 0
      { prod := C.G.prods.length, b := 0, e := 0, dot := 0, fs := C.G.gammaFeats }
  have hpfs : ∀ k, (prodOf C.G k).feats < st0.length := by
    intro k
    cases hk : C.G.prods[k]? with
    | some p => rw [prodOf_of_get hk]; exact (hobjs k p hk).1
    | none =>
      have : prodOf C.G k =
          { head := C.G.gammaName, body := [.var C.G.start], feats := C.G.gammaFeats } := by
        unfold prodOf; rw [List.getD_eq_getElem?_getD, hk]; rfl
      rw [this]; exact hgam.1
  have hsdo : ∀ k, TSh st0 L (prodOf C.G k).feats (prodOf C.G k).feats :=
    fun k => TSh.refl_of (hsd k)
  have hfirst : TSh st0 L C.G.gammaFeats (prodOf C.G C.G.prods.length).feats := by
    have h0 := hsdo C.G.prods.length
    have : prodOf C.G C.G.prods.length =
        { head := C.G.gammaName, body := [.var C.G.start], feats := C.G.gammaFeats } := by
      unfold prodOf
      rw [List.getD_eq_getElem?_getD, List.getElem?_eq_none (Nat.le_refl _)]; rfl
    rw [this] at h0 ⊢
    exact h0
  refine ⟨hTB1, by rw [hst]; exact hsing, by rw [hst]; exact hpfs, by rw [hst]; exact hsdo, ?_, ?_,
    by simp⟩
  · intro j s' hm
    rw [hst]
    rw [pushIfNew_chart] at hm
    split at hm
    · rcases mem_colGet_set hm with ⟨rfl, h2⟩ | h2
      · simp only at h2
        rw [colGet_replicate] at h2
        simp only [List.nil_append, List.mem_singleton] at h2
        subst h2; exact hfirst
      · simp only at h2; rw [colGet_replicate] at h2; simp at h2
    · simp only at hm; rw [colGet_replicate] at hm; simp at hm
  · intro j s' hm
    rw [hst]
    rw [pushIfNew_proc] at hm
    rcases procAdd_states C.G _ 0 _ j s' hm with ⟨rfl, rfl⟩ | h2
    · exact hfirst
    · unfold procStates at h2; simp only at h2; rw [colGet_replicate] at h2; simp at h2

end

/-- the built store: every object is empty, has the one feature `n`, or is a production record -/
theorem singSt_built {Src : String → Prop} {spec : List Lem.Bld.Spec1} {st0 : Store} {G : Grammar}
    (hbo : BuiltOK Src spec st0 G) : SingSt st0 := by
  intro i
  rcases hbo.node i with (hk | ⟨y, hk⟩ | ⟨v, _, hk⟩ | ⟨j, hk⟩) | ⟨hfs, bfs, hk, _⟩
  · left; rw [cont, hk]; rfl
  · right; left; exact ⟨y, by rw [cont, hk]; rfl⟩
  · left; rw [cont, hk]; rfl
  · left; rw [cont, hk]; rfl
  · right; right
    refine ⟨"head", hfs, by rw [cont, hk]; simp [rootN, Lem.Bld.prodContent], by decide⟩

end Term
end Earley
end Pfl
