/-
Helpers for `Pfl/Props/C19_Indexed.lean`: the loop of `Pfl/Model/IndexedObject.lean` (one call of
`is_empty()` that also hands back `self.marked`) returns the verdict of `Lib.loop`, only adds sets
to the table, and keeps it sound (`GoodT`) and well formed (`WFT`).
-/
import Pfl.Model.IndexedObject
import Pfl.Proofs.IndexedMarkSound
import Pfl.Proofs.TerminationIndexed

namespace Pfl.IG.ObjP
open Pfl Pfl.IG Pfl.IG.Lib Pfl.IG.LibP Pfl.IG.Obj
open Pfl.Term (WFT total total_mono pass_prog loop_isSome)

/-- the verdict of a call is the one of `Lib.loop` -/
theorem loopT_fst (ord : List SetS → List SetS) (G : IG) :
    ∀ (fuel : Nat) (T : Table), (loopT ord G fuel T).map (·.1) = loop ord G fuel T := by
  intro fuel
  induction fuel with
  | zero => intro T; rfl
  | succ n ih =>
    intro T
    unfold loopT loop
    simp only []
    split
    · rfl
    · split
      · exact ih _
      · rfl

theorem loop_of_loopT {ord : List SetS → List SetS} {G : IG} {fuel : Nat} {T T' : Table} {b : Bool}
    (h : loopT ord G fuel T = some (b, T')) : loop ord G fuel T = some b := by
  rw [← loopT_fst, h]; rfl

theorem loopT_isSome_iff (ord : List SetS → List SetS) (G : IG) (fuel : Nat) (T : Table) :
    (loopT ord G fuel T).isSome = (loop ord G fuel T).isSome := by
  rw [← loopT_fst, Option.isSome_map]

/-- a call only adds sets, and the sets it adds are sound -/
theorem loopT_sound {ord : List SetS → List SetS} (hord : OrdOK ord) (G : IG) :
    ∀ (fuel : Nat) (T T' : Table) (b : Bool), GoodT G T → loopT ord G fuel T = some (b, T') →
      Sub T T' ∧ GoodT G T' := by
  intro fuel
  induction fuel with
  | zero => intro T T' b _ h; simp [loopT] at h
  | succ n ih =>
    intro T T' b hgood h
    obtain ⟨hsub, hg, _⟩ := pass_sound hord (libRules G)
      (fun r hr => (mem_libRules.mp hr).1) T false hgood
    unfold loopT at h
    simp only [] at h
    split at h
    · simp only [Option.some.injEq, Prod.mk.injEq] at h
      obtain ⟨_, rfl⟩ := h
      exact ⟨hsub, hg⟩
    · split at h
      · obtain ⟨h1, h2⟩ := ih _ T' b hg h
        exact ⟨hsub.trans h1, h2⟩
      · simp only [Option.some.injEq, Prod.mk.injEq] at h
        obtain ⟨_, rfl⟩ := h
        exact ⟨hsub, hg⟩

/-- a call keeps the table well formed (duplicate-free lists of canonical sets) -/
theorem loopT_wft {ord : List SetS → List SetS} (hord : OrdOK ord) (G : IG) :
    ∀ (fuel : Nat) (T T' : Table) (b : Bool), WFT G.nonTerminals T →
      loopT ord G fuel T = some (b, T') → Sub T T' ∧ WFT G.nonTerminals T' := by
  intro fuel
  induction fuel with
  | zero => intro T T' b _ h; simp [loopT] at h
  | succ n ih =>
    intro T T' b hT h
    obtain ⟨hsub, hw, _⟩ := pass_prog hord G (libRules G)
      (fun r hr => (mem_libRules.mp hr).1) T false hT
    unfold loopT at h
    simp only [] at h
    split at h
    · simp only [Option.some.injEq, Prod.mk.injEq] at h
      obtain ⟨_, rfl⟩ := h
      exact ⟨hsub, hw⟩
    · split at h
      · obtain ⟨h1, h2⟩ := ih _ T' b hw h
        exact ⟨hsub.trans h1, h2⟩
      · simp only [Option.some.injEq, Prod.mk.injEq] at h
        obtain ⟨_, rfl⟩ := h
        exact ⟨hsub, hw⟩

/-- same iteration order at every call: `runCalls` is `runCallsO` -/
theorem runCalls_eq (ord : List SetS → List SetS) (G : IG) (fuel : Nat) :
    ∀ (n : Nat) (T : Table),
      runCalls ord G fuel n T = runCallsO G fuel (List.replicate n ord) T := by
  intro n
  induction n with
  | zero => intro T; rfl
  | succ n ih =>
    intro T
    simp only [runCalls, List.replicate_succ, runCallsO, ih]

/-- inversion of a non-empty history -/
theorem runCallsO_cons {G : IG} {fuel : Nat} {ord : List SetS → List SetS}
    {ords : List (List SetS → List SetS)} {T T'' : Table} {bs : List Bool}
    (h : runCallsO G fuel (ord :: ords) T = some (bs, T'')) :
    ∃ b T' bs', loopT ord G fuel T = some (b, T') ∧ runCallsO G fuel ords T' = some (bs', T'') ∧
      bs = b :: bs' := by
  unfold runCallsO at h
  split at h
  · cases h
  · rename_i b T' h1
    split at h
    · cases h
    · rename_i bs' T3 h2
      simp only [Option.some.injEq, Prod.mk.injEq] at h
      obtain ⟨rfl, rfl⟩ := h
      exact ⟨b, T', bs', h1, h2, rfl⟩

/-- a history answers as soon as one call on the current table has enough fuel -/
theorem runCallsO_isSome (G : IG) (fuel : Nat) :
    ∀ (ords : List (List SetS → List SetS)) (T : Table), (∀ ord ∈ ords, OrdOK ord) →
      WFT G.nonTerminals T →
      G.nonTerminals.length * 2 ^ G.nonTerminals.length < fuel + total G.nonTerminals T →
      (runCallsO G fuel ords T).isSome := by
  intro ords
  induction ords with
  | nil => intro T _ _ _; rfl
  | cons ord ords ih =>
    intro T hords hT hf
    have hord := hords ord List.mem_cons_self
    have h1 : (loopT ord G fuel T).isSome := by
      rw [loopT_isSome_iff]; exact loop_isSome hord G fuel T hT hf
    obtain ⟨⟨b, T'⟩, h2⟩ := Option.isSome_iff_exists.mp h1
    obtain ⟨hs, hw⟩ := loopT_wft hord G fuel T T' b hT h2
    have h3 := ih T' (fun o ho => hords o (List.mem_cons_of_mem _ ho)) hw
      (by have := total_mono hT hs; omega)
    obtain ⟨⟨bs, T''⟩, h4⟩ := Option.isSome_iff_exists.mp h3
    simp only [runCallsO, h2, h4, Option.isSome_some]

end Pfl.IG.ObjP
