/-
Termination (fuel sufficiency) of `get_accepted_words` (`ENFA.wordsLoop` / `ENFA.acceptedWords`).

Every round pops one queue entry.  An entry `(q, w)` is expanded at most once (the `wbs` test),
and only if `w` passes the length test; an expansion queues at most `|δ|` entries.  If the words
of the expanded entries have length `≤ n`, at most `|Q| * (1 + s + … + s ^ n)` entries are
expanded (`s` the number of symbols), and `|starts| + |Q| * (1 + s + … + s ^ n) * |δ|` rounds are
enough.  Without a length test the same holds when all accepted words have length `≤ n`, because
every expanded word is a prefix of an accepted word; this is the case (with `n = |Q|`) when the
part of the automaton between the start states and the final states has no cycle.
-/
import Pfl.Proofs.Termination2FA
import Pfl.Props.C04_Words

namespace Pfl.Term2
open Pfl Pfl.ENFA

set_option linter.unusedSectionVars false
variable {σ : Type} [DecidableEq σ]

/-! ### all words of length `≤ n` -/

def wordsUpTo (S : List Nat) : Nat → List (List Nat)
  | 0 => [[]]
  | n+1 => [] :: S.flatMap fun a => (wordsUpTo S n).map (a :: ·)

theorem length_wordsUpTo (S : List Nat) (n : Nat) : (wordsUpTo S n).length = treeW S.length n := by
  induction n with
  | zero => rfl
  | succ n ih =>
    simp only [wordsUpTo, treeW, List.length_cons]
    rw [length_flatMap_const S _ (treeW S.length n) (fun a _ => by rw [List.length_map, ih])]
    omega

theorem mem_wordsUpTo (S : List Nat) (n : Nat) (w : List Nat) (hl : w.length ≤ n)
    (hs : ∀ a ∈ w, a ∈ S) : w ∈ wordsUpTo S n := by
  induction n generalizing w with
  | zero =>
    have : w = [] := List.length_eq_zero_iff.mp (by omega)
    subst this; simp [wordsUpTo]
  | succ n ih =>
    cases w with
    | nil => simp [wordsUpTo]
    | cons a w =>
      simp only [wordsUpTo]
      apply List.mem_cons_of_mem
      refine List.mem_flatMap.mpr ⟨a, hs a List.mem_cons_self, List.mem_map.mpr ⟨w, ?_, rfl⟩⟩
      refine ih w ?_ (fun b hb => hs b (List.mem_cons_of_mem _ hb))
      simp only [List.length_cons] at hl; omega

/-! ### the queue loop -/

theorem length_newPairs_le (A : ENFA σ) (lead : List σ) (q : σ) (w : List Nat) :
    (A.newPairs lead q w).length ≤ A.delta.length := by
  unfold newPairs edgesFrom
  exact Nat.le_trans (List.length_filterMap_le _ _) (List.length_filterMap_le _ _)

/-- what is known about a queue entry: its state and letters are registered, its word labels a run
from a start state, and it was queued because its state leads to a final state (or it is initial) -/
def Entry (A : ENFA σ) (lead : List σ) (p : σ × List Nat) : Prop :=
  p.1 ∈ A.states ∧ (∀ a ∈ p.2, a ∈ A.syms) ∧ (∃ s ∈ A.starts, A.Run s p.2 p.1) ∧
    (p.1 ∈ lead ∨ p.2 = [])

theorem entry_start (A : ENFA σ) (hA : A.WF) (lead : List σ) (s : σ) (hs : s ∈ A.starts) :
    Entry A lead (s, []) :=
  ⟨hA.starts_sub s hs, by simp, ⟨s, hs, Run.nil s⟩, Or.inr rfl⟩

theorem entry_step (A : ENFA σ) (hA : A.WF) (lead : List σ) (q : σ) (w : List Nat)
    (h : Entry A lead (q, w)) (p : σ × List Nat) (hp : p ∈ A.newPairs lead q w) :
    Entry A lead p := by
  obtain ⟨a, hd, hl, he⟩ := (mem_newPairs A lead q w p).mp hp
  obtain ⟨_, hsy, ⟨s, hs, hr⟩, _⟩ := h
  refine ⟨hA.delta_dst _ hd, ?_, ⟨s, hs, ?_⟩, Or.inl hl⟩
  · rw [he]
    cases a with
    | none => exact hsy
    | some a =>
      intro b hb
      simp only [ext, List.mem_append, List.mem_singleton] at hb
      rcases hb with hb | rfl
      · exact hsy b hb
      · exact hA.delta_sym _ hd b rfl
  · rw [he]
    cases a with
    | none => exact Run.snoc_eps hr hd
    | some a =>
      have := Run.append hr (Run.step hd (Run.nil p.1))
      simpa [ext] using this

/-- general form: `n` bounds the length of every word that passes the length test -/
theorem wordsLoop_isSome_of (A : ENFA σ) (hA : A.WF) (lead : List σ) (maxLen : Option Nat) (n : Nat)
    (hlen : ∀ p, Entry A lead p → lenOK maxLen p.2 → p.2.length ≤ n) :
    ∀ fuel queue wbs out, (∀ p ∈ queue, Entry A lead p) → wbs.Nodup →
      (∀ p ∈ wbs, p ∈ ENFA.prod A.states (wordsUpTo A.syms n)) →
      queue.length + (A.states.length * treeW A.syms.length n - wbs.length) * A.delta.length ≤ fuel →
      (A.wordsLoop lead maxLen fuel queue wbs out).isSome := by
  intro fuel
  induction fuel with
  | zero =>
    intro queue wbs out _ _ _ hf
    have : queue = [] := List.length_eq_zero_iff.mp (by omega)
    subst this
    rw [wordsLoop_nil]; rfl
  | succ fuel ih =>
    intro queue wbs out hq hnd hw hf
    cases queue with
    | nil => rw [wordsLoop_nil]; rfl
    | cons p queue =>
      obtain ⟨q, w⟩ := p
      have hq' : ∀ p ∈ queue, Entry A lead p := fun p hp => hq p (List.mem_cons_of_mem _ hp)
      simp only [List.length_cons] at hf
      by_cases hl : lenOK maxLen w
      · by_cases hs : (q, w) ∈ wbs
        · rw [wordsLoop_seen A lead maxLen fuel q w queue wbs out hl hs]
          exact ih queue wbs out hq' hnd hw (by omega)
        · rw [wordsLoop_new A lead maxLen fuel q w queue wbs out hl hs]
          have he := hq (q, w) List.mem_cons_self
          have hmem : (q, w) ∈ ENFA.prod A.states (wordsUpTo A.syms n) :=
            (mem_prod _ _ _ _).mpr ⟨he.1, mem_wordsUpTo _ _ _ (hlen _ he hl) he.2.1⟩
          have hnd' : ((q, w) :: wbs).Nodup := List.nodup_cons.mpr ⟨hs, hnd⟩
          have hw' : ∀ p ∈ (q, w) :: wbs, p ∈ ENFA.prod A.states (wordsUpTo A.syms n) := by
            intro p hp
            rcases List.mem_cons.mp hp with rfl | hp
            · exact hmem
            · exact hw p hp
          have hcard : ((q, w) :: wbs).length ≤ A.states.length * treeW A.syms.length n := by
            have := hnd'.length_le_of_subset hw'
            rwa [length_prod, length_wordsUpTo] at this
          apply ih _ _ _ _ hnd' hw'
          · have hnp := length_newPairs_le A lead q w
            simp only [List.length_cons, List.length_append] at hcard ⊢
            have e1 : A.states.length * treeW A.syms.length n - wbs.length =
                (A.states.length * treeW A.syms.length n - (wbs.length + 1)) + 1 := by omega
            rw [e1, Nat.add_mul, Nat.one_mul] at hf
            omega
          · intro p hp
            rcases List.mem_append.mp hp with hp | hp
            · exact hq' p hp
            · exact entry_step A hA lead q w he p hp
      · rw [wordsLoop_long A lead maxLen fuel q w queue wbs out hl]
        exact ih queue wbs out hq' hnd hw (by omega)

/-- the fuel bound, as a function of the length bound `n` -/
def wordsFuel (A : ENFA σ) (n : Nat) : Nat :=
  A.starts.length + A.states.length * (A.syms.length + 1) ^ n * A.delta.length

theorem acceptedWords_isSome_of (A : ENFA σ) (hA : A.WF) (maxLen : Option Nat) (n : Nat)
    (hlen : ∀ p, Entry A A.leadingToFinal p → lenOK maxLen p.2 → p.2.length ≤ n)
    (fuel : Nat) (hf : wordsFuel A n ≤ fuel) : (A.acceptedWords maxLen fuel).isSome := by
  unfold acceptedWords
  apply wordsLoop_isSome_of A hA _ maxLen n hlen
  · intro p hp
    obtain ⟨s, hs, rfl⟩ := List.mem_map.mp hp
    exact entry_start A hA _ s hs
  · exact List.nodup_nil
  · intro p hp; cases hp
  · simp only [List.length_map, List.length_nil, Nat.sub_zero]
    have h1 := Nat.mul_le_mul_left A.states.length (treeW_le_pow A.syms.length n)
    have h2 := Nat.mul_le_mul_right A.delta.length h1
    unfold wordsFuel at hf
    omega

/-- (T3, bounded) `get_accepted_words(n)` -/
theorem acceptedWords_some_isSome (A : ENFA σ) (hA : A.WF) (n fuel : Nat)
    (hf : wordsFuel A n ≤ fuel) : (A.acceptedWords (some n) fuel).isSome :=
  acceptedWords_isSome_of A hA (some n) n (fun _ _ h => h) fuel hf

/-- (T3, unbounded, finite language) every expanded word is a prefix of an accepted word -/
theorem acceptedWords_isSome_of_finite (A : ENFA σ) (hA : A.WF) (maxLen : Option Nat) (n : Nat)
    (hfin : ∀ w, A.Lang w → w.length ≤ n) (fuel : Nat) (hf : wordsFuel A n ≤ fuel) :
    (A.acceptedWords maxLen fuel).isSome := by
  apply acceptedWords_isSome_of A hA maxLen n _ fuel hf
  rintro ⟨q, w⟩ ⟨_, _, ⟨s, hs, hr⟩, hlead⟩ _
  rcases hlead with hlead | rfl
  · obtain ⟨v, f, hf, hv⟩ := (mem_leadingToFinal_iff A q).mp hlead
    have := hfin (w ++ v) ⟨s, hs, f, hf, Run.append hr hv⟩
    simp only [List.length_append] at this ⊢
    omega
  · simp

/-! ### rank function of an acyclic finite graph -/

section Rank
variable {α : Type}

theorem countP_lt_of {p q : α → Bool} {l : List α} (h : ∀ x ∈ l, p x → q x) {a : α} (ha : a ∈ l)
    (hqa : q a = true) (hpa : p a = false) : l.countP p < l.countP q := by
  induction l with
  | nil => cases ha
  | cons x l ih =>
    have hmono : l.countP p ≤ l.countP q :=
      List.countP_mono_left (fun y hy => h y (List.mem_cons_of_mem _ hy))
    rcases List.mem_cons.mp ha with rfl | ha
    · rw [List.countP_cons_of_pos hqa, List.countP_cons_of_neg (by simp [hpa])]
      omega
    · have := ih (fun y hy => h y (List.mem_cons_of_mem _ hy)) ha
      have hx := h x List.mem_cons_self
      by_cases hpx : p x = true
      · rw [List.countP_cons_of_pos hpx, List.countP_cons_of_pos (hx hpx)]; omega
      · by_cases hqx : q x = true
        · rw [List.countP_cons_of_neg hpx, List.countP_cons_of_pos hqx]; omega
        · rw [List.countP_cons_of_neg hpx, List.countP_cons_of_neg hqx]; omega

/-- `y` is reachable from `q` by at least one edge -/
def ReachPlus (next : α → List α) (q y : α) : Prop := ∃ r ∈ next q, Reach next r y

open Classical in
/-- number of registered states reachable by at least one edge -/
noncomputable def rank (next : α → List α) (U : List α) (q : α) : Nat :=
  U.countP fun y => decide (ReachPlus next q y)

theorem rank_le (next : α → List α) (U : List α) (q : α) : rank next U q ≤ U.length :=
  List.countP_le_length

/-- along an edge `q → r` with `r` on no cycle, the rank drops -/
theorem rank_lt (next : α → List α) (U : List α) (hU : ∀ q r, r ∈ next q → r ∈ U) (q r : α)
    (hr : r ∈ next q) (hac : ¬ ReachPlus next r r) : rank next U r < rank next U q := by
  unfold rank
  apply countP_lt_of (a := r)
  · intro y _ hy
    simp only [decide_eq_true_eq] at hy ⊢
    obtain ⟨r', hr', hy⟩ := hy
    exact ⟨r, hr, Reach.head hr' hy⟩
  · exact hU q r hr
  · simp only [decide_eq_true_eq]; exact ⟨r, hr, Reach.refl r⟩
  · simp only [decide_eq_false_iff_not]; exact hac

end Rank

/-! ### the part between the start states and the final states -/

/-- edges (any label) into states that lead to a final state -/
def trimNext (A : ENFA σ) (q : σ) : List σ :=
  (A.edgesFrom q).filterMap fun e => if e.2 ∈ A.leadingToFinal then some e.2 else none

theorem mem_trimNext (A : ENFA σ) (q r : σ) :
    r ∈ trimNext A q ↔ (∃ a, (q, a, r) ∈ A.delta) ∧ r ∈ A.leadingToFinal := by
  unfold trimNext
  simp only [List.mem_filterMap, mem_edgesFrom]
  constructor
  · rintro ⟨e, he, h⟩
    split at h
    · rename_i hl
      simp only [Option.some.injEq] at h; subst h
      exact ⟨⟨e.1, he⟩, hl⟩
    · cases h
  · rintro ⟨⟨a, ha⟩, hl⟩
    exact ⟨(a, r), ha, by simp [hl]⟩

/-- a state that is reachable from a start state and leads to a final state lies on a cycle of
such states -/
def HasTrimCycle (A : ENFA σ) : Prop :=
  ∃ s ∈ A.starts, ∃ q, Reach (trimNext A) s q ∧ ReachPlus (trimNext A) q q

theorem trimNext_sub_outs (A : ENFA σ) (hA : A.WF) (q r : σ) (h : r ∈ trimNext A q) :
    r ∈ A.outs q := by
  obtain ⟨⟨a, ha⟩, _⟩ := (mem_trimNext A q r).mp h
  apply (mem_outs A q r).mpr
  cases a with
  | none => exact Or.inr ha
  | some a => exact Or.inl ⟨a, hA.delta_sym _ ha a rfl, ha⟩

theorem reach_mono {α : Type} {f g : α → List α} (h : ∀ q r, r ∈ f q → r ∈ g q) {x y : α}
    (hr : Reach f x y) : Reach g x y := by
  induction hr with
  | refl => exact Reach.refl _
  | tail _ hz ih => exact Reach.tail ih (h _ _ hz)

/-- no reachable cycle at all, a fortiori none in the trimmed part -/
theorem not_hasTrimCycle_of (A : ENFA σ) (hA : A.WF) (h : ¬ A.HasReachableCycle) :
    ¬ HasTrimCycle A := by
  rintro ⟨s, hs, q, hsq, r, hr, hrq⟩
  exact h ⟨s, hs, q, reach_mono (trimNext_sub_outs A hA) hsq, r, trimNext_sub_outs A hA q r hr,
    reach_mono (trimNext_sub_outs A hA) hrq⟩

/-- without a cycle between the start and the final states, accepted words are shorter than the
rank of the start state -/
theorem run_length_le_rank (A : ENFA σ) (hA : A.WF) (hac : ¬ HasTrimCycle A) (s : σ)
    (hs : s ∈ A.starts) {q f : σ} {w : List Nat} (hr : A.Run q w f) (hf : f ∈ A.finals)
    (hq : Reach (trimNext A) s q) : w.length ≤ rank (trimNext A) A.states q := by
  induction hr with
  | nil q => simp
  | @eps q r f w he hrun ih =>
    have hlead : r ∈ A.leadingToFinal := (mem_leadingToFinal_iff A r).mpr ⟨w, f, hf, hrun⟩
    have hn : r ∈ trimNext A q := (mem_trimNext A q r).mpr ⟨⟨none, he⟩, hlead⟩
    have hq' := Reach.tail hq hn
    have := rank_lt (trimNext A) A.states
      (fun q r h => hA.delta_dst _ ((mem_trimNext A q r).mp h).1.choose_spec) q r hn
      (fun hc => hac ⟨s, hs, r, hq', hc⟩)
    have := ih hf hq'
    omega
  | @step q r f a w he hrun ih =>
    have hlead : r ∈ A.leadingToFinal := (mem_leadingToFinal_iff A r).mpr ⟨w, f, hf, hrun⟩
    have hn : r ∈ trimNext A q := (mem_trimNext A q r).mpr ⟨⟨some a, he⟩, hlead⟩
    have hq' := Reach.tail hq hn
    have := rank_lt (trimNext A) A.states
      (fun q r h => hA.delta_dst _ ((mem_trimNext A q r).mp h).1.choose_spec) q r hn
      (fun hc => hac ⟨s, hs, r, hq', hc⟩)
    have := ih hf hq'
    simp only [List.length_cons]
    omega

theorem lang_length_le_of_acyclic (A : ENFA σ) (hA : A.WF) (hac : ¬ HasTrimCycle A) (w : List Nat)
    (h : A.Lang w) : w.length ≤ A.states.length := by
  obtain ⟨s, hs, f, hf, hr⟩ := h
  exact Nat.le_trans (run_length_le_rank A hA hac s hs hr hf (Reach.refl s)) (rank_le _ _ _)

/-- (T3, unbounded) no cycle between the start states and the final states -/
theorem acceptedWords_isSome_of_noTrimCycle (A : ENFA σ) (hA : A.WF) (hac : ¬ HasTrimCycle A)
    (maxLen : Option Nat) (fuel : Nat) (hf : wordsFuel A A.states.length ≤ fuel) :
    (A.acceptedWords maxLen fuel).isSome :=
  acceptedWords_isSome_of_finite A hA maxLen _ (lang_length_le_of_acyclic A hA hac) fuel hf

end Pfl.Term2
