import Pfl.Spec.FAObject
import Mathlib.Data.List.Nodup
namespace Pfl
namespace FAObj
namespace P

/-! ### generic association lists -/
section Assoc
variable {α β : Type} [DecidableEq α]

def aget (l : List (α × β)) (k : α) : Option β := (l.find? (·.1 = k)).map (·.2)

def aset (l : List (α × β)) (k : α) (v : β) : List (α × β) :=
  if l.any (·.1 = k) then l.map fun e => if e.1 = k then (k, v) else e else l ++ [(k, v)]

theorem aget_nil (k : α) : aget ([] : List (α × β)) k = none := rfl

theorem aget_cons (e : α × β) (l : List (α × β)) (k : α) :
    aget (e :: l) k = if e.1 = k then some e.2 else aget l k := by
  unfold aget
  by_cases h : e.1 = k <;> simp [h]

theorem aget_eq_none_iff {l : List (α × β)} {k : α} : aget l k = none ↔ k ∉ l.map (·.1) := by
  induction l with
  | nil => simp [aget_nil]
  | cons e l ih =>
    rw [aget_cons]
    by_cases h : e.1 = k
    · simp [h]
    · simp only [h, if_false, ih, List.map_cons, List.mem_cons, not_or]
      constructor
      · intro h2; exact ⟨fun h3 => h h3.symm, h2⟩
      · intro h2; exact h2.2

theorem mem_of_aget {l : List (α × β)} {k : α} {v : β} (h : aget l k = some v) : (k, v) ∈ l := by
  induction l with
  | nil => simp [aget_nil] at h
  | cons e l ih =>
    rw [aget_cons] at h
    by_cases h1 : e.1 = k
    · simp only [h1, if_true, Option.some.injEq] at h
      subst h1; subst h; simp
    · simp only [h1, if_false] at h
      exact List.mem_cons_of_mem _ (ih h)

theorem aget_eq_some_iff {l : List (α × β)} {k : α} {v : β} (hn : (l.map (·.1)).Nodup) :
    aget l k = some v ↔ (k, v) ∈ l := by
  refine ⟨mem_of_aget, ?_⟩
  induction l with
  | nil => simp
  | cons e l ih =>
    intro hm
    rw [aget_cons]
    simp only [List.map_cons, List.nodup_cons] at hn
    rcases List.mem_cons.1 hm with h | h
    · subst h; simp
    · have : e.1 ≠ k := by
        intro h1; apply hn.1; rw [h1]; exact List.mem_map.2 ⟨_, h, rfl⟩
      simp only [this, if_false]
      exact ih hn.2 h

theorem aset_of_mem {l : List (α × β)} {k : α} (v : β) (h : k ∈ l.map (·.1)) :
    aset l k v = l.map fun e => if e.1 = k then (k, v) else e := by
  unfold aset
  have : l.any (·.1 = k) = true := by
    simp only [List.any_eq_true, decide_eq_true_eq]
    obtain ⟨e, he, h1⟩ := List.mem_map.1 h
    exact ⟨e, he, h1⟩
  simp [this]

theorem aset_of_not_mem {l : List (α × β)} {k : α} (v : β) (h : k ∉ l.map (·.1)) :
    aset l k v = l ++ [(k, v)] := by
  unfold aset
  have : ¬ (l.any (·.1 = k) = true) := by
    simp only [List.any_eq_true, decide_eq_true_eq, not_exists, not_and]
    intro e he h1
    exact h (List.mem_map.2 ⟨e, he, h1⟩)
  simp [this]

theorem aset_keys (l : List (α × β)) (k : α) (v : β) :
    (aset l k v).map (·.1) = if k ∈ l.map (·.1) then l.map (·.1) else l.map (·.1) ++ [k] := by
  by_cases h : k ∈ l.map (·.1)
  · rw [aset_of_mem v h, if_pos h, List.map_map]
    apply List.map_congr_left
    intro e _
    by_cases h1 : e.1 = k <;> simp [h1]
  · rw [aset_of_not_mem v h, if_neg h]; simp

theorem aset_keys_nodup {l : List (α × β)} (k : α) (v : β) (hn : (l.map (·.1)).Nodup) :
    ((aset l k v).map (·.1)).Nodup := by
  rw [aset_keys]
  by_cases h : k ∈ l.map (·.1)
  · rw [if_pos h]; exact hn
  · rw [if_neg h]
    rw [List.nodup_append]
    refine ⟨hn, by simp, ?_⟩
    intro a ha b hb
    simp only [List.mem_singleton] at hb
    subst hb; intro h2; subst h2; exact h ha

theorem mem_aset {l : List (α × β)} {k : α} {v : β} {e : α × β} (h : e ∈ aset l k v) :
    e = (k, v) ∨ e ∈ l := by
  by_cases hk : k ∈ l.map (·.1)
  · rw [aset_of_mem v hk] at h
    obtain ⟨e', he', rfl⟩ := List.mem_map.1 h
    by_cases h1 : e'.1 = k
    · simp [h1]
    · simp [h1, he']
  · rw [aset_of_not_mem v hk] at h
    simp only [List.mem_append, List.mem_singleton] at h
    exact h.symm

theorem aget_map_set (l : List (α × β)) (k : α) (v : β) (k' : α) :
    aget (l.map fun e => if e.1 = k then (k, v) else e) k' =
      if k' = k then (aget l k').map (fun _ => v) else aget l k' := by
  induction l with
  | nil => simp [aget_nil]
  | cons e l ih =>
    rw [List.map_cons, aget_cons, aget_cons, ih]
    by_cases h1 : e.1 = k
    · by_cases h2 : k' = k
      · subst h2; simp [h1]
      · have h4 : ¬ k = k' := fun h => h2 h.symm
        simp [h1, h2, h4]
    · by_cases h2 : k' = k
      · subst h2; simp [h1]
      · simp [h1, h2]

theorem aget_append (l₁ l₂ : List (α × β)) (k : α) :
    aget (l₁ ++ l₂) k = (aget l₁ k).or (aget l₂ k) := by
  induction l₁ with
  | nil => simp [aget_nil]
  | cons e l ih =>
    rw [List.cons_append, aget_cons, aget_cons, ih]
    by_cases h : e.1 = k <;> simp [h]

theorem aget_aset (l : List (α × β)) (k : α) (v : β) (k' : α) :
    aget (aset l k v) k' = if k' = k then some v else aget l k' := by
  by_cases hk : k ∈ l.map (·.1)
  · rw [aset_of_mem v hk, aget_map_set]
    by_cases h : k' = k
    · subst h
      simp only [if_true]
      cases h2 : aget l k' with
      | none => exact absurd hk (aget_eq_none_iff.1 h2)
      | some x => rfl
    · simp [h]
  · rw [aset_of_not_mem v hk, aget_append, aget_cons, aget_nil]
    by_cases h : k' = k
    · subst h
      rw [aget_eq_none_iff.2 hk]; simp
    · have h4 : ¬ k = k' := fun h' => h h'.symm
      simp [h, h4]

theorem mem_aset_iff {l : List (α × β)} {k : α} {v : β} (hn : (l.map (·.1)).Nodup) (k' : α) (v' : β) :
    (k', v') ∈ aset l k v ↔ if k' = k then v' = v else (k', v') ∈ l := by
  rw [← aget_eq_some_iff (aset_keys_nodup k v hn), aget_aset]
  by_cases h : k' = k
  · simp only [h, if_true, Option.some.injEq]; exact eq_comm
  · simp only [h, if_false]; exact aget_eq_some_iff hn

/-- deleting a key -/
theorem aget_filter (l : List (α × β)) (k k' : α) :
    aget (l.filter fun e => !(e.1 = k)) k' = if k' = k then none else aget l k' := by
  induction l with
  | nil => simp [aget_nil]
  | cons e l ih =>
    by_cases h1 : e.1 = k
    · rw [List.filter_cons_of_neg (by simp [h1]), ih, aget_cons]
      by_cases h2 : k' = k
      · simp [h2]
      · have h3 : ¬ e.1 = k' := fun h => h2 (h ▸ h1)
        simp [h2, h3]
    · rw [List.filter_cons_of_pos (by simp [h1]), aget_cons, aget_cons, ih]
      by_cases h2 : k' = k
      · subst h2; simp [h1]
      · simp [h2]

omit [DecidableEq α] in
theorem filter_keys_nodup {l : List (α × β)} (p : α × β → Bool) (hn : (l.map (·.1)).Nodup) :
    ((l.filter p).map (·.1)).Nodup :=
  hn.sublist (List.filter_sublist.map _)

end Assoc

/-! ### rows and tables -/

theorem rowGet_eq (row : List (Option Nat × List Nat)) (a : Option Nat) : rowGet row a = aget row a := rfl
theorem rowSet_eq (row : List (Option Nat × List Nat)) (a : Option Nat) (ts : List Nat) :
    rowSet row a ts = aset row a ts := rfl
theorem tabGet_eq (T : Table) (q : Nat) : tabGet T q = aget T q := rfl
theorem tabSet_eq (T : Table) (q : Nat) (row : List (Option Nat × List Nat)) :
    tabSet T q row = aset T q row := rfl

/-- the part of `TInv` that speaks of one row -/
def RowOK (det : Bool) (row : List (Option Nat × List Nat)) : Prop :=
  (row.map (·.1)).Nodup ∧ (∀ f ∈ row, f.2.Nodup) ∧
    (det = true → ∀ f ∈ row, f.1 ≠ none ∧ ∃ r, f.2 = [r])

theorem tinv_iff {det : Bool} {T : Table} :
    TInv det T ↔ (T.map (·.1)).Nodup ∧ ∀ e ∈ T, RowOK det e.2 := by
  unfold TInv RowOK
  constructor
  · rintro ⟨h1, h2, h3, h4⟩
    exact ⟨h1, fun e he => ⟨h2 e he, h3 e he, fun hd => h4 hd e he⟩⟩
  · rintro ⟨h1, h2⟩
    exact ⟨h1, fun e he => (h2 e he).1, fun e he => (h2 e he).2.1, fun hd e he => (h2 e he).2.2 hd⟩

theorem tinv_nil (det : Bool) : TInv det [] := by
  rw [tinv_iff]; simp

theorem rowOK_nil (det : Bool) : RowOK det [] := by
  unfold RowOK; simp

theorem rowOK_rowSet {det : Bool} {row : List (Option Nat × List Nat)} {a : Option Nat} {ts : List Nat}
    (h : RowOK det row) (hts : ts.Nodup) (hd : det = true → a ≠ none ∧ ∃ r, ts = [r]) :
    RowOK det (rowSet row a ts) := by
  rw [rowSet_eq]
  refine ⟨aset_keys_nodup a ts h.1, ?_, ?_⟩
  · intro f hf
    rcases mem_aset hf with rfl | hf
    · exact hts
    · exact h.2.1 f hf
  · intro hdet f hf
    rcases mem_aset hf with rfl | hf
    · exact hd hdet
    · exact h.2.2 hdet f hf

theorem rowOK_single {det : Bool} {a : Option Nat} {ts : List Nat}
    (hts : ts.Nodup) (hd : det = true → a ≠ none ∧ ∃ r, ts = [r]) : RowOK det [(a, ts)] :=
  rowOK_rowSet (row := []) (rowOK_nil det) hts hd

theorem rowOK_filter {det : Bool} {row : List (Option Nat × List Nat)} (h : RowOK det row)
    (p : Option Nat × List Nat → Bool) : RowOK det (row.filter p) :=
  ⟨filter_keys_nodup p h.1, fun f hf => h.2.1 f (List.mem_filter.1 hf).1,
    fun hd f hf => h.2.2 hd f (List.mem_filter.1 hf).1⟩

theorem tinv_tabSet {det : Bool} {T : Table} {row : List (Option Nat × List Nat)} (q : Nat)
    (h : TInv det T) (hr : RowOK det row) : TInv det (tabSet T q row) := by
  rw [tinv_iff] at h ⊢
  rw [tabSet_eq]
  refine ⟨aset_keys_nodup q row h.1, ?_⟩
  intro e he
  rcases mem_aset he with rfl | he
  · exact hr
  · exact h.2 e he

theorem rowOK_of_tabGet {det : Bool} {T : Table} {q : Nat} {row : List (Option Nat × List Nat)}
    (h : TInv det T) (hg : tabGet T q = some row) : RowOK det row :=
  (tinv_iff.1 h).2 _ (mem_of_aget hg)

theorem lookup_eq (T : Table) (q : Nat) (a : Option Nat) :
    lookup T q a = (tabGet T q).bind fun row => rowGet row a := by
  unfold lookup; cases tabGet T q <;> rfl

theorem lookup_tabSet (T : Table) (q : Nat) (row : List (Option Nat × List Nat)) (q' : Nat)
    (a' : Option Nat) :
    lookup (tabSet T q row) q' a' = if q' = q then rowGet row a' else lookup T q' a' := by
  rw [lookup_eq, lookup_eq, tabSet_eq, tabGet_eq, tabGet_eq, aget_aset]
  by_cases h : q' = q <;> simp [h]

/-- `T[q][a] = ts` when the row exists -/
theorem lookup_set_row {T : Table} {q : Nat} {row : List (Option Nat × List Nat)}
    (hg : tabGet T q = some row) (a : Option Nat) (ts : List Nat) (q' : Nat) (a' : Option Nat) :
    lookup (tabSet T q (rowSet row a ts)) q' a' =
      if q' = q ∧ a' = a then some ts else lookup T q' a' := by
  rw [lookup_tabSet, rowSet_eq, rowGet_eq, aget_aset]
  by_cases h : q' = q
  · subst h
    by_cases h2 : a' = a
    · simp [h2]
    · simp [h2, lookup_eq, hg, rowGet_eq]
  · simp [h]

/-- `T[q] = {a: ts}` when the row does not exist -/
theorem lookup_new_row {T : Table} {q : Nat} (hg : tabGet T q = none) (a : Option Nat) (ts : List Nat)
    (q' : Nat) (a' : Option Nat) :
    lookup (tabSet T q [(a, ts)]) q' a' =
      if q' = q ∧ a' = a then some ts else lookup T q' a' := by
  rw [lookup_tabSet, rowGet_eq, aget_cons, aget_nil]
  by_cases h : q' = q
  · subst h
    by_cases h2 : a' = a
    · simp [h2]
    · have h3 : ¬ a = a' := fun h => h2 h.symm
      simp [h2, h3, lookup_eq, hg]
  · simp [h]

/-- `del T[q][a]` -/
theorem lookup_del {T : Table} {q : Nat} {row : List (Option Nat × List Nat)}
    (hg : tabGet T q = some row) (a : Option Nat) (q' : Nat) (a' : Option Nat) :
    lookup (tabSet T q (row.filter fun e => !(e.1 = a))) q' a' =
      if q' = q ∧ a' = a then none else lookup T q' a' := by
  rw [lookup_tabSet, rowGet_eq, aget_filter]
  by_cases h : q' = q
  · subst h
    by_cases h2 : a' = a
    · simp [h2]
    · simp [h2, lookup_eq, hg, rowGet_eq]
  · simp [h]

theorem lookup_eq_some_iff {det : Bool} {T : Table} (h : TInv det T) (q : Nat) (a : Option Nat)
    (ts : List Nat) :
    lookup T q a = some ts ↔ ∃ row, (q, row) ∈ T ∧ (a, ts) ∈ row := by
  rw [lookup_eq, Option.bind_eq_some_iff]
  constructor
  · rintro ⟨row, h1, h2⟩
    exact ⟨row, mem_of_aget h1, mem_of_aget h2⟩
  · rintro ⟨row, h1, h2⟩
    have hr : RowOK det row := (tinv_iff.1 h).2 _ h1
    exact ⟨row, (aget_eq_some_iff (tinv_iff.1 h).1).2 h1, (aget_eq_some_iff hr.1).2 h2⟩

theorem mem_edges_iff {det : Bool} {T : Table} (h : TInv det T) (q : Nat) (a : Option Nat) (r : Nat) :
    (q, a, r) ∈ edges T ↔ ∃ ts, lookup T q a = some ts ∧ r ∈ ts := by
  unfold edges
  simp only [List.mem_flatMap, List.mem_map, Prod.mk.injEq]
  constructor
  · rintro ⟨e, he, f, hf, r', hr', h1, h2, h3⟩
    refine ⟨f.2, (lookup_eq_some_iff h q a f.2).2 ⟨e.2, ?_, ?_⟩, h3 ▸ hr'⟩
    · rw [← h1]; exact he
    · rw [← h2]; exact hf
  · rintro ⟨ts, h1, h2⟩
    obtain ⟨row, h3, h4⟩ := (lookup_eq_some_iff h q a ts).1 h1
    exact ⟨_, h3, _, h4, r, h2, rfl, rfl, rfl⟩

theorem edges_nodup {det : Bool} {T : Table} (h : TInv det T) : (edges T).Nodup := by
  rw [tinv_iff] at h
  unfold edges
  rw [List.nodup_flatMap]
  constructor
  · intro e he
    have hr := h.2 e he
    rw [List.nodup_flatMap]
    constructor
    · intro f hf
      refine (hr.2.1 f hf).map ?_
      intro x y hxy
      simpa using hxy
    · have := hr.1
      rw [List.Nodup, List.pairwise_map] at this
      refine this.imp ?_
      intro f g hfg
      simp only [Function.onFun]
      rw [List.disjoint_left]
      intro t h1 h2
      simp only [List.mem_map] at h1 h2
      obtain ⟨r1, _, rfl⟩ := h1
      obtain ⟨r2, _, h3⟩ := h2
      simp only [Prod.mk.injEq] at h3
      exact hfg h3.2.1.symm
  · have := h.1
    rw [List.Nodup, List.pairwise_map] at this
    refine this.imp ?_
    intro e g hfg
    simp only [Function.onFun]
    rw [List.disjoint_left]
    intro t h1 h2
    simp only [List.mem_flatMap, List.mem_map] at h1 h2
    obtain ⟨_, _, r1, _, rfl⟩ := h1
    obtain ⟨_, _, r2, _, h3⟩ := h2
    simp only [Prod.mk.injEq] at h3
    exact hfg h3.1.symm

/-- the edges after the entry `(q, a)` has been set to `X` (or deleted) -/
theorem mem_edges_upd {det : Bool} {T T' : Table} (h : TInv det T) (h' : TInv det T') {q : Nat}
    {a : Option Nat} {X : Option (List Nat)}
    (hl : ∀ q' a', lookup T' q' a' = if q' = q ∧ a' = a then X else lookup T q' a')
    (q' : Nat) (a' : Option Nat) (r' : Nat) :
    (q', a', r') ∈ edges T' ↔
      if q' = q ∧ a' = a then (∃ ts, X = some ts ∧ r' ∈ ts) else (q', a', r') ∈ edges T := by
  rw [mem_edges_iff h', mem_edges_iff h, hl]
  by_cases hc : q' = q ∧ a' = a <;> simp [hc]


/-! ### the table mutators -/

theorem mem_ins {x y : Nat} {l : List Nat} : y ∈ ins x l ↔ y = x ∨ y ∈ l := by
  unfold ins
  by_cases h : x ∈ l
  · rw [if_pos h]
    constructor
    · exact Or.inr
    · rintro (rfl | h1)
      · exact h
      · exact h1
  · rw [if_neg h]; simp [or_comm]

theorem ins_nodup {x : Nat} {l : List Nat} (h : l.Nodup) : (ins x l).Nodup := by
  unfold ins
  by_cases hx : x ∈ l
  · rw [if_pos hx]; exact h
  · rw [if_neg hx, List.nodup_append]
    refine ⟨h, by simp, ?_⟩
    intro a ha b hb
    simp only [List.mem_singleton] at hb
    subst hb; intro h2; subst h2; exact hx ha

theorem lookup_of_some {T : Table} {q : Nat} {row : List (Option Nat × List Nat)}
    (hg : tabGet T q = some row) (a : Option Nat) : lookup T q a = rowGet row a := by
  rw [lookup_eq, hg]; rfl

theorem lookup_of_none {T : Table} {q : Nat} (hg : tabGet T q = none) (a : Option Nat) :
    lookup T q a = none := by
  rw [lookup_eq, hg]; rfl

theorem lookup_nodup {det : Bool} {T : Table} (h : TInv det T) {q : Nat} {a : Option Nat} {ts : List Nat}
    (hl : lookup T q a = some ts) : ts.Nodup := by
  obtain ⟨row, h1, h2⟩ := (lookup_eq_some_iff h q a ts).1 hl
  exact ((tinv_iff.1 h).2 _ h1).2.1 _ h2

theorem lookup_det {T : Table} (h : TInv true T) {q : Nat} {a : Option Nat} {ts : List Nat}
    (hl : lookup T q a = some ts) : a ≠ none ∧ ∃ r, ts = [r] := by
  obtain ⟨row, h1, h2⟩ := (lookup_eq_some_iff h q a ts).1 hl
  exact ((tinv_iff.1 h).2 _ h1).2.2 rfl _ h2

/-- setting the entry `(q, a)` to a list that has one more target -/
theorem edges_set_add {det : Bool} {T T' : Table} (h : TInv det T) (h' : TInv det T') {q : Nat}
    {a : Option Nat} {r : Nat} {ts' : List Nat}
    (hl : ∀ q' a', lookup T' q' a' = if q' = q ∧ a' = a then some ts' else lookup T q' a')
    (hts : ∀ r', r' ∈ ts' ↔ r' = r ∨ (q, a, r') ∈ edges T) :
    ∀ t, t ∈ edges T' ↔ t = (q, a, r) ∨ t ∈ edges T := by
  rintro ⟨q', a', r'⟩
  rw [mem_edges_upd h h' hl]
  by_cases hc : q' = q ∧ a' = a
  · obtain ⟨rfl, rfl⟩ := hc
    simp [hts]
  · rw [if_neg hc]
    constructor
    · exact Or.inr
    · rintro (h1 | h1)
      · simp only [Prod.mk.injEq] at h1
        exact absurd ⟨h1.1, h1.2.1⟩ hc
      · exact h1

/-- setting (or deleting) the entry `(q, a)` so that it has one target less -/
theorem edges_set_rem {det : Bool} {T T' : Table} (h : TInv det T) (h' : TInv det T') {q : Nat}
    {a : Option Nat} {r : Nat} {X : Option (List Nat)}
    (hl : ∀ q' a', lookup T' q' a' = if q' = q ∧ a' = a then X else lookup T q' a')
    (hts : ∀ r', (∃ ts, X = some ts ∧ r' ∈ ts) ↔ r' ≠ r ∧ (q, a, r') ∈ edges T) :
    ∀ t, t ∈ edges T' ↔ t ≠ (q, a, r) ∧ t ∈ edges T := by
  rintro ⟨q', a', r'⟩
  rw [mem_edges_upd h h' hl]
  by_cases hc : q' = q ∧ a' = a
  · obtain ⟨rfl, rfl⟩ := hc
    simp [hts]
  · rw [if_neg hc]
    constructor
    · intro h1
      refine ⟨?_, h1⟩
      intro h2
      simp only [Prod.mk.injEq] at h2
      exact hc ⟨h2.1, h2.2.1⟩
    · exact fun h1 => h1.2

theorem not_mem_edges_of_lookup_none {det : Bool} {T : Table} (h : TInv det T) {q : Nat} {a : Option Nat}
    (hl : lookup T q a = none) (r : Nat) : (q, a, r) ∉ edges T := by
  rw [mem_edges_iff h, hl]; simp

theorem addN_spec {T : Table} (h : TInv false T) (q : Nat) (a : Option Nat) (r : Nat) :
    TInv false (addN T q a r) ∧ ∀ t, t ∈ edges (addN T q a r) ↔ t = (q, a, r) ∨ t ∈ edges T := by
  unfold addN
  cases hg : tabGet T q with
  | some row =>
    have hrow := rowOK_of_tabGet h hg
    dsimp only
    cases hr : rowGet row a with
    | some ts =>
      have hl : lookup T q a = some ts := by rw [lookup_of_some hg, hr]
      have h' : TInv false (tabSet T q (rowSet row a (ins r ts))) :=
        tinv_tabSet q h (rowOK_rowSet hrow (ins_nodup (lookup_nodup h hl)) (by simp))
      refine ⟨h', edges_set_add h h' (lookup_set_row hg a _) ?_⟩
      intro r'
      rw [mem_ins, mem_edges_iff h, hl]; simp
    | none =>
      have hl : lookup T q a = none := by rw [lookup_of_some hg, hr]
      have h' : TInv false (tabSet T q (rowSet row a [r])) :=
        tinv_tabSet q h (rowOK_rowSet hrow (by simp) (by simp))
      refine ⟨h', edges_set_add h h' (lookup_set_row hg a _) ?_⟩
      intro r'
      rw [mem_edges_iff h, hl]; simp
  | none =>
    have hl : lookup T q a = none := lookup_of_none hg a
    have h' : TInv false (tabSet T q [(a, [r])]) :=
      tinv_tabSet q h (rowOK_single (by simp) (by simp))
    refine ⟨h', edges_set_add h h' (lookup_new_row hg a _) ?_⟩
    intro r'
    rw [mem_edges_iff h, hl]; simp

/-- what `remove_transition` does on the table -/
def RemSpec (det : Bool) (T : Table) (q : Nat) (a : Option Nat) (r : Nat) (res : Table × Nat) : Prop :=
  TInv det res.1 ∧ (∀ t, t ∈ edges res.1 ↔ t ≠ (q, a, r) ∧ t ∈ edges T) ∧
    (res.2 = 1 ↔ (q, a, r) ∈ edges T) ∧ (res.2 = 0 ∨ res.2 = 1)

theorem remSpec_noop {det : Bool} {T : Table} (h : TInv det T) {q : Nat} {a : Option Nat} {r : Nat}
    (hn : (q, a, r) ∉ edges T) : RemSpec det T q a r (T, 0) := by
  refine ⟨h, ?_, by simp [hn], Or.inl rfl⟩
  intro t
  constructor
  · intro ht; exact ⟨fun h1 => hn (h1 ▸ ht), ht⟩
  · exact fun h1 => h1.2

theorem remN_spec {T : Table} (h : TInv false T) (q : Nat) (a : Option Nat) (r : Nat) :
    RemSpec false T q a r (remN T q a r) := by
  unfold remN
  cases hg : tabGet T q with
  | some row =>
    have hrow := rowOK_of_tabGet h hg
    dsimp only
    cases hr : rowGet row a with
    | some ts =>
      have hl : lookup T q a = some ts := by rw [lookup_of_some hg, hr]
      have hnd := lookup_nodup h hl
      by_cases hm : r ∈ ts
      · simp only [hm, if_true]
        have h' : TInv false (tabSet T q (rowSet row a (ts.erase r))) :=
          tinv_tabSet q h (rowOK_rowSet hrow (hnd.erase r) (by simp))
        refine ⟨h', edges_set_rem h h' (lookup_set_row hg a _) ?_, ?_, Or.inr rfl⟩
        · intro r'
          rw [mem_edges_iff h, hl]
          simp [hnd.mem_erase_iff]
        · simp only [true_iff]
          rw [mem_edges_iff h, hl]; simpa using hm
      · simp only [hm, if_false]
        apply remSpec_noop h
        rw [mem_edges_iff h, hl]; simpa using hm
    | none =>
      have hl : lookup T q a = none := by rw [lookup_of_some hg, hr]
      exact remSpec_noop h (not_mem_edges_of_lookup_none h hl r)
  | none =>
    exact remSpec_noop h (not_mem_edges_of_lookup_none h (lookup_of_none hg a) r)

theorem remD_spec {T : Table} (h : TInv true T) (q : Nat) (a : Option Nat) (r : Nat) :
    RemSpec true T q a r (remD T q a r) := by
  unfold remD
  cases hg : tabGet T q with
  | some row =>
    have hrow := rowOK_of_tabGet h hg
    dsimp only
    cases hr : rowGet row a with
    | some ts =>
      have hl : lookup T q a = some ts := by rw [lookup_of_some hg, hr]
      by_cases hm : ts = [r]
      · simp only [hm, if_true]
        subst hm
        have h' : TInv true (tabSet T q (row.filter fun e => !(e.1 = a))) :=
          tinv_tabSet q h (rowOK_filter hrow _)
        refine ⟨h', edges_set_rem h h' (lookup_del hg a) ?_, ?_, Or.inr rfl⟩
        · intro r'
          rw [mem_edges_iff h, hl]
          simp
        · simp only [true_iff]
          rw [mem_edges_iff h, hl]; simp
      · simp only [hm, if_false]
        apply remSpec_noop h
        rw [mem_edges_iff h, hl]
        obtain ⟨_, r0, rfl⟩ := lookup_det h hl
        simp only [List.cons.injEq, and_true] at hm
        simpa using fun h1 => hm h1.symm
    | none =>
      have hl : lookup T q a = none := by rw [lookup_of_some hg, hr]
      exact remSpec_noop h (not_mem_edges_of_lookup_none h hl r)
  | none =>
    exact remSpec_noop h (not_mem_edges_of_lookup_none h (lookup_of_none hg a) r)

theorem addD_error_iff {T : Table} (h : TInv true T) (q : Nat) (a : Option Nat) (r : Nat) :
    (∃ e, addD T q a r = .error e) ↔ a = none ∨ ∃ r', r' ≠ r ∧ (q, a, r') ∈ edges T := by
  unfold addD
  by_cases ha : a = none
  · simp [ha]
  · simp only [ha, if_false, false_or]
    cases hg : tabGet T q with
    | some row =>
      dsimp only
      cases hr : rowGet row a with
      | some ts =>
        have hl : lookup T q a = some ts := by rw [lookup_of_some hg, hr]
        obtain ⟨_, r0, rfl⟩ := lookup_det h hl
        simp only [mem_edges_iff h, hl]
        by_cases h0 : r0 = r
        · subst h0; simp
        · simp [h0]
      | none =>
        have hl : lookup T q a = none := by rw [lookup_of_some hg, hr]
        simp [not_mem_edges_of_lookup_none h hl]
    | none =>
      simp [not_mem_edges_of_lookup_none h (lookup_of_none hg a)]

theorem addD_ok {T T' : Table} (h : TInv true T) {q : Nat} {a : Option Nat} {r : Nat}
    (hs : addD T q a r = .ok T') :
    TInv true T' ∧ ∀ t, t ∈ edges T' ↔ t = (q, a, r) ∨ t ∈ edges T := by
  unfold addD at hs
  by_cases ha : a = none
  · simp [ha] at hs
  · simp only [ha, if_false] at hs
    cases hg : tabGet T q with
    | some row =>
      have hrow := rowOK_of_tabGet h hg
      rw [hg] at hs
      dsimp only at hs
      cases hr : rowGet row a with
      | some ts =>
        have hl : lookup T q a = some ts := by rw [lookup_of_some hg, hr]
        rw [hr] at hs
        by_cases h0 : ts = [r]
        · simp only [h0, if_true, Except.ok.injEq] at hs
          subst hs
          refine ⟨h, fun t => ⟨Or.inr, ?_⟩⟩
          rintro (rfl | h1)
          · rw [mem_edges_iff h, hl]; simp [h0]
          · exact h1
        · simp [h0] at hs
      | none =>
        have hl : lookup T q a = none := by rw [lookup_of_some hg, hr]
        rw [hr] at hs
        simp only [Except.ok.injEq] at hs
        subst hs
        have h' : TInv true (tabSet T q (rowSet row a [r])) :=
          tinv_tabSet q h (rowOK_rowSet hrow (by simp) (fun _ => ⟨ha, r, rfl⟩))
        refine ⟨h', edges_set_add h h' (lookup_set_row hg a _) ?_⟩
        intro r'
        rw [mem_edges_iff h, hl]; simp
    | none =>
      have hl : lookup T q a = none := lookup_of_none hg a
      rw [hg] at hs
      simp only [Except.ok.injEq] at hs
      subst hs
      have h' : TInv true (tabSet T q [(a, [r])]) :=
        tinv_tabSet q h (rowOK_single (by simp) (fun _ => ⟨ha, r, rfl⟩))
      refine ⟨h', edges_set_add h h' (lookup_new_row hg a _) ?_⟩
      intro r'
      rw [mem_edges_iff h, hl]; simp


/-! ### the object -/

/-- the table invariant holds initially and is kept by every mutator call (also by one that raises:
the object is unchanged) -/
theorem step_tinv {o o' : Obj} {op : Op} {n : Nat} (h : TInv o.det o.trans)
    (hs : step o op = .ok (o', n)) : TInv o'.det o'.trans ∧ o'.det = o.det := by
  cases op with
  | addT q a r =>
    cases hdet : o.det with
    | true =>
      rw [hdet] at h
      simp only [step, hdet, if_true] at hs
      cases hadd : addD o.trans q a r with
      | error e => rw [hadd] at hs; simp at hs
      | ok T' =>
        rw [hadd] at hs
        simp only [Except.ok.injEq, Prod.mk.injEq] at hs
        obtain ⟨rfl, rfl⟩ := hs
        refine ⟨?_, rfl⟩
        exact (addD_ok h hadd).1
    | false =>
      rw [hdet] at h
      simp only [step, hdet, Bool.false_eq_true, if_false, Except.ok.injEq, Prod.mk.injEq] at hs
      obtain ⟨rfl, rfl⟩ := hs
      refine ⟨?_, rfl⟩
      exact (addN_spec h q a r).1
  | remT q a r =>
    cases hdet : o.det with
    | true =>
      rw [hdet] at h
      simp only [step, hdet, if_true, Except.ok.injEq, Prod.mk.injEq] at hs
      obtain ⟨rfl, rfl⟩ := hs
      refine ⟨?_, rfl⟩
      exact (remD_spec h q a r).1
    | false =>
      rw [hdet] at h
      simp only [step, hdet, Bool.false_eq_true, if_false, Except.ok.injEq, Prod.mk.injEq] at hs
      obtain ⟨rfl, rfl⟩ := hs
      refine ⟨?_, rfl⟩
      exact (remN_spec h q a r).1
  | addStart q =>
    simp only [step] at hs
    split at hs <;>
      (simp only [Except.ok.injEq, Prod.mk.injEq] at hs; obtain ⟨rfl, rfl⟩ := hs; exact ⟨h, rfl⟩)
  | remStart q =>
    simp only [step] at hs
    repeat' split at hs
    all_goals
      (simp only [Except.ok.injEq, Prod.mk.injEq] at hs; obtain ⟨rfl, rfl⟩ := hs; exact ⟨h, rfl⟩)
  | addFinal q =>
    simp only [step, Except.ok.injEq, Prod.mk.injEq] at hs
    obtain ⟨rfl, rfl⟩ := hs; exact ⟨h, rfl⟩
  | remFinal q =>
    simp only [step] at hs
    split at hs <;>
      (simp only [Except.ok.injEq, Prod.mk.injEq] at hs; obtain ⟨rfl, rfl⟩ := hs; exact ⟨h, rfl⟩)
  | addSym a =>
    simp only [step, Except.ok.injEq, Prod.mk.injEq] at hs
    obtain ⟨rfl, rfl⟩ := hs; exact ⟨h, rfl⟩


theorem mem_insT {t x : Nat × Option Nat × Nat} {l : List (Nat × Option Nat × Nat)} :
    t ∈ insT x l ↔ t = x ∨ t ∈ l := by
  unfold insT
  by_cases h : x ∈ l
  · rw [if_pos h]
    constructor
    · exact Or.inr
    · rintro (rfl | h1)
      · exact h
      · exact h1
  · rw [if_neg h]; simp [or_comm]

theorem insT_nodup {x : Nat × Option Nat × Nat} {l : List (Nat × Option Nat × Nat)} (h : l.Nodup) :
    (insT x l).Nodup := by
  unfold insT
  by_cases hx : x ∈ l
  · rw [if_pos hx]; exact h
  · rw [if_neg hx, List.nodup_append]
    refine ⟨h, by simp, ?_⟩
    intro a ha b hb
    simp only [List.mem_singleton] at hb
    subst hb; intro h2; subst h2; exact hx ha

/-- the symbols after `add_transition` -/
def symsAdd (a : Option Nat) (l : List Nat) : List Nat :=
  match a with
  | some x => ins x l
  | none => l

/-- the guard of `absStep` for `add_transition` -/
def Bad (d : List (Nat × Option Nat × Nat)) (q : Nat) (a : Option Nat) (r : Nat) : Prop :=
  a = none ∨ ∃ r', r' ≠ r ∧ (q, a, r') ∈ d

theorem guard_iff (d : List (Nat × Option Nat × Nat)) (q : Nat) (a : Option Nat) (r : Nat) :
    (decide (a = none) || d.any fun t => decide (t.1 = q ∧ t.2.1 = a ∧ t.2.2 ≠ r)) = true ↔
      Bad d q a r := by
  unfold Bad
  simp only [Bool.or_eq_true, decide_eq_true_eq, List.any_eq_true]
  constructor
  · rintro (h | ⟨⟨q', a', r'⟩, ht, h1, h2, h3⟩)
    · exact Or.inl h
    · simp only at h1 h2 h3
      subst h1; subst h2
      exact Or.inr ⟨r', h3, ht⟩
  · rintro (h | ⟨r', h1, h2⟩)
    · exact Or.inl h
    · exact Or.inr ⟨(q, a, r'), h2, rfl, rfl, h1⟩

theorem absStep_addT_bad {s : Abs} {q : Nat} {a : Option Nat} {r : Nat} (hb : Bad s.delta q a r) :
    absStep true s (.addT q a r) = s := by
  simp only [absStep]
  rw [if_pos]
  rw [Bool.and_eq_true]
  exact ⟨rfl, (guard_iff s.delta q a r).2 hb⟩

theorem absStep_addT_good {det : Bool} {s : Abs} {q : Nat} {a : Option Nat} {r : Nat}
    (hb : det = true → ¬ Bad s.delta q a r) :
    absStep det s (.addT q a r) =
      { s with delta := insT (q, a, r) s.delta, states := ins r (ins q s.states),
               syms := symsAdd a s.syms } := by
  simp only [absStep]
  rw [if_neg]
  · rfl
  rw [Bool.and_eq_true]
  rintro ⟨h1, h2⟩
  exact hb h1 ((guard_iff s.delta q a r).1 h2)

theorem bad_congr {d d' : List (Nat × Option Nat × Nat)} (h : ∀ t, t ∈ d ↔ t ∈ d') (q : Nat)
    (a : Option Nat) (r : Nat) : Bad d q a r ↔ Bad d' q a r := by
  unfold Bad; simp only [h]

theorem refines_addT {o : Obj} {s : Abs} {T' : Table} {det' : Bool} {q r : Nat} {a : Option Nat}
    (hr : Refines o s) (h' : TInv det' T')
    (he : ∀ t, t ∈ edges T' ↔ t = (q, a, r) ∨ t ∈ edges o.trans) :
    Refines { o with trans := T', states := ins r (ins q o.states),
                     syms := symsAdd a o.syms }
      { s with delta := insT (q, a, r) s.delta, states := ins r (ins q s.states),
               syms := symsAdd a s.syms } := by
  obtain ⟨h1, h2, h3, h4, h5, h6, h7⟩ := hr
  refine ⟨?_, ?_, h3, h4, ?_, edges_nodup h', insT_nodup h7⟩
  · show ins r (ins q o.states) = ins r (ins q s.states)
    rw [h1]
  · show symsAdd a o.syms = symsAdd a s.syms
    rw [h2]
  · intro t
    show t ∈ edges T' ↔ t ∈ insT (q, a, r) s.delta
    rw [he, mem_insT, h5]

theorem refines_remT {o : Obj} {s : Abs} {T' : Table} {det' : Bool} {q r : Nat} {a : Option Nat}
    (hr : Refines o s) (h' : TInv det' T')
    (he : ∀ t, t ∈ edges T' ↔ t ≠ (q, a, r) ∧ t ∈ edges o.trans) :
    Refines { o with trans := T' } { s with delta := s.delta.erase (q, a, r) } := by
  obtain ⟨h1, h2, h3, h4, h5, h6, h7⟩ := hr
  refine ⟨h1, h2, h3, h4, ?_, edges_nodup h', h7.erase _⟩
  intro t
  show t ∈ edges T' ↔ t ∈ s.delta.erase (q, a, r)
  rw [he, h7.mem_erase_iff, h5]

/-- one call refines the plain set operation -/
theorem step_refines {o o' : Obj} {s : Abs} {op : Op} {n : Nat} (hi : TInv o.det o.trans)
    (hr : Refines o s) (hs : step o op = .ok (o', n)) : Refines o' (absStep o.det s op) := by
  cases op with
  | addT q a r =>
    cases hdet : o.det with
    | true =>
      rw [hdet] at hi
      simp only [step, hdet, if_true] at hs
      cases hadd : addD o.trans q a r with
      | error e => rw [hadd] at hs; simp at hs
      | ok T' =>
        rw [hadd] at hs
        simp only [Except.ok.injEq, Prod.mk.injEq] at hs
        obtain ⟨rfl, rfl⟩ := hs
        have hnb : ¬ Bad s.delta q a r := by
          rw [← bad_congr hr.2.2.2.2.1]
          intro hb
          obtain ⟨e, he⟩ := (addD_error_iff hi q a r).2 hb
          rw [hadd] at he; simp at he
        rw [absStep_addT_good (fun _ => hnb)]
        have := refines_addT hr (addD_ok hi hadd).1 (addD_ok hi hadd).2
        rw [hdet] at this
        exact this
    | false =>
      rw [hdet] at hi
      simp only [step, hdet, Bool.false_eq_true, if_false, Except.ok.injEq, Prod.mk.injEq] at hs
      obtain ⟨rfl, rfl⟩ := hs
      rw [absStep_addT_good (by simp)]
      have := refines_addT hr (addN_spec hi q a r).1 (addN_spec hi q a r).2
      rw [hdet] at this
      exact this
  | remT q a r =>
    cases hdet : o.det with
    | true =>
      rw [hdet] at hi
      simp only [step, hdet, if_true, Except.ok.injEq, Prod.mk.injEq] at hs
      obtain ⟨rfl, rfl⟩ := hs
      have := refines_remT hr (remD_spec hi q a r).1 (remD_spec hi q a r).2.1
      rw [hdet] at this
      exact this
    | false =>
      rw [hdet] at hi
      simp only [step, hdet, Bool.false_eq_true, if_false, Except.ok.injEq, Prod.mk.injEq] at hs
      obtain ⟨rfl, rfl⟩ := hs
      have := refines_remT hr (remN_spec hi q a r).1 (remN_spec hi q a r).2.1
      rw [hdet] at this
      exact this
  | addStart q =>
    obtain ⟨h1, h2, h3, h4, h5, h6, h7⟩ := hr
    cases hdet : o.det with
    | true =>
      simp only [step, hdet, if_true, Except.ok.injEq, Prod.mk.injEq] at hs
      obtain ⟨rfl, rfl⟩ := hs
      simp only [absStep, if_true]
      exact ⟨by simp [h1], h2, rfl, h4, h5, h6, h7⟩
    | false =>
      simp only [step, hdet, Bool.false_eq_true, if_false, Except.ok.injEq, Prod.mk.injEq] at hs
      obtain ⟨rfl, rfl⟩ := hs
      simp only [absStep, Bool.false_eq_true, if_false]
      exact ⟨by simp [h1], h2, by simp [h3], h4, h5, h6, h7⟩
  | remStart q =>
    obtain ⟨h1, h2, h3, h4, h5, h6, h7⟩ := hr
    cases hdet : o.det with
    | true =>
      simp only [step, hdet, if_true] at hs
      simp only [absStep, if_true]
      by_cases hq : o.starts = [q]
      · simp only [hq, if_true, Except.ok.injEq, Prod.mk.injEq] at hs
        obtain ⟨rfl, rfl⟩ := hs
        rw [if_pos (h3 ▸ hq)]
        exact ⟨h1, h2, rfl, h4, h5, h6, h7⟩
      · simp only [hq, if_false, Except.ok.injEq, Prod.mk.injEq] at hs
        obtain ⟨rfl, rfl⟩ := hs
        rw [if_neg (h3 ▸ hq)]
        exact ⟨h1, h2, h3, h4, h5, h6, h7⟩
    | false =>
      simp only [step, hdet, Bool.false_eq_true, if_false] at hs
      simp only [absStep, Bool.false_eq_true, if_false]
      by_cases hq : q ∈ o.starts
      · simp only [hq, if_true, Except.ok.injEq, Prod.mk.injEq] at hs
        obtain ⟨rfl, rfl⟩ := hs
        exact ⟨h1, h2, by simp [h3], h4, h5, h6, h7⟩
      · simp only [hq, if_false, Except.ok.injEq, Prod.mk.injEq] at hs
        obtain ⟨rfl, rfl⟩ := hs
        refine ⟨h1, h2, ?_, h4, h5, h6, h7⟩
        show o.starts = s.starts.erase q
        rw [← h3, List.erase_of_not_mem hq]
  | addFinal q =>
    obtain ⟨h1, h2, h3, h4, h5, h6, h7⟩ := hr
    simp only [step, Except.ok.injEq, Prod.mk.injEq] at hs
    obtain ⟨rfl, rfl⟩ := hs
    simp only [absStep]
    exact ⟨by simp [h1], h2, h3, by simp [h4], h5, h6, h7⟩
  | remFinal q =>
    obtain ⟨h1, h2, h3, h4, h5, h6, h7⟩ := hr
    simp only [step] at hs
    simp only [absStep]
    by_cases hq : q ∈ o.finals
    · simp only [hq, if_true, Except.ok.injEq, Prod.mk.injEq] at hs
      obtain ⟨rfl, rfl⟩ := hs
      exact ⟨h1, h2, h3, by simp [h4], h5, h6, h7⟩
    · simp only [hq, if_false, Except.ok.injEq, Prod.mk.injEq] at hs
      obtain ⟨rfl, rfl⟩ := hs
      refine ⟨h1, h2, h3, ?_, h5, h6, h7⟩
      show o.finals = s.finals.erase q
      rw [← h4, List.erase_of_not_mem hq]
  | addSym a =>
    obtain ⟨h1, h2, h3, h4, h5, h6, h7⟩ := hr
    simp only [step, Except.ok.injEq, Prod.mk.injEq] at hs
    obtain ⟨rfl, rfl⟩ := hs
    simp only [absStep]
    exact ⟨h1, by simp [h2], h3, h4, h5, h6, h7⟩


theorem step_error_inv {o : Obj} {op : Op} {e : Err} (hs : step o op = .error e) :
    ∃ q a r, op = .addT q a r ∧ o.det = true ∧ addD o.trans q a r = .error e := by
  cases op with
  | addT q a r =>
    cases hdet : o.det with
    | true =>
      simp only [step, hdet, if_true] at hs
      cases hadd : addD o.trans q a r with
      | error e' =>
        rw [hadd] at hs
        simp only [Except.error.injEq] at hs
        subst hs
        exact ⟨q, a, r, rfl, rfl, hadd⟩
      | ok T' => rw [hadd] at hs; simp at hs
    | false =>
      simp [step, hdet] at hs
  | remT q a r => simp [step] at hs
  | addStart q => simp only [step] at hs; split at hs <;> simp at hs
  | remStart q => simp only [step] at hs; repeat' split at hs
                  all_goals simp at hs
  | addFinal q => simp [step] at hs
  | remFinal q => simp only [step] at hs; split at hs <;> simp at hs
  | addSym a => simp [step] at hs

theorem step_addT_error {o : Obj} {q r : Nat} {a : Option Nat} {e : Err} (hdet : o.det = true)
    (hadd : addD o.trans q a r = .error e) : step o (.addT q a r) = .error e := by
  simp only [step, hdet, if_true, hadd]

/-- a call raises exactly when the automaton is deterministic and the new transition is an ε-move
or gives the (state, symbol) pair a second target; the value is then unchanged as well -/
theorem step_error_iff {o : Obj} {s : Abs} (hi : TInv o.det o.trans) (hr : Refines o s) (op : Op) :
    (∃ e, step o op = .error e) ↔
      ∃ q a r, op = .addT q a r ∧ o.det = true ∧ (a = none ∨ ∃ r', r' ≠ r ∧ (q, a, r') ∈ s.delta) := by
  constructor
  · rintro ⟨e, he⟩
    obtain ⟨q, a, r, rfl, hdet, hadd⟩ := step_error_inv he
    rw [hdet] at hi
    refine ⟨q, a, r, rfl, hdet, ?_⟩
    exact (bad_congr hr.2.2.2.2.1 q a r).1 ((addD_error_iff hi q a r).1 ⟨e, hadd⟩)
  · rintro ⟨q, a, r, rfl, hdet, hb⟩
    rw [hdet] at hi
    obtain ⟨e, he⟩ := (addD_error_iff hi q a r).2 ((bad_congr hr.2.2.2.2.1 q a r).2 hb)
    exact ⟨e, step_addT_error hdet he⟩

theorem step_error_abs {o : Obj} {s : Abs} {op : Op} {e : Err} (hi : TInv o.det o.trans)
    (hr : Refines o s) (hs : step o op = .error e) : absStep o.det s op = s := by
  obtain ⟨q, a, r, rfl, hdet, hb⟩ := (step_error_iff hi hr op).1 ⟨e, hs⟩
  rw [hdet]
  exact absStep_addT_bad hb

theorem refines_new (det : Bool) : Refines (new det) absNew := by
  refine ⟨rfl, rfl, rfl, rfl, fun t => Iff.rfl, ?_, ?_⟩
  · show (edges []).Nodup
    simp [edges]
  · show ([] : List (Nat × Option Nat × Nat)).Nodup
    simp

theorem run_refines_gen (ops : List Op) : ∀ (o : Obj) (s : Abs), TInv o.det o.trans → Refines o s →
    Refines (run o ops) (absRun o.det s ops) ∧ TInv o.det (run o ops).trans ∧
      (run o ops).det = o.det := by
  induction ops with
  | nil => intro o s hi hr; exact ⟨hr, hi, rfl⟩
  | cons op ops ih =>
    intro o s hi hr
    show Refines (run o (op :: ops)) (absRun o.det (absStep o.det s op) ops) ∧ _
    cases hs : step o op with
    | error e =>
      have h1 : run o (op :: ops) = run o ops := by simp only [run, hs]
      rw [h1, step_error_abs hi hr hs]
      exact ih o s hi hr
    | ok res =>
      obtain ⟨o', n⟩ := res
      have h1 : run o (op :: ops) = run o' ops := by simp only [run, hs]
      obtain ⟨hi', hd'⟩ := step_tinv hi hs
      have hr' := step_refines hi hr hs
      rw [← hd'] at hr' ⊢
      rw [h1]
      exact ih o' _ hi' hr'

/-- (1) refinement: after any history of mutator calls on a fresh object, the object stands for the
value obtained by plain set insertions and removals — the same states, symbols, start and final
states (in the same order), the same set of transitions, nothing repeated; empty entries left behind
by `remove_transition` never show -/
theorem run_refines (det : Bool) (ops : List Op) :
    Refines (run (new det) ops) (absRun det absNew ops) ∧
      TInv det (run (new det) ops).trans ∧ (run (new det) ops).det = det :=
  run_refines_gen ops (new det) absNew (tinv_nil det) (refines_new det)

/-- the integer returned by `remove_transition` says whether the transition was present -/
theorem remT_result {o o' : Obj} {s : Abs} {q r n : Nat} {a : Option Nat} (hi : TInv o.det o.trans)
    (hr : Refines o s) (hs : step o (.remT q a r) = .ok (o', n)) :
    (n = 1 ↔ (q, a, r) ∈ s.delta) ∧ (n = 0 ∨ n = 1) := by
  rw [← hr.2.2.2.2.1]
  cases hdet : o.det with
  | true =>
    rw [hdet] at hi
    simp only [step, hdet, if_true, Except.ok.injEq, Prod.mk.injEq] at hs
    obtain ⟨rfl, rfl⟩ := hs
    exact (remD_spec hi q a r).2.2
  | false =>
    rw [hdet] at hi
    simp only [step, hdet, Bool.false_eq_true, if_false, Except.ok.injEq, Prod.mk.injEq] at hs
    obtain ⟨rfl, rfl⟩ := hs
    exact (remN_spec hi q a r).2.2

end P
end FAObj
end Pfl
