/-
`_preprocess_optional` and `_separate` on trees with token leaves; the back end of the pipeline
(passes 4 to 7 and the reader) for such trees.
-/
import Pfl.Proofs.E2E3Pass4
namespace Pfl.PyRx.E2E.S3
open Pfl.RegexReader Pfl.Rx Pfl.Rx.Lem Pfl.PyPass
open Pfl.PyRx.E2E

/-! ### `_preprocess_optional` -/

theorem OP.esc (c : Char) (hc : c ≠ '?') : OP ['\\', c] [['\\', c]] := by
  refine ⟨by intro t ht; simp at ht; subst ht; simp, fun rt hrt => ?_⟩
  have h1 : pushSym rt '\\' = ['\\'] :: rt := pushSym_of rt '\\' hrt
  simp only [List.foldlM_cons, List.foldlM_nil, optionalStep, hc, if_false]
  rw [if_neg (by decide : ¬ ('\\' : Char) = '?'), h1]
  simp [pushSym, pushTok, pure, Except.pure, bind, Except.bind]

theorem OP.escq : OP ['\\', '?'] [['?']] := by
  refine ⟨by intro t ht; simp at ht; subst ht; simp, fun rt hrt => ?_⟩
  have h1 : pushSym rt '\\' = ['\\'] :: rt := pushSym_of rt '\\' hrt
  simp only [List.foldlM_cons, List.foldlM_nil, optionalStep]
  rw [if_neg (by decide : ¬ ('\\' : Char) = '?'), h1]
  simp [pure, Except.pure, bind, Except.bind]

theorem OP.opt_tok {s : List Char} {t : Tok} (h : OP s [t]) (ht : t ≠ [')']) :
    OP (s ++ ['?']) [['('] ++ t ++ ['|', '$', ')']] := by
  have hb : t ≠ ['\\'] := h.1 t (by simp)
  refine ⟨by intro x hx; simp at hx; subst hx; simp, fun rt hrt => ?_⟩
  rw [List.foldlM_append, h.2 rt hrt]
  show List.foldlM optionalStep ([t].reverse ++ rt) ['?'] = _
  simp [optionalStep, beq_tok_false ht, beq_tok_false hb, pure, Except.pure]
  rfl

/-- `\?` becomes the plain token `?` -/
def q5 (t : Tok) : Tok := if t = ['\\', '?'] then ['?'] else t

/-- the tokens the loop of `_preprocess_optional` builds -/
def tk5 : D → List Tok
  | .tk t => [q5 t]
  | .uni ts => ['('] :: (insertOr (ts.map q5) ++ [[')']])
  | .grp y => ['('] :: (tk5 y ++ [[')']])
  | .seq a b => tk5 a ++ tk5 b
  | .bar a b => tk5 a ++ ['|'] :: tk5 b
  | .star a => tk5 a ++ [['*']]
  | .opt (.tk t) => [['('] ++ q5 t ++ ['|', '$', ')']]
  | .opt (.uni ts) => ['('] :: (insertOr (ts.map q5) ++ [['|', '$', ')']])
  | .opt (.grp y) => ['('] :: (tk5 y ++ [['|', '$', ')']])
  | _ => []

/-- `_preprocess_optional` on the trees -/
def p5 : D → D
  | .tk t => .tk (q5 t)
  | .uni ts => .uni (ts.map q5)
  | .grp y => .grp (p5 y)
  | .seq a b => .seq (p5 a) (p5 b)
  | .bar a b => .bar (p5 a) (p5 b)
  | .star a => .star (p5 a)
  | .opt (.tk t) => .grp (.bar (.tk (q5 t)) (.tk ['$']))
  | .opt (.uni ts) => .uni (ts.map q5 ++ [['$']])
  | .opt (.grp y) => .grp (.bar (p5 y) (.tk ['$']))
  | x => x

theorem op_tok {t : Tok} (h : LeafTok true t) : OP t [q5 t] := by
  rcases h with ⟨c, rfl, hc⟩ | rfl | rfl | ⟨c, rfl, _, _⟩ | ⟨hq, _⟩
  · have : q5 [c] = [c] := by simp [q5]
    rw [this]
    exact OP.ch c (tk1_ne hc _ (by simp)) (tk1_ne hc _ (by simp))
  · exact OP.ch '$' (by decide) (by decide)
  · exact OP.ch '.' (by decide) (by decide)
  · by_cases hq : c = '?'
    · subst hq; exact OP.escq
    · have : q5 ['\\', c] = ['\\', c] := by simp [q5, hq]
      rw [this]; exact OP.esc c hq
  · simp at hq

theorem op_one (c : Char) (h : c ≠ '?' ∧ c ≠ '\\') : OP [c] [[c]] := OP.ch c h.1 h.2

theorem q5_bar : q5 ['|'] = ['|'] := by simp [q5]

theorem op_utok {t : Tok} (h : UTok true t) : OP t [q5 t] := by
  rcases h with h | rfl
  · exact op_tok h.1
  · exact OP.ch '{' (by decide) (by decide)

theorem op_insertOr : ∀ ts : List Tok, ts ≠ [] → (∀ t ∈ ts, UTok true t) →
    OP (insertOr ts).flatten (insertOr (ts.map q5))
  | [], h, _ => absurd rfl h
  | [t], _, h => by simpa [insertOr] using op_utok (h t (by simp))
  | t :: t' :: r, _, h => by
    have e : insertOr (t :: t' :: r) = t :: ['|'] :: insertOr (t' :: r) := rfl
    have e2 : insertOr ((t :: t' :: r).map q5) = q5 t :: ['|'] :: insertOr ((t' :: r).map q5) := rfl
    have := (op_utok (h t (by simp))).append ((op_one '|' (by decide)).append
      (op_insertOr (t' :: r) (by simp) (fun x hx => h x (by simp [hx]))))
    rw [e, e2]
    simpa using this

theorem leaf_q5_ne_close {t : Tok} (h : LeafTok true t) : q5 t ≠ [')'] := by
  unfold q5
  split
  · simp
  · exact h.push.ne_close

theorem p5_op : ∀ x, Form3 false false true x → OP (dtext x) (tk5 x)
  | .tk t, h => by simpa [dtext, dtoks, tk5] using op_tok h
  | .uni ts, h => by
    have := ((op_one '(' (by decide)).append (op_insertOr ts h.1 h.2)).append
      (op_one ')' (by decide))
    simpa [dtext, dtoks, tk5] using this
  | .grp y, h => by
    have := ((op_one '(' (by decide)).append (p5_op y h)).append (op_one ')' (by decide))
    simpa [dtext, dtoks, tk5] using this
  | .seq a b, h => by
    have := (p5_op a h.1).append (p5_op b h.2.1)
    simpa [dtext, dtoks, tk5] using this
  | .bar a b, h => by
    have := (p5_op a h.1).append ((op_one '|' (by decide)).append (p5_op b h.2))
    simpa [dtext, dtoks, tk5] using this
  | .star a, h => by
    have := (p5_op a h.1).append (op_one '*' (by decide))
    simpa [dtext, dtoks, tk5] using this
  | .plus a, h => absurd h.1 (by simp)
  | .rep a m n, h => absurd h.1 (by simp)
  | .opt (.tk t), h => by
    have := OP.opt_tok (p5_op (.tk t) h.2.1) (leaf_q5_ne_close h.2.1)
    simpa [dtext, dtoks, tk5] using this
  | .opt (.uni ts), h => by
    have := p5_op (.uni ts) h.2.1
    have e : tk5 (.uni ts) = (['('] :: insertOr (ts.map q5)) ++ [[')']] := rfl
    rw [e] at this
    have := OP.opt_grp this
    simpa [dtext, dtoks, tk5] using this
  | .opt (.grp y), h => by
    have := p5_op (.grp y) h.2.1
    have e : tk5 (.grp y) = (['('] :: tk5 y) ++ [[')']] := rfl
    rw [e] at this
    have := OP.opt_grp this
    simpa [dtext, dtoks, tk5] using this
  | .opt (.seq _ _), h => absurd h.2.2 (by simp [DUnit])
  | .opt (.bar _ _), h => absurd h.2.2 (by simp [DUnit])
  | .opt (.star _), h => absurd h.2.2 (by simp [DUnit])
  | .opt (.plus _), h => absurd h.2.2 (by simp [DUnit])
  | .opt (.opt _), h => absurd h.2.2 (by simp [DUnit])
  | .opt (.rep _ _ _), h => absurd h.2.2 (by simp [DUnit])

theorem insertOr_snoc : ∀ (ts : List Tok) (x : Tok), ts ≠ [] →
    insertOr (ts ++ [x]) = insertOr ts ++ [['|'], x]
  | [], _, h => absurd rfl h
  | [t], x, _ => rfl
  | t :: t' :: r, x, _ => by
    have e : insertOr (t :: t' :: r) = t :: ['|'] :: insertOr (t' :: r) := rfl
    have e2 : insertOr (t :: t' :: r ++ [x]) = t :: ['|'] :: insertOr (t' :: r ++ [x]) := rfl
    rw [e, e2, insertOr_snoc (t' :: r) x (by simp)]
    simp

theorem tk5_flatten : ∀ x, Form3 false false true x → (tk5 x).flatten = dtext (p5 x)
  | .tk t, _ => by simp [tk5, p5, dtext, dtoks]
  | .uni ts, _ => by simp [tk5, p5, dtext, dtoks]
  | .grp y, h => by
    have := tk5_flatten y h
    simp only [dtext] at this
    simp [tk5, p5, dtext, dtoks, this]
  | .seq a b, h => by
    have h1 := tk5_flatten a h.1
    have h2 := tk5_flatten b h.2.1
    simp only [dtext] at h1 h2
    simp [tk5, p5, dtext, dtoks, h1, h2]
  | .bar a b, h => by
    have h1 := tk5_flatten a h.1
    have h2 := tk5_flatten b h.2
    simp only [dtext] at h1 h2
    simp [tk5, p5, dtext, dtoks, h1, h2]
  | .star a, h => by
    have h1 := tk5_flatten a h.1
    simp only [dtext] at h1
    simp [tk5, p5, dtext, dtoks, h1]
  | .plus a, h => absurd h.1 (by simp)
  | .rep a m n, h => absurd h.1 (by simp)
  | .opt (.tk t), _ => by simp [tk5, p5, dtext, dtoks]
  | .opt (.uni ts), h => by
    have hne : ts.map q5 ≠ [] := by simpa using h.2.1.1
    simp [tk5, p5, dtext, dtoks, insertOr_snoc _ _ hne]
  | .opt (.grp y), h => by
    have : Form3 false false true y := h.2.1
    have h1 := tk5_flatten y this
    simp only [dtext] at h1
    simp [tk5, p5, dtext, dtoks, h1]
  | .opt (.seq _ _), h => absurd h.2.2 (by simp [DUnit])
  | .opt (.bar _ _), h => absurd h.2.2 (by simp [DUnit])
  | .opt (.star _), h => absurd h.2.2 (by simp [DUnit])
  | .opt (.plus _), h => absurd h.2.2 (by simp [DUnit])
  | .opt (.opt _), h => absurd h.2.2 (by simp [DUnit])
  | .opt (.rep _ _ _), h => absurd h.2.2 (by simp [DUnit])

theorem pass5 (x : D) (h : Form3 false false true x) :
    preprocessOptional (dtext x) = .ok (dtext (p5 x)) := by
  have h1 := (p5_op x h).2 [] rfl
  simp only [List.append_nil] at h1
  simp only [preprocessOptional, h1]
  show Except.ok (joinR (tk5 x).reverse) = _
  rw [joinR, List.reverse_reverse, tk5_flatten x h]

theorem leaf_q5 {t : Tok} (h : LeafTok true t) : LeafTok false (q5 t) := by
  rcases h with ⟨c, rfl, hc⟩ | rfl | rfl | ⟨c, rfl, h1, _⟩ | ⟨hq, _⟩
  · exact Or.inl ⟨c, by simp [q5], hc⟩
  · exact Or.inr (Or.inl (by simp [q5]))
  · exact Or.inr (Or.inr (Or.inl (by simp [q5])))
  · by_cases hq : c = '?'
    · subst hq; exact Or.inr (Or.inr (Or.inr (Or.inr ⟨rfl, by simp [q5]⟩)))
    · exact Or.inr (Or.inr (Or.inr (Or.inl ⟨c, by simp [q5, hq], h1, fun _ => hq⟩)))
  · simp at hq

theorem q5_dot {t : Tok} : q5 t = ['.'] ↔ t = ['.'] := by
  unfold q5
  split
  · rename_i h; subst h; simp
  · exact Iff.rfl

theorem utok_q5 {t : Tok} (h : UTok true t) : UTok false (q5 t) := by
  rcases h with h | rfl
  · exact Or.inl ⟨leaf_q5 h.1, fun e => h.2 (q5_dot.mp e)⟩
  · exact Or.inr (by simp [q5])

theorem p5_form : ∀ x, Form3 false false true x →
    Form3 false false false (p5 x) ∧ (DUnit x → DUnit (p5 x)) ∧ (dcl x ≤ 1 → dcl (p5 x) ≤ 1)
  | .tk t, h => ⟨leaf_q5 h, fun _ => trivial, fun _ => by simp [p5, dcl]⟩
  | .uni ts, h => ⟨⟨by simpa using h.1, by
      intro t ht
      obtain ⟨t0, ht0, rfl⟩ := List.mem_map.mp ht
      exact utok_q5 (h.2 t0 ht0)⟩, fun _ => trivial, fun _ => by simp [p5, dcl]⟩
  | .grp x, h => ⟨(p5_form x h).1, fun _ => trivial, fun _ => by simp [p5, dcl]⟩
  | .seq a b, h => ⟨⟨(p5_form a h.1).1, (p5_form b h.2.1).1, (p5_form a h.1).2.2 h.2.2.1,
      (p5_form b h.2.1).2.2 h.2.2.2⟩, fun hu => absurd hu (by simp [DUnit]),
      fun _ => by simp [p5, dcl]⟩
  | .bar a b, h => ⟨⟨(p5_form a h.1).1, (p5_form b h.2).1⟩, fun hu => absurd hu (by simp [DUnit]),
      fun hc => by simp [dcl] at hc⟩
  | .star a, h => ⟨⟨(p5_form a h.1).1, (p5_form a h.1).2.1 h.2⟩,
      fun hu => absurd hu (by simp [DUnit]), fun _ => by simp [p5, dcl]⟩
  | .plus a, h => absurd h.1 (by simp)
  | .rep a m n, h => absurd h.1 (by simp)
  | .opt (.tk t), h => ⟨⟨leaf_q5 h.2.1, dollar_leaf false⟩, fun _ => trivial,
      fun _ => by simp [p5, dcl]⟩
  | .opt (.uni ts), h => ⟨⟨by simp, by
      intro t ht
      rcases List.mem_append.mp ht with ht | ht
      · obtain ⟨t0, ht0, rfl⟩ := List.mem_map.mp ht
        exact utok_q5 (h.2.1.2 t0 ht0)
      · simp only [List.mem_cons, List.not_mem_nil, or_false] at ht
        subst ht
        exact Or.inl ⟨dollar_leaf false, by simp⟩⟩, fun _ => trivial,
      fun _ => by simp [p5, dcl]⟩
  | .opt (.grp y), h => ⟨⟨(p5_form y h.2.1).1, dollar_leaf false⟩, fun _ => trivial,
      fun _ => by simp [p5, dcl]⟩
  | .opt (.seq _ _), h => absurd h.2.2 (by simp [DUnit])
  | .opt (.bar _ _), h => absurd h.2.2 (by simp [DUnit])
  | .opt (.star _), h => absurd h.2.2 (by simp [DUnit])
  | .opt (.plus _), h => absurd h.2.2 (by simp [DUnit])
  | .opt (.opt _), h => absurd h.2.2 (by simp [DUnit])
  | .opt (.rep _ _ _), h => absurd h.2.2 (by simp [DUnit])

/-! ### the language -/

theorem leaf_q5_eq (t : Tok) : E.leaf (q5 t) = E.leaf t := by
  unfold q5
  split
  · rename_i h; subst h
    have h1 : toNode ['?'] = .nSym ['?'] := by decide
    simp [E.leaf, toNode_esc, h1]
  · rfl

theorem rx_tk_q5 (t : Tok) : rx3 (.tk (q5 t)) = rx3 (.tk t) := by
  simp only [rx3, q5_dot, leaf_q5_eq]

theorem altc_q5 : ∀ ts : List Tok, E.tree (altc (ts.map q5)) = E.tree (altc ts)
  | [] => rfl
  | [t] => leaf_q5_eq t
  | t :: t' :: r => by
    have e1 : altc (t :: t' :: r) = .alt (.tok t) (altc (t' :: r)) := rfl
    have e2 : altc ((t :: t' :: r).map q5) = .alt (.tok (q5 t)) (altc ((t' :: r).map q5)) := rfl
    rw [e1, e2, E.tree, E.tree, altc_q5 (t' :: r)]
    simp [E.tree, leaf_q5_eq]

theorem altc_snoc_dollar : ∀ ts : List Tok, ts ≠ [] →
    Eqv (E.tree (altc (ts ++ [['$']]))) (.alt (E.tree (altc ts)) .eps)
  | [], h => absurd rfl h
  | [t], _ => by
    have e : altc ([t] ++ [['$']]) = .alt (.tok t) (.tok ['$']) := rfl
    rw [e]
    simp only [E.tree, altc, leaf_dollar]
    exact Eqv.rfl'
  | t :: t' :: r, _ => by
    have e1 : altc (t :: t' :: r) = .alt (.tok t) (altc (t' :: r)) := rfl
    have e2 : altc (t :: t' :: r ++ [['$']]) = .alt (.tok t) (altc (t' :: r ++ [['$']])) := rfl
    rw [e1, e2, E.tree, E.tree]
    exact (Eqv.alt Eqv.rfl' (altc_snoc_dollar (t' :: r) (by simp))).trans
      (Eqv.alt_assoc _ _ _).symm

theorem rx_p5 : ∀ x, Form3 false false true x → Eqv (rx3 (p5 x)) (rx3 x)
  | .tk t, _ => by rw [p5, rx_tk_q5]; exact Eqv.rfl'
  | .uni ts, _ => by simp only [p5, rx3, altc_q5]; exact Eqv.rfl'
  | .grp x, h => rx_p5 x h
  | .seq a b, h => Eqv.cat (rx_p5 a h.1) (rx_p5 b h.2.1)
  | .bar a b, h => Eqv.alt (rx_p5 a h.1) (rx_p5 b h.2)
  | .star a, h => Eqv.star (rx_p5 a h.1)
  | .plus _, _ => Eqv.rfl'
  | .rep _ _ _, _ => Eqv.rfl'
  | .opt (.tk t), _ => by
    simp only [p5, rx3, leaf_dollar, q5_dot, leaf_q5_eq]
    have : (['$'] : Tok) ≠ ['.'] := by simp
    simp only [this, if_false]
    exact Eqv.rfl'
  | .opt (.uni ts), h => by
    have hne : ts.map q5 ≠ [] := by simpa using h.2.1.1
    have := altc_snoc_dollar _ hne
    rw [altc_q5] at this
    simpa only [p5, rx3] using this
  | .opt (.grp y), h => by
    have : (['$'] : Tok) ≠ ['.'] := by simp
    simp only [p5, rx3, leaf_dollar, this, if_false]
    exact Eqv.alt (rx_p5 y h.2.1) Eqv.rfl'
  | .opt (.seq _ _), _ => Eqv.rfl'
  | .opt (.bar _ _), _ => Eqv.rfl'
  | .opt (.star _), _ => Eqv.rfl'
  | .opt (.plus _), _ => Eqv.rfl'
  | .opt (.opt _), _ => Eqv.rfl'
  | .opt (.rep _ _ _), _ => Eqv.rfl'

/-! ### `_separate` -/

/-- the tokens of the final text: a character other than the backslash, or an escaped character
that is no letter or digit -/
def FinTok (t : Tok) : Prop :=
  (∃ c, t = [c] ∧ c ≠ '\\') ∨ (∃ c, t = ['\\', c] ∧ c.isAlphanum = false)

theorem LeafTok.fin {q : Bool} {t : Tok} (h : LeafTok q t) : FinTok t := by
  rcases h with ⟨c, rfl, hc⟩ | rfl | rfl | ⟨c, rfl, h1, _⟩ | ⟨_, rfl⟩
  · exact Or.inl ⟨c, rfl, tk1_ne hc _ (by simp)⟩
  · exact Or.inl ⟨_, rfl, by decide⟩
  · exact Or.inl ⟨_, rfl, by decide⟩
  · exact Or.inr ⟨c, rfl, h1⟩
  · exact Or.inl ⟨_, rfl, by decide⟩

theorem fin_ch (c : Char) (h : c ≠ '\\') : FinTok [c] := Or.inl ⟨c, rfl, h⟩

theorem toks_fin {pl rp op : Bool} : ∀ x, Form3 pl rp op x → ∀ t ∈ dtoks x, FinTok t
  | .tk t, h => by
    intro t' ht; simp only [dtoks, List.mem_cons, List.not_mem_nil, or_false] at ht
    subst ht; exact h.fin
  | .uni ts, h => by
    intro t ht
    simp only [dtoks, List.mem_cons, List.mem_append, List.not_mem_nil, or_false] at ht
    rcases ht with rfl | ht | rfl
    · exact fin_ch _ (by decide)
    · rcases insertOr_mem ts t ht with ht | rfl
      · rcases h.2 t ht with h1 | rfl
        · exact h1.1.fin
        · exact fin_ch _ (by decide)
      · exact fin_ch _ (by decide)
    · exact fin_ch _ (by decide)
  | .grp x, h => by
    intro t ht
    simp only [dtoks, List.mem_cons, List.mem_append, List.not_mem_nil, or_false] at ht
    rcases ht with rfl | ht | rfl
    · exact fin_ch _ (by decide)
    · exact toks_fin x h t ht
    · exact fin_ch _ (by decide)
  | .seq a b, h => by
    intro t ht
    simp only [dtoks, List.mem_append] at ht
    rcases ht with ht | ht
    · exact toks_fin a h.1 t ht
    · exact toks_fin b h.2.1 t ht
  | .bar a b, h => by
    intro t ht
    simp only [dtoks, List.mem_cons, List.mem_append] at ht
    rcases ht with ht | rfl | ht
    · exact toks_fin a h.1 t ht
    · exact fin_ch _ (by decide)
    · exact toks_fin b h.2 t ht
  | .star a, h => by
    intro t ht
    simp only [dtoks, List.mem_cons, List.mem_append, List.not_mem_nil, or_false] at ht
    rcases ht with ht | rfl
    · exact toks_fin a h.1 t ht
    · exact fin_ch _ (by decide)
  | .plus a, h => by
    intro t ht
    simp only [dtoks, List.mem_cons, List.mem_append, List.not_mem_nil, or_false] at ht
    rcases ht with ht | rfl
    · exact toks_fin a h.2.1 t ht
    · exact fin_ch _ (by decide)
  | .opt a, h => by
    intro t ht
    simp only [dtoks, List.mem_cons, List.mem_append, List.not_mem_nil, or_false] at ht
    rcases ht with ht | rfl
    · exact toks_fin a h.2.1 t ht
    · exact fin_ch _ (by decide)
  | .rep a m n, h => by
    intro t ht
    simp only [dtoks, List.mem_append] at ht
    rcases ht with ht | ht
    · exact toks_fin a h.2.1 t ht
    · simp only [sing, List.mem_map] at ht
      obtain ⟨c, hc, rfl⟩ := ht
      exact fin_ch c (braces_ch2 m n c hc).noBs

theorem foldl_pushSym_toks : ∀ (l : List Tok), (∀ t ∈ l, FinTok t) → ∀ rt, escNext rt = false →
    l.flatten.foldl pushSym rt = l.reverse ++ rt ∧ escNext (l.reverse ++ rt) = false
  | [], _, rt, h => ⟨rfl, h⟩
  | t :: r, hl, rt, h => by
    rcases hl t (by simp) with ⟨c, rfl, hc⟩ | ⟨c, rfl, _⟩
    · have e := escNext_sing rt c hc
      have ih := foldl_pushSym_toks r (fun x hx => hl x (by simp [hx])) ([c] :: rt) e
      simp only [List.flatten_cons, List.singleton_append, List.foldl_cons, pushSym_of rt c h]
      simpa using ih
    · have e : escNext (['\\', c] :: rt) = false := by simp [escNext]
      have ih := foldl_pushSym_toks r (fun x hx => hl x (by simp [hx])) (['\\', c] :: rt) e
      have h2 : pushSym (['\\'] :: rt) c = ['\\', c] :: rt := by simp [pushSym, pushTok]
      simp only [List.flatten_cons, List.cons_append, List.nil_append, List.foldl_cons,
        pushSym_of rt '\\' h, h2]
      simpa using ih

theorem fin_supported {t : Tok} (h : FinTok t) : isUnsupportedTok t = false ∧ recombine? t = none := by
  rcases h with ⟨c, rfl, _⟩ | ⟨c, rfl, hc⟩
  · constructor
    · simp [isUnsupportedTok, escapedOctal]
    · simp [recombine?]
  · have hne : ∀ d : Char, d.isAlphanum = true → c ≠ d := by
      rintro d hd rfl; rw [hc] at hd; exact absurd hd (by simp)
    constructor
    · simp [isUnsupportedTok, escapedOctal, hne 'x' (by decide), hne 'N' (by decide),
        hne 'u' (by decide), hne 'U' (by decide), hne '0' (by decide), hne '1' (by decide),
        hne '2' (by decide), hne '3' (by decide), hne '4' (by decide), hne '5' (by decide),
        hne '6' (by decide), hne '7' (by decide)]
    · unfold recombine?
      split
      · rename_i heq; simp at heq; exact absurd heq (hne 'b' (by decide))
      · rename_i heq; simp at heq; exact absurd heq (hne 'n' (by decide))
      · rename_i heq; simp at heq; exact absurd heq (hne 'r' (by decide))
      · rename_i heq; simp at heq; exact absurd heq (hne 't' (by decide))
      · rename_i heq; simp at heq; exact absurd heq (hne 'f' (by decide))
      · rfl

theorem recombine_fin (l : List Tok) (h : ∀ t ∈ l, FinTok t) : recombine l = .ok l := by
  have h1 : l.any isUnsupportedTok = false := by
    rw [List.any_eq_false]
    intro t ht
    simp [(fin_supported (h t ht)).1]
  have h2 : l.map (fun t => (recombine? t).getD t) = l := by
    conv => rhs; rw [← List.map_id l]
    apply List.map_congr_left
    intro t ht
    simp [(fin_supported (h t ht)).2]
  simp [recombine, h1, h2]

theorem separate_toks (l : List Tok) (h : ∀ t ∈ l, FinTok t) :
    separate l.flatten = .ok (join [' '] (l.map expT)) := by
  have h1 := (foldl_pushSym_toks l h [] rfl).1
  simp only [List.append_nil] at h1
  simp only [separate, h1, List.reverse_reverse, recombine_fin l h]
  show Except.ok (join [' '] (l.map _)) = _
  congr 2
  apply List.map_congr_left
  intro t _
  by_cases ht : t = ['.'] <;> simp [expT, ht]

theorem toks_head {pl rp op : Bool} : ∀ x, Form3 pl rp op x →
    ∃ t r, dtoks x = t :: r ∧ (t = ['('] ∨ LeafTok op t)
  | .tk t, h => ⟨t, [], rfl, Or.inr h⟩
  | .uni ts, _ => ⟨_, _, rfl, Or.inl rfl⟩
  | .grp x, _ => ⟨_, _, rfl, Or.inl rfl⟩
  | .seq a b, h => by
    obtain ⟨t, r, e, ht⟩ := toks_head a h.1
    exact ⟨t, r ++ dtoks b, by simp [dtoks, e], ht⟩
  | .bar a b, h => by
    obtain ⟨t, r, e, ht⟩ := toks_head a h.1
    exact ⟨t, r ++ ['|'] :: dtoks b, by simp [dtoks, e], ht⟩
  | .star a, h => by
    obtain ⟨t, r, e, ht⟩ := toks_head a h.1
    exact ⟨t, r ++ [['*']], by simp [dtoks, e], ht⟩
  | .plus a, h => by
    obtain ⟨t, r, e, ht⟩ := toks_head a h.2.1
    exact ⟨t, r ++ [['+']], by simp [dtoks, e], ht⟩
  | .opt a, h => by
    obtain ⟨t, r, e, ht⟩ := toks_head a h.2.1
    exact ⟨t, r ++ [['?']], by simp [dtoks, e], ht⟩
  | .rep a m n, h => by
    obtain ⟨t, r, e, ht⟩ := toks_head a h.2.1
    exact ⟨t, r ++ sing (C.braces m n), by simp [dtoks, e], ht⟩

theorem join_cons_head (t : Tok) (r : List Tok) (c : Char) (u : List Char) (h : t = c :: u) :
    ∃ v, join [' '] (t :: r) = c :: v := by
  subst h
  cases r with
  | nil => exact ⟨u, rfl⟩
  | cons t' r => exact ⟨_, rfl⟩

theorem lstrip_final {op : Bool} (x : D) (h : Form3 false false op x) :
    lstripBackspace (join [' '] ((dtoks x).map expT)) = join [' '] ((dtoks x).map expT) := by
  obtain ⟨t, r, e, ht⟩ := toks_head x h
  have hfirst : ∃ c u, expT t = c :: u ∧ c ≠ '\x08' := by
    rcases ht with rfl | ⟨c, rfl, hc⟩ | rfl | rfl | ⟨c, rfl, _⟩ | ⟨_, rfl⟩
    · exact ⟨'(', [], by simp [expT], by decide⟩
    · have hd : ([c] : Tok) ≠ ['.'] := by simpa using tk1_ne hc '.' (by simp)
      exact ⟨c, [], by simp [expT, hd], tk1_ne hc _ (by simp)⟩
    · exact ⟨'$', [], by simp [expT], by decide⟩
    · exact ⟨'(', join ['|'] escapedPrintables ++ [')'], by simp [expT, dotReplacement], by decide⟩
    · exact ⟨'\\', [c], by simp [expT], by decide⟩
    · exact ⟨'?', [], by simp [expT], by decide⟩
  obtain ⟨c, u, hcu, hc⟩ := hfirst
  rw [e, List.map_cons]
  obtain ⟨v, hv⟩ := join_cons_head (expT t) (r.map expT) c u hcu
  rw [hv]
  simp [lstripBackspace, hc]

/-! ### the back end: passes 4 to 7 and the reader -/

theorem backend (x : D) (h : Form3 true true true x) :
    ∃ s4 s5 s6 fuel r, preprocessPositiveClosure (dtext x) = .ok s4 ∧
      preprocessOptional s4 = .ok s5 ∧ separate s5 = .ok s6 ∧
      parse fuel (lstripBackspace s6) = .ok r ∧ Eqv r (rx3 x) := by
  have h4 := (p4a_form _ h).1
  have h4b := (p4b_form _ h4).1
  have h5 := (p5_form _ h4b).1
  obtain ⟨fuel, r, hr, hE⟩ := parse_final _ h5
  refine ⟨_, _, _, fuel, r, pass4 x h, pass5 _ h4b, separate_toks _ (toks_fin _ h5), ?_, ?_⟩
  · rw [lstrip_final _ h5]; exact hr
  · exact hE.trans ((rx_p5 _ h4b).trans ((rx_p4b _ h4).trans (rx_p4a x)))

end Pfl.PyRx.E2E.S3
