/-
Helper lemmas for C03 (intersection and complement).
-/
import Pfl.Proofs.FABase
namespace Pfl
namespace ENFA
variable {σ τ : Type} [DecidableEq σ] [DecidableEq τ]

/-! ### `ofParts`, `prod` -/

theorem mem_ofParts_starts (s f : List σ) (d : List (σ × Option Nat × σ)) (q : σ) :
    q ∈ (ofParts s f d).starts ↔ q ∈ s := by
  simp [ofParts, List.mem_eraseDups]

theorem mem_ofParts_finals (s f : List σ) (d : List (σ × Option Nat × σ)) (q : σ) :
    q ∈ (ofParts s f d).finals ↔ q ∈ f := by
  simp [ofParts, List.mem_eraseDups]

theorem mem_ofParts_delta (s f : List σ) (d : List (σ × Option Nat × σ)) (t : σ × Option Nat × σ) :
    t ∈ (ofParts s f d).delta ↔ t ∈ d := by
  simp [ofParts, List.mem_eraseDups]

omit [DecidableEq σ] [DecidableEq τ] in
theorem mem_prod (xs : List σ) (ys : List τ) (x : σ) (y : τ) :
    (x, y) ∈ prod xs ys ↔ x ∈ xs ∧ y ∈ ys := by
  simp [prod, List.mem_flatMap, List.mem_map]

/-! ### runs where the ε-moves are attached after each letter -/

/-- letter-by-letter run: each step is an `a`-edge followed by ε-moves; no leading ε-moves -/
inductive RunC (A : ENFA σ) : σ → List Nat → σ → Prop
  | nil (q : σ) : RunC A q [] q
  | cons {q r r' s : σ} {a : Nat} {w : List Nat} :
      (q, some a, r) ∈ A.delta → A.EpsReach r r' → RunC A r' w s → RunC A q (a :: w) s

theorem run_iff_runC (A : ENFA σ) (q s : σ) (w : List Nat) :
    A.Run q w s ↔ ∃ p, A.EpsReach q p ∧ RunC A p w s := by
  induction w generalizing q with
  | nil =>
    constructor
    · intro h; exact ⟨s, h, RunC.nil s⟩
    · rintro ⟨p, h, hc⟩; cases hc; exact h
  | cons a w ih =>
    rw [run_cons_iff]
    constructor
    · rintro ⟨p, r, hqp, hd, hr⟩
      obtain ⟨r', hrr', hc⟩ := (ih r).mp hr
      exact ⟨p, hqp, RunC.cons hd hrr' hc⟩
    · rintro ⟨p, hqp, hc⟩
      cases hc with
      | cons hd he hc' => exact ⟨p, _, hqp, hd, (ih _).mpr ⟨_, he, hc'⟩⟩

theorem lang_iff_runC (A : ENFA σ) (w : List Nat) :
    A.Lang w ↔ ∃ s ∈ A.ecloseL A.starts, ∃ f ∈ A.finals, RunC A s w f := by
  unfold Lang
  constructor
  · rintro ⟨s, hs, f, hf, hr⟩
    obtain ⟨p, hsp, hc⟩ := (run_iff_runC A s f w).mp hr
    exact ⟨p, (mem_ecloseL_iff A _ p).mpr ⟨s, hs, hsp⟩, f, hf, hc⟩
  · rintro ⟨p, hp, f, hf, hc⟩
    obtain ⟨s, hs, hsp⟩ := (mem_ecloseL_iff A _ p).mp hp
    exact ⟨s, hs, f, hf, (run_iff_runC A s f w).mpr ⟨p, hsp, hc⟩⟩

/-! ### intersection -/

/-- shape of the product automaton -/
theorem inter_spec (A : ENFA σ) (B : ENFA τ) (fuel : Nat) (P : ENFA (σ × τ))
    (h : A.inter B fuel = some P) :
    ∃ seen, bfs (interNext A B) fuel (prod (A.ecloseL A.starts) (B.ecloseL B.starts)) = some seen ∧
      (∀ x, x ∈ P.starts ↔ x.1 ∈ A.ecloseL A.starts ∧ x.2 ∈ B.ecloseL B.starts) ∧
      (∀ x, x ∈ P.finals ↔ x.1 ∈ A.finals ∧ x.2 ∈ B.finals) ∧
      (∀ x l y, (x, l, y) ∈ P.delta ↔ x ∈ seen ∧ ∃ a, a ∈ A.syms ∧ a ∈ B.syms ∧ l = some a ∧
        y.1 ∈ A.ecloseL (A.succs x.1 (some a)) ∧ y.2 ∈ B.ecloseL (B.succs x.2 (some a))) := by
  unfold inter at h
  simp only [Option.map_eq_some_iff] at h
  obtain ⟨seen, hbfs, rfl⟩ := h
  refine ⟨seen, hbfs, ?_, ?_, ?_⟩
  · rintro ⟨x1, x2⟩; rw [mem_ofParts_starts, mem_prod]
  · rintro ⟨x1, x2⟩; rw [mem_ofParts_finals, mem_prod]
  · rintro x l ⟨y1, y2⟩
    rw [mem_ofParts_delta]
    simp only [List.mem_flatMap, List.mem_map, interSyms, List.mem_filter, decide_eq_true_eq]
    constructor
    · rintro ⟨p, hp, a, ⟨ha, hb⟩, t, ht, heq⟩
      obtain ⟨t1, t2⟩ := t
      simp only [Prod.mk.injEq] at heq
      obtain ⟨rfl, rfl, rfl, rfl⟩ := heq
      exact ⟨hp, a, ha, hb, rfl, (mem_prod _ _ _ _).mp ht⟩
    · rintro ⟨hp, a, ha, hb, rfl, h1, h2⟩
      exact ⟨x, hp, a, ⟨ha, hb⟩, (y1, y2), (mem_prod _ _ _ _).mpr ⟨h1, h2⟩, rfl⟩

theorem mem_interNext (A : ENFA σ) (B : ENFA τ) (x y : σ × τ) :
    y ∈ interNext A B x ↔ ∃ a, a ∈ A.syms ∧ a ∈ B.syms ∧
      y.1 ∈ A.ecloseL (A.succs x.1 (some a)) ∧ y.2 ∈ B.ecloseL (B.succs x.2 (some a)) := by
  obtain ⟨y1, y2⟩ := y
  simp only [interNext, interSyms, List.mem_flatMap, List.mem_filter, decide_eq_true_eq, mem_prod]
  constructor
  · rintro ⟨a, ⟨ha, hb⟩, h⟩; exact ⟨a, ha, hb, h⟩
  · rintro ⟨a, ha, hb, h⟩; exact ⟨a, ⟨ha, hb⟩, h⟩

theorem inter_lang_aux (A : ENFA σ) (B : ENFA τ) (hA : A.WF) (hB : B.WF) (fuel : Nat)
    (P : ENFA (σ × τ)) (h : A.inter B fuel = some P) (w : List Nat) :
    P.Lang w ↔ A.Lang w ∧ B.Lang w := by
  obtain ⟨seen, hbfs, hst, hfin, hdl⟩ := inter_spec A B fuel P h
  have hseen := mem_bfs_iff _ _ _ _ hbfs
  -- P has no ε-edges
  have hnoeps : ∀ x y, (x, none, y) ∉ P.delta := by
    intro x y hxy
    obtain ⟨_, a, _, _, ha, _⟩ := (hdl x none y).mp hxy
    cases ha
  -- P-run to a pair of RunC
  have hfwd : ∀ x w y, P.Run x w y → RunC A x.1 w y.1 ∧ RunC B x.2 w y.2 := by
    intro x w y hr
    induction hr with
    | nil q => exact ⟨RunC.nil _, RunC.nil _⟩
    | eps he _ _ => exact absurd he (hnoeps _ _)
    | step he _ ih =>
      obtain ⟨_, a, _, _, ha, h1, h2⟩ := (hdl _ _ _).mp he
      cases ha
      obtain ⟨r1, hr1, he1⟩ := (mem_ecloseL_iff A _ _).mp h1
      obtain ⟨r2, hr2, he2⟩ := (mem_ecloseL_iff B _ _).mp h2
      exact ⟨RunC.cons ((mem_succs A _ _ _).mp hr1) he1 ih.1,
        RunC.cons ((mem_succs B _ _ _).mp hr2) he2 ih.2⟩
  -- a pair of RunC from a processed pair to a P-run
  have hbwd : ∀ w x y, x ∈ seen → RunC A x.1 w y.1 → RunC B x.2 w y.2 → P.Run x w y := by
    intro w
    induction w with
    | nil =>
      rintro ⟨x1, x2⟩ ⟨y1, y2⟩ _ h1 h2
      cases h1; cases h2; exact Run.nil _
    | cons a w ih =>
      rintro ⟨x1, x2⟩ ⟨y1, y2⟩ hx h1 h2
      cases h1 with
      | @cons _ r1 r1' _ _ _ hd1 he1 hc1 =>
      cases h2 with
      | @cons _ r2 r2' _ _ _ hd2 he2 hc2 =>
      have ha : a ∈ A.syms := hA.delta_sym _ hd1 a rfl
      have hb : a ∈ B.syms := hB.delta_sym _ hd2 a rfl
      have m1 : r1' ∈ A.ecloseL (A.succs x1 (some a)) :=
        (mem_ecloseL_iff A _ _).mpr ⟨r1, (mem_succs A _ _ _).mpr hd1, he1⟩
      have m2 : r2' ∈ B.ecloseL (B.succs x2 (some a)) :=
        (mem_ecloseL_iff B _ _).mpr ⟨r2, (mem_succs B _ _ _).mpr hd2, he2⟩
      have hedge : ((x1, x2), some a, (r1', r2')) ∈ P.delta :=
        (hdl _ _ _).mpr ⟨hx, a, ha, hb, rfl, m1, m2⟩
      have hnext : (r1', r2') ∈ seen := by
        obtain ⟨s, hs, hreach⟩ := (hseen _).mp hx
        exact (hseen _).mpr ⟨s, hs, Reach.tail hreach
          ((mem_interNext A B _ _).mpr ⟨a, ha, hb, m1, m2⟩)⟩
      exact Run.step hedge (ih (r1', r2') (y1, y2) hnext hc1 hc2)
  rw [lang_iff_runC A, lang_iff_runC B]
  constructor
  · rintro ⟨s, hs, f, hf, hr⟩
    have := hfwd _ _ _ hr
    exact ⟨⟨s.1, ((hst s).mp hs).1, f.1, ((hfin f).mp hf).1, this.1⟩,
      ⟨s.2, ((hst s).mp hs).2, f.2, ((hfin f).mp hf).2, this.2⟩⟩
  · rintro ⟨⟨s1, hs1, f1, hf1, h1⟩, ⟨s2, hs2, f2, hf2, h2⟩⟩
    refine ⟨(s1, s2), (hst _).mpr ⟨hs1, hs2⟩, (f1, f2), (hfin _).mpr ⟨hf1, hf2⟩, ?_⟩
    refine hbwd w (s1, s2) (f1, f2) ?_ h1 h2
    exact (hseen _).mpr ⟨(s1, s2), (mem_prod _ _ _ _).mpr ⟨hs1, hs2⟩, Reach.refl _⟩

/-! ### complement -/

omit [DecidableEq σ] in
/-- if ε-edges are self loops, ε-reachability is equality -/
theorem epsReach_of_loops {A : ENFA σ} (h : ∀ q r, (q, none, r) ∈ A.delta → r = q) (q r : σ) :
    A.EpsReach q r ↔ r = q := by
  constructor
  · intro hr
    unfold EpsReach at hr
    generalize hw : ([] : List Nat) = w at hr
    induction hr with
    | nil => rfl
    | eps he _ ih => have := h _ _ he; subst this; exact ih hw
    | step => cases hw
  · rintro rfl; exact Run.nil _

omit [DecidableEq σ] in
theorem run_nil_of_loops {A : ENFA σ} (h : ∀ q r, (q, none, r) ∈ A.delta → r = q) (q r : σ) :
    A.Run q [] r ↔ r = q := epsReach_of_loops h q r

theorem run_cons_of_loops {A : ENFA σ} (h : ∀ q r, (q, none, r) ∈ A.delta → r = q) (q s : σ)
    (a : Nat) (w : List Nat) :
    A.Run q (a :: w) s ↔ ∃ r, (q, some a, r) ∈ A.delta ∧ A.Run r w s := by
  rw [run_cons_iff]
  constructor
  · rintro ⟨p, r, hqp, hd, hr⟩
    have := (epsReach_of_loops h q p).mp hqp; subst this
    exact ⟨r, hd, hr⟩
  · rintro ⟨r, hd, hr⟩; exact ⟨q, r, Run.nil _, hd, hr⟩

theorem mem_eclose_of_loops {A : ENFA σ} (h : ∀ q r, (q, none, r) ∈ A.delta → r = q) (q r : σ) :
    r ∈ A.eclose q ↔ r = q := by
  rw [mem_eclose_iff, epsReach_of_loops h]

theorem noSucc_iff {A : ENFA σ} (h : ∀ q r, (q, none, r) ∈ A.delta → r = q) (q : σ) (a : Nat) :
    ((A.eclose q).flatMap (A.succs · (some a))).isEmpty = true ↔
      ∀ r, (q, some a, r) ∉ A.delta := by
  rw [List.isEmpty_iff, List.eq_nil_iff_forall_not_mem]
  constructor
  · intro hn r hr
    exact hn r (List.mem_flatMap.mpr ⟨q, (mem_eclose_of_loops h q q).mpr rfl,
      (mem_succs A q r _).mpr hr⟩)
  · intro hn r hr
    obtain ⟨p, hp, hpr⟩ := List.mem_flatMap.mp hr
    have := (mem_eclose_of_loops h q p).mp hp; subst this
    exact hn r ((mem_succs A _ _ _).mp hpr)

/-- the abstract flip-and-complete argument: `K` has the starts of `A`, the flipped finals plus
`trash`, and the edges of `A` plus the completion edges -/
theorem compl_core (A K : ENFA σ) (hA : A.WF) (hd : A.Deterministic) (hs : A.starts ≠ [])
    (trash : σ) (ht : trash ∉ A.states)
    (hst : ∀ q, q ∈ K.starts ↔ q ∈ A.starts)
    (hfin : ∀ q, q ∈ K.finals ↔ q = trash ∨ (q ∈ A.states ∧ q ∉ A.finals))
    (hdl : ∀ q l r, (q, l, r) ∈ K.delta ↔ (q, l, r) ∈ A.delta ∨
      ∃ a, l = some a ∧ a ∈ A.syms ∧ r = trash ∧
        ((q ∈ A.states ∧ ∀ r', (q, some a, r') ∉ A.delta) ∨ q = trash))
    (w : List Nat) :
    K.Lang w ↔ (∀ a ∈ w, a ∈ A.syms) ∧ ¬ A.Lang w := by
  obtain ⟨hd1, hd2, hd3⟩ := hd
  have hKl : ∀ q r, (q, none, r) ∈ K.delta → r = q := by
    intro q r h
    rcases (hdl q none r).mp h with h | ⟨a, ha, _⟩
    · exact hd3 q r h
    · cases ha
  -- edges out of trash
  have htrashE : ∀ a r, (trash, some a, r) ∈ K.delta ↔ a ∈ A.syms ∧ r = trash := by
    intro a r
    rw [hdl]
    constructor
    · rintro (h | ⟨a', ha', hs', hr, _⟩)
      · exact absurd (hA.delta_src _ h) ht
      · cases ha'; exact ⟨hs', hr⟩
    · rintro ⟨ha, hr⟩; exact Or.inr ⟨a, rfl, ha, hr, Or.inr rfl⟩
  have htrash : ∀ w, (∃ f ∈ K.finals, K.Run trash w f) ↔ ∀ a ∈ w, a ∈ A.syms := by
    intro w
    induction w with
    | nil =>
      simp only [run_nil_of_loops hKl, List.not_mem_nil, false_imp_iff, implies_true, iff_true]
      exact ⟨trash, (hfin _).mpr (Or.inl rfl), rfl⟩
    | cons a w ih =>
      simp only [run_cons_of_loops hKl, htrashE, List.mem_cons, forall_eq_or_imp]
      rw [← ih]
      constructor
      · rintro ⟨f, hf, r, ⟨ha, rfl⟩, hr⟩; exact ⟨ha, f, hf, hr⟩
      · rintro ⟨ha, f, hf, hr⟩; exact ⟨f, hf, trash, ⟨ha, rfl⟩, hr⟩
  -- edges out of a state of A
  have hmain : ∀ w q, q ∈ A.states →
      ((∃ f ∈ K.finals, K.Run q w f) ↔
        (∀ a ∈ w, a ∈ A.syms) ∧ ¬ ∃ f ∈ A.finals, A.Run q w f) := by
    intro w
    induction w with
    | nil =>
      intro q hq
      simp only [run_nil_of_loops hKl, run_nil_of_loops hd3, List.not_mem_nil, false_imp_iff,
        implies_true, true_and]
      constructor
      · rintro ⟨f, hf, rfl⟩ ⟨f', hf', rfl⟩
        rcases (hfin _).mp hf with h | h
        · subst h; exact ht hq
        · exact h.2 hf'
      · intro h
        exact ⟨q, (hfin q).mpr (Or.inr ⟨hq, fun hf => h ⟨q, hf, rfl⟩⟩), rfl⟩
    | cons a w ih =>
      intro q hq
      have hqt : q ≠ trash := fun h => ht (h ▸ hq)
      simp only [run_cons_of_loops hKl, run_cons_of_loops hd3, List.mem_cons, forall_eq_or_imp]
      by_cases hex : ∃ r0, (q, some a, r0) ∈ A.delta
      · obtain ⟨r0, hr0⟩ := hex
        have ha : a ∈ A.syms := hA.delta_sym _ hr0 a rfl
        have hr0s : r0 ∈ A.states := hA.delta_dst _ hr0
        have hK : ∀ r, (q, some a, r) ∈ K.delta ↔ r = r0 := by
          intro r
          rw [hdl]
          constructor
          · rintro (h | ⟨a', ha', _, _, (⟨_, hno⟩ | h)⟩)
            · exact hd2 _ _ _ _ h hr0
            · cases ha'; exact absurd hr0 (hno r0)
            · exact absurd h hqt
          · rintro rfl; exact Or.inl hr0
        have hA' : ∀ r, (q, some a, r) ∈ A.delta ↔ r = r0 := by
          intro r
          exact ⟨fun h => hd2 _ _ _ _ h hr0, fun h => h ▸ hr0⟩
        simp only [hK, hA', exists_eq_left]
        rw [ih r0 hr0s]
        exact ⟨fun h => ⟨⟨ha, h.1⟩, h.2⟩, fun h => ⟨h.1.2, h.2⟩⟩
      · have hno : ∀ r, (q, some a, r) ∉ A.delta := fun r hr => hex ⟨r, hr⟩
        have hK : ∀ r, (q, some a, r) ∈ K.delta ↔ a ∈ A.syms ∧ r = trash := by
          intro r
          rw [hdl]
          constructor
          · rintro (h | ⟨a', ha', hs', hr, _⟩)
            · exact absurd h (hno r)
            · cases ha'; exact ⟨hs', hr⟩
          · rintro ⟨ha, hr⟩; exact Or.inr ⟨a, rfl, ha, hr, Or.inl ⟨hq, hno⟩⟩
        simp only [hK, hno, false_and, exists_false, and_false, not_false_eq_true, and_true]
        rw [← htrash w]
        constructor
        · rintro ⟨f, hf, r, ⟨ha, rfl⟩, hr⟩; exact ⟨ha, f, hf, hr⟩
        · rintro ⟨ha, f, hf, hr⟩; exact ⟨f, hf, trash, ⟨ha, rfl⟩, hr⟩
  -- the unique start state
  obtain ⟨s0, hs0⟩ := List.exists_mem_of_ne_nil _ hs
  have hK : K.Lang w ↔ ∃ f ∈ K.finals, K.Run s0 w f := by
    unfold Lang
    constructor
    · rintro ⟨s, hs, h⟩
      have := hd1 _ ((hst s).mp hs) _ hs0; subst this; exact h
    · intro h; exact ⟨s0, (hst s0).mpr hs0, h⟩
  have hAL : A.Lang w ↔ ∃ f ∈ A.finals, A.Run s0 w f := by
    unfold Lang
    constructor
    · rintro ⟨s, hs, h⟩
      have := hd1 _ hs _ hs0; subst this; exact h
    · intro h; exact ⟨s0, hs0, h⟩
  rw [hK, hAL]
  exact hmain w s0 (hA.starts_sub _ hs0)

/-- `complementRaw A C trash` has the shape required by `compl_core` as soon as `C` agrees with
`A` on starts, finals and edges (as sets) -/
theorem complementRaw_core (A C : ENFA σ) (hA : A.WF) (hd : A.Deterministic) (hs : A.starts ≠ [])
    (trash : σ) (ht : trash ∉ A.states)
    (hCs : ∀ q, q ∈ C.starts ↔ q ∈ A.starts)
    (hCf : ∀ q, q ∈ C.finals ↔ q ∈ A.finals)
    (hCd : ∀ t, t ∈ C.delta ↔ t ∈ A.delta)
    (w : List Nat) :
    (A.complementRaw C trash).Lang w ↔ (∀ a ∈ w, a ∈ A.syms) ∧ ¬ A.Lang w := by
  apply compl_core A _ hA hd hs trash ht
  · intro q; exact hCs q
  · intro q
    simp only [complementRaw, List.mem_eraseDups, List.mem_append, List.mem_filter,
      List.mem_cons, decide_eq_true_eq, hCf]
    have := hA.finals_sub q
    constructor
    · rintro (⟨h | h, hn⟩ | ⟨h1, h2⟩)
      · exact Or.inl h
      · exact absurd ⟨this h, h⟩ hn
      · exact Or.inr ⟨h1, h2⟩
    · rintro (h | ⟨h1, h2⟩)
      · subst h; exact Or.inl ⟨Or.inl rfl, fun h => ht h.1⟩
      · exact Or.inr ⟨h1, h2⟩
  · intro q l r
    simp only [complementRaw, List.mem_eraseDups, List.mem_append, List.mem_flatMap,
      List.mem_filterMap, List.mem_map, hCd]
    constructor
    · rintro ((h | ⟨q', hq', a, ha, heq⟩) | ⟨a, ha, heq⟩)
      · exact Or.inl h
      · split at heq
        · rename_i hno
          simp only [Option.some.injEq, Prod.mk.injEq] at heq
          obtain ⟨rfl, rfl, rfl⟩ := heq
          exact Or.inr ⟨a, rfl, ha, rfl, Or.inl ⟨hq', (noSucc_iff hd.2.2 _ _).mp hno⟩⟩
        · cases heq
      · simp only [Prod.mk.injEq] at heq
        obtain ⟨rfl, rfl, rfl⟩ := heq
        exact Or.inr ⟨a, rfl, ha, rfl, Or.inr rfl⟩
    · rintro (h | ⟨a, rfl, ha, rfl, (⟨hq, hno⟩ | rfl)⟩)
      · exact Or.inl (Or.inl h)
      · refine Or.inl (Or.inr ⟨q, hq, a, ha, ?_⟩)
        rw [if_pos ((noSucc_iff hd.2.2 _ _).mpr hno)]
      · exact Or.inr ⟨a, ha, rfl⟩

theorem mem_copyE_delta (A : ENFA σ) (hA : A.WF) (t : σ × Option Nat × σ) :
    t ∈ A.copyE.delta ↔ t ∈ A.delta := by
  obtain ⟨q, l, r⟩ := t
  unfold copyE
  rw [mem_ofParts_delta]
  simp only [List.mem_flatMap, List.mem_append, List.mem_map, mem_succs]
  constructor
  · rintro ⟨q', _, (⟨a, _, r', hr', heq⟩ | ⟨r', hr', heq⟩)⟩
    · cases heq; exact hr'
    · cases heq; exact hr'
  · intro h
    refine ⟨q, hA.delta_src _ h, ?_⟩
    cases l with
    | none => exact Or.inr ⟨r, h, rfl⟩
    | some a => exact Or.inl ⟨a, hA.delta_sym _ h a rfl, r, h, rfl⟩

theorem mem_copyD_delta (A : ENFA σ) (hA : A.WF) (hd : A.Deterministic) (he : A.EpsFree)
    (t : σ × Option Nat × σ) :
    t ∈ A.copyD.delta ↔ t ∈ A.delta := by
  obtain ⟨q, l, r⟩ := t
  unfold copyD
  rw [mem_ofParts_delta]
  simp only [List.mem_flatMap, List.mem_filterMap, Option.map_eq_some_iff]
  constructor
  · rintro ⟨q', _, a, _, r', hr', heq⟩
    cases heq
    exact (mem_succs A _ _ _).mp (List.mem_of_head? hr')
  · intro h
    cases l with
    | none => exact absurd rfl (he _ h)
    | some a =>
      have hm : r ∈ A.succs q (some a) := (mem_succs A _ _ _).mpr h
      cases hsucc : A.succs q (some a) with
      | nil => rw [hsucc] at hm; cases hm
      | cons r' rest =>
        have hr' : (q, some a, r') ∈ A.delta := (mem_succs A _ _ _).mp (by rw [hsucc]; simp)
        have : r' = r := hd.2.1 _ _ _ _ hr' h
        subst this
        exact ⟨q, hA.delta_src _ h, a, hA.delta_sym _ h a rfl, r', by rw [hsucc]; rfl, rfl⟩

theorem mem_copyD_starts (A : ENFA σ) (hd : A.Deterministic) (q : σ) :
    q ∈ A.copyD.starts ↔ q ∈ A.starts := by
  unfold copyD
  rw [mem_ofParts_starts]
  cases hst : A.starts with
  | nil => simp
  | cons s rest =>
    simp only [List.head?_cons, Option.toList_some, List.mem_cons,
      List.not_mem_nil, or_false]
    constructor
    · intro h; exact Or.inl h
    · rintro (h | h)
      · exact h
      · exact hd.1 q (by rw [hst]; exact List.mem_cons_of_mem _ h) s (by rw [hst]; simp)

end ENFA
end Pfl
