/-
Helper lemmas for C13 — exactness of the PDA acceptance oracle (`accEmpty`, `accFinal`).

`PopsL P w q l i q' j` : starting in state `q` at input position `i` with the symbols `l` on top of
the stack, the automaton can reach state `q'` at position `j` with exactly `l` removed.  It mirrors
the saturation rule of the oracle and is shown equivalent to runs of the automaton.
-/
import Pfl.Spec.PDA
import Pfl.Oracle.PdaAcc

namespace Pfl.PDA.Acc
open Pfl Pfl.PDA
variable {σ γ : Type}

/-! ### generic facts on folds of extending functions -/

theorem foldl_extends {α β : Type} (f : List α → β → List α)
    (hf : ∀ S b, ∃ T, f S b = S ++ T) (l : List β) (S : List α) :
    ∃ T, l.foldl f S = S ++ T := by
  induction l generalizing S with
  | nil => exact ⟨[], by simp⟩
  | cons b l ih =>
    obtain ⟨T₁, h₁⟩ := hf S b
    obtain ⟨T₂, h₂⟩ := ih (f S b)
    exact ⟨T₁ ++ T₂, by rw [List.foldl_cons, h₂, h₁, List.append_assoc]⟩

theorem foldl_fix {α β : Type} (f : List α → β → List α)
    (hf : ∀ S b, ∃ T, f S b = S ++ T) (l : List β) (S : List α)
    (h : (l.foldl f S).length = S.length) : ∀ b ∈ l, f S b = S := by
  induction l generalizing S with
  | nil => intro b hb; cases hb
  | cons b l ih =>
    obtain ⟨T₁, h₁⟩ := hf S b
    obtain ⟨T₂, h₂⟩ := foldl_extends f hf l (f S b)
    rw [List.foldl_cons] at h
    have hT : T₁ = [] := by
      apply List.length_eq_zero_iff.mp
      rw [h₂, h₁] at h
      simp only [List.length_append] at h; omega
    have hS : f S b = S := by rw [h₁, hT]; simp
    intro c hc
    rcases List.mem_cons.mp hc with rfl | hc
    · exact hS
    · rw [hS] at h
      exact ih S h c hc

theorem foldl_inv {α β : Type} (Q : α → Prop) (f : α → β → α) (l : List β)
    (hf : ∀ S b, b ∈ l → Q S → Q (f S b)) (S : α) (h : Q S) : Q (l.foldl f S) := by
  induction l generalizing S with
  | nil => exact h
  | cons b l ih =>
    rw [List.foldl_cons]
    exact ih (fun S c hc => hf S c (List.mem_cons_of_mem _ hc)) _ (hf S b (by simp) h)

/-! ### input positions -/

theorem mem_afterRead {w : List String} {a : Option String} {i i' : Nat} :
    i' ∈ afterRead w a i ↔
      (a = none ∧ i' = i) ∨ ∃ c, a = some c ∧ w[i]? = some c ∧ i' = i + 1 := by
  unfold afterRead
  cases a with
  | none => simp
  | some c =>
    by_cases h : w[i]? = some c
    · simp [h]
    · simp only [h, if_false, List.not_mem_nil, false_iff]
      rintro (⟨h1, _⟩ | ⟨c', h1, h2, _⟩)
      · cases h1
      · cases h1; exact h h2

theorem afterRead_le {w : List String} {a : Option String} {i i' : Nat}
    (h : i' ∈ afterRead w a i) (hi : i ≤ w.length) : i' ≤ w.length := by
  rcases mem_afterRead.mp h with ⟨_, rfl⟩ | ⟨c, _, hc, rfl⟩
  · exact hi
  · have := (List.getElem?_eq_some_iff.mp hc).1; omega

/-! ### runs -/

theorem Steps.trans {P : PDA σ γ} {c c' c'' : Config σ γ} (h1 : Steps P c c')
    (h2 : Steps P c' c'') : Steps P c c'' := by
  induction h1 with
  | refl _ => exact h2
  | head hs _ ih => exact .head hs (ih h2)

theorem step_of_afterRead {P : PDA σ γ} {w : List String} {q q1 : σ} {a : Option String} {X : γ}
    {push : List γ} {i i' : Nat} (β : List γ)
    (ht : (q, a, X, q1, push) ∈ P.delta) (hi : i' ∈ afterRead w a i) :
    Step P (q, w.drop i, X :: β) (q1, w.drop i', push ++ β) := by
  rcases mem_afterRead.mp hi with ⟨rfl, rfl⟩ | ⟨c, rfl, hc, rfl⟩
  · exact Step.eps ht
  · obtain ⟨hlt, rfl⟩ := List.getElem?_eq_some_iff.mp hc
    rw [List.drop_eq_getElem_cons hlt]
    exact Step.read ht

theorem step_inv {P : PDA σ γ} {w : List String} {q : σ} {i : Nat} {stack : List γ}
    {c' : Config σ γ} (hi : i ≤ w.length) (h : Step P (q, w.drop i, stack) c') :
    ∃ a X q1 push i' rest, stack = X :: rest ∧ (q, a, X, q1, push) ∈ P.delta ∧
      i' ∈ afterRead w a i ∧ i' ≤ w.length ∧ c' = (q1, w.drop i', push ++ rest) := by
  generalize hc : (q, w.drop i, stack) = c at h
  cases h with
  | @read q0 q' a x push β u ht =>
    simp only [Prod.mk.injEq] at hc
    obtain ⟨rfl, hw, rfl⟩ := hc
    have hlt : i < w.length := by
      rcases Nat.lt_or_ge i w.length with h | h
      · exact h
      · rw [List.drop_eq_nil_of_le h] at hw; cases hw
    rw [List.drop_eq_getElem_cons hlt] at hw
    injection hw with h1 h2
    subst h1 h2
    refine ⟨some _, x, q', push, i + 1, β, rfl, ht, ?_, hlt, rfl⟩
    exact mem_afterRead.mpr (Or.inr ⟨_, rfl, by simp [hlt], rfl⟩)
  | @eps q0 q' x push β u ht =>
    simp only [Prod.mk.injEq] at hc
    obtain ⟨rfl, rfl, rfl⟩ := hc
    exact ⟨none, x, q', push, i, β, rfl, ht, mem_afterRead.mpr (Or.inl ⟨rfl, rfl⟩), hi, rfl⟩

/-! ### the pop relation -/

/-- `PopsL P w q l i q' j`: from `(q, position i)` with `l` on top, reach `(q', position j)` with
exactly `l` removed.  One constructor mirrors one application of the oracle's rule. -/
inductive PopsL (P : PDA σ γ) (w : List String) : σ → List γ → Nat → σ → Nat → Prop
  | nil (q : σ) (i : Nat) : PopsL P w q [] i q i
  | cons {q : σ} {a : Option String} {X : γ} {q1 : σ} {push : List γ} {i i' : Nat} {q2 : σ}
      {j : Nat} {rest : List γ} {q3 : σ} {k : Nat} :
      (q, a, X, q1, push) ∈ P.delta → i ≤ w.length → i' ∈ afterRead w a i →
      PopsL P w q1 push i' q2 j → PopsL P w q2 rest j q3 k → PopsL P w q (X :: rest) i q3 k

theorem popsL_nil_inv {P : PDA σ γ} {w : List String} {q q' : σ} {i j : Nat}
    (h : PopsL P w q [] i q' j) : q' = q ∧ j = i := by
  cases h; exact ⟨rfl, rfl⟩

theorem popsL_cons_inv {P : PDA σ γ} {w : List String} {q q3 : σ} {X : γ} {rest : List γ}
    {i k : Nat} (h : PopsL P w q (X :: rest) i q3 k) :
    ∃ a q1 push i' q2 j, (q, a, X, q1, push) ∈ P.delta ∧ i ≤ w.length ∧ i' ∈ afterRead w a i ∧
      PopsL P w q1 push i' q2 j ∧ PopsL P w q2 rest j q3 k := by
  cases h with
  | cons ht hi hi' h1 h2 => exact ⟨_, _, _, _, _, _, ht, hi, hi', h1, h2⟩

theorem popsL_single_cons {P : PDA σ γ} {w : List String} {q q2 q3 : σ} {X : γ} {rest : List γ}
    {i j k : Nat} (h1 : PopsL P w q [X] i q2 j) (h2 : PopsL P w q2 rest j q3 k) :
    PopsL P w q (X :: rest) i q3 k := by
  obtain ⟨a, q1, push, i', q2', j', ht, hi, hi', h3, h4⟩ := popsL_cons_inv h1
  obtain ⟨rfl, rfl⟩ := popsL_nil_inv h4
  exact .cons ht hi hi' h3 h2

theorem popsL_cons_split {P : PDA σ γ} {w : List String} {q q3 : σ} {X : γ} {rest : List γ}
    {i k : Nat} (h : PopsL P w q (X :: rest) i q3 k) :
    ∃ q2 j, PopsL P w q [X] i q2 j ∧ PopsL P w q2 rest j q3 k := by
  obtain ⟨a, q1, push, i', q2, j, ht, hi, hi', h1, h2⟩ := popsL_cons_inv h
  exact ⟨q2, j, .cons ht hi hi' h1 (.nil _ _), h2⟩

theorem popsL_append {P : PDA σ γ} {w : List String} {l1 l2 : List γ} {q q2 q3 : σ}
    {i j k : Nat} (h1 : PopsL P w q l1 i q2 j) (h2 : PopsL P w q2 l2 j q3 k) :
    PopsL P w q (l1 ++ l2) i q3 k := by
  induction l1 generalizing q i with
  | nil => obtain ⟨rfl, rfl⟩ := popsL_nil_inv h1; exact h2
  | cons X l1 ih =>
    obtain ⟨q', j', h3, h4⟩ := popsL_cons_split h1
    exact popsL_single_cons h3 (ih h4)

theorem popsL_append_inv {P : PDA σ γ} {w : List String} {l1 l2 : List γ} {q q3 : σ}
    {i k : Nat} (h : PopsL P w q (l1 ++ l2) i q3 k) :
    ∃ q2 j, PopsL P w q l1 i q2 j ∧ PopsL P w q2 l2 j q3 k := by
  induction l1 generalizing q i with
  | nil => exact ⟨q, i, .nil _ _, h⟩
  | cons X l1 ih =>
    obtain ⟨q', j', h3, h4⟩ := popsL_cons_split (rest := l1 ++ l2) h
    obtain ⟨q2, j, h5, h6⟩ := ih h4
    exact ⟨q2, j, popsL_single_cons h3 h5, h6⟩

/-- soundness of `PopsL` w.r.t. runs -/
theorem popsL_steps {P : PDA σ γ} {w : List String} {q q' : σ} {l : List γ} {i j : Nat}
    (h : PopsL P w q l i q' j) :
    ∀ β, Steps P (q, w.drop i, l ++ β) (q', w.drop j, β) := by
  induction h with
  | nil q i => intro β; exact .refl _
  | @cons q a X q1 push i i' q2 j rest q3 k ht _ hi' _ _ ih1 ih2 =>
    intro β
    refine .head (step_of_afterRead (rest ++ β) ht hi') ?_
    exact Steps.trans (by simpa using ih1 (rest ++ β)) (ih2 β)

/-- completeness of `PopsL` w.r.t. runs that empty the stack and the input -/
theorem popsL_of_steps {P : PDA σ γ} {w : List String} {c c' : Config σ γ}
    (h : Steps P c c') : ∀ (q : σ) (i : Nat) (stack : List γ) (q' : σ), i ≤ w.length →
      c = (q, w.drop i, stack) → c' = (q', [], []) → PopsL P w q stack i q' w.length := by
  induction h with
  | refl c =>
    intro q i stack q' hi h1 h2
    subst h1
    simp only [Prod.mk.injEq] at h2
    obtain ⟨rfl, hd, rfl⟩ := h2
    have : i = w.length := by
      have := List.drop_eq_nil_iff.mp hd; omega
    subst this
    exact .nil _ _
  | head hs _ ih =>
    intro q i stack q' hi h1 h2
    subst h1
    obtain ⟨a, X, q1, push, i', rest, rfl, ht, hi', hle, rfl⟩ := step_inv hi hs
    obtain ⟨q2, j, h3, h4⟩ := popsL_append_inv (ih q1 i' _ q' hle rfl h2)
    exact .cons ht hi hi' h3 h4

/-! ### reaching a final state -/

/-- `FinFrom P w q X i`: from `(q, position i)` with `X` on top a final state is reachable with
the input consumed (at least one move is made).  Mirrors the rule of `finStep`. -/
inductive FinFrom (P : PDA σ γ) (w : List String) : σ → γ → Nat → Prop
  | fin {q : σ} {a : Option String} {X : γ} {q1 : σ} {push : List γ} {i i' : Nat}
      {pre post : List γ} {q' : σ} {j : Nat} :
      (q, a, X, q1, push) ∈ P.delta → i ≤ w.length → i' ∈ afterRead w a i →
      push = pre ++ post → PopsL P w q1 pre i' q' j → q' ∈ P.finals → j = w.length →
      FinFrom P w q X i
  | more {q : σ} {a : Option String} {X : γ} {q1 : σ} {push : List γ} {i i' : Nat}
      {pre : List γ} {x : γ} {post : List γ} {q' : σ} {j : Nat} :
      (q, a, X, q1, push) ∈ P.delta → i ≤ w.length → i' ∈ afterRead w a i →
      push = pre ++ x :: post → PopsL P w q1 pre i' q' j → FinFrom P w q' x j →
      FinFrom P w q X i

/-- pop a prefix of `l`, then be final at the end of the input or continue with `FinFrom` -/
def FinChain (P : PDA σ γ) (w : List String) (q : σ) (l : List γ) (i : Nat) : Prop :=
  ∃ pre post q' j, l = pre ++ post ∧ PopsL P w q pre i q' j ∧
    ((q' ∈ P.finals ∧ j = w.length) ∨ ∃ x post', post = x :: post' ∧ FinFrom P w q' x j)

theorem finFrom_of_chain {P : PDA σ γ} {w : List String} {q q1 : σ} {a : Option String} {X : γ}
    {push : List γ} {i i' : Nat} (ht : (q, a, X, q1, push) ∈ P.delta) (hi : i ≤ w.length)
    (hi' : i' ∈ afterRead w a i) (h : FinChain P w q1 push i') : FinFrom P w q X i := by
  obtain ⟨pre, post, q', j, hl, hp, ⟨hf, hj⟩ | ⟨x, post', rfl, hx⟩⟩ := h
  · exact .fin ht hi hi' hl hp hf hj
  · exact .more ht hi hi' hl hp hx

theorem finChain_append {P : PDA σ γ} {w : List String} {l1 l2 : List γ} {q : σ} {i : Nat}
    (h : FinChain P w q (l1 ++ l2) i) :
    FinChain P w q l1 i ∨ ∃ q' j, PopsL P w q l1 i q' j ∧ FinChain P w q' l2 j := by
  obtain ⟨pre, post, q', j, hl, hp, hfin⟩ := h
  rcases List.append_eq_append_iff.mp hl with ⟨a', rfl, rfl⟩ | ⟨c', rfl, rfl⟩
  · -- pre = l1 ++ a', l2 = a' ++ post
    obtain ⟨q2, k, h1, h2⟩ := popsL_append_inv hp
    exact Or.inr ⟨q2, k, h1, a', post, q', j, rfl, h2, hfin⟩
  · -- l1 = pre ++ c', post = c' ++ l2
    rcases hfin with hf | ⟨x, post', hpost, hx⟩
    · exact Or.inl ⟨pre, c', q', j, rfl, hp, Or.inl hf⟩
    · cases c' with
      | nil =>
        simp only [List.nil_append] at hpost
        subst hpost
        refine Or.inr ⟨q', j, by simpa using hp, [], _, q', j, rfl, .nil _ _, Or.inr ⟨x, post', rfl, hx⟩⟩
      | cons y c'' =>
        simp only [List.cons_append, List.cons.injEq] at hpost
        obtain ⟨rfl, _⟩ := hpost
        exact Or.inl ⟨pre, y :: c'', q', j, rfl, hp, Or.inr ⟨y, c'', rfl, hx⟩⟩

/-- completeness of `FinChain` w.r.t. accepting runs -/
theorem finChain_of_steps {P : PDA σ γ} {w : List String} {c c' : Config σ γ}
    (h : Steps P c c') : ∀ (q : σ) (i : Nat) (stack : List γ) (f : σ) (β : List γ),
      i ≤ w.length → c = (q, w.drop i, stack) → c' = (f, [], β) → f ∈ P.finals →
      FinChain P w q stack i := by
  induction h with
  | refl c =>
    intro q i stack f β hi h1 h2 hf
    subst h1
    simp only [Prod.mk.injEq] at h2
    obtain ⟨rfl, hd, rfl⟩ := h2
    have : i = w.length := by
      have := List.drop_eq_nil_iff.mp hd; omega
    exact ⟨[], stack, q, i, rfl, .nil _ _, Or.inl ⟨hf, this⟩⟩
  | head hs _ ih =>
    intro q i stack f β hi h1 h2 hf
    subst h1
    obtain ⟨a, X, q1, push, i', rest, rfl, ht, hi', hle, rfl⟩ := step_inv hi hs
    rcases finChain_append (ih q1 i' _ f β hle rfl h2 hf) with h3 | ⟨q2, j, h3, h4⟩
    · exact ⟨[], X :: rest, q, i, rfl, .nil _ _,
        Or.inr ⟨X, rest, rfl, finFrom_of_chain ht hi hi' h3⟩⟩
    · obtain ⟨pre, post, q', k, rfl, hp, hfin⟩ := h4
      exact ⟨X :: pre, post, q', k, rfl, .cons ht hi hi' h3 hp, hfin⟩

/-- soundness of `FinFrom` w.r.t. runs -/
theorem finFrom_steps {P : PDA σ γ} {w : List String} {q : σ} {X : γ} {i : Nat}
    (h : FinFrom P w q X i) :
    ∀ β, ∃ f ∈ P.finals, ∃ β', Steps P (q, w.drop i, X :: β) (f, [], β') := by
  induction h with
  | @fin q a X q1 push i i' pre post q' j ht _ hi' hpush hp hf hj =>
    intro β
    subst hpush hj
    refine ⟨q', hf, post ++ β, .head (step_of_afterRead β ht hi') ?_⟩
    simpa using popsL_steps hp (post ++ β)
  | @more q a X q1 push i i' pre x post q' j ht _ hi' hpush hp _ ih =>
    intro β
    subst hpush
    obtain ⟨f, hf, β', hrun⟩ := ih (post ++ β)
    refine ⟨f, hf, β', .head (step_of_afterRead β ht hi') ?_⟩
    exact Steps.trans (by simpa using popsL_steps hp (x :: post ++ β)) (by simpa using hrun)

theorem finChain_steps {P : PDA σ γ} {w : List String} {q : σ} {l : List γ} {i : Nat}
    (h : FinChain P w q l i) :
    ∀ β, ∃ f ∈ P.finals, ∃ β', Steps P (q, w.drop i, l ++ β) (f, [], β') := by
  intro β
  obtain ⟨pre, post, q', j, rfl, hp, ⟨hf, rfl⟩ | ⟨x, post', rfl, hx⟩⟩ := h
  · exact ⟨q', hf, post ++ β, by simpa using popsL_steps hp (post ++ β)⟩
  · obtain ⟨f, hf, β', hrun⟩ := finFrom_steps hx (post' ++ β)
    exact ⟨f, hf, β', Steps.trans (by simpa using popsL_steps hp (x :: post' ++ β))
      (by simpa using hrun)⟩

/-! ### the pop oracle -/

section oracle
variable [DecidableEq σ] [DecidableEq γ]

theorem mem_popChain_cons {R : List (Pop σ γ)} {x : γ} {rest : List γ} {q : σ} {i : Nat}
    {p : σ × Nat} :
    p ∈ popChain R (x :: rest) q i ↔ ∃ q2 k, (q, x, i, q2, k) ∈ R ∧ p ∈ popChain R rest q2 k := by
  simp only [popChain, List.mem_flatMap, List.mem_filterMap]
  constructor
  · rintro ⟨qi, ⟨⟨q0, x0, i0, q2, k⟩, hr, hc⟩, hp⟩
    split at hc
    · rename_i h
      obtain ⟨h1, h2, h3⟩ := h
      simp only at h1 h2 h3
      subst h1 h2 h3
      cases hc
      exact ⟨q2, k, hr, hp⟩
    · cases hc
  · rintro ⟨q2, k, hr, hp⟩
    exact ⟨(q2, k), ⟨_, hr, by simp⟩, hp⟩

def addPop (q : σ) (X : γ) (i : Nat) (R : List (Pop σ γ)) (qj : σ × Nat) : List (Pop σ γ) :=
  if (q, X, i, qj.1, qj.2) ∈ R then R else R ++ [(q, X, i, qj.1, qj.2)]

def popIn (t : σ × Option String × γ × σ × List γ) (i : Nat) (R : List (Pop σ γ)) (i' : Nat) :
    List (Pop σ γ) :=
  (popChain R t.2.2.2.2 t.2.2.2.1 i').foldl (addPop t.1 t.2.2.1 i) R

def popInner (w : List String) (t : σ × Option String × γ × σ × List γ) (R : List (Pop σ γ))
    (i : Nat) : List (Pop σ γ) :=
  (afterRead w t.2.1 i).foldl (popIn t i) R

def popMid (w : List String) (R : List (Pop σ γ)) (t : σ × Option String × γ × σ × List γ) :
    List (Pop σ γ) :=
  (List.range (w.length + 1)).foldl (popInner w t) R

theorem popStep_eq (P : PDA σ γ) (w : List String) (R : List (Pop σ γ)) :
    popStep P w R = P.delta.foldl (popMid w) R := rfl

theorem addPop_extends (q : σ) (X : γ) (i : Nat) (R : List (Pop σ γ)) (qj : σ × Nat) :
    ∃ T, addPop q X i R qj = R ++ T := by
  unfold addPop
  split
  · exact ⟨[], by simp⟩
  · exact ⟨_, rfl⟩

theorem addPop_fix {q : σ} {X : γ} {i : Nat} {R : List (Pop σ γ)} {qj : σ × Nat}
    (h : addPop q X i R qj = R) : (q, X, i, qj.1, qj.2) ∈ R := by
  unfold addPop at h
  split at h
  · assumption
  · have := congrArg List.length h
    simp at this

theorem popIn_extends (t : σ × Option String × γ × σ × List γ) (i : Nat) (R : List (Pop σ γ))
    (i' : Nat) : ∃ T, popIn t i R i' = R ++ T :=
  foldl_extends _ (addPop_extends t.1 t.2.2.1 i) _ R

theorem popInner_extends (w : List String) (t : σ × Option String × γ × σ × List γ)
    (R : List (Pop σ γ)) (i : Nat) : ∃ T, popInner w t R i = R ++ T :=
  foldl_extends _ (popIn_extends t i) _ R

theorem popMid_extends (w : List String) (R : List (Pop σ γ))
    (t : σ × Option String × γ × σ × List γ) : ∃ T, popMid w R t = R ++ T :=
  foldl_extends _ (popInner_extends w t) _ R

/-- `R` is closed under the saturation rule -/
def PClosed (P : PDA σ γ) (w : List String) (R : List (Pop σ γ)) : Prop :=
  ∀ t ∈ P.delta, ∀ i ≤ w.length, ∀ i' ∈ afterRead w t.2.1 i,
    ∀ qj ∈ popChain R t.2.2.2.2 t.2.2.2.1 i', (t.1, t.2.2.1, i, qj.1, qj.2) ∈ R

theorem pclosed_of_fix (P : PDA σ γ) (w : List String) (R : List (Pop σ γ))
    (h : (popStep P w R).length = R.length) : PClosed P w R := by
  intro t ht i hi i' hi' qj hqj
  have h1 : popMid w R t = R := foldl_fix _ (popMid_extends w) _ R h t ht
  have h2 : popInner w t R i = R :=
    foldl_fix _ (popInner_extends w t) _ R
      (by rw [show List.foldl (popInner w t) R _ = popMid w R t from rfl, h1]) i
      (List.mem_range.mpr (by omega))
  have h3 : popIn t i R i' = R :=
    foldl_fix _ (popIn_extends t i) _ R
      (by rw [show List.foldl (popIn t i) R _ = popInner w t R i from rfl, h2]) i' hi'
  have h4 : addPop t.1 t.2.2.1 i R qj = R :=
    foldl_fix _ (addPop_extends t.1 t.2.2.1 i) _ R
      (by rw [show List.foldl (addPop t.1 t.2.2.1 i) R _ = popIn t i R i' from rfl, h3]) qj hqj
  exact addPop_fix h4

/-- every fact of `R` is true -/
def PSound (P : PDA σ γ) (w : List String) (R : List (Pop σ γ)) : Prop :=
  ∀ r ∈ R, PopsL P w r.1 [r.2.1] r.2.2.1 r.2.2.2.1 r.2.2.2.2

theorem popChain_sound {P : PDA σ γ} {w : List String} {R : List (Pop σ γ)}
    (hR : PSound P w R) (l : List γ) (q : σ) (i : Nat) (p : σ × Nat)
    (hp : p ∈ popChain R l q i) : PopsL P w q l i p.1 p.2 := by
  induction l generalizing q i with
  | nil =>
    simp only [popChain, List.mem_singleton] at hp
    subst hp
    exact .nil _ _
  | cons x rest ih =>
    obtain ⟨q2, k, hr, hp⟩ := mem_popChain_cons.mp hp
    exact popsL_single_cons (hR _ hr) (ih q2 k hp)

theorem addPop_sound {P : PDA σ γ} {w : List String} {q : σ} {X : γ} {i : Nat}
    {R : List (Pop σ γ)} {qj : σ × Nat} (hR : PSound P w R)
    (hg : PopsL P w q [X] i qj.1 qj.2) : PSound P w (addPop q X i R qj) := by
  unfold addPop
  split
  · exact hR
  · intro r hr
    rcases List.mem_append.mp hr with hr | hr
    · exact hR r hr
    · simp only [List.mem_singleton] at hr
      subst hr; exact hg

theorem popIn_sound {P : PDA σ γ} {w : List String} {t : σ × Option String × γ × σ × List γ}
    (ht : t ∈ P.delta) {i i' : Nat} (hi : i ≤ w.length) (hi' : i' ∈ afterRead w t.2.1 i)
    {R : List (Pop σ γ)} (hR : PSound P w R) : PSound P w (popIn t i R i') := by
  have hall : ∀ qj ∈ popChain R t.2.2.2.2 t.2.2.2.1 i', PopsL P w t.1 [t.2.2.1] i qj.1 qj.2 := by
    intro qj hqj
    exact .cons (a := t.2.1) (q1 := t.2.2.2.1) (push := t.2.2.2.2) ht hi hi'
      (popChain_sound hR _ _ _ _ hqj) (.nil _ _)
  unfold popIn
  exact foldl_inv (PSound P w) _ _ (fun R' qj hqj hR' => addPop_sound hR' (hall qj hqj)) R hR

theorem popStep_sound {P : PDA σ γ} {w : List String} {R : List (Pop σ γ)}
    (hR : PSound P w R) : PSound P w (popStep P w R) := by
  rw [popStep_eq]
  refine foldl_inv (PSound P w) _ _ (fun R1 t ht hR1 => ?_) R hR
  unfold popMid
  refine foldl_inv (PSound P w) _ _ (fun R2 i hi hR2 => ?_) R1 hR1
  unfold popInner
  refine foldl_inv (PSound P w) _ _ (fun R3 i' hi' hR3 => ?_) R2 hR2
  exact popIn_sound ht (by have := List.mem_range.mp hi; omega) hi' hR3

theorem popSaturate_spec {P : PDA σ γ} {w : List String} (fuel : Nat) (R R' : List (Pop σ γ))
    (hR : PSound P w R) (h : popSaturate P w fuel R = some R') :
    PSound P w R' ∧ PClosed P w R' := by
  induction fuel generalizing R with
  | zero => simp [popSaturate] at h
  | succ fuel ih =>
    simp only [popSaturate] at h
    split at h
    · rename_i hl
      rw [← Option.some.inj h]
      exact ⟨hR, pclosed_of_fix P w R hl⟩
    · exact ih _ (popStep_sound hR) h

theorem popChain_complete {P : PDA σ γ} {w : List String} {R : List (Pop σ γ)}
    (hC : PClosed P w R) {q q' : σ} {l : List γ} {i j : Nat} (h : PopsL P w q l i q' j) :
    (q', j) ∈ popChain R l q i := by
  induction h with
  | nil q i => simp [popChain]
  | @cons q a X q1 push i i' q2 j rest q3 k ht hi hi' _ _ ih1 ih2 =>
    exact mem_popChain_cons.mpr ⟨q2, j, hC _ ht i hi i' hi' _ ih1, ih2⟩

/-- the result of the saturation is exactly the pop relation -/
theorem mem_popChain_iff {P : PDA σ γ} {w : List String} {R : List (Pop σ γ)}
    (hS : PSound P w R) (hC : PClosed P w R) (l : List γ) (q : σ) (i : Nat) (p : σ × Nat) :
    p ∈ popChain R l q i ↔ PopsL P w q l i p.1 p.2 :=
  ⟨popChain_sound hS l q i p, fun h => popChain_complete hC h⟩

theorem mem_sat_iff {P : PDA σ γ} {w : List String} {R : List (Pop σ γ)}
    (hS : PSound P w R) (hC : PClosed P w R) (q : σ) (X : γ) (i : Nat) (q' : σ) (j : Nat) :
    (q, X, i, q', j) ∈ R ↔ PopsL P w q [X] i q' j := by
  constructor
  · intro h; exact hS _ h
  · intro h
    obtain ⟨q2, k, hr, hp⟩ := mem_popChain_cons.mp (popChain_complete hC h)
    simp only [popChain, List.mem_singleton, Prod.mk.injEq] at hp
    obtain ⟨rfl, rfl⟩ := hp
    exact hr

omit [DecidableEq σ] [DecidableEq γ] in
theorem psound_nil (P : PDA σ γ) (w : List String) : PSound P w [] := by
  intro r hr; cases hr

/-! ### the final-state oracle -/

def finHit (P : PDA σ γ) (w : List String) (R : List (Pop σ γ)) (F : List (PDA.Fin σ γ))
    (t : σ × Option String × γ × σ × List γ) (i' : Nat) : Bool :=
  let push := t.2.2.2.2
  let hit : Bool :=
    (t.2.2.2.1 ∈ P.finals ∧ i' = w.length) ||
    (List.range push.length).any fun m =>
      (popChain R (push.take m) t.2.2.2.1 i').any fun qj =>
        match push[m]? with
        | some x => (qj.1, x, qj.2) ∈ F || (qj.1 ∈ P.finals ∧ qj.2 = w.length)
        | none => false
  hit || (popChain R push t.2.2.2.1 i').any fun qj => qj.1 ∈ P.finals ∧ qj.2 = w.length

def finAdd (P : PDA σ γ) (w : List String) (R : List (Pop σ γ))
    (t : σ × Option String × γ × σ × List γ) (i : Nat) (F : List (PDA.Fin σ γ)) (i' : Nat) :
    List (PDA.Fin σ γ) :=
  if finHit P w R F t i' ∧ (t.1, t.2.2.1, i) ∉ F then F ++ [(t.1, t.2.2.1, i)] else F

def finInner (P : PDA σ γ) (w : List String) (R : List (Pop σ γ))
    (t : σ × Option String × γ × σ × List γ) (F : List (PDA.Fin σ γ)) (i : Nat) :
    List (PDA.Fin σ γ) :=
  (afterRead w t.2.1 i).foldl (finAdd P w R t i) F

def finMid (P : PDA σ γ) (w : List String) (R : List (Pop σ γ)) (F : List (PDA.Fin σ γ))
    (t : σ × Option String × γ × σ × List γ) : List (PDA.Fin σ γ) :=
  (List.range (w.length + 1)).foldl (finInner P w R t) F

theorem finStep_eq (P : PDA σ γ) (w : List String) (R : List (Pop σ γ))
    (F : List (PDA.Fin σ γ)) : finStep P w R F = P.delta.foldl (finMid P w R) F := rfl

theorem finAdd_extends (P : PDA σ γ) (w : List String) (R : List (Pop σ γ))
    (t : σ × Option String × γ × σ × List γ) (i : Nat) (F : List (PDA.Fin σ γ)) (i' : Nat) :
    ∃ T, finAdd P w R t i F i' = F ++ T := by
  unfold finAdd
  split
  · exact ⟨_, rfl⟩
  · exact ⟨[], by simp⟩

theorem finAdd_fix {P : PDA σ γ} {w : List String} {R : List (Pop σ γ)}
    {t : σ × Option String × γ × σ × List γ} {i : Nat} {F : List (PDA.Fin σ γ)} {i' : Nat}
    (h : finAdd P w R t i F i' = F) (hh : finHit P w R F t i' = true) :
    (t.1, t.2.2.1, i) ∈ F := by
  unfold finAdd at h
  split at h
  · have := congrArg List.length h
    simp at this
  · rename_i hn
    by_cases hm : (t.1, t.2.2.1, i) ∈ F
    · exact hm
    · exact (hn ⟨hh, hm⟩).elim

theorem finInner_extends (P : PDA σ γ) (w : List String) (R : List (Pop σ γ))
    (t : σ × Option String × γ × σ × List γ) (F : List (PDA.Fin σ γ)) (i : Nat) :
    ∃ T, finInner P w R t F i = F ++ T :=
  foldl_extends _ (finAdd_extends P w R t i) _ F

theorem finMid_extends (P : PDA σ γ) (w : List String) (R : List (Pop σ γ))
    (F : List (PDA.Fin σ γ)) (t : σ × Option String × γ × σ × List γ) :
    ∃ T, finMid P w R F t = F ++ T :=
  foldl_extends _ (finInner_extends P w R t) _ F

/-- `F` is closed under the rule of `finStep` -/
def FClosed (P : PDA σ γ) (w : List String) (R : List (Pop σ γ)) (F : List (PDA.Fin σ γ)) : Prop :=
  ∀ t ∈ P.delta, ∀ i ≤ w.length, ∀ i' ∈ afterRead w t.2.1 i,
    finHit P w R F t i' = true → (t.1, t.2.2.1, i) ∈ F

theorem fclosed_of_fix (P : PDA σ γ) (w : List String) (R : List (Pop σ γ))
    (F : List (PDA.Fin σ γ)) (h : (finStep P w R F).length = F.length) : FClosed P w R F := by
  intro t ht i hi i' hi' hh
  have h1 : finMid P w R F t = F := foldl_fix _ (finMid_extends P w R) _ F h t ht
  have h2 : finInner P w R t F i = F :=
    foldl_fix _ (finInner_extends P w R t) _ F
      (by rw [show List.foldl (finInner P w R t) F _ = finMid P w R F t from rfl, h1]) i
      (List.mem_range.mpr (by omega))
  have h3 : finAdd P w R t i F i' = F :=
    foldl_fix _ (finAdd_extends P w R t i) _ F
      (by rw [show List.foldl (finAdd P w R t i) F _ = finInner P w R t F i from rfl, h2]) i' hi'
  exact finAdd_fix h3 hh

/-- every fact of `F` is true -/
def FSound (P : PDA σ γ) (w : List String) (F : List (PDA.Fin σ γ)) : Prop :=
  ∀ f ∈ F, FinFrom P w f.1 f.2.1 f.2.2

theorem finHit_sound {P : PDA σ γ} {w : List String} {R : List (Pop σ γ)}
    {F : List (PDA.Fin σ γ)} {t : σ × Option String × γ × σ × List γ} {i' : Nat}
    (hR : ∀ l q i p, p ∈ popChain R l q i → PopsL P w q l i p.1 p.2) (hF : FSound P w F)
    (h : finHit P w R F t i' = true) : FinChain P w t.2.2.2.1 t.2.2.2.2 i' := by
  unfold finHit at h
  simp only [Bool.or_eq_true, List.any_eq_true, decide_eq_true_eq, List.mem_range] at h
  rcases h with (⟨hf, hi⟩ | ⟨m, hm, p, hp, hmatch⟩) | ⟨p, hp, hf, hj⟩
  · exact ⟨[], _, _, _, rfl, .nil _ _, Or.inl ⟨hf, hi⟩⟩
  · split at hmatch
    · rename_i x hx
      obtain ⟨hlt, hx'⟩ := List.getElem?_eq_some_iff.mp hx
      have hsplit : t.2.2.2.2 = t.2.2.2.2.take m ++ x :: t.2.2.2.2.drop (m + 1) := by
        rw [← hx', ← List.drop_eq_getElem_cons hlt, List.take_append_drop]
      simp only [Bool.or_eq_true, decide_eq_true_eq] at hmatch
      rcases hmatch with hm' | hm'
      · exact ⟨_, _, p.1, p.2, hsplit, hR _ _ _ _ hp, Or.inr ⟨x, _, rfl, hF _ hm'⟩⟩
      · exact ⟨_, _, p.1, p.2, hsplit, hR _ _ _ _ hp, Or.inl hm'⟩
    · cases hmatch
  · exact ⟨t.2.2.2.2, [], p.1, p.2, by simp, hR _ _ _ _ hp, Or.inl ⟨hf, hj⟩⟩

theorem finHit_of_fin {P : PDA σ γ} {w : List String} {R : List (Pop σ γ)}
    {F : List (PDA.Fin σ γ)} {t : σ × Option String × γ × σ × List γ} {i' : Nat}
    (hR : ∀ l q i q' j, PopsL P w q l i q' j → (q', j) ∈ popChain R l q i)
    {pre post : List γ} {q' : σ} {j : Nat} (hpush : t.2.2.2.2 = pre ++ post)
    (hp : PopsL P w t.2.2.2.1 pre i' q' j) (hf : q' ∈ P.finals) (hj : j = w.length) :
    finHit P w R F t i' = true := by
  unfold finHit
  simp only [Bool.or_eq_true, List.any_eq_true, decide_eq_true_eq, List.mem_range]
  cases post with
  | nil =>
    refine Or.inr ⟨(q', j), ?_, hf, hj⟩
    rw [hpush, List.append_nil]
    exact hR _ _ _ _ _ hp
  | cons x post' =>
    refine Or.inl (Or.inr ⟨pre.length, by simp [hpush], (q', j), ?_, ?_⟩)
    · rw [hpush, List.take_left']
      · exact hR _ _ _ _ _ hp
      · rfl
    · have : t.2.2.2.2[pre.length]? = some x := by simp [hpush]
      rw [this]
      simp [hf, hj]

theorem finHit_of_more {P : PDA σ γ} {w : List String} {R : List (Pop σ γ)}
    {F : List (PDA.Fin σ γ)} {t : σ × Option String × γ × σ × List γ} {i' : Nat}
    (hR : ∀ l q i q' j, PopsL P w q l i q' j → (q', j) ∈ popChain R l q i)
    {pre : List γ} {x : γ} {post : List γ} {q' : σ} {j : Nat}
    (hpush : t.2.2.2.2 = pre ++ x :: post)
    (hp : PopsL P w t.2.2.2.1 pre i' q' j) (hx : (q', x, j) ∈ F) :
    finHit P w R F t i' = true := by
  unfold finHit
  simp only [Bool.or_eq_true, List.any_eq_true, decide_eq_true_eq, List.mem_range]
  refine Or.inl (Or.inr ⟨pre.length, by simp [hpush], (q', j), ?_, ?_⟩)
  · rw [hpush, List.take_left']
    · exact hR _ _ _ _ _ hp
    · rfl
  · have : t.2.2.2.2[pre.length]? = some x := by simp [hpush]
    rw [this]
    simp [hx]

theorem finAdd_sound {P : PDA σ γ} {w : List String} {R : List (Pop σ γ)}
    (hR : ∀ l q i p, p ∈ popChain R l q i → PopsL P w q l i p.1 p.2)
    {t : σ × Option String × γ × σ × List γ} (ht : t ∈ P.delta) {i i' : Nat}
    (hi : i ≤ w.length) (hi' : i' ∈ afterRead w t.2.1 i) {F : List (PDA.Fin σ γ)}
    (hF : FSound P w F) : FSound P w (finAdd P w R t i F i') := by
  unfold finAdd
  split
  · rename_i hc
    intro f hf
    rcases List.mem_append.mp hf with hf | hf
    · exact hF f hf
    · simp only [List.mem_singleton] at hf
      subst hf
      exact finFrom_of_chain (a := t.2.1) (q1 := t.2.2.2.1) (push := t.2.2.2.2) ht hi hi'
        (finHit_sound hR hF hc.1)
  · exact hF

theorem finStep_sound {P : PDA σ γ} {w : List String} {R : List (Pop σ γ)}
    (hR : ∀ l q i p, p ∈ popChain R l q i → PopsL P w q l i p.1 p.2)
    {F : List (PDA.Fin σ γ)} (hF : FSound P w F) : FSound P w (finStep P w R F) := by
  rw [finStep_eq]
  refine foldl_inv (FSound P w) _ _ (fun F1 t ht hF1 => ?_) F hF
  unfold finMid
  refine foldl_inv (FSound P w) _ _ (fun F2 i hi hF2 => ?_) F1 hF1
  unfold finInner
  refine foldl_inv (FSound P w) _ _ (fun F3 i' hi' hF3 => ?_) F2 hF2
  exact finAdd_sound hR ht (by have := List.mem_range.mp hi; omega) hi' hF3

theorem finSaturate_spec {P : PDA σ γ} {w : List String} {R : List (Pop σ γ)}
    (hR : ∀ l q i p, p ∈ popChain R l q i → PopsL P w q l i p.1 p.2)
    (fuel : Nat) (F F' : List (PDA.Fin σ γ)) (hF : FSound P w F)
    (h : finSaturate P w R fuel F = some F') : FSound P w F' ∧ FClosed P w R F' := by
  induction fuel generalizing F with
  | zero => simp [finSaturate] at h
  | succ fuel ih =>
    simp only [finSaturate] at h
    split at h
    · rename_i hl
      rw [← Option.some.inj h]
      exact ⟨hF, fclosed_of_fix P w R F hl⟩
    · exact ih _ (finStep_sound hR hF) h

theorem finFrom_complete {P : PDA σ γ} {w : List String} {R : List (Pop σ γ)}
    {F : List (PDA.Fin σ γ)}
    (hR : ∀ l q i q' j, PopsL P w q l i q' j → (q', j) ∈ popChain R l q i)
    (hC : FClosed P w R F) {q : σ} {X : γ} {i : Nat} (h : FinFrom P w q X i) :
    (q, X, i) ∈ F := by
  induction h with
  | @fin q a X q1 push i i' pre post q' j ht hi hi' hpush hp hf hj =>
    exact hC _ ht i hi i' hi' (finHit_of_fin hR hpush hp hf hj)
  | @more q a X q1 push i i' pre x post q' j ht hi hi' hpush hp _ ih =>
    exact hC _ ht i hi i' hi' (finHit_of_more hR hpush hp ih)

omit [DecidableEq σ] [DecidableEq γ] in
theorem fsound_nil (P : PDA σ γ) (w : List String) : FSound P w [] := by
  intro r hr; cases hr

end oracle

end Pfl.PDA.Acc
