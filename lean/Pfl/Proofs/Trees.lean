/-
Helper lemmas for C15 (parse trees, derivation listings).
-/
import Pfl.Oracle.Trees
import Pfl.Proofs.CFGBase
namespace Pfl
namespace CFG
namespace Trees

/-! ### well-formed trees and `Gen` -/

mutual
theorem wfT_gen (G : CFG) : ∀ t : PTree, G.wellFormedT t = true → G.Gen t.sym (yieldT t)
  | .node (.ter a) [], _ => by
    simp only [PTree.sym, yieldT]; exact Gen.ter a
  | .node (.ter a) (_ :: _), h => by
    simp [wellFormedT] at h
  | .node (.var v) sons, h => by
    simp only [wellFormedT, Bool.and_eq_true, decide_eq_true_eq] at h
    simp only [PTree.sym, yieldT]
    exact Gen.var h.1 (wfL_gen G sons h.2)
theorem wfL_gen (G : CFG) : ∀ ts : List PTree, G.wellFormedL ts = true →
    G.GenList (ts.map PTree.sym) (yieldL ts)
  | [], _ => by simp only [List.map_nil, yieldL]; exact GenList.nil
  | t :: ts, h => by
    simp only [wellFormedL, Bool.and_eq_true] at h
    simp only [List.map_cons, yieldL]
    exact GenList.cons (wfT_gen G t h.1) (wfL_gen G ts h.2)
end

mutual
theorem gen_tree (G : CFG) : ∀ {s : Sym} {w : List String}, G.Gen s w →
    ∃ t : PTree, t.sym = s ∧ G.wellFormedT t = true ∧ yieldT t = w
  | _, _, .ter a => ⟨.node (.ter a) [], rfl, by simp [wellFormedT], by simp [yieldT]⟩
  | _, _, .var (h := h) hp hl => by
    obtain ⟨ts, e, hw, hy⟩ := genList_tree G hl
    refine ⟨.node (.var h) ts, rfl, ?_, ?_⟩
    · simp only [wellFormedT, Bool.and_eq_true, decide_eq_true_eq]
      exact ⟨by rw [e]; exact hp, hw⟩
    · simp only [yieldT]; exact hy
theorem genList_tree (G : CFG) : ∀ {u : List Sym} {w : List String}, G.GenList u w →
    ∃ ts : List PTree, ts.map PTree.sym = u ∧ G.wellFormedL ts = true ∧ yieldL ts = w
  | _, _, .nil => ⟨[], rfl, by simp [wellFormedL], by simp [yieldL]⟩
  | _, _, .cons hs hu => by
    obtain ⟨t, e1, hw1, hy1⟩ := gen_tree G hs
    obtain ⟨ts, e2, hw2, hy2⟩ := genList_tree G hu
    refine ⟨t :: ts, by simp [e1, e2], ?_, ?_⟩
    · simp only [wellFormedL, Bool.and_eq_true]; exact ⟨hw1, hw2⟩
    · simp only [yieldL, hy1, hy2]
end

/-! ### `leftStep` -/

theorem span_loop_eq {α : Type} (p : α → Bool) : ∀ (l acc : List α),
    List.span.loop p l acc = (acc.reverse ++ l.takeWhile p, l.dropWhile p)
  | [], acc => by simp [List.span.loop]
  | a :: l, acc => by
    cases hpa : p a
    · simp [List.span.loop, hpa]
    · simp [List.span.loop, hpa, span_loop_eq p l (a :: acc)]

theorem span_eq_takeWhile_dropWhile {α : Type} (p : α → Bool) (l : List α) :
    l.span p = (l.takeWhile p, l.dropWhile p) := by
  simp [List.span, span_loop_eq]

theorem span_nonvar (pre post : List Sym) (h : String) (hpre : ∀ s ∈ pre, Sym.isVar s = false) :
    (pre ++ Sym.var h :: post).span (fun s => !Sym.isVar s) = (pre, Sym.var h :: post) := by
  rw [span_eq_takeWhile_dropWhile]
  induction pre with
  | nil => simp [Sym.isVar]
  | cons a pre ih =>
    have ha := hpre a List.mem_cons_self
    have := ih (fun s hs => hpre s (List.mem_cons_of_mem _ hs))
    simp only [Prod.mk.injEq] at this
    simp [ha, this.1, this.2]

theorem leftStep_iff (G : CFG) (u v : List Sym) :
    G.leftStep u v = true ↔ ∃ pre h post body, (∀ s ∈ pre, Sym.isVar s = false) ∧
      u = pre ++ Sym.var h :: post ∧ (h, body) ∈ G.prods ∧ v = pre ++ body ++ post := by
  constructor
  · intro hs
    unfold leftStep at hs
    split at hs
    · next pre h post heq =>
      rw [span_eq_takeWhile_dropWhile] at heq
      simp only [Prod.mk.injEq] at heq
      simp only [List.any_eq_true, decide_eq_true_eq] at hs
      obtain ⟨p, hp, rfl, rfl⟩ := hs
      refine ⟨pre, p.1, post, p.2, ?_, ?_, hp, rfl⟩
      · intro s hs
        rw [← heq.1] at hs
        have := List.all_eq_true.mp (List.all_takeWhile (l := u) (p := fun s => !Sym.isVar s)) s hs
        simpa using this
      · rw [← heq.1, ← heq.2]; exact (List.takeWhile_append_dropWhile).symm
    · cases hs
  · rintro ⟨pre, h, post, body, hpre, rfl, hp, rfl⟩
    unfold leftStep
    rw [span_nonvar pre post h hpre]
    simp only [List.any_eq_true, decide_eq_true_eq]
    exact ⟨(h, body), hp, rfl, rfl⟩

theorem leftStep_derives' (G : CFG) (u v : List Sym) (h : G.leftStep u v = true) :
    G.Derives u v := by
  obtain ⟨pre, h, post, body, _, rfl, hp, rfl⟩ := (leftStep_iff G u v).mp h
  have := Derives.context pre post (Derives.prod hp)
  simpa using this

theorem leftStep_context (G : CFG) (pref : List String) (y u v : List Sym)
    (hs : G.leftStep u v = true) :
    G.leftStep (pref.map Sym.ter ++ u ++ y) (pref.map Sym.ter ++ v ++ y) = true := by
  obtain ⟨pre, h, post, body, hpre, rfl, hp, rfl⟩ := (leftStep_iff G u v).mp hs
  refine (leftStep_iff G _ _).mpr ⟨pref.map Sym.ter ++ pre, h, post ++ y, body, ?_, by simp, hp, by simp⟩
  intro s hs
  rcases List.mem_append.mp hs with hs | hs
  · obtain ⟨a, _, rfl⟩ := List.mem_map.mp hs; rfl
  · exact hpre s hs

/-! ### reversed grammar -/

/-- the grammar used by `rightStep` -/
def revG (G : CFG) : CFG := { G with prods := G.prods.map fun p => (p.1, p.2.reverse) }

theorem derives_reverse_of {G H : CFG}
    (hp : ∀ h body, (h, body) ∈ G.prods → (h, body.reverse) ∈ H.prods) {u v : List Sym}
    (hd : G.Derives u v) : H.Derives u.reverse v.reverse := by
  induction hd with
  | refl _ => exact .refl _
  | @step u v body w h hm _ ih =>
    have e1 : (u ++ [Sym.var h] ++ v).reverse = v.reverse ++ [Sym.var h] ++ u.reverse := by simp
    have e2 : (u ++ body ++ v).reverse = v.reverse ++ body.reverse ++ u.reverse := by simp
    rw [e1]; rw [e2] at ih
    exact .step (hp _ _ hm) ih

theorem revG_prods_bwd (G : CFG) :
    ∀ h body, (h, body) ∈ (revG G).prods → (h, body.reverse) ∈ G.prods := by
  intro h body hm
  obtain ⟨⟨h', b'⟩, hp, heq⟩ := List.mem_map.mp hm
  simp only [Prod.mk.injEq] at heq
  obtain ⟨rfl, rfl⟩ := heq
  simpa using hp

theorem revG_prods_fwd (G : CFG) :
    ∀ h body, (h, body) ∈ G.prods → (h, body.reverse) ∈ (revG G).prods := by
  intro h body hm
  exact List.mem_map.mpr ⟨(h, body), hm, rfl⟩

theorem rightStep_eq (G : CFG) (u v : List Sym) :
    G.rightStep u v = (revG G).leftStep u.reverse v.reverse := rfl

theorem rightStep_derives' (G : CFG) (u v : List Sym) (h : G.rightStep u v = true) :
    G.Derives u v := by
  rw [rightStep_eq] at h
  have := derives_reverse_of (revG_prods_bwd G) (leftStep_derives' _ _ _ h)
  simpa using this

/-! ### chains -/

theorem chain_derives (G : CFG) (step : List Sym → List Sym → Bool)
    (hstep : ∀ u v, step u v = true → G.Derives u v) :
    ∀ (lines : List (List Sym)) (a b : List Sym), lines.head? = some a → lines.getLast? = some b →
      chainValid step lines = true → G.Derives a b
  | [], _, _, h, _, _ => by cases h
  | [x], a, b, h1, h2, _ => by
    simp at h1 h2; subst h1; subst h2; exact .refl _
  | x :: y :: rest, a, b, h1, h2, h3 => by
    simp only [chainValid, Bool.and_eq_true] at h3
    simp only [List.head?_cons, Option.some.injEq] at h1
    subst h1
    have h2' : (y :: rest).getLast? = some b := by
      rw [List.getLast?_cons_cons] at h2; exact h2
    exact (hstep _ _ h3.1).trans (chain_derives G step hstep (y :: rest) y b rfl h2' h3.2)

theorem chain_append (step : List Sym → List Sym → Bool) :
    ∀ (A B : List (List Sym)) (x : List Sym), chainValid step A = true → A.getLast? = some x →
      chainValid step (x :: B) = true → chainValid step (A ++ B) = true
  | [], _, _, _, h, _ => by cases h
  | [a], B, x, _, h, hB => by
    simp at h; subst h; exact hB
  | a :: b :: rest, B, x, hA, h, hB => by
    simp only [chainValid, Bool.and_eq_true] at hA
    rw [List.getLast?_cons_cons] at h
    have := chain_append step (b :: rest) B x hA.2 h hB
    simp only [List.cons_append, chainValid, Bool.and_eq_true] at this ⊢
    exact ⟨hA.1, this⟩

theorem getLast?_append_of {α : Type} (A B : List α) (x : α) (h : A.getLast? = some x) :
    (A ++ B).getLast? = (x :: B).getLast? := by
  cases B with
  | nil => simp [h]
  | cons b B =>
    rw [List.getLast?_cons_cons, List.getLast?_append, List.getLast?_cons]
    rfl

theorem chain_map (step step' : List Sym → List Sym → Bool) (f : List Sym → List Sym)
    (hf : ∀ u v, step u v = true → step' (f u) (f v) = true) :
    ∀ A : List (List Sym), chainValid step A = true → chainValid step' (A.map f) = true
  | [], _ => rfl
  | [a], _ => rfl
  | a :: b :: rest, h => by
    simp only [chainValid, Bool.and_eq_true] at h
    have := chain_map step step' f hf (b :: rest) h.2
    simp only [List.map_cons, chainValid, Bool.and_eq_true] at this ⊢
    exact ⟨hf _ _ h.1, this⟩

/-! ### the leftmost derivation listing -/

theorem leftmostD_head : ∀ t : PTree, ∃ tl, leftmostD t = [t.sym] :: tl
  | .node (.var v) [] => ⟨[[]], by simp [leftmostD, PTree.sym]⟩
  | .node (.ter a) [] => ⟨[], by simp [leftmostD, PTree.sym]⟩
  | .node s (son :: rest) => ⟨_, by rw [leftmostD]; rfl⟩

theorem leftSons_true (son : PTree) (rest : List PTree) (start : List Sym) :
    leftSons (son :: rest) start true =
      (start ++ (son :: rest).map PTree.sym) :: leftSons (son :: rest) start false := by
  obtain ⟨tl, htl⟩ := leftmostD_head son
  rw [leftSons, leftSons]
  simp only [htl, if_true, List.tail_cons, List.map_cons, List.cons_append, Bool.false_eq_true,
    if_false]
  congr 1
  · simp
  · congr 1
    cases tl with
    | nil => simp
    | cons y r => rw [List.getLast?_cons_cons]

mutual
theorem leftmostD_spec (G : CFG) : ∀ t : PTree, G.wellFormedT t = true →
    chainValid (leftStep G) (leftmostD t) = true ∧
      (leftmostD t).getLast? = some ((yieldT t).map Sym.ter)
  | .node (.ter a) [], _ => by simp [leftmostD, chainValid, yieldT]
  | .node (.ter a) (_ :: _), h => by simp [wellFormedT] at h
  | .node (.var v) [], h => by
    simp only [wellFormedT, Bool.and_eq_true, decide_eq_true_eq, List.map_nil] at h
    refine ⟨?_, by simp [leftmostD, yieldT, yieldL]⟩
    simp only [leftmostD, chainValid, Bool.and_true]
    exact (leftStep_iff G _ _).mpr ⟨[], v, [], [], by simp, rfl, h.1, rfl⟩
  | .node (.var v) (son :: rest), h => by
    simp only [wellFormedT, Bool.and_eq_true, decide_eq_true_eq] at h
    have ih := leftSons_spec G (son :: rest) h.2 []
    simp only [List.map_nil, List.nil_append] at ih
    rw [leftmostD, leftSons_true]
    simp only [List.nil_append]
    refine ⟨?_, ?_⟩
    · simp only [chainValid, Bool.and_eq_true]
      refine ⟨?_, ih.1⟩
      exact (leftStep_iff G _ _).mpr ⟨[], v, [], _, by simp, rfl, h.1, by simp⟩
    · rw [List.getLast?_cons_cons, ih.2]; simp [yieldT]
theorem leftSons_spec (G : CFG) : ∀ sons : List PTree, G.wellFormedL sons = true →
    ∀ pref : List String,
      chainValid (leftStep G)
        ((pref.map Sym.ter ++ sons.map PTree.sym) :: leftSons sons (pref.map Sym.ter) false) = true ∧
      ((pref.map Sym.ter ++ sons.map PTree.sym) :: leftSons sons (pref.map Sym.ter) false).getLast? =
        some (pref.map Sym.ter ++ (yieldL sons).map Sym.ter)
  | [], _, pref => by simp [leftSons, chainValid, yieldL]
  | son :: rest, h, pref => by
    simp only [wellFormedL, Bool.and_eq_true] at h
    obtain ⟨hc, hl⟩ := leftmostD_spec G son h.1
    obtain ⟨tl, htl⟩ := leftmostD_head son
    have ih := leftSons_spec G rest h.2 (pref ++ yieldT son)
    rw [htl] at hc hl
    rw [leftSons]
    simp only [htl, Bool.false_eq_true, if_false, List.tail_cons]
    have key : tl.getLast?.getD [son.sym] = (yieldT son).map Sym.ter := by
      rw [List.getLast?_cons] at hl; exact Option.some.inj hl
    suffices hsuff : chainValid (leftStep G)
        ((pref.map Sym.ter ++ (son :: rest).map PTree.sym) ::
          (tl.map (fun d => pref.map Sym.ter ++ d ++ rest.map PTree.sym) ++
            leftSons rest (pref.map Sym.ter ++ (yieldT son).map Sym.ter) false)) = true ∧
        ((pref.map Sym.ter ++ (son :: rest).map PTree.sym) ::
          (tl.map (fun d => pref.map Sym.ter ++ d ++ rest.map PTree.sym) ++
            leftSons rest (pref.map Sym.ter ++ (yieldT son).map Sym.ter) false)).getLast? =
          some (pref.map Sym.ter ++ (yieldL (son :: rest)).map Sym.ter) by
      generalize tl.getLast? = o at key
      rcases o with _ | l
      all_goals simp only [Option.getD_none, Option.getD_some] at key
      all_goals dsimp only
      all_goals rw [key]
      all_goals exact hsuff
    -- the mapped chain of the son
    have hm := chain_map (leftStep G) (leftStep G)
      (fun d => pref.map Sym.ter ++ d ++ rest.map PTree.sym)
      (fun u v => leftStep_context G pref (rest.map PTree.sym) u v) _ hc
    have hlast : (([son.sym] :: tl).map
        (fun d => pref.map Sym.ter ++ d ++ rest.map PTree.sym)).getLast? =
        some ((pref ++ yieldT son).map Sym.ter ++ rest.map PTree.sym) := by
      rw [List.getLast?_map, hl]; simp
    have e0 : (pref.map Sym.ter ++ (son :: rest).map PTree.sym) ::
        (tl.map (fun d => pref.map Sym.ter ++ d ++ rest.map PTree.sym) ++
          leftSons rest (pref.map Sym.ter ++ (yieldT son).map Sym.ter) false) =
        ([son.sym] :: tl).map (fun d => pref.map Sym.ter ++ d ++ rest.map PTree.sym) ++
          leftSons rest ((pref ++ yieldT son).map Sym.ter) false := by
      simp
    rw [e0]
    refine ⟨chain_append _ _ _ _ hm hlast ih.1, ?_⟩
    rw [getLast?_append_of _ _ _ hlast, ih.2]
    simp [yieldL]
end

theorem leftmostD_valid' (G : CFG) (t : PTree) (h : G.wellFormedT t = true) :
    G.derivationValid true t.sym (leftmostD t) (yieldT t) = true := by
  obtain ⟨hc, hl⟩ := leftmostD_spec G t h
  obtain ⟨tl, htl⟩ := leftmostD_head t
  simp only [derivationValid, if_true, Bool.and_eq_true, decide_eq_true_eq, hc, hl, and_true]
  rw [htl]; simp

/-! ### mirror images -/

theorem mirrorT_sym : ∀ t : PTree, (mirrorT t).sym = t.sym
  | .node s sons => by simp [mirrorT, PTree.sym]

theorem mirrorL_map_sym : ∀ ts : List PTree, (mirrorL ts).map PTree.sym = (ts.map PTree.sym).reverse
  | [] => by simp [mirrorL]
  | t :: ts => by simp [mirrorL, mirrorL_map_sym ts, mirrorT_sym]

theorem yieldL_append : ∀ a b : List PTree, yieldL (a ++ b) = yieldL a ++ yieldL b
  | [], b => by simp [yieldL]
  | t :: a, b => by simp [yieldL, yieldL_append a b]

theorem wellFormedL_append (G : CFG) : ∀ a b : List PTree,
    G.wellFormedL (a ++ b) = (G.wellFormedL a && G.wellFormedL b)
  | [], b => by simp [wellFormedL]
  | t :: a, b => by simp [wellFormedL, wellFormedL_append G a b, Bool.and_assoc]

theorem yieldT_ter_ne_nil (a : String) : ∀ l : List PTree, l ≠ [] → yieldT (.node (.ter a) l) = []
  | [], h => absurd rfl h
  | _ :: _, _ => by simp [yieldT]

theorem mirrorL_ne_nil : ∀ l : List PTree, l ≠ [] → mirrorL l ≠ []
  | [], h => absurd rfl h
  | _ :: _, _ => by simp [mirrorL]

mutual
theorem yieldT_mirror : ∀ t : PTree, yieldT (mirrorT t) = (yieldT t).reverse
  | .node (.ter a) [] => by simp [mirrorT, mirrorL, yieldT]
  | .node (.ter a) (x :: r) => by
    rw [mirrorT, yieldT_ter_ne_nil a _ (mirrorL_ne_nil _ (by simp))]
    simp [yieldT]
  | .node (.var v) sons => by
    simp only [mirrorT, yieldT]; exact yieldL_mirror sons
theorem yieldL_mirror : ∀ ts : List PTree, yieldL (mirrorL ts) = (yieldL ts).reverse
  | [] => by simp [mirrorL, yieldL]
  | t :: ts => by
    simp only [mirrorL, yieldL, yieldL_append, List.append_nil, List.reverse_append]
    rw [yieldT_mirror t, yieldL_mirror ts]
end

mutual
theorem wfT_mirror (G : CFG) : ∀ t : PTree, G.wellFormedT t = true →
    (revG G).wellFormedT (mirrorT t) = true
  | .node (.ter a) [], _ => by simp [mirrorT, mirrorL, wellFormedT]
  | .node (.ter a) (_ :: _), h => by simp [wellFormedT] at h
  | .node (.var v) sons, h => by
    simp only [wellFormedT, Bool.and_eq_true, decide_eq_true_eq] at h
    simp only [mirrorT, wellFormedT, Bool.and_eq_true, decide_eq_true_eq]
    refine ⟨?_, wfL_mirror G sons h.2⟩
    rw [mirrorL_map_sym]
    exact revG_prods_fwd G _ _ h.1
theorem wfL_mirror (G : CFG) : ∀ ts : List PTree, G.wellFormedL ts = true →
    (revG G).wellFormedL (mirrorL ts) = true
  | [], _ => by simp [mirrorL, wellFormedL]
  | t :: ts, h => by
    simp only [wellFormedL, Bool.and_eq_true] at h
    simp only [mirrorL, wellFormedL_append, wellFormedL, Bool.and_eq_true, Bool.and_true]
    exact ⟨wfL_mirror G ts h.2, wfT_mirror G t h.1⟩
end

theorem rightmostD_valid' (G : CFG) (t : PTree) (h : G.wellFormedT t = true) :
    G.derivationValid false t.sym (rightmostD t) (yieldT t) = true := by
  obtain ⟨hc, hl⟩ := leftmostD_spec (revG G) (mirrorT t) (wfT_mirror G t h)
  obtain ⟨tl, htl⟩ := leftmostD_head (mirrorT t)
  have hm := chain_map (leftStep (revG G)) (rightStep G) List.reverse
    (fun u v huv => by rw [rightStep_eq]; simpa using huv) _ hc
  unfold derivationValid
  rw [Bool.and_eq_true, Bool.and_eq_true, decide_eq_true_eq, decide_eq_true_eq]
  simp only [Bool.false_eq_true, if_false]
  unfold rightmostD
  refine ⟨⟨?_, ?_⟩, hm⟩
  · rw [htl, mirrorT_sym]; simp
  · rw [List.getLast?_map, hl, yieldT_mirror]; simp

end Trees
end CFG
end Pfl
