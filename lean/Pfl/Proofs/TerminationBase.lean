/-
Generic counting lemmas for the termination (fuel sufficiency) theorems: sums of sizes over a
finite list of keys, and the measure argument for a worklist whose elements are re-queued only when
some bounded size grew.
-/
import Mathlib.Data.List.Basic

namespace Pfl.Term

/-! ### sums over a list of keys -/

def sumOver {κ : Type} (l : List κ) (f : κ → Nat) : Nat := (l.map f).sum

theorem sumOver_nil {κ : Type} (f : κ → Nat) : sumOver [] f = 0 := rfl

theorem sumOver_cons {κ : Type} (k : κ) (l : List κ) (f : κ → Nat) :
    sumOver (k :: l) f = f k + sumOver l f := by
  simp [sumOver]

theorem sumOver_le {κ : Type} (l : List κ) (f g : κ → Nat) (h : ∀ k ∈ l, f k ≤ g k) :
    sumOver l f ≤ sumOver l g := by
  induction l with
  | nil => simp [sumOver]
  | cons k l ih =>
    rw [sumOver_cons, sumOver_cons]
    have h1 := h k List.mem_cons_self
    have h2 := ih (fun k' hk' => h k' (List.mem_cons_of_mem _ hk'))
    omega

theorem sumOver_lt {κ : Type} (l : List κ) (f g : κ → Nat) (h : ∀ k ∈ l, f k ≤ g k)
    (k0 : κ) (hk0 : k0 ∈ l) (hlt : f k0 < g k0) : sumOver l f < sumOver l g := by
  induction l with
  | nil => cases hk0
  | cons k l ih =>
    rw [sumOver_cons, sumOver_cons]
    have h1 := h k List.mem_cons_self
    have h2 := sumOver_le l f g (fun k' hk' => h k' (List.mem_cons_of_mem _ hk'))
    rcases List.mem_cons.mp hk0 with rfl | hk0
    · omega
    · have h3 := ih (fun k' hk' => h k' (List.mem_cons_of_mem _ hk')) hk0
      omega

theorem sumOver_le_mul {κ : Type} (l : List κ) (f : κ → Nat) (b : Nat) (h : ∀ k ∈ l, f k ≤ b) :
    sumOver l f ≤ l.length * b := by
  induction l with
  | nil => simp [sumOver]
  | cons k l ih =>
    rw [sumOver_cons, List.length_cons, Nat.succ_mul]
    have h1 := h k List.mem_cons_self
    have h2 := ih (fun k' hk' => h k' (List.mem_cons_of_mem _ hk'))
    omega

theorem mul_le_sumOver {κ : Type} (l : List κ) (f : κ → Nat) (b : Nat) (h : ∀ k ∈ l, b ≤ f k) :
    l.length * b ≤ sumOver l f := by
  induction l with
  | nil => simp [sumOver]
  | cons k l ih =>
    rw [sumOver_cons, List.length_cons, Nat.succ_mul]
    have h1 := h k List.mem_cons_self
    have h2 := ih (fun k' hk' => h k' (List.mem_cons_of_mem _ hk'))
    omega

theorem sumOver_congr {κ : Type} (l : List κ) (f g : κ → Nat) (h : ∀ k ∈ l, f k = g k) :
    sumOver l f = sumOver l g := by
  apply Nat.le_antisymm
  · exact sumOver_le l f g (fun k hk => Nat.le_of_eq (h k hk))
  · exact sumOver_le l g f (fun k hk => Nat.le_of_eq (h k hk).symm)

/-! ### the measure of a worklist -/

/-- A loop over states `s` (dictionary and queue) that stops when the queue is empty.  If every
round either pops one element without any other change of `size` and queue, or makes `size` grow,
and `size ≤ B`, queue length `≤ V` are invariants, then `(B - size) * (V + 1) + |queue|` rounds of
fuel are enough. -/
theorem worklist_isSome {S R : Type} (loop : Nat → S → Option R) (qlen size : S → Nat)
    (step : S → S) (Inv : S → Prop) (B V : Nat)
    (hdone : ∀ fuel s, qlen s = 0 → (loop fuel s).isSome)
    (hstep : ∀ fuel s, qlen s ≠ 0 → loop (fuel + 1) s = loop fuel (step s))
    (hinv : ∀ s, Inv s → qlen s ≠ 0 → Inv (step s))
    (hsize : ∀ s, Inv s → size s ≤ B)
    (hq : ∀ s, Inv s → qlen s ≤ V)
    (hprog : ∀ s, Inv s → qlen s ≠ 0 →
      (size (step s) = size s ∧ qlen (step s) + 1 = qlen s) ∨ size s < size (step s)) :
    ∀ fuel s, Inv s → (B - size s) * (V + 1) + qlen s ≤ fuel → (loop fuel s).isSome := by
  intro fuel
  induction fuel with
  | zero =>
    intro s _ hf
    exact hdone 0 s (by omega)
  | succ fuel ih =>
    intro s hs hf
    by_cases hq0 : qlen s = 0
    · exact hdone _ s hq0
    · rw [hstep fuel s hq0]
      have hs' := hinv s hs hq0
      apply ih _ hs'
      rcases hprog s hs hq0 with ⟨h1, h2⟩ | h1
      · rw [h1]; omega
      · have hB := hsize _ hs'
        have hV := hq _ hs'
        have hc : B - size (step s) + 1 ≤ B - size s := by omega
        have hm := Nat.mul_le_mul_right (V + 1) hc
        rw [Nat.add_mul, Nat.one_mul] at hm
        omega

end Pfl.Term
