/-
Completeness of `advance`: when the waiting state and the completed state cover ground items
that agree on the value of the expected symbol, the unification succeeds and the new state (or a
state subsuming it) covers the advanced ground item.
-/
import Pfl.Proofs.EarleyCompleteTables
namespace Pfl
namespace Earley
namespace Cmp
open FsDag FsDag.Lem Lem

/-- the value of the symbol after the dot of `(k, env)` is the value of the head of `(k', env')` -/
def Agree (C : Ctx) (k dot : Nat) (env : Env) (k' : Nat) (env' : Env) : Prop :=
  ∀ it, (prX C k).2[dot]? = some it → it.2.map (C.vf env) = (prX C k').1.2.map (C.vf env')

/-! ### small facts -/

theorem body_prX {C : Ctx} (hC : CtxOK C) (k : Nat) :
    (prodOf C.G k).body = (prX C k).2.map (·.1) := by
  cases h : C.spec[k]? with
  | none => rw [prodOf_gamma hC h, prX_gamma h]; rfl
  | some pr => rw [(prodOf_spec hC h).2.1, prX_spec h]

theorem head_prX {C : Ctx} (hC : CtxOK C) (k : Nat) :
    (prodOf C.G k).head = (prX C k).1.1 := by
  cases h : C.spec[k]? with
  | none => rw [prodOf_gamma hC h, prX_gamma h]
  | some pr => rw [(prodOf_spec hC h).1, prX_spec h]

/-- in a feature-free grammar no occurrence carries a feature -/
theorem occ_vacuous {C : Ctx} (hC : CtxOK C) (hf : C.featured = false) (k : Nat) (st : Store)
    (σ : Nat → String) (F : Nat) (env : Env) : Occ C st σ F (prX C k) env := by
  cases h : C.spec[k]? with
  | none => exact occ_gamma h st σ F env
  | some pr =>
    rw [prX_spec h]
    have hm := List.mem_of_getElem? h
    obtain ⟨h1, h2⟩ := hC.uniform pr hm
    rw [hf] at h1 h2
    refine ⟨fun v hv => by rw [hv] at h1; simp at h1, fun j X v hj => ?_⟩
    have := h2 _ (List.mem_of_getElem? hj) X rfl
    simp at this

theorem rk_path2 {st : Store} {rk : Nat → Nat} (hw : WFS st rk) {F n : Nat} {g1 g2 : String}
    (hF : rk F = 2) (h : byPath st F [g1, g2] = some n) : rk n = 0 := by
  have e := byPath_append st [g1] [g2] F
  simp only [List.cons_append, List.nil_append] at e
  rw [e] at h
  cases h1 : byPath st F [g1] with
  | none => rw [h1] at h; simp at h
  | some x =>
    rw [h1] at h
    simp only [Option.bind_some] at h
    have r1 := rk_child hw h1
    have r2 := rk_child hw h
    omega

theorem rdv_sub {st : Store} {σ : Nat → String} {F x : Nat} {g : String} {q : List String}
    (h : byPath st F [g] = some x) : rdv st σ F (g :: q) = rdv st σ x q := by
  have e := byPath_append st [g] q F
  simp only [List.cons_append, List.nil_append] at e
  unfold rdv
  rw [e, h]; rfl

theorem canon_const (st : Store) (rk : Nat → Nat) (d : String) (a b : Nat) :
    canon st rk (fun _ => d) d a = canon st rk (fun _ => d) d b := by
  have key : ∀ c q, canon st rk (fun _ => d) d c q = d := by
    intro c q
    unfold canon
    cases byPath st c q with
    | none => rfl
    | some n => simp
  funext q
  rw [key a q, key b q]

/-- two symbol records with the same leaf value have the same canonical denotation -/
theorem canon_eq_of_n {st : Store} {rk : Nat → Nat} {σ : Nat → String} {d u : String} {a b : Nat}
    (hw : WFS st rk) (hn : AllN st rk) (hra : rk a = 1) (hrb : rk b = 1)
    (ha : rdv st σ a ["n"] = some u) (hb : rdv st σ b ["n"] = some u) :
    canon st rk σ d a = canon st rk σ d b := by
  have key : ∀ c, rk c = 1 → rdv st σ c ["n"] = some u → ∀ g q,
      canon st rk σ d c (g :: q) = if g = "n" ∧ q = [] then u else d := by
    intro c hrc hc g q
    have hrd : rk (deref st c) = 1 := by rw [rkR_deref hw.inv]; exact hrc
    unfold rdv at hc
    rw [byPath_cons] at hc
    cases hl : lookupC "n" (cont st (deref st c)) with
    | none => rw [hl] at hc; simp at hc
    | some x =>
      rw [hl] at hc
      simp only [byPath_nil, Option.map_some, Option.some.injEq] at hc
      have hrx : rk x = 0 := by
        have := (hw.inv.rkc _ "n" x (lookupC_mem hl)).1
        unfold crE at this; omega
      unfold canon
      by_cases hg : g = "n"
      · subst hg
        rw [byPath_cons_of q hl]
        cases q with
        | nil => simp [byPath_nil, hrx, hc]
        | cons g2 q2 =>
          have hcx : cont st (deref st x) = [] :=
            cont_nil_of_rkR_zero hw.inv (by rw [rkR_deref hw.inv]; exact hrx)
          rw [byPath_cons, hcx]
          simp [lookupC]
      · have hnone : lookupC g (cont st (deref st c)) = none := by
          cases hl2 : lookupC g (cont st (deref st c)) with
          | none => rfl
          | some y => exact absurd (hn _ g y hrd (lookupC_mem hl2)) hg
        rw [byPath_cons, hnone]
        simp [hg]
  funext q
  cases q with
  | nil => unfold canon; simp [byPath_nil, hra, hrb]
  | cons g q => rw [key a hra ha g q, key b hrb hb g q]

/-- reading the leaves of the new state after the unification -/
theorem occ_unify {C : Ctx} {st2 st3 : Store} {rk2 : Nat → Nat} {σ2 : Nat → String} {d d' : String}
    {ρ' : Interp} {cr : Nat} {pr : (String × Feat) × List (Sym × Feat)} {env : Env}
    (hw2 : WFS st2 rk2) (hcr : cr < st2.length) (hrk : rk2 cr = 2) (hσ2 : Resp C.P st2 σ2)
    (hρ : ∀ i, i < st2.length → ρ' i = canon st2 rk2 σ2 d' i) (hm : Model st3 ρ')
    (hpp : ∀ p i n, i < st2.length → byPath st2 i p = some n →
        n < st2.length ∧ ∃ n', byPath st3 i p = some n' ∧ deref st3 n' = deref st3 n)
    (ho : Occ C st2 σ2 cr pr env) : Occ C st3 (ofInterp C.P d ρ') cr pr env := by
  have key : ∀ g1 g2 u, rdv st2 σ2 cr [g1, g2] = some u →
      rdv st3 (ofInterp C.P d ρ') cr [g1, g2] = some u := by
    intro g1 g2 u h
    unfold rdv at h
    cases hb : byPath st2 cr [g1, g2] with
    | none => rw [hb] at h; simp at h
    | some n =>
      rw [hb] at h
      simp only [Option.map_some, Option.some.injEq] at h
      obtain ⟨_, n', hn', _⟩ := hpp _ _ _ hcr hb
      have hval : ρ' cr [g1, g2] = u := by
        rw [hρ cr hcr]
        unfold canon
        rw [hb]
        simp only
        rw [if_pos (rk_path2 hw2 hrk hb)]; exact h
      have hP : C.P (ρ' cr [g1, g2]) := by rw [hval, ← h]; exact hσ2.1 _
      rw [ofInterp_rdv hm hn' hP, hval]
  exact ⟨fun v hv => key _ _ _ (ho.1 v hv), fun j X v hj => key _ _ _ (ho.2 j X v hj)⟩

theorem copy_sim_old {P : String → Prop} {st : Store} {F : Nat} {st1 : Store} {F' : Nat}
    {κ : Nat → Nat} {dom : Nat → Prop} {π : Nat → Nat} (hc : CopySpec st F st1 F' κ dom π)
    (hr : Rng st) (ha : Acyc st) {G : Nat} (hG : G < st.length) : Sim P st G st1 G := by
  obtain ⟨e, he⟩ := hc.ext
  rw [he]; exact sim_append e P ha hr hG

/-! ### the invariant along a change of the store -/

theorem Base.step {C : Ctx} {T : Tables} {rk rk' : Nat → Nat} {X : List (Nat × EState)}
    {st' : Store} (hB : Base C T rk X) (hs : Lem.Step C.P T.store rk st' rk') (hf : Fr T.store st')
    (hw : WFS st' rk') (hsx : SX C.P st' rk') (hnv : C.featured = false → NoVal st')
    {d : String} (hd : C.P d) : Base C { T with store := st' } rk' X := by
  have hw0 := hB.inv.wf
  refine ⟨hB.inv.step hs hw, hsx, hnv, ?_, ?_, ?_, ?_, ?_, hB.keys, hB.lenc, hB.lenp⟩
  · intro k p pr env hp hpr he
    exact (hB.objs k p pr env hp hpr he).fwd hf hw0 hd (hB.inv.objs k p hp).1
  · intro k p hp
    exact (hB.opth k p hp).fwd hf hw0 (hB.inv.objs k p hp).1
  · intro j s hm
    exact (hB.pthc j s hm).fwd hf hw0 (hB.inv.chart j s hm).fs_lt
  · intro j s hm
    exact (hB.pthp j s hm).fwd hf hw0 (hB.inv.proc j s hm).fs_lt
  · intro e he
    exact (hB.pthx e he).fwd hf hw0 (hB.inv.extra e he).fs_lt

theorem tle_store (lo : Nat) (T : Tables) {st' : Store} (hf : Fr T.store st') :
    TLe lo T { T with store := st' } :=
  ⟨hf, fun _ _ h => h, fun _ _ h => h, fun _ _ h => Or.inl h, fun _ _ => rfl⟩

/-! ### `advance` -/

/-- what `advance` guarantees -/
structure AdvPost (C : Ctx) (T : Tables) (nx c : EState) (T' : Tables) : Prop where
  tle : TLe c.e T T'
  cov : ∀ env env', Cov C T.store nx.fs nx.prod env → Cov C T.store c.fs c.prod env' →
    Agree C nx.prod nx.dot env c.prod env' →
    CovT C T' ⟨nx.prod, env, nx.b, c.e, nx.dot + 1⟩

theorem advance_spec {C : Ctx} (hC : CtxOK C) {d : String} (hd : C.P d) {T : Tables}
    {rk : Nat → Nat} {X : List (Nat × EState)} (hB : Base C T rk X) {i : Nat} {c nx : EState}
    (hs : (i, c) ∈ X) (hnx : (c.b, nx) ∈ X) (hi : i < C.word.length + 1)
    (hcomp : incomplete C.G c = false) (hinc : incomplete C.G nx = true)
    (hnext : nextSym C.G nx = some (.var (prodOf C.G c.prod).head)) :
    ∃ rk', Base C (Pfl.Earley.advance C.G T nx c) rk' X ∧
      AdvPost C T nx c (Pfl.Earley.advance C.G T nx c) := by
  have hcOK := hB.inv.extra _ hs
  have hnxOK := hB.inv.extra _ hnx
  have hw0 := hB.inv.wf
  have hr0 := hw0.rng
  have ha0 := hw0.inv.acyc
  have hie : c.e = i := hcOK.e_eq
  have hilt : c.e < T.processed.length := by rw [hie, hB.lenp]; exact hi
  unfold Pfl.Earley.advance
  -- first copy
  obtain ⟨κ1, dom1, π1, hc1, hw1⟩ := wfs_copy' hw0 hcOK.fs_lt
  generalize hcp1 : copy T.store c.fs = r1 at *
  obtain ⟨st1, cl⟩ := r1
  simp only at hc1 hw1 ⊢
  have hcl : cl < st1.length := by rw [← hc1.κF]; exact (hc1.rng _ hc1.domF).2
  have hrkcl : rk (proj T.store π1 cl) = 2 := by
    rw [← hc1.κF, hc1.proj_κ hc1.domF]; exact hcOK.rk2
  have hfr1 : Fr T.store st1 := copy_fr hc1
  obtain ⟨⟨rh, hrh⟩, _⟩ := hB.pthx _ hs
  simp only at hrh
  obtain ⟨hdomrh, hleft0⟩ := hc1.byPath_κ hr0 ha0 _ _ _ hc1.domF hrh
  rw [hc1.κF] at hleft0
  rw [hleft0]
  simp only
  have hleftge : T.store.length ≤ κ1 rh := (hc1.rng rh hdomrh).1
  generalize hleftdef : κ1 rh = left at *
  have hleftlt : left < st1.length := byPath_lt hw1.rng _ _ _ hcl hleft0
  have hrkleft : rk (proj T.store π1 left) + 1 = 2 := by
    have := rk_child hw1 hleft0
    rw [this, hrkcl]
  -- second copy
  have hnxlt1 : nx.fs < st1.length := Nat.lt_of_lt_of_le hnxOK.fs_lt hfr1.len
  obtain ⟨κ2, dom2, π2, hc2, hw2⟩ := wfs_copy' hw1 hnxlt1
  generalize hcp2 : copy st1 nx.fs = r2 at *
  obtain ⟨st2, cr⟩ := r2
  simp only at hc2 hw2 ⊢
  have hcr : cr < st2.length := by rw [← hc2.κF]; exact (hc2.rng _ hc2.domF).2
  have hfr2 : Fr st1 st2 := copy_fr hc2
  have hdotlt : nx.dot < (prX C nx.prod).2.length := by
    unfold incomplete at hinc
    rw [body_prX hC, List.length_map] at hinc
    simpa using hinc
  obtain ⟨_, hps⟩ := hB.pthx _ hnx
  obtain ⟨rs, hrs⟩ := hps nx.dot hdotlt
  simp only at hrs
  have hrs1 : byPath st1 nx.fs [toString nx.dot] = some rs := by
    rw [hfr1.byPath_eq ha0 hr0 _ hnxOK.fs_lt]; exact hrs
  obtain ⟨hdomrs, hcons0⟩ := hc2.byPath_κ hw1.rng hw1.inv.acyc _ _ _ hc2.domF hrs1
  rw [hc2.κF] at hcons0
  rw [hcons0]
  simp only
  have hconsge : st1.length ≤ κ2 rs := (hc2.rng rs hdomrs).1
  generalize hconsdef : κ2 rs = considered at *
  have hw1' := hw1
  have hw2' := hw2
  generalize hrk1 : (fun n => rk (proj T.store π1 n)) = rk1 at hw1'
  generalize hrk2 : (fun n => rk1 (proj st1 π2 n)) = rk2 at *
  have hw2'' : WFS st2 rk2 := by rw [← hrk2, ← hrk1]; exact hw2
  have hrk1old : ∀ j, j < T.store.length → rk1 j = rk j := by
    intro j hj; rw [← hrk1]; simp only [proj_old hj]
  have hrk2old : ∀ j, j < st1.length → rk2 j = rk1 j := by
    intro j hj; rw [← hrk2]; simp only [proj_old hj]
  have hrk1cl : rk1 cl = 2 := by rw [← hrk1]; exact hrkcl
  have hrk1left : rk1 left + 1 = 2 := by rw [← hrk1]; exact hrkleft
  have hrk2cr : rk2 cr = 2 := by
    rw [← hrk2]
    simp only
    rw [← hc2.κF, hc2.proj_κ hc2.domF, hrk1old _ hnxOK.fs_lt]; exact hnxOK.rk2
  have hconslt : considered < st2.length := byPath_lt hw2''.rng _ _ _ hcr hcons0
  have hleftlt2 : left < st2.length := Nat.lt_of_lt_of_le hleftlt hfr2.len
  have hrk2cons : rk2 considered + 1 = 2 := by rw [rk_child hw2'' hcons0, hrk2cr]
  have hrk2left : rk2 left + 1 = 2 := by rw [hrk2old _ hleftlt]; exact hrk1left
  have hleft2 : byPath st2 cl ["head"] = some left := by
    rw [hfr2.byPath_eq hw1.inv.acyc hw1.rng _ hcl]; exact hleft0
  have hcl2 : cl < st2.length := Nat.lt_of_lt_of_le hcl hfr2.len
  have hk : rk2 considered = rk2 left := by omega
  -- the extra invariants of the copies
  have hsx1 : SX C.P st1 rk1 := by
    rw [← hrk1]
    exact ⟨copy_kf hc1 hB.sx.kf, copy_vr hc1 hr0 ha0 hB.sx.vr, copy_alln hc1 hB.sx.alln,
      copy_ap hc1 hB.sx.ap⟩
  have hsx2 : SX C.P st2 rk2 := by
    rw [← hrk2]
    exact ⟨copy_kf hc2 hsx1.kf, copy_vr hc2 hw1'.rng hw1'.inv.acyc hsx1.vr, copy_alln hc2 hsx1.alln,
      copy_ap hc2 hsx1.ap⟩
  have hnv2 : C.featured = false → NoVal st2 := fun hf =>
    copy_noval hc2 (copy_noval hc1 (hB.nv hf))
  have hstep1 : Lem.Step C.P T.store rk st1 rk1 :=
    ⟨hc1.len, hrk1old, fun F hF => copy_sim_old hc1 hr0 ha0 hF⟩
  have hstep2 : Lem.Step C.P st1 rk1 st2 rk2 :=
    ⟨hc2.len, hrk2old, fun F hF => copy_sim_old hc2 hw1'.rng hw1'.inv.acyc hF⟩
  have hstep12 := hstep1.trans hstep2
  have hfr12 := hfr1.trans hfr2
  -- a compatible pair of instances yields a valuation of the copies
  have key1 : ∀ env env', Cov C T.store nx.fs nx.prod env → Cov C T.store c.fs c.prod env' →
      Agree C nx.prod nx.dot env c.prod env' →
      ∃ σ2 d', Resp C.P st2 σ2 ∧ Occ C st2 σ2 cr (prX C nx.prod) env ∧
        canon st2 rk2 σ2 d' considered = canon st2 rk2 σ2 d' left := by
    intro env env' ⟨σa, hσa, hoa⟩ ⟨σc, hσc, hoc⟩ hag
    cases hf : C.featured with
    | false =>
      refine ⟨fun _ => d, d, ⟨fun _ => hd, fun c' v _ hv _ => ?_⟩,
        occ_vacuous hC hf _ _ _ _ _, canon_const ..⟩
      have := hnv2 hf c'; rw [this] at hv; simp at hv
    | true =>
      -- the item after the dot
      obtain ⟨it, hit⟩ : ∃ it, (prX C nx.prod).2[nx.dot]? = some it :=
        ⟨_, List.getElem?_eq_getElem hdotlt⟩
      have hit1 : it.1 = Sym.var (prodOf C.G c.prod).head := by
        unfold nextSym at hnext
        rw [body_prX hC, List.getElem?_map, hit] at hnext
        simpa using hnext
      have hagi := hag it hit
      cases hsp : C.spec[c.prod]? with
      | none =>
        exfalso
        rw [prodOf_gamma hC hsp] at hit1
        cases hspn : C.spec[nx.prod]? with
        | none =>
          rw [prX_gamma hspn] at hit
          have : nx.dot = 0 := by
            rw [prX_gamma hspn] at hdotlt; simpa using hdotlt
          rw [this] at hit
          simp only [List.getElem?_cons_zero, Option.some.injEq] at hit
          rw [← hit] at hit1
          simp only [Sym.var.injEq] at hit1
          exact hC.start_ne hit1
        | some pr =>
          rw [prX_spec hspn] at hit
          exact hC.noGamma pr (List.mem_of_getElem? hspn) it (List.mem_of_getElem? hit) hit1
      | some prs =>
        have hprs := (hC.uniform prs (List.mem_of_getElem? hsp)).1
        rw [hf] at hprs
        obtain ⟨v', hv'⟩ := Option.isSome_iff_exists.1 hprs
        rw [prX_spec hsp, hv'] at hagi
        simp only [Option.map_some, Option.map_eq_some_iff] at hagi
        obtain ⟨v, hv, hvv⟩ := hagi
        have hj : (prX C nx.prod).2[nx.dot]? = some (Sym.var (prodOf C.G c.prod).head, some v) := by
          rw [hit]; congr 1; exact Prod.ext hit1 hv
        have e_nx := hoa.2 nx.dot _ v hj
        have e_c := hoc.1 v' (by rw [prX_spec hsp]; exact hv')
        obtain ⟨hσ1, old1, cp1⟩ := copy_fwd hc1 hr0 ha0 hσa hσc
        obtain ⟨hσ2, old2, cp2⟩ := copy_fwd hc2 hw1.rng hw1.inv.acyc hσ1 hσ1
        have ho2 : Occ C st2 (mixVal st1 π2 (mixVal T.store π1 σa σc) (mixVal T.store π1 σa σc)) cr
            (prX C nx.prod) env :=
          hoa.sim (fun p a h => cp2 p a (by rw [old1 nx.fs p hnxOK.fs_lt]; exact h))
        have e_cl := cp1 _ _ e_c
        rw [← old2 cl _ hcl, rdv_sub hleft2] at e_cl
        have e_cr := ho2.2 nx.dot _ v hj
        rw [rdv_sub hcons0] at e_cr
        refine ⟨_, d, hσ2, ho2, canon_eq_of_n hw2'' hsx2.alln (by omega) (by omega) e_cr ?_⟩
        rw [hvv]; exact e_cl
  have hU : ∀ σ2 d', Resp C.P st2 σ2 →
      canon st2 rk2 σ2 d' considered = canon st2 rk2 σ2 d' left →
      ∃ st', unify (st2.length + 2) st2 considered left = .ok st' ∧
        ∃ ρ' : Interp, (∀ j, j < st2.length → ρ' j = canon st2 rk2 σ2 d' j) ∧ Model st' ρ' :=
    fun σ2 d' hσ2 H => unify_complete hw2'' hsx2.kf hsx2.vr
      (fun c' v hp hv => hσ2.2 c' v hp hv (hsx2.ap c' v hv)) hconslt hleftlt2 hk (by omega) H
  cases hun : unify (st2.length + 2) st2 considered left with
  | ok st3 =>
    simp only
    obtain ⟨rk3, hw3, he, hder, hpp⟩ := unify_step' hw2'' hconslt hleftlt2 hk hun
    obtain ⟨kf3, vr3, an3, ap3, vals3⟩ := unify_sx hw2'' hsx2.kf hsx2.vr hsx2.alln hsx2.ap
      hconslt hleftlt2 (by omega) (by omega) he hun
    have hclosed : ClosedAbove st2 T.store.length :=
      copy_closed hc2 hfr1.len (copy_closed hc1 (Nat.le_refl _) (closedAbove_length _))
    have hframe3 : ∀ j, j < T.store.length → get st3 j = get st2 j :=
      unify_frame hw2''.rng hsx2.kf hfr12.len hclosed.1 hclosed.2 hconslt hleftlt2
        (by have := hfr1.len; omega) hleftge hun
    have hfr3 : Fr T.store st3 :=
      ⟨Nat.le_trans hfr12.len he.len, fun j hj => by rw [hframe3 j hj, hfr12.old j hj]⟩
    obtain ⟨_, _, _, _, _, _, hsim3⟩ := Lem.unify_step C.P hw2'' hconslt hleftlt2 hk hun
    have hstep3 : Lem.Step C.P st2 rk2 st3 rk3 := ⟨he.len, he.rkold, hsim3⟩
    have hstepAll := hstep12.trans hstep3
    have hB3 : Base C { T with store := st3 } rk3 X :=
      hB.step hstepAll hfr3 hw3 ⟨kf3, vr3, an3, ap3⟩
        (fun hf j => by rw [vals3 j]; exact hnv2 hf j) hd
    -- the new state
    have hcr3 : cr < st3.length := Nat.lt_of_lt_of_le hcr he.len
    obtain ⟨_, l', hl', hdl'⟩ := hpp _ _ _ hcl2 hleft2
    obtain ⟨_, c', hc', hdc'⟩ := hpp _ _ _ hcr hcons0
    have hlink : byPath st3 cr [toString nx.dot, "n"] = byPath st3 cl ["head", "n"] := by
      have e1 := byPath_append st3 [toString nx.dot] ["n"] cr
      have e2 := byPath_append st3 ["head"] ["n"] cl
      simp only [List.cons_append, List.nil_append] at e1 e2
      rw [e1, e2, hc', hl']
      simp only [Option.bind_some]
      exact byPath_congr (by rw [hdc', hdl', hder]) "n" []
    have simA : Sim C.P T.store nx.fs st3 cr :=
      ((hstep1.sim _ hnxOK.fs_lt).trans (hc2.sim C.P hw1'.rng hw1'.inv.acyc)).trans (hsim3 _ hcr)
    have simB : Sim C.P T.store c.fs st3 cl :=
      ((hc1.sim C.P hr0 ha0).trans (hstep2.sim _ hcl)).trans (hsim3 _ hcl2)
    have hrk3cr : rk3 cr = 2 := by rw [he.rkold _ hcr]; exact hrk2cr
    have hnsOK := compl_good (rk3 := rk3) hC hcOK hnxOK hcomp hinc hnext simA simB hlink hcr3 hrk3cr
    have hpath3 : ∀ p r, byPath T.store nx.fs p = some r → ∃ r', byPath st3 cr p = some r' := by
      intro p r hp
      have h1 : byPath st1 nx.fs p = some r := by
        rw [hfr1.byPath_eq ha0 hr0 _ hnxOK.fs_lt]; exact hp
      obtain ⟨_, h2⟩ := hc2.byPath_κ hw1'.rng hw1'.inv.acyc _ _ _ hc2.domF h1
      rw [hc2.κF] at h2
      obtain ⟨_, r', hr', _⟩ := hpp _ _ _ hcr h2
      exact ⟨r', hr'⟩
    have hnsP : HasPaths C st3 cr nx.prod := by
      obtain ⟨⟨r0, hr0'⟩, hps'⟩ := hB.pthx _ hnx
      exact ⟨hpath3 _ _ hr0', fun j hj => by
        obtain ⟨r1, hr1⟩ := hps' j hj
        exact hpath3 _ _ hr1⟩
    have hclen : c.e < T.chart.length := by rw [hie, hB.lenc]; exact hi
    refine ⟨rk3, pushIfNew_base hB3 hnsOK hnsP, ?_, ?_⟩
    · exact (tle_store c.e T hfr3).trans (pushIfNew_tle C.G _ c.e _ hclen)
    · intro env env' h1 h2 hag
      obtain ⟨σ2, d', hσ2, ho2, H⟩ := key1 env env' h1 h2 hag
      obtain ⟨st', hu', ρ', hρ, hm⟩ := hU σ2 d' hσ2 H
      rw [hun] at hu'
      simp only [Res.ok.injEq] at hu'
      subst hu'
      have hcov3 : Cov C st3 cr nx.prod env :=
        ⟨ofInterp C.P d ρ', ofInterp_resp hd hm, occ_unify hw2'' hcr hrk2cr hσ2 hρ hm hpp ho2⟩
      exact pushIfNew_cov hB3 hd (i := c.e)
        (s := { prod := nx.prod, b := nx.b, e := c.e, dot := nx.dot + 1, fs := cr }) hilt env hcov3
  | conflict =>
    simp only
    refine ⟨rk2, hB.step hstep12 hfr12 hw2'' hsx2 hnv2 hd, tle_store c.e T hfr12, ?_⟩
    intro env env' h1 h2 hag
    obtain ⟨σ2, d', hσ2, ho2, H⟩ := key1 env env' h1 h2 hag
    obtain ⟨st', hu', _⟩ := hU σ2 d' hσ2 H
    rw [hun] at hu'; simp at hu'
  | fuel =>
    simp only
    refine ⟨rk2, hB.step hstep12 hfr12 hw2'' hsx2 hnv2 hd, tle_store c.e T hfr12, ?_⟩
    intro env env' h1 h2 hag
    obtain ⟨σ2, d', hσ2, ho2, H⟩ := key1 env env' h1 h2 hag
    obtain ⟨st', hu', _⟩ := hU σ2 d' hσ2 H
    rw [hun] at hu'; simp at hu'

end Cmp
end Earley
end Pfl
