/- Proofs for Pfl/Props/C19_FAObject.lean (automaton object model), part 2: the queries. -/
import Pfl.Spec.FAObject
import Pfl.Proofs.FAObject
import Mathlib.Data.List.Nodup
namespace Pfl
namespace FAObj
namespace PQ
open Pfl.FAObj.P

/-! ### helpers -/

theorem find_map_iff {α β : Type} [DecidableEq α] (l : List (α × β))
    (h : (l.map (·.1)).Nodup) (k : α) (v : β) :
    (l.find? (fun e => decide (e.1 = k))).map (·.2) = some v ↔ (k, v) ∈ l := by
  induction l with
  | nil => simp
  | cons x xs ih =>
    simp only [List.map_cons, List.nodup_cons] at h
    obtain ⟨h1, h2⟩ := h
    obtain ⟨x1, x2⟩ := x
    by_cases hx : x1 = k
    · subst hx
      simp only [List.find?_cons, decide_true, Option.map_some, Option.some.injEq,
        List.mem_cons, Prod.mk.injEq, true_and]
      constructor
      · intro h; exact Or.inl h.symm
      · rintro (h | h)
        · exact h.symm
        · exact absurd (List.mem_map.mpr ⟨_, h, rfl⟩) h1
    · have hx' : ¬ (k = x1) := fun h => hx h.symm
      simp only [List.find?_cons, hx, decide_false, List.mem_cons, Prod.mk.injEq, hx', false_and,
        false_or]
      exact ih h2

theorem tabGet_iff {T : Table} (h : (T.map (·.1)).Nodup) (q : Nat) row :
    tabGet T q = some row ↔ (q, row) ∈ T := find_map_iff T h q row

theorem rowGet_iff {row : List (Option Nat × List Nat)} (h : (row.map (·.1)).Nodup) (a : Option Nat) ts :
    rowGet row a = some ts ↔ (a, ts) ∈ row := find_map_iff row h a ts

theorem mem_edges_raw (T : Table) (q r : Nat) (a : Option Nat) :
    (q, a, r) ∈ edges T ↔ ∃ row, (q, row) ∈ T ∧ ∃ ts, (a, ts) ∈ row ∧ r ∈ ts := by
  simp only [edges, List.mem_flatMap, List.mem_map, Prod.mk.injEq]
  constructor
  · rintro ⟨⟨e1, e2⟩, he, ⟨f1, f2⟩, hf, r', hr, rfl, rfl, rfl⟩
    exact ⟨e2, he, f2, hf, hr⟩
  · rintro ⟨row, he, ts, hf, hr⟩
    exact ⟨(q, row), he, (a, ts), hf, r, hr, rfl, rfl, rfl⟩

theorem lookup_iff {det : Bool} {T : Table} (hi : TInv det T) (q : Nat) (a : Option Nat) ts :
    lookup T q a = some ts ↔ ∃ row, (q, row) ∈ T ∧ (a, ts) ∈ row := by
  unfold lookup
  constructor
  · intro h
    cases hg : tabGet T q with
    | none => rw [hg] at h; cases h
    | some row =>
      rw [hg] at h
      have hm := (tabGet_iff hi.1 q row).mp hg
      exact ⟨row, hm, (rowGet_iff (hi.2.1 _ hm) a ts).mp h⟩
  · rintro ⟨row, hm, hf⟩
    rw [(tabGet_iff hi.1 q row).mpr hm]
    exact (rowGet_iff (hi.2.1 _ hm) a ts).mpr hf

theorem mem_edges_iff {det : Bool} {T : Table} (hi : TInv det T) (q r : Nat) (a : Option Nat) :
    (q, a, r) ∈ edges T ↔ ∃ ts, lookup T q a = some ts ∧ r ∈ ts := by
  rw [mem_edges_raw]
  constructor
  · rintro ⟨row, he, ts, hf, hr⟩
    exact ⟨ts, (lookup_iff hi q a ts).mpr ⟨row, he, hf⟩, hr⟩
  · rintro ⟨ts, hl, hr⟩
    obtain ⟨row, he, hf⟩ := (lookup_iff hi q a ts).mp hl
    exact ⟨row, he, ts, hf, hr⟩

/-- with unique keys, two transitions present with the same (state, symbol) come from the same entry -/
theorem same_entry {det : Bool} {T : Table} (hi : TInv det T) {q : Nat} {a : Option Nat}
    {row row' : List (Option Nat × List Nat)} {ts ts' : List Nat}
    (he : (q, row) ∈ T) (hf : (a, ts) ∈ row) (he' : (q, row') ∈ T) (hf' : (a, ts') ∈ row') :
    ts = ts' := by
  have h1 := List.inj_on_of_nodup_map hi.1 he he' rfl
  simp only [Prod.mk.injEq, true_and] at h1
  subst h1
  have h2 := List.inj_on_of_nodup_map (hi.2.1 _ he) hf hf' rfl
  simpa using h2

/-- (2) `get_number_transitions()` counts the transitions present -/
theorem numTransitions_eq (T : Table) :
    numTransitions T = (edges T).length := by
  simp [edges, numTransitions, List.length_flatMap]

/-- (3) `is_deterministic()` of the transition function: at most one target per (state, symbol) among
the transitions present — entries emptied by removals do not count -/
theorem tfDeterministic_iff {det : Bool} {T : Table} (hi : TInv det T) :
    tfDeterministic T = true ↔ Functional (edges T) := by
  simp only [tfDeterministic, List.all_eq_true, decide_eq_true_eq]
  constructor
  · intro h q a r r' h1 h2
    obtain ⟨row, he, ts, hf, hr⟩ := (mem_edges_raw T q r a).mp h1
    obtain ⟨row', he', ts', hf', hr'⟩ := (mem_edges_raw T q r' a).mp h2
    have := same_entry hi he hf he' hf'
    subst this
    have hl := h _ he _ hf
    simp only at hl
    match ts, hl, hr, hr' with
    | [x], _, hr, hr' =>
      simp only [List.mem_singleton] at hr hr'
      rw [hr, hr']
  · intro h e he f hf
    have hn := hi.2.2.1 e he f hf
    match hts : f.2, hn with
    | [], _ => simp
    | [x], _ => simp
    | x :: y :: rest, hn =>
      exfalso
      have hx : (e.1, f.1, x) ∈ edges T :=
        (mem_edges_raw T _ _ _).mpr ⟨e.2, he, f.2, hf, by rw [hts]; simp⟩
      have hy : (e.1, f.1, y) ∈ edges T :=
        (mem_edges_raw T _ _ _).mpr ⟨e.2, he, f.2, hf, by rw [hts]; simp⟩
      have := h _ _ _ _ hx hy
      subst this
      simp at hn

/-- (4) `self._transition_function(q, a)` returns the targets of the transitions present -/
theorem mem_call_iff {det : Bool} {T : Table} (hi : TInv det T) (q r : Nat) (a : Option Nat) :
    r ∈ call T q a ↔ (q, a, r) ∈ edges T := by
  rw [mem_edges_iff hi]
  unfold call
  cases h : lookup T q a with
  | none => simp
  | some ts => simp

/-- (5) a `DeterministicFiniteAutomaton` object stays deterministic and ε-free whatever is done to it -/
theorem det_functional {T : Table} (hi : TInv true T) :
    Functional (edges T) ∧ ∀ t ∈ edges T, t.2.1 ≠ none := by
  constructor
  · intro q a r r' h1 h2
    obtain ⟨row, he, ts, hf, hr⟩ := (mem_edges_raw T q r a).mp h1
    obtain ⟨row', he', ts', hf', hr'⟩ := (mem_edges_raw T q r' a).mp h2
    have := same_entry hi he hf he' hf'
    subst this
    obtain ⟨_, x, hx⟩ := hi.2.2.2 rfl _ he _ hf
    simp only at hx
    subst hx
    simp only [List.mem_singleton] at hr hr'
    rw [hr, hr']
  · rintro ⟨q, a, r⟩ ht
    obtain ⟨row, he, ts, hf, hr⟩ := (mem_edges_raw T q r a).mp ht
    exact (hi.2.2.2 rfl _ he _ hf).1

theorem run_congr {A B : ENFA Nat} (hd : ∀ t, t ∈ A.delta → t ∈ B.delta) {q r : Nat} {w : List Nat}
    (h : A.Run q w r) : B.Run q w r := by
  induction h with
  | nil q => exact .nil q
  | eps h _ ih => exact .eps (hd _ h) ih
  | step h _ ih => exact .step (hd _ h) ih

/-- two values with the same sets accept the same words -/
theorem lang_congr {A B : ENFA Nat} (hs : ∀ q, q ∈ A.starts ↔ q ∈ B.starts)
    (hf : ∀ q, q ∈ A.finals ↔ q ∈ B.finals) (hd : ∀ t, t ∈ A.delta ↔ t ∈ B.delta) (w : List Nat) :
    A.Lang w ↔ B.Lang w := by
  unfold ENFA.Lang
  constructor
  · rintro ⟨s, h1, f, h2, h3⟩
    exact ⟨s, (hs s).mp h1, f, (hf f).mp h2, run_congr (fun t => (hd t).mp) h3⟩
  · rintro ⟨s, h1, f, h2, h3⟩
    exact ⟨s, (hs s).mpr h1, f, (hf f).mpr h2, run_congr (fun t => (hd t).mpr) h3⟩

/-- (6) history independence: two histories that lead to the same sets of start states, final
states and transitions give objects that answer alike — same language, same determinism verdict,
same number of transitions, same successors — whatever was added and removed on the way -/
theorem history_independent (det : Bool) (ops₁ ops₂ : List Op)
    (hs : ∀ q, q ∈ (absRun det absNew ops₁).starts ↔ q ∈ (absRun det absNew ops₂).starts)
    (hf : ∀ q, q ∈ (absRun det absNew ops₁).finals ↔ q ∈ (absRun det absNew ops₂).finals)
    (hd : ∀ t, t ∈ (absRun det absNew ops₁).delta ↔ t ∈ (absRun det absNew ops₂).delta) :
    let o₁ := run (new det) ops₁
    let o₂ := run (new det) ops₂
    (∀ w, (toENFA o₁).Lang w ↔ (toENFA o₂).Lang w) ∧
    tfDeterministic o₁.trans = tfDeterministic o₂.trans ∧
    numTransitions o₁.trans = numTransitions o₂.trans ∧
    ∀ q a r, r ∈ call o₁.trans q a ↔ r ∈ call o₂.trans q a := by
  intro o₁ o₂
  obtain ⟨⟨_, _, hst1, hfi1, hed1, hnd1, _⟩, hi1, _⟩ := run_refines det ops₁
  obtain ⟨⟨_, _, hst2, hfi2, hed2, hnd2, _⟩, hi2, _⟩ := run_refines det ops₂
  have hE : ∀ t, t ∈ edges o₁.trans ↔ t ∈ edges o₂.trans := fun t =>
    (hed1 t).trans ((hd t).trans (hed2 t).symm)
  refine ⟨?_, ?_, ?_, ?_⟩
  · intro w
    apply lang_congr
    · intro q
      show q ∈ o₁.starts ↔ q ∈ o₂.starts
      rw [show o₁.starts = _ from hst1, show o₂.starts = _ from hst2]; exact hs q
    · intro q
      show q ∈ o₁.finals ↔ q ∈ o₂.finals
      rw [show o₁.finals = _ from hfi1, show o₂.finals = _ from hfi2]; exact hf q
    · exact hE
  · rw [Bool.eq_iff_iff, tfDeterministic_iff hi1, tfDeterministic_iff hi2]
    unfold Functional
    constructor
    · intro h q a r r' h1 h2; exact h q a r r' ((hE _).mpr h1) ((hE _).mpr h2)
    · intro h q a r r' h1 h2; exact h q a r r' ((hE _).mp h1) ((hE _).mp h2)
  · rw [numTransitions_eq, numTransitions_eq]
    exact ((List.perm_ext_iff_of_nodup hnd1 hnd2).mpr hE).length_eq
  · intro q a r
    rw [mem_call_iff hi1, mem_call_iff hi2]; exact hE _

end PQ
end FAObj
end Pfl
