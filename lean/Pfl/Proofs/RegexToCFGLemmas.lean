/-
Helper lemmas for C05 (`Regex.to_cfg`): the manufactured node names are pairwise distinct, every
recursive call only defines heads in its own range of names, and the variable standing for a tree
node generates exactly the language denoted by the subtree.
-/
import Pfl.Model.RegexToCFG
import Pfl.Spec.Regex
import Pfl.Proofs.CFGBase
import Pfl.Proofs.CFGClean
import Pfl.Proofs.RegexLemmas
import Std.Data.String.ToNat
namespace Pfl
namespace Rx
namespace TC

open CFG

theorem nodeName_inj {j k : Nat} (h : nodeName j = nodeName k) : j = k := by
  unfold nodeName at h
  have h' := (String.append_right_inj "A").1 h
  exact Nat.repr_injective h'

/-- the heads a call `toCfgAux r cur c` (returning counter `c'`) is allowed to define -/
def Own (cur : String) (c c' : Nat) (h : String) : Prop :=
  h = cur ∨ ∃ k, c ≤ k ∧ k < c' ∧ h = nodeName k

/-- the names `nodeName k` for `lo ≤ k < hi` -/
def Rng (lo hi : Nat) (h : String) : Prop := ∃ k, lo ≤ k ∧ k < hi ∧ h = nodeName k

theorem counter_le (r : Rx) : ∀ (cur : String) (c : Nat), c ≤ (toCfgAux r cur c).2 := by
  induction r with
  | empty => intro cur c; simp [toCfgAux]
  | eps => intro cur c; simp [toCfgAux]
  | sym s => intro cur c; simp [toCfgAux]
  | cat a b iha ihb =>
    intro cur c
    have h1 := iha (nodeName c) (c + 1)
    have h2 := ihb (nodeName (toCfgAux a (nodeName c) (c + 1)).2) ((toCfgAux a (nodeName c) (c + 1)).2 + 1)
    simp only [toCfgAux]
    omega
  | alt a b iha ihb =>
    intro cur c
    have h1 := iha (nodeName c) (c + 1)
    have h2 := ihb (nodeName (toCfgAux a (nodeName c) (c + 1)).2) ((toCfgAux a (nodeName c) (c + 1)).2 + 1)
    simp only [toCfgAux]
    omega
  | star a iha =>
    intro cur c
    have h1 := iha (nodeName c) (c + 1)
    simp only [toCfgAux]
    omega

theorem Own.sub {n : String} {c c' d d' : Nat} {cur h : String}
    (ho : Own n d d' h) (hn : ∃ k, c ≤ k ∧ k < c' ∧ n = nodeName k) (hd : c ≤ d) (hd' : d' ≤ c') :
    Own cur c c' h := by
  rcases ho with rfl | ⟨k, h1, h2, rfl⟩
  · exact Or.inr hn
  · exact Or.inr ⟨k, by omega, by omega, rfl⟩

theorem heads_own (r : Rx) : ∀ (cur : String) (c : Nat), ∀ p ∈ (toCfgAux r cur c).1,
    Own cur c (toCfgAux r cur c).2 p.1 := by
  induction r with
  | empty => intro cur c p hp; simp [toCfgAux] at hp
  | eps => intro cur c p hp; simp [toCfgAux] at hp; subst hp; exact Or.inl rfl
  | sym s => intro cur c p hp; simp [toCfgAux] at hp; subst hp; exact Or.inl rfl
  | cat a b iha ihb =>
    intro cur c p hp
    have l1 := counter_le a (nodeName c) (c + 1)
    have l2 := counter_le b (nodeName (toCfgAux a (nodeName c) (c + 1)).2)
      ((toCfgAux a (nodeName c) (c + 1)).2 + 1)
    simp only [toCfgAux, List.mem_append, List.mem_singleton] at hp ⊢
    rcases hp with (hp | hp) | rfl
    · exact (iha _ _ p hp).sub ⟨c, by omega, by omega, rfl⟩ (by omega) (by omega)
    · exact (ihb _ _ p hp).sub ⟨_, by omega, by omega, rfl⟩ (by omega) (by omega)
    · exact Or.inl rfl
  | alt a b iha ihb =>
    intro cur c p hp
    have l1 := counter_le a (nodeName c) (c + 1)
    have l2 := counter_le b (nodeName (toCfgAux a (nodeName c) (c + 1)).2)
      ((toCfgAux a (nodeName c) (c + 1)).2 + 1)
    simp only [toCfgAux, List.mem_append, List.mem_cons, List.not_mem_nil, or_false] at hp ⊢
    rcases hp with (hp | hp) | rfl | rfl
    · exact (iha _ _ p hp).sub ⟨c, by omega, by omega, rfl⟩ (by omega) (by omega)
    · exact (ihb _ _ p hp).sub ⟨_, by omega, by omega, rfl⟩ (by omega) (by omega)
    · exact Or.inl rfl
    · exact Or.inl rfl
  | star a iha =>
    intro cur c p hp
    have l1 := counter_le a (nodeName c) (c + 1)
    simp only [toCfgAux, List.mem_append, List.mem_cons, List.not_mem_nil, or_false] at hp ⊢
    rcases hp with hp | rfl | rfl | rfl
    · exact (iha _ _ p hp).sub ⟨c, by omega, by omega, rfl⟩ (by omega) (by omega)
    · exact Or.inl rfl
    · exact Or.inl rfl
    · exact Or.inl rfl

theorem own_node {d d' : Nat} {h : String} (ho : Own (nodeName d) (d + 1) d' h) (hd : d + 1 ≤ d') :
    Rng d d' h := by
  rcases ho with rfl | ⟨k, h1, h2, rfl⟩
  · exact ⟨d, by omega, by omega, rfl⟩
  · exact ⟨k, by omega, by omega, rfl⟩

theorem Rng.disjoint {a b c d : Nat} {h : String} (h1 : Rng a b h) (h2 : Rng c d h) (hbc : b ≤ c) :
    False := by
  obtain ⟨k, a1, a2, rfl⟩ := h1
  obtain ⟨j, b1, b2, e⟩ := h2
  have := nodeName_inj e
  omega

theorem Rng.not_cur {cur : String} {c a b : Nat} (hcur : ∀ k, c ≤ k → cur ≠ nodeName k)
    (h : Rng a b cur) (hca : c ≤ a) : False := by
  obtain ⟨k, a1, a2, e⟩ := h
  exact hcur k (by omega) e

/-- heads of a sub-call lie in the range starting at its own node -/
theorem heads_rng (a : Rx) (d : Nat) : ∀ p ∈ (toCfgAux a (nodeName d) (d + 1)).1,
    Rng d (toCfgAux a (nodeName d) (d + 1)).2 p.1 :=
  fun p hp => own_node (heads_own a _ _ p hp) (counter_le a _ _)

/-- the hypothesis "the names of this call are only defined by this call" passes to a sub-call -/
theorem sub_hyps {G : CFG} {cur : String} {c c' : Nat} {L : List Prod} (a : Rx) (d : Nat)
    (hown : ∀ p ∈ G.prods, Own cur c c' p.1 → p ∈ L)
    (hcd : c ≤ d) (hd' : (toCfgAux a (nodeName d) (d + 1)).2 ≤ c')
    (hL : ∀ p ∈ L, p ∈ (toCfgAux a (nodeName d) (d + 1)).1 ∨
      ¬ Rng d (toCfgAux a (nodeName d) (d + 1)).2 p.1) :
    ∀ p ∈ G.prods, Own (nodeName d) (d + 1) (toCfgAux a (nodeName d) (d + 1)).2 p.1 →
      p ∈ (toCfgAux a (nodeName d) (d + 1)).1 := by
  intro p hp ho
  have hr := own_node ho (counter_le a _ _)
  have hown' : Own cur c c' p.1 := by
    obtain ⟨k, h1, h2, e⟩ := hr
    exact Or.inr ⟨k, by omega, by omega, e⟩
  rcases hL p (hown p hp hown') with h | h
  · exact h
  · exact absurd hr h

theorem node_ne {d : Nat} : ∀ k, d + 1 ≤ k → nodeName d ≠ nodeName k := by
  intro k hk e
  have := nodeName_inj e
  omega

theorem star_append {a : Rx} {u v : List String} (hu : Denote (.star a) u) (hv : Denote (.star a) v) :
    Denote (.star a) (u ++ v) := by
  rw [Lem.star_denote] at hu hv ⊢
  obtain ⟨us, rfl, h1⟩ := hu
  obtain ⟨vs, rfl, h2⟩ := hv
  refine ⟨us ++ vs, by simp, ?_⟩
  intro x hx
  rcases List.mem_append.1 hx with h | h
  · exact h1 x h
  · exact h2 x h

/-! ### the semantic step at each kind of node -/

theorem cat_step {G : CFG} {cur n0 n1 : String} {A B : List String → Prop}
    (hA : ∀ w, G.Gen (.var n0) w ↔ A w) (hB : ∀ w, G.Gen (.var n1) w ↔ B w)
    (hcur : ∀ body, (cur, body) ∈ G.prods ↔ body = [.var n0, .var n1]) (w : List String) :
    G.Gen (.var cur) w ↔ ∃ u v, w = u ++ v ∧ A u ∧ B v := by
  rw [gen_var_iff]
  constructor
  · rintro ⟨body, hp, hb⟩
    rw [hcur] at hp
    subst hp
    obtain ⟨u, v, rfl, hu, hv⟩ := genList_cons_iff.1 hb
    exact ⟨u, v, rfl, (hA u).1 hu, (hB v).1 (genList_singleton.1 hv)⟩
  · rintro ⟨u, v, rfl, hu, hv⟩
    exact ⟨_, (hcur _).2 rfl, .cons ((hA u).2 hu) (genList_singleton.2 ((hB v).2 hv))⟩

theorem alt_step {G : CFG} {cur n0 n1 : String} {A B : List String → Prop}
    (hA : ∀ w, G.Gen (.var n0) w ↔ A w) (hB : ∀ w, G.Gen (.var n1) w ↔ B w)
    (hcur : ∀ body, (cur, body) ∈ G.prods ↔ body = [.var n0] ∨ body = [.var n1]) (w : List String) :
    G.Gen (.var cur) w ↔ A w ∨ B w := by
  rw [gen_var_iff]
  constructor
  · rintro ⟨body, hp, hb⟩
    rw [hcur] at hp
    rcases hp with rfl | rfl
    · exact Or.inl ((hA w).1 (genList_singleton.1 hb))
    · exact Or.inr ((hB w).1 (genList_singleton.1 hb))
  · rintro (h | h)
    · exact ⟨_, (hcur _).2 (Or.inl rfl), genList_singleton.2 ((hA w).2 h)⟩
    · exact ⟨_, (hcur _).2 (Or.inr rfl), genList_singleton.2 ((hB w).2 h)⟩

theorem star_step {G : CFG} {cur n0 : String} {a : Rx}
    (hA : ∀ w, G.Gen (.var n0) w ↔ Denote a w)
    (hcur : ∀ body, (cur, body) ∈ G.prods ↔
      body = [] ∨ body = [.var cur, .var cur] ∨ body = [.var n0]) (w : List String) :
    G.Gen (.var cur) w ↔ Denote (.star a) w := by
  constructor
  · have key := (Clean.gen_ind (G := G)
      (P := fun s w => s = .var cur → Denote (.star a) w)
      (Q := fun u w => (∀ s ∈ u, s = Sym.var cur) → Denote (.star a) w)
      (by intro t h; cases h)
      (by
        intro h body w hp hb ih e
        cases e
        rcases (hcur body).1 hp with rfl | rfl | rfl
        · rw [genList_nil_iff.1 hb]; exact .starNil
        · exact ih (by simp)
        · have := Denote.starCons ((hA w).1 (genList_singleton.1 hb)) .starNil
          simpa using this)
      (by intro _; exact .starNil)
      (by
        intro s u w₁ w₂ _ _ ih₁ ih₂ hall
        exact star_append (ih₁ (hall s (by simp))) (ih₂ fun x hx => hall x (by simp [hx])))).1
    exact fun h => key _ _ h rfl
  · intro h
    obtain ⟨ws, rfl, hws⟩ := (Lem.star_denote a w).1 h
    clear h
    induction ws with
    | nil => exact gen_var_iff.2 ⟨[], (hcur _).2 (Or.inl rfl), .nil⟩
    | cons x ws ih =>
      have h1 : G.Gen (.var cur) x :=
        gen_var_iff.2 ⟨_, (hcur _).2 (Or.inr (Or.inr rfl)),
          genList_singleton.2 ((hA x).2 (hws x (by simp)))⟩
      have h2 := ih (fun y hy => hws y (by simp [hy]))
      refine gen_var_iff.2 ⟨_, (hcur _).2 (Or.inr (Or.inl rfl)), ?_⟩
      simpa using GenList.cons h1 (genList_singleton.2 h2)

/-! ### bookkeeping: the hypotheses of the main lemma pass to the sons -/

/-- bookkeeping for a node with two sons -/
theorem bin_hyps {G : CFG} {cur : String} {c : Nat} (a b : Rx) (top : List Prod)
    (hcur : ∀ k, c ≤ k → cur ≠ nodeName k)
    (hsub : ∀ p ∈ (toCfgAux a (nodeName c) (c + 1)).1 ++
      (toCfgAux b (nodeName (toCfgAux a (nodeName c) (c + 1)).2)
        ((toCfgAux a (nodeName c) (c + 1)).2 + 1)).1 ++ top, p ∈ G.prods)
    (hown : ∀ p ∈ G.prods, Own cur c (toCfgAux b (nodeName (toCfgAux a (nodeName c) (c + 1)).2)
        ((toCfgAux a (nodeName c) (c + 1)).2 + 1)).2 p.1 →
      p ∈ (toCfgAux a (nodeName c) (c + 1)).1 ++
      (toCfgAux b (nodeName (toCfgAux a (nodeName c) (c + 1)).2)
        ((toCfgAux a (nodeName c) (c + 1)).2 + 1)).1 ++ top)
    (htop : ∀ p ∈ top, p.1 = cur) :
    ((∀ p ∈ (toCfgAux a (nodeName c) (c + 1)).1, p ∈ G.prods) ∧
      (∀ p ∈ G.prods, Own (nodeName c) (c + 1) (toCfgAux a (nodeName c) (c + 1)).2 p.1 →
        p ∈ (toCfgAux a (nodeName c) (c + 1)).1)) ∧
    ((∀ p ∈ (toCfgAux b (nodeName (toCfgAux a (nodeName c) (c + 1)).2)
        ((toCfgAux a (nodeName c) (c + 1)).2 + 1)).1, p ∈ G.prods) ∧
      (∀ p ∈ G.prods, Own (nodeName (toCfgAux a (nodeName c) (c + 1)).2)
        ((toCfgAux a (nodeName c) (c + 1)).2 + 1)
        (toCfgAux b (nodeName (toCfgAux a (nodeName c) (c + 1)).2)
          ((toCfgAux a (nodeName c) (c + 1)).2 + 1)).2 p.1 →
        p ∈ (toCfgAux b (nodeName (toCfgAux a (nodeName c) (c + 1)).2)
          ((toCfgAux a (nodeName c) (c + 1)).2 + 1)).1)) ∧
    ∀ body, (cur, body) ∈ G.prods ↔ (cur, body) ∈ top := by
  have l1 := counter_le a (nodeName c) (c + 1)
  have l2 := counter_le b (nodeName (toCfgAux a (nodeName c) (c + 1)).2)
    ((toCfgAux a (nodeName c) (c + 1)).2 + 1)
  have HA := heads_rng a c
  have HB := heads_rng b (toCfgAux a (nodeName c) (c + 1)).2
  refine ⟨⟨fun p hp => hsub p (by simp [hp]), ?_⟩, ⟨fun p hp => hsub p (by simp [hp]), ?_⟩, ?_⟩
  · refine sub_hyps a c hown (Nat.le_refl _) (by omega) ?_
    intro p hp
    rcases List.mem_append.1 hp with hp | hp
    · rcases List.mem_append.1 hp with hp | hp
      · exact Or.inl hp
      · exact Or.inr fun hr => hr.disjoint (HB p hp) (Nat.le_refl _)
    · exact Or.inr fun hr => Rng.not_cur hcur (htop p hp ▸ hr) (Nat.le_refl _)
  · refine sub_hyps b _ hown (by omega) (Nat.le_refl _) ?_
    intro p hp
    rcases List.mem_append.1 hp with hp | hp
    · rcases List.mem_append.1 hp with hp | hp
      · exact Or.inr fun hr => (HA p hp).disjoint hr (Nat.le_refl _)
      · exact Or.inl hp
    · exact Or.inr fun hr => Rng.not_cur hcur (htop p hp ▸ hr) (by omega)
  · intro body
    constructor
    · intro hp
      have := hown _ hp (Or.inl rfl)
      rcases List.mem_append.1 this with hp | hp
      · rcases List.mem_append.1 hp with hp | hp
        · exact (Rng.not_cur hcur (HA _ hp) (Nat.le_refl _)).elim
        · exact (Rng.not_cur hcur (HB _ hp) (by omega)).elim
      · exact hp
    · intro hp; exact hsub _ (by simp [hp])

/-- bookkeeping for a node with one son -/
theorem un_hyps {G : CFG} {cur : String} {c : Nat} (a : Rx) (top : List Prod)
    (hcur : ∀ k, c ≤ k → cur ≠ nodeName k)
    (hsub : ∀ p ∈ (toCfgAux a (nodeName c) (c + 1)).1 ++ top, p ∈ G.prods)
    (hown : ∀ p ∈ G.prods, Own cur c (toCfgAux a (nodeName c) (c + 1)).2 p.1 →
      p ∈ (toCfgAux a (nodeName c) (c + 1)).1 ++ top)
    (htop : ∀ p ∈ top, p.1 = cur) :
    ((∀ p ∈ (toCfgAux a (nodeName c) (c + 1)).1, p ∈ G.prods) ∧
      (∀ p ∈ G.prods, Own (nodeName c) (c + 1) (toCfgAux a (nodeName c) (c + 1)).2 p.1 →
        p ∈ (toCfgAux a (nodeName c) (c + 1)).1)) ∧
    ∀ body, (cur, body) ∈ G.prods ↔ (cur, body) ∈ top := by
  have HA := heads_rng a c
  refine ⟨⟨fun p hp => hsub p (by simp [hp]), ?_⟩, ?_⟩
  · refine sub_hyps a c hown (Nat.le_refl _) (Nat.le_refl _) ?_
    intro p hp
    rcases List.mem_append.1 hp with hp | hp
    · exact Or.inl hp
    · exact Or.inr fun hr => Rng.not_cur hcur (htop p hp ▸ hr) (Nat.le_refl _)
  · intro body
    constructor
    · intro hp
      have := hown _ hp (Or.inl rfl)
      rcases List.mem_append.1 this with hp | hp
      · exact (Rng.not_cur hcur (HA _ hp) (Nat.le_refl _)).elim
      · exact hp
    · intro hp; exact hsub _ (by simp [hp])

/-! ### main lemma -/

/-- In any grammar that contains the productions of the call `toCfgAux r cur c` and defines the
names of this call by nothing else, the variable `cur` generates the language of `r`. -/
theorem gen_iff (r : Rx) : ∀ (G : CFG) (cur : String) (c : Nat),
    (∀ k, c ≤ k → cur ≠ nodeName k) →
    (∀ p ∈ (toCfgAux r cur c).1, p ∈ G.prods) →
    (∀ p ∈ G.prods, Own cur c (toCfgAux r cur c).2 p.1 → p ∈ (toCfgAux r cur c).1) →
    ∀ w, G.Gen (.var cur) w ↔ Denote r w := by
  induction r with
  | empty =>
    intro G cur c hcur hsub hown w
    constructor
    · intro h
      obtain ⟨body, hp, _⟩ := gen_var_iff.1 h
      have := hown _ hp (Or.inl rfl)
      simp [toCfgAux] at this
    · intro h; cases h
  | eps =>
    intro G cur c hcur hsub hown w
    constructor
    · intro h
      obtain ⟨body, hp, hb⟩ := gen_var_iff.1 h
      have := hown _ hp (Or.inl rfl)
      simp only [toCfgAux, List.mem_singleton, Prod.mk.injEq, true_and] at this
      subst this
      rw [genList_nil_iff.1 hb]
      exact .eps
    · intro h; cases h
      exact gen_var_iff.2 ⟨[], hsub _ (by simp [toCfgAux]), .nil⟩
  | sym s =>
    intro G cur c hcur hsub hown w
    constructor
    · intro h
      obtain ⟨body, hp, hb⟩ := gen_var_iff.1 h
      have := hown _ hp (Or.inl rfl)
      simp only [toCfgAux, List.mem_singleton, Prod.mk.injEq, true_and] at this
      subst this
      rw [genList_singleton, gen_ter_iff] at hb
      subst hb
      exact .sym s
    · intro h; cases h
      refine gen_var_iff.2 ⟨[.ter s], hsub _ (by simp [toCfgAux]), ?_⟩
      exact genList_singleton.2 (.ter s)
  | cat a b iha ihb =>
    intro G cur c hcur hsub hown w
    simp only [toCfgAux] at hsub hown
    obtain ⟨⟨a1, a2⟩, ⟨b1, b2⟩, ht⟩ := bin_hyps a b _ hcur hsub hown (by simp)
    rw [Lem.cat_denote]
    refine cat_step (iha G _ _ node_ne a1 a2) (ihb G _ _ node_ne b1 b2) ?_ w
    intro body; rw [ht]; simp
  | alt a b iha ihb =>
    intro G cur c hcur hsub hown w
    simp only [toCfgAux] at hsub hown
    obtain ⟨⟨a1, a2⟩, ⟨b1, b2⟩, ht⟩ := bin_hyps a b _ hcur hsub hown (by simp)
    rw [Lem.alt_denote]
    refine alt_step (iha G _ _ node_ne a1 a2) (ihb G _ _ node_ne b1 b2) ?_ w
    intro body; rw [ht]; simp
  | star a iha =>
    intro G cur c hcur hsub hown w
    simp only [toCfgAux] at hsub hown
    obtain ⟨⟨a1, a2⟩, ht⟩ := un_hyps a _ hcur hsub hown (by simp)
    refine star_step (iha G _ _ node_ne a1 a2) ?_ w
    intro body; rw [ht]; simp

end TC
end Rx
end Pfl
