/-
C17 (library loop), soundness half: every set the library marks is a valid implication
(`Lem.Good`), the table only grows, and a call asks to stop only when the language is non-empty.
-/
import Pfl.Proofs.IndexedMark

namespace Pfl.IG.LibP
open Pfl Pfl.IG Pfl.IG.Lib Pfl.IG.Lem

/-- an iteration order keeps the members of the set -/
def OrdOK (ord : List SetS → List SetS) : Prop := ∀ l x, x ∈ ord l ↔ x ∈ l

theorem ordOK_id : OrdOK id := fun _ _ => Iff.rfl

/-- every mark of the table is a valid implication -/
def GoodT (G : IG) (T : Table) : Prop := ∀ a E, E ∈ get T a → Good G (a, E)

theorem good_add {G : IG} {T : Table} {a : String} {E : SetS} (hT : GoodT G T)
    (hE : Good G (a, E)) : GoodT G (add T a E) := by
  intro a' E' h
  rcases mem_get_add.mp h with h | ⟨rfl, rfl⟩
  · exact hT _ _ h
  · exact hE

theorem good_addAll {G : IG} {T : Table} {a : String} {l : List SetS} (hT : GoodT G T)
    (hl : ∀ E ∈ l, Good G (a, E)) : GoodT G (addAll T a l) := by
  intro a' E' h
  rcases (mem_get_addAll l).mp h with h' | ⟨rfl, h'⟩
  · exact hT _ _ h'
  · exact hl _ h'

theorem nonEmpty_of_good {G : IG} (h : Good G (G.start, [])) : G.NonEmpty :=
  h [] (fun _ hb => by cases hb)

theorem good_dup {G : IG} {a b c : String} {E0 E1 : SetS} (hr : IRule.dup a b c ∈ G.rules)
    (h0 : Good G (b, E0)) (h1 : Good G (c, E1)) : Good G (a, dupTemp E0 E1) := by
  intro σ hσ
  obtain ⟨s0, s1⟩ := dupTemp_sup E0 E1
  exact .dup hr (h0 σ fun x hx => hσ x (s0 x hx)) (h1 σ fun x hx => hσ x (s1 x hx))

/-! ### `_duplication_processing` -/

structure DupInv (G : IG) (T0 : Table) (b c : String) (st : DupSt) : Prop where
  sub : Sub T0 st.T
  good : GoodT G st.T
  g0 : ∀ E ∈ st.d0, Good G (b, E)
  g1 : ∀ E ∈ st.d1, Good G (c, E)
  stop : st.stop = true → G.NonEmpty

theorem dupInner_inv {G : IG} {T0 : Table} {a b c : String} {E0 E1 : SetS} {st : DupSt}
    (hr : IRule.dup a b c ∈ G.rules) (h0 : Good G (b, E0)) (h1 : Good G (c, E1))
    (hst : DupInv G T0 b c st) : DupInv G T0 b c (dupInner G.start a b c E0 st E1) := by
  have hg := good_dup hr h0 h1
  have hstop : (st.stop || (a == G.start && (dupTemp E0 E1).isEmpty)) = true → G.NonEmpty := by
    intro h
    simp only [Bool.or_eq_true, Bool.and_eq_true, beq_iff_eq, List.isEmpty_iff] at h
    rcases h with h | ⟨rfl, h⟩
    · exact hst.stop h
    · rw [h] at hg; exact nonEmpty_of_good hg
  unfold dupInner
  simp only []
  split
  · exact hst
  · split
    · rename_i hab
      subst hab
      refine ⟨hst.sub, hst.good, ?_, hst.g1, hstop⟩
      intro E hE
      rcases List.mem_append.mp hE with hE | hE
      · exact hst.g0 E hE
      · simp only [List.mem_singleton] at hE; subst hE; exact hg
    · split
      · rename_i hac
        subst hac
        refine ⟨hst.sub, hst.good, hst.g0, ?_, hstop⟩
        intro E hE
        rcases List.mem_append.mp hE with hE | hE
        · exact hst.g1 E hE
        · simp only [List.mem_singleton] at hE; subst hE; exact hg
      · exact ⟨hst.sub.trans (sub_add _ _ _), good_add hst.good hg, hst.g0, hst.g1, hstop⟩

theorem dupOuter_inv {G : IG} {ord : List SetS → List SetS} (hord : OrdOK ord) {T0 : Table}
    {a b c : String} {E0 : SetS} {st : DupSt}
    (hr : IRule.dup a b c ∈ G.rules) (h0 : Good G (b, E0))
    (hst : DupInv G T0 b c st) : DupInv G T0 b c (dupOuter ord G.start a b c st E0) := by
  unfold dupOuter
  simp only []
  have hinit : DupInv G T0 b c { st with d1 := [] } :=
    ⟨hst.sub, hst.good, hst.g0, (fun _ h => by cases h), hst.stop⟩
  have h1 : DupInv G T0 b c
      ((ord (get st.T c)).foldl (dupInner G.start a b c E0) { st with d1 := [] }) := by
    refine foldl_inv (DupInv G T0 b c) _ _ ?_ _ hinit
    intro S E1 hE1 hS
    exact dupInner_inv hr h0 (hst.good _ _ ((hord _ _).mp hE1)) hS
  exact ⟨h1.sub.trans (sub_addAll _ _ _), good_addAll h1.good h1.g1, h1.g0,
    (fun _ h => by cases h), h1.stop⟩

theorem dupProcess_sound {G : IG} {ord : List SetS → List SetS} (hord : OrdOK ord) {T : Table}
    {a b c : String} (hr : IRule.dup a b c ∈ G.rules) (hT : GoodT G T) :
    Sub T (dupProcess ord G.start a b c T).1 ∧ GoodT G (dupProcess ord G.start a b c T).1 ∧
      ((dupProcess ord G.start a b c T).2.2 = true → G.NonEmpty) := by
  unfold dupProcess
  simp only []
  have hinit : DupInv G T b c ⟨T, [], [], false, false⟩ :=
    ⟨Sub.refl T, hT, (fun _ h => by cases h), (fun _ h => by cases h), (fun h => by cases h)⟩
  have h1 : DupInv G T b c
      ((ord (get T b)).foldl (dupOuter ord G.start a b c) ⟨T, [], [], false, false⟩) := by
    refine foldl_inv (DupInv G T b c) _ _ ?_ _ hinit
    intro S E0 hE0 hS
    exact dupOuter_inv hord hr (hT _ _ ((hord _ _).mp hE0)) hS
  exact ⟨h1.sub.trans (sub_addAll _ _ _), good_addAll h1.good h1.g0, h1.stop⟩

/-! ### `_production_process` -/

/-- a leaf of `addrec_ter` for a set `E` marked for `b` is a valid mark for `a` -/
theorem good_leaf {G : IG} {T : Table} {a b f : String} {E t : SetS}
    {lt : List (String × String)}
    (hr : IRule.prod a b f ∈ G.rules) (hT : GoodT G T) (hE : Good G (b, E))
    (hlt : ∀ x ∈ lt, x ∈ consRules G f)
    (hall : ∀ c ∈ E, c ∈ lt.map (·.1))
    (ht : t ∈ leavesOf (choicesOf T lt)) : Good G (a, t) := by
  intro σ hσ
  refine .prod hr (hE (f :: σ) ?_)
  intro C hC
  obtain ⟨d, m, hd, hm, hsub⟩ := leavesOf_sound ht C (hall C hC)
  have hcr := mem_consRules.mp (hlt _ hd)
  exact .cons hcr (hT _ _ hm σ fun x hx => hσ x (hsub x hx))

theorem addrecTer_sound {G : IG} {T0 T : Table} {a : String}
    (leaves : List SetS) (hl : ∀ t ∈ leaves, Good G (a, t)) (hsub : Sub T0 T) (hT : GoodT G T)
    (res : Bool) :
    Sub T0 (leaves.foldl (fun (st : Table × Bool) t =>
        if t ∈ get st.1 a then st else (add st.1 a t, true)) (T, res)).1 ∧
    GoodT G (leaves.foldl (fun (st : Table × Bool) t =>
        if t ∈ get st.1 a then st else (add st.1 a t, true)) (T, res)).1 := by
  refine foldl_inv (fun (st : Table × Bool) => Sub T0 st.1 ∧ GoodT G st.1) _ _ ?_ _ ⟨hsub, hT⟩
  intro S t ht ⟨hS1, hS2⟩
  split
  · exact ⟨hS1, hS2⟩
  · exact ⟨hS1.trans (sub_add _ _ _), good_add hS2 (hl t ht)⟩

theorem addrecBisStep_sound {G : IG} {T0 : Table} {a b f : String} {E : SetS}
    {st : Table × Bool} (hr : IRule.prod a b f ∈ G.rules) (hE : Good G (b, E))
    (hsub : Sub T0 st.1) (hT : GoodT G st.1) :
    Sub T0 (addrecBisStep (consRules G f) a st E).1 ∧
      GoodT G (addrecBisStep (consRules G f) a st E).1 := by
  unfold addrecBisStep
  simp only []
  split
  · rename_i hcond
    simp only [Bool.and_eq_true, List.all_eq_true, List.any_eq_true, decide_eq_true_eq] at hcond
    unfold addrecTer
    apply addrecTer_sound _ _ hsub hT
    intro t ht
    refine good_leaf hr hT hE (fun x hx => (List.mem_filter.mp hx).1) ?_ ht
    intro c hc
    obtain ⟨x, hx, rfl⟩ := hcond.1 c hc
    exact List.mem_map.mpr ⟨x, hx, rfl⟩
  · exact ⟨hsub, hT⟩

theorem addrecBis_sound {G : IG} {ord : List SetS → List SetS} (hord : OrdOK ord) {T : Table}
    {a b f : String} (hr : IRule.prod a b f ∈ G.rules) (hT : GoodT G T) :
    Sub T (addrecBis ord T (consRules G f) a b).1 ∧
      GoodT G (addrecBis ord T (consRules G f) a b).1 := by
  unfold addrecBis
  refine foldl_inv (fun (st : Table × Bool) => Sub T st.1 ∧ GoodT G st.1) _ _ ?_ _
    ⟨Sub.refl T, hT⟩
  intro S E hE ⟨hS1, hS2⟩
  exact addrecBisStep_sound hr (hT _ _ ((hord _ _).mp hE)) hS1 hS2

/-- invariant of the 'is it useful' loops -/
def UseInv (G : IG) (T0 : Table) (st : Table × Bool × Bool) : Prop :=
  Sub T0 st.1 ∧ GoodT G st.1 ∧ (st.2.2 = true → G.NonEmpty)

theorem usefulInner_inv {G : IG} {T0 : Table} {a : String} {sub : SetS}
    {st : Table × Bool × Bool} (hg : Good G (a, sub)) (hst : UseInv G T0 st) :
    UseInv G T0 (usefulInner G.start a st sub) := by
  unfold usefulInner
  split
  · exact hst
  · refine ⟨hst.1.trans (sub_add _ _ _), good_add hst.2.1 hg, ?_⟩
    intro h
    simp only [Bool.and_eq_true, beq_iff_eq, List.isEmpty_iff] at h
    obtain ⟨rfl, h⟩ := h
    rw [h] at hg; exact nonEmpty_of_good hg

theorem good_useful {G : IG} {a b f d : String} {sub : SetS}
    (hr : IRule.prod a b f ∈ G.rules) (hc : IRule.cons f b d ∈ G.rules)
    (hg : Good G (d, sub)) : Good G (a, sub) := by
  intro σ hσ
  exact .prod hr (.cons hc (hg σ hσ))

theorem usefulOuter_inv {G : IG} {ord : List SetS → List SetS} (hord : OrdOK ord) {T0 : Table}
    {a b f : String} {x : String × String} {st : Table × Bool × Bool}
    (hr : IRule.prod a b f ∈ G.rules) (hc : IRule.cons f b x.2 ∈ G.rules)
    (hst : UseInv G T0 st) : UseInv G T0 (usefulOuter ord G.start a st x) := by
  unfold usefulOuter
  split
  · exact hst
  · refine foldl_inv (UseInv G T0) _ _ ?_ _ hst
    intro S sub hsub hS
    have hm := (hord _ _).mp (List.mem_filter.mp hsub).1
    exact usefulInner_inv (good_useful hr hc (hst.2.1 _ _ hm)) hS

theorem good_edge {G : IG} {a b f : String} (hr : IRule.prod a b f ∈ G.rules)
    (hg : Good G (b, [])) : Good G (a, []) := by
  intro σ _
  exact .prod hr (hg (f :: σ) (fun _ h => by cases h))

/-- the 'is it useful' branch as a function of the result of `addrec_bis` -/
def usefulPart (ord : List SetS → List SetS) (G : IG) (a b f : String) (r1 : Table × Bool) :
    Table × Bool × Bool :=
  if (consRules G f).any (fun x => x.1 = b) then
    ((consRules G f).filter fun x => b = x.1).foldl (usefulOuter ord G.start a) (r1.1, r1.2, false)
  else (r1.1, r1.2, false)

/-- the end of `_production_process` as a function of the state after the 'is it useful' branch -/
def edgePart (a b : String) (r2 : Table × Bool × Bool) : Table × Bool × Bool :=
  if r2.2.2 then r2 else
  if [] ∈ get r2.1 b ∧ ¬ [] ∈ get r2.1 a then (add r2.1 a [], true, false)
  else (r2.1, r2.2.1, false)

theorem prodProcess_eq (ord : List SetS → List SetS) (G : IG) (a b f : String) (T : Table) :
    prodProcess ord G a b f T =
      if [] ∈ get (addrecBis ord T (consRules G f) a b).1 G.start then
        ((addrecBis ord T (consRules G f) a b).1, (addrecBis ord T (consRules G f) a b).2, true)
      else edgePart a b (usefulPart ord G a b f (addrecBis ord T (consRules G f) a b)) := rfl

theorem usefulPart_inv {G : IG} {ord : List SetS → List SetS} (hord : OrdOK ord) {T : Table}
    {a b f : String} (hr : IRule.prod a b f ∈ G.rules) {r1 : Table × Bool}
    (h1s : Sub T r1.1) (h1g : GoodT G r1.1) : UseInv G T (usefulPart ord G a b f r1) := by
  have hinit : UseInv G T (r1.1, r1.2, false) := ⟨h1s, h1g, (fun h => by cases h)⟩
  unfold usefulPart
  split
  · refine foldl_inv (UseInv G T) _ _ ?_ _ hinit
    intro S x hx hS
    obtain ⟨hx1, hx2⟩ := List.mem_filter.mp hx
    simp only [decide_eq_true_eq] at hx2
    have hc : IRule.cons f b x.2 ∈ G.rules := by
      apply mem_consRules.mp
      rw [hx2]; exact hx1
    exact usefulOuter_inv hord hr hc hS
  · exact hinit

theorem edgePart_inv {G : IG} {T : Table} {a b f : String} (hr : IRule.prod a b f ∈ G.rules)
    {r2 : Table × Bool × Bool} (h2 : UseInv G T r2) : UseInv G T (edgePart a b r2) := by
  unfold edgePart
  split
  · exact h2
  · split
    · rename_i hedge
      exact ⟨h2.1.trans (sub_add _ _ _), good_add h2.2.1 (good_edge hr (h2.2.1 _ _ hedge.1)),
        (fun h => by cases h)⟩
    · exact ⟨h2.1, h2.2.1, (fun h => by cases h)⟩

theorem prodProcess_sound {G : IG} {ord : List SetS → List SetS} (hord : OrdOK ord) {T : Table}
    {a b f : String} (hr : IRule.prod a b f ∈ G.rules) (hT : GoodT G T) :
    Sub T (prodProcess ord G a b f T).1 ∧ GoodT G (prodProcess ord G a b f T).1 ∧
      ((prodProcess ord G a b f T).2.2 = true → G.NonEmpty) := by
  obtain ⟨h1s, h1g⟩ := addrecBis_sound hord hr hT
  rw [prodProcess_eq]
  split
  · rename_i hstop
    exact ⟨h1s, h1g, fun _ => nonEmpty_of_good (h1g _ _ hstop)⟩
  · exact edgePart_inv hr (usefulPart_inv hord hr h1s h1g)

/-! ### one rule, one pass -/

theorem ruleProcess_sound {G : IG} {ord : List SetS → List SetS} (hord : OrdOK ord) {T : Table}
    {r : IRule} (hr : r ∈ G.rules) (hT : GoodT G T) :
    Sub T (ruleProcess ord G r T).1 ∧ GoodT G (ruleProcess ord G r T).1 ∧
      ((ruleProcess ord G r T).2.2 = true → G.NonEmpty) := by
  cases r with
  | dup a b c => exact dupProcess_sound hord hr hT
  | prod a b f => exact prodProcess_sound hord hr hT
  | end_ a t => exact ⟨Sub.refl T, hT, (fun h => by cases h)⟩
  | cons f a b => exact ⟨Sub.refl T, hT, (fun h => by cases h)⟩

theorem pass_sound {G : IG} {ord : List SetS → List SetS} (hord : OrdOK ord) (rs : List IRule)
    (hrs : ∀ r ∈ rs, r ∈ G.rules) : ∀ (T : Table) (mod : Bool), GoodT G T →
    Sub T (pass ord G rs T mod).1 ∧ GoodT G (pass ord G rs T mod).1 ∧
      ((pass ord G rs T mod).2.2 = true → G.NonEmpty) := by
  induction rs with
  | nil => intro T mod hT; exact ⟨Sub.refl T, hT, (fun h => by cases h)⟩
  | cons r rs ih =>
    intro T mod hT
    obtain ⟨h1, h2, h3⟩ := ruleProcess_sound hord (hrs r List.mem_cons_self) hT
    unfold pass
    simp only []
    split
    · rename_i hstop
      exact ⟨h1, h2, fun _ => h3 hstop⟩
    · obtain ⟨h4, h5, h6⟩ := ih (fun r hr => hrs r (List.mem_cons_of_mem _ hr))
        (ruleProcess ord G r T).1 (mod || (ruleProcess ord G r T).2.1) h2
      exact ⟨h1.trans h4, h5, h6⟩

/-! ### `__init__` -/

theorem get_map_single (l : List String) (a : String) :
    get (l.map fun a => (a, [[a]])) a = if a ∈ l then [[a]] else [] := by
  induction l with
  | nil => simp [Lib.get]
  | cons x l ih =>
    simp only [List.map_cons, Lib.get, ih, List.mem_cons]
    by_cases h : x = a
    · subst h; simp
    · have h' : ¬ a = x := fun e => h e.symm
      simp [h, h']

theorem mem_get_initTable {G : IG} {a : String} {E : SetS} :
    E ∈ get (initTable G) a ↔
      (a ∈ G.nonTerminals ∧ E = [a]) ∨ (a ∈ G.nonTerminals ∧ hasEnd G a = true ∧ E = []) := by
  unfold initTable
  generalize hT0 : (G.nonTerminals.map fun a => (a, [[a]])) = T0
  have hbase : ∀ a E, E ∈ get T0 a ↔ (a ∈ G.nonTerminals ∧ E = [a]) := by
    intro a E
    rw [← hT0, get_map_single]
    split <;> simp_all
  have key : ∀ (l : List String) (T : Table),
      E ∈ get (l.foldl (fun T a => if hasEnd G a then add T a [] else T) T) a ↔
        E ∈ get T a ∨ (a ∈ l ∧ hasEnd G a = true ∧ E = []) := by
    intro l
    induction l with
    | nil => intro T; simp
    | cons x l ih =>
      intro T
      rw [List.foldl_cons, ih]
      by_cases hx : hasEnd G x = true
      · simp only [hx, if_true, mem_get_add, List.mem_cons]
        constructor
        · rintro ((h | ⟨rfl, rfl⟩) | h)
          · exact Or.inl h
          · exact Or.inr ⟨Or.inl rfl, hx, rfl⟩
          · exact Or.inr ⟨Or.inr h.1, h.2⟩
        · rintro (h | ⟨rfl | h, h2, h3⟩)
          · exact Or.inl (Or.inl h)
          · exact Or.inl (Or.inr ⟨rfl, h3⟩)
          · exact Or.inr ⟨h, h2, h3⟩
      · simp only [hx, List.mem_cons]
        constructor
        · rintro (h | h)
          · exact Or.inl h
          · exact Or.inr ⟨Or.inr h.1, h.2⟩
        · rintro (h | ⟨rfl | h, h2, h3⟩)
          · exact Or.inl h
          · exact absurd h2 hx
          · exact Or.inr ⟨h, h2, h3⟩
  rw [key, hbase]

theorem hasEnd_iff {G : IG} {a : String} : hasEnd G a = true ↔ ∃ t, IRule.end_ a t ∈ G.rules := by
  unfold hasEnd
  rw [List.any_eq_true]
  constructor
  · rintro ⟨r, hr, h⟩
    cases r with
    | end_ a' t => simp only [decide_eq_true_eq] at h; subst h; exact ⟨t, hr⟩
    | prod _ _ _ => cases h
    | cons _ _ _ => cases h
    | dup _ _ _ => cases h
  · rintro ⟨t, ht⟩
    exact ⟨_, ht, by simp⟩

theorem initTable_good (G : IG) : GoodT G (initTable G) := by
  intro a E h σ hσ
  rcases mem_get_initTable.mp h with ⟨_, rfl⟩ | ⟨_, he, rfl⟩
  · exact hσ a (by simp)
  · obtain ⟨t, ht⟩ := hasEnd_iff.mp he
    exact .end_ ht

end Pfl.IG.LibP
