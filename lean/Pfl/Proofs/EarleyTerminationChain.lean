/-
Termination of the Earley model (C18), part 3: the loop of a column ends.  Generic in the invariant
`I`: whatever is kept by `advance`, the scanner push, the predicted pushes and bounds the number of
processed states of a column by `Bnd` makes every `while chart[i]` loop end within `Bnd + 1` pops.
-/
import Pfl.Proofs.EarleyTerminationTables
namespace Pfl
namespace Earley
namespace Term
open FsDag FsDag.Lem Lem Cmp

/-- an invariant of the tables (with the rank function of the store and a list of tracked states)
that the primitive steps of the recogniser keep and that bounds the processed columns -/
structure Chain (C : Ctx) (I : Tables → (Nat → Nat) → List (Nat × EState) → Prop) (Bnd : Nat) :
    Prop where
  weaken : ∀ {T : Tables} {rk : Nat → Nat} {X X' : List (Nat × EState)}, I T rk X →
    (∀ e ∈ X', e ∈ X) → I T rk X'
  withProc : ∀ {T : Tables} {rk : Nat → Nat} {X : List (Nat × EState)}, I T rk X → ∀ j,
    I T rk (X ++ (procStates T j).map fun nx => (j, nx))
  pop : ∀ {T : Tables} {rk : Nat → Nat} {i : Nat} {s : EState}, I T rk [] → s ∈ colGet T.chart i →
    I (popT T i) rk [(i, s)]
  lens : ∀ {T : Tables} {rk : Nat → Nat} {X : List (Nat × EState)}, I T rk X →
    T.chart.length = C.word.length + 1 ∧ T.processed.length = C.word.length + 1
  eeq : ∀ {T : Tables} {rk : Nat → Nat} {X : List (Nat × EState)}, I T rk X → ∀ e ∈ X, e.2.e = e.1
  adv : ∀ {T : Tables} {rk : Nat → Nat} {X : List (Nat × EState)} {i : Nat} {c nx : EState},
    I T rk X → (i, c) ∈ X → (c.b, nx) ∈ X → i < C.word.length + 1 → incomplete C.G c = false →
    incomplete C.G nx = true → nextSym C.G nx = some (.var (prodOf C.G c.prod).head) →
    ∃ rk', I (Pfl.Earley.advance C.G T nx c) rk' X
  scan : ∀ {T : Tables} {rk : Nat → Nat} {X : List (Nat × EState)} {i : Nat} {s : EState}
    {t : String}, I T rk X → (i, s) ∈ X → nextSym C.G s = some (.ter t) → C.word[i]? = some t →
    I (scanner C.G T s) rk X
  pred : ∀ {T : Tables} {rk : Nat → Nat} {X : List (Nat × EState)} {k : Nat} {p : FProd} {e : Nat},
    I T rk X → C.G.prods[k]? = some p → e < C.word.length + 1 →
    I (pushIfNew C.G T e { prod := k, b := e, e := e, dot := 0, fs := p.feats }) rk X
  bound : ∀ {T : Tables} {rk : Nat → Nat} {X : List (Nat × EState)}, I T rk X → ∀ j, acc T j ≤ Bnd

section
variable {C : Ctx} {I : Tables → (Nat → Nat) → List (Nat × EState) → Prop} {Bnd : Nat}

theorem chain_fold {α : Type} {X : List (Nat × EState)} (step : Tables → α → Tables) :
    ∀ (l : List α) (T : Tables) (rk : Nat → Nat), I T rk X →
      (∀ T' rk' a, a ∈ l → I T' rk' X → ∃ rk'', I (step T' a) rk'' X) →
      ∃ rk'', I (l.foldl step T) rk'' X := by
  intro l
  induction l with
  | nil => intro T rk h _; exact ⟨rk, h⟩
  | cons a l ih =>
    intro T rk h hstep
    rw [List.foldl_cons]
    obtain ⟨rk1, h1⟩ := hstep T rk a (List.mem_cons_self ..) h
    exact ih _ rk1 h1 (fun T' rk' a' ha' => hstep T' rk' a' (List.mem_cons_of_mem _ ha'))

theorem chain_completer (hch : Chain C I Bnd) {T : Tables}
    {rk : Nat → Nat} {X : List (Nat × EState)} (hT : I T rk X) {i : Nat} {c : EState}
    (hs : (i, c) ∈ X) (hi : i < C.word.length + 1) (hcomp : incomplete C.G c = false) :
    ∃ rk', I (completer C.G T c) rk' X := by
  unfold Pfl.Earley.completer
  simp only
  have hTX := hch.withProc hT c.b
  obtain ⟨rk', hT'⟩ := chain_fold (I := I)
    (X := X ++ (procStates T c.b).map fun nx => (c.b, nx))
    (fun T nx => if incomplete C.G nx ∧ nextSym C.G nx = some (.var (prodOf C.G c.prod).head) then
      Pfl.Earley.advance C.G T nx c else T)
    (procStates T c.b) T rk hTX
    (by
      intro T' rk' nx hnx hT'
      split
      · rename_i hcond
        exact hch.adv hT' (i := i) (c := c) (nx := nx)
          (List.mem_append_left _ hs)
          (List.mem_append_right _ (List.mem_map.2 ⟨nx, hnx, rfl⟩)) hi hcomp hcond.1 hcond.2
      · exact ⟨rk', hT'⟩)
  exact ⟨rk', hch.weaken hT' (fun e he => List.mem_append_left _ he)⟩

theorem chain_predictor (hch : Chain C I Bnd) {T : Tables}
    {rk : Nat → Nat} {X : List (Nat × EState)} (hT : I T rk X) {s : EState}
    (hs : (s.e, s) ∈ X) (hse : s.e < C.word.length + 1) (hinc : incomplete C.G s = true)
    {v : String} (hnext : nextSym C.G s = some (.var v)) :
    ∃ rk', I (predictor C.G T s) rk' X := by
  unfold Pfl.Earley.predictor
  rw [hnext]
  simp only
  -- first phase
  obtain ⟨rk1, hT1⟩ := chain_fold (I := I) (X := X)
    (fun T (pk : FProd × Nat) => if pk.1.head = v then
      Pfl.Earley.pushIfNew C.G T s.e { prod := pk.2, b := s.e, e := s.e, dot := 0, fs := pk.1.feats }
      else T)
    (C.G.prods.zip (List.range C.G.prods.length)) T rk hT
    (by
      intro T' rk' pk hpk hT'
      have hget := mem_zip_range hpk
      split
      · exact ⟨rk', hch.pred hT' hget hse⟩
      · exact ⟨rk', hT'⟩)
  generalize (List.foldl (fun T (pk : FProd × Nat) => if pk.1.head = v then
      Pfl.Earley.pushIfNew C.G T s.e { prod := pk.2, b := s.e, e := s.e, dot := 0, fs := pk.1.feats }
      else T) T (C.G.prods.zip (List.range C.G.prods.length))) = T1 at *
  -- second phase
  have hTX := hch.withProc hT1 s.e
  obtain ⟨rk2, hT2⟩ := chain_fold (I := I)
    (X := X ++ (procStates T1 s.e).map fun nx => (s.e, nx))
    (fun T c => if !(incomplete C.G c) ∧ c.b = s.e ∧ (prodOf C.G c.prod).head = v then
      Pfl.Earley.advance C.G T s c else T)
    (procStates T1 s.e) T1 rk1 hTX
    (by
      intro T' rk' c hc' hT'
      have hcX : (s.e, c) ∈ X ++ (procStates T1 s.e).map fun nx => (s.e, nx) :=
        List.mem_append_right _ (List.mem_map.2 ⟨c, hc', rfl⟩)
      split
      · rename_i hcond
        obtain ⟨hc1, hc2, hc3⟩ := hcond
        exact hch.adv hT' (i := s.e) (c := c) (nx := s) hcX
          (by rw [hc2]; exact List.mem_append_left _ hs) hse (by simpa using hc1) hinc
          (by rw [hc3]; exact hnext)
      · exact ⟨rk', hT'⟩)
  exact ⟨rk2, hch.weaken hT2 (fun e he => List.mem_append_left _ he)⟩

/-- one step of the loop on the popped state -/
theorem chain_procOne (hch : Chain C I Bnd) {T0 : Tables}
    {rk : Nat → Nat} {i : Nat} {s : EState} (hT : I T0 rk [(i, s)])
    (hi : i < C.word.length + 1) :
    ∃ rk1, I (procOne C.G C.word i T0 s) rk1 [(i, s)] := by
  have hmem : (i, s) ∈ [(i, s)] := List.mem_singleton.2 rfl
  have hse : s.e = i := hch.eeq hT _ hmem
  unfold procOne
  cases hinc : incomplete C.G s with
  | true =>
    simp only [if_true]
    cases hnext : nextSym C.G s with
    | none => exact ⟨rk, hT⟩
    | some sym =>
      cases sym with
      | var v =>
        simp only
        exact chain_predictor hch hT (s := s) (by rw [hse]; exact hmem) (by rw [hse]; exact hi)
          hinc hnext
      | ter t =>
        simp only
        split
        · rename_i hw
          exact ⟨rk, hch.scan hT hmem hnext hw⟩
        · exact ⟨rk, hT⟩
  | false =>
    simp only [Bool.false_eq_true, if_false]
    exact chain_completer hch hT hmem hi hinc

/-! ### the loop of a column ends -/

/-- every state on a chart column has been counted as processed -/
def CL (T : Tables) : Prop := ∀ j, (colGet T.chart j).length ≤ acc T j

theorem chain_columnLoop (hch : Chain C I Bnd) (i : Nat) (hi : i < C.word.length + 1) :
    ∀ (f : Nat) (T : Tables) (rk : Nat → Nat), I T rk [] → CL T →
      (colGet T.chart i).length + Bnd + 1 ≤ f + acc T i →
      ∃ T' rk', columnLoop C.G C.word i f T = some T' ∧ I T' rk' [] ∧ CL T' := by
  intro f
  induction f with
  | zero =>
    intro T rk hT _ hf
    have := hch.bound hT i
    omega
  | succ f ih =>
    intro T rk hT hcl hf
    rw [columnLoop_succ]
    cases hl : (colGet T.chart i).getLast? with
    | none => exact ⟨T, rk, rfl, hT, hcl⟩
    | some s =>
      simp only
      have hsmem : s ∈ colGet T.chart i := List.mem_of_getLast? hl
      have hT0 := hch.pop hT hsmem
      obtain ⟨rk1, hT1⟩ := chain_procOne hch hT0 hi
      have hks : (popT T i).chart.length = (popT T i).processed.length := by
        rw [(hch.lens hT0).1, (hch.lens hT0).2]
      have hbal := bal_procOne C.G C.word i (popT T i) s hks
      have hacc0 : ∀ j, acc (popT T i) j = acc T j := fun _ => rfl
      have hilen : i < T.chart.length := by rw [(hch.lens hT).1]; exact hi
      have hch0 : ∀ j, (colGet (popT T i).chart j).length ≤ (colGet T.chart j).length := by
        intro j
        unfold popT
        simp only
        rw [len_colGet_set]
        split
        · rename_i hji
          rw [hji.1, List.length_dropLast]; omega
        · exact Nat.le_refl _
      have hchi : (colGet (popT T i).chart i).length + 1 = (colGet T.chart i).length := by
        unfold popT
        simp only
        rw [colGet_set_self _ hilen, List.length_dropLast]
        have : 0 < (colGet T.chart i).length := List.length_pos_of_mem hsmem
        omega
      refine ih _ rk1 (hch.weaken hT1 (by simp)) ?_ ?_
      · intro j
        have h1 := hbal.le j
        have h2 := hch0 j
        have h3 := hcl j
        rw [hacc0] at h1
        omega
      · have h1 := hbal.le i
        rw [hacc0] at h1
        omega

theorem chain_cols (hch : Chain C I Bnd) (fuel : Nat) (hfuel : Bnd + 1 ≤ fuel) :
    ∀ (k i : Nat) (T : Tables) (rk : Nat → Nat), i + k = C.word.length + 1 →
      I T rk [] → CL T →
      ∃ T' rk', contains.cols C.G C.word fuel (List.range' i k) T = some T' ∧ I T' rk' [] := by
  intro k
  induction k with
  | zero =>
    intro i T rk _ hT _
    exact ⟨T, rk, by simp [contains.cols], hT⟩
  | succ k ih =>
    intro i T rk hik hT hcl
    rw [List.range'_succ]
    simp only [contains.cols]
    obtain ⟨T1, rk1, h1, hT1, hcl1⟩ := chain_columnLoop hch i (by omega) fuel T rk hT hcl
      (by have := hcl i; omega)
    rw [h1]
    simp only
    exact ih (i + 1) T1 rk1 (by omega) hT1 hcl1

/-- the recogniser answers within the fuel `Bnd + 1` when the invariant holds after the initial
push -/
theorem chain_contains (hch : Chain C I Bnd) {st0 : Store} {rk0 : Nat → Nat}
    (hI : I (pushIfNew C.G (Tables.mk st0 (List.replicate (C.word.length + 1) [])
      (List.replicate (C.word.length + 1) [])) 0
      { prod := C.G.prods.length, b := 0, e := 0, dot := 0, fs := C.G.gammaFeats }) rk0 [])
    {fuel : Nat} (hfuel : Bnd + 1 ≤ fuel) : (contains C.G st0 C.word fuel).isSome = true := by
  unfold contains
  simp only
  have hbal := bal_push C.G (Tables.mk st0 (List.replicate (C.word.length + 1) [])
      (List.replicate (C.word.length + 1) [])) 0
      { prod := C.G.prods.length, b := 0, e := 0, dot := 0, fs := C.G.gammaFeats } (by simp)
  generalize hT1def : Pfl.Earley.pushIfNew C.G (Tables.mk st0 (List.replicate (C.word.length + 1) [])
      (List.replicate (C.word.length + 1) [])) 0
      { prod := C.G.prods.length, b := 0, e := 0, dot := 0, fs := C.G.gammaFeats } = T1 at *
  have hcl1 : CL T1 := by
    intro j
    have h1 := hbal.le j
    have h2 : (colGet (Tables.mk st0 (List.replicate (C.word.length + 1) [])
        (List.replicate (C.word.length + 1) [])).chart j).length = 0 := by
      simp only; rw [colGet_replicate]; rfl
    omega
  obtain ⟨T3, rk3, h3, _⟩ := chain_cols hch fuel hfuel (C.word.length + 1) 0 T1 rk0
    (by omega) hI hcl1
  rw [List.range_eq_range', h3]
  rfl

end

end Term
end Earley
end Pfl
