/-
Helper lemmas for C19_Counters: the counter-based worklist (`touch`, `countLoop`, `genCounters`)
against the saturation model, and the restore pass.
-/
import Pfl.Model.CFGCounters
import Pfl.Props.C12_Classes
import Pfl.Proofs.CFGClean
namespace Pfl
namespace CFG
namespace Ctr

/-! ### rows of the counter table -/

/-- the counters of head `h` (first entry with that key) -/
def row (r : Remaining) (h : String) : List Nat :=
  match r.find? (·.1 = h) with
  | some e => e.2
  | none => []

theorem remGet_eq (r : Remaining) (h : String) (i : Nat) : remGet r h i = (row r h).getD i 0 := by
  unfold remGet row
  cases r.find? (·.1 = h) <;> simp

theorem row_nil (h : String) : row [] h = [] := rfl

theorem row_cons (e : String × List Nat) (r : Remaining) (h : String) :
    row (e :: r) h = if e.1 = h then e.2 else row r h := by
  unfold row
  rw [List.find?_cons]
  by_cases he : e.1 = h <;> simp [he]

theorem row_of_not_mem (r : Remaining) (h : String) (hn : h ∉ r.map (·.1)) : row r h = [] := by
  induction r with
  | nil => rfl
  | cons e r ih =>
    rw [row_cons]
    simp only [List.map_cons, List.mem_cons, not_or] at hn
    rw [if_neg (fun e' => hn.1 e'.symm)]
    exact ih hn.2

theorem row_of_mem (r : Remaining) (hnd : (r.map (·.1)).Nodup) (h : String) (l : List Nat)
    (hm : (h, l) ∈ r) : row r h = l := by
  induction r with
  | nil => cases hm
  | cons e r ih =>
    rw [row_cons]
    simp only [List.map_cons, List.nodup_cons] at hnd
    rcases List.mem_cons.mp hm with hm | hm
    · subst hm; simp
    · have : e.1 ≠ h := by
        intro e'; apply hnd.1; rw [e']
        exact List.mem_map.mpr ⟨(h, l), hm, rfl⟩
      rw [if_neg this]; exact ih hnd.2 hm

theorem row_mem (r : Remaining) (h : String) (hne : row r h ≠ []) : (h, row r h) ∈ r := by
  induction r with
  | nil => exact absurd rfl hne
  | cons e r ih =>
    rw [row_cons] at hne ⊢
    by_cases he : e.1 = h
    · rw [if_pos he]; subst he; exact List.mem_cons_self
    · rw [if_neg he] at hne ⊢; exact List.mem_cons_of_mem _ (ih hne)

theorem lt_of_remGet_ne (r : Remaining) (h : String) (i : Nat) (hne : remGet r h i ≠ 0) :
    i < (row r h).length := by
  rw [remGet_eq] at hne
  by_cases hlt : i < (row r h).length
  · exact hlt
  · exfalso; apply hne
    simp [List.getD_eq_getElem?_getD, List.getElem?_eq_none (Nat.le_of_not_lt hlt)]

theorem row_remSet (r : Remaining) (h : String) (i v : Nat) (h' : String) :
    row (remSet r h i v) h' = if h' = h then (row r h).set i v else row r h' := by
  induction r with
  | nil => simp [remSet, row_nil]
  | cons e r ih =>
    unfold remSet at ih ⊢
    rw [List.map_cons]
    simp only [row_cons, ih]
    by_cases he : e.1 = h
    · by_cases hh : h' = h
      · subst hh; simp [he]
      · have : ¬ h = h' := fun e' => hh e'.symm
        simp [he, hh, this]
    · by_cases hh : h' = h
      · subst hh; simp [he]
      · simp [he, hh]

theorem keys_remSet (r : Remaining) (h : String) (i v : Nat) :
    (remSet r h i v).map (·.1) = r.map (·.1) := by
  unfold remSet
  rw [List.map_map]
  apply List.map_congr_left
  intro x _
  by_cases hx : x.1 = h <;> simp [hx]

theorem remGet_remSet (r : Remaining) (h : String) (i v : Nat) (h' : String) (i' : Nat) :
    remGet (remSet r h i v) h' i' =
      if h' = h ∧ i' = i ∧ i < (row r h).length then v else remGet r h' i' := by
  rw [remGet_eq, remGet_eq, row_remSet]
  by_cases hh : h' = h
  · subst hh
    simp only [true_and, if_true, List.getD_eq_getElem?_getD, List.getElem?_set]
    by_cases hi : i = i'
    · subst hi
      by_cases hl : i < (row r h').length <;> simp [hl]
    · have : ¬ i' = i := fun e => hi e.symm
      simp [hi, this]
  · simp [hh]

/-- tables with distinct keys are determined by their keys and rows -/
theorem rem_ext (r1 r2 : Remaining) (hnd : (r1.map (·.1)).Nodup)
    (hk : r1.map (·.1) = r2.map (·.1)) (hr : ∀ h, row r1 h = row r2 h) : r1 = r2 := by
  induction r1 generalizing r2 with
  | nil => cases r2 with
    | nil => rfl
    | cons _ _ => simp at hk
  | cons e1 t1 ih =>
    cases r2 with
    | nil => simp at hk
    | cons e2 t2 =>
      simp only [List.map_cons, List.cons.injEq] at hk
      simp only [List.map_cons, List.nodup_cons] at hnd
      have h2 : e1.2 = e2.2 := by
        have := hr e1.1
        rw [row_cons, row_cons, if_pos rfl, if_pos hk.1.symm] at this
        exact this
      have he : e1 = e2 := Prod.ext hk.1 h2
      subst he
      congr 1
      apply ih t2 hnd.2 hk.2
      intro h
      by_cases hh : e1.1 = h
      · subst hh
        rw [row_of_not_mem _ _ hnd.1, row_of_not_mem _ _ (hk.2 ▸ hnd.1)]
      · have := hr h
        rw [row_cons, row_cons, if_neg hh, if_neg hh] at this
        exact this


theorem list_ext_getD (l1 l2 : List Nat) (hlen : l1.length = l2.length)
    (h : ∀ i, l1.getD i 0 = l2.getD i 0) : l1 = l2 := by
  apply List.ext_getElem hlen
  intro i h1 h2
  have := h i
  simpa [List.getD_eq_getElem?_getD, h1, h2] using this

/-! ### the restore pass -/

/-- bookkeeping invariant: every decrement is logged and exact -/
structure RInv (rem0 : Remaining) (found : List Sym) (rem : Remaining)
    (log : List (String × Nat)) : Prop where
  keys : rem.map (·.1) = rem0.map (·.1)
  len : ∀ h, (row rem h).length = (row rem0 h).length
  cnt : ∀ h i, remGet rem h i + log.count (h, i) = remGet rem0 h i
  zero : ∀ h i, i < (row rem0 h).length → remGet rem h i = 0 → Sym.var h ∈ found
  logOk : ∀ e ∈ log, e.2 < (row rem0 e.1).length

theorem touch_rinv (rem0 : Remaining) (hits : List (String × Nat))
    (hok : ∀ e ∈ hits, e.2 < (row rem0 e.1).length) :
    ∀ found todo rem log, RInv rem0 found rem log →
      RInv rem0 (touch found todo rem log hits).1 (touch found todo rem log hits).2.2.1
        (touch found todo rem log hits).2.2.2 := by
  induction hits with
  | nil => intro found todo rem log inv; exact inv
  | cons e rest ih =>
    obtain ⟨h, i⟩ := e
    intro found todo rem log inv
    have hrest : ∀ e ∈ rest, e.2 < (row rem0 e.1).length :=
      fun e he => hok e (List.mem_cons_of_mem _ he)
    have hi : i < (row rem0 h).length := hok (h, i) List.mem_cons_self
    unfold touch
    by_cases hf : Sym.var h ∈ found
    · rw [if_pos hf]; exact ih hrest _ _ _ _ inv
    · rw [if_neg hf]
      have hpos : remGet rem h i ≠ 0 := fun h0 => hf (inv.zero h i hi h0)
      have hlt : i < (row rem h).length := by rw [inv.len]; exact hi
      have key : ∀ found' : List Sym, (∀ s ∈ found, s ∈ found') →
          (remGet rem h i - 1 = 0 → Sym.var h ∈ found') →
          RInv rem0 found' (remSet rem h i (remGet rem h i - 1)) (log ++ [(h, i)]) := by
        intro found' hsub hz
        refine ⟨?_, ?_, ?_, ?_, ?_⟩
        · rw [keys_remSet]; exact inv.keys
        · intro h'
          rw [row_remSet]
          by_cases hh : h' = h
          · subst hh; rw [if_pos rfl, List.length_set]; exact inv.len _
          · rw [if_neg hh]; exact inv.len _
        · intro h' i'
          rw [remGet_remSet, List.count_append]
          have := inv.cnt h' i'
          by_cases hc : h' = h ∧ i' = i
          · obtain ⟨rfl, rfl⟩ := hc
            simp only [true_and, hlt, if_true, List.count_cons_self, List.count_nil]
            omega
          · have hne : ¬ ((h, i) == (h', i')) = true := by
              simp only [beq_iff_eq, Prod.mk.injEq]
              exact fun e => hc ⟨e.1.symm, e.2.symm⟩
            have hc' : ¬ (h' = h ∧ i' = i ∧ i < (row rem h).length) := fun e => hc ⟨e.1, e.2.1⟩
            rw [if_neg hc', List.count_cons, List.count_nil, if_neg hne]
            omega
        · intro h' i' hi' h0
          rw [remGet_remSet] at h0
          by_cases hc : h' = h ∧ i' = i
          · obtain ⟨rfl, rfl⟩ := hc
            simp only [true_and, hlt, if_true] at h0
            exact hz h0
          · have hc' : ¬ (h' = h ∧ i' = i ∧ i < (row rem h).length) := fun e => hc ⟨e.1, e.2.1⟩
            rw [if_neg hc'] at h0
            exact hsub _ (inv.zero h' i' hi' h0)
        · intro e he
          rcases List.mem_append.mp he with he | he
          · exact inv.logOk e he
          · simp only [List.mem_singleton] at he; subst he; exact hi
      dsimp only
      split
      · next hc =>
        exact ih hrest _ _ _ _ (key _ (fun s hs => List.mem_append_left _ hs) (fun _ => by simp))
      · next hc =>
        exact ih hrest _ _ _ _ (key _ (fun s hs => hs) (fun h0 => absurd h0 hc))

theorem countLoop_rinv (rem0 : Remaining) (imp : Impacts)
    (hwf : ∀ e ∈ imp, e.2.2 < (row rem0 e.2.1).length) :
    ∀ fuel found todo rem log found' rem' log', RInv rem0 found rem log →
      countLoop imp fuel found todo rem log = some (found', rem', log') →
      RInv rem0 found' rem' log' := by
  have hhits : ∀ cur : Sym, ∀ e ∈ (imp.filterMap fun e =>
      if e.1 = cur then some (e.2.1, e.2.2) else none), e.2 < (row rem0 e.1).length := by
    intro cur e he
    obtain ⟨x, hx, hxe⟩ := List.mem_filterMap.mp he
    by_cases hc : x.1 = cur
    · rw [if_pos hc] at hxe; cases hxe; exact hwf x hx
    · rw [if_neg hc] at hxe; cases hxe
  intro fuel
  induction fuel with
  | zero =>
    intro found todo rem log found' rem' log' inv h
    cases todo with
    | nil => simp only [countLoop, Option.some.injEq, Prod.mk.injEq] at h
             obtain ⟨rfl, rfl, rfl⟩ := h; exact inv
    | cons c t => simp [countLoop] at h
  | succ fuel ih =>
    intro found todo rem log found' rem' log' inv h
    cases todo with
    | nil => simp only [countLoop, Option.some.injEq, Prod.mk.injEq] at h
             obtain ⟨rfl, rfl, rfl⟩ := h; exact inv
    | cons c t =>
      simp only [countLoop] at h
      exact ih _ _ _ _ _ _ _ (touch_rinv rem0 _ (hhits c) found t rem log inv) h

theorem restore_spec (rem0 : Remaining) : ∀ (log : List (String × Nat)) (rem : Remaining),
    rem.map (·.1) = rem0.map (·.1) → (∀ h, (row rem h).length = (row rem0 h).length) →
    (∀ e ∈ log, e.2 < (row rem0 e.1).length) →
    (log.foldl (fun r e => remSet r e.1 e.2 (remGet r e.1 e.2 + 1)) rem).map (·.1) = rem0.map (·.1) ∧
    (∀ h, (row (log.foldl (fun r e => remSet r e.1 e.2 (remGet r e.1 e.2 + 1)) rem) h).length
      = (row rem0 h).length) ∧
    ∀ h i, remGet (log.foldl (fun r e => remSet r e.1 e.2 (remGet r e.1 e.2 + 1)) rem) h i
      = remGet rem h i + log.count (h, i) := by
  intro log
  induction log with
  | nil => intro rem hk hl _; exact ⟨hk, hl, fun h i => by simp⟩
  | cons e log ih =>
    obtain ⟨h, i⟩ := e
    intro rem hk hl hok
    rw [List.foldl_cons]
    have hi : i < (row rem h).length := by rw [hl]; exact hok (h, i) List.mem_cons_self
    obtain ⟨k, l, c⟩ := ih (remSet rem h i (remGet rem h i + 1))
      (by rw [keys_remSet]; exact hk)
      (by
        intro h'
        rw [row_remSet]
        by_cases hh : h' = h
        · subst hh; rw [if_pos rfl, List.length_set]; exact hl _
        · rw [if_neg hh]; exact hl _)
      (fun e he => hok e (List.mem_cons_of_mem _ he))
    refine ⟨k, l, ?_⟩
    intro h' i'
    rw [c, remGet_remSet, List.count_cons]
    by_cases hc : h' = h ∧ i' = i
    · obtain ⟨rfl, rfl⟩ := hc
      simp only [true_and, hi, if_true, BEq.rfl]
      omega
    · have hne : ¬ ((h, i) == (h', i')) = true := by
        simp only [beq_iff_eq, Prod.mk.injEq]
        exact fun e => hc ⟨e.1.symm, e.2.symm⟩
      have hc' : ¬ (h' = h ∧ i' = i ∧ i < (row rem h).length) := fun e => hc ⟨e.1, e.2.1⟩
      rw [if_neg hc', if_neg hne]
      omega

theorem rinv_init (rem : Remaining) (found : List Sym) (hpos : ∀ e ∈ rem, ∀ n ∈ e.2, 0 < n) :
    RInv rem found rem [] := by
  refine ⟨rfl, fun _ => rfl, fun h i => by simp, ?_, fun e he => by cases he⟩
  intro h i hi h0
  exfalso
  have hne : row rem h ≠ [] := by intro e; rw [e] at hi; simp at hi
  have hm := row_mem rem h hne
  have := hpos _ hm ((row rem h)[i]) (List.getElem_mem hi)
  rw [remGet_eq, List.getD_eq_getElem?_getD, List.getElem?_eq_getElem hi] at h0
  simp at h0
  omega

/-- the whole run followed by the restore pass gives back the table -/
theorem restores_core (rem : Remaining) (imp : Impacts) (fuel : Nat) (seeds todo found : List Sym)
    (rem' : Remaining) (log : List (String × Nat))
    (hwf : ∀ e ∈ imp, ∃ l, (e.2.1, l) ∈ rem ∧ e.2.2 < l.length)
    (hnd : (rem.map (·.1)).Nodup)
    (hpos : ∀ e ∈ rem, ∀ n ∈ e.2, 0 < n)
    (h : countLoop imp fuel seeds todo rem [] = some (found, rem', log)) :
    log.foldl (fun r e => remSet r e.1 e.2 (remGet r e.1 e.2 + 1)) rem' = rem := by
  have hwf' : ∀ e ∈ imp, e.2.2 < (row rem e.2.1).length := by
    intro e he
    obtain ⟨l, hl, hlt⟩ := hwf e he
    rw [row_of_mem rem hnd _ l hl]; exact hlt
  have inv := countLoop_rinv rem imp hwf' fuel seeds todo rem [] found rem' log
    (rinv_init rem seeds hpos) h
  obtain ⟨k, l, c⟩ := restore_spec rem log rem' inv.keys inv.len inv.logOk
  apply rem_ext _ _ (by rw [k]; exact hnd) k
  intro h'
  apply list_ext_getD _ _ (l h')
  intro i
  rw [← remGet_eq, ← remGet_eq, c, inv.cnt]

/-! ### the tables built from the grammar -/

/-- the symbols whose impacts point at slot `(h, i)`, in order -/
def occ (imp : Impacts) (h : String) (i : Nat) : List Sym :=
  imp.filterMap fun e => if e.2.1 = h ∧ e.2.2 = i then some e.1 else none

theorem occ_append (a b : Impacts) (h : String) (i : Nat) :
    occ (a ++ b) h i = occ a h i ++ occ b h i := List.filterMap_append

theorem occ_map (body : List Sym) (h' : String) (i' : Nat) (h : String) (i : Nat) :
    occ (body.map fun s => (s, h', i')) h i = if h' = h ∧ i' = i then body else [] := by
  unfold occ
  induction body with
  | nil => simp
  | cons s body ih =>
    rw [List.map_cons, List.filterMap_cons, ih]
    by_cases hc : h' = h ∧ i' = i <;> simp [hc]

theorem mem_occ (imp : Impacts) (h : String) (i : Nat) (s : Sym) :
    s ∈ occ imp h i ↔ (s, h, i) ∈ imp := by
  unfold occ
  rw [List.mem_filterMap]
  constructor
  · rintro ⟨e, he, hs⟩
    by_cases hc : e.2.1 = h ∧ e.2.2 = i
    · rw [if_pos hc] at hs; cases hs
      obtain ⟨rfl, rfl⟩ := hc; exact he
    · rw [if_neg hc] at hs; cases hs
  · intro he; exact ⟨_, he, by simp⟩

theorem getD_append_single (l : List Nat) (n i : Nat) :
    (l ++ [n]).getD i 0 = if i = l.length then n else l.getD i 0 := by
  simp only [List.getD_eq_getElem?_getD]
  grind

theorem find_none_iff (r : Remaining) (h : String) :
    r.find? (·.1 = h) = none ↔ h ∉ r.map (·.1) := by
  rw [List.find?_eq_none]
  simp only [decide_eq_true_eq, List.mem_map, not_exists, not_and]

theorem row_append_single (r : Remaining) (x : String × List Nat) (h : String) :
    row (r ++ [x]) h = if h ∈ r.map (·.1) then row r h else if x.1 = h then x.2 else [] := by
  induction r with
  | nil => simp [row_cons, row_nil]
  | cons e r ih =>
    rw [List.cons_append, row_cons, row_cons, ih]
    by_cases he : e.1 = h
    · simp [he]
    · have : ¬ h = e.1 := fun e' => he e'.symm
      simp only [he, if_false, List.map_cons, List.mem_cons, this, false_or]

theorem row_mapRow (r : Remaining) (h : String) (f : List Nat → List Nat) (h' : String) :
    row (r.map fun x => if x.1 = h then (x.1, f x.2) else x) h' =
      if h' = h ∧ h ∈ r.map (·.1) then f (row r h) else row r h' := by
  induction r with
  | nil => simp [row_nil]
  | cons e r ih =>
    rw [List.map_cons]
    simp only [row_cons, ih]
    by_cases he : e.1 = h
    · by_cases hh : h' = h
      · subst hh; simp [he]
      · have : ¬ h = h' := fun e' => hh e'.symm
        simp [he, hh, this]
    · have he' : ¬ h = e.1 := fun e' => he e'.symm
      by_cases hh : h' = h
      · subst hh
        simp only [he, if_false, List.map_cons, List.mem_cons, he', false_or]
      · simp [he, hh]

theorem remAppend_snd (r : Remaining) (h : String) (n : Nat) :
    (remAppend r h n).2 = (row r h).length := by
  unfold remAppend row
  cases r.find? (·.1 = h) <;> rfl

theorem row_remAppend (r : Remaining) (h : String) (n : Nat) (h' : String) :
    row (remAppend r h n).1 h' = if h' = h then row r h ++ [n] else row r h' := by
  unfold remAppend
  cases hf : r.find? (·.1 = h) with
  | some e =>
    have hk : h ∈ r.map (·.1) := by
      by_cases hk : h ∈ r.map (·.1)
      · exact hk
      · rw [(find_none_iff r h).mpr hk] at hf; cases hf
    dsimp only
    rw [row_mapRow r h (fun l => l ++ [n]) h']
    by_cases hh : h' = h <;> simp [hh, hk]
  | none =>
    have hk := (find_none_iff r h).mp hf
    dsimp only
    rw [row_append_single]
    by_cases hh : h' = h
    · subst hh; simp [hk, row_of_not_mem r h' hk]
    · have : ¬ h = h' := fun e' => hh e'.symm
      by_cases hm : h' ∈ r.map (·.1)
      · rw [if_pos hm, if_neg hh]
      · rw [if_neg hm, if_neg hh, row_of_not_mem r h' hm]; simp [this]

theorem keys_remAppend (r : Remaining) (h : String) (n : Nat) (hnd : (r.map (·.1)).Nodup) :
    ((remAppend r h n).1.map (·.1)).Nodup := by
  unfold remAppend
  cases hf : r.find? (·.1 = h) with
  | some e =>
    dsimp only
    have : (r.map fun x => if x.1 = h then (x.1, x.2 ++ [n]) else x).map (·.1) = r.map (·.1) := by
      rw [List.map_map]
      apply List.map_congr_left
      intro x _
      by_cases hx : x.1 = h <;> simp [hx]
    rw [this]; exact hnd
  | none =>
    have hk := (find_none_iff r h).mp hf
    dsimp only
    rw [List.map_append, List.nodup_append]
    refine ⟨hnd, by simp, ?_⟩
    intro a ha b hb
    simp only [List.map_cons, List.map_nil, List.mem_singleton] at hb
    subst hb
    intro e; subst e; exact hk ha

theorem remGet_remAppend (r : Remaining) (h : String) (n : Nat) (h' : String) (i' : Nat) :
    remGet (remAppend r h n).1 h' i' =
      if h' = h ∧ i' = (row r h).length then n else remGet r h' i' := by
  rw [remGet_eq, remGet_eq, row_remAppend]
  by_cases hh : h' = h
  · subst hh
    rw [if_pos rfl, getD_append_single]
    simp
  · simp [hh]

/-- one step of the fold in `buildTables` -/
def stepB (st : Remaining × Impacts × List String) (p : Prod) : Remaining × Impacts × List String :=
  if p.2.isEmpty then (st.1, st.2.1, if p.1 ∈ st.2.2 then st.2.2 else st.2.2 ++ [p.1])
  else ((remAppend st.1 p.1 p.2.length).1,
    st.2.1 ++ p.2.map (fun s => (s, p.1, (remAppend st.1 p.1 p.2.length).2)), st.2.2)

theorem buildTables_eq (G : CFG) : G.buildTables = G.prods.foldl stepB ([], [], []) := rfl

/-- what the tables know after the productions `ps` -/
structure BInv (ps : List Prod) (st : Remaining × Impacts × List String) : Prop where
  nd : (st.1.map (·.1)).Nodup
  pos : ∀ h, ∀ m ∈ row st.1 h, 0 < m
  t1 : ∀ h i, remGet st.1 h i = (occ st.2.1 h i).length
  t2 : ∀ h i, occ st.2.1 h i ≠ [] → (h, occ st.2.1 h i) ∈ ps
  t3 : ∀ p ∈ ps, p.2 ≠ [] → ∃ i, occ st.2.1 p.1 i = p.2
  t4 : ∀ h, h ∈ st.2.2 ↔ (h, []) ∈ ps

theorem binv_step (ps : List Prod) (st : Remaining × Impacts × List String) (p : Prod)
    (inv : BInv ps st) : BInv (ps ++ [p]) (stepB st p) := by
  obtain ⟨rem, imp, added⟩ := st
  obtain ⟨h0, body⟩ := p
  unfold stepB
  cases body with
  | nil =>
    simp only [List.isEmpty_nil, if_true]
    refine ⟨inv.nd, inv.pos, inv.t1, ?_, ?_, ?_⟩
    · intro h i hne; exact List.mem_append_left _ (inv.t2 h i hne)
    · intro q hq hne
      rcases List.mem_append.mp hq with hq | hq
      · exact inv.t3 q hq hne
      · simp only [List.mem_singleton] at hq; subst hq; exact absurd rfl hne
    · intro h
      have := inv.t4 h
      simp only at this
      by_cases hm : h0 ∈ added
      · simp only [if_pos hm, List.mem_append, List.mem_singleton, Prod.mk.injEq, and_true]
        constructor
        · intro hh; exact Or.inl (this.mp hh)
        · rintro (hh | rfl)
          · exact this.mpr hh
          · exact hm
      · simp only [if_neg hm, List.mem_append, List.mem_singleton, Prod.mk.injEq, and_true]
        rw [this]
  | cons b body =>
    simp only [List.isEmpty_cons, Bool.false_eq_true, if_false]
    rw [remAppend_snd]
    have hidx : occ imp h0 (row rem h0).length = [] := by
      have := inv.t1 h0 (row rem h0).length
      simp only at this
      rw [remGet_eq, List.getD_eq_getElem?_getD, List.getElem?_eq_none (Nat.le_refl _)] at this
      exact List.eq_nil_of_length_eq_zero this.symm
    have hocc : ∀ h i, occ (imp ++ (b :: body).map fun s => (s, h0, (row rem h0).length)) h i =
        if h0 = h ∧ (row rem h0).length = i then b :: body else occ imp h i := by
      intro h i
      rw [occ_append, occ_map]
      by_cases hc : h0 = h ∧ (row rem h0).length = i
      · obtain ⟨rfl, rfl⟩ := hc
        simp [hidx]
      · simp [hc]
    refine ⟨keys_remAppend _ _ _ inv.nd, ?_, ?_, ?_, ?_, ?_⟩
    · intro h m hm
      simp only at hm
      rw [row_remAppend] at hm
      by_cases hh : h = h0
      · rw [if_pos hh] at hm
        rcases List.mem_append.mp hm with hm | hm
        · exact inv.pos _ _ hm
        · simp only [List.mem_singleton] at hm; subst hm; simp
      · rw [if_neg hh] at hm; exact inv.pos _ _ hm
    · intro h i
      simp only
      rw [remGet_remAppend, hocc]
      by_cases hc : h0 = h ∧ (row rem h0).length = i
      · obtain ⟨rfl, rfl⟩ := hc
        simp
      · have : ¬ (h = h0 ∧ i = (row rem h0).length) := fun e => hc ⟨e.1.symm, e.2.symm⟩
        rw [if_neg hc, if_neg this]
        exact inv.t1 h i
    · intro h i hne
      simp only at hne ⊢
      rw [hocc] at hne ⊢
      by_cases hc : h0 = h ∧ (row rem h0).length = i
      · rw [if_pos hc]; rw [← hc.1]; simp
      · rw [if_neg hc] at hne ⊢
        exact List.mem_append_left _ (inv.t2 h i hne)
    · intro q hq hne
      simp only
      rcases List.mem_append.mp hq with hq | hq
      · obtain ⟨i, hi⟩ := inv.t3 q hq hne
        refine ⟨i, ?_⟩
        rw [hocc]
        have : ¬ (h0 = q.1 ∧ (row rem h0).length = i) := by
          rintro ⟨e1, e2⟩
          subst e2
          apply hne
          rw [← hi, ← e1]
          exact hidx
        rw [if_neg this]; exact hi
      · simp only [List.mem_singleton] at hq; subst hq
        exact ⟨(row rem h0).length, by rw [hocc]; simp⟩
    · intro h
      have := inv.t4 h
      simp only at this ⊢
      rw [this]
      simp

theorem binv_fold (ps : List Prod) : ∀ (ps0 : List Prod) (st : Remaining × Impacts × List String),
    BInv ps0 st → BInv (ps0 ++ ps) (ps.foldl stepB st) := by
  induction ps with
  | nil => intro ps0 st inv; simpa using inv
  | cons p ps ih =>
    intro ps0 st inv
    rw [List.foldl_cons]
    have := ih (ps0 ++ [p]) _ (binv_step ps0 st p inv)
    simpa using this

theorem binv_buildTables (G : CFG) : BInv G.prods G.buildTables := by
  rw [buildTables_eq]
  have := binv_fold G.prods [] ([], [], []) (by
    refine ⟨by simp, ?_, ?_, ?_, ?_, ?_⟩
    · intro h m hm; simp [row_nil] at hm
    · intro h i; simp [remGet, occ]
    · intro h i hne; exact absurd rfl hne
    · intro p hp; cases hp
    · intro h; simp)
  simpa using this

theorem buildTables_hnd (G : CFG) : (G.buildTables.1.map (·.1)).Nodup := (binv_buildTables G).nd

theorem buildTables_hpos (G : CFG) : ∀ e ∈ G.buildTables.1, ∀ n ∈ e.2, 0 < n := by
  intro e he n hn
  have hr := row_of_mem _ (buildTables_hnd G) e.1 e.2 he
  exact (binv_buildTables G).pos e.1 n (by rw [hr]; exact hn)

theorem buildTables_hwf (G : CFG) :
    ∀ e ∈ G.buildTables.2.1, ∃ l, (e.2.1, l) ∈ G.buildTables.1 ∧ e.2.2 < l.length := by
  intro e he
  have inv := binv_buildTables G
  have hm : e.1 ∈ occ G.buildTables.2.1 e.2.1 e.2.2 := (mem_occ _ _ _ _).mpr he
  have hne : remGet G.buildTables.1 e.2.1 e.2.2 ≠ 0 := by
    rw [inv.t1]
    intro h0
    rw [List.eq_nil_of_length_eq_zero h0] at hm
    cases hm
  have hlt := lt_of_remGet_ne _ _ _ hne
  refine ⟨row G.buildTables.1 e.2.1, row_mem _ _ ?_, hlt⟩
  intro e'; rw [e'] at hlt; simp at hlt

/-! ### counting occurrences -/

/-- the `(head, index)` pairs hit by `cur` -/
def hitsOf (imp : Impacts) (cur : Sym) : List (String × Nat) :=
  imp.filterMap fun e => if e.1 = cur then some (e.2.1, e.2.2) else none

theorem count_hits (imp : Impacts) (cur : Sym) (h : String) (i : Nat) :
    (hitsOf imp cur).count (h, i) = (occ imp h i).count cur := by
  unfold hitsOf occ
  induction imp with
  | nil => simp
  | cons e imp ih =>
    obtain ⟨s, h', i'⟩ := e
    rw [List.filterMap_cons, List.filterMap_cons]
    by_cases h1 : s = cur <;> by_cases h2 : h' = h ∧ i' = i
    · obtain ⟨rfl, rfl⟩ := h2
      subst h1
      simp only [if_true, and_self, List.count_cons_self, ih]
    · have : ¬ ((h', i') == (h, i)) = true := by simpa using h2
      simp only [h1, if_true, h2, if_false, List.count_cons, this, ih]
      simp
    · obtain ⟨rfl, rfl⟩ := h2
      simp only [h1, if_false, and_self, if_true]
      rw [List.count_cons_of_ne h1, ih]
    · simp only [h1, if_false, h2, ih]

theorem mem_hits (imp : Impacts) (cur : Sym) (e : String × Nat) (he : e ∈ hitsOf imp cur) :
    cur ∈ occ imp e.1 e.2 := by
  obtain ⟨x, hx, hxe⟩ := List.mem_filterMap.mp he
  by_cases hc : x.1 = cur
  · rw [if_pos hc] at hxe; cases hxe; rw [mem_occ, ← hc]; exact hx
  · rw [if_neg hc] at hxe; cases hxe

theorem countP_add_count_le (P : List Sym) (cur : Sym) (hc : cur ∉ P) (l : List Sym) :
    l.countP (fun x => decide (x ∈ P)) + l.count cur ≤ l.length := by
  induction l with
  | nil => simp
  | cons a l ih =>
    rw [List.countP_cons, List.count_cons, List.length_cons]
    by_cases ha : a = cur
    · subst ha; simp [hc]; omega
    · have : ¬ (a == cur) = true := by simpa using ha
      rw [if_neg this]
      split <;> omega

theorem all_of_count_ge (P : List Sym) (cur : Sym) (hc : cur ∉ P) (l : List Sym)
    (h : l.length ≤ l.countP (fun x => decide (x ∈ P)) + l.count cur) :
    ∀ x ∈ l, x = cur ∨ x ∈ P := by
  induction l with
  | nil => intro x hx; cases hx
  | cons a l ih =>
    have hle := countP_add_count_le P cur hc l
    rw [List.countP_cons, List.count_cons, List.length_cons] at h
    by_cases ha : a = cur
    · subst ha
      have hd : decide (a ∈ P) = false := by simpa using hc
      simp only [hd, BEq.rfl, if_true] at h
      intro x hx
      rcases List.mem_cons.mp hx with hx | hx
      · exact Or.inl hx
      · exact ih (by simp at h; omega) x hx
    · have : ¬ (a == cur) = true := by simpa using ha
      rw [if_neg this] at h
      by_cases hp : a ∈ P
      · have hd : decide (a ∈ P) = true := by simpa using hp
        simp only [hd, if_true] at h
        intro x hx
        rcases List.mem_cons.mp hx with hx | hx
        · subst hx; exact Or.inr hp
        · exact ih (by omega) x hx
      · have hd : decide (a ∈ P) = false := by simpa using hp
        simp only [hd] at h
        simp at h; omega

theorem countP_cons_mem (P : List Sym) (cur : Sym) (hc : cur ∉ P) (l : List Sym) :
    l.countP (fun x => decide (x ∈ cur :: P)) =
      l.countP (fun x => decide (x ∈ P)) + l.count cur := by
  induction l with
  | nil => simp
  | cons a l ih =>
    rw [List.countP_cons, List.countP_cons, List.count_cons, ih]
    by_cases ha : a = cur
    · subst ha
      have hd : decide (a ∈ P) = false := by simpa using hc
      simp [hd]; omega
    · have : ¬ (a == cur) = true := by simpa using ha
      by_cases hp : a ∈ P
      · simp [ha, hp]; omega
      · simp [ha, hp]

theorem countP_all (P : List Sym) (l : List Sym) (h : ∀ x ∈ l, x ∈ P) :
    l.countP (fun x => decide (x ∈ P)) = l.length := by
  rw [List.countP_eq_length]
  intro x hx; simpa using h x hx

/-! ### the worklist invariant -/

/-- between two pops: `P` are the symbols already popped and fully propagated -/
structure LInv (imp : Impacts) (Q B : Sym → Prop) (P found todo : List Sym) (rem : Remaining) :
    Prop where
  nd : (P ++ todo).Nodup
  mem : ∀ s, s ∈ found ↔ s ∈ P ∨ s ∈ todo
  cnt : ∀ h i, Sym.var h ∉ found →
    remGet rem h i + (occ imp h i).countP (fun x => decide (x ∈ P)) = (occ imp h i).length
  zero : ∀ h i, occ imp h i ≠ [] → remGet rem h i = 0 → Sym.var h ∈ found
  sound : ∀ s ∈ found, Q s
  base : ∀ s, B s → s ∈ found

/-- while propagating `cur`, with the hits `rest` still to do -/
structure TInv (imp : Impacts) (Q B : Sym → Prop) (P : List Sym) (cur : Sym)
    (found todo : List Sym) (rem : Remaining) (rest : List (String × Nat)) : Prop where
  nd : (cur :: (P ++ todo)).Nodup
  mem : ∀ s, s ∈ found ↔ s = cur ∨ s ∈ P ∨ s ∈ todo
  cnt : ∀ h i, Sym.var h ∉ found →
    remGet rem h i + (occ imp h i).countP (fun x => decide (x ∈ P)) + (occ imp h i).count cur
      = (occ imp h i).length + rest.count (h, i)
  zero : ∀ h i, occ imp h i ≠ [] → remGet rem h i = 0 → Sym.var h ∈ found
  sound : ∀ s ∈ found, Q s
  base : ∀ s, B s → s ∈ found
  restOk : ∀ e ∈ rest, cur ∈ occ imp e.1 e.2

theorem touch_tinv (imp : Impacts) (Q B : Sym → Prop) (P : List Sym) (cur : Sym)
    (hrule : ∀ h i, occ imp h i ≠ [] → (∀ x ∈ occ imp h i, Q x) → Q (.var h))
    (rest : List (String × Nat)) :
    ∀ found todo rem log, TInv imp Q B P cur found todo rem rest →
      TInv imp Q B P cur (touch found todo rem log rest).1 (touch found todo rem log rest).2.1
        (touch found todo rem log rest).2.2.1 [] := by
  induction rest with
  | nil => intro found todo rem log inv; exact inv
  | cons e rest ih =>
    obtain ⟨h, i⟩ := e
    intro found todo rem log inv
    unfold touch
    have hcurP : cur ∉ P := by
      have := (List.nodup_cons.mp inv.nd).1
      exact fun hm => this (List.mem_append_left _ hm)
    by_cases hf : Sym.var h ∈ found
    · rw [if_pos hf]
      apply ih
      refine ⟨inv.nd, inv.mem, ?_, inv.zero, inv.sound, inv.base,
        fun e he => inv.restOk e (List.mem_cons_of_mem _ he)⟩
      intro h' i' hf'
      have := inv.cnt h' i' hf'
      have hne : ¬ ((h, i) == (h', i')) = true := by
        simp only [beq_iff_eq, Prod.mk.injEq]
        rintro ⟨rfl, _⟩; exact hf' hf
      rw [List.count_cons, if_neg hne] at this
      exact this
    · rw [if_neg hf]
      have hcnt := inv.cnt h i hf
      rw [List.count_cons_self] at hcnt
      have hle := countP_add_count_le P cur hcurP (occ imp h i)
      have hpos : remGet rem h i ≠ 0 := by omega
      have hlt : i < (row rem h).length := lt_of_remGet_ne _ _ _ hpos
      have hcurocc : cur ∈ occ imp h i := inv.restOk (h, i) List.mem_cons_self
      have key : ∀ found' todo' : List Sym, (∀ s ∈ found, s ∈ found') →
          (cur :: (P ++ todo')).Nodup → (∀ s, s ∈ found' ↔ s = cur ∨ s ∈ P ∨ s ∈ todo') →
          (remGet rem h i - 1 = 0 → Sym.var h ∈ found') → (∀ s ∈ found', Q s) →
          TInv imp Q B P cur found' todo' (remSet rem h i (remGet rem h i - 1)) rest := by
        intro found' todo' hsub hnd' hmem' hz hsound'
        refine ⟨hnd', hmem', ?_, ?_, hsound', fun s hs => hsub s (inv.base s hs),
          fun e he => inv.restOk e (List.mem_cons_of_mem _ he)⟩
        · intro h' i' hf'
          have hfo : Sym.var h' ∉ found := fun hm => hf' (hsub _ hm)
          have := inv.cnt h' i' hfo
          rw [remGet_remSet]
          by_cases hc : h' = h ∧ i' = i
          · obtain ⟨rfl, rfl⟩ := hc
            simp only [true_and, hlt, if_true]
            omega
          · have hne : ¬ ((h, i) == (h', i')) = true := by
              simp only [beq_iff_eq, Prod.mk.injEq]
              exact fun e => hc ⟨e.1.symm, e.2.symm⟩
            have hc' : ¬ (h' = h ∧ i' = i ∧ i < (row rem h).length) := fun e => hc ⟨e.1, e.2.1⟩
            rw [List.count_cons, if_neg hne] at this
            rw [if_neg hc']
            exact this
        · intro h' i' hne h0
          rw [remGet_remSet] at h0
          by_cases hc : h' = h ∧ i' = i
          · obtain ⟨rfl, rfl⟩ := hc
            simp only [true_and, hlt, if_true] at h0
            exact hz h0
          · have hc' : ¬ (h' = h ∧ i' = i ∧ i < (row rem h).length) := fun e => hc ⟨e.1, e.2.1⟩
            rw [if_neg hc'] at h0
            exact hsub _ (inv.zero h' i' hne h0)
      dsimp only
      split
      · next hc =>
        apply ih
        have hnotin : Sym.var h ∉ cur :: (P ++ todo) := by
          intro hm
          apply hf
          rw [inv.mem]
          rcases List.mem_cons.mp hm with hm | hm
          · exact Or.inl hm
          · exact Or.inr (List.mem_append.mp hm)
        apply key
        · intro s hs; exact List.mem_append_left _ hs
        · have hperm : (cur :: (P ++ Sym.var h :: todo)).Perm (Sym.var h :: cur :: (P ++ todo)) :=
            (List.Perm.cons cur List.perm_middle).trans (List.Perm.swap _ _ _)
          rw [hperm.nodup_iff, List.nodup_cons]
          exact ⟨hnotin, inv.nd⟩
        · intro s
          rw [List.mem_append, inv.mem, List.mem_singleton, List.mem_cons]
          constructor
          · rintro ((h1 | h1 | h1) | h1)
            · exact Or.inl h1
            · exact Or.inr (Or.inl h1)
            · exact Or.inr (Or.inr (Or.inr h1))
            · exact Or.inr (Or.inr (Or.inl h1))
          · rintro (h1 | h1 | h1 | h1)
            · exact Or.inl (Or.inl h1)
            · exact Or.inl (Or.inr (Or.inl h1))
            · exact Or.inr h1
            · exact Or.inl (Or.inr (Or.inr h1))
        · intro _; simp
        · intro s hs
          rcases List.mem_append.mp hs with hs | hs
          · exact inv.sound s hs
          · simp only [List.mem_singleton] at hs; subst hs
            apply hrule h i (List.ne_nil_of_mem hcurocc)
            intro x hx
            apply inv.sound
            rw [inv.mem]
            rcases all_of_count_ge P cur hcurP (occ imp h i) (by omega) x hx with hx | hx
            · exact Or.inl hx
            · exact Or.inr (Or.inl hx)
      · next hc =>
        exact ih _ _ _ _ (key found todo (fun s hs => hs) inv.nd inv.mem
          (fun h0 => absurd h0 hc) inv.sound)

theorem countLoop_linv (imp : Impacts) (Q B : Sym → Prop)
    (hrule : ∀ h i, occ imp h i ≠ [] → (∀ x ∈ occ imp h i, Q x) → Q (.var h)) :
    ∀ fuel P found todo rem log found' rem' log', LInv imp Q B P found todo rem →
      countLoop imp fuel found todo rem log = some (found', rem', log') →
      ∃ P', LInv imp Q B P' found' [] rem' := by
  have step : ∀ P found c t rem log, LInv imp Q B P found (c :: t) rem →
      LInv imp Q B (c :: P) (touch found t rem log (hitsOf imp c)).1
        (touch found t rem log (hitsOf imp c)).2.1 (touch found t rem log (hitsOf imp c)).2.2.1 := by
    intro P found c t rem log inv
    have hnd : (c :: (P ++ t)).Nodup := (List.perm_middle.nodup_iff).mp inv.nd
    have hcP : c ∉ P := fun hm => (List.nodup_cons.mp hnd).1 (List.mem_append_left _ hm)
    have tinv : TInv imp Q B P c found t rem (hitsOf imp c) := by
      refine ⟨hnd, ?_, ?_, inv.zero, inv.sound, inv.base, fun e he => mem_hits imp c e he⟩
      · intro s
        rw [inv.mem, List.mem_cons]
        constructor
        · rintro (h1 | h1 | h1)
          · exact Or.inr (Or.inl h1)
          · exact Or.inl h1
          · exact Or.inr (Or.inr h1)
        · rintro (h1 | h1 | h1)
          · exact Or.inr (Or.inl h1)
          · exact Or.inl h1
          · exact Or.inr (Or.inr h1)
      · intro h i hf
        rw [count_hits, inv.cnt h i hf]
    have res := touch_tinv imp Q B P c hrule (hitsOf imp c) found t rem log tinv
    refine ⟨res.nd, ?_, ?_, res.zero, res.sound, res.base⟩
    · intro s
      rw [res.mem, List.mem_cons]
      constructor
      · rintro (h1 | h1 | h1)
        · exact Or.inl (Or.inl h1)
        · exact Or.inl (Or.inr h1)
        · exact Or.inr h1
      · rintro ((h1 | h1) | h1)
        · exact Or.inl h1
        · exact Or.inr (Or.inl h1)
        · exact Or.inr (Or.inr h1)
    · intro h i hf
      have := res.cnt h i hf
      rw [countP_cons_mem P c hcP]
      simp only [List.count_nil, Nat.add_zero] at this
      omega
  intro fuel
  induction fuel with
  | zero =>
    intro P found todo rem log found' rem' log' inv h
    cases todo with
    | nil => simp only [countLoop, Option.some.injEq, Prod.mk.injEq] at h
             obtain ⟨rfl, rfl, rfl⟩ := h; exact ⟨P, inv⟩
    | cons c t => simp [countLoop] at h
  | succ fuel ih =>
    intro P found todo rem log found' rem' log' inv h
    cases todo with
    | nil => simp only [countLoop, Option.some.injEq, Prod.mk.injEq] at h
             obtain ⟨rfl, rfl, rfl⟩ := h; exact ⟨P, inv⟩
    | cons c t =>
      simp only [countLoop] at h
      exact ih _ _ _ _ _ _ _ _ (step P found c t rem log inv) h

/-! ### agreement with the saturation model -/

/-- a run on the built tables returns exactly the saturation of the base set -/
theorem counters_main (G : CFG) (nullable : Bool) (fuel : Nat) (found : List Sym) (rem' : Remaining)
    (h : G.genCounters nullable G.buildTables.1 G.buildTables.2.1 G.buildTables.2.2 fuel
      = some (found, rem')) (s : Sym) :
    s ∈ found ↔ s ∈ iter G.closeStep (G.prods.length + 1)
      (if nullable then [] else G.ters.map .ter) := by
  have bt := binv_buildTables G
  generalize hS0 : (if nullable then [] else G.ters.map Sym.ter : List Sym) = S0
  have hclosed : G.Closed (iter G.closeStep (G.prods.length + 1) S0) := iter_closed G S0
  have hpre : ∀ x ∈ S0, x ∈ iter G.closeStep (G.prods.length + 1) S0 :=
    fun x hx => (iter_prefix G _ S0).subset hx
  generalize hS : iter G.closeStep (G.prods.length + 1) S0 = S at hclosed hpre
  unfold genCounters at h
  dsimp only at h
  generalize hseeds : (G.buildTables.2.2.map Sym.var ++
    (if nullable = true then [] else G.ters.map Sym.ter) : List Sym) = seeds at h
  have hseedS : ∀ x ∈ seeds, x ∈ S := by
    intro x hx
    rw [← hseeds] at hx
    rcases List.mem_append.mp hx with hx | hx
    · obtain ⟨a, ha, rfl⟩ := List.mem_map.mp hx
      exact hclosed (a, []) ((bt.t4 a).mp ha) (fun y hy => by cases hy)
    · rw [hS0] at hx; exact hpre x hx
  have hS0seeds : ∀ x ∈ S0, x ∈ seeds := by
    intro x hx
    rw [← hseeds, hS0]; exact List.mem_append_right _ hx
  split at h
  · cases h
  · next f r l hc =>
    simp only [Option.some.injEq, Prod.mk.injEq] at h
    obtain ⟨rfl, _⟩ := h
    have hrule : ∀ h i, occ G.buildTables.2.1 h i ≠ [] →
        (∀ x ∈ occ G.buildTables.2.1 h i, x ∈ S) → Sym.var h ∈ S :=
      fun h i hne hall => hclosed (h, occ G.buildTables.2.1 h i) (bt.t2 h i hne) hall
    have init : LInv G.buildTables.2.1 (· ∈ S) (· ∈ seeds) [] seeds.eraseDups
        seeds.eraseDups.reverse G.buildTables.1 := by
      refine ⟨?_, ?_, ?_, ?_, ?_, ?_⟩
      · rw [List.nil_append, (List.reverse_perm _).nodup_iff]; exact Clean.nodup_eraseDups _
      · intro x; simp
      · intro h i _; simp [bt.t1 h i]
      · intro h i hne h0
        rw [bt.t1 h i] at h0
        exact absurd (List.eq_nil_of_length_eq_zero h0) hne
      · intro x hx; exact hseedS x (List.mem_eraseDups.mp hx)
      · intro x hx; exact List.mem_eraseDups.mpr hx
    obtain ⟨P, fin⟩ := countLoop_linv G.buildTables.2.1 (· ∈ S) (· ∈ seeds) hrule fuel []
      _ _ _ [] f r l init hc
    constructor
    · exact fin.sound s
    · have hfP : ∀ x, x ∈ f ↔ x ∈ P := by
        intro x; rw [fin.mem]; simp
      have hfclosed : ∀ p ∈ G.prods, (∀ x ∈ p.2, x ∈ f) → Sym.var p.1 ∈ f := by
        intro p hp hall
        by_cases hb : p.2 = []
        · apply fin.base
          rw [← hseeds]
          apply List.mem_append_left
          apply List.mem_map.mpr
          refine ⟨p.1, (bt.t4 p.1).mpr ?_, rfl⟩
          rw [← hb]; exact hp
        · obtain ⟨i, hi⟩ := bt.t3 p hp hb
          by_cases hf : Sym.var p.1 ∈ f
          · exact hf
          · have hcnt := fin.cnt p.1 i hf
            rw [hi, countP_all P p.2 (fun x hx => (hfP x).mp (hall x hx))] at hcnt
            exact fin.zero p.1 i (by rw [hi]; exact hb) (by omega)
      intro hs
      rw [← hS] at hs
      exact iter_inv G.closeStep (fun T => ∀ x ∈ T, x ∈ f)
        (fun T hT => closeStep_forall G (· ∈ f) hfclosed T hT) _ S0
        (fun x hx => fin.base x (hS0seeds x hx)) s hs

end Ctr
end CFG
end Pfl
