/-
Helper lemmas for C13_Modes: general facts about `Steps`, fresh names, the run invariants of
`toFinalState` / `toEmptyStack`, and the correspondence between `ofCFG` runs and parse trees.
-/
import Pfl.Spec.PDA
import Pfl.Proofs.CFGBase
import Mathlib.Data.List.Nodup
import Mathlib.Data.List.Perm.Subperm
namespace Pfl
namespace PDA

/-- `_states` / `_stack_alphabet` mention everything in use -/
structure WF {σ γ : Type} (P : PDA σ γ) : Prop where
  src : ∀ t ∈ P.delta, t.1 ∈ P.states
  dst : ∀ t ∈ P.delta, t.2.2.2.1 ∈ P.states
  pop : ∀ t ∈ P.delta, t.2.2.1 ∈ P.stack
  push : ∀ t ∈ P.delta, ∀ x ∈ t.2.2.2.2, x ∈ P.stack
  inp : ∀ t ∈ P.delta, ∀ c, t.2.1 = some c → c ∈ P.inputs
  start : ∀ s, P.start = some s → s ∈ P.states
  startStack : ∀ z, P.startStack = some z → z ∈ P.stack
  finals : ∀ f ∈ P.finals, f ∈ P.states

namespace Modes

/-! ### fresh names -/

theorem natRepr_inj {a b : Nat} (h : a.repr = b.repr) : a = b := by
  have h2 : Nat.toDigits 10 a = Nat.toDigits 10 b := by
    rw [← Nat.toList_repr, ← Nat.toList_repr, h]
  have := congrArg (fun l => Nat.ofDigitChars 10 l 0) h2
  simpa using this

theorem pigeon (f : Nat → String) (hf : ∀ a b, f a = f b → a = b) (L : List String) :
    ∃ i, i ≤ L.length ∧ f i ∉ L := by
  by_contra hcon
  have hall : ∀ i, i ≤ L.length → f i ∈ L := by
    intro i hi
    by_contra h
    exact hcon ⟨i, hi, h⟩
  have hnd : ((List.range (L.length + 1)).map f).Nodup :=
    List.Nodup.map_on (fun a _ b _ h => hf a b h) List.nodup_range
  have hsub : (List.range (L.length + 1)).map f ⊆ L := by
    intro x hx
    simp only [List.mem_map, List.mem_range] at hx
    obtain ⟨i, hi, rfl⟩ := hx
    exact hall i (by omega)
  have := (hnd.subperm hsub).length_le
  simp only [List.length_map, List.length_range] at this
  omega

theorem nextFree_fresh (pre : String) (used : List String) : nextFree pre used ∉ used := by
  unfold nextFree
  split
  · assumption
  · split
    · rename_i i hi
      have := List.find?_some hi
      simpa using this
    · rename_i hnone
      exfalso
      obtain ⟨i, hi, hn⟩ := pigeon (fun i => pre ++ toString i) (by
        intro a b h
        apply natRepr_inj
        simpa using h) used
      rw [List.find?_eq_none] at hnone
      have := hnone i (by simp only [List.mem_range]; omega)
      simp only [decide_not, Bool.not_eq_eq_eq_not, Bool.not_true, decide_eq_false_iff_not,
        not_not] at this
      exact hn this

theorem nextFree_prefix (pre : String) (used : List String) :
    ∃ s, nextFree pre used = pre ++ s := by
  unfold nextFree
  split
  · exact ⟨"", by simp⟩
  · split
    · exact ⟨_, rfl⟩
    · exact ⟨"", by simp⟩

/-! ### names produced by `nextFree` with different prefixes differ -/

theorem startFinal_ne_endFinal (u u' : List String) :
    nextFree "#STARTTOFINAL#" u ≠ nextFree "#ENDTOFINAL#" u' := by
  obtain ⟨s, hs⟩ := nextFree_prefix "#STARTTOFINAL#" u
  obtain ⟨s', hs'⟩ := nextFree_prefix "#ENDTOFINAL#" u'
  rw [hs, hs']
  intro h
  have := congrArg String.toList h
  simp [String.toList_append] at this

theorem startEmpty_ne_endEmpty (u u' : List String) :
    nextFree "#STARTEMPTYS#" u ≠ nextFree "#ENDEMPTYS#" u' := by
  obtain ⟨s, hs⟩ := nextFree_prefix "#STARTEMPTYS#" u
  obtain ⟨s', hs'⟩ := nextFree_prefix "#ENDEMPTYS#" u'
  rw [hs, hs']
  intro h
  have := congrArg String.toList h
  simp [String.toList_append] at this

/-! ### general facts about runs -/

section General
variable {σ γ : Type}

theorem Steps.trans {P : PDA σ γ} {a b c : Config σ γ} (h1 : P.Steps a b) (h2 : P.Steps b c) :
    P.Steps a c := by
  induction h1 with
  | refl _ => exact h2
  | head hs _ ih => exact .head hs (ih h2)

theorem Steps.single {P : PDA σ γ} {a b : Config σ γ} (h : P.Step a b) : P.Steps a b :=
  .head h (.refl _)

theorem Steps.tail {P : PDA σ γ} {a b c : Config σ γ} (h1 : P.Steps a b) (h2 : P.Step b c) :
    P.Steps a c := Steps.trans h1 (Steps.single h2)

/-- the move `c → c'` uses transition `t` -/
def StepBy (t : σ × Option String × γ × σ × List γ) (c c' : Config σ γ) : Prop :=
  ∃ β u', c = (t.1, t.2.1.toList ++ u', t.2.2.1 :: β) ∧ c' = (t.2.2.2.1, u', t.2.2.2.2 ++ β)

theorem step_iff {P : PDA σ γ} {c c' : Config σ γ} :
    P.Step c c' ↔ ∃ t ∈ P.delta, StepBy t c c' := by
  constructor
  · intro h
    cases h with
    | @read q q' a x push β w hm => exact ⟨_, hm, β, w, rfl, rfl⟩
    | @eps q q' x push β w hm => exact ⟨_, hm, β, w, rfl, rfl⟩
  · rintro ⟨⟨q, a, x, q', push⟩, hm, β, u', rfl, rfl⟩
    cases a with
    | none => exact .eps hm
    | some a => exact .read hm

theorem Step.mono {P Q : PDA σ γ} (h : ∀ t ∈ P.delta, t ∈ Q.delta) {c c' : Config σ γ}
    (hs : P.Step c c') : Q.Step c c' := by
  rw [step_iff] at hs ⊢
  obtain ⟨t, ht, hb⟩ := hs
  exact ⟨t, h t ht, hb⟩

theorem Steps.mono {P Q : PDA σ γ} (h : ∀ t ∈ P.delta, t ∈ Q.delta) {c c' : Config σ γ}
    (hs : P.Steps c c') : Q.Steps c c' := by
  induction hs with
  | refl _ => exact .refl _
  | head h1 _ ih => exact .head (Step.mono h h1) ih

theorem Step.frame {P : PDA σ γ} (β : List γ) {c c' : Config σ γ} (h : P.Step c c') :
    P.Step (c.1, c.2.1, c.2.2 ++ β) (c'.1, c'.2.1, c'.2.2 ++ β) := by
  cases h with
  | read hm =>
    simp only [List.cons_append, List.append_assoc]
    exact .read hm
  | eps hm =>
    simp only [List.cons_append, List.append_assoc]
    exact .eps hm

theorem Steps.frame' {P : PDA σ γ} (β : List γ) {c c' : Config σ γ} (h : P.Steps c c') :
    P.Steps (c.1, c.2.1, c.2.2 ++ β) (c'.1, c'.2.1, c'.2.2 ++ β) := by
  induction h with
  | refl _ => exact .refl _
  | head h1 _ ih => exact .head (Step.frame β h1) ih

theorem Steps.frame {P : PDA σ γ} (β : List γ) {q q' : σ} {u u' : List String} {α α' : List γ}
    (h : P.Steps (q, u, α) (q', u', α')) : P.Steps (q, u, α ++ β) (q', u', α' ++ β) :=
  Steps.frame' β h

theorem steps_cases {P : PDA σ γ} {c c' : Config σ γ} (h : P.Steps c c') :
    c = c' ∨ ∃ c1, P.Step c c1 ∧ P.Steps c1 c' := by
  cases h with
  | refl _ => exact .inl rfl
  | head h1 h2 => exact .inr ⟨_, h1, h2⟩

/-- invariants are preserved along runs -/
theorem steps_inv {P : PDA σ γ} (I : Config σ γ → Prop)
    (hstep : ∀ c c', I c → P.Step c c' → I c') {c c' : Config σ γ}
    (h : P.Steps c c') (hc : I c) : I c' := by
  induction h with
  | refl _ => exact hc
  | head h1 _ ih => exact ih (hstep _ _ hc h1)

theorem mem_mk'_delta [DecidableEq σ] [DecidableEq γ] (states : List σ) (inputs : List String)
    (stack : List γ) (start : Option σ) (startStack : Option γ) (finals : List σ)
    (delta : List (σ × Option String × γ × σ × List γ)) (t : σ × Option String × γ × σ × List γ) :
    t ∈ (mk' states inputs stack start startStack finals delta).delta ↔ t ∈ delta := by
  simp only [mk', List.mem_eraseDups]

/-- in a well-formed automaton runs stay inside the declared states and stack alphabet -/
theorem wf_steps {P : PDA σ γ} (hP : P.WF) {c c' : Config σ γ} (h : P.Steps c c')
    (hc : c.1 ∈ P.states ∧ ∀ x ∈ c.2.2, x ∈ P.stack) :
    c'.1 ∈ P.states ∧ ∀ x ∈ c'.2.2, x ∈ P.stack := by
  refine steps_inv (fun c => c.1 ∈ P.states ∧ ∀ x ∈ c.2.2, x ∈ P.stack) ?_ h hc
  intro c c' hI hs
  rw [step_iff] at hs
  obtain ⟨t, ht, β, u', rfl, rfl⟩ := hs
  refine ⟨hP.dst t ht, ?_⟩
  intro x hx
  simp only [List.mem_append] at hx
  rcases hx with hx | hx
  · exact hP.push t ht x hx
  · exact hI.2 x (List.mem_cons_of_mem _ hx)

/-- a move of the old automaton performed above a fresh bottom symbol -/
theorem old_step {P : PDA σ γ} (hP : P.WF) {nb : γ} (hnb : nb ∉ P.stack)
    {t : σ × Option String × γ × σ × List γ} (ht : t ∈ P.delta)
    {q : σ} {u : List String} {α : List γ} {c' c0 : Config σ γ}
    (hα : ∀ x ∈ α, x ∈ P.stack) (hst : StepBy t (q, u, α ++ [nb]) c')
    (hrun : P.Steps c0 (q, u, α)) :
    ∃ q' u' α', c' = (q', u', α' ++ [nb]) ∧ q' ∈ P.states ∧ (∀ x ∈ α', x ∈ P.stack) ∧
      P.Steps c0 (q', u', α') := by
  obtain ⟨β, u', h1, rfl⟩ := hst
  simp only [Prod.mk.injEq] at h1
  obtain ⟨rfl, rfl, h3⟩ := h1
  cases α with
  | nil =>
    simp only [List.nil_append, List.cons.injEq] at h3
    exact absurd (h3.1 ▸ hP.pop t ht) hnb
  | cons x α0 =>
    simp only [List.cons_append, List.cons.injEq] at h3
    obtain ⟨rfl, rfl⟩ := h3
    refine ⟨t.2.2.2.1, u', t.2.2.2.2 ++ α0, by simp, hP.dst t ht, ?_, ?_⟩
    · intro y hy
      simp only [List.mem_append] at hy
      rcases hy with hy | hy
      · exact hP.push t ht y hy
      · exact hα y (List.mem_cons_of_mem _ hy)
    · refine Steps.tail hrun ?_
      rw [step_iff]
      exact ⟨t, ht, α0, u', rfl, rfl⟩

end General

/-! ### `toFinalState` -/

section FinalState
variable (P : PDA String String)

def fsNs : String := nextFree "#STARTTOFINAL#" P.states
def fsNe : String := nextFree "#ENDTOFINAL#" P.states
def fsNb : String := nextFree "#BOTTOMTOFINAL#" P.stack

theorem fsNs_fresh : fsNs P ∉ P.states := nextFree_fresh _ _
theorem fsNe_fresh : fsNe P ∉ P.states := nextFree_fresh _ _
theorem fsNb_fresh : fsNb P ∉ P.stack := nextFree_fresh _ _
theorem fsNs_ne : fsNs P ≠ fsNe P := startFinal_ne_endFinal _ _

variable {P}

theorem toFinalState_eq {s z : String} (hs : P.start = some s) (hz : P.startStack = some z) :
    P.toFinalState = mk' (P.states ++ [fsNs P, fsNe P]) P.inputs (P.stack ++ [fsNb P])
      (some (fsNs P)) (some (fsNb P)) [fsNe P]
      (P.delta ++ [(fsNs P, none, fsNb P, s, [z, fsNb P])] ++
        P.states.map fun q => (q, none, fsNb P, fsNe P, [])) := by
  unfold toFinalState
  simp only [hs, hz]
  rfl

theorem toFinalState_delta {s z : String} (hs : P.start = some s) (hz : P.startStack = some z)
    (t : String × Option String × String × String × List String) :
    t ∈ P.toFinalState.delta ↔ t ∈ P.delta ∨ t = (fsNs P, none, fsNb P, s, [z, fsNb P]) ∨
      ∃ q ∈ P.states, t = (q, none, fsNb P, fsNe P, []) := by
  rw [toFinalState_eq hs hz, mem_mk'_delta]
  simp only [List.mem_append, List.mem_singleton, List.mem_map, or_assoc]
  constructor
  · rintro (h | h | ⟨q, hq, rfl⟩)
    · exact .inl h
    · exact .inr (.inl h)
    · exact .inr (.inr ⟨q, hq, rfl⟩)
  · rintro (h | h | ⟨q, hq, rfl⟩)
    · exact .inl h
    · exact .inr (.inl h)
    · exact .inr (.inr ⟨q, hq, rfl⟩)

/-- invariant of the runs of `toFinalState` after the start gadget -/
def FsInv (P : PDA String String) (s z : String) (w : List String)
    (c : Config String String) : Prop :=
  (∃ q u α, c = (q, u, α ++ [fsNb P]) ∧ q ∈ P.states ∧ (∀ x ∈ α, x ∈ P.stack) ∧
    P.Steps (s, w, [z]) (q, u, α)) ∨
  (∃ q u, c = (fsNe P, u, []) ∧ P.Steps (s, w, [z]) (q, u, []))

theorem fsInv_step (hP : P.WF) {s z : String} (hs : P.start = some s)
    (hz : P.startStack = some z) (w : List String) (c c' : Config String String)
    (hI : FsInv P s z w c) (hst : P.toFinalState.Step c c') : FsInv P s z w c' := by
  rw [step_iff] at hst
  obtain ⟨t, ht, hby⟩ := hst
  rw [toFinalState_delta hs hz] at ht
  rcases hI with ⟨q, u, α, rfl, hq, hα, hrun⟩ | ⟨q, u, rfl, hrun⟩
  · rcases ht with ht | rfl | ⟨q0, hq0, rfl⟩
    · obtain ⟨q', u', α', rfl, hq', hα', hrun'⟩ := old_step hP (fsNb_fresh P) ht hα hby hrun
      exact .inl ⟨q', u', α', rfl, hq', hα', hrun'⟩
    · obtain ⟨β, u', h1, rfl⟩ := hby
      simp only [Prod.mk.injEq] at h1
      exact absurd (h1.1 ▸ hq) (fsNs_fresh P)
    · obtain ⟨β, u', h1, rfl⟩ := hby
      simp only [Prod.mk.injEq, Option.toList_none, List.nil_append] at h1
      obtain ⟨rfl, rfl, h3⟩ := h1
      cases α with
      | nil =>
        simp only [List.nil_append, List.cons.injEq] at h3
        obtain ⟨_, rfl⟩ := h3
        exact .inr ⟨q, u, rfl, hrun⟩
      | cons x α0 =>
        simp only [List.cons_append, List.cons.injEq] at h3
        exact absurd (h3.1 ▸ hα x List.mem_cons_self) (fsNb_fresh P)
  · obtain ⟨β, u', h1, rfl⟩ := hby
    simp only [Prod.mk.injEq] at h1
    exact absurd h1.2.2 (by simp)

theorem toFinalState_sound (hP : P.WF) {w : List String} (h : P.toFinalState.AccFinal w) :
    P.AccEmpty w := by
  obtain ⟨s0, z0, f, β, hs0, hz0, hf, hrun⟩ := h
  cases hs : P.start with
  | none =>
    unfold toFinalState at hs0
    simp [hs, mk'] at hs0
  | some s =>
    cases hz : P.startStack with
    | none =>
      unfold toFinalState at hs0
      simp [hs, hz, mk'] at hs0
    | some z =>
      rw [toFinalState_eq hs hz] at hs0 hz0 hf
      simp only [mk', Option.some.injEq] at hs0 hz0
      subst hs0 hz0
      have hf : f = fsNe P := by simpa [mk'] using hf
      subst hf
      refine ⟨s, z, ?_⟩
      -- the first move is the start gadget
      rcases steps_cases hrun with h0 | ⟨c1, h1, hrest⟩
      · simp only [Prod.mk.injEq] at h0
        exact absurd h0.1 (fsNs_ne P)
      ·
        have hc1 : FsInv P s z w c1 := by
          rw [step_iff] at h1
          obtain ⟨t, ht, β', u', h2, rfl⟩ := h1
          rw [toFinalState_delta hs hz] at ht
          rcases ht with ht | rfl | ⟨q0, hq0, rfl⟩
          · simp only [Prod.mk.injEq] at h2
            exact absurd (h2.1 ▸ hP.src t ht) (fsNs_fresh P)
          · simp only [Prod.mk.injEq, Option.toList_none, List.nil_append, List.cons.injEq,
              true_and] at h2
            obtain ⟨rfl, rfl⟩ := h2
            exact .inl ⟨s, w, [z], by simp, hP.start s hs,
              by simpa using hP.startStack z hz, .refl _⟩
          · simp only [Prod.mk.injEq] at h2
            exact absurd (h2.1 ▸ hq0) (fsNs_fresh P)
        have := steps_inv (FsInv P s z w) (fsInv_step hP hs hz w) hrest hc1
        rcases this with ⟨q, u, α, h3, hq, _, _⟩ | ⟨q, u, h3, hrun'⟩
        · simp only [Prod.mk.injEq] at h3
          exact absurd (h3.1 ▸ hq) (fsNe_fresh P)
        · simp only [Prod.mk.injEq] at h3
          obtain ⟨_, rfl, _⟩ := h3
          exact ⟨q, hs, hz, hrun'⟩

theorem toFinalState_complete (hP : P.WF) {w : List String} (h : P.AccEmpty w) :
    P.toFinalState.AccFinal w := by
  obtain ⟨s, z, q, hs, hz, hrun⟩ := h
  have hmono : ∀ t ∈ P.delta, t ∈ P.toFinalState.delta := fun t ht =>
    (toFinalState_delta hs hz t).2 (.inl ht)
  have hq : q ∈ P.states :=
    (wf_steps hP hrun ⟨hP.start s hs, by simpa using hP.startStack z hz⟩).1
  have h1 : P.toFinalState.Step (fsNs P, w, [fsNb P]) (s, w, [z, fsNb P]) :=
    Step.eps (β := []) ((toFinalState_delta hs hz _).2 (.inr (.inl rfl)))
  have h2 : P.toFinalState.Steps (s, w, [z] ++ [fsNb P]) (q, [], [] ++ [fsNb P]) :=
    Steps.frame _ (Steps.mono hmono hrun)
  have h3 : P.toFinalState.Step (q, [], [fsNb P]) (fsNe P, [], []) :=
    Step.eps (β := []) ((toFinalState_delta hs hz _).2 (.inr (.inr ⟨q, hq, rfl⟩)))
  refine ⟨fsNs P, fsNb P, fsNe P, [], ?_, ?_, ?_, ?_⟩
  · rw [toFinalState_eq hs hz]; rfl
  · rw [toFinalState_eq hs hz]; rfl
  · rw [toFinalState_eq hs hz]; simp [mk']
  · exact .head h1 (Steps.tail h2 h3)

end FinalState

/-! ### `toEmptyStack` -/

section EmptyStack
variable (P : PDA String String)

def esNs : String := nextFree "#STARTEMPTYS#" P.states
def esNe : String := nextFree "#ENDEMPTYS#" P.states
def esNb : String := nextFree "#BOTTOMEMPTYS#" P.stack
def esAlph : List String := (P.stack ++ [esNb P]).eraseDups

theorem esNs_fresh : esNs P ∉ P.states := nextFree_fresh _ _
theorem esNe_fresh : esNe P ∉ P.states := nextFree_fresh _ _
theorem esNb_fresh : esNb P ∉ P.stack := nextFree_fresh _ _
theorem esNs_ne : esNs P ≠ esNe P := startEmpty_ne_endEmpty _ _

theorem mem_esAlph (x : String) : x ∈ esAlph P ↔ x ∈ P.stack ∨ x = esNb P := by
  simp only [esAlph, List.mem_eraseDups, List.mem_append, List.mem_singleton]

variable {P}

theorem toEmptyStack_eq {s z : String} (hs : P.start = some s) (hz : P.startStack = some z) :
    P.toEmptyStack = mk' (P.states ++ [esNs P, esNe P]) P.inputs (esAlph P)
      (some (esNs P)) (some (esNb P)) []
      (P.delta ++ [(esNs P, none, esNb P, s, [z, esNb P])] ++
        (P.finals.flatMap fun f => (esAlph P).map fun x => (f, none, x, esNe P, [])) ++
        (esAlph P).map fun x => (esNe P, none, x, esNe P, [])) := by
  unfold toEmptyStack
  simp only [hs, hz]
  rfl

theorem toEmptyStack_delta {s z : String} (hs : P.start = some s) (hz : P.startStack = some z)
    (t : String × Option String × String × String × List String) :
    t ∈ P.toEmptyStack.delta ↔ t ∈ P.delta ∨ t = (esNs P, none, esNb P, s, [z, esNb P]) ∨
      (∃ f ∈ P.finals, ∃ x ∈ esAlph P, t = (f, none, x, esNe P, [])) ∨
      (∃ x ∈ esAlph P, t = (esNe P, none, x, esNe P, [])) := by
  rw [toEmptyStack_eq hs hz, mem_mk'_delta]
  simp only [List.mem_append, List.mem_singleton, List.mem_map, List.mem_flatMap, or_assoc]
  constructor
  · rintro (h | h | ⟨f, hf, x, hx, rfl⟩ | ⟨x, hx, rfl⟩)
    · exact .inl h
    · exact .inr (.inl h)
    · exact .inr (.inr (.inl ⟨f, hf, x, hx, rfl⟩))
    · exact .inr (.inr (.inr ⟨x, hx, rfl⟩))
  · rintro (h | h | ⟨f, hf, x, hx, rfl⟩ | ⟨x, hx, rfl⟩)
    · exact .inl h
    · exact .inr (.inl h)
    · exact .inr (.inr (.inl ⟨f, hf, x, hx, rfl⟩))
    · exact .inr (.inr (.inr ⟨x, hx, rfl⟩))

/-- invariant of the runs of `toEmptyStack` after the start gadget -/
def EsInv (P : PDA String String) (s z : String) (w : List String)
    (c : Config String String) : Prop :=
  (∃ q u α, c = (q, u, α ++ [esNb P]) ∧ q ∈ P.states ∧ (∀ x ∈ α, x ∈ P.stack) ∧
    P.Steps (s, w, [z]) (q, u, α)) ∨
  (∃ u β, c = (esNe P, u, β) ∧ ∃ f ∈ P.finals, ∃ β', P.Steps (s, w, [z]) (f, u, β'))

theorem esInv_step (hP : P.WF) {s z : String} (hs : P.start = some s)
    (hz : P.startStack = some z) (w : List String) (c c' : Config String String)
    (hI : EsInv P s z w c) (hst : P.toEmptyStack.Step c c') : EsInv P s z w c' := by
  rw [step_iff] at hst
  obtain ⟨t, ht, hby⟩ := hst
  rw [toEmptyStack_delta hs hz] at ht
  rcases hI with ⟨q, u, α, rfl, hq, hα, hrun⟩ | ⟨u, β, rfl, f, hf, β', hrun⟩
  · rcases ht with ht | rfl | ⟨f, hf, x, hx, rfl⟩ | ⟨x, hx, rfl⟩
    · obtain ⟨q', u', α', rfl, hq', hα', hrun'⟩ := old_step hP (esNb_fresh P) ht hα hby hrun
      exact .inl ⟨q', u', α', rfl, hq', hα', hrun'⟩
    · obtain ⟨β, u', h1, rfl⟩ := hby
      simp only [Prod.mk.injEq] at h1
      exact absurd (h1.1 ▸ hq) (esNs_fresh P)
    · obtain ⟨β, u', h1, rfl⟩ := hby
      simp only [Prod.mk.injEq, Option.toList_none, List.nil_append] at h1
      obtain ⟨rfl, rfl, _⟩ := h1
      exact .inr ⟨u, _, rfl, q, hf, α, hrun⟩
    · obtain ⟨β, u', h1, rfl⟩ := hby
      simp only [Prod.mk.injEq] at h1
      exact absurd (h1.1 ▸ hq) (esNe_fresh P)
  · rcases ht with ht | rfl | ⟨f0, hf0, x, hx, rfl⟩ | ⟨x, hx, rfl⟩
    · obtain ⟨β, u', h1, rfl⟩ := hby
      simp only [Prod.mk.injEq] at h1
      exact absurd (h1.1 ▸ hP.src t ht) (esNe_fresh P)
    · obtain ⟨β, u', h1, rfl⟩ := hby
      simp only [Prod.mk.injEq] at h1
      exact absurd h1.1.symm (esNs_ne P)
    · obtain ⟨β0, u', h1, rfl⟩ := hby
      simp only [Prod.mk.injEq, Option.toList_none, List.nil_append] at h1
      obtain ⟨_, rfl, _⟩ := h1
      exact .inr ⟨u, _, rfl, f, hf, β', hrun⟩
    · obtain ⟨β0, u', h1, rfl⟩ := hby
      simp only [Prod.mk.injEq, Option.toList_none, List.nil_append] at h1
      obtain ⟨_, rfl, _⟩ := h1
      exact .inr ⟨u, _, rfl, f, hf, β', hrun⟩

theorem toEmptyStack_sound (hP : P.WF) {w : List String} (h : P.toEmptyStack.AccEmpty w) :
    P.AccFinal w := by
  obtain ⟨s0, z0, qe, hs0, hz0, hrun⟩ := h
  cases hs : P.start with
  | none =>
    unfold toEmptyStack at hs0
    simp [hs, mk'] at hs0
  | some s =>
    cases hz : P.startStack with
    | none =>
      unfold toEmptyStack at hs0
      simp [hs, hz, mk'] at hs0
    | some z =>
      rw [toEmptyStack_eq hs hz] at hs0 hz0
      simp only [mk', Option.some.injEq] at hs0 hz0
      subst hs0 hz0
      rcases steps_cases hrun with h0 | ⟨c1, h1, hrest⟩
      · simp only [Prod.mk.injEq] at h0
        exact absurd h0.2.2 (by simp)
      · have hc1 : EsInv P s z w c1 := by
          rw [step_iff] at h1
          obtain ⟨t, ht, β', u', h2, rfl⟩ := h1
          rw [toEmptyStack_delta hs hz] at ht
          rcases ht with ht | rfl | ⟨f, hf, x, hx, rfl⟩ | ⟨x, hx, rfl⟩
          · simp only [Prod.mk.injEq] at h2
            exact absurd (h2.1 ▸ hP.src t ht) (esNs_fresh P)
          · simp only [Prod.mk.injEq, Option.toList_none, List.nil_append, List.cons.injEq,
              true_and] at h2
            obtain ⟨rfl, rfl⟩ := h2
            exact .inl ⟨s, w, [z], by simp, hP.start s hs,
              by simpa using hP.startStack z hz, .refl _⟩
          · simp only [Prod.mk.injEq] at h2
            exact absurd (h2.1 ▸ hP.finals f hf) (esNs_fresh P)
          · simp only [Prod.mk.injEq] at h2
            exact absurd h2.1 (esNs_ne P)
        have := steps_inv (EsInv P s z w) (esInv_step hP hs hz w) hrest hc1
        rcases this with ⟨q, u, α, h3, hq, _, _⟩ | ⟨u, β, h3, f, hf, β', hrun'⟩
        · simp only [Prod.mk.injEq] at h3
          exact absurd h3.2.2 (by simp)
        · simp only [Prod.mk.injEq] at h3
          obtain ⟨_, rfl, _⟩ := h3
          exact ⟨s, z, f, β', hs, hz, hf, hrun'⟩

theorem es_popAll {s z : String} (hs : P.start = some s) (hz : P.startStack = some z)
    (u : List String) : ∀ β : List String, (∀ x ∈ β, x ∈ esAlph P) →
      P.toEmptyStack.Steps (esNe P, u, β) (esNe P, u, [])
  | [], _ => .refl _
  | x :: β, h => by
    have h1 : P.toEmptyStack.Step (esNe P, u, x :: β) (esNe P, u, [] ++ β) :=
      Step.eps ((toEmptyStack_delta hs hz _).2
        (.inr (.inr (.inr ⟨x, h x List.mem_cons_self, rfl⟩))))
    exact .head h1 (es_popAll hs hz u β fun y hy => h y (List.mem_cons_of_mem _ hy))

theorem toEmptyStack_complete (hP : P.WF) {w : List String} (h : P.AccFinal w) :
    P.toEmptyStack.AccEmpty w := by
  obtain ⟨s, z, f, β, hs, hz, hf, hrun⟩ := h
  have hmono : ∀ t ∈ P.delta, t ∈ P.toEmptyStack.delta := fun t ht =>
    (toEmptyStack_delta hs hz t).2 (.inl ht)
  have hβ : ∀ x ∈ β, x ∈ P.stack :=
    (wf_steps hP hrun ⟨hP.start s hs, by simpa using hP.startStack z hz⟩).2
  have h1 : P.toEmptyStack.Step (esNs P, w, [esNb P]) (s, w, [z, esNb P]) :=
    Step.eps (β := []) ((toEmptyStack_delta hs hz _).2 (.inr (.inl rfl)))
  have h2 : P.toEmptyStack.Steps (s, w, [z] ++ [esNb P]) (f, [], β ++ [esNb P]) :=
    Steps.frame _ (Steps.mono hmono hrun)
  have hall : ∀ x ∈ β ++ [esNb P], x ∈ esAlph P := by
    intro x hx
    rw [mem_esAlph]
    simp only [List.mem_append, List.mem_singleton] at hx
    exact hx.imp (hβ x) id
  obtain ⟨x, rest, hxr⟩ : ∃ x rest, β ++ [esNb P] = x :: rest := by
    cases β with
    | nil => exact ⟨_, _, rfl⟩
    | cons y β => exact ⟨_, _, rfl⟩
  rw [hxr] at h2 hall
  have h3 : P.toEmptyStack.Step (f, [], x :: rest) (esNe P, [], [] ++ rest) :=
    Step.eps ((toEmptyStack_delta hs hz _).2
      (.inr (.inr (.inl ⟨f, hf, x, hall x List.mem_cons_self, rfl⟩))))
  have h4 := es_popAll hs hz [] rest fun y hy => hall y (List.mem_cons_of_mem _ hy)
  refine ⟨esNs P, esNb P, esNe P, ?_, ?_, ?_⟩
  · rw [toEmptyStack_eq hs hz]; rfl
  · rw [toEmptyStack_eq hs hz]; rfl
  · exact .head h1 (Steps.trans (Steps.tail h2 h3) h4)

end EmptyStack

/-! ### `ofCFG` -/

section OfCFG
open CFG

/-- the stack symbol of a grammar symbol -/
def ss : Sym → String
  | .var v => v
  | .ter t => "#TERM#" ++ t

/-- the symbol is declared in the grammar -/
def SymOK (G : CFG) : Sym → Prop
  | .var v => v ∈ G.vars
  | .ter t => t ∈ G.ters

theorem ofCFG_eq (G : CFG) : ofCFG G =
    mk' ["q"] G.ters ((G.ters.map fun t => "#TERM#" ++ t) ++ G.vars) (some "q") G.start []
      ((G.prods.map fun p => ("q", none, p.1, "q", p.2.map ss)) ++
        G.ters.map fun t => ("q", some t, "#TERM#" ++ t, "q", [])) := by
  rfl

theorem ofCFG_delta (G : CFG) (t : String × Option String × String × String × List String) :
    t ∈ (ofCFG G).delta ↔ (∃ p ∈ G.prods, t = ("q", none, p.1, "q", p.2.map ss)) ∨
      ∃ a ∈ G.ters, t = ("q", some a, "#TERM#" ++ a, "q", []) := by
  rw [ofCFG_eq, mem_mk'_delta]
  simp only [List.mem_append, List.mem_map]
  constructor
  · rintro (⟨p, hp, rfl⟩ | ⟨a, ha, rfl⟩)
    · exact .inl ⟨p, hp, rfl⟩
    · exact .inr ⟨a, ha, rfl⟩
  · rintro (⟨p, hp, rfl⟩ | ⟨a, ha, rfl⟩)
    · exact .inl ⟨p, hp, rfl⟩
    · exact .inr ⟨a, ha, rfl⟩

theorem body_ok {G : CFG} (hG : G.WF) {h : String} {body : List Sym} (hp : (h, body) ∈ G.prods) :
    ∀ s ∈ body, SymOK G s := by
  intro s hs
  cases s with
  | var v => exact hG.var_mem _ hp v hs
  | ter t => exact hG.ter_mem _ hp t hs

mutual
theorem gen_steps {G : CFG} (hG : G.WF) : ∀ {s : Sym} {w : List String}, G.Gen s w → SymOK G s →
    ∀ (v : List String) (β : List String),
      (ofCFG G).Steps ("q", w ++ v, ss s :: β) ("q", v, β)
  | _, _, .ter t, hok, v, β => by
    have : (ofCFG G).Step ("q", t :: v, ("#TERM#" ++ t) :: β) ("q", v, [] ++ β) :=
      Step.read ((ofCFG_delta G _).2 (.inr ⟨t, hok, rfl⟩))
    exact Steps.single this
  | _, _, .var (h := h) (body := body) (w := w) hp hl, _, v, β => by
    have : (ofCFG G).Step ("q", w ++ v, h :: β) ("q", w ++ v, body.map ss ++ β) :=
      Step.eps ((ofCFG_delta G _).2 (.inl ⟨(h, body), hp, rfl⟩))
    exact .head this (genList_steps hG hl (body_ok hG hp) v β)
theorem genList_steps {G : CFG} (hG : G.WF) : ∀ {u : List Sym} {w : List String}, G.GenList u w →
    (∀ s ∈ u, SymOK G s) → ∀ (v : List String) (β : List String),
      (ofCFG G).Steps ("q", w ++ v, u.map ss ++ β) ("q", v, β)
  | _, _, .nil, _, v, β => .refl _
  | _, _, .cons (s := s) (u := u) (w₁ := w₁) (w₂ := w₂) hs hu, hok, v, β => by
    have h1 := gen_steps hG hs (hok s List.mem_cons_self) (w₂ ++ v) (u.map ss ++ β)
    have h2 := genList_steps hG hu (fun y hy => hok y (List.mem_cons_of_mem _ hy)) v β
    simp only [List.append_assoc, List.map_cons, List.cons_append]
    exact Steps.trans h1 h2
end

theorem steps_genList {G : CFG} (hG : G.WF)
    (hfresh : ∀ t ∈ G.ters, ("#TERM#" ++ t) ∉ G.vars) {c c' : Config String String}
    (h : (ofCFG G).Steps c c') : ∀ (u : List Sym) (w : List String) (q : String),
      c = (q, w, u.map ss) → c'.2.1 = [] → c'.2.2 = [] → (∀ s ∈ u, SymOK G s) → G.GenList u w := by
  induction h with
  | refl c =>
    rintro u w q rfl h1 h2 _
    simp only [List.map_eq_nil_iff] at h1 h2
    subst h1 h2
    exact .nil
  | @head c c1 c2 hst _ ih =>
    rintro u w q rfl h1 h2 hok
    rw [step_iff] at hst
    obtain ⟨t, ht, β, u', h3, rfl⟩ := hst
    simp only [Prod.mk.injEq] at h3
    obtain ⟨_, hw, hstack⟩ := h3
    cases u with
    | nil => simp at hstack
    | cons sym rest =>
      simp only [List.map_cons, List.cons.injEq] at hstack
      obtain ⟨hsym, rfl⟩ := hstack
      have hokr : ∀ s ∈ rest, SymOK G s := fun y hy => hok y (List.mem_cons_of_mem _ hy)
      have hoks : SymOK G sym := hok sym List.mem_cons_self
      rw [ofCFG_delta] at ht
      rcases ht with ⟨⟨hd, body⟩, hp, rfl⟩ | ⟨a, ha, rfl⟩
      · simp only [Option.toList_none, List.nil_append] at hw
        rw [hw]
        simp only at hsym
        cases sym with
        | ter t' =>
          exfalso
          simp only [ss] at hsym
          exact hfresh t' hoks (hsym ▸ hG.head_mem _ hp)
        | var v =>
          simp only [ss] at hsym
          subst hsym
          have := ih (body ++ rest) u' "q" (by simp) h1 h2 (by
            intro y hy
            simp only [List.mem_append] at hy
            rcases hy with hy | hy
            · exact body_ok hG hp y hy
            · exact hokr y hy)
          rw [genList_append_iff] at this
          obtain ⟨w₁, w₂, rfl, g1, g2⟩ := this
          exact .cons (.var hp g1) g2
      · simp only [Option.toList_some, List.singleton_append] at hw
        rw [hw]
        simp only at hsym
        cases sym with
        | var v =>
          exfalso
          simp only [ss] at hsym
          exact hfresh a ha (hsym ▸ hoks)
        | ter t' =>
          simp only [ss] at hsym
          have : t' = a := by simpa using hsym
          subst this
          have := ih rest u' "q" (by simp) h1 h2 hokr
          exact GenList.cons (w₁ := [t']) (.ter t') this

theorem ofCFG_lang (G : CFG) (hG : G.WF) (hfresh : ∀ t ∈ G.ters, ("#TERM#" ++ t) ∉ G.vars)
    (w : List String) : (ofCFG G).AccEmpty w ↔ G.Lang w := by
  rw [lang_iff_gen]
  have hst : (ofCFG G).start = some "q" := rfl
  have hss : (ofCFG G).startStack = G.start := rfl
  constructor
  · rintro ⟨s, z, q, hs, hz, hrun⟩
    rw [hss] at hz
    refine ⟨z, hz, ?_⟩
    have := steps_genList hG hfresh hrun [.var z] w s rfl rfl rfl (by
      intro y hy
      simp only [List.mem_singleton] at hy
      subst hy
      exact hG.start_mem z hz)
    exact genList_singleton.1 this
  · rintro ⟨z, hz, hg⟩
    refine ⟨"q", z, "q", hst, hss.trans hz, ?_⟩
    have := gen_steps hG hg (hG.start_mem z hz) [] []
    simpa [ss] using this

end OfCFG

end Modes
end PDA
end Pfl
