/-
The store built by `buildGrammar` for the completeness proof: node kinds, the variable table of a
production, the production records; consequences: the extra store invariants, the paths of the
production objects and their ground instances.
-/
import Pfl.Proofs.EarleyCompleteTables
import Pfl.Proofs.EarleyLemmasBuild
namespace Pfl
namespace Earley
namespace Cmp
open FsDag FsDag.Lem Lem Lem.Bld

theorem rdv_sub_path {st : Store} {σ : Nat → String} {F x : Nat} {g : String} {q : List String}
    (h : byPath st F [g] = some x) : rdv st σ F (g :: q) = rdv st σ x q := by
  have e := byPath_append st [g] q F
  simp only [List.cons_append, List.nil_append] at e
  unfold rdv
  rw [e, h]; rfl

/-! ### node kinds -/

def recN (x : Nat) : Node := { value := none, content := [("n", x)], pointer := none }
def atomN (v : String) : Node := { value := some v, content := [], pointer := none }
def linkN (j : Nat) : Node := { value := none, content := [], pointer := some j }
def rootN (hfs : Nat) (bfs : List Nat) : Node :=
  { value := none, content := prodContent hfs bfs, pointer := none }

/-- the kinds of objects below the production records -/
def NK (Src : String → Prop) (nd : Node) : Prop :=
  nd = emptyNode ∨ (∃ x, nd = recN x) ∨ (∃ v, Src v ∧ nd = atomN v) ∨ (∃ j, nd = linkN j)

theorem setN_snoc (st rest : Store) (x : Nat) :
    setN (st ++ emptyNode :: rest) st.length x = st ++ recN x :: rest := by
  unfold setN
  have hg : get (st ++ emptyNode :: rest) st.length = emptyNode := by
    rw [get_app_len, get_cons_zero]
  rw [hg, List.set_append]
  simp [emptyNode, recN]

theorem fsFor_const' (st : Store) (vars : List (String × Nat)) {v : String}
    (h : ¬ v.startsWith "?" = true) :
    fsFor st vars (some v) = (st ++ [recN (st.length + 1), atomN v], vars, st.length) := by
  rw [fsFor_const st vars h]
  have : st ++ [emptyNode] ++ [{ value := some v, content := [], pointer := none }] =
      st ++ emptyNode :: [atomN v] := by simp [atomN]
  rw [this, setN_snoc]

theorem fsFor_var_old' (st : Store) {vars : List (String × Nat)} {v : String} {vn : Nat}
    (h : v.startsWith "?" = true) (hl : lookupC v vars = some vn) :
    fsFor st vars (some v) = (st ++ [recN (st.length + 1), linkN vn], vars, st.length) := by
  rw [fsFor_var_old st h hl]
  have : st ++ [emptyNode] ++ [{ value := none, content := [], pointer := some vn }] =
      st ++ emptyNode :: [linkN vn] := by simp [linkN]
  rw [this, setN_snoc]

theorem fsFor_var_new' (st : Store) {vars : List (String × Nat)} {v : String}
    (h : v.startsWith "?" = true) (hl : lookupC v vars = none) :
    fsFor st vars (some v) =
      (st ++ [recN (st.length + 2), emptyNode, linkN (st.length + 1)],
        vars ++ [(v, st.length + 1)], st.length) := by
  rw [fsFor_var_new st h hl]
  have : st ++ [emptyNode] ++ [emptyNode] ++
      [{ value := none, content := [], pointer := some (st.length + 1) }] =
      st ++ emptyNode :: [emptyNode, linkN (st.length + 1)] := by simp [linkN]
  rw [this, setN_snoc]

/-! ### the variable table and the symbol records -/

/-- the objects of the variables are distinct empty objects -/
structure VarsOK (st : Store) (vars : List (String × Nat)) : Prop where
  emp : ∀ v n, lookupC v vars = some n → n < st.length ∧ get st n = emptyNode
  inj : ∀ v v' n, lookupC v vars = some n → lookupC v' vars = some n → v = v'

/-- the record `s` of a symbol with feature `f` -/
def SymRec (st : Store) (vars : List (String × Nat)) (s : Nat) (f : Feat) : Prop :=
  s < st.length ∧ ∀ v, f = some v → ∃ n, get st s = recN n ∧ n < st.length ∧
    if v.startsWith "?" = true then ∃ vn, lookupC v vars = some vn ∧ get st n = linkN vn
    else get st n = atomN v

theorem VarsOK.mono {st st' : Store} {vars : List (String × Nat)} (h : VarsOK st vars)
    (hf : Fr st st') : VarsOK st' vars :=
  ⟨fun v n hl => ⟨Nat.lt_of_lt_of_le (h.emp v n hl).1 hf.len, by
      rw [hf.old n (h.emp v n hl).1]; exact (h.emp v n hl).2⟩, h.inj⟩

theorem SymRec.mono {st st' : Store} {vars vars' : List (String × Nat)} {s : Nat} {f : Feat}
    (h : SymRec st vars s f) (hf : Fr st st') (hsub : Sub vars vars') : SymRec st' vars' s f := by
  obtain ⟨h1, h2⟩ := h
  refine ⟨Nat.lt_of_lt_of_le h1 hf.len, fun v hv => ?_⟩
  obtain ⟨n, hn1, hn2, hn3⟩ := h2 v hv
  refine ⟨n, by rw [hf.old s h1]; exact hn1, Nat.lt_of_lt_of_le hn2 hf.len, ?_⟩
  split
  · rename_i hq
    rw [if_pos hq] at hn3
    obtain ⟨vn, hvn, hg⟩ := hn3
    exact ⟨vn, hsub v vn hvn, by rw [hf.old n hn2]; exact hg⟩
  · rename_i hq
    rw [if_neg hq] at hn3
    rw [hf.old n hn2]; exact hn3

/-- the result of `fsFor` -/
structure FsR (Src : String → Prop) (st : Store) (vars : List (String × Nat)) (f : Feat)
    (r : Store × List (String × Nat) × Nat) : Prop where
  ext : ∃ blk, r.1 = st ++ blk ∧ ∀ nd ∈ blk, NK Src nd
  idx : r.2.2 = st.length
  vok : VarsOK r.1 r.2.1
  sub : Sub vars r.2.1
  sym : SymRec r.1 r.2.1 r.2.2 f

theorem fsFor_r {Src : String → Prop} {st : Store} {vars : List (String × Nat)}
    (hv : VarsOK st vars) (f : Feat)
    (hsrc : ∀ v, f = some v → ¬ v.startsWith "?" = true → Src v) :
    FsR Src st vars f (fsFor st vars f) := by
  cases f with
  | none =>
    rw [fsFor_none]
    refine ⟨⟨[emptyNode], rfl, fun nd h => ?_⟩, rfl, hv.mono (Fr.append _ _), Sub.refl _,
      ⟨by simp, fun v hv => by simp at hv⟩⟩
    simp only [List.mem_singleton] at h; subst h; exact Or.inl rfl
  | some v =>
    by_cases hq : v.startsWith "?" = true
    · cases hl : lookupC v vars with
      | some vn =>
        rw [fsFor_var_old' st hq hl]
        refine ⟨⟨_, rfl, fun nd h => ?_⟩, rfl, hv.mono (Fr.append _ _), Sub.refl _,
          ⟨by simp, fun v' hv' => ?_⟩⟩
        · simp only [List.mem_cons, List.not_mem_nil, or_false] at h
          rcases h with rfl | rfl
          · exact Or.inr (Or.inl ⟨_, rfl⟩)
          · exact Or.inr (Or.inr (Or.inr ⟨_, rfl⟩))
        · simp only [Option.some.injEq] at hv'; subst hv'
          refine ⟨st.length + 1, ?_, by simp, ?_⟩
          · rw [get_app_len, get_cons_zero]
          · rw [if_pos hq]
            exact ⟨vn, hl, by rw [get_app_add, get_cons_succ, get_cons_zero]⟩
      | none =>
        rw [fsFor_var_new' st hq hl]
        refine ⟨⟨_, rfl, fun nd h => ?_⟩, rfl, ⟨?_, ?_⟩, fun v' n h => lookupC_append_some _ h,
          ⟨by simp, fun v' hv' => ?_⟩⟩
        · simp only [List.mem_cons, List.not_mem_nil, or_false] at h
          rcases h with rfl | rfl | rfl
          · exact Or.inr (Or.inl ⟨_, rfl⟩)
          · exact Or.inl rfl
          · exact Or.inr (Or.inr (Or.inr ⟨_, rfl⟩))
        · intro v' n hl'
          rw [lookupC_append] at hl'
          cases hl2 : lookupC v' vars with
          | some m =>
            rw [hl2] at hl'
            simp only [Option.some.injEq] at hl'; subst hl'
            obtain ⟨h1, h2⟩ := hv.emp v' m hl2
            exact ⟨by simp; omega, by rw [get_append_lt _ h1]; exact h2⟩
          | none =>
            rw [hl2] at hl'
            simp only [lookupC] at hl'
            split at hl'
            · simp only [Option.some.injEq] at hl'; subst hl'
              exact ⟨by simp, by rw [get_app_add, get_cons_succ, get_cons_zero]⟩
            · simp at hl'
        · intro v1 v2 n h1 h2
          rw [lookupC_append] at h1 h2
          cases e1 : lookupC v1 vars with
          | some m1 =>
            rw [e1] at h1
            simp only [Option.some.injEq] at h1; subst h1
            cases e2 : lookupC v2 vars with
            | some m2 =>
              rw [e2] at h2
              simp only [Option.some.injEq] at h2; subst h2
              exact hv.inj v1 v2 _ e1 e2
            | none =>
              rw [e2] at h2
              simp only [lookupC] at h2
              split at h2
              · simp only [Option.some.injEq] at h2
                have := (hv.emp v1 _ e1).1; omega
              · simp at h2
          | none =>
            rw [e1] at h1
            simp only [lookupC] at h1
            split at h1
            · rename_i hv1
              simp only [Option.some.injEq] at h1; subst h1
              cases e2 : lookupC v2 vars with
              | some m2 =>
                rw [e2] at h2
                simp only [Option.some.injEq] at h2
                have := (hv.emp v2 _ e2).1; omega
              | none =>
                rw [e2] at h2
                simp only [lookupC] at h2
                split at h2
                · rename_i hv2; rw [← hv1, ← hv2]
                · simp at h2
            · simp at h1
        · simp only [Option.some.injEq] at hv'; subst hv'
          refine ⟨st.length + 2, ?_, by simp, ?_⟩
          · rw [get_app_len, get_cons_zero]
          · rw [if_pos hq]
            exact ⟨st.length + 1, lookupC_append_single_self _ hl,
              by rw [get_app_add, get_cons_succ, get_cons_succ, get_cons_zero]⟩
    · rw [fsFor_const' st vars hq]
      refine ⟨⟨_, rfl, fun nd h => ?_⟩, rfl, hv.mono (Fr.append _ _), Sub.refl _,
        ⟨by simp, fun v' hv' => ?_⟩⟩
      · simp only [List.mem_cons, List.not_mem_nil, or_false] at h
        rcases h with rfl | rfl
        · exact Or.inr (Or.inl ⟨_, rfl⟩)
        · exact Or.inr (Or.inr (Or.inl ⟨v, hsrc v rfl hq, rfl⟩))
      · simp only [Option.some.injEq] at hv'; subst hv'
        refine ⟨st.length + 1, ?_, by simp, ?_⟩
        · rw [get_app_len, get_cons_zero]
        · rw [if_neg hq, get_app_add, get_cons_succ, get_cons_zero]

/-! ### the fold over the body -/

structure BR (Src : String → Prop) (st0 : Store) (vars0 : List (String × Nat)) (a : BAcc)
    (pre : List (Sym × Feat)) : Prop where
  ext : ∃ mid, a.1 = st0 ++ mid ∧ ∀ nd ∈ mid, NK Src nd
  vok : VarsOK a.1 a.2.1
  sub : Sub vars0 a.2.1
  len : a.2.2.length = pre.length
  items : ∀ (j : Nat) (item : Sym × Feat), pre[j]? = some item → ∃ s, a.2.2[j]? = some s ∧
    s < a.1.length ∧ ∀ X, item.1 = Sym.var X → SymRec a.1 a.2.1 s item.2

theorem BR.extend {Src : String → Prop} {st0 : Store} {vars0 : List (String × Nat)} {a : BAcc}
    {pre : List (Sym × Feat)} (h : BR Src st0 vars0 a pre) {blk : Store}
    {vars' : List (String × Nat)} {item : Sym × Feat} (hblk : ∀ nd ∈ blk, NK Src nd)
    (hne : 0 < blk.length)
    (hv : VarsOK (a.1 ++ blk) vars') (hsub : Sub a.2.1 vars')
    (hsym : ∀ X, item.1 = Sym.var X → SymRec (a.1 ++ blk) vars' a.1.length item.2) :
    BR Src st0 vars0 (a.1 ++ blk, vars', a.2.2 ++ [a.1.length]) (pre ++ [item]) := by
  have hf : Fr a.1 (a.1 ++ blk) := Fr.append _ _
  refine ⟨?_, hv, h.sub.trans hsub, by simp [h.len], ?_⟩
  · obtain ⟨mid, hm, hmk⟩ := h.ext
    refine ⟨mid ++ blk, by rw [hm, List.append_assoc], ?_⟩
    intro nd hnd
    rcases List.mem_append.1 hnd with h1 | h1
    · exact hmk nd h1
    · exact hblk nd h1
  · intro j it hj
    by_cases hjl : j < pre.length
    · rw [List.getElem?_append_left hjl] at hj
      obtain ⟨s0, h1, h2, h3⟩ := h.items j it hj
      refine ⟨s0, ?_, Nat.lt_of_lt_of_le h2 hf.len, fun X hX => (h3 X hX).mono hf hsub⟩
      show (a.2.2 ++ [a.1.length])[j]? = some s0
      rw [List.getElem?_append_left (by rw [h.len]; exact hjl)]; exact h1
    · have hj2 : j < (pre ++ [item]).length := by
        by_contra hc
        rw [List.getElem?_eq_none (by omega)] at hj; simp at hj
      have hje : j = pre.length := by simp at hj2; omega
      subst hje
      rw [List.getElem?_concat_length] at hj
      simp only [Option.some.injEq] at hj; subst hj
      refine ⟨a.1.length, ?_, by simp; omega, hsym⟩
      show (a.2.2 ++ [a.1.length])[pre.length]? = some a.1.length
      rw [← h.len, List.getElem?_concat_length]

theorem bodyStep_BR {Src : String → Prop} {st0 : Store} {vars0 : List (String × Nat)} {a : BAcc}
    {pre : List (Sym × Feat)} (h : BR Src st0 vars0 a pre) (item : Sym × Feat)
    (hsrc : ∀ X v, item.1 = Sym.var X → item.2 = some v → ¬ v.startsWith "?" = true → Src v) :
    BR Src st0 vars0 (bodyStep a item) (pre ++ [item]) := by
  obtain ⟨sym, f⟩ := item
  cases sym with
  | ter t =>
    have := h.extend (blk := [emptyNode]) (vars' := a.2.1) (item := (Sym.ter t, f))
      (fun nd hnd => by
        simp only [List.mem_singleton] at hnd; subst hnd; exact Or.inl rfl)
      (by simp) (h.vok.mono (Fr.append _ _)) (Sub.refl _) (fun X hX => by simp at hX)
    exact this
  | var X =>
    have hr := fsFor_r (Src := Src) h.vok f (fun v hv hq => hsrc X v rfl hv hq)
    obtain ⟨blk, hb, hbk⟩ := hr.ext
    have hidx := hr.idx
    have hne : 0 < blk.length := by
      have := hr.sym.1
      rw [hb, hidx] at this
      simp at this; exact this
    have := h.extend (blk := blk) (vars' := (fsFor a.1 a.2.1 f).2.1) (item := (Sym.var X, f)) hbk hne
      (by rw [← hb]; exact hr.vok) hr.sub (fun _ _ => by
        rw [← hb, ← hidx]; exact hr.sym)
    unfold bodyStep
    simp only
    rw [hb, hidx]
    exact this

theorem body_fold_BR {Src : String → Prop} {st0 : Store} {vars0 : List (String × Nat)}
    (items : List (Sym × Feat)) : ∀ (a : BAcc) (pre : List (Sym × Feat)),
    BR Src st0 vars0 a pre →
    (∀ item ∈ items, ∀ X v, item.1 = Sym.var X → item.2 = some v → ¬ v.startsWith "?" = true →
      Src v) →
    BR Src st0 vars0 (items.foldl bodyStep a) (pre ++ items) := by
  induction items with
  | nil => intro a pre h _; simpa using h
  | cons it rest ih =>
    intro a pre h hsrc
    have := ih (bodyStep a it) (pre ++ [it])
      (bodyStep_BR h it (hsrc it (List.mem_cons_self ..)))
      (fun item hi => hsrc item (List.mem_cons_of_mem _ hi))
    simpa using this

/-! ### the production records -/

/-- the constants of a production come from `Src` -/
def SrcOK (Src : String → Prop) (pr : Spec1) : Prop :=
  ∀ f ∈ pr.1.2 :: pr.2.map (·.2), ∀ v, f = some v → ¬ v.startsWith "?" = true → Src v

/-- the object `F` is the record of production `pr` -/
def PR (st : Store) (F : Nat) (pr : Spec1) : Prop :=
  ∃ (hfs : Nat) (bfs : List Nat) (vars : List (String × Nat)), F < st.length ∧
    get st F = rootN hfs bfs ∧ bfs.length = pr.2.length ∧ VarsOK st vars ∧
    SymRec st vars hfs pr.1.2 ∧
    ∀ (j : Nat) (item : Sym × Feat), pr.2[j]? = some item → ∃ s, bfs[j]? = some s ∧
      s < st.length ∧ ∀ X, item.1 = Sym.var X → SymRec st vars s item.2

theorem PR.mono {st st' : Store} {F : Nat} {pr : Spec1} (h : PR st F pr) (hf : Fr st st') :
    PR st' F pr := by
  obtain ⟨hfs, bfs, vars, h1, h2, h3, h4, h5, h6⟩ := h
  refine ⟨hfs, bfs, vars, Nat.lt_of_lt_of_le h1 hf.len, by rw [hf.old F h1]; exact h2, h3,
    h4.mono hf, h5.mono hf (Sub.refl _), ?_⟩
  intro j item hj
  obtain ⟨s, hs1, hs2, hs3⟩ := h6 j item hj
  exact ⟨s, hs1, Nat.lt_of_lt_of_le hs2 hf.len, fun X hX => (hs3 X hX).mono hf (Sub.refl _)⟩

theorem get_append_mem {st l : Store} {i : Nat} (h1 : st.length ≤ i) (h2 : i < (st ++ l).length) :
    get (st ++ l) i ∈ l := by
  obtain ⟨k, rfl⟩ := Nat.exists_eq_add_of_le h1
  rw [get_app_add]
  have hk : k < l.length := by simp at h2; omega
  rw [get_lt hk]
  exact List.getElem_mem hk

structure OI (Src : String → Prop) (acc : Store × List FProd) (pre : List Spec1) : Prop where
  nodes : ∀ i, i < acc.1.length → NK Src (get acc.1 i) ∨
    ∃ hfs bfs, get acc.1 i = rootN hfs bfs ∧ ∃ p ∈ acc.2, p.feats = i
  len : acc.2.length = pre.length
  prods : ∀ (k : Nat) (pr : Spec1), pre[k]? = some pr → ∃ p, acc.2[k]? = some p ∧
    PR acc.1 p.feats pr

theorem prodStep_OI {Src : String → Prop} {acc : Store × List FProd} {pre : List Spec1}
    (h : OI Src acc pre) (pr : Spec1) (hsrc : SrcOK Src pr) :
    OI Src (prodStep acc pr) (pre ++ [pr]) := by
  have hv0 : VarsOK acc.1 [] := ⟨fun v n hl => by simp [lookupC] at hl,
    fun v v' n hl => by simp [lookupC] at hl⟩
  have hr1 := fsFor_r (Src := Src) hv0 pr.1.2
    (fun v hv hq => hsrc _ (List.mem_cons_self ..) v hv hq)
  have hBR0 : BR Src (fsFor acc.1 [] pr.1.2).1 (fsFor acc.1 [] pr.1.2).2.1
      ((fsFor acc.1 [] pr.1.2).1, (fsFor acc.1 [] pr.1.2).2.1, []) [] :=
    ⟨⟨[], by simp, fun nd hnd => by simp at hnd⟩, hr1.vok, Sub.refl _, rfl, by simp⟩
  have hBR := body_fold_BR (Src := Src) pr.2 _ [] hBR0 (by
    intro item hi X v hX hv hq
    refine hsrc item.2 (List.mem_cons_of_mem _ ?_) v hv hq
    rw [List.mem_map]; exact ⟨item, hi, rfl⟩)
  rw [List.nil_append] at hBR
  have e : prodStep acc pr =
      ((List.foldl bodyStep ((fsFor acc.1 [] pr.1.2).1, (fsFor acc.1 [] pr.1.2).2.1, []) pr.2).1 ++
        [rootN (fsFor acc.1 [] pr.1.2).2.2
            (List.foldl bodyStep ((fsFor acc.1 [] pr.1.2).1, (fsFor acc.1 [] pr.1.2).2.1, []) pr.2).2.2],
       acc.2 ++ [(FProd.mk pr.1.1 (pr.2.map (·.1))
          (List.foldl bodyStep ((fsFor acc.1 [] pr.1.2).1, (fsFor acc.1 [] pr.1.2).2.1, [])
            pr.2).1.length)]) := rfl
  rw [e]
  clear e
  generalize hr1def : fsFor acc.1 [] pr.1.2 = r1 at *
  generalize hr2def : List.foldl bodyStep (r1.1, r1.2.1, []) pr.2 = r2 at *
  obtain ⟨blk1, hb1, hbk1⟩ := hr1.ext
  obtain ⟨mid, hm, hmk⟩ := hBR.ext
  have hf1 : Fr acc.1 r1.1 := by rw [hb1]; exact Fr.append _ _
  have hf2 : Fr r1.1 r2.1 := by rw [hm]; exact Fr.append _ _
  have hf3 : Fr r2.1 (r2.1 ++ [rootN r1.2.2 r2.2.2]) := Fr.append _ _
  have hfall := (hf1.trans hf2).trans hf3
  have hr2eq : r2.1 = acc.1 ++ (blk1 ++ mid) := by rw [hm, hb1, List.append_assoc]
  refine ⟨?_, by simp [h.len], ?_⟩
  · intro i hi
    simp only at hi ⊢
    by_cases h1 : i < acc.1.length
    · rw [hfall.old i h1]
      rcases h.nodes i h1 with hk | ⟨hfs, bfs, hg, p, hp, hpf⟩
      · exact Or.inl hk
      · exact Or.inr ⟨hfs, bfs, hg, p, List.mem_append_left _ hp, hpf⟩
    · by_cases h2 : i < r2.1.length
      · rw [hf3.old i h2]
        left
        have hmem : get r2.1 i ∈ blk1 ++ mid := by
          rw [hr2eq] at h2 ⊢
          exact get_append_mem (by omega) h2
        rcases List.mem_append.1 hmem with hm1 | hm1
        · exact hbk1 _ hm1
        · exact hmk _ hm1
      · have hie : i = r2.1.length := by
          simp at hi; omega
        subst hie
        right
        refine ⟨r1.2.2, r2.2.2, by rw [get_append_len], _, List.mem_append_right _
          (List.mem_singleton.2 rfl), rfl⟩
  · intro k pr' hk
    by_cases hkl : k < pre.length
    · rw [List.getElem?_append_left hkl] at hk
      obtain ⟨p0, h1, h2⟩ := h.prods k pr' hk
      refine ⟨p0, ?_, h2.mono hfall⟩
      show (acc.2 ++ [_])[k]? = some p0
      rw [List.getElem?_append_left (by rw [h.len]; exact hkl)]; exact h1
    · have hk2 : k < (pre ++ [pr]).length := by
        by_contra hc
        rw [List.getElem?_eq_none (by omega)] at hk; simp at hk
      have hke : k = pre.length := by simp at hk2; omega
      subst hke
      rw [List.getElem?_concat_length] at hk
      simp only [Option.some.injEq] at hk; subst hk
      refine ⟨_, by rw [← h.len, List.getElem?_concat_length], ?_⟩
      simp only
      refine ⟨r1.2.2, r2.2.2, r2.2.1, by simp, by rw [get_append_len], hBR.len, hBR.vok.mono hf3,
        hr1.sym.mono (hf2.trans hf3) hBR.sub, ?_⟩
      intro j item hj
      obtain ⟨s, hs1, hs2, hs3⟩ := hBR.items j item hj
      exact ⟨s, hs1, Nat.lt_of_lt_of_le hs2 hf3.len, fun X hX => (hs3 X hX).mono hf3 (Sub.refl _)⟩

theorem outer_fold_OI {Src : String → Prop} (spec : List Spec1) :
    ∀ (acc : Store × List FProd) (pre : List Spec1), OI Src acc pre →
      (∀ pr ∈ spec, SrcOK Src pr) → OI Src (spec.foldl prodStep acc) (pre ++ spec) := by
  induction spec with
  | nil => intro acc pre h _; simpa using h
  | cons pr rest ih =>
    intro acc pre h hsrc
    have := ih (prodStep acc pr) (pre ++ [pr]) (prodStep_OI h pr (hsrc pr (List.mem_cons_self ..)))
      (fun pr' hp => hsrc pr' (List.mem_cons_of_mem _ hp))
    simpa using this

/-- what the completeness proof knows about the built store -/
structure BuiltOK (Src : String → Prop) (spec : List Spec1) (st0 : Store) (G : Grammar) : Prop where
  nodes : ∀ i, i < st0.length → NK Src (get st0 i) ∨
    ∃ hfs bfs, get st0 i = rootN hfs bfs ∧ ((∃ p ∈ G.prods, p.feats = i) ∨ i = G.gammaFeats)
  prods : ∀ (k : Nat) (pr : Spec1), spec[k]? = some pr → ∃ p, G.prods[k]? = some p ∧
    PR st0 p.feats pr
  gam : G.gammaFeats < st0.length ∧ ∃ a b, get st0 G.gammaFeats = rootN a [b]

theorem rootN_single (a b : Nat) :
    rootN a [b] = { value := none, content := [("head", a), ("0", b)], pointer := none } := by
  have h0 : Nat.repr 0 = "0" := by decide
  simp [rootN, prodContent, List.range_succ, h0]

theorem build_ok {Src : String → Prop} (spec : List Spec1) (start : String)
    (hsrc : ∀ pr ∈ spec, SrcOK Src pr) :
    BuiltOK Src spec (buildGrammar spec start).1 (buildGrammar spec start).2 := by
  rw [buildGrammar_eq]
  have hO := outer_fold_OI (Src := Src) spec ([], []) []
    ⟨fun i hi => by simp at hi, rfl, fun k pr hk => by simp at hk⟩ hsrc
  rw [List.nil_append] at hO
  generalize List.foldl prodStep ([], []) spec = R at *
  simp only
  have hf : Fr R.1 (gammaStep R.1) := by
    unfold gammaStep
    rw [List.append_assoc, List.append_assoc]; exact Fr.append _ _
  have hgl : (gammaStep R.1).length = R.1.length + 3 := by simp [gammaStep]
  have hroot : get (gammaStep R.1) (R.1.length + 2) = rootN R.1.length [R.1.length + 1] := by
    unfold gammaStep
    rw [List.append_assoc, List.append_assoc, get_app_add, rootN_single]
    rfl
  refine ⟨?_, ?_, ⟨by show R.1.length + 2 < _; rw [hgl]; omega, _, _, hroot⟩⟩
  · intro i hi
    by_cases h1 : i < R.1.length
    · rw [hf.old i h1]
      rcases hO.nodes i h1 with hk | ⟨hfs, bfs, hg, p, hp, hpf⟩
      · exact Or.inl hk
      · exact Or.inr ⟨hfs, bfs, hg, Or.inl ⟨p, hp, hpf⟩⟩
    · rw [hgl] at hi
      have : i = R.1.length ∨ i = R.1.length + 1 ∨ i = R.1.length + 2 := by omega
      rcases this with rfl | rfl | rfl
      · left; left
        unfold gammaStep
        rw [List.append_assoc, List.append_assoc, get_app_len]; rfl
      · left; left
        unfold gammaStep
        rw [List.append_assoc, List.append_assoc, get_app_add]; rfl
      · right
        exact ⟨_, _, hroot, Or.inr rfl⟩
  · intro k pr hk
    obtain ⟨p, hp, hpr⟩ := hO.prods k pr hk
    exact ⟨p, hp, hpr.mono hf⟩

/-! ### consequences for the built store -/

theorem kf_prodContent {hfs : Nat} {bfs : List Nat} {g : String} {x : Nat}
    (h : (g, x) ∈ prodContent hfs bfs) : lookupC g (prodContent hfs bfs) = some x := by
  simp only [prodContent, List.mem_cons, Prod.mk.injEq, List.mem_map] at h
  rcases h with ⟨rfl, rfl⟩ | ⟨e, he, h1, h2⟩
  · exact lookupC_prodContent_head _ _
  · have := mem_zip_range (show (e.1, e.2) ∈ _ from he)
    rw [← h1, ← h2]
    exact lookupC_prodContent_idx _ this

section Built
variable {Src : String → Prop} {spec : List Spec1} {st0 : Store} {G : Grammar}

/-- every object of the store, the ones beyond its length included -/
theorem BuiltOK.node (h : BuiltOK Src spec st0 G) (i : Nat) : NK Src (get st0 i) ∨
    ∃ hfs bfs, get st0 i = rootN hfs bfs ∧ ((∃ p ∈ G.prods, p.feats = i) ∨ i = G.gammaFeats) := by
  by_cases hi : i < st0.length
  · exact h.nodes i hi
  · left; left; exact get_ge (Nat.le_of_not_lt hi)

theorem BuiltOK.kf (h : BuiltOK Src spec st0 G) : KF st0 := by
  intro i g x hx
  rcases h.node i with (hk | ⟨y, hk⟩ | ⟨v, _, hk⟩ | ⟨j, hk⟩) | ⟨hfs, bfs, hk, _⟩
  · rw [cont, hk] at hx; simp [emptyNode] at hx
  · rw [cont, hk] at hx ⊢
    simp only [recN, List.mem_singleton, Prod.mk.injEq] at hx ⊢
    obtain ⟨rfl, rfl⟩ := hx
    simp [lookupC]
  · rw [cont, hk] at hx; simp [atomN] at hx
  · rw [cont, hk] at hx; simp [linkN] at hx
  · rw [cont, hk] at hx ⊢
    exact kf_prodContent hx

theorem BuiltOK.vr (h : BuiltOK Src spec st0 G) : VR st0 := by
  intro i v hv
  have hp : ptr st0 i = none := by
    rcases h.node i with (hk | ⟨y, hk⟩ | ⟨v', _, hk⟩ | ⟨j, hk⟩) | ⟨hfs, bfs, hk, _⟩
    · rw [ptr, hk]; rfl
    · rw [ptr, hk]; rfl
    · rw [ptr, hk]; rfl
    · rw [val, hk] at hv; simp [linkN] at hv
    · rw [ptr, hk]; rfl
  rw [deref_of_none hp]; exact hv

theorem BuiltOK.alln (h : BuiltOK Src spec st0 G) {rk : Nat → Nat}
    (hrk : ∀ p ∈ G.prods, rk p.feats = 2) (hrkg : rk G.gammaFeats = 2) : AllN st0 rk := by
  intro i g x hi hx
  rcases h.node i with (hk | ⟨y, hk⟩ | ⟨v, _, hk⟩ | ⟨j, hk⟩) | ⟨hfs, bfs, hk, hroot⟩
  · rw [cont, hk] at hx; simp [emptyNode] at hx
  · rw [cont, hk] at hx
    simp only [recN, List.mem_singleton, Prod.mk.injEq] at hx
    exact hx.1
  · rw [cont, hk] at hx; simp [atomN] at hx
  · rw [cont, hk] at hx; simp [linkN] at hx
  · exfalso
    rcases hroot with ⟨p, hp, rfl⟩ | rfl
    · have := hrk p hp; omega
    · omega

theorem BuiltOK.ap (h : BuiltOK Src spec st0 G) {P : String → Prop} (hP : ∀ v, Src v → P v) :
    AP P st0 := by
  intro i v hv
  rcases h.node i with (hk | ⟨y, hk⟩ | ⟨v', hs, hk⟩ | ⟨j, hk⟩) | ⟨hfs, bfs, hk, _⟩
  · rw [val, hk] at hv; simp [emptyNode] at hv
  · rw [val, hk] at hv; simp [recN] at hv
  · rw [val, hk] at hv
    simp only [atomN, Option.some.injEq] at hv
    subst hv; exact hP _ hs
  · rw [val, hk] at hv; simp [linkN] at hv
  · rw [val, hk] at hv; simp [rootN] at hv

theorem BuiltOK.noval (h : BuiltOK Src spec st0 G) (hS : ∀ v, ¬ Src v) : NoVal st0 := by
  intro i
  cases hv : val st0 i with
  | none => rfl
  | some v =>
    exfalso
    rcases h.node i with (hk | ⟨y, hk⟩ | ⟨v', hs, hk⟩ | ⟨j, hk⟩) | ⟨hfs, bfs, hk, _⟩
    · rw [val, hk] at hv; simp [emptyNode] at hv
    · rw [val, hk] at hv; simp [recN] at hv
    · exact hS _ hs
    · rw [val, hk] at hv; simp [linkN] at hv
    · rw [val, hk] at hv; simp [rootN] at hv

end Built

/-- the paths from a production record to its symbol records -/
theorem root_paths {st : Store} {F hfs : Nat} {bfs : List Nat} (h : get st F = rootN hfs bfs) :
    byPath st F ["head"] = some hfs ∧
      ∀ (j s : Nat), bfs[j]? = some s → byPath st F [toString j] = some s := by
  have hp : ptr st F = none := by rw [ptr, h]; rfl
  have hc : cont st (deref st F) = prodContent hfs bfs := by
    rw [deref_of_none hp, cont, h]; rfl
  refine ⟨?_, fun j s hj => ?_⟩
  · rw [byPath_cons_of [] (by rw [hc]; exact lookupC_prodContent_head _ _), byPath_nil]
  · rw [byPath_cons_of [] (by rw [hc]; exact lookupC_prodContent_idx _ hj), byPath_nil]

theorem pr_paths {C : Ctx} {st : Store} {F k : Nat} {pr : Spec1} (hk : C.spec[k]? = some pr)
    (h : PR st F pr) : HasPaths C st F k := by
  obtain ⟨hfs, bfs, vars, _, h2, h3, _⟩ := h
  obtain ⟨p1, p2⟩ := root_paths h2
  refine ⟨⟨_, p1⟩, fun j hj => ?_⟩
  rw [prX_spec hk, ← h3] at hj
  exact ⟨_, p2 j _ (List.getElem?_eq_getElem hj)⟩

theorem gamma_paths {C : Ctx} {st : Store} {F a b : Nat} (h : get st F = rootN a [b]) :
    HasPaths C st F C.spec.length := by
  obtain ⟨p1, p2⟩ := root_paths h
  refine ⟨⟨_, p1⟩, fun j hj => ?_⟩
  rw [prX_gamma (List.getElem?_eq_none (Nat.le_refl _))] at hj
  simp only [List.length_cons, List.length_nil, Nat.zero_add, Nat.lt_one_iff] at hj
  subst hj
  exact ⟨_, p2 0 b rfl⟩

/-! ### the ground instances of a production record -/

open Classical in
/-- the valuation that gives the variable objects the values of `env` -/
noncomputable def envVal (P : String → Prop) (vf : Env → String → String) (st : Store)
    (vars : List (String × Nat)) (env : Env) (d : String) : Nat → String :=
  fun c => if h : ∃ x, lookupC x vars = some c then
      (if P (vf env (choose h)) then vf env (choose h) else d)
    else dfltVal P st d c

theorem envVal_resp {P : String → Prop} {vf : Env → String → String} {st : Store}
    {vars : List (String × Nat)} (hv : VarsOK st vars) (env : Env) {d : String} (hd : P d) :
    Resp P st (envVal P vf st vars env d) := by
  refine ⟨fun c => ?_, fun c v hp hval hP => ?_⟩
  · unfold envVal
    split
    · split
      · assumption
      · exact hd
    · exact (resp_default P st hd).1 c
  · unfold envVal
    split
    · rename_i h
      obtain ⟨x, hx⟩ := h
      have := (hv.emp x c hx).2
      rw [val, this] at hval; simp [emptyNode] at hval
    · exact (resp_default P st hd).2 c v hp hval hP

/-- reading the leaf of a symbol record -/
theorem sym_read {P : String → Prop} {vf : Env → String → String} {st : Store} {rk : Nat → Nat}
    (hw : WFS st rk) {vars : List (String × Nat)} (hv : VarsOK st vars) (env : Env) {d : String}
    {F s : Nat} {name v : String} (hpath : byPath st F [name] = some s)
    (hs : SymRec st vars s (some v))
    (hconst : ¬ v.startsWith "?" = true → vf env v = v ∧ P v)
    (hvar : v.startsWith "?" = true → P (vf env v)) :
    rdv st (envVal P vf st vars env d) F [name, "n"] = some (vf env v) := by
  obtain ⟨n, hn1, hn2, hn3⟩ := hs.2 v rfl
  have hps : ptr st s = none := by rw [ptr, hn1]; rfl
  have hcs : cont st (deref st s) = [("n", n)] := by rw [deref_of_none hps, cont, hn1]; rfl
  have hbn : byPath st s ["n"] = some n := by
    rw [byPath_cons_of (x := n) [] (by rw [hcs]; simp [lookupC]), byPath_nil]
  rw [rdv_sub_path hpath]
  unfold rdv
  rw [hbn]
  simp only [Option.map_some, Option.some.injEq]
  by_cases hq : v.startsWith "?" = true
  · rw [if_pos hq] at hn3
    obtain ⟨vn, hvn, hg⟩ := hn3
    have hpn : ptr st n = some vn := by rw [ptr, hg]; rfl
    have hpv : ptr st vn = none := by rw [ptr, (hv.emp v vn hvn).2]; rfl
    rw [deref_step hw.inv.acyc hpn, deref_of_none hpv]
    unfold envVal
    have hex : ∃ x, lookupC x vars = some vn := ⟨v, hvn⟩
    rw [dif_pos hex]
    have : Classical.choose hex = v := hv.inj _ _ _ (Classical.choose_spec hex) hvn
    rw [this, if_pos (hvar hq)]
  · rw [if_neg hq] at hn3
    have hpn : ptr st n = none := by rw [ptr, hn3]; rfl
    rw [deref_of_none hpn]
    obtain ⟨e1, e2⟩ := hconst hq
    unfold envVal
    have hnex : ¬ ∃ x, lookupC x vars = some n := by
      rintro ⟨x, hx⟩
      have := (hv.emp x n hx).2
      rw [hn3] at this
      simp [atomN, emptyNode] at this
    rw [dif_neg hnex]
    unfold dfltVal
    have hval : val st n = some v := by rw [val, hn3]; rfl
    rw [hval]
    simp only [Option.getD_some]
    rw [if_pos e2, e1]

theorem pr_cov {C : Ctx} {st : Store} {rk : Nat → Nat} (hw : WFS st rk) {F k : Nat} {pr : Spec1}
    (hk : C.spec[k]? = some pr) (hpr : PR st F pr) (env : Env) {d : String} (hd : C.P d)
    (hconst : ∀ f ∈ pr.1.2 :: pr.2.map (·.2), ∀ v, f = some v → ¬ v.startsWith "?" = true →
      C.vf env v = v ∧ C.P v)
    (hvar : ∀ f ∈ pr.1.2 :: pr.2.map (·.2), ∀ v, f = some v → v.startsWith "?" = true →
      C.P (C.vf env v)) : Cov C st F k env := by
  obtain ⟨hfs, bfs, vars, h1, h2, h3, h4, h5, h6⟩ := hpr
  obtain ⟨p1, p2⟩ := root_paths h2
  refine ⟨envVal C.P C.vf st vars env d, envVal_resp h4 env hd, ?_⟩
  rw [prX_spec hk]
  refine ⟨fun v hv => ?_, fun j X v hj => ?_⟩
  · have hm : some v ∈ pr.1.2 :: pr.2.map (·.2) := by rw [hv]; exact List.mem_cons_self ..
    exact sym_read hw h4 env p1 (by rw [← hv]; exact h5) (hconst _ hm v rfl) (hvar _ hm v rfl)
  · obtain ⟨s, hs1, hs2, hs3⟩ := h6 j _ hj
    have hm : some v ∈ pr.1.2 :: pr.2.map (·.2) := by
      refine List.mem_cons_of_mem _ ?_
      rw [List.mem_map]
      exact ⟨(Sym.var X, some v), List.mem_of_getElem? hj, rfl⟩
    exact sym_read hw h4 env (p2 j s hs1) (hs3 X rfl) (hconst _ hm v rfl) (hvar _ hm v rfl)

end Cmp
end Earley
end Pfl
