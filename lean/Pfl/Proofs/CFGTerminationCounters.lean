/-
Helper lemmas for C09_Termination: fuel bounds for the word enumeration loop and for the
counter-based worklist.
-/
import Pfl.Proofs.CFGTermination
import Pfl.Proofs.CFGCounters
namespace Pfl
namespace CFG
namespace Term

/-! ### `wordsLoop` with a length bound -/

/-- with `max_length = m` the loop runs for the lengths `cur, …, m` and then stops -/
theorem wordsLoop_isSome (N : CFG) (s : String) (m : Nat) :
    ∀ fuel cur noMod rows acc, 1 ≤ fuel → m + 2 ≤ fuel + cur →
      (wordsLoop N s (some m) fuel cur noMod rows acc).isSome := by
  intro fuel
  induction fuel with
  | zero => intro cur noMod rows acc h; omega
  | succ n ih =>
    intro cur noMod rows acc _ hb
    unfold wordsLoop
    simp only
    by_cases hc : cur ≤ m
    · simp only [hc, decide_true, if_true]
      repeat' split
      all_goals first | rfl | exact ih _ _ _ _ (by omega) (by omega)
    · simp [hc]

/-! ### the counter worklist -/

/-- one pass over the impact list keeps `found` duplicate-free and inside `U`, and pushes exactly
the symbols it adds to `found` -/
theorem touch_spec (U : List Sym) :
    ∀ (hits : List (String × Nat)) (found todo : List Sym) (rem : Remaining) (log : List (String × Nat)),
      found.Nodup → (∀ s ∈ found, s ∈ U) → (∀ e ∈ hits, Sym.var e.1 ∈ U) →
      (touch found todo rem log hits).1.Nodup ∧
      (∀ s ∈ (touch found todo rem log hits).1, s ∈ U) ∧
      (touch found todo rem log hits).2.1.length + found.length =
        (touch found todo rem log hits).1.length + todo.length := by
  intro hits
  induction hits with
  | nil => intro found todo rem log hnd hU _; exact ⟨hnd, hU, by simp [touch]; omega⟩
  | cons e hits ih =>
    intro found todo rem log hnd hU hh
    obtain ⟨h, i⟩ := e
    have hh' : ∀ e ∈ hits, Sym.var e.1 ∈ U := fun e he => hh e (List.mem_cons_of_mem _ he)
    unfold touch
    split
    · exact ih _ _ _ _ hnd hU hh'
    · rename_i hnf
      simp only
      split
      · have hnd' : (found ++ [Sym.var h]).Nodup := by
          rw [List.nodup_append]
          refine ⟨hnd, by simp, ?_⟩
          intro a ha b hb
          simp only [List.mem_singleton] at hb
          subst hb
          intro e; subst e; exact hnf ha
        have hU' : ∀ s ∈ found ++ [Sym.var h], s ∈ U := by
          intro s hs
          rcases List.mem_append.mp hs with hs | hs
          · exact hU s hs
          · simp only [List.mem_singleton] at hs
            subst hs
            exact hh (h, i) List.mem_cons_self
        obtain ⟨h1, h2, h3⟩ := ih (found ++ [Sym.var h]) (Sym.var h :: todo) _ _ hnd' hU' hh'
        refine ⟨h1, h2, ?_⟩
        simp only [List.length_append, List.length_cons, List.length_nil] at h3
        omega
      · exact ih _ _ _ _ hnd hU hh'

/-- every symbol is popped at most once: with all pushable symbols in `U`, fuel `|U|` suffices
(in general `|todo| + |U| - |found|`) -/
theorem countLoop_isSome (imp : Impacts) (U : List Sym) (hU : ∀ e ∈ imp, Sym.var e.2.1 ∈ U) :
    ∀ (fuel : Nat) (found todo : List Sym) (rem : Remaining) (log : List (String × Nat)),
      found.Nodup → (∀ s ∈ found, s ∈ U) → todo.length + U.length ≤ fuel + found.length →
      (countLoop imp fuel found todo rem log).isSome := by
  intro fuel
  induction fuel with
  | zero =>
    intro found todo rem log hnd hfU hlt
    have hle : found.length ≤ U.length := List.Nodup.length_le_of_subset hnd hfU
    cases todo with
    | nil => simp [countLoop]
    | cons a t => simp at hlt; omega
  | succ n ih =>
    intro found todo rem log hnd hfU hlt
    cases todo with
    | nil => simp [countLoop]
    | cons cur todo =>
      simp only [countLoop]
      have hhits : ∀ e ∈ (imp.filterMap fun e => if e.1 = cur then some (e.2.1, e.2.2) else none),
          Sym.var e.1 ∈ U := by
        intro e he
        obtain ⟨x, hx, hxe⟩ := List.mem_filterMap.mp he
        split at hxe
        · cases hxe; exact hU x hx
        · cases hxe
      obtain ⟨h1, h2, h3⟩ := touch_spec U _ found todo rem log hnd hfU hhits
      refine ih _ _ _ _ h1 h2 ?_
      simp only [List.length_cons] at hlt
      generalize touch found todo rem log _ = r at h3 ⊢
      obtain ⟨f', t', r', l'⟩ := r
      simp only at h3 ⊢
      omega

theorem genCounters_isSome_of (G : CFG) (nullable : Bool) (rem : Remaining) (imp : Impacts)
    (added : List String) (fuel : Nat) (U : List Sym)
    (hadd : ∀ a ∈ added, Sym.var a ∈ U) (hter : nullable = false → ∀ t ∈ G.ters, Sym.ter t ∈ U)
    (himp : ∀ e ∈ imp, Sym.var e.2.1 ∈ U) (hf : U.length ≤ fuel) :
    (G.genCounters nullable rem imp added fuel).isSome := by
  unfold genCounters
  simp only
  have hseed : ∀ s ∈ (added.map Sym.var ++ (if nullable then [] else G.ters.map Sym.ter)).eraseDups,
      s ∈ U := by
    intro s hs
    rw [List.mem_eraseDups] at hs
    rcases List.mem_append.mp hs with hs | hs
    · obtain ⟨a, ha, rfl⟩ := List.mem_map.mp hs
      exact hadd a ha
    · cases nullable with
      | true => simp at hs
      | false =>
        simp only [Bool.false_eq_true, if_false] at hs
        obtain ⟨t, ht, rfl⟩ := List.mem_map.mp hs
        exact hter rfl t ht
  have := countLoop_isSome imp U himp fuel _
    (added.map Sym.var ++ (if nullable then [] else G.ters.map Sym.ter)).eraseDups.reverse rem []
    (Clean.nodup_eraseDups _) hseed (by simp only [List.length_reverse]; omega)
  obtain ⟨r, hr⟩ := Option.isSome_iff_exists.mp this
  rw [hr]
  rfl

/-- the heads recorded by `buildTables` are heads of productions -/
theorem buildTables_heads (G : CFG) :
    (∀ a ∈ G.buildTables.2.2, ∃ p ∈ G.prods, p.1 = a) ∧
    (∀ e ∈ G.buildTables.2.1, ∃ p ∈ G.prods, p.1 = e.2.1) := by
  have inv := Ctr.binv_buildTables G
  constructor
  · intro a ha
    exact ⟨(a, []), (inv.t4 a).mp ha, rfl⟩
  · intro e he
    have hm : e.1 ∈ Ctr.occ G.buildTables.2.1 e.2.1 e.2.2 := (Ctr.mem_occ _ _ _ _).mpr he
    have hne : Ctr.occ G.buildTables.2.1 e.2.1 e.2.2 ≠ [] := by
      intro h0; rw [h0] at hm; cases hm
    exact ⟨_, inv.t2 _ _ hne, rfl⟩

end Term
end CFG
end Pfl
