/-
Helper lemmas for C12_Classes: the saturation loop `closeStep`/`iter` (soundness, fixpoint after
`|prods|+1` rounds, completeness) and the worklist `reachable`.
-/
import Pfl.Proofs.CFGBase
namespace Pfl
namespace CFG

/-! ### one production step of `closeStep` -/

/-- the body of the fold in `closeStep` -/
def stepF (S : List Sym) (p : Prod) : List Sym :=
  if .var p.1 ∉ S ∧ p.2.all (· ∈ S) then S ++ [.var p.1] else S

theorem closeStep_eq (G : CFG) (S : List Sym) : G.closeStep S = G.prods.foldl stepF S := rfl

theorem stepF_cases (S : List Sym) (p : Prod) :
    (stepF S p = S ∧ ((∀ x ∈ p.2, x ∈ S) → .var p.1 ∈ S)) ∨
    (stepF S p = S ++ [.var p.1] ∧ .var p.1 ∉ S ∧ ∀ x ∈ p.2, x ∈ S) := by
  unfold stepF
  by_cases h : .var p.1 ∉ S ∧ p.2.all (· ∈ S)
  · right; rw [if_pos h]; refine ⟨rfl, h.1, ?_⟩; simpa using h.2
  · left; rw [if_neg h]; refine ⟨rfl, ?_⟩
    intro hb
    by_cases hn : Sym.var p.1 ∈ S
    · exact hn
    · exact absurd ⟨hn, by simpa using hb⟩ h

theorem stepF_prefix (S : List Sym) (p : Prod) : S <+: stepF S p := by
  rcases stepF_cases S p with h | h
  · rw [h.1]; exact List.prefix_refl _
  · rw [h.1]; exact List.prefix_append _ _

theorem fold_prefix (ps : List Prod) : ∀ S : List Sym, S <+: ps.foldl stepF S := by
  induction ps with
  | nil => intro S; exact List.prefix_refl _
  | cons p ps ih =>
    intro S; rw [List.foldl_cons]
    exact List.IsPrefix.trans (stepF_prefix S p) (ih _)

/-- any property of symbols closed under the production rule is preserved -/
theorem fold_forall (Q : Sym → Prop) (ps : List Prod)
    (hQ : ∀ p ∈ ps, (∀ x ∈ p.2, Q x) → Q (.var p.1)) :
    ∀ S : List Sym, (∀ x ∈ S, Q x) → ∀ x ∈ ps.foldl stepF S, Q x := by
  induction ps with
  | nil => intro S hS; exact hS
  | cons p ps ih =>
    intro S hS; rw [List.foldl_cons]
    apply ih (fun q hq => hQ q (List.mem_cons_of_mem _ hq))
    rcases stepF_cases S p with h | h
    · rw [h.1]; exact hS
    · rw [h.1]; intro x hx
      rcases List.mem_append.mp hx with hx | hx
      · exact hS x hx
      · simp at hx; subst hx
        exact hQ p List.mem_cons_self (fun y hy => hS y (h.2.2 y hy))

theorem fold_nodup (ps : List Prod) : ∀ S : List Sym, S.Nodup → (ps.foldl stepF S).Nodup := by
  induction ps with
  | nil => intro S hS; exact hS
  | cons p ps ih =>
    intro S hS; rw [List.foldl_cons]
    apply ih
    rcases stepF_cases S p with h | h
    · rw [h.1]; exact hS
    · rw [h.1, List.nodup_append]
      refine ⟨hS, by simp, ?_⟩
      intro a ha b hb
      simp at hb; subst hb
      intro hab; subst hab; exact h.2.1 ha

/-- a pass that adds nothing certifies that `S` is closed under the rule -/
theorem fold_closed (ps : List Prod) :
    ∀ S : List Sym, (ps.foldl stepF S).length = S.length →
      ∀ p ∈ ps, (∀ x ∈ p.2, x ∈ S) → .var p.1 ∈ S := by
  induction ps with
  | nil => intro S _ p hp; cases hp
  | cons p ps ih =>
    intro S hlen q hq
    rw [List.foldl_cons] at hlen
    have hpre := (fold_prefix ps (stepF S p)).length_le
    rcases stepF_cases S p with h | h
    · rw [h.1] at hlen
      rcases List.mem_cons.mp hq with hq | hq
      · subst hq; exact h.2
      · exact ih S hlen q hq
    · rw [h.1] at hlen hpre
      simp at hpre; omega

/-- a pass that adds something adds the head of a production that was missing -/
theorem fold_new (ps : List Prod) :
    ∀ S : List Sym, (ps.foldl stepF S).length ≠ S.length →
      ∃ p ∈ ps, .var p.1 ∉ S ∧ .var p.1 ∈ ps.foldl stepF S := by
  induction ps with
  | nil => intro S h; exact absurd rfl h
  | cons p ps ih =>
    intro S hlen
    rw [List.foldl_cons] at hlen ⊢
    rcases stepF_cases S p with h | h
    · rw [h.1] at hlen ⊢
      obtain ⟨q, hq, h1, h2⟩ := ih S hlen
      exact ⟨q, List.mem_cons_of_mem _ hq, h1, h2⟩
    · refine ⟨p, List.mem_cons_self, h.2.1, ?_⟩
      apply (fold_prefix ps (stepF S p)).subset
      rw [h.1]; simp

/-! ### `closeStep` and `iter` -/

theorem closeStep_prefix (G : CFG) (S : List Sym) : S <+: G.closeStep S := fold_prefix _ _

theorem closeStep_forall (G : CFG) (Q : Sym → Prop)
    (hQ : ∀ p ∈ G.prods, (∀ x ∈ p.2, Q x) → Q (.var p.1)) (S : List Sym)
    (hS : ∀ x ∈ S, Q x) : ∀ x ∈ G.closeStep S, Q x := fold_forall Q _ hQ S hS

theorem closeStep_nodup (G : CFG) (S : List Sym) (h : S.Nodup) : (G.closeStep S).Nodup :=
  fold_nodup _ S h

theorem iter_inv {α : Type} (f : α → α) (P : α → Prop) (hP : ∀ x, P x → P (f x)) :
    ∀ n x, P x → P (iter f n x) := by
  intro n; induction n with
  | zero => intro x hx; exact hx
  | succ n ih => intro x hx; exact ih _ (hP x hx)

theorem iter_fix {α : Type} (f : α → α) (x : α) (h : f x = x) : ∀ n, iter f n x = x := by
  intro n; induction n with
  | zero => rfl
  | succ n ih => show iter f n (f x) = x; rw [h]; exact ih

theorem iter_prefix (G : CFG) : ∀ n S, S <+: iter G.closeStep n S := by
  intro n; induction n with
  | zero => intro S; exact List.prefix_refl _
  | succ n ih => intro S; exact (closeStep_prefix G S).trans (ih _)

/-- `S` is closed under "body inside ⇒ head inside" -/
def Closed (G : CFG) (S : List Sym) : Prop :=
  ∀ p ∈ G.prods, (∀ x ∈ p.2, x ∈ S) → .var p.1 ∈ S

theorem closed_of_closeStep_eq (G : CFG) (S : List Sym) (h : G.closeStep S = S) : G.Closed S :=
  fold_closed G.prods S (by rw [← closeStep_eq, h])

theorem countP_lt_of {α : Type} (l : List α) (p q : α → Bool) (hqp : ∀ x ∈ l, q x → p x)
    (a : α) (ha : a ∈ l) (hpa : p a) (hqa : ¬ q a) : l.countP q < l.countP p := by
  induction l with
  | nil => cases ha
  | cons b l ih =>
    have hmono : l.countP q ≤ l.countP p :=
      List.countP_mono_left (fun x hx => hqp x (List.mem_cons_of_mem _ hx))
    rcases List.mem_cons.mp ha with hab | hal
    · subst hab
      rw [List.countP_cons, List.countP_cons]
      simp only [hpa, if_true]
      have : q a = false := by simpa using hqa
      simp only [this]
      simp; omega
    · have := ih (fun x hx => hqp x (List.mem_cons_of_mem _ hx)) hal
      rw [List.countP_cons, List.countP_cons]
      by_cases hqb : q b
      · have hpb := hqp b List.mem_cons_self hqb
        simp only [hqb, hpb, if_true]; omega
      · have : q b = false := by simpa using hqb
        simp only [this]
        by_cases hpb : p b
        · simp only [hpb, if_true]; simp; omega
        · have : p b = false := by simpa using hpb
          simp only [this]; simp; omega

/-- number of productions whose head is still missing -/
def missing (G : CFG) (S : List Sym) : Nat :=
  G.prods.countP (fun p => decide (Sym.var p.1 ∉ S))

theorem missing_le (G : CFG) (S : List Sym) : G.missing S ≤ G.prods.length :=
  List.countP_le_length

theorem missing_lt (G : CFG) (S : List Sym) (h : (G.closeStep S).length ≠ S.length) :
    G.missing (G.closeStep S) < G.missing S := by
  obtain ⟨p, hp, h1, h2⟩ := fold_new G.prods S h
  rw [← closeStep_eq] at h2
  unfold missing
  apply countP_lt_of _ _ _ _ p hp
  · simpa using h1
  · simpa using h2
  · intro x _ hx
    simp only [decide_eq_true_eq] at hx ⊢
    exact fun hm => hx ((closeStep_prefix G S).subset hm)

theorem iter_fixpoint (G : CFG) : ∀ n S, G.missing S < n →
    G.closeStep (iter G.closeStep n S) = iter G.closeStep n S := by
  intro n; induction n with
  | zero => intro S h; omega
  | succ n ih =>
    intro S h
    show G.closeStep (iter G.closeStep n (G.closeStep S)) = iter G.closeStep n (G.closeStep S)
    by_cases hlen : (G.closeStep S).length = S.length
    · have heq : G.closeStep S = S := ((closeStep_prefix G S).eq_of_length hlen.symm).symm
      rw [heq, iter_fix _ _ heq n, heq]
    · have := missing_lt G S hlen
      exact ih _ (by omega)

theorem iter_closed (G : CFG) (S : List Sym) :
    G.Closed (iter G.closeStep (G.prods.length + 1) S) :=
  closed_of_closeStep_eq G _ (iter_fixpoint G _ S (by have := missing_le G S; omega))

/-! ### completeness of a closed set -/

theorem closed_complete_gen (G : CFG) (hG : G.WF) (S : List Sym) (hc : G.Closed S)
    (hb : ∀ t ∈ G.ters, Sym.ter t ∈ S) {s : Sym} {w : List String} (h : G.Gen s w) :
    (∀ t, s = .ter t → Sym.ter t ∈ S) → s ∈ S := by
  refine Gen.rec (G := G)
    (motive_1 := fun s _ _ => (∀ t, s = .ter t → Sym.ter t ∈ S) → s ∈ S)
    (motive_2 := fun u _ _ => (∀ t, Sym.ter t ∈ u → Sym.ter t ∈ S) → ∀ x ∈ u, x ∈ S)
    ?_ ?_ ?_ ?_ h
  · intro t ht; exact ht t rfl
  · intro h body w hp _ ih _
    exact hc (h, body) hp (ih (fun t ht => hb t (hG.ter_mem (h, body) hp t ht)))
  · intro _ x hx; cases hx
  · intro s u w₁ w₂ _ _ ih1 ih2 ht x hx
    rcases List.mem_cons.mp hx with hx | hx
    · subst hx; exact ih1 (fun t e => ht t (by rw [e]; exact List.mem_cons_self))
    · exact ih2 (fun t h => ht t (List.mem_cons_of_mem _ h)) x hx

theorem closed_complete_null (G : CFG) (S : List Sym) (hc : G.Closed S)
    {s : Sym} {w : List String} (h : G.Gen s w) : w = [] → s ∈ S := by
  refine Gen.rec (G := G)
    (motive_1 := fun s w _ => w = [] → s ∈ S)
    (motive_2 := fun u w _ => w = [] → ∀ x ∈ u, x ∈ S)
    ?_ ?_ ?_ ?_ h
  · intro t ht; cases ht
  · intro h body w hp _ ih hw
    exact hc (h, body) hp (ih hw)
  · intro _ x hx; cases hx
  · intro s u w₁ w₂ _ _ ih1 ih2 hw x hx
    have hw' := List.append_eq_nil_iff.mp hw
    rcases List.mem_cons.mp hx with hx | hx
    · subst hx; exact ih1 hw'.1
    · exact ih2 hw'.2 x hx

/-! ### assembling `GenList` from the body symbols -/

theorem genList_of_forall (G : CFG) (u : List Sym) (h : ∀ x ∈ u, ∃ w, G.Gen x w) :
    ∃ w, G.GenList u w := by
  induction u with
  | nil => exact ⟨[], GenList.nil⟩
  | cons s u ih =>
    obtain ⟨w₁, h1⟩ := h s List.mem_cons_self
    obtain ⟨w₂, h2⟩ := ih (fun x hx => h x (List.mem_cons_of_mem _ hx))
    exact ⟨w₁ ++ w₂, GenList.cons h1 h2⟩

theorem genList_nil_of_forall (G : CFG) (u : List Sym) (h : ∀ x ∈ u, G.Gen x []) :
    G.GenList u [] := by
  induction u with
  | nil => exact GenList.nil
  | cons s u ih =>
    have := GenList.cons (h s List.mem_cons_self) (ih (fun x hx => h x (List.mem_cons_of_mem _ hx)))
    simpa using this

/-! ### reachability -/

/-- the successor function used by `reachable` -/
def rnext (G : CFG) (x : Sym) : List Sym :=
  match x with
  | .var v => G.prods.flatMap fun p => if p.1 = v then p.2 else []
  | .ter _ => []

theorem mem_rnext (G : CFG) (x y : Sym) :
    y ∈ G.rnext x ↔ ∃ v body, x = .var v ∧ (v, body) ∈ G.prods ∧ y ∈ body := by
  cases x with
  | ter t => simp [rnext]
  | var v =>
    simp only [rnext, List.mem_flatMap]
    constructor
    · rintro ⟨p, hp, hy⟩
      by_cases hv : p.1 = v
      · rw [if_pos hv] at hy
        exact ⟨v, p.2, rfl, by rw [← hv]; exact hp, hy⟩
      · rw [if_neg hv] at hy; cases hy
    · rintro ⟨v', body, hv, hp, hy⟩
      cases hv
      exact ⟨(v, body), hp, by simpa using hy⟩

theorem reachable_eq (G : CFG) (s : String) (hs : G.start = some s) :
    G.reachable = (bfs G.rnext ((G.prods.flatMap (·.2)).length + 2) [Sym.var s]).getD [] := by
  unfold reachable; rw [hs]; rfl

theorem reachable_bfs_isSome (G : CFG) (s : String) :
    (bfs G.rnext ((G.prods.flatMap (·.2)).length + 2) [Sym.var s]).isSome := by
  unfold bfs
  have he : [Sym.var s].eraseDups = [Sym.var s] := by simp [List.eraseDups_cons]
  rw [he]
  apply bfsK_isSome id G.rnext (Sym.var s :: G.prods.flatMap (·.2))
  · intro x y hy
    obtain ⟨v, body, _, hp, hyb⟩ := (mem_rnext G x y).mp hy
    exact List.mem_cons_of_mem _ (List.mem_flatMap.mpr ⟨(v, body), hp, hyb⟩)
  · simp
  · intro z hz; simp at hz; subst hz; exact List.mem_cons_self
  · simp only [List.length_cons, List.length_nil]; omega

theorem reach_to_derives (G : CFG) (st : String) (x : Sym)
    (h : Reach G.rnext (Sym.var st) x) : ∃ u v, G.Derives [.var st] (u ++ [x] ++ v) := by
  induction h with
  | refl => exact ⟨[], [], Derives.refl _⟩
  | @tail y z _ hz ih =>
    obtain ⟨u, v, hd⟩ := ih
    obtain ⟨h, body, hy, hp, hzb⟩ := (mem_rnext G y z).mp hz
    subst hy
    obtain ⟨b₁, b₂, hb⟩ := List.append_of_mem hzb
    have hstep : G.Derives (u ++ [Sym.var h] ++ v) (u ++ body ++ v) :=
      Derives.step hp (Derives.refl _)
    refine ⟨u ++ b₁, b₂ ++ v, ?_⟩
    have := Derives.trans hd hstep
    rw [hb] at this
    simpa using this

theorem derives_closed (G : CFG) (R : Sym → Prop) (hR : ∀ x y, R x → y ∈ G.rnext x → R y)
    {β α : List Sym} (h : G.Derives β α) : (∀ x ∈ β, R x) → ∀ x ∈ α, R x := by
  induction h with
  | refl u => exact fun h => h
  | @step u v body w h hp _ ih =>
    intro hβ
    apply ih
    intro x hx
    have hh : R (Sym.var h) := hβ _ (by simp)
    simp only [List.mem_append] at hx
    rcases hx with (hx | hx) | hx
    · exact hβ x (by simp [hx])
    · exact hR _ x hh ((mem_rnext G _ x).mpr ⟨h, body, rfl, hp, hx⟩)
    · exact hβ x (by simp [hx])

end CFG
end Pfl
