/-
Termination of `get_llone_parse_tree`, part 3: rebuilding the tree from the leftmost sequence of
productions needs a fuel of one more than the number of productions, and the machine emits at
most one production per step.
-/
import Pfl.Proofs.LL1LibParse
namespace Pfl
namespace LL1Lib
namespace Term
open CFG Lem

/-- the output grows by at most one production per step, and the accepting step adds none -/
theorem parseLoop_out_length (tb : List (String × Look × Pfl.Prod)) :
    ∀ (fuel : Nat) (stack : List (Option Sym)) (input : List String) (out ps : List Pfl.Prod),
      parseLoop tb fuel stack input out = some (some ps) → ps.length + 1 ≤ out.length + fuel := by
  intro fuel
  induction fuel with
  | zero => intro stack input out ps h; rw [parseLoop] at h; cases h
  | succ fuel ih =>
    intro stack input out ps h
    cases stack with
    | nil => simp only [parseLoop] at h; cases h
    | cons top stack =>
      cases top with
      | none =>
        simp only [parseLoop] at h
        split at h
        · cases h; simp
        · cases h
      | some s =>
        cases s with
        | ter t =>
          cases input with
          | nil => simp only [parseLoop] at h; cases h
          | cons a rest =>
            simp only [parseLoop] at h
            split at h
            · have := ih _ _ _ _ h; omega
            · cases h
        | var v =>
          simp only [parseLoop] at h
          split at h
          · have := ih _ _ _ _ h
            simp only [List.length_cons] at this
            omega
          · cases h

/-- `buildTree` succeeds on a leftmost sequence as soon as the fuel exceeds its length -/
theorem buildTree_total : ∀ (fuel : Nat) (s : Sym) (ss : List Sym) (ps : List Pfl.Prod)
    (w : List String), Lm (s :: ss) ps w → ps.length < fuel →
    ∃ t ps' w', buildTree fuel s ps = some (t, ps') ∧ Lm ss ps' w' ∧ ps'.length ≤ ps.length := by
  intro fuel
  induction fuel with
  | zero => intro s ss ps w _ h; omega
  | succ fuel ih =>
    intro s ss ps w hl hlen
    cases s with
    | ter t =>
      obtain ⟨w', _, hl'⟩ := lm_ter_inv hl
      refine ⟨.node (.ter t) [], ps, w', ?_, hl', Nat.le_refl _⟩
      rw [buildTree]
      simp
    | var v =>
      cases hl with
      | var _ _ p rest _ hpv hl' =>
        -- the sons
        have hsons : ∀ (l : List Sym) (ss : List Sym) (ps : List Pfl.Prod) (w : List String),
            Lm (l ++ ss) ps w → ps.length < fuel →
            ∃ ts ps' w', buildTree.sons fuel l ps = some (ts, ps') ∧ Lm ss ps' w' ∧
              ps'.length ≤ ps.length := by
          intro l
          induction l with
          | nil =>
            intro ss ps w h _
            exact ⟨[], ps, w, by rw [buildTree.sons], h, Nat.le_refl _⟩
          | cons x l ihl =>
            intro ss ps w h hlt
            rw [List.cons_append] at h
            obtain ⟨t, ps1, w1, h1, h2, h3⟩ := ih x (l ++ ss) ps w h hlt
            obtain ⟨ts, ps2, w2, h4, h5, h6⟩ := ihl ss ps1 w1 h2 (by omega)
            refine ⟨t :: ts, ps2, w2, ?_, h5, by omega⟩
            rw [buildTree.sons, h1]
            simp only [h4, Option.map_some]
        simp only [List.length_cons] at hlen
        obtain ⟨ts, ps', w', h1, h2, h3⟩ := hsons p.2 ss rest w hl' (by omega)
        refine ⟨.node (.var v) ts, ps', w', ?_, h2, by simp only [List.length_cons]; omega⟩
        rw [buildTree]
        simp only [hpv, ne_eq, not_true_eq_false, if_false, h1, Option.map_some]

end Term
end LL1Lib
end Pfl
